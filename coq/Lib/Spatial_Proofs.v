(** The laws MB_Proofs needs, for the concrete spatial algebra over R. *)
From Coq Require Import Reals Lra Psatz.
Require Import Num Vec Tactics MB Spatial.
Local Open Scope R_scope.

Ltac sunf := cbv [svK shiftVel shiftForce spInertiaMul s0 s1 sadd smul vzero vadd vscale dot phi phiT mapply]; vunf.
Ltac d3 v := destruct v as [[? ?] ?].
Ltac dsv v := destruct v as [[[? ?] ?] [[? ?] ?]].

Lemma sv_s0 : s0 (svK ROps) = 0. Proof. reflexivity. Qed.
Lemma sv_sadd a b : sadd (svK ROps) a b = a + b. Proof. reflexivity. Qed.
Lemma sv_smul a b : smul (svK ROps) a b = a * b. Proof. reflexivity. Qed.
Lemma sv_dot_add_l a b c : dot (svK ROps) (vadd (svK ROps) a b) c = dot (svK ROps) a c + dot (svK ROps) b c.
Proof. dsv a; dsv b; dsv c. sunf. ring. Qed.
Lemma sv_dot_add_r a b c : dot (svK ROps) a (vadd (svK ROps) b c) = dot (svK ROps) a b + dot (svK ROps) a c.
Proof. dsv a; dsv b; dsv c. sunf. ring. Qed.
Lemma sv_dot_scale_r s a b : dot (svK ROps) a (vscale (svK ROps) s b) = s * dot (svK ROps) a b.
Proof. dsv a; dsv b. sunf. ring. Qed.
Lemma sv_dot_zero_r a : dot (svK ROps) a (vzero (svK ROps)) = 0.
Proof. dsv a. sunf. ring. Qed.
Lemma sv_dot_zero_l a : dot (svK ROps) (vzero (svK ROps)) a = 0.
Proof. dsv a. sunf. ring. Qed.
Lemma sv_dot_sym a b : dot (svK ROps) a b = dot (svK ROps) b a.
Proof. dsv a; dsv b. sunf. ring. Qed.
(** shifting forces inward is the adjoint of shifting velocities outward *)
Lemma sv_phi_adj l f a : dot (svK ROps) (phi (svK ROps) l f) a = dot (svK ROps) f (phiT (svK ROps) l a).
Proof. d3 l; dsv f; dsv a. sunf. ring. Qed.
(** a rigid-body spatial inertia is a symmetric operator *)
Lemma sv_M_sym (i : SpInertia (T:=R)) a b : dot (svK ROps) (mapply (svK ROps) i a) b = dot (svK ROps) a (mapply (svK ROps) i b).
Proof. destruct i as [[m p] [[[? ?] ?] [[? ?] ?]]]. d3 p; dsv a; dsv b. sunf. ring. Qed.

(** <M a, a> = m |v + w x p|^2 + w . Ic w  with Ic = I - m (|p|^2 1 - p p^T) the central inertia;
    hence PSD whenever m >= 0 and the central inertia is PSD *)
Definition centralForm (i : SpInertia (T:=R)) (w : Vec3 R) : R :=
  let '(m, p, Io) := i in
  v3_dot ROps w (sym_mulv ROps Io w) - m * (v3_normSqr ROps p * v3_normSqr ROps w - (v3_dot ROps p w) * (v3_dot ROps p w)).
Lemma sv_M_quadratic (i : SpInertia (T:=R)) a :
  dot (svK ROps) (mapply (svK ROps) i a) a =
  (let '(m,p,_) := i in m * v3_normSqr ROps (v3_add ROps (snd a) (v3_cross ROps (fst a) p))) + centralForm i (fst a).
Proof. destruct i as [[m p] [[[? ?] ?] [[? ?] ?]]]. d3 p; dsv a. unfold centralForm. sunf. ring. Qed.
Lemma sv_M_psd (i : SpInertia (T:=R)) : (let '(m,_,_) := i in 0 <= m) -> (forall w, 0 <= centralForm i w) ->
  forall a, 0 <= dot (svK ROps) (mapply (svK ROps) i a) a.
Proof. intros Hm Hc a. rewrite sv_M_quadratic. specialize (Hc (fst a)).
  destruct i as [[m p] Io]. assert (0 <= v3_normSqr ROps (v3_add ROps (snd a) (v3_cross ROps (fst a) p))).
  { generalize (v3_add ROps (snd a) (v3_cross ROps (fst a) p)). intros [[x y] z]. vunf. nra. }
  nra. Qed.
