(** Rose trees with the nested induction principle, outward (root-to-leaf) and inward
    (leaf-to-root) passes, and sums over nodes.  Body indices in simbody are preorder
    positions (parents precede children), which is [flatten]. *)
From Coq Require Import List Reals Lra.
Import ListNotations.

Inductive tree (A:Type) : Type := Node : A -> list (tree A) -> tree A.
Arguments Node {A}.

Section TreeInd.
Context {A:Type} (P : tree A -> Prop).
Hypothesis step : forall a cs, Forall P cs -> P (Node a cs).
Fixpoint tree_ind' (t : tree A) : P t :=
  match t with Node a cs =>
    step a cs ((fix go (l : list (tree A)) : Forall P l :=
                 match l with [] => Forall_nil P | c :: r => Forall_cons c (tree_ind' c) (go r) end) cs)
  end.
End TreeInd.

Definition root {A} (t : tree A) : A := match t with Node a _ => a end.
Definition kids {A} (t : tree A) : list (tree A) := match t with Node _ cs => cs end.

Section Ops.
Context {A B : Type}.
Fixpoint tmap (f : A -> B) (t : tree A) : tree B :=
  match t with Node a cs => Node (f a) (map (tmap f) cs) end.
(** preorder list of node values *)
Fixpoint flatten (t : tree A) : list A :=
  match t with Node a cs => a :: flat_map flatten cs end.
(** outward pass: each node's value is computed from its parent's value and its own data;
    the result keeps the original data next to the computed value *)
Fixpoint outward (f : B -> A -> B) (bp : B) (t : tree A) : tree (A * B) :=
  match t with Node a cs => let b := f bp a in Node (a, b) (map (outward f b) cs) end.
(** inward pass: each node's value from its own data and the (data, value) of its children *)
Fixpoint inward (g : A -> list (A * B) -> B) (t : tree A) : tree (A * B) :=
  match t with Node a cs =>
    let rs := map (inward g) cs in
    Node (a, g a (map root rs)) rs
  end.
End Ops.

Fixpoint tsum (t : tree R) : R :=
  match t with Node a cs => (a + fold_right (fun c s => tsum c + s) 0 cs)%R end.

Lemma tmap_tmap {A B C} (f : A -> B) (g : B -> C) (t : tree A) : tmap g (tmap f t) = tmap (fun x => g (f x)) t.
Proof. induction t as [a cs IH] using tree_ind'. cbn. f_equal. rewrite map_map.
  induction cs as [|c r IHr]; cbn; auto. inversion IH; subst. f_equal; auto. Qed.

Lemma tmap_ext {A B} (f g : A -> B) (t : tree A) : (forall x, f x = g x) -> tmap f t = tmap g t.
Proof. intros E. induction t as [a cs IH] using tree_ind'. cbn. rewrite E. f_equal.
  induction cs as [|c r IHr]; cbn; auto. inversion IH; subst. f_equal; auto. Qed.

Lemma tsum_plus {A} (f g : A -> R) (t : tree A) :
  (tsum (tmap (fun x => f x + g x) t) = tsum (tmap f t) + tsum (tmap g t))%R.
Proof. induction t as [a cs IH] using tree_ind'. cbn.
  assert (E : (fold_right (fun c s => tsum c + s) 0 (map (tmap (fun x => f x + g x)) cs)
             = fold_right (fun c s => tsum c + s) 0 (map (tmap f) cs) + fold_right (fun c s => tsum c + s) 0 (map (tmap g) cs))%R).
  { induction cs as [|c r IHr]; cbn; [lra|]. inversion IH; subst. rewrite H1, IHr by auto. lra. }
  rewrite E. lra. Qed.

Lemma tsum_scale {A} (k:R) (f : A -> R) (t : tree A) : (tsum (tmap (fun x => k * f x) t) = k * tsum (tmap f t))%R.
Proof. induction t as [a cs IH] using tree_ind'. cbn.
  assert (E : (fold_right (fun c s => tsum c + s) 0 (map (tmap (fun x => k * f x)) cs)
             = k * fold_right (fun c s => tsum c + s) 0 (map (tmap f) cs))%R).
  { induction cs as [|c r IHr]; cbn; [lra|]. inversion IH; subst. rewrite H1, IHr by auto. lra. }
  rewrite E. lra. Qed.

Lemma tsum_nonneg {A} (f : A -> R) (t : tree A) : (forall x, 0 <= f x)%R -> (0 <= tsum (tmap f t))%R.
Proof. intros Hf. induction t as [a cs IH] using tree_ind'. cbn.
  assert (E : (0 <= fold_right (fun c s => tsum c + s) 0 (map (tmap f) cs))%R).
  { induction cs as [|c r IHr]; cbn; [lra|]. inversion IH; subst. specialize (IHr H2). lra. }
  specialize (Hf a). lra. Qed.

(** ** structural lemmas about passes *)
Lemma tmap_fst_outward {A B} (f : B -> A -> B) b (t : tree A) : tmap fst (outward f b t) = t.
Proof. revert b. induction t as [a cs IH] using tree_ind'. intros b. cbn. f_equal. rewrite map_map.
  induction cs as [|c r IHr]; cbn; auto. inversion IH; subst. f_equal; auto. Qed.

Lemma outward_conj {A B C} (f : B -> A -> B) (f' : C -> A -> C) (h : B -> C) :
  (forall b a, h (f b a) = f' (h b) a) ->
  forall (t : tree A) b, tmap (fun ab => (fst ab, h (snd ab))) (outward f b t) = outward f' (h b) t.
Proof. intros Hh. induction t as [a cs IH] using tree_ind'. intros b. cbn. rewrite Hh. f_equal. rewrite map_map.
  induction cs as [|c r IHr]; cbn; auto. inversion IH; subst. f_equal; auto. rewrite H1, Hh. reflexivity. Qed.

Lemma outward_outward {A B C} (f : B -> A -> B) (g : C -> A -> C) :
  forall (t : tree A) b c,
  tmap (fun abc => (fst (fst abc), (snd (fst abc), snd abc))) (outward (fun c ab => g c (fst ab)) c (outward f b t))
  = outward (fun bc a => (f (fst bc) a, g (snd bc) a)) (b, c) t.
Proof. induction t as [a cs IH] using tree_ind'. intros b c. cbn. f_equal. rewrite !map_map.
  induction cs as [|k r IHr]; cbn; auto. inversion IH; subst. f_equal; auto. Qed.

Lemma flatten_tmap {A B} (f : A -> B) (t : tree A) : flatten (tmap f t) = map f (flatten t).
Proof. induction t as [a cs IH] using tree_ind'. cbn. f_equal.
  induction cs as [|c r IHr]; cbn; auto. inversion IH; subst. rewrite map_app. f_equal; auto. Qed.

Lemma tsum_nonneg_in {A} (f : A -> R) (t : tree A) : (forall x, In x (flatten t) -> 0 <= f x)%R -> (0 <= tsum (tmap f t))%R.
Proof. induction t as [a cs IH] using tree_ind'. intros Hf. cbn.
  assert (E : (0 <= fold_right (fun c s => tsum c + s) 0 (map (tmap f) cs))%R).
  { assert (Hc : forall x, In x (flat_map flatten cs) -> (0 <= f x)%R) by (intros x Hx; apply Hf; cbn; auto).
    clear Hf. induction cs as [|c r IHr]; cbn; [lra|]. inversion IH; subst.
    assert (0 <= tsum (tmap f c))%R by (apply H1; intros x Hx; apply Hc; cbn; apply in_or_app; auto).
    assert (0 <= fold_right (fun c s => tsum c + s) 0 (map (tmap f) r))%R by (apply IHr; auto; intros x Hx; apply Hc; cbn; apply in_or_app; auto).
    lra. }
  assert (0 <= f a)%R by (apply Hf; cbn; auto). lra. Qed.

(** an invariant of the value passed down holds at every node of an outward pass *)
Lemma outward_inv {A B} (f : B -> A -> B) (Inv : B -> Prop) :
  (forall b a, Inv b -> Inv (f b a)) ->
  forall (t : tree A) b, Inv b -> Forall (fun ab => Inv (snd ab)) (flatten (outward f b t)).
Proof. intros Hstep. induction t as [a cs IH] using tree_ind'. intros b Hb. cbn. constructor; [cbn; auto|].
  assert (Hfb : Inv (f b a)) by auto. clear Hb. generalize dependent (f b a). intros b' Hb'.
  induction cs as [|c r IHr]; cbn; [constructor|]. inversion IH; subst. apply Forall_app. split; auto. Qed.

(** sums over a tree are sums over its preorder list *)
Definition lsum (l : list R) : R := fold_right Rplus 0%R l.
Lemma lsum_app a b : lsum (a ++ b) = (lsum a + lsum b)%R.
Proof. unfold lsum. induction a; cbn; [lra|]. rewrite IHa. lra. Qed.
Lemma tsum_flatten {A} (f : A -> R) (t : tree A) : tsum (tmap f t) = lsum (map f (flatten t)).
Proof. induction t as [a cs IH] using tree_ind'. cbn. f_equal.
  induction cs as [|c r IHr]; cbn; auto. inversion IH; subst. rewrite map_app, lsum_app, IHr, H1; auto. Qed.
Lemma lsum_cons a l : lsum (a :: l) = (a + lsum l)%R. Proof. reflexivity. Qed.
Lemma lsum_nonneg {A} (f : A -> R) (l : list A) : (forall x, In x l -> 0 <= f x)%R -> (0 <= lsum (map f l))%R.
Proof. induction l as [|b l IHl]; intros Hall; cbn [map]; [unfold lsum; cbn; lra|]. rewrite lsum_cons.
  assert (0 <= f b)%R by (apply Hall; cbn; auto).
  assert (0 <= lsum (map f l))%R by (apply IHl; intros y Hy; apply Hall; cbn; auto). lra. Qed.
Lemma lsum_pos {A} (f : A -> R) (l : list A) :
  (forall x, In x l -> 0 <= f x)%R -> (exists x, In x l /\ 0 < f x)%R -> (0 < lsum (map f l))%R.
Proof. induction l as [|a l IH]; intros Hall [x [Hin Hpos]]; [destruct Hin|]. cbn [map]. rewrite lsum_cons.
  assert (Hl : (0 <= lsum (map f l))%R) by (apply lsum_nonneg; intros y Hy; apply Hall; cbn; auto).
  assert (Ha : (0 <= f a)%R) by (apply Hall; cbn; auto).
  destruct Hin as [->|Hin]; [lra|].
  assert (0 < lsum (map f l))%R by (apply IH; [intros y Hy; apply Hall; cbn; auto | exists x; auto]). lra. Qed.

(** conjugation of an inward pass by a map on the computed values *)
Lemma inward_conj {A B C} (g : A -> list (A * B) -> B) (g' : A -> list (A * C) -> C) (h : B -> C) :
  (forall a rs, h (g a rs) = g' a (map (fun r => (fst r, h (snd r))) rs)) ->
  forall (t : tree A), tmap (fun ab => (fst ab, h (snd ab))) (inward g t) = inward g' t.
Proof. intros Hh. induction t as [a cs IH] using tree_ind'. cbn.
  assert (E : map (tmap (fun ab : A * B => (fst ab, h (snd ab)))) (map (inward g) cs) = map (inward g') cs).
  { induction cs as [|c r IHr]; cbn; auto. inversion IH; subst. f_equal; auto. }
  rewrite E. f_equal. f_equal. rewrite Hh. f_equal. rewrite <- E. rewrite !map_map.
  apply map_ext. intros c. destruct (inward g c) as [[x y] ks]. reflexivity. Qed.
