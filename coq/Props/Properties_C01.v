(** C01 property theorems (statements only; proofs in C01/C01_Proofs.v and Lib/MB_Proofs.v). *)
From Coq Require Import List Reals.
Import ListNotations.
Require Import Num Vec Tree MB MB_Proofs Spatial Spatial_Proofs C01_Proofs.
Local Open Scope R_scope.

Section P.
Context {X : Type} (nd : X -> node (SpatialVec R) (Vec3 R) (SpInertia (T:=R))).
Notation KR := (svK ROps).

Theorem C01_mulM_is_JtMJ (u v : X -> list R) (t : tree X) :
  tsum (tmap (fun xt => dotU KR (snd xt) (v (fst (fst xt)))) (mulM KR nd u t)) = Mform KR nd u v t.
Proof. exact (mulM_is_JtMJ nd u v t). Qed.

Theorem C01_M_symmetric (u v : X -> list R) (t : tree X) :
  tsum (tmap (fun xt => dotU KR (snd xt) (v (fst (fst xt)))) (mulM KR nd u t))
  = tsum (tmap (fun xt => dotU KR (snd xt) (u (fst (fst xt)))) (mulM KR nd v t)).
Proof. exact (M_symmetric nd u v t). Qed.

Theorem C01_uMu_is_twice_KE (u : X -> list R) (t : tree X) :
  tsum (tmap (fun xt => dotU KR (snd xt) (u (fst (fst xt)))) (mulM KR nd u t)) = tsum (ke2_terms KR nd u t).
Proof. exact (uMu_is_twice_KE nd u t). Qed.

Theorem C01_M_positive_semidefinite (u : X -> list R) (t : tree X) :
  (forall x, In x (flatten t) -> (let '(m,_,_) := n_M (nd x) in 0 <= m) /\ (forall w, 0 <= centralForm (n_M (nd x)) w)) ->
  0 <= tsum (tmap (fun xt => dotU KR (snd xt) (u (fst (fst xt)))) (mulM KR nd u t)).
Proof. exact (M_positive_semidefinite nd u t). Qed.

Theorem C01_M_positive_definite_partial (u : X -> list R) (t : tree X) :
  (forall xv, In xv (flatten (mulJ KR nd u t)) -> 0 <= dot KR (mapply KR (n_M (nd (fst xv))) (snd xv)) (snd xv)) ->
  (exists xv, In xv (flatten (mulJ KR nd u t)) /\ 0 < dot KR (mapply KR (n_M (nd (fst xv))) (snd xv)) (snd xv)) ->
  0 < tsum (tmap (fun xt => dotU KR (snd xt) (u (fst (fst xt)))) (mulM KR nd u t)).
Proof. exact (M_positive_definite_partial nd u t). Qed.
End P.

Theorem C01_psd_hyp_satisfiable : let i : SpInertia (T:=R) := (1, (1,0,0), ((0,1,1),(0,0,0))) in
  (let '(m,_,_) := i in 0 <= m) /\ forall w, 0 <= centralForm i w.
Proof. exact psd_hyp_satisfiable. Qed.

Print Assumptions C01_mulM_is_JtMJ.
Print Assumptions C01_M_symmetric.
Print Assumptions C01_uMu_is_twice_KE.
Print Assumptions C01_M_positive_semidefinite.
Print Assumptions C01_M_positive_definite_partial.
Print Assumptions C01_psd_hyp_satisfiable.
