(** C01 (inverse routes): the O(n) inverse-mass-matrix operator inverts the mass-matrix operator,
    M (M^-1 f) = f, for every tree.  Model of the articulated-body passes: coq/C02/C02_Model.v
    (built for C02, which proves it from the per-node lemma of the articulated-body recursion);
    hypothesis per body: the computed inverse of D = H^T P H is a symmetric inverse. *)
From Coq Require Import List Reals.
Import ListNotations.
Require Import Num Vec Tree MB MB_Proofs Spatial Spatial_Proofs C02_Model C02_Proofs C02_Concrete C02_GJ C01_PD.
Local Open Scope R_scope.

Section P.
Context {X : Type} (nd : X -> node (SpatialVec R) (Vec3 R) (SpInertia (T:=R))) (dy : X -> dyn R (SpatialVec R)).

Theorem C01_mulM_mulMInv_id (t : tree X) :
  (forall y, In y (flatten (abi_pass KR AR nd t)) -> body_ok nd dy y) ->
  Forall (fun r => snd r = d_f (dy (w_x (fst (fst r))))) (flatten (mulM_of_mulMInv KR AR nd dy t)).
Proof. exact (mulM_mulMInv_id_R nd dy t). Qed.

(** the same with the per-body hypothesis discharged for any number of mobilities (C02/C02_GJ.v: the Gauss-Jordan
    inverse of the symmetric block D = H^T P H is a symmetric inverse whenever the elimination pivots are non-zero) *)
Theorem C01_mulM_mulMInv_id_any_dof (t : tree X) :
  (forall y, In y (flatten (abi_pass KR AR nd t)) ->
     length (d_f (dy (fst y))) = length (n_H (nd (fst y))) /\ pivots_ok (a_D (snd y))) ->
  Forall (fun r => snd r = d_f (dy (w_x (fst (fst r))))) (flatten (mulM_of_mulMInv KR AR nd dy t)).
Proof. exact (mulM_mulMInv_id_pivots nd dy t). Qed.

(** and the other side:  M u = f  implies  M^-1 f = u.  So multiplyByMInv is the two-sided inverse of multiplyByM on
    every tree (hypotheses: one force / one speed per mobility, non-zero elimination pivots of every D block). *)
Theorem C01_mulMInv_mulM_id_any_dof (u : X -> list R) (t : tree X) :
  (forall y, In y (flatten (abi_pass KR AR nd t)) ->
     length (d_f (dy (fst y))) = length (n_H (nd (fst y))) /\ length (u (fst y)) = length (n_H (nd (fst y))) /\ pivots_ok (a_D (snd y))) ->
  Forall (fun r => snd r = d_f (dy (fst (fst r)))) (flatten (mulM KR nd u t)) ->
  Forall (fun w => w_ud w = u (w_x w)) (flatten (mulMInv KR AR nd dy t)).
Proof. exact (mulMInv_mulM_id_pivots nd dy u t). Qed.
End P.
Print Assumptions C01_mulM_mulMInv_id.
Print Assumptions C01_mulM_mulMInv_id_any_dof.
Print Assumptions C01_mulMInv_mulM_id_any_dof.

(** POSITIVE DEFINITE (no longer partial): for every tree whose bodies have non-negative mass and positive semi-definite
    central inertia and whose elimination pivots are non-zero, u^T M u = 0 forces u = 0 at every mobility; equivalently a
    speed assignment that is not zero on the tree has positive kinetic energy.  (Proof in C01/C01_PD.v: every body's
    energy term vanishes, a PSD operator annihilates vectors of zero energy, hence M u = 0, and multiplyByMInv is a left
    inverse of multiplyByM.) *)
Section PD.
Context {X : Type} (nd : X -> node (SpatialVec R) (Vec3 R) (SpInertia (T:=R))).
Theorem C01_M_positive_definite (u : X -> list R) (t : tree X) :
  (forall x, In x (flatten t) -> (let '(m,_,_) := n_M (nd x) in 0 <= m) /\ (forall w, 0 <= centralForm (n_M (nd x)) w)) ->
  (forall y, In y (flatten (abi_pass KR AR nd t)) -> length (u (fst y)) = length (n_H (nd (fst y))) /\ pivots_ok (a_D (snd y))) ->
  tsum (tmap (fun xt => dotU KR (snd xt) (u (fst (fst xt)))) (mulM KR nd u t)) = 0 ->
  forall x, In x (flatten t) -> u x = map (fun _ => 0) (n_H (nd x)).
Proof. exact (M_positive_definite nd u t). Qed.
Theorem C01_M_positive_definite_strict (u : X -> list R) (t : tree X) :
  (forall x, In x (flatten t) -> (let '(m,_,_) := n_M (nd x) in 0 <= m) /\ (forall w, 0 <= centralForm (n_M (nd x)) w)) ->
  (forall y, In y (flatten (abi_pass KR AR nd t)) -> length (u (fst y)) = length (n_H (nd (fst y))) /\ pivots_ok (a_D (snd y))) ->
  (exists x, In x (flatten t) /\ u x <> map (fun _ => 0) (n_H (nd x))) ->
  0 < tsum (tmap (fun xt => dotU KR (snd xt) (u (fst (fst xt)))) (mulM KR nd u t)).
Proof. exact (M_positive_definite_strict nd u t). Qed.
End PD.
Theorem C01_positive_definite_example : 0 < tsum (tmap (fun xt => dotU KR (snd xt) (sl_ud (fst (fst xt)))) (mulM KR sl_nd sl_ud sl_t)).
Proof. exact pd_example. Qed.
Print Assumptions C01_M_positive_definite.
Print Assumptions C01_M_positive_definite_strict.
Print Assumptions C01_positive_definite_example.
