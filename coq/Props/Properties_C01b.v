(** C01 (inverse routes): the O(n) inverse-mass-matrix operator inverts the mass-matrix operator,
    M (M^-1 f) = f, for every tree.  Model of the articulated-body passes: coq/C02/C02_Model.v
    (built for C02, which proves it from the per-node lemma of the articulated-body recursion);
    hypothesis per body: the computed inverse of D = H^T P H is a symmetric inverse. *)
From Coq Require Import List Reals.
Import ListNotations.
Require Import Num Vec Tree MB MB_Proofs Spatial Spatial_Proofs C02_Model C02_Proofs C02_Concrete C02_GJ.
Local Open Scope R_scope.

Section P.
Context {X : Type} (nd : X -> node (SpatialVec R) (Vec3 R) (SpInertia (T:=R))) (dy : X -> dyn R (SpatialVec R)).

Theorem C01_mulM_mulMInv_id (t : tree X) :
  (forall y, In y (flatten (abi_pass KR AR nd t)) -> body_ok nd dy y) ->
  Forall (fun r => snd r = d_f (dy (w_x (fst (fst r))))) (flatten (mulM_of_mulMInv KR AR nd dy t)).
Proof. exact (mulM_mulMInv_id_R nd dy t). Qed.

(** the same with the per-body hypothesis discharged for any number of mobilities (C02/C02_GJ.v: the Gauss-Jordan
    inverse of the symmetric block D = H^T P H is a symmetric inverse whenever the elimination pivots are non-zero) *)
Theorem C01_mulM_mulMInv_id_any_dof (t : tree X) :
  (forall y, In y (flatten (abi_pass KR AR nd t)) ->
     length (d_f (dy (fst y))) = length (n_H (nd (fst y))) /\ pivots_ok (a_D (snd y))) ->
  Forall (fun r => snd r = d_f (dy (w_x (fst (fst r))))) (flatten (mulM_of_mulMInv KR AR nd dy t)).
Proof. exact (mulM_mulMInv_id_pivots nd dy t). Qed.

(** and the other side:  M u = f  implies  M^-1 f = u.  So multiplyByMInv is the two-sided inverse of multiplyByM on
    every tree (hypotheses: one force / one speed per mobility, non-zero elimination pivots of every D block). *)
Theorem C01_mulMInv_mulM_id_any_dof (u : X -> list R) (t : tree X) :
  (forall y, In y (flatten (abi_pass KR AR nd t)) ->
     length (d_f (dy (fst y))) = length (n_H (nd (fst y))) /\ length (u (fst y)) = length (n_H (nd (fst y))) /\ pivots_ok (a_D (snd y))) ->
  Forall (fun r => snd r = d_f (dy (fst (fst r)))) (flatten (mulM KR nd u t)) ->
  Forall (fun w => w_ud w = u (w_x w)) (flatten (mulMInv KR AR nd dy t)).
Proof. exact (mulMInv_mulM_id_pivots nd dy u t). Qed.
End P.
Print Assumptions C01_mulM_mulMInv_id.
Print Assumptions C01_mulM_mulMInv_id_any_dof.
Print Assumptions C01_mulMInv_mulM_id_any_dof.
