(** C02 property theorems (statements only; proofs in C02/C02_Proofs.v and C02/C02_Concrete.v).
    All statements are about the model coq/C02/C02_Model.v at the concrete spatial algebra over R (KR, AR):
    rnea = calcTreeResidualForces, fd = calcTreeAccelerations, mulMInv = multiplyByMInv, mulM = multiplyByM,
    for EVERY tree (tree X) and ALL per-body data (nd: shift vector, hinge columns, spatial inertia;
    dy: Coriolis acceleration, gyroscopic force, applied body force, applied mobility forces). *)
From Coq Require Import List Reals.
Import ListNotations.
Require Import Num Vec Tree MB MB_Proofs Spatial Spatial_Proofs C02_Model C02_Proofs C02_Concrete.
Local Open Scope R_scope.

Section P.
Context {X : Type} (nd : X -> node (SpatialVec R) (Vec3 R) (SpInertia (T:=R))) (dy : X -> dyn R (SpatialVec R)).
Notation WTR := (((X * abi R (SpatialVec R) (ArtInertia (T:=R))) * zrec R (SpatialVec R)) * (SpatialVec R * list R))%type.

(** (1) weak-form specification of inverse dynamics: for all test speeds v
      v . tau(udot) = udot . (M v) + sum_b <Z_b(v), a_b> + sum_b <b_b - F_b, (J v)_b> - v . f
    so the residual is affine in udot with linear part M, body forces enter exactly as -J^T F, mobility forces as -f *)
Theorem C02_rnea_is_spec (ud v : X -> list R) (t : tree X) :
  tsum (tmap (fun r => dotU KR (snd r) (v (fst (fst (fst r))))) (rnea KR AR nd dy ud t))
  = tsum (tmap (fun r => dotU KR (snd r) (ud (fst (fst r)))) (mulM KR nd v t))
    + tsum (tmap (fun r => dot KR (snd r) (d_a (dy (fst (fst r))))) (accum KR (fun xv => nd (fst xv)) (MW KR nd) (mulJ KR nd v t)))
    + tsum (tmap (fun xw => dot KR (vsub KR AR (d_g (dy (fst xw))) (d_F (dy (fst xw)))) (snd xw)) (mulJ KR nd v t))
    - tsum (tmap (fun x => dotU KR (d_f (dy x)) (v x)) t).
Proof. exact (rnea_spec_R nd dy ud v t). Qed.

Theorem C02_rnea_affine_in_udot (ud v : X -> list R) (t : tree X) :
  tsum (tmap (fun r => dotU KR (snd r) (v (fst (fst (fst r))))) (rnea KR AR nd dy ud t))
  = tsum (tmap (fun r => dotU KR (snd r) (ud (fst (fst r)))) (mulM KR nd v t))
    + tsum (tmap (fun r => dotU KR (snd r) (v (fst (fst (fst r))))) (rnea KR AR nd dy (fun _ => []) t)).
Proof. exact (rnea_affine_in_udot_R nd dy ud v t). Qed.

(** (3) MAIN: inverse dynamics of the accelerations produced by forward dynamics returns a zero residual at every
    mobility of every tree, given per body that the computed inverse of D = ~H P H is a symmetric inverse *)
Theorem C02_fd_then_rnea_zero (t : tree X) :
  (forall y, In y (flatten (abi_pass KR AR nd t)) -> body_ok nd dy y) ->
  Forall (fun r => snd r = map (fun _ => 0) (n_H (nd (w_x (fst (fst (fst r)))))))
         (flatten (rnea_of_fd KR AR nd dy t)).
Proof. exact (fd_then_rnea_zero_R nd dy t). Qed.

(** (2) forward dynamics solves  M udot + C = J^T F + f  where C is the udot = 0, F = 0, f = 0 value of inverse
    dynamics: the velocity-dependent terms are the same in both directions *)
Theorem C02_fd_satisfies_eom_bias_same_both_ways (v : X -> list R) (t : tree X) :
  (forall y, In y (flatten (abi_pass KR AR nd t)) -> body_ok nd dy y) ->
  let vw := fun w : WTR => v (w_x w) in
  let ndw := fun w : WTR => nd (w_x w) in
  let dyw := fun w : WTR => dy (w_x w) in
  tsum (tmap (fun r => dotU KR (snd r) (w_ud (fst (fst r)))) (mulM KR ndw vw (fd KR AR nd dy t)))
  + tsum (tmap (fun r => dotU KR (snd r) (vw (fst (fst (fst r))))) (rnea KR AR ndw (dy_bias KR dy) (fun _ => []) (fd KR AR nd dy t)))
  = tsum (tmap (fun xw => dot KR (d_F (dyw (fst xw))) (snd xw)) (mulJ KR ndw vw (fd KR AR nd dy t)))
    + tsum (tmap (fun w => dotU KR (d_f (dyw w)) (vw w)) (fd KR AR nd dy t)).
Proof. exact (fd_satisfies_eom_R nd dy v t). Qed.

(** the inverse mass matrix operator (also needed by C01):  M (M^-1 f) = f *)
Theorem C02_mulM_mulMInv_id (t : tree X) :
  (forall y, In y (flatten (abi_pass KR AR nd t)) -> body_ok nd dy y) ->
  Forall (fun r => snd r = d_f (dy (w_x (fst (fst r))))) (flatten (mulM_of_mulMInv KR AR nd dy t)).
Proof. exact (mulM_mulMInv_id_R nd dy t). Qed.
End P.

(** the concrete ArticulatedInertia operations (transcribed from MassProperties.h/.cpp) act as the proofs assume *)
Theorem C02_ai_shift_is_phi_P_phiT l (p : ArtInertia (T:=R)) v :
  papply AR (pshift AR l p) v = phi KR l (papply AR p (phiT KR l v)).
Proof. exact (ai_pshift_app l p v). Qed.
Theorem C02_ai_symmetric (p : ArtInertia (T:=R)) a b : dot KR (papply AR p a) b = dot KR a (papply AR p b).
Proof. exact (ai_P_sym p a b). Qed.
Theorem C02_ai_of_spatial_inertia (i : SpInertia (T:=R)) v : papply AR (pofI AR i) v = mapply KR i v.
Proof. exact (ai_pofI_app i v). Qed.
Theorem C02_ai_PPlus_is_P_minus_G_PHt (p : ArtInertia (T:=R)) G PH : (forall v y, Bf KR G PH v y = Bf KR G PH y v) ->
  forall v y, dot KR (papply AR (pdown AR p G PH) v) y = dot KR (papply AR p v) y - Bf KR G PH v y.
Proof. exact (ai_pdown_app p G PH). Qed.

(** the per-body hypothesis is discharged for bodies with at most 2 mobilities: the model's Gauss-Jordan inverse of a
    symmetric D with non-zero pivots is a symmetric inverse *)
Theorem C02_body_ok_dof_le_2 {X} (nd : X -> node (SpatialVec R) (Vec3 R) (SpInertia (T:=R))) (dy : X -> dyn R (SpatialVec R)) (t : tree X) y :
  In y (flatten (abi_pass KR AR nd t)) ->
  length (d_f (dy (fst y))) = length (n_H (nd (fst y))) ->
  (length (n_H (nd (fst y))) = 0%nat /\ a_D (snd y) = [])
  \/ (exists d, length (n_H (nd (fst y))) = 1%nat /\ a_D (snd y) = [[d]] /\ d <> 0)
  \/ (exists a b c, length (n_H (nd (fst y))) = 2%nat /\ a_D (snd y) = [[a; b]; [b; c]] /\ a <> 0 /\ a * c - b * b <> 0) ->
  body_ok nd dy y.
Proof. exact (body_ok_small nd dy t y). Qed.

(** non-vacuity: the hypotheses of the main theorem hold on a concrete tree with the model's Gauss-Jordan inverse *)
Theorem C02_example_hypotheses_hold : forall y, In y (flatten (abi_pass KR AR ex_nd ex_t)) -> body_ok ex_nd ex_dy y.
Proof. exact ex_ok. Qed.
Theorem C02_example_fd_then_rnea_zero :
  Forall (fun r => snd r = map (fun _ => 0) (n_H (ex_nd (w_x (fst (fst (fst r)))))))
         (flatten (rnea_of_fd KR AR ex_nd ex_dy ex_t)).
Proof. exact ex_fd_then_rnea_zero. Qed.

Print Assumptions C02_rnea_is_spec.
Print Assumptions C02_rnea_affine_in_udot.
Print Assumptions C02_fd_then_rnea_zero.
Print Assumptions C02_fd_satisfies_eom_bias_same_both_ways.
Print Assumptions C02_mulM_mulMInv_id.
Print Assumptions C02_ai_shift_is_phi_P_phiT.
Print Assumptions C02_ai_symmetric.
Print Assumptions C02_ai_of_spatial_inertia.
Print Assumptions C02_ai_PPlus_is_P_minus_G_PHt.
Print Assumptions C02_body_ok_dof_le_2.
Print Assumptions C02_example_hypotheses_hold.
Print Assumptions C02_example_fd_then_rnea_zero.
