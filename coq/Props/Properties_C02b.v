(** C02 (second file): the per-body hypothesis of the C02 / C01 main theorems ("the computed inverse of D = ~H P H is a
    symmetric inverse") is discharged for mobilizers with ANY number of mobilities: the model's Gauss-Jordan elimination
    (gj_inverse, the model of the small dense inverse used by realizeArticulatedBodyInertiasInward) inverts every square
    symmetric matrix whose pivots are non-zero, for every dimension n, and the D block of every body of every tree is
    square and symmetric.  Statements only; proofs in C02/C02_GJ.v. *)
From Coq Require Import List Reals.
Import ListNotations.
Require Import Num Vec Tree MB MB_Proofs Spatial Spatial_Proofs C02_Model C02_Proofs C02_Concrete C02_GJ.
Local Open Scope R_scope.

(** elimination solves the system: D x = y  <->  x = DI y, for every n x n matrix with non-zero pivots *)
Theorem C02_gj_solves (D : list (list R)) x y : square D -> pivots_ok D -> length x = length D -> length y = length D ->
  (mv KR D x = y <-> mv KR (gj_inverse ROps D) y = x).
Proof. exact (fun Hs Hp => gj_solves D Hs Hp x y). Qed.

(** ... hence it is a two-sided inverse, symmetric when D is *)
Theorem C02_gj_left_inverse (D : list (list R)) e : square D -> pivots_ok D -> length e = length D ->
  mv KR (gj_inverse ROps D) (mv KR D e) = e.
Proof. exact (fun Hs Hp => gj_left_inverse D Hs Hp e). Qed.
Theorem C02_gj_sym_inverse_any_dimension (D : list (list R)) : square D -> pivots_ok D -> bsym D ->
  sym_inverse KR (length D) D (gj_inverse ROps D).
Proof. exact (gj_sym_inverse D). Qed.

(** the pivot hypothesis is a statement about the executable pivot list that the correspondence run evaluates *)
Theorem C02_pivots_ok_iff_executable (D : list (list R)) : pivots_ok D <-> Forall (fun p => p <> 0) (gj_pivots ROps D).
Proof. exact (pivots_ok_iff D). Qed.

(** the D block of a body: square, symmetric, and D(x, y) = <P H y, H x> *)
Theorem C02_D_block_symmetric (Pb : ArtInertia (T:=R)) (H : list (SpatialVec R)) :
  bsym (map (fun h => Htmul KR (map (papply AR Pb) H) h) H) /\ square (map (fun h => Htmul KR (map (papply AR Pb) H) h) H).
Proof. exact (conj (D_bsym Pb H) (D_square Pb H)). Qed.

(** the per-body hypothesis for any number of mobilities *)
Theorem C02_body_ok_any_dof {X} (nd : X -> node (SpatialVec R) (Vec3 R) (SpInertia (T:=R))) (dy : X -> dyn R (SpatialVec R)) (t : tree X) y :
  In y (flatten (abi_pass KR AR nd t)) ->
  length (d_f (dy (fst y))) = length (n_H (nd (fst y))) ->
  pivots_ok (a_D (snd y)) ->
  body_ok nd dy y.
Proof. exact (body_ok_any_dof nd dy t y). Qed.

(** MAIN theorems of C02 / C01 with the hypotheses reduced to non-zero pivots and one mobility force per mobility *)
Theorem C02_fd_then_rnea_zero_any_dof {X} (nd : X -> node (SpatialVec R) (Vec3 R) (SpInertia (T:=R))) (dy : X -> dyn R (SpatialVec R)) (t : tree X) :
  (forall y, In y (flatten (abi_pass KR AR nd t)) ->
     length (d_f (dy (fst y))) = length (n_H (nd (fst y))) /\ pivots_ok (a_D (snd y))) ->
  Forall (fun r => snd r = map (fun _ => 0) (n_H (nd (w_x (fst (fst (fst r)))))))
         (flatten (rnea_of_fd KR AR nd dy t)).
Proof. exact (fd_then_rnea_zero_pivots nd dy t). Qed.
Theorem C02_mulM_mulMInv_id_any_dof {X} (nd : X -> node (SpatialVec R) (Vec3 R) (SpInertia (T:=R))) (dy : X -> dyn R (SpatialVec R)) (t : tree X) :
  (forall y, In y (flatten (abi_pass KR AR nd t)) ->
     length (d_f (dy (fst y))) = length (n_H (nd (fst y))) /\ pivots_ok (a_D (snd y))) ->
  Forall (fun r => snd r = d_f (dy (w_x (fst (fst r))))) (flatten (mulM_of_mulMInv KR AR nd dy t)).
Proof. exact (mulM_mulMInv_id_pivots nd dy t). Qed.

(** SECOND DIRECTION of "exact inverses" (uniqueness): whenever mobility accelerations ud leave a zero inverse-dynamics
    residual under the applied forces, the forward-dynamics passes under those forces return exactly ud -- at every body
    of every tree.  Together with C02_fd_then_rnea_zero_any_dof:  FD(forces) = ud  <->  ID(ud, forces) = 0. *)
Theorem C02_rnea_zero_then_fd_returns_udot {X} (nd : X -> node (SpatialVec R) (Vec3 R) (SpInertia (T:=R))) (dy : X -> dyn R (SpatialVec R))
    (ud : X -> list R) (t : tree X) :
  (forall y, In y (flatten (abi_pass KR AR nd t)) ->
     length (d_f (dy (fst y))) = length (n_H (nd (fst y))) /\ length (ud (fst y)) = length (n_H (nd (fst y))) /\ pivots_ok (a_D (snd y))) ->
  Forall (fun r => snd r = map (fun _ => 0) (n_H (nd (fst (fst (fst r)))))) (flatten (rnea KR AR nd dy ud t)) ->
  Forall (fun w => w_ud w = ud (w_x w)) (flatten (fd KR AR nd dy t)).
Proof. exact (fd_unique_pivots nd dy ud t). Qed.
Theorem C02_uniqueness_example : Forall (fun w => w_ud w = sl_ud (w_x w)) (flatten (fd KR AR sl_nd sl_dy sl_t)).
Proof. exact sl_unique. Qed.

(** the body-to-mobility force mapping calcTreeEquivalentMobilityForces (calcEquivalentJointForces per node): for all test
    speeds v,  v . f_equiv = sum_b < F_b - (Mk A_bias,b + b_b), (J v)_b >  (applied body forces enter exactly as J^T F), and
    v . f_equiv + v . tau(udot = 0) = - v . f  (the velocity-dependent terms are those of inverse dynamics) *)
Theorem C02_equivalent_mobility_forces_are_Jt_of_net_body_force {X} (nd : X -> node (SpatialVec R) (Vec3 R) (SpInertia (T:=R)))
    (dy : X -> dyn R (SpatialVec R)) (v : X -> list R) (t : tree X) :
  tsum (tmap (fun r => dotU KR (snd r) (v (fst (fst r)))) (equivf KR AR nd dy t))
  = tsum (tmap (fun xw => dot KR (equiv_force KR AR nd dy (fst xw)) (snd xw))
                (mulJ KR (fun xv => nd (fst xv)) (fun xv => v (fst xv)) (rnea_acc KR nd dy (fun _ => []) t))).
Proof. exact (equiv_weak_R nd dy v t). Qed.
Theorem C02_equivalent_mobility_forces_are_minus_bias_residual {X} (nd : X -> node (SpatialVec R) (Vec3 R) (SpInertia (T:=R)))
    (dy : X -> dyn R (SpatialVec R)) (v : X -> list R) (t : tree X) :
  tsum (tmap (fun r => dotU KR (snd r) (v (fst (fst r)))) (equivf KR AR nd dy t))
  + tsum (tmap (fun r => dotU KR (snd r) (v (fst (fst (fst r))))) (rnea KR AR nd dy (fun _ => []) t))
  = - tsum (tmap (fun xa => dotU KR (d_f (dy (fst xa))) (v (fst xa))) (rnea_acc KR nd dy (fun _ => []) t)).
Proof. exact (equiv_is_minus_bias_residual_R nd dy v t). Qed.

(** explicit dof-3 instance (Ball, Gimbal, Translation, Planar, ... mobilizers): leading principal minors non-zero *)
Theorem C02_gj_sym_inverse_3 a b c d e f :
  a <> 0 -> a * d - b * b <> 0 -> a * (d * f - e * e) - b * (b * f - e * c) + c * (b * e - d * c) <> 0 ->
  sym_inverse KR 3 [[a; b; c]; [b; d; e]; [c; e; f]] (gj_inverse ROps [[a; b; c]; [b; d; e]; [c; e; f]]).
Proof. exact (gj_sym_inverse_3 a b c d e f). Qed.

(** non-vacuity: a concrete symmetric positive definite 3 x 3 block meets the hypotheses *)
Theorem C02_gj_example : pivots_ok [[4; 1; 0]; [1; 3; 1]; [0; 1; 2]]
  /\ sym_inverse KR 3 [[4; 1; 0]; [1; 3; 1]; [0; 1; 2]] (gj_inverse ROps [[4; 1; 0]; [1; 3; 1]; [0; 1; 2]]).
Proof. exact (conj pivots_ok_example gj_example_inverse). Qed.

Print Assumptions C02_gj_solves.
Print Assumptions C02_gj_left_inverse.
Print Assumptions C02_gj_sym_inverse_any_dimension.
Print Assumptions C02_pivots_ok_iff_executable.
Print Assumptions C02_D_block_symmetric.
Print Assumptions C02_body_ok_any_dof.
Print Assumptions C02_fd_then_rnea_zero_any_dof.
Print Assumptions C02_mulM_mulMInv_id_any_dof.
Print Assumptions C02_rnea_zero_then_fd_returns_udot.
Print Assumptions C02_uniqueness_example.
Print Assumptions C02_equivalent_mobility_forces_are_Jt_of_net_body_force.
Print Assumptions C02_equivalent_mobility_forces_are_minus_bias_residual.
Print Assumptions C02_gj_sym_inverse_3.
Print Assumptions C02_gj_example.
