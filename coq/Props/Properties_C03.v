(** C03 property theorems: statements only, each closed by [exact]; proofs are in C03/C03_Proofs.v (tree level, N relations),
    C05/C05_Jet.v (product / inverse rule for moving transforms) and C05/C05_Proofs.v, C05/C05_Wave2.v (per-mobilizer X_FM jets);
    models: C03/C03_Model.v over the catalogue C05/C05_Model.v; N blocks from Gen/rot_gen.v (regenerated from Rotation.h). *)
From Coq Require Import ZArith Reals List.
From Coquelicot Require Import Coquelicot.
Require Import Num Vec rot_gen C28_Defs C28_Proofs Tree MB Spatial C05_Model C05_Rot C05_Jet C05_Proofs C05_Wave2 C03_Model C03_Proofs.
Local Open Scope R_scope.

Theorem C03_vel_step_is_compose X0 XPF F0 XMB VGP VFM : is_rot (m33_mul ROps (fst X0) (fst XPF)) ->
  compose_vel (xf_compose ROps (xf_compose ROps X0 XPF) F0) XMB
    (compose_vel (xf_compose ROps X0 XPF) F0 (compose_vel X0 XPF VGP ((0,0,0),(0,0,0))) VFM) ((0,0,0),(0,0,0))
  = vel_step ROps X0 VGP XPF F0 XMB VFM.
Proof. exact (vel_step_is_compose X0 XPF F0 XMB VGP VFM). Qed.
Print Assumptions C03_vel_step_is_compose.

Theorem C03_step_jet XGP VGP XPF XFM XMB VFM :
  is_rot (fst (XGP 0)) -> is_rot (fst XPF) -> is_rot (fst (XFM 0)) ->
  moves_with XGP VGP -> moves_with XFM VFM ->
  moves_with (fun t => pose_step ROps (XGP t) XPF (XFM t) XMB) (vel_step ROps (XGP 0) VGP XPF (XFM 0) XMB VFM).
Proof. exact (step_jet XGP VGP XPF XFM XMB VFM). Qed.
Print Assumptions C03_step_jet.

Theorem C03_toG_linear X0 XPF F0 XMB H u :
  toG X0 XPF F0 XMB (Hu ROps H u) = MB.Hmul (svK ROps) (map (toG X0 XPF F0 XMB) H) u.
Proof. exact (toG_linear X0 XPF F0 XMB H u). Qed.
Print Assumptions C03_toG_linear.

Theorem C03_vel_step_is_MB_recursion X0 VGP XPF F0 XMB H u :
  vel_step ROps X0 VGP XPF F0 XMB (Hu ROps H u) =
  MB.vadd (svK ROps) (MB.phiT (svK ROps) (v3_sub ROps (snd (pose_step ROps X0 XPF F0 XMB)) (snd X0)) VGP)
                     (MB.Hmul (svK ROps) (map (toG X0 XPF F0 XMB) H) u).
Proof. exact (vel_step_is_MB_recursion X0 VGP XPF F0 XMB H u). Qed.
Print Assumptions C03_vel_step_is_MB_recursion.

Theorem C03_compose_jet (t : tree gjoint) (base : PV) : pose_ok base ->
  List.Forall (fun jb => pose_ok (snd jb)) (flatten (tkin base t)).
Proof. exact (compose_jet t base). Qed.
Print Assumptions C03_compose_jet.

Theorem C03_reversed_joint_ok XPF XMB X V : tjoint_ok (mkTJ XPF XMB X V) ->
  tjoint_ok (mkTJ XPF XMB (fun t => rev_X ROps (X t)) (rev_col ROps (rev_X ROps (X 0)) V)).
Proof. exact (reversed_joint_ok XPF XMB X V). Qed.
Print Assumptions C03_reversed_joint_ok.

Theorem C03_ground_ok : pose_ok (fun _ => xf_id ROps, ((0,0,0),(0,0,0))).
Proof. exact (@ground_ok). Qed.
Print Assumptions C03_ground_ok.

Theorem C03_tkin_at_0 (t : tree gjoint) (base : PV) :
  tmap (fun jb => (fst jb, (fst (snd jb) 0, snd (snd jb)))) (tkin base t)
  = outward (fun pv g => kstep0 ROps pv (to_jnode g)) (fst base 0, snd base) t.
Proof. exact (tkin_at_0 t base). Qed.
Print Assumptions C03_tkin_at_0.

Theorem C03_station_jet X V pS : moves_with X V ->
  dV (fun t => station_loc ROps (X t) pS) (station_vel ROps (X 0) V pS).
Proof. exact (station_jet X V pS). Qed.
Print Assumptions C03_station_jet.

Theorem C03_Ball_NInv_N_e q0 q1 q2 w : cos q1 <> 0 -> Ball_NInve ROps (q0,q1,q2) (Ball_Ne ROps (q0,q1,q2) w) = w.
Proof. exact (Ball_NInv_N_e q0 q1 q2 w). Qed.
Print Assumptions C03_Ball_NInv_N_e.

Theorem C03_Ball_N_NInv_e q0 q1 q2 qd : cos q1 <> 0 -> Ball_Ne ROps (q0,q1,q2) (Ball_NInve ROps (q0,q1,q2) qd) = qd.
Proof. exact (Ball_N_NInv_e q0 q1 q2 qd). Qed.
Print Assumptions C03_Ball_N_NInv_e.

Theorem C03_Ball_NInv_N_q e0 e1 e2 e3' w :
  Ball_NInvq ROps (e0,e1,e2,e3') (Ball_Nq ROps (e0,e1,e2,e3') w) = v3_scale ROps (e0*e0+e1*e1+e2*e2+e3'*e3') w.
Proof. exact (Ball_NInv_N_q e0 e1 e2 e3' w). Qed.
Print Assumptions C03_Ball_NInv_N_q.

Theorem C03_Ball_N_NInv_q e0 e1 e2 e3' w : e0*e0+e1*e1+e2*e2+e3'*e3' = 1 ->
  let qd := Ball_Nq ROps (e0,e1,e2,e3') w in Ball_Nq ROps (e0,e1,e2,e3') (Ball_NInvq ROps (e0,e1,e2,e3') qd) = qd.
Proof. exact (Ball_N_NInv_q e0 e1 e2 e3' w). Qed.
Print Assumptions C03_Ball_N_NInv_q.

Theorem C03_Line_NInv_N_e q0 q1 q2 u0 u1 : cos q1 <> 0 -> Line_NInve ROps (q0,q1,q2) (Line_Ne ROps (q0,q1,q2) (u0,u1)) = (u0,u1).
Proof. exact (Line_NInv_N_e q0 q1 q2 u0 u1). Qed.
Print Assumptions C03_Line_NInv_N_e.

Theorem C03_Line_NInv_N_q e0 e1 e2 e3' u0 u1 : e0*e0+e1*e1+e2*e2+e3'*e3' = 1 ->
  Line_NInvq ROps (e0,e1,e2,e3') (Line_Nq ROps (e0,e1,e2,e3') (u0,u1)) = (u0,u1).
Proof. exact (Line_NInv_N_q e0 e1 e2 e3' u0 u1). Qed.
Print Assumptions C03_Line_NInv_N_q.

Theorem C03_Line_N_NInv_q e0 e1 e2 e3' u0 u1 : e0*e0+e1*e1+e2*e2+e3'*e3' = 1 ->
  let qd := Line_Nq ROps (e0,e1,e2,e3') (u0,u1) in Line_Nq ROps (e0,e1,e2,e3') (Line_NInvq ROps (e0,e1,e2,e3') qd) = qd.
Proof. exact (Line_N_NInv_q e0 e1 e2 e3' u0 u1). Qed.
Print Assumptions C03_Line_N_NInv_q.

Theorem C03_Ball_NDot_jet_e q0 q1 q2 d0 d1 d2 w : cos q1 <> 0 ->
  dV (fun t => Ball_Ne ROps (q0+t*d0, q1+t*d1, q2+t*d2) w) (Ball_NDote ROps (q0,q1,q2) (d0,d1,d2) w).
Proof. exact (Ball_NDot_jet_e q0 q1 q2 d0 d1 d2 w). Qed.
Print Assumptions C03_Ball_NDot_jet_e.

Theorem C03_Line_NDot_jet_e q0 q1 q2 d0 d1 d2 u : cos q1 <> 0 ->
  dV (fun t => Line_Ne ROps (q0+t*d0, q1+t*d1, q2+t*d2) u) (Line_NDote ROps (q0,q1,q2) (d0,d1,d2) u).
Proof. exact (Line_NDot_jet_e q0 q1 q2 d0 d1 d2 u). Qed.
Print Assumptions C03_Line_NDot_jet_e.

Theorem C03_Ball_NDot_linear_q e0 e1 e2 e3' d0 d1 d2 d3 t w :
  Ball_Nq ROps (e0+t*d0, e1+t*d1, e2+t*d2, e3'+t*d3) w =
  v4_add ROps (Ball_Nq ROps (e0,e1,e2,e3') w) (v4_scale ROps t (Ball_NDotq ROps (d0,d1,d2,d3) w)).
Proof. exact (Ball_NDot_linear_q e0 e1 e2 e3' d0 d1 d2 d3 t w). Qed.
Print Assumptions C03_Ball_NDot_linear_q.

Theorem C03_Line_NDot_jet_q (i : nat) e0 e1 e2 e3' u0 u1 v0 v1 : (i < 4)%nat -> e0*e0+e1*e1+e2*e2+e3'*e3' = 1 ->
  let qd := Line_Nq ROps (e0,e1,e2,e3') (u0,u1) in
  is_derive (fun t => e4 i (Line_Nq ROps (e0 + t*v4_0 qd, e1 + t*v4_1 qd, e2 + t*v4_2 qd, e3' + t*v4_3 qd) (v0,v1))) 0
            (e4 i (Line_NDotq ROps (e0,e1,e2,e3') qd (u0,u1) (v0,v1))).
Proof. exact (Line_NDot_jet_q i e0 e1 e2 e3' u0 u1 v0 v1). Qed.
Print Assumptions C03_Line_NDot_jet_q.

Theorem C03_Line_NDot_prefix_on_u e0 e1 e2 e3' ed u : e0*e0+e1*e1+e2*e2+e3'*e3' <> 0 ->
  Line_NDotq_prefix ROps (e0,e1,e2,e3') ed u = Line_NDotq ROps (e0,e1,e2,e3') ed u u.
Proof. exact (Line_NDot_prefix_on_u e0 e1 e2 e3' ed u). Qed.
Print Assumptions C03_Line_NDot_prefix_on_u.

Theorem C03_Line_NDot_prefix_refuted : exists e u v, v4_normSqr ROps e = 1 /\
  let qd := Line_Nq ROps e u in Line_NDotq_prefix ROps e qd v <> Line_NDotq ROps e qd u v.
Proof. exact (@Line_NDot_prefix_refuted). Qed.
Print Assumptions C03_Line_NDot_prefix_refuted.

Theorem C03_Line_qdd_jet_q (i : nat) e0 e1 e2 e3' u0 u1 b0 b1 : (i < 4)%nat -> e0*e0+e1*e1+e2*e2+e3'*e3' = 1 ->
  let qd := Line_Nq ROps (e0,e1,e2,e3') (u0,u1) in
  is_derive (fun t => e4 i (Line_Nq ROps (e0 + t*v4_0 qd, e1 + t*v4_1 qd, e2 + t*v4_2 qd, e3' + t*v4_3 qd) (u0 + t*b0, u1 + t*b1))) 0
            (e4 i (v4_add ROps (Line_Nq ROps (e0,e1,e2,e3') (b0,b1)) (Line_NDotq ROps (e0,e1,e2,e3') qd (u0,u1) (u0,u1)))).
Proof. exact (Line_qdd_jet_q i e0 e1 e2 e3' u0 u1 b0 b1). Qed.
Print Assumptions C03_Line_qdd_jet_q.

Theorem C03_qdd_jet_e q0 q1 q2 w b : cos q1 <> 0 ->
  let qd := Ball_Ne ROps (q0,q1,q2) w in
  dV (fun t => Ball_Ne ROps (q0 + t*v3_0 qd, q1 + t*v3_1 qd, q2 + t*v3_2 qd) (v3_0 w + t * v3_0 b, v3_1 w + t * v3_1 b, v3_2 w + t * v3_2 b))
     (v3_add ROps (Ball_Ne ROps (q0,q1,q2) b) (Ball_NDote ROps (q0,q1,q2) qd w)).
Proof. exact (qdd_jet_e q0 q1 q2 w b). Qed.
Print Assumptions C03_qdd_jet_e.

Theorem C03_qdd_jet_q (i : nat) e0 e1 e2 e3' w0 w1 w2 b0 b1 b2 : (i < 4)%nat ->
  let qd := Ball_Nq ROps (e0,e1,e2,e3') (w0,w1,w2) in
  is_derive (fun t => e4 i (Ball_Nq ROps (e0 + t*v4_0 qd, e1 + t*v4_1 qd, e2 + t*v4_2 qd, e3' + t*v4_3 qd) (w0+t*b0, w1+t*b1, w2+t*b2))) 0
            (e4 i (v4_add ROps (Ball_Nq ROps (e0,e1,e2,e3') (b0,b1,b2)) (Ball_NDotq ROps qd (w0,w1,w2)))).
Proof. exact (qdd_jet_q i e0 e1 e2 e3' w0 w1 w2 b0 b1 b2). Qed.
Print Assumptions C03_qdd_jet_q.

Theorem C03_qdd_q_is_helper e w b : v4_add ROps (Ball_Nq ROps e b) (Ball_NDotq ROps (Ball_Nq ROps e w) w) = angAcc2qddQ ROps e w b.
Proof. exact (qdd_q_is_helper e w b). Qed.
Print Assumptions C03_qdd_q_is_helper.

Theorem C03_NT_adjoint_e a f w : v3_dot ROps f (Ball_Ne ROps a w) = v3_dot ROps (Ball_NTe ROps a f) w.
Proof. exact (NT_adjoint_e a f w). Qed.
Print Assumptions C03_NT_adjoint_e.

Theorem C03_NT_adjoint_q e f w : v4_dot ROps f (Ball_Nq ROps e w) = v3_dot ROps (Ball_NTq ROps e f) w.
Proof. exact (NT_adjoint_q e f w). Qed.
Print Assumptions C03_NT_adjoint_q.

Theorem C03_NInvT_adjoint_e a g qd : v3_dot ROps g (Ball_NInve ROps a qd) = v3_dot ROps (Ball_NInvTe ROps a g) qd.
Proof. exact (NInvT_adjoint_e a g qd). Qed.
Print Assumptions C03_NInvT_adjoint_e.

Theorem C03_NInvT_adjoint_q e g qd : v3_dot ROps g (Ball_NInvq ROps e qd) = v4_dot ROps (Ball_NInvTq ROps e g) qd.
Proof. exact (NInvT_adjoint_q e g qd). Qed.
Print Assumptions C03_NInvT_adjoint_q.

Theorem C03_NDotT_adjoint_e a ad f w : v3_dot ROps f (Ball_NDote ROps a ad w) = v3_dot ROps (Ball_NDotTe ROps a ad f) w.
Proof. exact (NDotT_adjoint_e a ad f w). Qed.
Print Assumptions C03_NDotT_adjoint_e.

Theorem C03_NDotT_adjoint_q ed f w : v4_dot ROps f (Ball_NDotq ROps ed w) = v3_dot ROps (Ball_NDotTq ROps ed f) w.
Proof. exact (NDotT_adjoint_q ed f w). Qed.
Print Assumptions C03_NDotT_adjoint_q.

Theorem C03_Line_NT_adjoint_q e f u : v4_dot ROps f (Line_Nq ROps e u) = v2_dot ROps (Line_NTq ROps e f) u.
Proof. exact (Line_NT_adjoint_q e f u). Qed.
Print Assumptions C03_Line_NT_adjoint_q.

Theorem C03_Line_NT_adjoint_e a f u : v3_dot ROps f (Line_Ne ROps a u) = v2_dot ROps (Line_NTe ROps a f) u.
Proof. exact (Line_NT_adjoint_e a f u). Qed.
Print Assumptions C03_Line_NT_adjoint_e.

Theorem C03_Line_NInvT_adjoint_q e g qd : v2_dot ROps g (Line_NInvq ROps e qd) = v4_dot ROps (Line_NInvTq ROps e g) qd.
Proof. exact (Line_NInvT_adjoint_q e g qd). Qed.
Print Assumptions C03_Line_NInvT_adjoint_q.

Theorem C03_Line_NDotT_adjoint_q e ed u f v : v4_dot ROps f (Line_NDotq ROps e ed u v) = v2_dot ROps (Line_NDotTq ROps e ed u f) v.
Proof. exact (Line_NDotT_adjoint_q e ed u f v). Qed.
Print Assumptions C03_Line_NDotT_adjoint_q.

Theorem C03_Line_NInvT_adjoint_e a g qd : v2_dot ROps g (Line_NInve ROps a qd) = v3_dot ROps (Line_NInvTe ROps a g) qd.
Proof. exact (Line_NInvT_adjoint_e a g qd). Qed.
Print Assumptions C03_Line_NInvT_adjoint_e.

Theorem C03_joint_exists_ex : exists j : tjoint, tjoint_ok j /\ t_V j <> ((0,0,0),(0,0,0)).
Proof. exact (@C03_joint_exists). Qed.
Print Assumptions C03_joint_exists_ex.

