(** C03 property theorems (part jets): statements only, each closed by [exact]; proofs are in C03/C03_Proofs.v (tree level, N relations),
    C05/C05_Jet.v (product / inverse rule for moving transforms) and C05/C05_Proofs.v, C05/C05_Wave2.v (per-mobilizer X_FM jets);
    models: C03/C03_Model.v over the catalogue C05/C05_Model.v; N blocks from Gen/rot_gen.v (regenerated from Rotation.h). *)
From Coq Require Import ZArith Reals List.
From Coquelicot Require Import Coquelicot.
Require Import Num Vec rot_gen C28_Defs C28_Proofs Tree MB Spatial C05_Model C05_Rot C05_Jet C05_Proofs C05_Wave2 C03_Model C03_Proofs.
Local Open Scope R_scope.

(** product / inverse rule for moving transforms (proved once, C05_Jet.v) *)
Theorem C03_moves_compose X Y V W : is_rot (fst (X 0)) -> moves_with X V -> moves_with Y W ->
  moves_with (fun t => xf_compose ROps (X t) (Y t)) (compose_vel (X 0) (Y 0) V W).
Proof. exact (moves_compose X Y V W). Qed.
Print Assumptions C03_moves_compose.

Theorem C03_moves_const X0 : moves_with (fun _ => X0) ((0,0,0),(0,0,0)).
Proof. exact (moves_const X0). Qed.
Print Assumptions C03_moves_const.

Theorem C03_moves_inv X V : is_rot (fst (X 0)) -> moves_with X V ->
  moves_with (fun t => rev_X ROps (X t)) (rev_col ROps (rev_X ROps (X 0)) V).
Proof. exact (moves_inv X V). Qed.
Print Assumptions C03_moves_inv.

(** per-catalogue-entry X_FM jets (the joint hypothesis of compose_jet), proved in C05 *)
Theorem C03_Weld_jet : moves_with (fun _ => Weld_X ROps) (Hu ROps Weld_H nil).
Proof. exact (@Weld_jet). Qed.
Print Assumptions C03_Weld_jet.

Theorem C03_Pin_jet q u : moves_with (fun t => Pin_X ROps (q + t*u)) (Hu ROps (Pin_H ROps) (u :: nil)).
Proof. exact (Pin_jet q u). Qed.
Print Assumptions C03_Pin_jet.

Theorem C03_Slider_jet q u : moves_with (fun t => Slider_X ROps (q + t*u)) (Hu ROps (Slider_H ROps) (u :: nil)).
Proof. exact (Slider_jet q u). Qed.
Print Assumptions C03_Slider_jet.

Theorem C03_Screw_jet pitch q u : moves_with (fun t => Screw_X ROps pitch (q + t*u)) (Hu ROps (Screw_H ROps pitch) (u :: nil)).
Proof. exact (Screw_jet pitch q u). Qed.
Print Assumptions C03_Screw_jet.

Theorem C03_Universal_jet q0 q1 u0 u1 :
  moves_with (fun t => Universal_X ROps (q0 + t*u0, q1 + t*u1)) (Hu ROps (Universal_H ROps (q0,q1)) (u0 :: u1 :: nil)).
Proof. exact (Universal_jet q0 q1 u0 u1). Qed.
Print Assumptions C03_Universal_jet.

Theorem C03_Cylinder_jet q0 q1 u0 u1 :
  moves_with (fun t => Cylinder_X ROps (q0 + t*u0, q1 + t*u1)) (Hu ROps (Cylinder_H ROps) (u0 :: u1 :: nil)).
Proof. exact (Cylinder_jet q0 q1 u0 u1). Qed.
Print Assumptions C03_Cylinder_jet.

Theorem C03_BendStretch_jet q0 q1 u0 u1 :
  moves_with (fun t => BendStretch_X ROps (q0 + t*u0, q1 + t*u1)) (Hu ROps (BendStretch_H ROps (q0,q1)) (u0 :: u1 :: nil)).
Proof. exact (BendStretch_jet q0 q1 u0 u1). Qed.
Print Assumptions C03_BendStretch_jet.

Theorem C03_Planar_jet q0 q1 q2 u0 u1 u2 :
  moves_with (fun t => Planar_X ROps (q0 + t*u0, q1 + t*u1, q2 + t*u2)) (Hu ROps (Planar_H ROps) (u0 :: u1 :: u2 :: nil)).
Proof. exact (Planar_jet q0 q1 q2 u0 u1 u2). Qed.
Print Assumptions C03_Planar_jet.

Theorem C03_Translation_jet q0 q1 q2 u0 u1 u2 :
  moves_with (fun t => Translation_X ROps (q0 + t*u0, q1 + t*u1, q2 + t*u2)) (Hu ROps (Translation_H ROps) (u0 :: u1 :: u2 :: nil)).
Proof. exact (Translation_jet q0 q1 q2 u0 u1 u2). Qed.
Print Assumptions C03_Translation_jet.

Theorem C03_Gimbal_jet q0 q1 q2 u0 u1 u2 :
  moves_with (fun t => Gimbal_X ROps (q0 + t*u0, q1 + t*u1, q2 + t*u2)) (Hu ROps (Gimbal_H ROps (q0,q1,q2)) (u0 :: u1 :: u2 :: nil)).
Proof. exact (Gimbal_jet q0 q1 q2 u0 u1 u2). Qed.
Print Assumptions C03_Gimbal_jet.

Theorem C03_Bushing_jet q0 q1 q2 p0 p1 p2 u0 u1 u2 u3 u4 u5 :
  moves_with (fun t => Bushing_X ROps (q0 + t*u0, q1 + t*u1, q2 + t*u2) (p0 + t*u3, p1 + t*u4, p2 + t*u5))
             (Hu ROps (Bushing_H ROps (q0,q1,q2)) (u0::u1::u2::u3::u4::u5::nil)).
Proof. exact (Bushing_jet q0 q1 q2 p0 p1 p2 u0 u1 u2 u3 u4 u5). Qed.
Print Assumptions C03_Bushing_jet.

Theorem C03_Ball_jet_e q0 q1 q2 w0 w1 w2 : cos q1 <> 0 ->
  let qd := Ball_Ne ROps (q0,q1,q2) (w0,w1,w2) in
  moves_with (fun t => Ball_Xe ROps (q0 + t*v3_0 qd, q1 + t*v3_1 qd, q2 + t*v3_2 qd)) (Hu ROps (Ball_H ROps) (w0 :: w1 :: w2 :: nil)).
Proof. exact (Ball_jet_e q0 q1 q2 w0 w1 w2). Qed.
Print Assumptions C03_Ball_jet_e.

Theorem C03_Ball_jet_q e0 e1 e2 e3' w0 w1 w2 : e0*e0+e1*e1+e2*e2+e3'*e3' <> 0 ->
  let qd := Ball_Nq ROps (e0,e1,e2,e3') (w0,w1,w2) in
  moves_with (fun t => Ball_Xq ROps (e0 + t*v4_0 qd, e1 + t*v4_1 qd, e2 + t*v4_2 qd, e3' + t*v4_3 qd)) (Hu ROps (Ball_H ROps) (w0 :: w1 :: w2 :: nil)).
Proof. exact (Ball_jet_q e0 e1 e2 e3' w0 w1 w2). Qed.
Print Assumptions C03_Ball_jet_q.

Theorem C03_Free_jet_e q0 q1 q2 p0 p1 p2 w0 w1 w2 v0 v1 v2 : cos q1 <> 0 ->
  let qd := Ball_Ne ROps (q0,q1,q2) (w0,w1,w2) in
  moves_with (fun t => Free_Xe ROps (q0 + t*v3_0 qd, q1 + t*v3_1 qd, q2 + t*v3_2 qd) (p0 + t*v0, p1 + t*v1, p2 + t*v2))
             (Hu ROps (Free_H ROps) (w0::w1::w2::v0::v1::v2::nil)).
Proof. exact (Free_jet_e q0 q1 q2 p0 p1 p2 w0 w1 w2 v0 v1 v2). Qed.
Print Assumptions C03_Free_jet_e.

Theorem C03_Free_jet_q e0 e1 e2 e3' p0 p1 p2 w0 w1 w2 v0 v1 v2 : e0*e0+e1*e1+e2*e2+e3'*e3' <> 0 ->
  let qd := Ball_Nq ROps (e0,e1,e2,e3') (w0,w1,w2) in
  moves_with (fun t => Free_Xq ROps (e0 + t*v4_0 qd, e1 + t*v4_1 qd, e2 + t*v4_2 qd, e3' + t*v4_3 qd) (p0 + t*v0, p1 + t*v1, p2 + t*v2))
             (Hu ROps (Free_H ROps) (w0::w1::w2::v0::v1::v2::nil)).
Proof. exact (Free_jet_q e0 e1 e2 e3' p0 p1 p2 w0 w1 w2 v0 v1 v2). Qed.
Print Assumptions C03_Free_jet_q.

Theorem C03_reversed_jet X V : is_rot (fst (X 0)) -> moves_with X V ->
  moves_with (fun t => rev_X ROps (X t)) (rev_col ROps (rev_X ROps (X 0)) V).
Proof. exact (reversed_jet X V). Qed.
Print Assumptions C03_reversed_jet.

Theorem C03_Line_jet_e q0 q1 q2 u0 u1 : cos q1 <> 0 ->
  let qd := Line_Ne ROps (q0,q1,q2) (u0,u1) in
  moves_with (fun t => Ball_Xe ROps (q0 + t*v3_0 qd, q1 + t*v3_1 qd, q2 + t*v3_2 qd))
             (Hu ROps (Line_H ROps (Rxyz ROps (q0,q1,q2))) (u0 :: u1 :: nil)).
Proof. exact (Line_jet_e q0 q1 q2 u0 u1). Qed.
Print Assumptions C03_Line_jet_e.

Theorem C03_Line_jet_q e0 e1 e2 e3' u0 u1 : e0*e0+e1*e1+e2*e2+e3'*e3' <> 0 ->
  let qd := Line_Nq ROps (e0,e1,e2,e3') (u0,u1) in
  moves_with (fun t => Ball_Xq ROps (e0 + t*v4_0 qd, e1 + t*v4_1 qd, e2 + t*v4_2 qd, e3' + t*v4_3 qd))
             (Hu ROps (Line_H ROps (quatR ROps (e0,e1,e2,e3'))) (u0 :: u1 :: nil)).
Proof. exact (Line_jet_q e0 e1 e2 e3' u0 u1). Qed.
Print Assumptions C03_Line_jet_q.

Theorem C03_FreeLine_jet_e q0 q1 q2 p0 p1 p2 u0 u1 v0 v1 v2 : cos q1 <> 0 ->
  let qd := Line_Ne ROps (q0,q1,q2) (u0,u1) in
  moves_with (fun t => Free_Xe ROps (q0 + t*v3_0 qd, q1 + t*v3_1 qd, q2 + t*v3_2 qd) (p0 + t*v0, p1 + t*v1, p2 + t*v2))
             (Hu ROps (Line_H ROps (Rxyz ROps (q0,q1,q2)) ++ Translation_H ROps) (u0 :: u1 :: v0 :: v1 :: v2 :: nil)).
Proof. exact (FreeLine_jet_e q0 q1 q2 p0 p1 p2 u0 u1 v0 v1 v2). Qed.
Print Assumptions C03_FreeLine_jet_e.

Theorem C03_FreeLine_jet_q e0 e1 e2 e3' p0 p1 p2 u0 u1 v0 v1 v2 : e0*e0+e1*e1+e2*e2+e3'*e3' <> 0 ->
  let qd := Line_Nq ROps (e0,e1,e2,e3') (u0,u1) in
  moves_with (fun t => Free_Xq ROps (e0 + t*v4_0 qd, e1 + t*v4_1 qd, e2 + t*v4_2 qd, e3' + t*v4_3 qd) (p0 + t*v0, p1 + t*v1, p2 + t*v2))
             (Hu ROps (Line_H ROps (quatR ROps (e0,e1,e2,e3')) ++ Translation_H ROps) (u0 :: u1 :: v0 :: v1 :: v2 :: nil)).
Proof. exact (FreeLine_jet_q e0 e1 e2 e3' p0 p1 p2 u0 u1 v0 v1 v2). Qed.
Print Assumptions C03_FreeLine_jet_q.

Theorem C03_Sph_jet az0 s0 ze0 s1 ax s2 q0 q1 q2 u0 u1 u2 :
  let o := mkSc az0 s0 ze0 s1 ax s2 in
  moves_with (fun t => Sph_X ROps o (q0 + t*u0, q1 + t*u1, q2 + t*u2)) (Hu ROps (Sph_H ROps o (q0,q1,q2)) (u0 :: u1 :: u2 :: nil)).
Proof. exact (Sph_jet az0 s0 ze0 s1 ax s2 q0 q1 q2 u0 u1 u2). Qed.
Print Assumptions C03_Sph_jet.

Theorem C03_Ell_jet_e a b c q0 q1 q2 w0 w1 w2 : cos q1 <> 0 ->
  let qd := Ball_Ne ROps (q0,q1,q2) (w0,w1,w2) in
  moves_with (fun t => Ell_Xe ROps (a,b,c) (q0 + t*v3_0 qd, q1 + t*v3_1 qd, q2 + t*v3_2 qd))
             (Hu ROps (Ell_H ROps (a,b,c) (Rxyz ROps (q0,q1,q2))) (w0 :: w1 :: w2 :: nil)).
Proof. exact (Ell_jet_e a b c q0 q1 q2 w0 w1 w2). Qed.
Print Assumptions C03_Ell_jet_e.

Theorem C03_Ell_jet_q a b c e0 e1 e2 e3' w0 w1 w2 : e0*e0+e1*e1+e2*e2+e3'*e3' <> 0 ->
  let qd := Ball_Nq ROps (e0,e1,e2,e3') (w0,w1,w2) in
  moves_with (fun t => Ell_Xq ROps (a,b,c) (e0 + t*v4_0 qd, e1 + t*v4_1 qd, e2 + t*v4_2 qd, e3' + t*v4_3 qd))
             (Hu ROps (Ell_H ROps (a,b,c) (quatR ROps (e0,e1,e2,e3'))) (w0 :: w1 :: w2 :: nil)).
Proof. exact (Ell_jet_q a b c e0 e1 e2 e3' w0 w1 w2). Qed.
Print Assumptions C03_Ell_jet_q.

