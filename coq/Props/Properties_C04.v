(** C04 property theorems (statements only; proofs in C04/C04_Proofs.v and Lib/MB_Proofs.v).
    The operators are those of Lib/MB.v, which the correspondence run ties to
    multiplyBySystemJacobian(Transpose), the station/frame Jacobian operators,
    calcBiasForSystemJacobian and calcBodyAccelerationFromUDot on random trees. *)
From Coq Require Import List Reals.
Import ListNotations.
Require Import Num Vec Tree MB Spatial C04_Proofs.
Local Open Scope R_scope.

Section P.
Context {X : Type} (nd : X -> node (SpatialVec R) (Vec3 R) (SpInertia (T:=R))).
Notation KR := (svK ROps).

Theorem C04_transpose_is_exact_adjoint (u : X -> list R) (F : X -> SpatialVec R) (t : tree X) :
  tsum (tmap (fun xv => dot KR (F (fst xv)) (snd xv)) (mulJ KR nd u t))
  = tsum (tmap (fun xt => dotU KR (snd xt) (u (fst xt))) (mulJt KR nd F t)).
Proof. exact (mulJt_is_adjoint nd u F t). Qed.

Theorem C04_frame_task_adjoint (p : Vec3 R) (F V : SpatialVec R) :
  sv_dot ROps F (shiftVel ROps p V) = sv_dot ROps (shiftForce ROps p F) V.
Proof. exact (frame_task_adjoint p F V). Qed.

Theorem C04_station_task_adjoint (p f : Vec3 R) (V : SpatialVec R) :
  v3_dot ROps f (snd (shiftVel ROps p V)) = sv_dot ROps (shiftForce ROps p (v3_zero ROps, f)) V.
Proof. exact (station_task_adjoint p f V). Qed.

Theorem C04_acc_is_Judot_plus_bias (ud : X -> list R) (e : X -> SpatialVec R) (t : tree X) :
  Forall (fun xs => fst (snd xs) = sv_add ROps (fst (snd (snd xs))) (snd (snd (snd xs))))
         (flatten (outward (triple nd ud e) (vzero KR, (vzero KR, vzero KR)) t)).
Proof. exact (acc_is_Judot_plus_bias nd ud e t). Qed.

Theorem C04_triple_acc ud e (t : tree X) :
  tmap (fun xs => (fst xs, fst (snd xs))) (outward (triple nd ud e) (vzero KR, (vzero KR, vzero KR)) t) = kin KR nd ud e (vzero KR) t.
Proof. exact (triple_fst nd ud e t). Qed.
Theorem C04_triple_Judot ud e (t : tree X) :
  tmap (fun xs => (fst xs, fst (snd (snd xs)))) (outward (triple nd ud e) (vzero KR, (vzero KR, vzero KR)) t) = mulJ KR nd ud t.
Proof. exact (triple_J nd ud e t). Qed.
Theorem C04_triple_bias ud e (t : tree X) :
  tmap (fun xs => (fst xs, snd (snd (snd xs)))) (outward (triple nd ud e) (vzero KR, (vzero KR, vzero KR)) t) = kin KR nd (fun _ => []) e (vzero KR) t.
Proof. exact (triple_bias nd ud e t). Qed.
End P.

Theorem C04_adjoint_on_concrete_chain :
  let nd := fun (i:nat) => mkNode (1,2,3) (if Nat.eqb i 0 then [((0,0,1),(1,0,0))] else [((1,0,0),(0,1,0)); ((0,1,0),(0,0,1))]) (2, (0,0,0), ((1,1,1),(0,0,0))) in
  let t := Node 0%nat [Node 1%nat []] in
  tsum (tmap (fun xv => dot (svK ROps) (((1,0,0),(0,2,0)) : SpatialVec R) (snd xv)) (mulJ (svK ROps) nd (fun i => if Nat.eqb i 0 then [3] else [4;5]) t)) = 18.
Proof. exact adjoint_on_concrete_chain. Qed.

Print Assumptions C04_transpose_is_exact_adjoint.
Print Assumptions C04_frame_task_adjoint.
Print Assumptions C04_station_task_adjoint.
Print Assumptions C04_acc_is_Judot_plus_bias.
Print Assumptions C04_triple_acc.
Print Assumptions C04_triple_Judot.
Print Assumptions C04_triple_bias.
Print Assumptions C04_adjoint_on_concrete_chain.
