(** C04 (second file): bias terms of the station and frame Jacobians (calcBiasForStationJacobian,
    calcBiasForFrameJacobian).  Statements only; proofs in C04/C04_Bias.v.  The body-level statement
    A_body = (J udot)_body + bias_body is C04_acc_is_Judot_plus_bias (Properties_C04.v). *)
From Coq Require Import Reals.
Require Import Num Vec Spatial C04_Bias.
Local Open Scope R_scope.

(** the task acceleration (alpha, a + alpha x p + w x (w x p)) splits into (task Jacobian row) udot + task bias *)
Theorem C04_frame_task_acc_is_JFudot_plus_bias (p : Vec3 R) (V JUd B : SpatialVec R) :
  frame_acc ROps p V (sv_add ROps JUd B) = sv_add ROps (shiftVel ROps p JUd) (frame_acc ROps p V B).
Proof. exact (frame_acc_split p V JUd B). Qed.
Theorem C04_station_task_acc_is_JSudot_plus_bias (p : Vec3 R) (V JUd B : SpatialVec R) :
  station_acc ROps p V (sv_add ROps JUd B) = v3_add ROps (snd (shiftVel ROps p JUd)) (station_acc ROps p V B).
Proof. exact (station_acc_split p V JUd B). Qed.
(** ... and that expression is the time derivative of the station velocity v + w x p of a body-fixed station (dp/dt = w x p) *)
Theorem C04_station_acc_is_derivative_of_station_velocity (w v p : R -> Vec3 R) (t : R) (dw dv : Vec3 R) :
  vderiv w t dw -> vderiv v t dv -> vderiv p t (v3_cross ROps (w t) (p t)) ->
  vderiv (fun s => v3_add ROps (v s) (v3_cross ROps (w s) (p s))) t (station_acc ROps (p t) (w t, v t) (dw, dv)).
Proof. exact (station_acc_is_derivative_of_station_velocity w v p t dw dv). Qed.
Theorem C04_task_bias_at_rest (p v : Vec3 R) (B : SpatialVec R) :
  frame_acc ROps p (v3_zero ROps, v) B = shiftVel ROps p B.
Proof. exact (frame_acc_at_rest p v B). Qed.

Print Assumptions C04_frame_task_acc_is_JFudot_plus_bias.
Print Assumptions C04_station_task_acc_is_JSudot_plus_bias.
Print Assumptions C04_station_acc_is_derivative_of_station_velocity.
Print Assumptions C04_task_bias_at_rest.
