(** C05 property theorems: statements only, each closed by [exact]; proofs are in C05/C05_Proofs.v, C05/C05_Wave2.v,
    C05/C05_Fit.v, C05/C05_Partial.v (shared lemmas in C05/C05_Rot.v, C05/C05_Jet.v); the catalogue is C05/C05_Model.v, written from the public
    headers MobilizedBody_*.h; the Euler / quaternion N blocks come from Gen/rot_gen.v (regenerated from Rotation.h). *)
From Coq Require Import ZArith Reals List.
From Coquelicot Require Import Coquelicot.
Require Import Num Vec rot_gen C28_Defs C28_Proofs C05_Model C05_Rot C05_Jet C05_Proofs C05_Wave2 C05_Fit C05_Partial.
Local Open Scope R_scope.

Theorem C05_RotZ_rot a : is_rot (RotZ ROps a).
Proof. exact (RotZ_rot a). Qed.
Print Assumptions C05_RotZ_rot.

Theorem C05_Rxyz_rot a : is_rot (Rxyz ROps a).
Proof. exact (Rxyz_rot a). Qed.
Print Assumptions C05_Rxyz_rot.

Theorem C05_quatR_rot e : v4_normSqr ROps e <> 0 -> is_rot (quatR ROps e).
Proof. exact (quatR_rot e). Qed.
Print Assumptions C05_quatR_rot.

Theorem C05_quatR_unit e : v4_normSqr ROps e = 1 -> quatR ROps e = Rquat ROps e.
Proof. exact (quatR_unit e). Qed.
Print Assumptions C05_quatR_unit.

Theorem C05_quatR_scale k e : k <> 0 -> v4_normSqr ROps e <> 0 -> quatR ROps (v4_scale ROps k e) = quatR ROps e.
Proof. exact (quatR_scale k e). Qed.
Print Assumptions C05_quatR_scale.

Theorem C05_Weld_rot : is_rot (fst (Weld_X ROps)).
Proof. exact (@Weld_rot). Qed.
Print Assumptions C05_Weld_rot.

Theorem C05_Pin_rot q : is_rot (fst (Pin_X ROps q)).
Proof. exact (Pin_rot q). Qed.
Print Assumptions C05_Pin_rot.

Theorem C05_Slider_rot q : is_rot (fst (Slider_X ROps q)).
Proof. exact (Slider_rot q). Qed.
Print Assumptions C05_Slider_rot.

Theorem C05_Screw_rot p q : is_rot (fst (Screw_X ROps p q)).
Proof. exact (Screw_rot p q). Qed.
Print Assumptions C05_Screw_rot.

Theorem C05_Universal_rot q : is_rot (fst (Universal_X ROps q)).
Proof. exact (Universal_rot q). Qed.
Print Assumptions C05_Universal_rot.

Theorem C05_Cylinder_rot q : is_rot (fst (Cylinder_X ROps q)).
Proof. exact (Cylinder_rot q). Qed.
Print Assumptions C05_Cylinder_rot.

Theorem C05_BendStretch_rot q : is_rot (fst (BendStretch_X ROps q)).
Proof. exact (BendStretch_rot q). Qed.
Print Assumptions C05_BendStretch_rot.

Theorem C05_Planar_rot q : is_rot (fst (Planar_X ROps q)).
Proof. exact (Planar_rot q). Qed.
Print Assumptions C05_Planar_rot.

Theorem C05_Translation_rot q : is_rot (fst (Translation_X ROps q)).
Proof. exact (Translation_rot q). Qed.
Print Assumptions C05_Translation_rot.

Theorem C05_Gimbal_rot q : is_rot (fst (Gimbal_X ROps q)).
Proof. exact (Gimbal_rot q). Qed.
Print Assumptions C05_Gimbal_rot.

Theorem C05_Bushing_rot a p : is_rot (fst (Bushing_X ROps a p)).
Proof. exact (Bushing_rot a p). Qed.
Print Assumptions C05_Bushing_rot.

Theorem C05_Ball_rot_q e : v4_normSqr ROps e <> 0 -> is_rot (fst (Ball_Xq ROps e)).
Proof. exact (Ball_rot_q e). Qed.
Print Assumptions C05_Ball_rot_q.

Theorem C05_Ball_rot_e a : is_rot (fst (Ball_Xe ROps a)).
Proof. exact (Ball_rot_e a). Qed.
Print Assumptions C05_Ball_rot_e.

Theorem C05_Free_rot_q e p : v4_normSqr ROps e <> 0 -> is_rot (fst (Free_Xq ROps e p)).
Proof. exact (Free_rot_q e p). Qed.
Print Assumptions C05_Free_rot_q.

Theorem C05_Free_rot_e a p : is_rot (fst (Free_Xe ROps a p)).
Proof. exact (Free_rot_e a p). Qed.
Print Assumptions C05_Free_rot_e.

Theorem C05_Sph_rot o q : is_rot (fst (Sph_X ROps o q)).
Proof. exact (Sph_rot o q). Qed.
Print Assumptions C05_Sph_rot.

Theorem C05_Ell_rot_q r e : v4_normSqr ROps e <> 0 -> is_rot (fst (Ell_Xq ROps r e)).
Proof. exact (Ell_rot_q r e). Qed.
Print Assumptions C05_Ell_rot_q.

Theorem C05_Ell_rot_e r a : is_rot (fst (Ell_Xe ROps r a)).
Proof. exact (Ell_rot_e r a). Qed.
Print Assumptions C05_Ell_rot_e.

Theorem C05_Pin_doc q : Pin_X ROps q = (((cos q, - sin q, 0), (sin q, cos q, 0), (0, 0, 1)), (0,0,0)).
Proof. exact (Pin_doc q). Qed.
Print Assumptions C05_Pin_doc.

Theorem C05_Slider_doc q : Slider_X ROps q = (I33, v3_scale ROps q (ex ROps)).
Proof. exact (Slider_doc q). Qed.
Print Assumptions C05_Slider_doc.

Theorem C05_Screw_doc pitch q : Screw_X ROps pitch q = Cylinder_X ROps (q, pitch * q).
Proof. exact (Screw_doc pitch q). Qed.
Print Assumptions C05_Screw_doc.

Theorem C05_Cylinder_doc q0 q1 : Cylinder_X ROps (q0,q1) = xf_compose ROps (Pin_X ROps q0) (I33, v3_scale ROps q1 (ez ROps)).
Proof. exact (Cylinder_doc q0 q1). Qed.
Print Assumptions C05_Cylinder_doc.

Theorem C05_Universal_doc q0 q1 : fst (Universal_X ROps (q0,q1)) = m33_mul ROps (RotX ROps q0) (RotY ROps q1).
Proof. exact (Universal_doc q0 q1). Qed.
Print Assumptions C05_Universal_doc.

Theorem C05_BendStretch_doc q0 q1 : BendStretch_X ROps (q0,q1) = xf_compose ROps (Pin_X ROps q0) (Slider_X ROps q1).
Proof. exact (BendStretch_doc q0 q1). Qed.
Print Assumptions C05_BendStretch_doc.

Theorem C05_Planar_doc q0 q1 q2 : Planar_X ROps (q0,q1,q2) = xf_compose ROps (Translation_X ROps (q1,q2,0)) (Pin_X ROps q0).
Proof. exact (Planar_doc q0 q1 q2). Qed.
Print Assumptions C05_Planar_doc.

Theorem C05_Gimbal_doc q0 q1 q2 :
  Gimbal_X ROps (q0,q1,q2) = xf_compose ROps (xf_compose ROps (RotX ROps q0, (0,0,0)) (RotY ROps q1, (0,0,0))) (Pin_X ROps q2).
Proof. exact (Gimbal_doc q0 q1 q2). Qed.
Print Assumptions C05_Gimbal_doc.

Theorem C05_Bushing_doc a p : Bushing_X ROps a p = xf_compose ROps (Translation_X ROps p) (Gimbal_X ROps a).
Proof. exact (Bushing_doc a p). Qed.
Print Assumptions C05_Bushing_doc.

Theorem C05_Free_doc_e a p : Free_Xe ROps a p = xf_compose ROps (Translation_X ROps p) (Ball_Xe ROps a).
Proof. exact (Free_doc_e a p). Qed.
Print Assumptions C05_Free_doc_e.

Theorem C05_Free_doc_q e p : Free_Xq ROps e p = xf_compose ROps (Translation_X ROps p) (Ball_Xq ROps e).
Proof. exact (Free_doc_q e p). Qed.
Print Assumptions C05_Free_doc_q.

Theorem C05_Ball_doc_quat_z h : quatR ROps (cos h, 0, 0, sin h) = RotZ ROps (2*h).
Proof. exact (Ball_doc_quat_z h). Qed.
Print Assumptions C05_Ball_doc_quat_z.

Theorem C05_Ball_doc_quat_x h : quatR ROps (cos h, sin h, 0, 0) = RotX ROps (2*h).
Proof. exact (Ball_doc_quat_x h). Qed.
Print Assumptions C05_Ball_doc_quat_x.

Theorem C05_Ball_doc_quat_y h : quatR ROps (cos h, 0, sin h, 0) = RotY ROps (2*h).
Proof. exact (Ball_doc_quat_y h). Qed.
Print Assumptions C05_Ball_doc_quat_y.

Theorem C05_Ball_speeds_are_w_FM u0 u1 u2 : Hu ROps (Ball_H ROps) (u0 :: u1 :: u2 :: nil) = ((u0,u1,u2),(0,0,0)).
Proof. exact (Ball_speeds_are_w_FM u0 u1 u2). Qed.
Print Assumptions C05_Ball_speeds_are_w_FM.

Theorem C05_Free_speeds_are_V_FM u0 u1 u2 u3 u4 u5 : Hu ROps (Free_H ROps) (u0::u1::u2::u3::u4::u5::nil) = ((u0,u1,u2),(u3,u4,u5)).
Proof. exact (Free_speeds_are_V_FM u0 u1 u2 u3 u4 u5). Qed.
Print Assumptions C05_Free_speeds_are_V_FM.

Theorem C05_Translation_speeds_are_v_FM u0 u1 u2 : Hu ROps (Translation_H ROps) (u0 :: u1 :: u2 :: nil) = ((0,0,0),(u0,u1,u2)).
Proof. exact (Translation_speeds_are_v_FM u0 u1 u2). Qed.
Print Assumptions C05_Translation_speeds_are_v_FM.

