(** C05 property theorems: statements only, each closed by [exact]; proofs are in C05/C05_Proofs.v, C05/C05_Wave2.v,
    C05/C05_Fit.v (shared lemmas in C05/C05_Rot.v, C05/C05_Jet.v); the catalogue is C05/C05_Model.v, written from the public
    headers MobilizedBody_*.h; the Euler / quaternion N blocks come from Gen/rot_gen.v (regenerated from Rotation.h). *)
From Coq Require Import ZArith Reals List.
From Coquelicot Require Import Coquelicot.
Require Import Num Vec rot_gen C28_Defs C28_Proofs C05_Model C05_Rot C05_Jet C05_Proofs C05_Wave2 C05_Fit.
Local Open Scope R_scope.

Theorem C05_RotZ_rot a : is_rot (RotZ ROps a).
Proof. exact (RotZ_rot a). Qed.
Print Assumptions C05_RotZ_rot.

Theorem C05_Rxyz_rot a : is_rot (Rxyz ROps a).
Proof. exact (Rxyz_rot a). Qed.
Print Assumptions C05_Rxyz_rot.

Theorem C05_quatR_rot e : v4_normSqr ROps e <> 0 -> is_rot (quatR ROps e).
Proof. exact (quatR_rot e). Qed.
Print Assumptions C05_quatR_rot.

Theorem C05_quatR_unit e : v4_normSqr ROps e = 1 -> quatR ROps e = Rquat ROps e.
Proof. exact (quatR_unit e). Qed.
Print Assumptions C05_quatR_unit.

Theorem C05_quatR_scale k e : k <> 0 -> v4_normSqr ROps e <> 0 -> quatR ROps (v4_scale ROps k e) = quatR ROps e.
Proof. exact (quatR_scale k e). Qed.
Print Assumptions C05_quatR_scale.

Theorem C05_Weld_rot : is_rot (fst (Weld_X ROps)).
Proof. exact (@Weld_rot). Qed.
Print Assumptions C05_Weld_rot.

Theorem C05_Pin_rot q : is_rot (fst (Pin_X ROps q)).
Proof. exact (Pin_rot q). Qed.
Print Assumptions C05_Pin_rot.

Theorem C05_Slider_rot q : is_rot (fst (Slider_X ROps q)).
Proof. exact (Slider_rot q). Qed.
Print Assumptions C05_Slider_rot.

Theorem C05_Screw_rot p q : is_rot (fst (Screw_X ROps p q)).
Proof. exact (Screw_rot p q). Qed.
Print Assumptions C05_Screw_rot.

Theorem C05_Universal_rot q : is_rot (fst (Universal_X ROps q)).
Proof. exact (Universal_rot q). Qed.
Print Assumptions C05_Universal_rot.

Theorem C05_Cylinder_rot q : is_rot (fst (Cylinder_X ROps q)).
Proof. exact (Cylinder_rot q). Qed.
Print Assumptions C05_Cylinder_rot.

Theorem C05_BendStretch_rot q : is_rot (fst (BendStretch_X ROps q)).
Proof. exact (BendStretch_rot q). Qed.
Print Assumptions C05_BendStretch_rot.

Theorem C05_Planar_rot q : is_rot (fst (Planar_X ROps q)).
Proof. exact (Planar_rot q). Qed.
Print Assumptions C05_Planar_rot.

Theorem C05_Translation_rot q : is_rot (fst (Translation_X ROps q)).
Proof. exact (Translation_rot q). Qed.
Print Assumptions C05_Translation_rot.

Theorem C05_Gimbal_rot q : is_rot (fst (Gimbal_X ROps q)).
Proof. exact (Gimbal_rot q). Qed.
Print Assumptions C05_Gimbal_rot.

Theorem C05_Bushing_rot a p : is_rot (fst (Bushing_X ROps a p)).
Proof. exact (Bushing_rot a p). Qed.
Print Assumptions C05_Bushing_rot.

Theorem C05_Ball_rot_q e : v4_normSqr ROps e <> 0 -> is_rot (fst (Ball_Xq ROps e)).
Proof. exact (Ball_rot_q e). Qed.
Print Assumptions C05_Ball_rot_q.

Theorem C05_Ball_rot_e a : is_rot (fst (Ball_Xe ROps a)).
Proof. exact (Ball_rot_e a). Qed.
Print Assumptions C05_Ball_rot_e.

Theorem C05_Free_rot_q e p : v4_normSqr ROps e <> 0 -> is_rot (fst (Free_Xq ROps e p)).
Proof. exact (Free_rot_q e p). Qed.
Print Assumptions C05_Free_rot_q.

Theorem C05_Free_rot_e a p : is_rot (fst (Free_Xe ROps a p)).
Proof. exact (Free_rot_e a p). Qed.
Print Assumptions C05_Free_rot_e.

Theorem C05_Sph_rot o q : is_rot (fst (Sph_X ROps o q)).
Proof. exact (Sph_rot o q). Qed.
Print Assumptions C05_Sph_rot.

Theorem C05_Ell_rot_q r e : v4_normSqr ROps e <> 0 -> is_rot (fst (Ell_Xq ROps r e)).
Proof. exact (Ell_rot_q r e). Qed.
Print Assumptions C05_Ell_rot_q.

Theorem C05_Ell_rot_e r a : is_rot (fst (Ell_Xe ROps r a)).
Proof. exact (Ell_rot_e r a). Qed.
Print Assumptions C05_Ell_rot_e.

Theorem C05_Pin_doc q : Pin_X ROps q = (((cos q, - sin q, 0), (sin q, cos q, 0), (0, 0, 1)), (0,0,0)).
Proof. exact (Pin_doc q). Qed.
Print Assumptions C05_Pin_doc.

Theorem C05_Slider_doc q : Slider_X ROps q = (I33, v3_scale ROps q (ex ROps)).
Proof. exact (Slider_doc q). Qed.
Print Assumptions C05_Slider_doc.

Theorem C05_Screw_doc pitch q : Screw_X ROps pitch q = Cylinder_X ROps (q, pitch * q).
Proof. exact (Screw_doc pitch q). Qed.
Print Assumptions C05_Screw_doc.

Theorem C05_Cylinder_doc q0 q1 : Cylinder_X ROps (q0,q1) = xf_compose ROps (Pin_X ROps q0) (I33, v3_scale ROps q1 (ez ROps)).
Proof. exact (Cylinder_doc q0 q1). Qed.
Print Assumptions C05_Cylinder_doc.

Theorem C05_Universal_doc q0 q1 : fst (Universal_X ROps (q0,q1)) = m33_mul ROps (RotX ROps q0) (RotY ROps q1).
Proof. exact (Universal_doc q0 q1). Qed.
Print Assumptions C05_Universal_doc.

Theorem C05_BendStretch_doc q0 q1 : BendStretch_X ROps (q0,q1) = xf_compose ROps (Pin_X ROps q0) (Slider_X ROps q1).
Proof. exact (BendStretch_doc q0 q1). Qed.
Print Assumptions C05_BendStretch_doc.

Theorem C05_Planar_doc q0 q1 q2 : Planar_X ROps (q0,q1,q2) = xf_compose ROps (Translation_X ROps (q1,q2,0)) (Pin_X ROps q0).
Proof. exact (Planar_doc q0 q1 q2). Qed.
Print Assumptions C05_Planar_doc.

Theorem C05_Gimbal_doc q0 q1 q2 :
  Gimbal_X ROps (q0,q1,q2) = xf_compose ROps (xf_compose ROps (RotX ROps q0, (0,0,0)) (RotY ROps q1, (0,0,0))) (Pin_X ROps q2).
Proof. exact (Gimbal_doc q0 q1 q2). Qed.
Print Assumptions C05_Gimbal_doc.

Theorem C05_Bushing_doc a p : Bushing_X ROps a p = xf_compose ROps (Translation_X ROps p) (Gimbal_X ROps a).
Proof. exact (Bushing_doc a p). Qed.
Print Assumptions C05_Bushing_doc.

Theorem C05_Free_doc_e a p : Free_Xe ROps a p = xf_compose ROps (Translation_X ROps p) (Ball_Xe ROps a).
Proof. exact (Free_doc_e a p). Qed.
Print Assumptions C05_Free_doc_e.

Theorem C05_Free_doc_q e p : Free_Xq ROps e p = xf_compose ROps (Translation_X ROps p) (Ball_Xq ROps e).
Proof. exact (Free_doc_q e p). Qed.
Print Assumptions C05_Free_doc_q.

Theorem C05_Ball_doc_quat_z h : quatR ROps (cos h, 0, 0, sin h) = RotZ ROps (2*h).
Proof. exact (Ball_doc_quat_z h). Qed.
Print Assumptions C05_Ball_doc_quat_z.

Theorem C05_Ball_doc_quat_x h : quatR ROps (cos h, sin h, 0, 0) = RotX ROps (2*h).
Proof. exact (Ball_doc_quat_x h). Qed.
Print Assumptions C05_Ball_doc_quat_x.

Theorem C05_Ball_doc_quat_y h : quatR ROps (cos h, 0, sin h, 0) = RotY ROps (2*h).
Proof. exact (Ball_doc_quat_y h). Qed.
Print Assumptions C05_Ball_doc_quat_y.

Theorem C05_Ball_speeds_are_w_FM u0 u1 u2 : Hu ROps (Ball_H ROps) (u0 :: u1 :: u2 :: nil) = ((u0,u1,u2),(0,0,0)).
Proof. exact (Ball_speeds_are_w_FM u0 u1 u2). Qed.
Print Assumptions C05_Ball_speeds_are_w_FM.

Theorem C05_Free_speeds_are_V_FM u0 u1 u2 u3 u4 u5 : Hu ROps (Free_H ROps) (u0::u1::u2::u3::u4::u5::nil) = ((u0,u1,u2),(u3,u4,u5)).
Proof. exact (Free_speeds_are_V_FM u0 u1 u2 u3 u4 u5). Qed.
Print Assumptions C05_Free_speeds_are_V_FM.

Theorem C05_Translation_speeds_are_v_FM u0 u1 u2 : Hu ROps (Translation_H ROps) (u0 :: u1 :: u2 :: nil) = ((0,0,0),(u0,u1,u2)).
Proof. exact (Translation_speeds_are_v_FM u0 u1 u2). Qed.
Print Assumptions C05_Translation_speeds_are_v_FM.

Theorem C05_Weld_jet : moves_with (fun _ => Weld_X ROps) (Hu ROps Weld_H nil).
Proof. exact (@Weld_jet). Qed.
Print Assumptions C05_Weld_jet.

Theorem C05_Pin_jet q u : moves_with (fun t => Pin_X ROps (q + t*u)) (Hu ROps (Pin_H ROps) (u :: nil)).
Proof. exact (Pin_jet q u). Qed.
Print Assumptions C05_Pin_jet.

Theorem C05_Slider_jet q u : moves_with (fun t => Slider_X ROps (q + t*u)) (Hu ROps (Slider_H ROps) (u :: nil)).
Proof. exact (Slider_jet q u). Qed.
Print Assumptions C05_Slider_jet.

Theorem C05_Screw_jet pitch q u : moves_with (fun t => Screw_X ROps pitch (q + t*u)) (Hu ROps (Screw_H ROps pitch) (u :: nil)).
Proof. exact (Screw_jet pitch q u). Qed.
Print Assumptions C05_Screw_jet.

Theorem C05_Universal_jet q0 q1 u0 u1 :
  moves_with (fun t => Universal_X ROps (q0 + t*u0, q1 + t*u1)) (Hu ROps (Universal_H ROps (q0,q1)) (u0 :: u1 :: nil)).
Proof. exact (Universal_jet q0 q1 u0 u1). Qed.
Print Assumptions C05_Universal_jet.

Theorem C05_Cylinder_jet q0 q1 u0 u1 :
  moves_with (fun t => Cylinder_X ROps (q0 + t*u0, q1 + t*u1)) (Hu ROps (Cylinder_H ROps) (u0 :: u1 :: nil)).
Proof. exact (Cylinder_jet q0 q1 u0 u1). Qed.
Print Assumptions C05_Cylinder_jet.

Theorem C05_BendStretch_jet q0 q1 u0 u1 :
  moves_with (fun t => BendStretch_X ROps (q0 + t*u0, q1 + t*u1)) (Hu ROps (BendStretch_H ROps (q0,q1)) (u0 :: u1 :: nil)).
Proof. exact (BendStretch_jet q0 q1 u0 u1). Qed.
Print Assumptions C05_BendStretch_jet.

Theorem C05_Planar_jet q0 q1 q2 u0 u1 u2 :
  moves_with (fun t => Planar_X ROps (q0 + t*u0, q1 + t*u1, q2 + t*u2)) (Hu ROps (Planar_H ROps) (u0 :: u1 :: u2 :: nil)).
Proof. exact (Planar_jet q0 q1 q2 u0 u1 u2). Qed.
Print Assumptions C05_Planar_jet.

Theorem C05_Translation_jet q0 q1 q2 u0 u1 u2 :
  moves_with (fun t => Translation_X ROps (q0 + t*u0, q1 + t*u1, q2 + t*u2)) (Hu ROps (Translation_H ROps) (u0 :: u1 :: u2 :: nil)).
Proof. exact (Translation_jet q0 q1 q2 u0 u1 u2). Qed.
Print Assumptions C05_Translation_jet.

Theorem C05_Gimbal_jet q0 q1 q2 u0 u1 u2 :
  moves_with (fun t => Gimbal_X ROps (q0 + t*u0, q1 + t*u1, q2 + t*u2)) (Hu ROps (Gimbal_H ROps (q0,q1,q2)) (u0 :: u1 :: u2 :: nil)).
Proof. exact (Gimbal_jet q0 q1 q2 u0 u1 u2). Qed.
Print Assumptions C05_Gimbal_jet.

Theorem C05_Bushing_jet q0 q1 q2 p0 p1 p2 u0 u1 u2 u3 u4 u5 :
  moves_with (fun t => Bushing_X ROps (q0 + t*u0, q1 + t*u1, q2 + t*u2) (p0 + t*u3, p1 + t*u4, p2 + t*u5))
             (Hu ROps (Bushing_H ROps (q0,q1,q2)) (u0::u1::u2::u3::u4::u5::nil)).
Proof. exact (Bushing_jet q0 q1 q2 p0 p1 p2 u0 u1 u2 u3 u4 u5). Qed.
Print Assumptions C05_Bushing_jet.

Theorem C05_Ball_jet_e q0 q1 q2 w0 w1 w2 : cos q1 <> 0 ->
  let qd := Ball_Ne ROps (q0,q1,q2) (w0,w1,w2) in
  moves_with (fun t => Ball_Xe ROps (q0 + t*v3_0 qd, q1 + t*v3_1 qd, q2 + t*v3_2 qd)) (Hu ROps (Ball_H ROps) (w0 :: w1 :: w2 :: nil)).
Proof. exact (Ball_jet_e q0 q1 q2 w0 w1 w2). Qed.
Print Assumptions C05_Ball_jet_e.

Theorem C05_Ball_jet_q e0 e1 e2 e3' w0 w1 w2 : e0*e0+e1*e1+e2*e2+e3'*e3' <> 0 ->
  let qd := Ball_Nq ROps (e0,e1,e2,e3') (w0,w1,w2) in
  moves_with (fun t => Ball_Xq ROps (e0 + t*v4_0 qd, e1 + t*v4_1 qd, e2 + t*v4_2 qd, e3' + t*v4_3 qd)) (Hu ROps (Ball_H ROps) (w0 :: w1 :: w2 :: nil)).
Proof. exact (Ball_jet_q e0 e1 e2 e3' w0 w1 w2). Qed.
Print Assumptions C05_Ball_jet_q.

Theorem C05_Free_jet_e q0 q1 q2 p0 p1 p2 w0 w1 w2 v0 v1 v2 : cos q1 <> 0 ->
  let qd := Ball_Ne ROps (q0,q1,q2) (w0,w1,w2) in
  moves_with (fun t => Free_Xe ROps (q0 + t*v3_0 qd, q1 + t*v3_1 qd, q2 + t*v3_2 qd) (p0 + t*v0, p1 + t*v1, p2 + t*v2))
             (Hu ROps (Free_H ROps) (w0::w1::w2::v0::v1::v2::nil)).
Proof. exact (Free_jet_e q0 q1 q2 p0 p1 p2 w0 w1 w2 v0 v1 v2). Qed.
Print Assumptions C05_Free_jet_e.

Theorem C05_Free_jet_q e0 e1 e2 e3' p0 p1 p2 w0 w1 w2 v0 v1 v2 : e0*e0+e1*e1+e2*e2+e3'*e3' <> 0 ->
  let qd := Ball_Nq ROps (e0,e1,e2,e3') (w0,w1,w2) in
  moves_with (fun t => Free_Xq ROps (e0 + t*v4_0 qd, e1 + t*v4_1 qd, e2 + t*v4_2 qd, e3' + t*v4_3 qd) (p0 + t*v0, p1 + t*v1, p2 + t*v2))
             (Hu ROps (Free_H ROps) (w0::w1::w2::v0::v1::v2::nil)).
Proof. exact (Free_jet_q e0 e1 e2 e3' p0 p1 p2 w0 w1 w2 v0 v1 v2). Qed.
Print Assumptions C05_Free_jet_q.

Theorem C05_reversed_is_inverse X : is_rot (fst X) ->
  xf_compose ROps (rev_X ROps X) X = (I33, (0,0,0)) /\ xf_compose ROps X (rev_X ROps X) = (I33, (0,0,0)).
Proof. exact (reversed_is_inverse X). Qed.
Print Assumptions C05_reversed_is_inverse.

Theorem C05_reversed_jet X V : is_rot (fst (X 0)) -> moves_with X V ->
  moves_with (fun t => rev_X ROps (X t)) (rev_col ROps (rev_X ROps (X 0)) V).
Proof. exact (reversed_jet X V). Qed.
Print Assumptions C05_reversed_jet.

Theorem C05_rev_col_linear Xr H u : rev_col ROps Xr (Hu ROps H u) = Hu ROps (map (rev_col ROps Xr) H) u.
Proof. exact (rev_col_linear Xr H u). Qed.
Print Assumptions C05_rev_col_linear.

Theorem C05_Pin_rev_H q : rev_H ROps (Pin_X ROps q) (Pin_H ROps) = (((0,0,-1),(0,0,0)) :: nil).
Proof. exact (Pin_rev_H q). Qed.
Print Assumptions C05_Pin_rev_H.

Theorem C05_Slider_rev_H q : rev_H ROps (Slider_X ROps q) (Slider_H ROps) = (((0,0,0),(-1,0,0)) :: nil).
Proof. exact (Slider_rev_H q). Qed.
Print Assumptions C05_Slider_rev_H.

Theorem C05_Cylinder_rev_H q0 q1 : rev_H ROps (Cylinder_X ROps (q0,q1)) (Cylinder_H ROps) = (((0,0,-1),(0,0,0)) :: ((0,0,0),(0,0,-1)) :: nil).
Proof. exact (Cylinder_rev_H q0 q1). Qed.
Print Assumptions C05_Cylinder_rev_H.

Theorem C05_Screw_rev_H pitch q : rev_H ROps (Screw_X ROps pitch q) (Screw_H ROps pitch) = (((0,0,-1),(0,0,-pitch)) :: nil).
Proof. exact (Screw_rev_H pitch q). Qed.
Print Assumptions C05_Screw_rev_H.

Theorem C05_Translation_rev_H q : rev_H ROps (Translation_X ROps q) (Translation_H ROps) = (((0,0,0),(-1,0,0)) :: ((0,0,0),(0,-1,0)) :: ((0,0,0),(0,0,-1)) :: nil).
Proof. exact (Translation_rev_H q). Qed.
Print Assumptions C05_Translation_rev_H.

Theorem C05_C05_hyps_satisfiable : cos (PI/3) <> 0 /\ (1/2)*(1/2) + (1/2)*(1/2) + (1/2)*(1/2) + (1/2)*(1/2) <> 0 /\ is_rot (RotZ ROps (PI/3)).
Proof. exact (@C05_hyps_satisfiable). Qed.
Print Assumptions C05_C05_hyps_satisfiable.



Theorem C05_Line_speeds_meaning R u0 u1 : is_rot R ->
  m33_Tmulv ROps R (fst (Hu ROps (Line_H ROps R) (u0 :: u1 :: nil))) = (u0, u1, 0).
Proof. exact (Line_speeds_meaning R u0 u1). Qed.
Print Assumptions C05_Line_speeds_meaning.

Theorem C05_Line_jet_e q0 q1 q2 u0 u1 : cos q1 <> 0 ->
  let qd := Line_Ne ROps (q0,q1,q2) (u0,u1) in
  moves_with (fun t => Ball_Xe ROps (q0 + t*v3_0 qd, q1 + t*v3_1 qd, q2 + t*v3_2 qd))
             (Hu ROps (Line_H ROps (Rxyz ROps (q0,q1,q2))) (u0 :: u1 :: nil)).
Proof. exact (Line_jet_e q0 q1 q2 u0 u1). Qed.
Print Assumptions C05_Line_jet_e.

Theorem C05_Line_jet_q e0 e1 e2 e3' u0 u1 : e0*e0+e1*e1+e2*e2+e3'*e3' <> 0 ->
  let qd := Line_Nq ROps (e0,e1,e2,e3') (u0,u1) in
  moves_with (fun t => Ball_Xq ROps (e0 + t*v4_0 qd, e1 + t*v4_1 qd, e2 + t*v4_2 qd, e3' + t*v4_3 qd))
             (Hu ROps (Line_H ROps (quatR ROps (e0,e1,e2,e3'))) (u0 :: u1 :: nil)).
Proof. exact (Line_jet_q e0 e1 e2 e3' u0 u1). Qed.
Print Assumptions C05_Line_jet_q.

Theorem C05_FreeLine_jet_e q0 q1 q2 p0 p1 p2 u0 u1 v0 v1 v2 : cos q1 <> 0 ->
  let qd := Line_Ne ROps (q0,q1,q2) (u0,u1) in
  moves_with (fun t => Free_Xe ROps (q0 + t*v3_0 qd, q1 + t*v3_1 qd, q2 + t*v3_2 qd) (p0 + t*v0, p1 + t*v1, p2 + t*v2))
             (Hu ROps (Line_H ROps (Rxyz ROps (q0,q1,q2)) ++ Translation_H ROps) (u0 :: u1 :: v0 :: v1 :: v2 :: nil)).
Proof. exact (FreeLine_jet_e q0 q1 q2 p0 p1 p2 u0 u1 v0 v1 v2). Qed.
Print Assumptions C05_FreeLine_jet_e.

Theorem C05_FreeLine_jet_q e0 e1 e2 e3' p0 p1 p2 u0 u1 v0 v1 v2 : e0*e0+e1*e1+e2*e2+e3'*e3' <> 0 ->
  let qd := Line_Nq ROps (e0,e1,e2,e3') (u0,u1) in
  moves_with (fun t => Free_Xq ROps (e0 + t*v4_0 qd, e1 + t*v4_1 qd, e2 + t*v4_2 qd, e3' + t*v4_3 qd) (p0 + t*v0, p1 + t*v1, p2 + t*v2))
             (Hu ROps (Line_H ROps (quatR ROps (e0,e1,e2,e3')) ++ Translation_H ROps) (u0 :: u1 :: v0 :: v1 :: v2 :: nil)).
Proof. exact (FreeLine_jet_q e0 e1 e2 e3' p0 p1 p2 u0 u1 v0 v1 v2). Qed.
Print Assumptions C05_FreeLine_jet_q.

Theorem C05_Sph_doc az0 s0 ze0 s1 ax s2 q0 q1 q2 :
  let o := mkSc az0 s0 ze0 s1 ax s2 in
  Sph_X ROps o (q0,q1,q2) =
  xf_compose ROps (m33_mul ROps (RotZ ROps (s0*q0+az0)) (RotY ROps (s1*q1+ze0)), (0,0,0))
                  (I33, v3_scale ROps (s2*q2) (if ax then ex ROps else ez ROps)).
Proof. exact (Sph_doc az0 s0 ze0 s1 ax s2 q0 q1 q2). Qed.
Print Assumptions C05_Sph_doc.

Theorem C05_Sph_jet az0 s0 ze0 s1 ax s2 q0 q1 q2 u0 u1 u2 :
  let o := mkSc az0 s0 ze0 s1 ax s2 in
  moves_with (fun t => Sph_X ROps o (q0 + t*u0, q1 + t*u1, q2 + t*u2)) (Hu ROps (Sph_H ROps o (q0,q1,q2)) (u0 :: u1 :: u2 :: nil)).
Proof. exact (Sph_jet az0 s0 ze0 s1 ax s2 q0 q1 q2 u0 u1 u2). Qed.
Print Assumptions C05_Sph_jet.

Theorem C05_Ell_on_surface a b c R : a <> 0 -> b <> 0 -> c <> 0 -> is_rot R ->
  let p := Ell_p ROps (a,b,c) R in (v3_0 p / a)*(v3_0 p / a) + (v3_1 p / b)*(v3_1 p / b) + (v3_2 p / c)*(v3_2 p / c) = 1.
Proof. exact (Ell_on_surface a b c R). Qed.
Print Assumptions C05_Ell_on_surface.

Theorem C05_Ell_jet_e a b c q0 q1 q2 w0 w1 w2 : cos q1 <> 0 ->
  let qd := Ball_Ne ROps (q0,q1,q2) (w0,w1,w2) in
  moves_with (fun t => Ell_Xe ROps (a,b,c) (q0 + t*v3_0 qd, q1 + t*v3_1 qd, q2 + t*v3_2 qd))
             (Hu ROps (Ell_H ROps (a,b,c) (Rxyz ROps (q0,q1,q2))) (w0 :: w1 :: w2 :: nil)).
Proof. exact (Ell_jet_e a b c q0 q1 q2 w0 w1 w2). Qed.
Print Assumptions C05_Ell_jet_e.

Theorem C05_Ell_jet_q a b c e0 e1 e2 e3' w0 w1 w2 : e0*e0+e1*e1+e2*e2+e3'*e3' <> 0 ->
  let qd := Ball_Nq ROps (e0,e1,e2,e3') (w0,w1,w2) in
  moves_with (fun t => Ell_Xq ROps (a,b,c) (e0 + t*v4_0 qd, e1 + t*v4_1 qd, e2 + t*v4_2 qd, e3' + t*v4_3 qd))
             (Hu ROps (Ell_H ROps (a,b,c) (quatR ROps (e0,e1,e2,e3'))) (w0 :: w1 :: w2 :: nil)).
Proof. exact (Ell_jet_q a b c e0 e1 e2 e3' w0 w1 w2). Qed.
Print Assumptions C05_Ell_jet_q.

Theorem C05_Ell_normal_aligned_refuted : exists a b c n0 n1 n2, n0*n0+n1*n1+n2*n2 = 1 /\
  v3_cross ROps (n0/a, n1/b, n2/c) (n0,n1,n2) <> (0,0,0).
Proof. exact (@Ell_normal_aligned_refuted). Qed.
Print Assumptions C05_Ell_normal_aligned_refuted.



Theorem C05_Ratan2_cos_sin c s : c*c + s*s = 1 -> cos (Ratan2 s c) = c /\ sin (Ratan2 s c) = s.
Proof. exact (Ratan2_cos_sin c s). Qed.
Print Assumptions C05_Ratan2_cos_sin.

Theorem C05_Slider_fit_roundtrip q : Slider_fitT (snd (Slider_X ROps q)) = q.
Proof. exact (Slider_fit_roundtrip q). Qed.
Print Assumptions C05_Slider_fit_roundtrip.

Theorem C05_Slider_fitV_roundtrip u : Slider_fitV (Hu ROps (Slider_H ROps) (u :: nil)) = u.
Proof. exact (Slider_fitV_roundtrip u). Qed.
Print Assumptions C05_Slider_fitV_roundtrip.

Theorem C05_Translation_fit_roundtrip q : Translation_fitT (snd (Translation_X ROps q)) = q.
Proof. exact (Translation_fit_roundtrip q). Qed.
Print Assumptions C05_Translation_fit_roundtrip.

Theorem C05_Translation_fitV_roundtrip u0 u1 u2 : Translation_fitV (Hu ROps (Translation_H ROps) (u0 :: u1 :: u2 :: nil)) = (u0,u1,u2).
Proof. exact (Translation_fitV_roundtrip u0 u1 u2). Qed.
Print Assumptions C05_Translation_fitV_roundtrip.

Theorem C05_Screw_fit_roundtrip pitch q : pitch <> 0 -> Screw_fitT ROps pitch (snd (Screw_X ROps pitch q)) = q.
Proof. exact (Screw_fit_roundtrip pitch q). Qed.
Print Assumptions C05_Screw_fit_roundtrip.

Theorem C05_Screw_fitV_roundtrip pitch u : pitch <> 0 -> Screw_fitV ROps pitch (Hu ROps (Screw_H ROps pitch) (u :: nil)) = u.
Proof. exact (Screw_fitV_roundtrip pitch u). Qed.
Print Assumptions C05_Screw_fitV_roundtrip.

Theorem C05_Pin_fit_roundtrip_cs c s : c*c + s*s = 1 -> Pin_X ROps (Pin_fitR ROps (Rz ROps c s)) = (Rz ROps c s, (0,0,0)).
Proof. exact (Pin_fit_roundtrip_cs c s). Qed.
Print Assumptions C05_Pin_fit_roundtrip_cs.

Theorem C05_Pin_fit_roundtrip q : Pin_X ROps (Pin_fitR ROps (fst (Pin_X ROps q))) = Pin_X ROps q.
Proof. exact (Pin_fit_roundtrip q). Qed.
Print Assumptions C05_Pin_fit_roundtrip.

Theorem C05_Pin_fitW_roundtrip u : Pin_fitW (Hu ROps (Pin_H ROps) (u :: nil)) = u.
Proof. exact (Pin_fitW_roundtrip u). Qed.
Print Assumptions C05_Pin_fitW_roundtrip.

Theorem C05_Planar_fit_roundtrip q0 q1 q2 : Planar_X ROps (Planar_fitX ROps (Planar_X ROps (q0,q1,q2))) = Planar_X ROps (q0,q1,q2).
Proof. exact (Planar_fit_roundtrip q0 q1 q2). Qed.
Print Assumptions C05_Planar_fit_roundtrip.

Theorem C05_Planar_fitV_roundtrip u0 u1 u2 : Planar_fitV (Hu ROps (Planar_H ROps) (u0 :: u1 :: u2 :: nil)) = (u0,u1,u2).
Proof. exact (Planar_fitV_roundtrip u0 u1 u2). Qed.
Print Assumptions C05_Planar_fitV_roundtrip.

Theorem C05_Cylinder_fit_roundtrip q0 q1 : Cylinder_X ROps (Cylinder_fitX ROps (Cylinder_X ROps (q0,q1))) = Cylinder_X ROps (q0,q1).
Proof. exact (Cylinder_fit_roundtrip q0 q1). Qed.
Print Assumptions C05_Cylinder_fit_roundtrip.

Theorem C05_Cylinder_fitV_roundtrip u0 u1 : Cylinder_fitV (Hu ROps (Cylinder_H ROps) (u0 :: u1 :: nil)) = (u0,u1).
Proof. exact (Cylinder_fitV_roundtrip u0 u1). Qed.
Print Assumptions C05_Cylinder_fitV_roundtrip.

Theorem C05_xyz_angles_Rxyz_partial q0 q1 q2 : 0 < cos q1 ->
  let a := xyz_angles ROps (Rxyz ROps (q0,q1,q2)) in
  (cos (v3_0 a) = cos q0 /\ sin (v3_0 a) = sin q0) /\ (cos (v3_1 a) = cos q1 /\ sin (v3_1 a) = sin q1) /\ (cos (v3_2 a) = cos q2 /\ sin (v3_2 a) = sin q2).
Proof. exact (xyz_angles_Rxyz_partial q0 q1 q2). Qed.
Print Assumptions C05_xyz_angles_Rxyz_partial.

Theorem C05_Gimbal_fit_roundtrip_partial q0 q1 q2 : 0 < cos q1 ->
  Gimbal_X ROps (Gimbal_fitR ROps (fst (Gimbal_X ROps (q0,q1,q2)))) = Gimbal_X ROps (q0,q1,q2).
Proof. exact (Gimbal_fit_roundtrip_partial q0 q1 q2). Qed.
Print Assumptions C05_Gimbal_fit_roundtrip_partial.

Theorem C05_Gimbal_fitW_roundtrip q0 q1 q2 u0 u1 u2 : cos q1 <> 0 ->
  Gimbal_fitW ROps (q0,q1,q2) (Hu ROps (Gimbal_H ROps (q0,q1,q2)) (u0 :: u1 :: u2 :: nil)) = (u0,u1,u2).
Proof. exact (Gimbal_fitW_roundtrip q0 q1 q2 u0 u1 u2). Qed.
Print Assumptions C05_Gimbal_fitW_roundtrip.

Theorem C05_Universal_fitW_roundtrip q0 q1 u0 u1 :
  Universal_fitW ROps (q0,q1) (Hu ROps (Universal_H ROps (q0,q1)) (u0 :: u1 :: nil)) = (u0,u1).
Proof. exact (Universal_fitW_roundtrip q0 q1 u0 u1). Qed.
Print Assumptions C05_Universal_fitW_roundtrip.

Theorem C05_BendStretch_fitV_roundtrip q0 q1 u0 u1 : q1 <> 0 ->
  BendStretch_fitV ROps (q0,q1) (Hu ROps (BendStretch_H ROps (q0,q1)) (u0 :: u1 :: nil)) = (u0,u1).
Proof. exact (BendStretch_fitV_roundtrip q0 q1 u0 u1). Qed.
Print Assumptions C05_BendStretch_fitV_roundtrip.

Theorem C05_Ball_fitW_roundtrip u0 u1 u2 : Ball_fitW (Hu ROps (Ball_H ROps) (u0 :: u1 :: u2 :: nil)) = (u0,u1,u2).
Proof. exact (Ball_fitW_roundtrip u0 u1 u2). Qed.
Print Assumptions C05_Ball_fitW_roundtrip.

Theorem C05_Free_fitV_roundtrip u0 u1 u2 u3 u4 u5 : Free_fitV (Hu ROps (Free_H ROps) (u0::u1::u2::u3::u4::u5::nil)) = ((u0,u1,u2),(u3,u4,u5)).
Proof. exact (Free_fitV_roundtrip u0 u1 u2 u3 u4 u5). Qed.
Print Assumptions C05_Free_fitV_roundtrip.

Theorem C05_Line_fitW_roundtrip R u0 u1 : is_rot R -> Line_fitW ROps R (Hu ROps (Line_H ROps R) (u0 :: u1 :: nil)) = (u0,u1).
Proof. exact (Line_fitW_roundtrip R u0 u1). Qed.
Print Assumptions C05_Line_fitW_roundtrip.

Theorem C05_Sph_fitV_roundtrip az0 s0 ze0 s1 ax s2 q0 q1 q2 u0 u1 u2 : s0*s0 = 1 -> s1*s1 = 1 -> s2*s2 = 1 ->
  let o := mkSc az0 s0 ze0 s1 ax s2 in
  Sph_fitV ROps o (q0,q1,q2) (Hu ROps (Sph_H ROps o (q0,q1,q2)) (u0 :: u1 :: u2 :: nil)) = (u0,u1,u2).
Proof. exact (Sph_fitV_roundtrip az0 s0 ze0 s1 ax s2 q0 q1 q2 u0 u1 u2). Qed.
Print Assumptions C05_Sph_fitV_roundtrip.

Theorem C05_Sph_fitT_roundtrip az0 s0 ze0 s1 ax s2 q0 q1 q2 : s2*s2 = 1 ->
  let o := mkSc az0 s0 ze0 s1 ax s2 in Sph_fitT ROps o (q0,q1,q2) (snd (Sph_X ROps o (q0,q1,q2))) = q2.
Proof. exact (Sph_fitT_roundtrip az0 s0 ze0 s1 ax s2 q0 q1 q2). Qed.
Print Assumptions C05_Sph_fitT_roundtrip.

Theorem C05_quat_branch_Rquat (k : nat) e0 e1 e2 e3' : e0*e0+e1*e1+e2*e2+e3'*e3' = 1 ->
  quat_branch ROps k (Rquat ROps (e0,e1,e2,e3')) =
  v4_scale ROps (4 * match k with O => e0 | S O => e1 | S (S O) => e2 | _ => e3' end) (e0,e1,e2,e3').
Proof. exact (quat_branch_Rquat k e0 e1 e2 e3'). Qed.
Print Assumptions C05_quat_branch_Rquat.

Theorem C05_quat_pick_nonzero e0 e1 e2 e3' : e0*e0+e1*e1+e2*e2+e3'*e3' = 1 ->
  match quat_pick ROps (Rquat ROps (e0,e1,e2,e3')) with O => e0 | S O => e1 | S (S O) => e2 | _ => e3' end <> 0.
Proof. exact (quat_pick_nonzero e0 e1 e2 e3'). Qed.
Print Assumptions C05_quat_pick_nonzero.

Theorem C05_quat_normalise_same_rotation q : v4_normSqr ROps q <> 0 -> quatR ROps (quat_normalise ROps q) = quatR ROps q.
Proof. exact (quat_normalise_same_rotation q). Qed.
Print Assumptions C05_quat_normalise_same_rotation.

Theorem C05_Ball_fit_roundtrip_q e0 e1 e2 e3' : e0*e0+e1*e1+e2*e2+e3'*e3' = 1 ->
  quatR ROps (Ball_fitRq ROps (Rquat ROps (e0,e1,e2,e3'))) = Rquat ROps (e0,e1,e2,e3').
Proof. exact (Ball_fit_roundtrip_q e0 e1 e2 e3'). Qed.
Print Assumptions C05_Ball_fit_roundtrip_q.

Theorem C05_Free_fit_roundtrip_q e0 e1 e2 e3' p : e0*e0+e1*e1+e2*e2+e3'*e3' = 1 ->
  let X := Free_Xq ROps (e0,e1,e2,e3') p in
  Free_Xq ROps (Ball_fitRq ROps (Rquat ROps (e0,e1,e2,e3'))) (snd X) = X.
Proof. exact (Free_fit_roundtrip_q e0 e1 e2 e3' p). Qed.
Print Assumptions C05_Free_fit_roundtrip_q.

Theorem C05_BendStretch_fit_negative_stretch_refuted :
  exists q0 q1, BendStretch_X ROps (BendStretch_fitT ROps (snd (BendStretch_X ROps (q0,q1)))) <> BendStretch_X ROps (q0,q1).
Proof. exact (@BendStretch_fit_negative_stretch_refuted). Qed.
Print Assumptions C05_BendStretch_fit_negative_stretch_refuted.

Theorem C05_Ell_fitV_refuted : exists r R u0 u1 u2, is_rot R /\
  Ell_fitV ROps r R (Hu ROps (Ell_H ROps r R) (u0 :: u1 :: u2 :: nil)) <> (u0,u1,u2).
Proof. exact (@Ell_fitV_refuted). Qed.
Print Assumptions C05_Ell_fitV_refuted.

Theorem C05_Ell_fitV_sphere_roundtrip a R u0 u1 u2 : a <> 0 -> is_rot R ->
  Ell_fitV ROps (a,a,a) R (Hu ROps (Ell_H ROps (a,a,a) R) (u0 :: u1 :: u2 :: nil)) = (u0,u1,u2).
Proof. exact (Ell_fitV_sphere_roundtrip a R u0 u1 u2). Qed.
Print Assumptions C05_Ell_fitV_sphere_roundtrip.

