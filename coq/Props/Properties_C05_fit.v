(** C05 property theorems (part fit): statements only, each closed by [exact]; proofs are in C05/C05_Proofs.v, C05/C05_Wave2.v,
    C05/C05_Fit.v, C05/C05_Partial.v (shared lemmas in C05/C05_Rot.v, C05/C05_Jet.v); the catalogue is C05/C05_Model.v, written from the public
    headers MobilizedBody_*.h; the Euler / quaternion N blocks come from Gen/rot_gen.v (regenerated from Rotation.h). *)
From Coq Require Import ZArith Reals List.
From Coquelicot Require Import Coquelicot.
Require Import Num Vec rot_gen C28_Defs C28_Proofs C05_Model C05_Rot C05_Jet C05_Proofs C05_Wave2 C05_Fit C05_Partial.
Local Open Scope R_scope.

Theorem C05_Ratan2_cos_sin c s : c*c + s*s = 1 -> cos (Ratan2 s c) = c /\ sin (Ratan2 s c) = s.
Proof. exact (Ratan2_cos_sin c s). Qed.
Print Assumptions C05_Ratan2_cos_sin.

Theorem C05_Slider_fit_roundtrip q : Slider_fitT (snd (Slider_X ROps q)) = q.
Proof. exact (Slider_fit_roundtrip q). Qed.
Print Assumptions C05_Slider_fit_roundtrip.

Theorem C05_Slider_fitV_roundtrip u : Slider_fitV (Hu ROps (Slider_H ROps) (u :: nil)) = u.
Proof. exact (Slider_fitV_roundtrip u). Qed.
Print Assumptions C05_Slider_fitV_roundtrip.

Theorem C05_Translation_fit_roundtrip q : Translation_fitT (snd (Translation_X ROps q)) = q.
Proof. exact (Translation_fit_roundtrip q). Qed.
Print Assumptions C05_Translation_fit_roundtrip.

Theorem C05_Translation_fitV_roundtrip u0 u1 u2 : Translation_fitV (Hu ROps (Translation_H ROps) (u0 :: u1 :: u2 :: nil)) = (u0,u1,u2).
Proof. exact (Translation_fitV_roundtrip u0 u1 u2). Qed.
Print Assumptions C05_Translation_fitV_roundtrip.

Theorem C05_Screw_fit_roundtrip pitch q : pitch <> 0 -> Screw_fitT ROps pitch (snd (Screw_X ROps pitch q)) = q.
Proof. exact (Screw_fit_roundtrip pitch q). Qed.
Print Assumptions C05_Screw_fit_roundtrip.

Theorem C05_Screw_fitV_roundtrip pitch u : pitch <> 0 -> Screw_fitV ROps pitch (Hu ROps (Screw_H ROps pitch) (u :: nil)) = u.
Proof. exact (Screw_fitV_roundtrip pitch u). Qed.
Print Assumptions C05_Screw_fitV_roundtrip.

Theorem C05_Pin_fit_roundtrip_cs c s : c*c + s*s = 1 -> Pin_X ROps (Pin_fitR ROps (Rz ROps c s)) = (Rz ROps c s, (0,0,0)).
Proof. exact (Pin_fit_roundtrip_cs c s). Qed.
Print Assumptions C05_Pin_fit_roundtrip_cs.

Theorem C05_Pin_fit_roundtrip q : Pin_X ROps (Pin_fitR ROps (fst (Pin_X ROps q))) = Pin_X ROps q.
Proof. exact (Pin_fit_roundtrip q). Qed.
Print Assumptions C05_Pin_fit_roundtrip.

Theorem C05_Pin_fitW_roundtrip u : Pin_fitW (Hu ROps (Pin_H ROps) (u :: nil)) = u.
Proof. exact (Pin_fitW_roundtrip u). Qed.
Print Assumptions C05_Pin_fitW_roundtrip.

Theorem C05_Planar_fit_roundtrip q0 q1 q2 : Planar_X ROps (Planar_fitX ROps (Planar_X ROps (q0,q1,q2))) = Planar_X ROps (q0,q1,q2).
Proof. exact (Planar_fit_roundtrip q0 q1 q2). Qed.
Print Assumptions C05_Planar_fit_roundtrip.

Theorem C05_Planar_fitV_roundtrip u0 u1 u2 : Planar_fitV (Hu ROps (Planar_H ROps) (u0 :: u1 :: u2 :: nil)) = (u0,u1,u2).
Proof. exact (Planar_fitV_roundtrip u0 u1 u2). Qed.
Print Assumptions C05_Planar_fitV_roundtrip.

Theorem C05_Cylinder_fit_roundtrip q0 q1 : Cylinder_X ROps (Cylinder_fitX ROps (Cylinder_X ROps (q0,q1))) = Cylinder_X ROps (q0,q1).
Proof. exact (Cylinder_fit_roundtrip q0 q1). Qed.
Print Assumptions C05_Cylinder_fit_roundtrip.

Theorem C05_Cylinder_fitV_roundtrip u0 u1 : Cylinder_fitV (Hu ROps (Cylinder_H ROps) (u0 :: u1 :: nil)) = (u0,u1).
Proof. exact (Cylinder_fitV_roundtrip u0 u1). Qed.
Print Assumptions C05_Cylinder_fitV_roundtrip.

Theorem C05_xyz_angles_Rxyz_partial q0 q1 q2 : 0 < cos q1 ->
  let a := xyz_angles ROps (Rxyz ROps (q0,q1,q2)) in
  (cos (v3_0 a) = cos q0 /\ sin (v3_0 a) = sin q0) /\ (cos (v3_1 a) = cos q1 /\ sin (v3_1 a) = sin q1) /\ (cos (v3_2 a) = cos q2 /\ sin (v3_2 a) = sin q2).
Proof. exact (xyz_angles_Rxyz_partial q0 q1 q2). Qed.
Print Assumptions C05_xyz_angles_Rxyz_partial.

Theorem C05_Gimbal_fit_roundtrip_partial q0 q1 q2 : 0 < cos q1 ->
  Gimbal_X ROps (Gimbal_fitR ROps (fst (Gimbal_X ROps (q0,q1,q2)))) = Gimbal_X ROps (q0,q1,q2).
Proof. exact (Gimbal_fit_roundtrip_partial q0 q1 q2). Qed.
Print Assumptions C05_Gimbal_fit_roundtrip_partial.

Theorem C05_Gimbal_fitW_roundtrip q0 q1 q2 u0 u1 u2 : cos q1 <> 0 ->
  Gimbal_fitW ROps (q0,q1,q2) (Hu ROps (Gimbal_H ROps (q0,q1,q2)) (u0 :: u1 :: u2 :: nil)) = (u0,u1,u2).
Proof. exact (Gimbal_fitW_roundtrip q0 q1 q2 u0 u1 u2). Qed.
Print Assumptions C05_Gimbal_fitW_roundtrip.

Theorem C05_Universal_fitW_roundtrip q0 q1 u0 u1 :
  Universal_fitW ROps (q0,q1) (Hu ROps (Universal_H ROps (q0,q1)) (u0 :: u1 :: nil)) = (u0,u1).
Proof. exact (Universal_fitW_roundtrip q0 q1 u0 u1). Qed.
Print Assumptions C05_Universal_fitW_roundtrip.

Theorem C05_BendStretch_fitV_roundtrip q0 q1 u0 u1 : q1 <> 0 ->
  BendStretch_fitV ROps (q0,q1) (Hu ROps (BendStretch_H ROps (q0,q1)) (u0 :: u1 :: nil)) = (u0,u1).
Proof. exact (BendStretch_fitV_roundtrip q0 q1 u0 u1). Qed.
Print Assumptions C05_BendStretch_fitV_roundtrip.

Theorem C05_Ball_fitW_roundtrip u0 u1 u2 : Ball_fitW (Hu ROps (Ball_H ROps) (u0 :: u1 :: u2 :: nil)) = (u0,u1,u2).
Proof. exact (Ball_fitW_roundtrip u0 u1 u2). Qed.
Print Assumptions C05_Ball_fitW_roundtrip.

Theorem C05_Free_fitV_roundtrip u0 u1 u2 u3 u4 u5 : Free_fitV (Hu ROps (Free_H ROps) (u0::u1::u2::u3::u4::u5::nil)) = ((u0,u1,u2),(u3,u4,u5)).
Proof. exact (Free_fitV_roundtrip u0 u1 u2 u3 u4 u5). Qed.
Print Assumptions C05_Free_fitV_roundtrip.

Theorem C05_Line_fitW_roundtrip R u0 u1 : is_rot R -> Line_fitW ROps R (Hu ROps (Line_H ROps R) (u0 :: u1 :: nil)) = (u0,u1).
Proof. exact (Line_fitW_roundtrip R u0 u1). Qed.
Print Assumptions C05_Line_fitW_roundtrip.

Theorem C05_Sph_fitV_roundtrip az0 s0 ze0 s1 ax s2 q0 q1 q2 u0 u1 u2 : s0*s0 = 1 -> s1*s1 = 1 -> s2*s2 = 1 ->
  let o := mkSc az0 s0 ze0 s1 ax s2 in
  Sph_fitV ROps o (q0,q1,q2) (Hu ROps (Sph_H ROps o (q0,q1,q2)) (u0 :: u1 :: u2 :: nil)) = (u0,u1,u2).
Proof. exact (Sph_fitV_roundtrip az0 s0 ze0 s1 ax s2 q0 q1 q2 u0 u1 u2). Qed.
Print Assumptions C05_Sph_fitV_roundtrip.

Theorem C05_Sph_fitT_roundtrip az0 s0 ze0 s1 ax s2 q0 q1 q2 : s2*s2 = 1 ->
  let o := mkSc az0 s0 ze0 s1 ax s2 in Sph_fitT ROps o (q0,q1,q2) (snd (Sph_X ROps o (q0,q1,q2))) = q2.
Proof. exact (Sph_fitT_roundtrip az0 s0 ze0 s1 ax s2 q0 q1 q2). Qed.
Print Assumptions C05_Sph_fitT_roundtrip.

Theorem C05_quat_branch_Rquat (k : nat) e0 e1 e2 e3' : e0*e0+e1*e1+e2*e2+e3'*e3' = 1 ->
  quat_branch ROps k (Rquat ROps (e0,e1,e2,e3')) =
  v4_scale ROps (4 * match k with O => e0 | S O => e1 | S (S O) => e2 | _ => e3' end) (e0,e1,e2,e3').
Proof. exact (quat_branch_Rquat k e0 e1 e2 e3'). Qed.
Print Assumptions C05_quat_branch_Rquat.

Theorem C05_quat_pick_nonzero e0 e1 e2 e3' : e0*e0+e1*e1+e2*e2+e3'*e3' = 1 ->
  match quat_pick ROps (Rquat ROps (e0,e1,e2,e3')) with O => e0 | S O => e1 | S (S O) => e2 | _ => e3' end <> 0.
Proof. exact (quat_pick_nonzero e0 e1 e2 e3'). Qed.
Print Assumptions C05_quat_pick_nonzero.

Theorem C05_quat_normalise_same_rotation q : v4_normSqr ROps q <> 0 -> quatR ROps (quat_normalise ROps q) = quatR ROps q.
Proof. exact (quat_normalise_same_rotation q). Qed.
Print Assumptions C05_quat_normalise_same_rotation.

Theorem C05_Ball_fit_roundtrip_q e0 e1 e2 e3' : e0*e0+e1*e1+e2*e2+e3'*e3' = 1 ->
  quatR ROps (Ball_fitRq ROps (Rquat ROps (e0,e1,e2,e3'))) = Rquat ROps (e0,e1,e2,e3').
Proof. exact (Ball_fit_roundtrip_q e0 e1 e2 e3'). Qed.
Print Assumptions C05_Ball_fit_roundtrip_q.

Theorem C05_Free_fit_roundtrip_q e0 e1 e2 e3' p : e0*e0+e1*e1+e2*e2+e3'*e3' = 1 ->
  let X := Free_Xq ROps (e0,e1,e2,e3') p in
  Free_Xq ROps (Ball_fitRq ROps (Rquat ROps (e0,e1,e2,e3'))) (snd X) = X.
Proof. exact (Free_fit_roundtrip_q e0 e1 e2 e3' p). Qed.
Print Assumptions C05_Free_fit_roundtrip_q.

Theorem C05_Ell_fitU_roundtrip r R u0 u1 u2 : Ell_fitU (Hu ROps (Ell_H ROps r R) (u0 :: u1 :: u2 :: nil)) = (u0,u1,u2).
Proof. exact (Ell_fitU_roundtrip r R u0 u1 u2). Qed.
Print Assumptions C05_Ell_fitU_roundtrip.

Theorem C05_Ell_fit_roundtrip_q r e0 e1 e2 e3' : e0*e0+e1*e1+e2*e2+e3'*e3' = 1 ->
  Ell_Xq ROps r (Ball_fitRq ROps (fst (Ell_Xq ROps r (e0,e1,e2,e3')))) = Ell_Xq ROps r (e0,e1,e2,e3').
Proof. exact (Ell_fit_roundtrip_q r e0 e1 e2 e3'). Qed.
Print Assumptions C05_Ell_fit_roundtrip_q.

Theorem C05_Ell_fit_roundtrip_e_partial r q0 q1 q2 : 0 < cos q1 ->
  Ell_Xe ROps r (xyz_angles ROps (fst (Ell_Xe ROps r (q0,q1,q2)))) = Ell_Xe ROps r (q0,q1,q2).
Proof. exact (Ell_fit_roundtrip_e_partial r q0 q1 q2). Qed.
Print Assumptions C05_Ell_fit_roundtrip_e_partial.

Theorem C05_BendStretch_fit_roundtrip_partial q0 q1 : q1 <> 0 ->
  BendStretch_X ROps (BendStretch_fitX ROps (BendStretch_X ROps (q0,q1))) = BendStretch_X ROps (q0,q1).
Proof. exact (BendStretch_fit_roundtrip_partial q0 q1). Qed.
Print Assumptions C05_BendStretch_fit_roundtrip_partial.

Theorem C05_BendStretch_fit_prefix_negative_stretch_refuted :
  exists q0 q1, BendStretch_X ROps (BendStretch_fitT_prefix ROps (snd (BendStretch_X ROps (q0,q1)))) <> BendStretch_X ROps (q0,q1).
Proof. exact (@BendStretch_fit_prefix_negative_stretch_refuted). Qed.
Print Assumptions C05_BendStretch_fit_prefix_negative_stretch_refuted.

Theorem C05_Ell_fitV_prefix_refuted : exists r R u0 u1 u2, is_rot R /\
  Ell_fitV_prefix ROps r R (Hu ROps (Ell_H ROps r R) (u0 :: u1 :: u2 :: nil)) <> (u0,u1,u2).
Proof. exact (@Ell_fitV_prefix_refuted). Qed.
Print Assumptions C05_Ell_fitV_prefix_refuted.

Theorem C05_Ell_fitV_prefix_sphere_roundtrip a R u0 u1 u2 : a <> 0 -> is_rot R ->
  Ell_fitV_prefix ROps (a,a,a) R (Hu ROps (Ell_H ROps (a,a,a) R) (u0 :: u1 :: u2 :: nil)) = (u0,u1,u2).
Proof. exact (Ell_fitV_prefix_sphere_roundtrip a R u0 u1 u2). Qed.
Print Assumptions C05_Ell_fitV_prefix_sphere_roundtrip.

