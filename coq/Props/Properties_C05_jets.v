(** C05 property theorems (part jets): statements only, each closed by [exact]; proofs are in C05/C05_Proofs.v, C05/C05_Wave2.v,
    C05/C05_Fit.v, C05/C05_Partial.v (shared lemmas in C05/C05_Rot.v, C05/C05_Jet.v); the catalogue is C05/C05_Model.v, written from the public
    headers MobilizedBody_*.h; the Euler / quaternion N blocks come from Gen/rot_gen.v (regenerated from Rotation.h). *)
From Coq Require Import ZArith Reals List.
From Coquelicot Require Import Coquelicot.
Require Import Num Vec rot_gen C28_Defs C28_Proofs C05_Model C05_Rot C05_Jet C05_Proofs C05_Wave2 C05_Fit C05_Partial.
Local Open Scope R_scope.

Theorem C05_Weld_jet : moves_with (fun _ => Weld_X ROps) (Hu ROps Weld_H nil).
Proof. exact (@Weld_jet). Qed.
Print Assumptions C05_Weld_jet.

Theorem C05_Pin_jet q u : moves_with (fun t => Pin_X ROps (q + t*u)) (Hu ROps (Pin_H ROps) (u :: nil)).
Proof. exact (Pin_jet q u). Qed.
Print Assumptions C05_Pin_jet.

Theorem C05_Slider_jet q u : moves_with (fun t => Slider_X ROps (q + t*u)) (Hu ROps (Slider_H ROps) (u :: nil)).
Proof. exact (Slider_jet q u). Qed.
Print Assumptions C05_Slider_jet.

Theorem C05_Screw_jet pitch q u : moves_with (fun t => Screw_X ROps pitch (q + t*u)) (Hu ROps (Screw_H ROps pitch) (u :: nil)).
Proof. exact (Screw_jet pitch q u). Qed.
Print Assumptions C05_Screw_jet.

Theorem C05_Universal_jet q0 q1 u0 u1 :
  moves_with (fun t => Universal_X ROps (q0 + t*u0, q1 + t*u1)) (Hu ROps (Universal_H ROps (q0,q1)) (u0 :: u1 :: nil)).
Proof. exact (Universal_jet q0 q1 u0 u1). Qed.
Print Assumptions C05_Universal_jet.

Theorem C05_Cylinder_jet q0 q1 u0 u1 :
  moves_with (fun t => Cylinder_X ROps (q0 + t*u0, q1 + t*u1)) (Hu ROps (Cylinder_H ROps) (u0 :: u1 :: nil)).
Proof. exact (Cylinder_jet q0 q1 u0 u1). Qed.
Print Assumptions C05_Cylinder_jet.

Theorem C05_BendStretch_jet q0 q1 u0 u1 :
  moves_with (fun t => BendStretch_X ROps (q0 + t*u0, q1 + t*u1)) (Hu ROps (BendStretch_H ROps (q0,q1)) (u0 :: u1 :: nil)).
Proof. exact (BendStretch_jet q0 q1 u0 u1). Qed.
Print Assumptions C05_BendStretch_jet.

Theorem C05_Planar_jet q0 q1 q2 u0 u1 u2 :
  moves_with (fun t => Planar_X ROps (q0 + t*u0, q1 + t*u1, q2 + t*u2)) (Hu ROps (Planar_H ROps) (u0 :: u1 :: u2 :: nil)).
Proof. exact (Planar_jet q0 q1 q2 u0 u1 u2). Qed.
Print Assumptions C05_Planar_jet.

Theorem C05_Translation_jet q0 q1 q2 u0 u1 u2 :
  moves_with (fun t => Translation_X ROps (q0 + t*u0, q1 + t*u1, q2 + t*u2)) (Hu ROps (Translation_H ROps) (u0 :: u1 :: u2 :: nil)).
Proof. exact (Translation_jet q0 q1 q2 u0 u1 u2). Qed.
Print Assumptions C05_Translation_jet.

Theorem C05_Gimbal_jet q0 q1 q2 u0 u1 u2 :
  moves_with (fun t => Gimbal_X ROps (q0 + t*u0, q1 + t*u1, q2 + t*u2)) (Hu ROps (Gimbal_H ROps (q0,q1,q2)) (u0 :: u1 :: u2 :: nil)).
Proof. exact (Gimbal_jet q0 q1 q2 u0 u1 u2). Qed.
Print Assumptions C05_Gimbal_jet.

Theorem C05_Bushing_jet q0 q1 q2 p0 p1 p2 u0 u1 u2 u3 u4 u5 :
  moves_with (fun t => Bushing_X ROps (q0 + t*u0, q1 + t*u1, q2 + t*u2) (p0 + t*u3, p1 + t*u4, p2 + t*u5))
             (Hu ROps (Bushing_H ROps (q0,q1,q2)) (u0::u1::u2::u3::u4::u5::nil)).
Proof. exact (Bushing_jet q0 q1 q2 p0 p1 p2 u0 u1 u2 u3 u4 u5). Qed.
Print Assumptions C05_Bushing_jet.

Theorem C05_Ball_jet_e q0 q1 q2 w0 w1 w2 : cos q1 <> 0 ->
  let qd := Ball_Ne ROps (q0,q1,q2) (w0,w1,w2) in
  moves_with (fun t => Ball_Xe ROps (q0 + t*v3_0 qd, q1 + t*v3_1 qd, q2 + t*v3_2 qd)) (Hu ROps (Ball_H ROps) (w0 :: w1 :: w2 :: nil)).
Proof. exact (Ball_jet_e q0 q1 q2 w0 w1 w2). Qed.
Print Assumptions C05_Ball_jet_e.

Theorem C05_Ball_jet_q e0 e1 e2 e3' w0 w1 w2 : e0*e0+e1*e1+e2*e2+e3'*e3' <> 0 ->
  let qd := Ball_Nq ROps (e0,e1,e2,e3') (w0,w1,w2) in
  moves_with (fun t => Ball_Xq ROps (e0 + t*v4_0 qd, e1 + t*v4_1 qd, e2 + t*v4_2 qd, e3' + t*v4_3 qd)) (Hu ROps (Ball_H ROps) (w0 :: w1 :: w2 :: nil)).
Proof. exact (Ball_jet_q e0 e1 e2 e3' w0 w1 w2). Qed.
Print Assumptions C05_Ball_jet_q.

Theorem C05_Free_jet_e q0 q1 q2 p0 p1 p2 w0 w1 w2 v0 v1 v2 : cos q1 <> 0 ->
  let qd := Ball_Ne ROps (q0,q1,q2) (w0,w1,w2) in
  moves_with (fun t => Free_Xe ROps (q0 + t*v3_0 qd, q1 + t*v3_1 qd, q2 + t*v3_2 qd) (p0 + t*v0, p1 + t*v1, p2 + t*v2))
             (Hu ROps (Free_H ROps) (w0::w1::w2::v0::v1::v2::nil)).
Proof. exact (Free_jet_e q0 q1 q2 p0 p1 p2 w0 w1 w2 v0 v1 v2). Qed.
Print Assumptions C05_Free_jet_e.

Theorem C05_Free_jet_q e0 e1 e2 e3' p0 p1 p2 w0 w1 w2 v0 v1 v2 : e0*e0+e1*e1+e2*e2+e3'*e3' <> 0 ->
  let qd := Ball_Nq ROps (e0,e1,e2,e3') (w0,w1,w2) in
  moves_with (fun t => Free_Xq ROps (e0 + t*v4_0 qd, e1 + t*v4_1 qd, e2 + t*v4_2 qd, e3' + t*v4_3 qd) (p0 + t*v0, p1 + t*v1, p2 + t*v2))
             (Hu ROps (Free_H ROps) (w0::w1::w2::v0::v1::v2::nil)).
Proof. exact (Free_jet_q e0 e1 e2 e3' p0 p1 p2 w0 w1 w2 v0 v1 v2). Qed.
Print Assumptions C05_Free_jet_q.

Theorem C05_reversed_is_inverse X : is_rot (fst X) ->
  xf_compose ROps (rev_X ROps X) X = (I33, (0,0,0)) /\ xf_compose ROps X (rev_X ROps X) = (I33, (0,0,0)).
Proof. exact (reversed_is_inverse X). Qed.
Print Assumptions C05_reversed_is_inverse.

Theorem C05_reversed_jet X V : is_rot (fst (X 0)) -> moves_with X V ->
  moves_with (fun t => rev_X ROps (X t)) (rev_col ROps (rev_X ROps (X 0)) V).
Proof. exact (reversed_jet X V). Qed.
Print Assumptions C05_reversed_jet.

Theorem C05_rev_col_linear Xr H u : rev_col ROps Xr (Hu ROps H u) = Hu ROps (map (rev_col ROps Xr) H) u.
Proof. exact (rev_col_linear Xr H u). Qed.
Print Assumptions C05_rev_col_linear.

Theorem C05_Pin_rev_H q : rev_H ROps (Pin_X ROps q) (Pin_H ROps) = (((0,0,-1),(0,0,0)) :: nil).
Proof. exact (Pin_rev_H q). Qed.
Print Assumptions C05_Pin_rev_H.

Theorem C05_Slider_rev_H q : rev_H ROps (Slider_X ROps q) (Slider_H ROps) = (((0,0,0),(-1,0,0)) :: nil).
Proof. exact (Slider_rev_H q). Qed.
Print Assumptions C05_Slider_rev_H.

Theorem C05_Cylinder_rev_H q0 q1 : rev_H ROps (Cylinder_X ROps (q0,q1)) (Cylinder_H ROps) = (((0,0,-1),(0,0,0)) :: ((0,0,0),(0,0,-1)) :: nil).
Proof. exact (Cylinder_rev_H q0 q1). Qed.
Print Assumptions C05_Cylinder_rev_H.

Theorem C05_Screw_rev_H pitch q : rev_H ROps (Screw_X ROps pitch q) (Screw_H ROps pitch) = (((0,0,-1),(0,0,-pitch)) :: nil).
Proof. exact (Screw_rev_H pitch q). Qed.
Print Assumptions C05_Screw_rev_H.

Theorem C05_Translation_rev_H q : rev_H ROps (Translation_X ROps q) (Translation_H ROps) = (((0,0,0),(-1,0,0)) :: ((0,0,0),(0,-1,0)) :: ((0,0,0),(0,0,-1)) :: nil).
Proof. exact (Translation_rev_H q). Qed.
Print Assumptions C05_Translation_rev_H.

Theorem C05_C05_hyps_satisfiable : cos (PI/3) <> 0 /\ (1/2)*(1/2) + (1/2)*(1/2) + (1/2)*(1/2) + (1/2)*(1/2) <> 0 /\ is_rot (RotZ ROps (PI/3)).
Proof. exact (@C05_hyps_satisfiable). Qed.
Print Assumptions C05_C05_hyps_satisfiable.

