(** C05 property theorems (part partial fits): statements only, each closed by [exact]; proofs are in C05/C05_Proofs.v, C05/C05_Wave2.v,
    C05/C05_Fit.v, C05/C05_Partial.v (shared lemmas in C05/C05_Rot.v, C05/C05_Jet.v); the catalogue is C05/C05_Model.v, written from the public
    headers MobilizedBody_*.h; the Euler / quaternion N blocks come from Gen/rot_gen.v (regenerated from Rotation.h). *)
From Coq Require Import ZArith Reals List.
From Coquelicot Require Import Coquelicot.
Require Import Num Vec rot_gen C28_Defs C28_Proofs C05_Model C05_Rot C05_Jet C05_Proofs C05_Wave2 C05_Fit C05_Partial.
Local Open Scope R_scope.

Theorem C05_rev_rotation_request X : m33_T (fst (rev_X ROps X)) = fst X.
Proof. exact (rev_rotation_request X). Qed.
Print Assumptions C05_rev_rotation_request.

Theorem C05_rev_translation_request X : is_rot (fst X) -> m33_mulv ROps (fst X) (v3_neg ROps (snd (rev_X ROps X))) = snd X.
Proof. exact (rev_translation_request X). Qed.
Print Assumptions C05_rev_translation_request.

Theorem C05_rev_angvel_request X V : is_rot (fst X) ->
  m33_mulv ROps (fst X) (v3_neg ROps (fst (rev_col ROps (rev_X ROps X) V))) = fst V.
Proof. exact (rev_angvel_request X V). Qed.
Print Assumptions C05_rev_angvel_request.

Theorem C05_rev_linvel_request_partial X v : is_rot (fst X) ->
  v3_neg ROps (m33_mulv ROps (fst X) (snd (rev_col ROps (rev_X ROps X) ((0,0,0), v)))) = v.
Proof. exact (rev_linvel_request_partial X v). Qed.
Print Assumptions C05_rev_linvel_request_partial.

Theorem C05_rev_linvel_request_refuted : exists X V, is_rot (fst X) /\
  v3_neg ROps (m33_mulv ROps (fst X) (snd (rev_col ROps (rev_X ROps X) V))) <> snd V.
Proof. exact (@rev_linvel_request_refuted). Qed.
Print Assumptions C05_rev_linvel_request_refuted.

Theorem C05_Cylinder_partial_fits (X : Transform R) (q : Vec2 R) : Cylinder_fitT (snd X) (Cylinder_fitR ROps (fst X) q) = Cylinder_fitX ROps X
  /\ Cylinder_fitR ROps (fst X) (Cylinder_fitT (snd X) q) = Cylinder_fitX ROps X.
Proof. exact (Cylinder_partial_fits X q). Qed.
Print Assumptions C05_Cylinder_partial_fits.

Theorem C05_Cylinder_partial_vel (V : SpatialVec R) (u : Vec2 R) : Cylinder_fitLV (snd V) (Cylinder_fitW (fst V) u) = Cylinder_fitV V
  /\ Cylinder_fitW (fst V) (Cylinder_fitLV (snd V) u) = Cylinder_fitV V.
Proof. exact (Cylinder_partial_vel V u). Qed.
Print Assumptions C05_Cylinder_partial_vel.

Theorem C05_Cylinder_fitR_keeps_translation (M : Mat33 R) (q : Vec2 R) : snd (Cylinder_X ROps (Cylinder_fitR ROps M q)) = snd (Cylinder_X ROps q).
Proof. exact (Cylinder_fitR_keeps_translation M q). Qed.
Print Assumptions C05_Cylinder_fitR_keeps_translation.

Theorem C05_Cylinder_fitT_keeps_rotation (p : Vec3 R) (q : Vec2 R) : fst (Cylinder_X ROps (Cylinder_fitT p q)) = fst (Cylinder_X ROps q).
Proof. exact (Cylinder_fitT_keeps_rotation p q). Qed.
Print Assumptions C05_Cylinder_fitT_keeps_rotation.

Theorem C05_Planar_partial_fits (X : Transform R) (q : Vec3 R) : Planar_fitT (snd X) (Planar_fitR ROps (fst X) q) = Planar_fitX ROps X
  /\ Planar_fitR ROps (fst X) (Planar_fitT (snd X) q) = Planar_fitX ROps X.
Proof. exact (Planar_partial_fits X q). Qed.
Print Assumptions C05_Planar_partial_fits.

Theorem C05_Planar_partial_vel (V : SpatialVec R) (u : Vec3 R) : Planar_fitLV (snd V) (Planar_fitW (fst V) u) = Planar_fitV V
  /\ Planar_fitW (fst V) (Planar_fitLV (snd V) u) = Planar_fitV V.
Proof. exact (Planar_partial_vel V u). Qed.
Print Assumptions C05_Planar_partial_vel.

Theorem C05_Planar_fitR_keeps_translation (M : Mat33 R) (q : Vec3 R) : snd (Planar_X ROps (Planar_fitR ROps M q)) = snd (Planar_X ROps q).
Proof. exact (Planar_fitR_keeps_translation M q). Qed.
Print Assumptions C05_Planar_fitR_keeps_translation.

Theorem C05_Planar_fitT_keeps_rotation (p : Vec3 R) (q : Vec3 R) : fst (Planar_X ROps (Planar_fitT p q)) = fst (Planar_X ROps q).
Proof. exact (Planar_fitT_keeps_rotation p q). Qed.
Print Assumptions C05_Planar_fitT_keeps_rotation.

Theorem C05_Screw_fitR_rotation pitch q : fst (Screw_X ROps pitch (Screw_fitR ROps (fst (Screw_X ROps pitch q)))) = fst (Screw_X ROps pitch q).
Proof. exact (Screw_fitR_rotation pitch q). Qed.
Print Assumptions C05_Screw_fitR_rotation.

Theorem C05_Screw_fitR_translation_refuted : exists pitch q,
  snd (Screw_X ROps pitch (Screw_fitR ROps (fst (Screw_X ROps pitch q)))) <> snd (Screw_X ROps pitch q).
Proof. exact (@Screw_fitR_translation_refuted). Qed.
Print Assumptions C05_Screw_fitR_translation_refuted.

Theorem C05_BendStretch_T_then_R_refuted : exists q0 q1 cur,
  let X := BendStretch_X ROps (q0,q1) in
  let qT := BendStretch_fitT ROps cur (snd X) in
  BendStretch_X ROps (zangle ROps (fst X), snd qT) <> X.
Proof. exact (@BendStretch_T_then_R_refuted). Qed.
Print Assumptions C05_BendStretch_T_then_R_refuted.

Theorem C05_BendStretch_partial_vel (q : Vec2 R) (V : SpatialVec R) :
  BendStretch_fitLV ROps q (snd V) = BendStretch_fitV ROps q V.
Proof. exact (BendStretch_partial_vel q V). Qed.
Print Assumptions C05_BendStretch_partial_vel.

Theorem C05_two_angles_spec i j k R s1 c1 s2 c2 :
  m33_e R k j = s1 -> m33_e R j j = c1 -> m33_e R i k = s2 -> m33_e R i i = c2 ->
  m33_e R j i * m33_e R j i + m33_e R j k * m33_e R j k = s1*s1 -> m33_e R k i * m33_e R k i + m33_e R k k * m33_e R k k = c1*c1 ->
  m33_e R j i * m33_e R j i + m33_e R k i * m33_e R k i = s2*s2 -> m33_e R j k * m33_e R j k + m33_e R k k * m33_e R k k = c2*c2 ->
  c1*c1 + s1*s1 = 1 -> c2*c2 + s2*s2 = 1 ->
  let a := two_angles ROps i j k false R in
  (cos (fst a) = c1 /\ sin (fst a) = s1) /\ (cos (snd a) = c2 /\ sin (snd a) = s2).
Proof. exact (two_angles_spec i j k R s1 c1 s2 c2). Qed.
Print Assumptions C05_two_angles_spec.

Theorem C05_Universal_fitR_roundtrip q0 q1 :
  Universal_X ROps (Universal_fitR ROps (fst (Universal_X ROps (q0,q1)))) = Universal_X ROps (q0,q1).
Proof. exact (Universal_fitR_roundtrip q0 q1). Qed.
Print Assumptions C05_Universal_fitR_roundtrip.

Theorem C05_Sph_fitR_roundtrip az0 s0 ze0 s1 ax s2 q0 q1 q2 q2' : s0*s0 = 1 -> s1*s1 = 1 ->
  let o := mkSc az0 s0 ze0 s1 ax s2 in
  let a := Sph_fitR ROps o (Sph_R ROps o (q0,q1,q2)) in
  Sph_R ROps o (fst a, snd a, q2') = Sph_R ROps o (q0,q1,q2).
Proof. exact (Sph_fitR_roundtrip az0 s0 ze0 s1 ax s2 q0 q1 q2 q2'). Qed.
Print Assumptions C05_Sph_fitR_roundtrip.

Theorem C05_Sph_R_then_T_roundtrip az0 s0 ze0 s1 ax s2 q0 q1 q2 q2' : s0*s0 = 1 -> s1*s1 = 1 -> s2*s2 = 1 ->
  let o := mkSc az0 s0 ze0 s1 ax s2 in let X := Sph_X ROps o (q0,q1,q2) in
  let a := Sph_fitR ROps o (fst X) in
  Sph_X ROps o (fst a, snd a, Sph_fitT ROps o (fst a, snd a, q2') (snd X)) = X.
Proof. exact (Sph_R_then_T_roundtrip az0 s0 ze0 s1 ax s2 q0 q1 q2 q2'). Qed.
Print Assumptions C05_Sph_R_then_T_roundtrip.

Theorem C05_Ell_fitT_R_is_dir spin p : Ell_fitT_R ROps spin p = Ell_fitT_Rdir spin (v3_scale ROps (1 / v3_norm ROps p) p).
Proof. exact (Ell_fitT_R_is_dir spin p). Qed.
Print Assumptions C05_Ell_fitT_R_is_dir.

Theorem C05_Ell_latlong_scale k e : 0 < k -> Ell_latlong ROps (v3_scale ROps k e) = Ell_latlong ROps e.
Proof. exact (Ell_latlong_scale k e). Qed.
Print Assumptions C05_Ell_latlong_scale.

Theorem C05_Ell_fitT_axis spin e : let ll := Ell_latlong ROps e in
  m33_c2 (Ell_fitT_Rdir spin e) = (sin (snd ll) * cos (fst ll), - sin (fst ll), cos (snd ll) * cos (fst ll)).
Proof. exact (Ell_fitT_axis spin e). Qed.
Print Assumptions C05_Ell_fitT_axis.

Theorem C05_Ell_fitT_direction_refuted : exists e spin, v3_cross ROps (m33_c2 (Ell_fitT_Rdir spin e)) e <> (0,0,0).
Proof. exact (@Ell_fitT_direction_refuted). Qed.
Print Assumptions C05_Ell_fitT_direction_refuted.

Theorem C05_Ell_fitLV_sphere_roundtrip a R u0 u1 u2 : a <> 0 -> is_rot R ->
  Ell_fitLV ROps (a,a,a) R (u0,u1,u2) (snd (Hu ROps (Ell_H ROps (a,a,a) R) (u0 :: u1 :: u2 :: nil))) = (u0,u1,u2).
Proof. exact (Ell_fitLV_sphere_roundtrip a R u0 u1 u2). Qed.
Print Assumptions C05_Ell_fitLV_sphere_roundtrip.

Theorem C05_Ell_fitLV_nonsphere_refuted : exists r R u, is_rot R /\
  let V := Hu ROps (Ell_H ROps r R) (v3_0 u :: v3_1 u :: v3_2 u :: nil) in
  snd (Hu ROps (Ell_H ROps r R) (let w := Ell_fitLV ROps r R u (snd V) in v3_0 w :: v3_1 w :: v3_2 w :: nil)) <> snd V.
Proof. exact (@Ell_fitLV_nonsphere_refuted). Qed.
Print Assumptions C05_Ell_fitLV_nonsphere_refuted.

