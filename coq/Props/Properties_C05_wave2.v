(** C05 property theorems (part wave2): statements only, each closed by [exact]; proofs are in C05/C05_Proofs.v, C05/C05_Wave2.v,
    C05/C05_Fit.v, C05/C05_Partial.v (shared lemmas in C05/C05_Rot.v, C05/C05_Jet.v); the catalogue is C05/C05_Model.v, written from the public
    headers MobilizedBody_*.h; the Euler / quaternion N blocks come from Gen/rot_gen.v (regenerated from Rotation.h). *)
From Coq Require Import ZArith Reals List.
From Coquelicot Require Import Coquelicot.
Require Import Num Vec rot_gen C28_Defs C28_Proofs C05_Model C05_Rot C05_Jet C05_Proofs C05_Wave2 C05_Fit C05_Partial.
Local Open Scope R_scope.

Theorem C05_Line_speeds_meaning R u0 u1 : is_rot R ->
  m33_Tmulv ROps R (fst (Hu ROps (Line_H ROps R) (u0 :: u1 :: nil))) = (u0, u1, 0).
Proof. exact (Line_speeds_meaning R u0 u1). Qed.
Print Assumptions C05_Line_speeds_meaning.

Theorem C05_Line_jet_e q0 q1 q2 u0 u1 : cos q1 <> 0 ->
  let qd := Line_Ne ROps (q0,q1,q2) (u0,u1) in
  moves_with (fun t => Ball_Xe ROps (q0 + t*v3_0 qd, q1 + t*v3_1 qd, q2 + t*v3_2 qd))
             (Hu ROps (Line_H ROps (Rxyz ROps (q0,q1,q2))) (u0 :: u1 :: nil)).
Proof. exact (Line_jet_e q0 q1 q2 u0 u1). Qed.
Print Assumptions C05_Line_jet_e.

Theorem C05_Line_jet_q e0 e1 e2 e3' u0 u1 : e0*e0+e1*e1+e2*e2+e3'*e3' <> 0 ->
  let qd := Line_Nq ROps (e0,e1,e2,e3') (u0,u1) in
  moves_with (fun t => Ball_Xq ROps (e0 + t*v4_0 qd, e1 + t*v4_1 qd, e2 + t*v4_2 qd, e3' + t*v4_3 qd))
             (Hu ROps (Line_H ROps (quatR ROps (e0,e1,e2,e3'))) (u0 :: u1 :: nil)).
Proof. exact (Line_jet_q e0 e1 e2 e3' u0 u1). Qed.
Print Assumptions C05_Line_jet_q.

Theorem C05_FreeLine_jet_e q0 q1 q2 p0 p1 p2 u0 u1 v0 v1 v2 : cos q1 <> 0 ->
  let qd := Line_Ne ROps (q0,q1,q2) (u0,u1) in
  moves_with (fun t => Free_Xe ROps (q0 + t*v3_0 qd, q1 + t*v3_1 qd, q2 + t*v3_2 qd) (p0 + t*v0, p1 + t*v1, p2 + t*v2))
             (Hu ROps (Line_H ROps (Rxyz ROps (q0,q1,q2)) ++ Translation_H ROps) (u0 :: u1 :: v0 :: v1 :: v2 :: nil)).
Proof. exact (FreeLine_jet_e q0 q1 q2 p0 p1 p2 u0 u1 v0 v1 v2). Qed.
Print Assumptions C05_FreeLine_jet_e.

Theorem C05_FreeLine_jet_q e0 e1 e2 e3' p0 p1 p2 u0 u1 v0 v1 v2 : e0*e0+e1*e1+e2*e2+e3'*e3' <> 0 ->
  let qd := Line_Nq ROps (e0,e1,e2,e3') (u0,u1) in
  moves_with (fun t => Free_Xq ROps (e0 + t*v4_0 qd, e1 + t*v4_1 qd, e2 + t*v4_2 qd, e3' + t*v4_3 qd) (p0 + t*v0, p1 + t*v1, p2 + t*v2))
             (Hu ROps (Line_H ROps (quatR ROps (e0,e1,e2,e3')) ++ Translation_H ROps) (u0 :: u1 :: v0 :: v1 :: v2 :: nil)).
Proof. exact (FreeLine_jet_q e0 e1 e2 e3' p0 p1 p2 u0 u1 v0 v1 v2). Qed.
Print Assumptions C05_FreeLine_jet_q.

Theorem C05_Sph_doc az0 s0 ze0 s1 ax s2 q0 q1 q2 :
  let o := mkSc az0 s0 ze0 s1 ax s2 in
  Sph_X ROps o (q0,q1,q2) =
  xf_compose ROps (m33_mul ROps (RotZ ROps (s0*q0+az0)) (RotY ROps (s1*q1+ze0)), (0,0,0))
                  (I33, v3_scale ROps (s2*q2) (if ax then ex ROps else ez ROps)).
Proof. exact (Sph_doc az0 s0 ze0 s1 ax s2 q0 q1 q2). Qed.
Print Assumptions C05_Sph_doc.

Theorem C05_Sph_jet az0 s0 ze0 s1 ax s2 q0 q1 q2 u0 u1 u2 :
  let o := mkSc az0 s0 ze0 s1 ax s2 in
  moves_with (fun t => Sph_X ROps o (q0 + t*u0, q1 + t*u1, q2 + t*u2)) (Hu ROps (Sph_H ROps o (q0,q1,q2)) (u0 :: u1 :: u2 :: nil)).
Proof. exact (Sph_jet az0 s0 ze0 s1 ax s2 q0 q1 q2 u0 u1 u2). Qed.
Print Assumptions C05_Sph_jet.

Theorem C05_Ell_on_surface a b c R : a <> 0 -> b <> 0 -> c <> 0 -> is_rot R ->
  let p := Ell_p ROps (a,b,c) R in (v3_0 p / a)*(v3_0 p / a) + (v3_1 p / b)*(v3_1 p / b) + (v3_2 p / c)*(v3_2 p / c) = 1.
Proof. exact (Ell_on_surface a b c R). Qed.
Print Assumptions C05_Ell_on_surface.

Theorem C05_Ell_jet_e a b c q0 q1 q2 w0 w1 w2 : cos q1 <> 0 ->
  let qd := Ball_Ne ROps (q0,q1,q2) (w0,w1,w2) in
  moves_with (fun t => Ell_Xe ROps (a,b,c) (q0 + t*v3_0 qd, q1 + t*v3_1 qd, q2 + t*v3_2 qd))
             (Hu ROps (Ell_H ROps (a,b,c) (Rxyz ROps (q0,q1,q2))) (w0 :: w1 :: w2 :: nil)).
Proof. exact (Ell_jet_e a b c q0 q1 q2 w0 w1 w2). Qed.
Print Assumptions C05_Ell_jet_e.

Theorem C05_Ell_jet_q a b c e0 e1 e2 e3' w0 w1 w2 : e0*e0+e1*e1+e2*e2+e3'*e3' <> 0 ->
  let qd := Ball_Nq ROps (e0,e1,e2,e3') (w0,w1,w2) in
  moves_with (fun t => Ell_Xq ROps (a,b,c) (e0 + t*v4_0 qd, e1 + t*v4_1 qd, e2 + t*v4_2 qd, e3' + t*v4_3 qd))
             (Hu ROps (Ell_H ROps (a,b,c) (quatR ROps (e0,e1,e2,e3'))) (w0 :: w1 :: w2 :: nil)).
Proof. exact (Ell_jet_q a b c e0 e1 e2 e3' w0 w1 w2). Qed.
Print Assumptions C05_Ell_jet_q.

Theorem C05_Ell_normal_aligned_refuted : exists a b c n0 n1 n2, n0*n0+n1*n1+n2*n2 = 1 /\
  v3_cross ROps (n0/a, n1/b, n2/c) (n0,n1,n2) <> (0,0,0).
Proof. exact (@Ell_normal_aligned_refuted). Qed.
Print Assumptions C05_Ell_normal_aligned_refuted.

