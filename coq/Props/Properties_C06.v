(** C06 property theorems (statements only; proofs in C06/C06_Iso.v and C06/C06_Rot.v).
    Relocation clause: every tree operator of Lib/MB.v is invariant (generalized quantities) or
    equivariant (spatial quantities) under an isomorphism of the spatial structure, and a proper
    rotation of all Ground-frame per-body data is such an isomorphism. *)
From Coq Require Import List Reals.
Require Import Num Vec Tree MB Spatial Spatial_Proofs C06_Iso C06_Rot.
Local Open Scope R_scope.

Section P.
Context {X : Type} (nd : X -> node (SpatialVec R) (Vec3 R) (SpInertia (T:=R))) (Q : Mat33 R) (HQ : proper Q).
Notation KR := (svK ROps).
Notation ndQ := (nd' (rotV Q) (rotL Q) (rotI Q) nd).

Theorem C06_velocities_rotate (u : X -> list R) (e : X -> SpatialVec R) (Vp : SpatialVec R) (t : tree X) :
  kin KR ndQ u (fun x => rotV Q (e x)) (rotV Q Vp) t = tmap (fun xv => (fst xv, rotV Q (snd xv))) (kin KR nd u e Vp t).
Proof. exact (kin_relocated KR (rotV Q) (rotL Q) (rotI Q) (rot_add Q) (rot_scale Q) (rot_zero Q) (fun l a => rot_phiT Q l a HQ) nd u e Vp t). Qed.

Theorem C06_generalized_forces_unchanged (F : X -> SpatialVec R) (t : tree X) :
  mulJt KR ndQ (fun x => rotV Q (F x)) t = mulJt KR nd F t.
Proof. exact (mulJt_relocated KR (rotV Q) (rotL Q) (rotI Q) (fun a b => rot_dot Q a b HQ) (rot_add Q) (rot_zero Q) (fun l f => rot_phi Q l f HQ) nd F t). Qed.

Theorem C06_mass_matrix_unchanged (u : X -> list R) (t : tree X) :
  tmap (fun xt => (fst (fst xt), snd xt)) (mulM KR ndQ u t) = tmap (fun xt => (fst (fst xt), snd xt)) (mulM KR nd u t).
Proof. exact (mulM_relocated KR (rotV Q) (rotL Q) (rotI Q) (fun a b => rot_dot Q a b HQ) (rot_add Q) (rot_scale Q) (rot_zero Q)
                (fun l a => rot_phiT Q l a HQ) (fun l f => rot_phi Q l f HQ) (fun i a => rot_M Q i a HQ) nd u t). Qed.
End P.

Theorem C06_quarter_turn_proper : proper ((0,-1,0),(1,0,0),(0,0,1)).
Proof. exact quarter_turn_proper. Qed.

Print Assumptions C06_velocities_rotate.
Print Assumptions C06_generalized_forces_unchanged.
Print Assumptions C06_mass_matrix_unchanged.
Print Assumptions C06_quarter_turn_proper.
