(** C06 property theorems, mirror and reversed clauses (statements only; proofs in C06/C06_mirror.v).
    Mirror clause: the tree operators of Lib/MB.v depend on a mobilizer only through its per-body data
    (shift vector, hinge columns, spatial inertia): two node-data assignments that agree at every node of a tree
    (e.g. the built-in model and its Custom / FunctionBased mirror) give the same velocities/accelerations,
    accumulated and generalized forces, mass-matrix operator and kinetic-energy terms -- for EVERY tree.
    Reversed clause (formulation of Simbody/tests/TestReverseMobilizers.cpp), on top of the C05 theorems
    reversed_is_inverse / reversed_jet / rev_col_linear: the model declared with the mobilizer reversed and the
    roles of its two frames swapped reproduces the pose of both bodies for every q, and with the same u the
    reversed hinge columns generate the motion of the inverse pose. *)
From Coq Require Import List Reals.
From Coquelicot Require Import Coquelicot.
Import ListNotations.
Require Import Num Vec Tree MB Spatial.
Require Import rot_gen C28_Defs C05_Model C05_Rot C05_Jet C05_Proofs C06_mirror.
Local Open Scope R_scope.

Section Generic.
Context {S V L I X : Type} (K : VSp S V L I) (nd nd' : X -> node V L I).

Theorem C06_mirror_same_node (a b : node V L I) : n_l a = n_l b /\ n_H a = n_H b /\ n_M a = n_M b -> a = b.
Proof. exact (same_data_eq a b). Qed.

Theorem C06_mirror_kin_ext (u : X -> list S) (e : X -> V) (Vp : V) (t : tree X) :
  (forall x, In x (flatten t) -> n_l (nd x) = n_l (nd' x) /\ n_H (nd x) = n_H (nd' x) /\ n_M (nd x) = n_M (nd' x)) ->
  kin K nd u e Vp t = kin K nd' u e Vp t.
Proof. exact (kin_ext K nd nd' u e Vp t). Qed.

Theorem C06_mirror_mulJ_ext (u : X -> list S) (t : tree X) :
  (forall x, In x (flatten t) -> n_l (nd x) = n_l (nd' x) /\ n_H (nd x) = n_H (nd' x) /\ n_M (nd x) = n_M (nd' x)) ->
  mulJ K nd u t = mulJ K nd' u t.
Proof. exact (mulJ_ext K nd nd' u t). Qed.

Theorem C06_mirror_accum_ext (F : X -> V) (t : tree X) :
  (forall x, In x (flatten t) -> n_l (nd x) = n_l (nd' x) /\ n_H (nd x) = n_H (nd' x) /\ n_M (nd x) = n_M (nd' x)) ->
  accum K nd F t = accum K nd' F t.
Proof. exact (accum_ext K nd nd' F t). Qed.

Theorem C06_mirror_mulJt_ext (F : X -> V) (t : tree X) :
  (forall x, In x (flatten t) -> n_l (nd x) = n_l (nd' x) /\ n_H (nd x) = n_H (nd' x) /\ n_M (nd x) = n_M (nd' x)) ->
  mulJt K nd F t = mulJt K nd' F t.
Proof. exact (mulJt_ext K nd nd' F t). Qed.

Theorem C06_mirror_mulM_ext (udot : X -> list S) (t : tree X) :
  (forall x, In x (flatten t) -> n_l (nd x) = n_l (nd' x) /\ n_H (nd x) = n_H (nd' x) /\ n_M (nd x) = n_M (nd' x)) ->
  mulM K nd udot t = mulM K nd' udot t.
Proof. exact (mulM_ext K nd nd' udot t). Qed.

Theorem C06_mirror_ke2_terms_ext (u : X -> list S) (t : tree X) :
  (forall x, In x (flatten t) -> n_l (nd x) = n_l (nd' x) /\ n_H (nd x) = n_H (nd' x) /\ n_M (nd x) = n_M (nd' x)) ->
  ke2_terms K nd u t = ke2_terms K nd' u t.
Proof. exact (ke2_terms_ext K nd nd' u t). Qed.
End Generic.

(** the instance the check's data live in: spatial vectors / Ground shift vectors / rigid-body inertias over R *)
Theorem C06_mirror_mulM_ext_spatial {X : Type} (nd nd' : X -> node (SpatialVec R) (Vec3 R) (SpInertia (T:=R))) (udot : X -> list R) (t : tree X) :
  (forall x, In x (flatten t) -> n_l (nd x) = n_l (nd' x) /\ n_H (nd x) = n_H (nd' x) /\ n_M (nd x) = n_M (nd' x)) ->
  mulM (svK ROps) nd udot t = mulM (svK ROps) nd' udot t.
Proof. exact (mulM_ext (svK ROps) nd nd' udot t). Qed.

(** the extensionality hypothesis is about the nodes of the tree only: assignments that differ elsewhere qualify *)
Theorem C06_mirror_agree_on_nontrivial :
  let t := Node 1%nat [Node 2%nat [Node 3%nat []]] in
  let nd  := fun x : nat => mkNode (V:=R) (L:=R) (I:=R) (INR x) [INR x] 1 in
  let nd' := fun x : nat => if Nat.eqb x 7 then mkNode 0 [] 0 else mkNode (V:=R) (L:=R) (I:=R) (INR x) [INR x] 1 in
  agree_on nd nd' t /\ nd 7%nat <> nd' 7%nat.
Proof. exact agree_on_nontrivial. Qed.

Theorem C06_reversed_chain_same_pose (X_GA X_AM X_BM X : Transform R) :
  is_rot (fst X_AM) -> is_rot (fst X_BM) -> is_rot (fst X) ->
  let X_GB := child_pose X_GA X_AM X X_BM in
  child_pose X_GB X_BM (rev_X ROps X) X_AM = X_GA.
Proof. exact (reversed_chain_same_pose X_GA X_AM X_BM X). Qed.

Theorem C06_reversed_chain_same_pose_back (X_GB X_AM X_BM X : Transform R) :
  is_rot (fst X_AM) -> is_rot (fst X_BM) -> is_rot (fst X) ->
  let X_GA := child_pose X_GB X_BM (rev_X ROps X) X_AM in
  child_pose X_GA X_AM X X_BM = X_GB.
Proof. exact (reversed_chain_same_pose_back X_GB X_AM X_BM X). Qed.

Theorem C06_reversed_same_speeds (X : R -> Transform R) (H : list (SpatialVec R)) (u : list R) :
  is_rot (fst (X 0)) -> moves_with X (Hu ROps H u) ->
  moves_with (fun t => rev_X ROps (X t)) (Hu ROps (rev_H ROps (X 0) H) u).
Proof. exact (reversed_same_speeds X H u). Qed.

Theorem C06_reversed_hyps_satisfiable : is_rot (fst (RotZ ROps (PI/3), (1, 2, 3))).
Proof. exact reversed_hyps_satisfiable. Qed.

Print Assumptions C06_mirror_same_node.
Print Assumptions C06_mirror_kin_ext.
Print Assumptions C06_mirror_mulJ_ext.
Print Assumptions C06_mirror_accum_ext.
Print Assumptions C06_mirror_mulJt_ext.
Print Assumptions C06_mirror_mulM_ext.
Print Assumptions C06_mirror_ke2_terms_ext.
Print Assumptions C06_mirror_mulM_ext_spatial.
Print Assumptions C06_mirror_agree_on_nontrivial.
Print Assumptions C06_reversed_chain_same_pose.
Print Assumptions C06_reversed_chain_same_pose_back.
Print Assumptions C06_reversed_same_speeds.
Print Assumptions C06_reversed_hyps_satisfiable.
