(** C07 property theorems: statements only, each closed by [exact]; proofs are in C07/C07_*.v, the kernels in
    C07/C07_Model.v (hand-written from ConstraintImpl.h, Constraint_RodImpl.h, Constraint_Rod.cpp, Constraint.cpp and tied to
    the compiled code by the correspondence run of checks/C07.py).
    Conventions (C07_Proofs.v): Xt X V t / Vt V A t are the first-order rigid motion of a pose / velocity; orth R: R R^T = 1;
    vc i: i-th component; balanced2: zero net wrench.  Naming: X_verr_is_jet (verr = d/dt perr), X_aerr_is_jet (aerr = d/dt verr),
    X_force_is_transpose (virtual work), X_force_balanced (Newton's third law), *_relation (exact off-manifold relation),
    *_refuted (the plain statement is false, with witness), X_G_adjoint (multiplyByGTranspose is the adjoint of multiplyByG, every tree). *)
From Coq Require Import ZArith Reals Lra List.
From Coquelicot Require Import Coquelicot.
Require Import Num Vec Tree MB Spatial C07_Model C07_Proofs C07_Point C07_Ball C07_NoSlip C07_Rod C07_Mob C07_System C07_SysTypes.
Import ListNotations.
Local Open Scope R_scope.

Theorem C07_ca_verr_is_jet XB XF VB VF b f c :
  is_derive (fun t => ca_perr ROps (Xt XB VB t) (Xt XF VF t) b f c) 0 (ca_verr ROps XB XF VB VF b f).
Proof. exact (@ca_verr_is_jet XB XF VB VF b f c). Qed.
Print Assumptions C07_ca_verr_is_jet.

Theorem C07_ca_aerr_is_jet XB XF VB VF AB AF b f :
  is_derive (fun t => ca_verr ROps (Xt XB VB t) (Xt XF VF t) (Vt VB AB t) (Vt VF AF t) b f) 0
            (ca_aerr ROps XB XF VB VF AB AF b f).
Proof. exact (@ca_aerr_is_jet XB XF VB VF AB AF b f). Qed.
Print Assumptions C07_ca_aerr_is_jet.

Theorem C07_ca_force_balanced XB XF b f lam : balanced2 XB XF (ca_force ROps XB XF b f lam).
Proof. exact (@ca_force_balanced XB XF b f lam). Qed.
Print Assumptions C07_ca_force_balanced.

Theorem C07_ca_force_is_transpose XB XF VB VF b f lam :
  lam * ca_verr ROps XB XF VB VF b f =
  sv_dot ROps (fst (ca_force ROps XB XF b f lam)) VB + sv_dot ROps (snd (ca_force ROps XB XF b f lam)) VF.
Proof. exact (@ca_force_is_transpose XB XF VB VF b f lam). Qed.
Print Assumptions C07_ca_force_is_transpose.

Theorem C07_ori_verr_is_jet i XB XF VB VF RB0 RF0 :
  is_derive (fun t => vc i (ori_perr ROps (Xt XB VB t) (Xt XF VF t) RB0 RF0)) 0 (vc i (ori_verr ROps XB XF VB VF RB0 RF0)).
Proof. exact (@ori_verr_is_jet i XB XF VB VF RB0 RF0). Qed.
Print Assumptions C07_ori_verr_is_jet.

Theorem C07_ori_aerr_is_jet i XB XF VB VF AB AF RB0 RF0 :
  is_derive (fun t => vc i (ori_verr ROps (Xt XB VB t) (Xt XF VF t) (Vt VB AB t) (Vt VF AF t) RB0 RF0)) 0
            (vc i (ori_aerr ROps XB XF VB VF AB AF RB0 RF0)).
Proof. exact (@ori_aerr_is_jet i XB XF VB VF AB AF RB0 RF0). Qed.
Print Assumptions C07_ori_aerr_is_jet.

Theorem C07_ori_force_balanced XB XF RB0 RF0 lam : balanced2 XB XF (ori_force ROps XB XF RB0 RF0 lam).
Proof. exact (@ori_force_balanced XB XF RB0 RF0 lam). Qed.
Print Assumptions C07_ori_force_balanced.

Theorem C07_ori_force_is_transpose XB XF VB VF RB0 RF0 lam :
  v3_dot ROps lam (ori_verr ROps XB XF VB VF RB0 RF0) =
  sv_dot ROps (fst (ori_force ROps XB XF RB0 RF0 lam)) VB + sv_dot ROps (snd (ori_force ROps XB XF RB0 RF0 lam)) VF.
Proof. exact (@ori_force_is_transpose XB XF VB VF RB0 RF0 lam). Qed.
Print Assumptions C07_ori_force_is_transpose.

Theorem C07_pip_verr_is_jet XB XF VB VF n h s : orth (fst XB) ->
  is_derive (fun t => pip_perr ROps (Xt XB VB t) (Xt XF VF t) n h s) 0 (pip_verr ROps XB XF VB VF n s).
Proof. exact (@pip_verr_is_jet XB XF VB VF n h s). Qed.
Print Assumptions C07_pip_verr_is_jet.

Theorem C07_pip_aerr_is_jet XB XF VB VF AB AF n s : orth (fst XB) ->
  is_derive (fun t => pip_verr ROps (Xt XB VB t) (Xt XF VF t) (Vt VB AB t) (Vt VF AF t) n s) 0
            (pip_aerr ROps XB XF VB VF AB AF n s).
Proof. exact (@pip_aerr_is_jet XB XF VB VF AB AF n s). Qed.
Print Assumptions C07_pip_aerr_is_jet.

Theorem C07_pip_force_is_transpose XB XF VB VF n s lam : orth (fst XB) ->
  lam * pip_verr ROps XB XF VB VF n s =
  sv_dot ROps (fst (pip_force ROps XB XF n s lam)) VB + sv_dot ROps (snd (pip_force ROps XB XF n s lam)) VF.
Proof. exact (@pip_force_is_transpose XB XF VB VF n s lam). Qed.
Print Assumptions C07_pip_force_is_transpose.

Theorem C07_pol_verr_is_jet0 XB XF VB VF x y P s : orth (fst XB) ->
  is_derive (fun t => fst (pol_perr ROps (Xt XB VB t) (Xt XF VF t) x y P s)) 0 (fst (pol_verr ROps XB XF VB VF x y s)).
Proof. exact (@pol_verr_is_jet0 XB XF VB VF x y P s). Qed.
Print Assumptions C07_pol_verr_is_jet0.

Theorem C07_pol_verr_is_jet1 XB XF VB VF x y P s : orth (fst XB) ->
  is_derive (fun t => snd (pol_perr ROps (Xt XB VB t) (Xt XF VF t) x y P s)) 0 (snd (pol_verr ROps XB XF VB VF x y s)).
Proof. exact (@pol_verr_is_jet1 XB XF VB VF x y P s). Qed.
Print Assumptions C07_pol_verr_is_jet1.

Theorem C07_pol_aerr_is_jet0 XB XF VB VF AB AF x y s : orth (fst XB) ->
  is_derive (fun t => fst (pol_verr ROps (Xt XB VB t) (Xt XF VF t) (Vt VB AB t) (Vt VF AF t) x y s)) 0
            (fst (pol_aerr ROps XB XF VB VF AB AF x y s)).
Proof. exact (@pol_aerr_is_jet0 XB XF VB VF AB AF x y s). Qed.
Print Assumptions C07_pol_aerr_is_jet0.

Theorem C07_pol_aerr_is_jet1 XB XF VB VF AB AF x y s : orth (fst XB) ->
  is_derive (fun t => snd (pol_verr ROps (Xt XB VB t) (Xt XF VF t) (Vt VB AB t) (Vt VF AF t) x y s)) 0
            (snd (pol_aerr ROps XB XF VB VF AB AF x y s)).
Proof. exact (@pol_aerr_is_jet1 XB XF VB VF AB AF x y s). Qed.
Print Assumptions C07_pol_aerr_is_jet1.

Theorem C07_pol_force_is_transpose XB XF VB VF x y s lam : orth (fst XB) ->
  fst lam * fst (pol_verr ROps XB XF VB VF x y s) + snd lam * snd (pol_verr ROps XB XF VB VF x y s) =
  sv_dot ROps (fst (pol_force ROps XB XF x y s lam)) VB + sv_dot ROps (snd (pol_force ROps XB XF x y s lam)) VF.
Proof. exact (@pol_force_is_transpose XB XF VB VF x y s lam). Qed.
Print Assumptions C07_pol_force_is_transpose.

Theorem C07_ball_verr_relation i X1 X2 V1 V2 s1 s2 : orth (fst X1) ->
  is_derive (fun t => vc i (ball_perr ROps (Xt X1 V1 t) (Xt X2 V2 t) s1 s2)) 0
            (vc i (ball_verr ROps X1 X2 V1 V2 s2 +v fst V1 xv ball_perr ROps X1 X2 s1 s2)).
Proof. exact (@ball_verr_relation i X1 X2 V1 V2 s1 s2). Qed.
Print Assumptions C07_ball_verr_relation.

Theorem C07_ball_aerr_relation i X1 X2 V1 V2 A1 A2 s2 : orth (fst X1) ->
  is_derive (fun t => vc i (ball_verr ROps (Xt X1 V1 t) (Xt X2 V2 t) (Vt V1 A1 t) (Vt V2 A2 t) s2)) 0
            (vc i (ball_aerr ROps X1 X2 V1 V2 A1 A2 s2 -v fst V1 xv ball_verr ROps X1 X2 V1 V2 s2)).
Proof. exact (@ball_aerr_relation i X1 X2 V1 V2 A1 A2 s2). Qed.
Print Assumptions C07_ball_aerr_relation.

Theorem C07_ball_force_is_transpose X1 X2 V1 V2 s2 lam : orth (fst X1) ->
  v3_dot ROps lam (ball_verr ROps X1 X2 V1 V2 s2) =
  sv_dot ROps (fst (ball_force ROps X1 X2 s2 lam)) V1 + sv_dot ROps (snd (ball_force ROps X1 X2 s2 lam)) V2.
Proof. exact (@ball_force_is_transpose X1 X2 V1 V2 s2 lam). Qed.
Print Assumptions C07_ball_force_is_transpose.

Theorem C07_ball_force_balanced X1 X2 s2 lam : orth (fst X1) -> balanced2 X1 X2 (ball_force ROps X1 X2 s2 lam).
Proof. exact (@ball_force_balanced X1 X2 s2 lam). Qed.
Print Assumptions C07_ball_force_balanced.

Theorem C07_ball_verr_is_jet_on_manifold i X1 X2 V1 V2 s1 s2 : orth (fst X1) -> ball_perr ROps X1 X2 s1 s2 = O3 ->
  is_derive (fun t => vc i (ball_perr ROps (Xt X1 V1 t) (Xt X2 V2 t) s1 s2)) 0 (vc i (ball_verr ROps X1 X2 V1 V2 s2)).
Proof. exact (@ball_verr_is_jet_on_manifold i X1 X2 V1 V2 s1 s2). Qed.
Print Assumptions C07_ball_verr_is_jet_on_manifold.

Theorem C07_ball_verr_is_jet_body1_not_rotating i X1 X2 V1 V2 s1 s2 : orth (fst X1) -> fst V1 = O3 ->
  is_derive (fun t => vc i (ball_perr ROps (Xt X1 V1 t) (Xt X2 V2 t) s1 s2)) 0 (vc i (ball_verr ROps X1 X2 V1 V2 s2)).
Proof. exact (@ball_verr_is_jet_body1_not_rotating i X1 X2 V1 V2 s1 s2). Qed.
Print Assumptions C07_ball_verr_is_jet_body1_not_rotating.

Theorem C07_ball_aerr_is_jet_on_manifold i X1 X2 V1 V2 A1 A2 s2 : orth (fst X1) -> ball_verr ROps X1 X2 V1 V2 s2 = O3 ->
  is_derive (fun t => vc i (ball_verr ROps (Xt X1 V1 t) (Xt X2 V2 t) (Vt V1 A1 t) (Vt V2 A2 t) s2)) 0
            (vc i (ball_aerr ROps X1 X2 V1 V2 A1 A2 s2)).
Proof. exact (@ball_aerr_is_jet_on_manifold i X1 X2 V1 V2 A1 A2 s2). Qed.
Print Assumptions C07_ball_aerr_is_jet_on_manifold.

Theorem C07_ball_aerr_is_jet_body1_not_rotating i X1 X2 V1 V2 A1 A2 s2 : orth (fst X1) -> fst V1 = O3 ->
  is_derive (fun t => vc i (ball_verr ROps (Xt X1 V1 t) (Xt X2 V2 t) (Vt V1 A1 t) (Vt V2 A2 t) s2)) 0
            (vc i (ball_aerr ROps X1 X2 V1 V2 A1 A2 s2)).
Proof. exact (@ball_aerr_is_jet_body1_not_rotating i X1 X2 V1 V2 A1 A2 s2). Qed.
Print Assumptions C07_ball_aerr_is_jet_body1_not_rotating.

Theorem C07_ball_verr_is_jet_refuted : exists X1 X2 V1 V2 s1 s2 i, orth (fst X1) /\ orth (fst X2) /\
  ~ is_derive (fun t => vc i (ball_perr ROps (Xt X1 V1 t) (Xt X2 V2 t) s1 s2)) 0 (vc i (ball_verr ROps X1 X2 V1 V2 s2)).
Proof. exact (@ball_verr_is_jet_refuted). Qed.
Print Assumptions C07_ball_verr_is_jet_refuted.

Theorem C07_ball_aerr_is_jet_refuted : exists X1 X2 V1 V2 A1 A2 s2 i, orth (fst X1) /\ orth (fst X2) /\
  ~ is_derive (fun t => vc i (ball_verr ROps (Xt X1 V1 t) (Xt X2 V2 t) (Vt V1 A1 t) (Vt V2 A2 t) s2)) 0
              (vc i (ball_aerr ROps X1 X2 V1 V2 A1 A2 s2)).
Proof. exact (@ball_aerr_is_jet_refuted). Qed.
Print Assumptions C07_ball_aerr_is_jet_refuted.

Theorem C07_weld_verr_ori_is_jet i XB XF VB VF FB FF :
  is_derive (fun t => vc i (fst (weld_perr ROps (Xt XB VB t) (Xt XF VF t) FB FF))) 0 (vc i (fst (weld_verr ROps XB XF VB VF FB FF))).
Proof. exact (@weld_verr_ori_is_jet i XB XF VB VF FB FF). Qed.
Print Assumptions C07_weld_verr_ori_is_jet.

Theorem C07_weld_aerr_ori_is_jet i XB XF VB VF AB AF FB FF :
  is_derive (fun t => vc i (fst (weld_verr ROps (Xt XB VB t) (Xt XF VF t) (Vt VB AB t) (Vt VF AF t) FB FF))) 0
            (vc i (fst (weld_aerr ROps XB XF VB VF AB AF FB FF))).
Proof. exact (@weld_aerr_ori_is_jet i XB XF VB VF AB AF FB FF). Qed.
Print Assumptions C07_weld_aerr_ori_is_jet.

Theorem C07_weld_verr_pos_relation i XB XF VB VF FB FF : orth (fst XB) ->
  is_derive (fun t => vc i (snd (weld_perr ROps (Xt XB VB t) (Xt XF VF t) FB FF))) 0
            (vc i (snd (weld_verr ROps XB XF VB VF FB FF) +v fst VB xv snd (weld_perr ROps XB XF FB FF))).
Proof. exact (@weld_verr_pos_relation i XB XF VB VF FB FF). Qed.
Print Assumptions C07_weld_verr_pos_relation.

Theorem C07_weld_aerr_pos_relation i XB XF VB VF AB AF FB FF : orth (fst XB) ->
  is_derive (fun t => vc i (snd (weld_verr ROps (Xt XB VB t) (Xt XF VF t) (Vt VB AB t) (Vt VF AF t) FB FF))) 0
            (vc i (snd (weld_aerr ROps XB XF VB VF AB AF FB FF) -v fst VB xv snd (weld_verr ROps XB XF VB VF FB FF))).
Proof. exact (@weld_aerr_pos_relation i XB XF VB VF AB AF FB FF). Qed.
Print Assumptions C07_weld_aerr_pos_relation.

Theorem C07_weld_verr_pos_is_jet_on_manifold i XB XF VB VF FB FF : orth (fst XB) -> snd (weld_perr ROps XB XF FB FF) = O3 ->
  is_derive (fun t => vc i (snd (weld_perr ROps (Xt XB VB t) (Xt XF VF t) FB FF))) 0 (vc i (snd (weld_verr ROps XB XF VB VF FB FF))).
Proof. exact (@weld_verr_pos_is_jet_on_manifold i XB XF VB VF FB FF). Qed.
Print Assumptions C07_weld_verr_pos_is_jet_on_manifold.

Theorem C07_weld_aerr_pos_is_jet_on_manifold i XB XF VB VF AB AF FB FF : orth (fst XB) -> snd (weld_verr ROps XB XF VB VF FB FF) = O3 ->
  is_derive (fun t => vc i (snd (weld_verr ROps (Xt XB VB t) (Xt XF VF t) (Vt VB AB t) (Vt VF AF t) FB FF))) 0
            (vc i (snd (weld_aerr ROps XB XF VB VF AB AF FB FF))).
Proof. exact (@weld_aerr_pos_is_jet_on_manifold i XB XF VB VF AB AF FB FF). Qed.
Print Assumptions C07_weld_aerr_pos_is_jet_on_manifold.

Theorem C07_weld_verr_is_jet_refuted : exists XB XF VB VF FB FF i, orth (fst XB) /\ orth (fst XF) /\
  ~ is_derive (fun t => vc i (snd (weld_perr ROps (Xt XB VB t) (Xt XF VF t) FB FF))) 0 (vc i (snd (weld_verr ROps XB XF VB VF FB FF))).
Proof. exact (@weld_verr_is_jet_refuted). Qed.
Print Assumptions C07_weld_verr_is_jet_refuted.

Theorem C07_weld_force_is_transpose XB XF VB VF FB FF lam : orth (fst XB) ->
  v3_dot ROps (fst lam) (fst (weld_verr ROps XB XF VB VF FB FF)) + v3_dot ROps (snd lam) (snd (weld_verr ROps XB XF VB VF FB FF)) =
  sv_dot ROps (fst (weld_force ROps XB XF FB FF lam)) VB + sv_dot ROps (snd (weld_force ROps XB XF FB FF lam)) VF.
Proof. exact (@weld_force_is_transpose XB XF VB VF FB FF lam). Qed.
Print Assumptions C07_weld_force_is_transpose.

Theorem C07_weld_force_balanced XB XF FB FF lam : orth (fst XB) -> balanced2 XB XF (weld_force ROps XB XF FB FF lam).
Proof. exact (@weld_force_balanced XB XF FB FF lam). Qed.
Print Assumptions C07_weld_force_balanced.

Theorem C07_ns_aerr_relation XC X0 X1 VC V0 V1 A0 A1 P n : orth (fst X0) -> orth (fst X1) ->
  is_derive (fun t => ns_verr ROps (Xt XC VC t) (Xt X0 V0 t) (Xt X1 V1 t) (Vt V0 A0 t) (Vt V1 A1 t) P n) 0
            (ns_aerr ROps XC X0 X1 VC V0 V1 A0 A1 P n + ns_conv XC X0 X1 VC V0 V1 P n).
Proof. exact (@ns_aerr_relation XC X0 X1 VC V0 V1 A0 A1 P n). Qed.
Print Assumptions C07_ns_aerr_relation.

Theorem C07_ns_force_is_transpose XC X0 X1 V0 V1 P n lam : orth (fst X0) -> orth (fst X1) ->
  lam * ns_verr ROps XC X0 X1 V0 V1 P n =
  sv_dot ROps (fst (ns_force ROps XC X0 X1 P n lam)) V0 + sv_dot ROps (snd (ns_force ROps XC X0 X1 P n lam)) V1.
Proof. exact (@ns_force_is_transpose XC X0 X1 V0 V1 P n lam). Qed.
Print Assumptions C07_ns_force_is_transpose.

Theorem C07_ns_aerr_is_jet_partial XC X0 X1 VC V0 V1 A0 A1 P n : orth (fst X0) -> orth (fst X1) ->
  ns_conv XC X0 X1 VC V0 V1 P n = 0 ->
  is_derive (fun t => ns_verr ROps (Xt XC VC t) (Xt X0 V0 t) (Xt X1 V1 t) (Vt V0 A0 t) (Vt V1 A1 t) P n) 0
            (ns_aerr ROps XC X0 X1 VC V0 V1 A0 A1 P n).
Proof. exact (@ns_aerr_is_jet_partial XC X0 X1 VC V0 V1 A0 A1 P n). Qed.
Print Assumptions C07_ns_aerr_is_jet_partial.

Theorem C07_ns_aerr_is_jet_refuted : exists XC X0 X1 VC V0 V1 A0 A1 P n,
  orth (fst XC) /\ orth (fst X0) /\ orth (fst X1) /\ ns_verr ROps XC X0 X1 V0 V1 P n = 0 /\
  ~ is_derive (fun t => ns_verr ROps (Xt XC VC t) (Xt X0 V0 t) (Xt X1 V1 t) (Vt V0 A0 t) (Vt V1 A1 t) P n) 0
              (ns_aerr ROps XC X0 X1 VC V0 V1 A0 A1 P n).
Proof. exact (@ns_aerr_is_jet_refuted). Qed.
Print Assumptions C07_ns_aerr_is_jet_refuted.

Theorem C07_rod_regular_branch tiny XF XB VF VB AF AB sF sB : rod_singular ROps tiny XF XB sF sB = false ->
  rod_Cz ROps tiny XF XB sF sB = rod_Cz_reg XF XB sF sB /\
  rod_verr ROps tiny XF XB VF VB sF sB = rod_verr_reg XF XB VF VB sF sB /\
  rod_aerr ROps tiny XF XB VF VB AF AB sF sB = rod_aerr_reg XF XB VF VB AF AB sF sB.
Proof. exact (@rod_regular_branch tiny XF XB VF VB AF AB sF sB). Qed.
Print Assumptions C07_rod_regular_branch.

Theorem C07_rod_singular_false tiny XF XB sF sB : tiny <= v3_norm ROps (rod_d ROps XF XB sF sB) -> rod_singular ROps tiny XF XB sF sB = false.
Proof. exact (@rod_singular_false tiny XF XB sF sB). Qed.
Print Assumptions C07_rod_singular_false.

Theorem C07_rod_verr_is_jet XF XB VF VB sF sB d : 0 < v3_normSqr ROps (rod_d ROps XF XB sF sB) ->
  is_derive (fun t => rod_perr ROps (Xt XF VF t) (Xt XB VB t) sF sB d) 0 (rod_verr_reg XF XB VF VB sF sB).
Proof. exact (@rod_verr_is_jet XF XB VF VB sF sB d). Qed.
Print Assumptions C07_rod_verr_is_jet.

Theorem C07_rod_aerr_is_jet XF XB VF VB AF AB sF sB : 0 < v3_normSqr ROps (rod_d ROps XF XB sF sB) ->
  is_derive (fun t => rod_verr_reg (Xt XF VF t) (Xt XB VB t) (Vt VF AF t) (Vt VB AB t) sF sB) 0
            (rod_aerr_reg XF XB VF VB AF AB sF sB).
Proof. exact (@rod_aerr_is_jet XF XB VF VB AF AB sF sB). Qed.
Print Assumptions C07_rod_aerr_is_jet.

Theorem C07_rod_force_is_transpose tiny XF XB VF VB sF sB lam :
  lam * rod_verr ROps tiny XF XB VF VB sF sB =
  sv_dot ROps (fst (rod_force ROps tiny XF XB sF sB lam)) VF + sv_dot ROps (snd (rod_force ROps tiny XF XB sF sB lam)) VB.
Proof. exact (@rod_force_is_transpose tiny XF XB VF VB sF sB lam). Qed.
Print Assumptions C07_rod_force_is_transpose.

Theorem C07_rod_force_balanced tiny XF XB sF sB lam : rod_singular ROps tiny XF XB sF sB = false ->
  balanced2 XF XB (rod_force ROps tiny XF XB sF sB lam).
Proof. exact (@rod_force_balanced tiny XF XB sF sB lam). Qed.
Print Assumptions C07_rod_force_balanced.

Theorem C07_rod_singular_aerr_is_jet tiny XF XB VF VB AF AB sF sB : rod_singular ROps tiny XF XB sF sB = true ->
  is_derive (fun t => v3_dot ROps (rod_pd ROps (Xt XF VF t) (Xt XB VB t) (Vt VF AF t) (Vt VB AB t) sF sB) (m33_c2 (fst (Xt XF VF t)))) 0
            (rod_aerr ROps tiny XF XB VF VB AF AB sF sB).
Proof. exact (@rod_singular_aerr_is_jet tiny XF XB VF VB AF AB sF sB). Qed.
Print Assumptions C07_rod_singular_aerr_is_jet.

Theorem C07_rod_hyps_satisfiable : 0 < v3_normSqr ROps (rod_d ROps (I3,O3) (I3,(3,4,0)) O3 O3) /\
  rod_singular ROps (1/1000) (I3,O3) (I3,(3,4,0)) O3 O3 = false.
Proof. exact (@rod_hyps_satisfiable). Qed.
Print Assumptions C07_rod_hyps_satisfiable.

Theorem C07_cc_verr_is_jet q qd p : is_derive (fun t => cc_perr ROps (q + t*qd) p) 0 qd.
Proof. exact (@cc_verr_is_jet q qd p). Qed.
Print Assumptions C07_cc_verr_is_jet.

Theorem C07_cc_aerr_is_jet qd qdd : is_derive (fun t => qd + t*qdd) 0 qdd.
Proof. exact (@cc_aerr_is_jet qd qdd). Qed.
Print Assumptions C07_cc_aerr_is_jet.

Theorem C07_cc_Pq_is_dperr_dq q p : is_derive (fun x => cc_perr ROps x p) q 1.
Proof. exact (@cc_Pq_is_dperr_dq q p). Qed.
Print Assumptions C07_cc_Pq_is_dperr_dq.

Theorem C07_cs_aerr_is_jet u ud s : is_derive (fun t => cs_verr ROps (u + t*ud) s) 0 ud.
Proof. exact (@cs_aerr_is_jet u ud s). Qed.
Print Assumptions C07_cs_aerr_is_jet.

Theorem C07_cs_force_is_transpose u s lam : lam * (cs_verr ROps u s - cs_verr ROps 0 s) = lam * u.
Proof. exact (@cs_force_is_transpose u s lam). Qed.
Print Assumptions C07_cs_force_is_transpose.

Theorem C07_cacc_force_is_transpose ud a lam : lam * (cacc_aerr ROps ud a - cacc_aerr ROps 0 a) = lam * ud.
Proof. exact (@cacc_force_is_transpose ud a lam). Qed.
Print Assumptions C07_cacc_force_is_transpose.

Theorem C07_ccpl_verr_is_jet c q qd : length q = length qd ->
  is_derive (fun t => ccpl_perr ROps c (lpath q qd t)) 0 (ccpl_verr ROps c qd).
Proof. exact (@ccpl_verr_is_jet c q qd). Qed.
Print Assumptions C07_ccpl_verr_is_jet.

Theorem C07_ccpl_aerr_is_jet c qd qdd : length qd = length qdd ->
  is_derive (fun t => ccpl_verr ROps c (lpath qd qdd t)) 0 (ccpl_aerr ROps c qdd).
Proof. exact (@ccpl_aerr_is_jet c qd qdd). Qed.
Print Assumptions C07_ccpl_aerr_is_jet.

Theorem C07_ccpl_force_is_transpose c qd lam : lam * ccpl_verr ROps c qd = dotl (ccpl_force ROps c (length qd) lam) qd.
Proof. exact (@ccpl_force_is_transpose c qd lam). Qed.
Print Assumptions C07_ccpl_force_is_transpose.

Theorem C07_ccpl_Pq_is_dperr_dq c q i : length q = length c -> (i < length c)%nat ->
  is_derive (fun t => ccpl_perr ROps c (lpath q (map (fun j => if Nat.eqb j i then 1 else 0) (seq 0 (length c))) t)) 0 (nth i c 0).
Proof. exact (@ccpl_Pq_is_dperr_dq c q i). Qed.
Print Assumptions C07_ccpl_Pq_is_dperr_dq.

Theorem C07_scpl_aerr_is_jet c u ud q qd : length u = length ud -> length q = length qd ->
  is_derive (fun t => scpl_verr ROps c (lpath u ud t) (lpath q qd t)) 0 (scpl_aerr ROps c ud qd).
Proof. exact (@scpl_aerr_is_jet c u ud q qd). Qed.
Print Assumptions C07_scpl_aerr_is_jet.

Theorem C07_scpl_force_is_transpose c ud (nq:nat) lam :
  lam * scpl_aerr ROps c ud (repeat 0 nq) = dotl (scpl_force ROps c (length ud) lam) ud.
Proof. exact (@scpl_force_is_transpose c ud nq lam). Qed.
Print Assumptions C07_scpl_force_is_transpose.

Theorem C07_ccpl_example : ccpl_perr ROps [2;3;5] [1;1] = 10 /\ ccpl_verr ROps [2;3;5] [1;-1] = -1 /\ ccpl_force ROps [2;3;5] 2 2 = [4;6].
Proof. exact (@ccpl_example). Qed.
Print Assumptions C07_ccpl_example.

Theorem C07_pip_force_balanced XB XF n s lam : orth (fst XB) -> balanced2 XB XF (pip_force ROps XB XF n s lam).
Proof. exact (@pip_force_balanced XB XF n s lam). Qed.
Print Assumptions C07_pip_force_balanced.

Theorem C07_pol_force_balanced XB XF x y s lam : orth (fst XB) -> balanced2 XB XF (pol_force ROps XB XF x y s lam).
Proof. exact (@pol_force_balanced XB XF x y s lam). Qed.
Print Assumptions C07_pol_force_balanced.

Theorem C07_ns_force_balanced XC X0 X1 P n lam : orth (fst X0) -> orth (fst X1) -> balanced2 X0 X1 (ns_force ROps XC X0 X1 P n lam).
Proof. exact (@ns_force_balanced XC X0 X1 P n lam). Qed.
Print Assumptions C07_ns_force_balanced.

Theorem C07_relV_adjoint FA XGA VGA XGB VGB :
  sv_dot ROps FA (relV ROps XGA VGA XGB VGB) =
  sv_dot ROps (forceToG ROps XGA FA) VGB - sv_dot ROps (shiftForce ROps (snd XGB -v snd XGA) (forceToG ROps XGA FA)) VGA.
Proof. exact (@relV_adjoint FA XGA VGA XGB VGB). Qed.
Print Assumptions C07_relV_adjoint.

Theorem C07_balance_to_G XGA XG1 XG2 F1 F2 : rot (fst XGA) ->
  balanced2 (relX ROps XGA XG1) (relX ROps XGA XG2) (F1, F2) ->
  sv_add ROps (shiftForce ROps (snd XG1 -v snd XGA) (forceToG ROps XGA F1))
              (shiftForce ROps (snd XG2 -v snd XGA) (forceToG ROps XGA F2)) = sv_zero ROps.
Proof. exact (@balance_to_G XGA XG1 XG2 F1 F2). Qed.
Print Assumptions C07_balance_to_G.

Theorem C07_sys_adjoint {X:Type} (nd : X -> node (SpatialVec R) (Vec3 R) (SpInertia (T:=R))) (bid : X -> nat)
  (u : X -> list R) (bs : list (nat * SpatialVec R)) (t : tree X) :
  lsum (map (fun kF => sv_dot ROps (snd kF) (pick bid (fst kF) (flatten (mulJ (svK ROps) nd u t)))) bs)
  = tsum (tmap (fun xt => dotU (svK ROps) (snd xt) (u (fst xt))) (mulJt (svK ROps) nd (Fsel bid bs) t)).
Proof. exact (sys_adjoint nd bid u bs t). Qed.
Print Assumptions C07_sys_adjoint.

Theorem C07_adjoint2_ground {X:Type} (nd : X -> node (SpatialVec R) (Vec3 R) (SpInertia (T:=R))) (bid : X -> nat)
  (g : SpatialVec R -> SpatialVec R -> R) (F1 F2 : SpatialVec R) (k1 k2 : nat) (u : X -> list R) (t : tree X) :
  (forall V1 V2, g V1 V2 = sv_dot ROps F1 V1 + sv_dot ROps F2 V2) ->
  let T := flatten (mulJ (svK ROps) nd u t) in
  g (pick bid k1 T) (pick bid k2 T) = tsum (tmap (fun xt => dotU (svK ROps) (snd xt) (u (fst xt))) (mulJt (svK ROps) nd (Fsel bid [(k1,F1);(k2,F2)]) t)).
Proof. exact (adjoint2_ground nd bid g F1 F2 k1 k2 u t). Qed.
Print Assumptions C07_adjoint2_ground.

Theorem C07_adjoint2_ancestor {X:Type} (nd : X -> node (SpatialVec R) (Vec3 R) (SpInertia (T:=R))) (bid : X -> nat)
  (g : SpatialVec R -> SpatialVec R -> R) (FA1 FA2 : SpatialVec R) (XGA XG1 XG2 : Transform R) (kA k1 k2 : nat) (u : X -> list R) (t : tree X) :
  rot (fst XGA) ->
  (forall V1 V2, g V1 V2 = sv_dot ROps FA1 V1 + sv_dot ROps FA2 V2) ->
  balanced2 (relX ROps XGA XG1) (relX ROps XGA XG2) (FA1, FA2) ->
  let T := flatten (mulJ (svK ROps) nd u t) in
  g (relV ROps XGA (pick bid kA T) XG1 (pick bid k1 T)) (relV ROps XGA (pick bid kA T) XG2 (pick bid k2 T))
  = tsum (tmap (fun xt => dotU (svK ROps) (snd xt) (u (fst xt))) (mulJt (svK ROps) nd (Fsel bid [(k1, forceToG ROps XGA FA1); (k2, forceToG ROps XGA FA2)]) t)).
Proof. exact (adjoint2_ancestor nd bid g FA1 FA2 XGA XG1 XG2 kA k1 k2 u t). Qed.
Print Assumptions C07_adjoint2_ancestor.

Theorem C07_rod_G_adjoint {X} (nd:NodeData X) (bid:X->nat) (XGA XG1 XG2:Transform R) (kA k1 k2:nat) (u:X->list R) (t:tree X) (tiny:R) (sF sB:Vec3 R) (lam:R) :
  rot (fst XGA) -> rod_singular ROps tiny (relX ROps XGA XG1) (relX ROps XGA XG2) sF sB = false ->
  lam * rod_verr ROps tiny (relX ROps XGA XG1) (relX ROps XGA XG2) (VAof nd bid XGA kA XG1 k1 u t) (VAof nd bid XGA kA XG2 k2 u t) sF sB
  = GtL nd bid XGA k1 k2 u t (rod_force ROps tiny (relX ROps XGA XG1) (relX ROps XGA XG2) sF sB lam).
Proof. exact (@rod_G_adjoint X nd bid XGA XG1 XG2 kA k1 k2 u t tiny sF sB lam). Qed.
Print Assumptions C07_rod_G_adjoint.

Theorem C07_ball_G_adjoint {X} (nd:NodeData X) (bid:X->nat) (XGA XG1 XG2:Transform R) (kA k1 k2:nat) (u:X->list R) (t:tree X) (s2 lam:Vec3 R) :
  rot (fst XGA) -> orth (fst (relX ROps XGA XG1)) ->
  v3_dot ROps lam (ball_verr ROps (relX ROps XGA XG1) (relX ROps XGA XG2) (VAof nd bid XGA kA XG1 k1 u t) (VAof nd bid XGA kA XG2 k2 u t) s2)
  = GtL nd bid XGA k1 k2 u t (ball_force ROps (relX ROps XGA XG1) (relX ROps XGA XG2) s2 lam).
Proof. exact (@ball_G_adjoint X nd bid XGA XG1 XG2 kA k1 k2 u t s2 lam). Qed.
Print Assumptions C07_ball_G_adjoint.

Theorem C07_weld_G_adjoint {X} (nd:NodeData X) (bid:X->nat) (XGA XG1 XG2:Transform R) (kA k1 k2:nat) (u:X->list R) (t:tree X) (FB FF:Transform R) (lam:Vec3 R * Vec3 R) :
  rot (fst XGA) -> orth (fst (relX ROps XGA XG1)) ->
  v3_dot ROps (fst lam) (fst (weld_verr ROps (relX ROps XGA XG1) (relX ROps XGA XG2) (VAof nd bid XGA kA XG1 k1 u t) (VAof nd bid XGA kA XG2 k2 u t) FB FF)) + v3_dot ROps (snd lam) (snd (weld_verr ROps (relX ROps XGA XG1) (relX ROps XGA XG2) (VAof nd bid XGA kA XG1 k1 u t) (VAof nd bid XGA kA XG2 k2 u t) FB FF))
  = GtL nd bid XGA k1 k2 u t (weld_force ROps (relX ROps XGA XG1) (relX ROps XGA XG2) FB FF lam).
Proof. exact (@weld_G_adjoint X nd bid XGA XG1 XG2 kA k1 k2 u t FB FF lam). Qed.
Print Assumptions C07_weld_G_adjoint.

Theorem C07_pip_G_adjoint {X} (nd:NodeData X) (bid:X->nat) (XGA XG1 XG2:Transform R) (kA k1 k2:nat) (u:X->list R) (t:tree X) (n s:Vec3 R) (lam:R) :
  rot (fst XGA) -> orth (fst (relX ROps XGA XG1)) ->
  lam * pip_verr ROps (relX ROps XGA XG1) (relX ROps XGA XG2) (VAof nd bid XGA kA XG1 k1 u t) (VAof nd bid XGA kA XG2 k2 u t) n s
  = GtL nd bid XGA k1 k2 u t (pip_force ROps (relX ROps XGA XG1) (relX ROps XGA XG2) n s lam).
Proof. exact (@pip_G_adjoint X nd bid XGA XG1 XG2 kA k1 k2 u t n s lam). Qed.
Print Assumptions C07_pip_G_adjoint.

Theorem C07_pol_G_adjoint {X} (nd:NodeData X) (bid:X->nat) (XGA XG1 XG2:Transform R) (kA k1 k2:nat) (u:X->list R) (t:tree X) (x y s:Vec3 R) (lam:R*R) :
  rot (fst XGA) -> orth (fst (relX ROps XGA XG1)) ->
  fst lam * fst (pol_verr ROps (relX ROps XGA XG1) (relX ROps XGA XG2) (VAof nd bid XGA kA XG1 k1 u t) (VAof nd bid XGA kA XG2 k2 u t) x y s) + snd lam * snd (pol_verr ROps (relX ROps XGA XG1) (relX ROps XGA XG2) (VAof nd bid XGA kA XG1 k1 u t) (VAof nd bid XGA kA XG2 k2 u t) x y s)
  = GtL nd bid XGA k1 k2 u t (pol_force ROps (relX ROps XGA XG1) (relX ROps XGA XG2) x y s lam).
Proof. exact (@pol_G_adjoint X nd bid XGA XG1 XG2 kA k1 k2 u t x y s lam). Qed.
Print Assumptions C07_pol_G_adjoint.

Theorem C07_ca_G_adjoint {X} (nd:NodeData X) (bid:X->nat) (XGA XG1 XG2:Transform R) (kA k1 k2:nat) (u:X->list R) (t:tree X) (b f:Vec3 R) (lam:R) :
  rot (fst XGA) ->
  lam * ca_verr ROps (relX ROps XGA XG1) (relX ROps XGA XG2) (VAof nd bid XGA kA XG1 k1 u t) (VAof nd bid XGA kA XG2 k2 u t) b f
  = GtL nd bid XGA k1 k2 u t (ca_force ROps (relX ROps XGA XG1) (relX ROps XGA XG2) b f lam).
Proof. exact (@ca_G_adjoint X nd bid XGA XG1 XG2 kA k1 k2 u t b f lam). Qed.
Print Assumptions C07_ca_G_adjoint.

Theorem C07_ori_G_adjoint {X} (nd:NodeData X) (bid:X->nat) (XGA XG1 XG2:Transform R) (kA k1 k2:nat) (u:X->list R) (t:tree X) (RB0 RF0:Mat33 R) (lam:Vec3 R) :
  rot (fst XGA) ->
  v3_dot ROps lam (ori_verr ROps (relX ROps XGA XG1) (relX ROps XGA XG2) (VAof nd bid XGA kA XG1 k1 u t) (VAof nd bid XGA kA XG2 k2 u t) RB0 RF0)
  = GtL nd bid XGA k1 k2 u t (ori_force ROps (relX ROps XGA XG1) (relX ROps XGA XG2) RB0 RF0 lam).
Proof. exact (@ori_G_adjoint X nd bid XGA XG1 XG2 kA k1 k2 u t RB0 RF0 lam). Qed.
Print Assumptions C07_ori_G_adjoint.

Theorem C07_ns_G_adjoint {X} (nd:NodeData X) (bid:X->nat) (XGA XG1 XG2:Transform R) (kA k1 k2:nat) (u:X->list R) (t:tree X) (XC:Transform R) (P n:Vec3 R) (lam:R) :
  rot (fst XGA) -> orth (fst (relX ROps XGA XG1)) -> orth (fst (relX ROps XGA XG2)) ->
  lam * ns_verr ROps XC (relX ROps XGA XG1) (relX ROps XGA XG2) (VAof nd bid XGA kA XG1 k1 u t) (VAof nd bid XGA kA XG2 k2 u t) P n
  = GtL nd bid XGA k1 k2 u t (ns_force ROps XC (relX ROps XGA XG1) (relX ROps XGA XG2) P n lam).
Proof. exact (@ns_G_adjoint X nd bid XGA XG1 XG2 kA k1 k2 u t XC P n lam). Qed.
Print Assumptions C07_ns_G_adjoint.

Theorem C07_G_adjoint_hyps_satisfiable : rot (fst (I3,O3)) /\ orth (fst (relX ROps (I3,O3) (I3,(1,2,3)))).
Proof. exact (@G_adjoint_hyps_satisfiable). Qed.
Print Assumptions C07_G_adjoint_hyps_satisfiable.
