(** C07 property theorems, second wave (contact constraints): statements only, each closed by [exact]; proofs in
    C07/C07_ContactProofs.v and C07/C07_ContactSys.v, kernels in C07/C07_Contact.v (hand-written from Constraint_SphereOnPlaneContactImpl.h,
    Constraint_PointOnPlaneContactImpl.h, Constraint_SphereOnSphereContactImpl.h/.cpp; tied to the compiled code by checks/C07.py).
    Same conventions and naming as Properties_C07.v.  SphereOnSphereContact's rolling acceleration errors are modelled and tied
    but have no derivative theorem (the contact-frame axes come from Rotation::setRotationFromOneAxis; see the known finding). *)
From Coq Require Import ZArith Reals Lra List.
From Coquelicot Require Import Coquelicot.
Require Import Num Vec Tree MB Spatial C07_Model C07_Contact C07_Proofs C07_Point C07_Rod C07_System C07_SysTypes C07_ContactProofs C07_ContactSys.
Import ListNotations.
Local Open Scope R_scope.

Theorem C07_sop_verr_is_jet XF XB VF VB XFP pO r :
  is_derive (fun t => sop_perr ROps (Xt XF VF t) (Xt XB VB t) XFP pO r) 0 (sop_verr ROps XF XB VF VB XFP pO).
Proof. exact (@sop_verr_is_jet XF XB VF VB XFP pO r). Qed.
Print Assumptions C07_sop_verr_is_jet.

Theorem C07_sop_aerr_is_jet XF XB VF VB AF AB XFP pO :
  is_derive (fun t => sop_verr ROps (Xt XF VF t) (Xt XB VB t) (Vt VF AF t) (Vt VB AB t) XFP pO) 0
            (sop_aerr ROps XF XB VF VB AF AB XFP pO).
Proof. exact (@sop_aerr_is_jet XF XB VF VB AF AB XFP pO). Qed.
Print Assumptions C07_sop_aerr_is_jet.

Theorem C07_sop_force_is_transpose XF XB VF VB XFP pO r lam :
  lam * sop_verr ROps XF XB VF VB XFP pO =
  sv_dot ROps (fst (sop_force ROps XF XB XFP pO r lam)) VF + sv_dot ROps (snd (sop_force ROps XF XB XFP pO r lam)) VB.
Proof. exact (@sop_force_is_transpose XF XB VF VB XFP pO r lam). Qed.
Print Assumptions C07_sop_force_is_transpose.

Theorem C07_sop_force_balanced XF XB XFP pO r lam : balanced2 XF XB (sop_force ROps XF XB XFP pO r lam).
Proof. exact (@sop_force_balanced XF XB XFP pO r lam). Qed.
Print Assumptions C07_sop_force_balanced.

Theorem C07_sopr_aerr_is_jet0 XF XB VF VB AF AB XFP pO r :
  is_derive (fun t => fst (sopr_verr ROps (Xt XF VF t) (Xt XB VB t) (Vt VF AF t) (Vt VB AB t) XFP pO r)) 0
            (fst (sopr_aerr ROps XF XB VF VB AF AB XFP pO r)).
Proof. exact (@sopr_aerr_is_jet0 XF XB VF VB AF AB XFP pO r). Qed.
Print Assumptions C07_sopr_aerr_is_jet0.

Theorem C07_sopr_aerr_is_jet1 XF XB VF VB AF AB XFP pO r :
  is_derive (fun t => snd (sopr_verr ROps (Xt XF VF t) (Xt XB VB t) (Vt VF AF t) (Vt VB AB t) XFP pO r)) 0
            (snd (sopr_aerr ROps XF XB VF VB AF AB XFP pO r)).
Proof. exact (@sopr_aerr_is_jet1 XF XB VF VB AF AB XFP pO r). Qed.
Print Assumptions C07_sopr_aerr_is_jet1.

Theorem C07_sopr_force_is_transpose XF XB VF VB XFP pO r lam :
  fst lam * fst (sopr_verr ROps XF XB VF VB XFP pO r) + snd lam * snd (sopr_verr ROps XF XB VF VB XFP pO r) =
  sv_dot ROps (fst (sopr_force ROps XF XB XFP pO r lam)) VF + sv_dot ROps (snd (sopr_force ROps XF XB XFP pO r lam)) VB.
Proof. exact (@sopr_force_is_transpose XF XB VF VB XFP pO r lam). Qed.
Print Assumptions C07_sopr_force_is_transpose.

Theorem C07_sopr_force_balanced XF XB XFP pO r lam : balanced2 XF XB (sopr_force ROps XF XB XFP pO r lam).
Proof. exact (@sopr_force_balanced XF XB XFP pO r lam). Qed.
Print Assumptions C07_sopr_force_balanced.

Theorem C07_sopr_transport_term_matters : exists XF XB VF VB AF AB XFP pO r,
  let wrong := v3_dot ROps (m33_c0 (m33_mul ROps (fst XF) (fst XFP)))
      (sop_aFO ROps XF XB VF VB AF AB pO -v ((fst AB -v fst AF) -v fst VB xv fst VF) xv (r *v sop_PzA ROps XF XFP)) in
  wrong <> fst (sopr_aerr ROps XF XB VF VB AF AB XFP pO r).
Proof. exact (@sopr_transport_term_matters). Qed.
Print Assumptions C07_sopr_transport_term_matters.

Theorem C07_pop_verr_is_jet XS XB VS VB XSP s : orth (fst XS) ->
  is_derive (fun t => pop_perr ROps (Xt XS VS t) (Xt XB VB t) XSP s) 0 (pop_verr ROps 2 XS XB VS VB XSP s).
Proof. exact (@pop_verr_is_jet XS XB VS VB XSP s). Qed.
Print Assumptions C07_pop_verr_is_jet.

Theorem C07_pop_aerr_is_jet i XS XB VS VB AS AB XSP s : orth (fst XS) ->
  is_derive (fun t => pop_verr ROps i (Xt XS VS t) (Xt XB VB t) (Vt VS AS t) (Vt VB AB t) XSP s) 0 (pop_aerr ROps i XS XB VS VB AS AB XSP s).
Proof. exact (@pop_aerr_is_jet i XS XB VS VB AS AB XSP s). Qed.
Print Assumptions C07_pop_aerr_is_jet.

Theorem C07_pop_force_is_transpose i XS XB VS VB XSP s lam : orth (fst XS) ->
  lam * pop_verr ROps i XS XB VS VB XSP s =
  sv_dot ROps (fst (pop_force ROps i XS XB XSP s lam)) VS + sv_dot ROps (snd (pop_force ROps i XS XB XSP s lam)) VB.
Proof. exact (@pop_force_is_transpose i XS XB VS VB XSP s lam). Qed.
Print Assumptions C07_pop_force_is_transpose.

Theorem C07_pop_force_balanced i XS XB XSP s lam : orth (fst XS) -> balanced2 XS XB (pop_force ROps i XS XB XSP s lam).
Proof. exact (@pop_force_balanced i XS XB XSP s lam). Qed.
Print Assumptions C07_pop_force_balanced.

Theorem C07_sos_verr_is_jet XF XB VF VB sF sB rf rb : 0 < v3_normSqr ROps (rod_d ROps XF XB sF sB) ->
  is_derive (fun t => sos_perr ROps (Xt XF VF t) (Xt XB VB t) sF sB rf rb) 0 (rod_verr_reg XF XB VF VB sF sB).
Proof. exact (@sos_verr_is_jet XF XB VF VB sF sB rf rb). Qed.
Print Assumptions C07_sos_verr_is_jet.

Theorem C07_sos_regular_branch tiny XF XB VF VB AF AB sF sB : rod_singular ROps tiny XF XB sF sB = false ->
  sos_verr ROps tiny XF XB VF VB sF sB = rod_verr_reg XF XB VF VB sF sB /\
  sos_aerr ROps tiny XF XB VF VB AF AB sF sB = rod_aerr_reg XF XB VF VB AF AB sF sB.
Proof. exact (@sos_regular_branch tiny XF XB VF VB AF AB sF sB). Qed.
Print Assumptions C07_sos_regular_branch.

Theorem C07_sos_force_is_transpose tiny XF XB VF VB sF sB lam :
  lam * sos_verr ROps tiny XF XB VF VB sF sB =
  sv_dot ROps (fst (sos_force ROps tiny XF XB sF sB lam)) VF + sv_dot ROps (snd (sos_force ROps tiny XF XB sF sB lam)) VB.
Proof. exact (@sos_force_is_transpose tiny XF XB VF VB sF sB lam). Qed.
Print Assumptions C07_sos_force_is_transpose.

Theorem C07_sos_force_balanced tiny XF XB sF sB lam : rod_singular ROps tiny XF XB sF sB = false -> balanced2 XF XB (sos_force ROps tiny XF XB sF sB lam).
Proof. exact (@sos_force_balanced tiny XF XB sF sB lam). Qed.
Print Assumptions C07_sos_force_balanced.

Theorem C07_sosr_force_is_transpose XF XB VF VB sF sB rf rb Cx Cy lam :
  fst lam * fst (sosr_verr ROps XF XB VF VB sF sB rf rb Cx Cy) + snd lam * snd (sosr_verr ROps XF XB VF VB sF sB rf rb Cx Cy) =
  sv_dot ROps (fst (sosr_force ROps XF XB sF sB rf rb Cx Cy lam)) VF + sv_dot ROps (snd (sosr_force ROps XF XB sF sB rf rb Cx Cy lam)) VB.
Proof. exact (@sosr_force_is_transpose XF XB VF VB sF sB rf rb Cx Cy lam). Qed.
Print Assumptions C07_sosr_force_is_transpose.

Theorem C07_sosr_force_balanced XF XB sF sB rf rb Cx Cy lam : balanced2 XF XB (sosr_force ROps XF XB sF sB rf rb Cx Cy lam).
Proof. exact (@sosr_force_balanced XF XB sF sB rf rb Cx Cy lam). Qed.
Print Assumptions C07_sosr_force_balanced.

Theorem C07_sop_G_adjoint {X} (nd:NodeData X) (bid:X->nat) (XGA XG1 XG2:Transform R) (kA k1 k2:nat) (u:X->list R) (t:tree X) (XFP:Transform R) (pO:Vec3 R) (r lam:R) :
  rot (fst XGA) ->
  lam * sop_verr ROps (relX ROps XGA XG1) (relX ROps XGA XG2) (VAof nd bid XGA kA XG1 k1 u t) (VAof nd bid XGA kA XG2 k2 u t) XFP pO
  = GtL nd bid XGA k1 k2 u t (sop_force ROps (relX ROps XGA XG1) (relX ROps XGA XG2) XFP pO r lam).
Proof. exact (@sop_G_adjoint X nd bid XGA XG1 XG2 kA k1 k2 u t XFP pO r lam). Qed.
Print Assumptions C07_sop_G_adjoint.

Theorem C07_sopr_G_adjoint {X} (nd:NodeData X) (bid:X->nat) (XGA XG1 XG2:Transform R) (kA k1 k2:nat) (u:X->list R) (t:tree X) (XFP:Transform R) (pO:Vec3 R) (r:R) (lam:R*R) :
  rot (fst XGA) ->
  fst lam * fst (sopr_verr ROps (relX ROps XGA XG1) (relX ROps XGA XG2) (VAof nd bid XGA kA XG1 k1 u t) (VAof nd bid XGA kA XG2 k2 u t) XFP pO r) + snd lam * snd (sopr_verr ROps (relX ROps XGA XG1) (relX ROps XGA XG2) (VAof nd bid XGA kA XG1 k1 u t) (VAof nd bid XGA kA XG2 k2 u t) XFP pO r)
  = GtL nd bid XGA k1 k2 u t (sopr_force ROps (relX ROps XGA XG1) (relX ROps XGA XG2) XFP pO r lam).
Proof. exact (@sopr_G_adjoint X nd bid XGA XG1 XG2 kA k1 k2 u t XFP pO r lam). Qed.
Print Assumptions C07_sopr_G_adjoint.

Theorem C07_pop_G_adjoint {X} (nd:NodeData X) (bid:X->nat) (XGA XG1 XG2:Transform R) (kA k1 k2:nat) (u:X->list R) (t:tree X) (i:nat) (XSP:Transform R) (s:Vec3 R) (lam:R) :
  rot (fst XGA) -> orth (fst (relX ROps XGA XG1)) ->
  lam * pop_verr ROps i (relX ROps XGA XG1) (relX ROps XGA XG2) (VAof nd bid XGA kA XG1 k1 u t) (VAof nd bid XGA kA XG2 k2 u t) XSP s
  = GtL nd bid XGA k1 k2 u t (pop_force ROps i (relX ROps XGA XG1) (relX ROps XGA XG2) XSP s lam).
Proof. exact (@pop_G_adjoint X nd bid XGA XG1 XG2 kA k1 k2 u t i XSP s lam). Qed.
Print Assumptions C07_pop_G_adjoint.

Theorem C07_sos_G_adjoint {X} (nd:NodeData X) (bid:X->nat) (XGA XG1 XG2:Transform R) (kA k1 k2:nat) (u:X->list R) (t:tree X) (tiny:R) (sF sB:Vec3 R) (lam:R) :
  rot (fst XGA) -> rod_singular ROps tiny (relX ROps XGA XG1) (relX ROps XGA XG2) sF sB = false ->
  lam * sos_verr ROps tiny (relX ROps XGA XG1) (relX ROps XGA XG2) (VAof nd bid XGA kA XG1 k1 u t) (VAof nd bid XGA kA XG2 k2 u t) sF sB
  = GtL nd bid XGA k1 k2 u t (sos_force ROps tiny (relX ROps XGA XG1) (relX ROps XGA XG2) sF sB lam).
Proof. exact (@sos_G_adjoint X nd bid XGA XG1 XG2 kA k1 k2 u t tiny sF sB lam). Qed.
Print Assumptions C07_sos_G_adjoint.

Theorem C07_sosr_G_adjoint {X} (nd:NodeData X) (bid:X->nat) (XGA XG1 XG2:Transform R) (kA k1 k2:nat) (u:X->list R) (t:tree X) (sF sB:Vec3 R) (rf rb:R) (Cx Cy:Vec3 R) (lam:R*R) :
  rot (fst XGA) ->
  fst lam * fst (sosr_verr ROps (relX ROps XGA XG1) (relX ROps XGA XG2) (VAof nd bid XGA kA XG1 k1 u t) (VAof nd bid XGA kA XG2 k2 u t) sF sB rf rb Cx Cy) + snd lam * snd (sosr_verr ROps (relX ROps XGA XG1) (relX ROps XGA XG2) (VAof nd bid XGA kA XG1 k1 u t) (VAof nd bid XGA kA XG2 k2 u t) sF sB rf rb Cx Cy)
  = GtL nd bid XGA k1 k2 u t (sosr_force ROps (relX ROps XGA XG1) (relX ROps XGA XG2) sF sB rf rb Cx Cy lam).
Proof. exact (@sosr_G_adjoint X nd bid XGA XG1 XG2 kA k1 k2 u t sF sB rf rb Cx Cy lam). Qed.
Print Assumptions C07_sosr_G_adjoint.
