(** C08 property theorems (PARTIAL claim: uniqueness + certificate; see manifest): statements only, each closed by [exact];
    proofs in C08/C08_Proofs.v.  n mobilities, m constraint equations; vectors nat -> R read below the dimension, matrices
    nat -> nat -> R; [mask] enables rows of G; dyn_eq: M udot + G^T (mask.lambda) = rhs; con_eq: (G udot)_k = b_k on enabled rows;
    posdef: the quadratic form of M is positive definite.  The executable certificate checker of C08/C08_Model.v evaluates
    exactly these residuals on the implementation's data in checks/C08.py. *)
From Coq Require Import Reals List.
Require Import Num C08_Model C08_Proofs.
Import ListNotations.
Local Open Scope R_scope.

Theorem C08_G_adjoint n m G mask l u : dotn n (Gtv m G mask l) u = dotm m (mk mask l) (Gv n G u).
Proof. exact (G_adjoint n m G mask l u). Qed.
Print Assumptions C08_G_adjoint.

Theorem C08_kkt_udot_unique n m M G mask rhs b u1 l1 u2 l2 : posdef n M ->
  dyn_eq n m M G mask rhs u1 l1 -> con_eq n m G mask b u1 -> dyn_eq n m M G mask rhs u2 l2 -> con_eq n m G mask b u2 ->
  (forall i, (i < n)%nat -> u1 i = u2 i) /\ (forall i, (i < n)%nat -> Gtv m G mask l1 i = Gtv m G mask l2 i).
Proof. exact (kkt_udot_unique n m M G mask rhs b u1 l1 u2 l2). Qed.
Print Assumptions C08_kkt_udot_unique.

Theorem C08_workless_power_zero n m G mask l u : (forall k, (k < m)%nat -> mask k = true -> Gv n G u k = 0) -> dotn n (Gtv m G mask l) u = 0.
Proof. exact (workless_power_zero n m G mask l u). Qed.
Print Assumptions C08_workless_power_zero.

Theorem C08_disabled_no_effect n m M G G' mask rhs b b' u l u' l' : posdef n M ->
  (forall k, (k < m)%nat -> mask k = true -> (forall j, (j < n)%nat -> G k j = G' k j) /\ b k = b' k) ->
  dyn_eq n m M G mask rhs u l -> con_eq n m G mask b u -> dyn_eq n m M G' mask rhs u' l' -> con_eq n m G' mask b' u' ->
  (forall i, (i < n)%nat -> u i = u' i) /\ (forall i, (i < n)%nat -> Gtv m G mask l i = Gtv m G' mask l' i).
Proof. exact (@disabled_no_effect n m M G G' mask rhs b b' u l u' l'). Qed.
Print Assumptions C08_disabled_no_effect.

Theorem C08_disabled_multipliers_irrelevant m G mask l l' i : (forall k, (k < m)%nat -> mask k = true -> l k = l' k) -> Gtv m G mask l i = Gtv m G mask l' i.
Proof. exact (@disabled_multipliers_irrelevant m G mask l l' i). Qed.
Print Assumptions C08_disabled_multipliers_irrelevant.

Theorem C08_kkt_lambda_unique_refuted : exists n m M G mask rhs b u l l',
  posdef n M /\ dyn_eq n m M G mask rhs u l /\ con_eq n m G mask b u /\ dyn_eq n m M G mask rhs u l' /\ (exists k, (k < m)%nat /\ l k <> l' k).
Proof. exact (@kkt_lambda_unique_refuted). Qed.
Print Assumptions C08_kkt_lambda_unique_refuted.

Theorem C08_kkt_example : posdef 2 (fun i j => if Nat.eqb i j then 2 else 1).
Proof. exact (@kkt_example). Qed.
Print Assumptions C08_kkt_example.

Theorem C08_ldot_sumn : forall a b n, length a = n -> length b = n -> ldot ROps a b = sumn n (fun i => fn a i * fn b i).
Proof. exact (@ldot_sumn). Qed.
Print Assumptions C08_ldot_sumn.

Theorem C08_nth_mat_vec A x n i : (i < length A)%nat -> length x = n -> (forall r, In r A -> length r = n) ->
  fn (mat_vec ROps A x) i = sumn n (fun j => fnM A i j * fn x j).
Proof. exact (@nth_mat_vec A x n i). Qed.
Print Assumptions C08_nth_mat_vec.
