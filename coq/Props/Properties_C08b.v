(** C08 property theorems, power of the constraint forces (Constraint::calcPower / calcConstraintPower): statements only, each
    closed by [exact]; proofs in C08/C08_Power.v (system level, vectors/matrices of C08_Proofs.v; [power sel l u] is the power of the
    rows selected by [sel]) and C08/C08_PowerBody.v (single two-body constraints, C07 kernels; [body_power F V1 V2] = -(<F1,V1>+<F2,V2>)). *)
From Coq Require Import Reals List Bool.
From Coquelicot Require Import Coquelicot.
Require Import Num Vec C07_Model C07_Contact C07_Proofs C08_Model C08_Proofs C08_Power C08_PowerBody.
Import ListNotations.
Local Open Scope R_scope.

Theorem C08_power_is_minus_lambda_Gu n m G sel l u : power n m G sel l u = - dotm m (mk sel l) (Gv n G u).
Proof. exact (power_is_minus_lambda_Gu n m G sel l u). Qed.
Print Assumptions C08_power_is_minus_lambda_Gu.

Theorem C08_power_splits n m G sel1 sel2 l u : (forall k, (k < m)%nat -> sel1 k && sel2 k = false) ->
  power n m G (fun k => sel1 k || sel2 k) l u = power n m G sel1 l u + power n m G sel2 l u.
Proof. exact (power_splits n m G sel1 sel2 l u). Qed.
Print Assumptions C08_power_splits.

Theorem C08_total_power_is_sum_of_constraint_powers n m G bs l u : disjoint_blocks m bs ->
  power n m G (unionsel bs) l u = sumpower n m G bs l u.
Proof. exact (total_power_is_sum_of_constraint_powers n m G bs l u). Qed.
Print Assumptions C08_total_power_is_sum_of_constraint_powers.

Theorem C08_block_power_zero_on_velocity_manifold n m G sel l u :
  (forall k, (k < m)%nat -> sel k = true -> Gv n G u k = 0) -> power n m G sel l u = 0.
Proof. exact (block_power_zero_on_velocity_manifold n m G sel l u). Qed.
Print Assumptions C08_block_power_zero_on_velocity_manifold.

Theorem C08_block_power_of_driven_row n m G k0 s l u : (k0 < m)%nat -> Gv n G u k0 = s ->
  power n m G (fun k => Nat.eqb k k0) l u = - (l k0 * s).
Proof. exact (block_power_of_driven_row n m G k0 s l u). Qed.
Print Assumptions C08_block_power_of_driven_row.

Theorem C08_ball_power_is_minus_lambda_verr X1 X2 V1 V2 s2 lam : orth (fst X1) ->
  body_power (ball_force ROps X1 X2 s2 lam) V1 V2 = - v3_dot ROps lam (ball_verr ROps X1 X2 V1 V2 s2).
Proof. exact (ball_power_is_minus_lambda_verr X1 X2 V1 V2 s2 lam). Qed.
Print Assumptions C08_ball_power_is_minus_lambda_verr.

Theorem C08_ball_power_zero_on_velocity_manifold X1 X2 V1 V2 s2 lam : orth (fst X1) -> ball_verr ROps X1 X2 V1 V2 s2 = O3 ->
  body_power (ball_force ROps X1 X2 s2 lam) V1 V2 = 0.
Proof. exact (ball_power_zero_on_velocity_manifold X1 X2 V1 V2 s2 lam). Qed.
Print Assumptions C08_ball_power_zero_on_velocity_manifold.

Theorem C08_rod_power_is_minus_lambda_verr tiny XF XB VF VB sF sB lam :
  body_power (rod_force ROps tiny XF XB sF sB lam) VF VB = - (lam * rod_verr ROps tiny XF XB VF VB sF sB).
Proof. exact (rod_power_is_minus_lambda_verr tiny XF XB VF VB sF sB lam). Qed.
Print Assumptions C08_rod_power_is_minus_lambda_verr.

Theorem C08_noslip_power_is_minus_lambda_verr XC X0 X1 V0 V1 P n lam : orth (fst X0) -> orth (fst X1) ->
  body_power (ns_force ROps XC X0 X1 P n lam) V0 V1 = - (lam * ns_verr ROps XC X0 X1 V0 V1 P n).
Proof. exact (noslip_power_is_minus_lambda_verr XC X0 X1 V0 V1 P n lam). Qed.
Print Assumptions C08_noslip_power_is_minus_lambda_verr.

Theorem C08_rolling_power_is_minus_lambda_verr XF XB VF VB XFP pO r lam :
  body_power (sopr_force ROps XF XB XFP pO r lam) VF VB =
  - (fst lam * fst (sopr_verr ROps XF XB VF VB XFP pO r) + snd lam * snd (sopr_verr ROps XF XB VF VB XFP pO r)).
Proof. exact (rolling_power_is_minus_lambda_verr XF XB VF VB XFP pO r lam). Qed.
Print Assumptions C08_rolling_power_is_minus_lambda_verr.

Theorem C08_disabled_after_is_last_request default requests : disabled_after default requests = last requests default.
Proof. exact (disabled_after_is_last_request default requests). Qed.
Print Assumptions C08_disabled_after_is_last_request.

Theorem C08_disabled_after_snoc default requests r : disabled_after default (requests ++ [r]) = r.
Proof. exact (disabled_after_snoc default requests r). Qed.
Print Assumptions C08_disabled_after_snoc.

Theorem C08_disable_then_enable_is_enabled default requests : disabled_after default (requests ++ [true; false]) = false.
Proof. exact (disable_then_enable_is_enabled default requests). Qed.
Print Assumptions C08_disable_then_enable_is_enabled.

Theorem C08_enable_then_disable_is_disabled default requests : disabled_after default (requests ++ [false; true]) = true.
Proof. exact (enable_then_disable_is_disabled default requests). Qed.
Print Assumptions C08_enable_then_disable_is_disabled.
