(** C09 property theorems: statements only, each closed by [exact]; proofs are in C09/C09_Proofs.v (control logic of
    projectQ / projectU, for every oracle and option setting) and C09/C09_WLS.v (algebra of the weighted least-squares
    step).  [nrm k] = norm the implementation finds after iteration k, [back k] = norm after a LocalOnly back-out at
    iteration k, [qchg]/[qn] = answer of normalizeQuaternions, [pAfter] = position-error norm after that normalisation:
    all universally quantified (oracles). *)
From Coq Require Import ZArith List Bool Arith Reals Lra Lia.
Require Import Num C09_Model C09_Proofs C09_WLS.
Import ListNotations.
Local Open Scope R_scope.

Theorem C09_projU_success_means_within_tol (o : Opts (T:=R)) (entry : R) (nrm back : nat -> R) :
  let r := projectU ROps o entry nrm back in
  0 <= o_acc o -> r_status r = Succeeded ->
  r_pnorm r <= o_acc o /\ r_normExit r = Some (r_pnorm r) /\ r_ret r = 0%nat /\ r_throws r = false.
Proof. exact (projU_success_means_within_tol o entry nrm back). Qed.
Print Assumptions C09_projU_success_means_within_tol.

Theorem C09_projU_no_change_if_satisfied_and_not_forced (o : Opts (T:=R)) (entry : R) (nrm back : nat -> R) :
  let r := projectU ROps o entry nrm back in
  entry <= o_acc o -> o_force o = false ->
  r_its r = 0%nat /\ r_anyChange r = false /\ r_where r = AtEntry /\ r_pnorm r = entry /\ r_reverted r = false /\
  (entry <= o_limit o -> r_status r = Succeeded /\ r_normExit r = Some entry).
Proof. exact (projU_no_change_if_satisfied_and_not_forced o entry nrm back). Qed.
Print Assumptions C09_projU_no_change_if_satisfied_and_not_forced.

Theorem C09_projU_failure_never_leaves_worse_state (o : Opts (T:=R)) (entry : R) (nrm back : nat -> R) :
  let r := projectU ROps o entry nrm back in
  r_status r <> Succeeded ->
  r_pnorm r <= entry /\ (r_where r = AtEntry -> r_pnorm r = entry) /\ (r_where r <> AtEntry -> r_pnorm r < entry) /\
  (r_reverted r = true -> r_where r = AtEntry) /\
  (* a failure whose state nevertheless meets the accuracy: only a forced projection of a good state that was reverted *)
  (r_limitExceeded r = false -> r_pnorm r <= o_acc o -> o_force o = true /\ r_reverted r = true).
Proof. exact (projU_failure_never_leaves_worse_state o entry nrm back). Qed.
Print Assumptions C09_projU_failure_never_leaves_worse_state.

Theorem C09_projU_iterations_bounded (o : Opts (T:=R)) (entry : R) (nrm back : nat -> R) :
  let r := projectU ROps o entry nrm back in
  (r_its r <= MaxIterationsU)%nat /\ (r_anyChange r = true <-> (1 <= r_its r)%nat) /\
  (r_its r = 0%nat -> r_where r = AtEntry /\ r_pnorm r = entry).
Proof. exact (projU_iterations_bounded o entry nrm back). Qed.
Print Assumptions C09_projU_iterations_bounded.

Theorem C09_projU_final_norm_is_of_final_state (o : Opts (T:=R)) (entry : R) (nrm back : nat -> R) :
  let r := projectU ROps o entry nrm back in
  match r_where r with
  | AtEntry => r_pnorm r = entry
  | AfterIter k => k = r_its r /\ r_pnorm r = nrm k /\ r_diverged r = false
  | BackedOut k => k = r_its r /\ r_pnorm r = back k /\ r_diverged r = true
  end.
Proof. exact (projU_final_norm_is_of_final_state o entry nrm back). Qed.
Print Assumptions C09_projU_final_norm_is_of_final_state.

Theorem C09_projU_loop_exit (o : Opts (T:=R)) (entry : R) (nrm back : nat -> R) :
  let r := projectU ROps o entry nrm back in
  (1 <= r_its r)%nat ->
  (forall k, (1 <= k < r_its r)%nat -> tryFor ROps o < nrm k) /\
  (r_diverged r = false -> nrm (r_its r) <= tryFor ROps o \/ r_its r = MaxIterationsU) /\
  (r_diverged r = true -> o_local o = true /\ (2 <= r_its r)%nat /\ nrm (r_its r - 1)%nat < nrm (r_its r)) /\
  (o_local o = true -> forall k, (2 <= k)%nat -> (k < r_its r)%nat \/ (k = r_its r /\ r_diverged r = false) -> nrm k <= nrm (k - 1)%nat).
Proof. exact (projU_loop_exit o entry nrm back). Qed.
Print Assumptions C09_projU_loop_exit.

Theorem C09_projU_status_consistent (o : Opts (T:=R)) (entry : R) (nrm back : nat -> R) :
  let r := projectU ROps o entry nrm back in
  (r_ret r = 0%nat <-> r_status r = Succeeded) /\ (r_ret r = 1%nat <-> r_status r <> Succeeded) /\
  (r_throws r = true -> r_status r <> Succeeded /\ o_dontThrow o = false /\ r_limitExceeded r = false) /\
  (r_status r = FailedToConverge <-> r_limitExceeded r = true \/ (r_diverged r = true /\ r_ret r = 1%nat)) /\
  (r_limitExceeded r = true <-> o_limit o < entry).
Proof. exact (projU_status_consistent o entry nrm back). Qed.
Print Assumptions C09_projU_status_consistent.

Theorem C09_projU_forced_iterates (o : Opts (T:=R)) (entry : R) (nrm back : nat -> R) :
  let r := projectU ROps o entry nrm back in
  o_force o = true -> entry <> 0 -> entry <= o_limit o -> (1 <= r_its r)%nat.
Proof. exact (projU_forced_iterates o entry nrm back). Qed.
Print Assumptions C09_projU_forced_iterates.

Theorem C09_projQ_success_means_within_tol (o : Opts (T:=R)) (hasQuats : bool) (pentry qentry : R) (nrm back : nat -> R) (qchg : bool) (qn : R) :
  let r := projectQ ROps o hasQuats pentry qentry nrm back qchg qn in
  0 <= o_acc o -> (hasQuats = false -> qentry = 0) -> r_status r = Succeeded ->
  r_pnorm r <= o_acc o /\ r_qnorm r <= o_acc o /\ (exists x, r_normExit r = Some x /\ x <= o_acc o) /\
  r_ret r = 0%nat /\ r_throws r = false.
Proof. exact (projQ_success_means_within_tol o hasQuats pentry qentry nrm back qchg qn). Qed.
Print Assumptions C09_projQ_success_means_within_tol.

Theorem C09_projQ_success_normExit (o : Opts (T:=R)) (hasQuats : bool) (pentry qentry : R) (nrm back : nat -> R) (qchg : bool) (qn : R) :
  let r := projectQ ROps o hasQuats pentry qentry nrm back qchg qn in
  r_status r = Succeeded ->
  r_normExit r = Some (if Nat.eqb (r_branch r) 3 then r_qnorm r else Rmax (r_pnorm r) (r_qnorm r)).
Proof. exact (projQ_success_normExit o hasQuats pentry qentry nrm back qchg qn). Qed.
Print Assumptions C09_projQ_success_normExit.

Theorem C09_projQ_no_change_if_satisfied_and_not_forced (o : Opts (T:=R)) (hasQuats : bool) (pentry qentry : R) (nrm back : nat -> R) (qchg : bool) (qn : R) :
  let r := projectQ ROps o hasQuats pentry qentry nrm back qchg qn in
  pentry <= o_acc o -> qentry <= o_acc o -> o_force o = false ->
  r_its r = 0%nat /\ r_anyChange r = false /\ r_where r = AtEntry /\ r_quatNormalized r = false /\
  stateChanged r qchg = false /\ r_pnorm r = pentry /\ r_qnorm r = qentry /\
  (pentry <= o_limit o -> qentry <= o_limit o -> r_status r = Succeeded /\ r_normExit r = Some (Rmax pentry qentry)).
Proof. exact (projQ_no_change_if_satisfied_and_not_forced o hasQuats pentry qentry nrm back qchg qn). Qed.
Print Assumptions C09_projQ_no_change_if_satisfied_and_not_forced.

Theorem C09_projQ_quaternion_only_branch (o : Opts (T:=R)) (hasQuats : bool) (pentry qentry : R) (nrm back : nat -> R) (qchg : bool) (qn : R) :
  let r := projectQ ROps o hasQuats pentry qentry nrm back qchg qn in
  pentry = 0 \/ (pentry <= o_acc o /\ o_force o = false) ->
  Rmax pentry qentry <= o_limit o -> o_acc o < qentry \/ o_force o = true ->
  r_its r = 0%nat /\ r_where r = AtEntry /\ r_quatNormalized r = true /\ r_anyChange r = qchg /\
  r_pnorm r = pentry /\ r_qnorm r = qn /\ r_normExit r = Some qn /\ (r_status r = Succeeded <-> qn <= o_acc o).
Proof. exact (projQ_quaternion_only_branch o hasQuats pentry qentry nrm back qchg qn). Qed.
Print Assumptions C09_projQ_quaternion_only_branch.

Theorem C09_projQ_failure_never_leaves_worse_state (o : Opts (T:=R)) (hasQuats : bool) (pentry qentry : R) (nrm back : nat -> R) (qchg : bool) (qn : R) :
  let r := projectQ ROps o hasQuats pentry qentry nrm back qchg qn in
  r_status r <> Succeeded ->
  (r_branch r <> 6%nat -> r_pnorm r <= pentry /\ (r_where r = AtEntry -> r_pnorm r = pentry) /\
                          (r_where r <> AtEntry -> r_pnorm r < pentry)) /\
  (r_branch r = 6%nat -> r_pnorm r <= o_acc o /\ o_acc o < r_qnorm r) /\
  r_pnorm r <= Rmax pentry (o_acc o) /\
  (r_reverted r = true -> r_where r = AtEntry /\ r_quatNormalized r = false).
Proof. exact (projQ_failure_never_leaves_worse_state o hasQuats pentry qentry nrm back qchg qn). Qed.
Print Assumptions C09_projQ_failure_never_leaves_worse_state.

Theorem C09_projQ_iterations_bounded (o : Opts (T:=R)) (hasQuats : bool) (pentry qentry : R) (nrm back : nat -> R) (qchg : bool) (qn : R) :
  let r := projectQ ROps o hasQuats pentry qentry nrm back qchg qn in
  (r_its r <= MaxIterationsQ)%nat /\ ((1 <= r_its r)%nat -> r_anyChange r = true) /\
  (r_its r = 0%nat -> r_where r = AtEntry /\ r_pnorm r = pentry /\ r_anyChange r = (r_quatNormalized r && qchg)).
Proof. exact (projQ_iterations_bounded o hasQuats pentry qentry nrm back qchg qn). Qed.
Print Assumptions C09_projQ_iterations_bounded.

Theorem C09_projQ_final_norm_is_of_final_state (o : Opts (T:=R)) (hasQuats : bool) (pentry qentry : R) (nrm back : nat -> R) (qchg : bool) (qn : R) :
  let r := projectQ ROps o hasQuats pentry qentry nrm back qchg qn in
  match r_where r with
  | AtEntry => r_pnorm r = pentry
  | AfterIter k => k = r_its r /\ r_pnorm r = nrm k /\ r_diverged r = false
  | BackedOut k => k = r_its r /\ r_pnorm r = back k /\ r_diverged r = true
  end /\ (r_quatNormalized r = true -> r_qnorm r = qn) /\ (r_quatNormalized r = false -> r_qnorm r = qentry).
Proof. exact (projQ_final_norm_is_of_final_state o hasQuats pentry qentry nrm back qchg qn). Qed.
Print Assumptions C09_projQ_final_norm_is_of_final_state.

Theorem C09_projQ_loop_exit (o : Opts (T:=R)) (hasQuats : bool) (pentry qentry : R) (nrm back : nat -> R) (qchg : bool) (qn : R) :
  let r := projectQ ROps o hasQuats pentry qentry nrm back qchg qn in
  (1 <= r_its r)%nat ->
  (forall k, (1 <= k < r_its r)%nat -> tryFor ROps o < nrm k) /\
  (r_diverged r = false -> nrm (r_its r) <= tryFor ROps o \/ r_its r = MaxIterationsQ) /\
  (r_diverged r = true -> o_local o = true /\ (2 <= r_its r)%nat /\ nrm (r_its r - 1)%nat < nrm (r_its r)) /\
  (o_local o = true -> forall k, (2 <= k)%nat -> (k < r_its r)%nat \/ (k = r_its r /\ r_diverged r = false) -> nrm k <= nrm (k - 1)%nat).
Proof. exact (projQ_loop_exit o hasQuats pentry qentry nrm back qchg qn). Qed.
Print Assumptions C09_projQ_loop_exit.

Theorem C09_projQ_status_consistent (o : Opts (T:=R)) (hasQuats : bool) (pentry qentry : R) (nrm back : nat -> R) (qchg : bool) (qn : R) :
  let r := projectQ ROps o hasQuats pentry qentry nrm back qchg qn in
  (r_ret r = 0%nat <-> r_status r = Succeeded) /\ (r_ret r = 1%nat <-> r_status r <> Succeeded) /\
  (r_throws r = true -> r_status r <> Succeeded /\ o_dontThrow o = false /\ r_limitExceeded r = false) /\
  (r_status r = FailedToConverge <-> r_limitExceeded r = true \/ (r_diverged r = true /\ r_branch r = 5%nat)) /\
  (r_limitExceeded r = true <-> o_limit o < Rmax pentry qentry).
Proof. exact (projQ_status_consistent o hasQuats pentry qentry nrm back qchg qn). Qed.
Print Assumptions C09_projQ_status_consistent.

Theorem C09_projQ_forced_iterates (o : Opts (T:=R)) (hasQuats : bool) (pentry qentry : R) (nrm back : nat -> R) (qchg : bool) (qn : R) :
  let r := projectQ ROps o hasQuats pentry qentry nrm back qchg qn in
  o_force o = true -> pentry <> 0 -> Rmax pentry qentry <= o_limit o -> (1 <= r_its r)%nat.
Proof. exact (projQ_forced_iterates o hasQuats pentry qentry nrm back qchg qn). Qed.
Print Assumptions C09_projQ_forced_iterates.

Theorem C09_projQ_success_state_within_tol_partial (o : @Opts R) hasQuats pentry qentry nrm back qchg qn pAfter :
  let r := projectQ ROps o hasQuats pentry qentry nrm back qchg qn in
  0 <= o_acc o -> (hasQuats = false -> qentry = 0) -> (r_quatNormalized r = true -> pAfter = r_pnorm r) ->
  r_status r = Succeeded -> true_pnorm r pAfter <= o_acc o /\ r_qnorm r <= o_acc o.
Proof. exact (projQ_success_state_within_tol_partial o hasQuats pentry qentry nrm back qchg qn pAfter). Qed.
Print Assumptions C09_projQ_success_state_within_tol_partial.

Theorem C09_projQ_success_state_within_tol_refuted :
  exists (o : Opts (T:=R)) hq p q nrm back qc qn pAfter,
    let r := projectQ ROps o hq p q nrm back qc qn in
    r_status r = Succeeded /\ r_normExit r = Some 0 /\ o_acc o < true_pnorm r pAfter.
Proof. exact (projQ_success_state_within_tol_refuted). Qed.
Print Assumptions C09_projQ_success_state_within_tol_refuted.

Theorem C09_projQ_normExit_is_max_refuted :
  exists (o : Opts (T:=R)) hq p q nrm back qc qn,
    let r := projectQ ROps o hq p q nrm back qc qn in
    r_status r = Succeeded /\ r_normExit r = Some 0 /\ r_pnorm r = 1/2 /\ 0 < 1/2.
Proof. exact (projQ_normExit_is_max_refuted). Qed.
Print Assumptions C09_projQ_normExit_is_max_refuted.



Theorem C09_wls_step_satisfies_row p w e : wls_den ROps p w <> 0 -> dot p (wls_step ROps p w e) = e.
Proof. exact (wls_step_satisfies_row p w e). Qed.
Print Assumptions C09_wls_step_satisfies_row.

Theorem C09_wls_step_norm p w e : length p = length w -> Forall (fun k => 0 < k) w -> wls_den ROps p w <> 0 ->
  wnorm2 w (wls_step ROps p w e) = e * e / wls_den ROps p w.
Proof. exact (wls_step_norm p w e). Qed.
Print Assumptions C09_wls_step_norm.

Theorem C09_wls_step_min_norm p w e d : length p = length w -> length d = length w -> Forall (fun k => 0 < k) w ->
  wls_den ROps p w <> 0 -> dot p d = e ->
  dot p (wls_step ROps p w e) = e /\ wnorm2 w (wls_step ROps p w e) <= wnorm2 w d.
Proof. exact (wls_step_min_norm p w e d). Qed.
Print Assumptions C09_wls_step_min_norm.

Theorem C09_wls_step_unique p w e d : length p = length w -> length d = length w -> Forall (fun k => 0 < k) w ->
  wls_den ROps p w <> 0 -> dot p d = e -> wnorm2 w d <= wnorm2 w (wls_step ROps p w e) -> d = wls_step ROps p w e.
Proof. exact (wls_step_unique p w e d). Qed.
Print Assumptions C09_wls_step_unique.

Theorem C09_wls_den_nonneg : forall p w, length p = length w -> Forall (fun k => 0 < k) w -> 0 <= wls_den ROps p w.
Proof. exact (@wls_den_nonneg). Qed.
Print Assumptions C09_wls_den_nonneg.

Theorem C09_wls_den_zero_row : forall p w, length p = length w -> Forall (fun k => 0 < k) w -> wls_den ROps p w = 0 ->
  Forall (fun x => x = 0) p.
Proof. exact (@wls_den_zero_row). Qed.
Print Assumptions C09_wls_den_zero_row.

Theorem C09_wls_step_row_scaling_irrelevant t p w e : t <> 0 -> wls_den ROps p w <> 0 ->
  wls_step ROps (map (Rmult t) p) w (t * e) = wls_step ROps p w e.
Proof. exact (wls_step_row_scaling_irrelevant t p w e). Qed.
Print Assumptions C09_wls_step_row_scaling_irrelevant.

Theorem C09_prescribed_q_untouched free p w e i : nth i free true = false -> nth i (wls_step_free ROps free p w e) 0 = 0.
Proof. exact (prescribed_q_untouched free p w e i). Qed.
Print Assumptions C09_prescribed_q_untouched.

Theorem C09_wls_step_free_min_norm free p w e d :
  length p = length free -> length w = length free -> Forall (fun k => 0 < k) w ->
  wls_den ROps (pack free p) (pack free w) <> 0 ->
  zero_at_known free d -> dot p d = e ->
  let s := wls_step_free ROps free p w e in
  zero_at_known free s /\ dot p s = e /\ wnorm2 w s <= wnorm2 w d.
Proof. exact (wls_step_free_min_norm free p w e d). Qed.
Print Assumptions C09_wls_step_free_min_norm.

Theorem C09_u_rel_scale_pos u w : 0 < w -> 0 < u_rel_scale ROps u w.
Proof. exact (u_rel_scale_pos u w). Qed.
Print Assumptions C09_u_rel_scale_pos.

Theorem C09_q_step_min_norm free p uw e d :
  length p = length free -> length uw = length free -> Forall (fun k => 0 < k) uw ->
  wls_den ROps (pack free p) (pack free (map (fun k => nmul ROps k k) uw)) <> 0 ->
  zero_at_known free d -> dot p d = e ->
  let s := q_step ROps free p uw e in
  zero_at_known free s /\ dot p s = e /\
  wnorm2 (map (fun k => nmul ROps k k) uw) s <= wnorm2 (map (fun k => nmul ROps k k) uw) d.
Proof. exact (q_step_min_norm free p uw e d). Qed.
Print Assumptions C09_q_step_min_norm.

Theorem C09_u_step_min_norm free p uw us e d :
  length p = length free -> length uw = length free -> length us = length free -> Forall (fun k => 0 < k) uw ->
  wls_den ROps (pack free p) (pack free (u_weights ROps us uw)) <> 0 ->
  zero_at_known free d -> dot p d = e ->
  let s := u_step ROps free p uw us e in
  zero_at_known free s /\ dot p s = e /\ wnorm2 (u_weights ROps us uw) s <= wnorm2 (u_weights ROps us uw) d.
Proof. exact (u_step_min_norm free p uw us e d). Qed.
Print Assumptions C09_u_step_min_norm.

Theorem C09_Atmul_adjoint n : forall A y z, Forall (fun row => length row = n) A -> length z = n -> length y = length A ->
  dot (Atmul ROps A y n) z = dot y (Amul ROps A z).
Proof. exact (Atmul_adjoint n). Qed.
Print Assumptions C09_Atmul_adjoint.

Theorem C09_wls_step_rows_min_norm_partial A w y d :
  Forall (fun row => length row = length w) A -> length y = length A -> length d = length w ->
  Forall (fun k => 0 < k) w ->
  Amul ROps A d = Amul ROps A (wls_step_rows ROps A w y) ->
  wnorm2 w (wls_step_rows ROps A w y) <= wnorm2 w d.
Proof. exact (wls_step_rows_min_norm_partial A w y d). Qed.
Print Assumptions C09_wls_step_rows_min_norm_partial.

