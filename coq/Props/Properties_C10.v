(** C10 Prescribed motion and locks are honoured exactly -- property theorems (statements only, each closed by [exact];
    proofs in C10/C10_Proofs.v, model C10/C10_Model.v, tied to the code by the correspondence run of checks/C10.py). *)
From Coq Require Import List ZArith Bool Reals.
From Coquelicot Require Import Coquelicot.
Import ListNotations.
Require Import Num Vec rot_gen C10_Model C10_Proofs C10_PrescModel C10_PrescProofs.
Open Scope R_scope.

Theorem C10_sinusoid_dot_is_derivative a w p t : is_derive (fun t => sin_val ROps a w p t) t (sin_dot ROps a w p t).
Proof. exact (sinusoid_dot_is_derivative a w p t). Qed.
Print Assumptions C10_sinusoid_dot_is_derivative.

Theorem C10_sinusoid_dotdot_is_derivative a w p t : is_derive (fun t => sin_dot ROps a w p t) t (sin_dotdot ROps a w p t).
Proof. exact (sinusoid_dotdot_is_derivative a w p t). Qed.
Print Assumptions C10_sinusoid_dotdot_is_derivative.

Theorem C10_motion_levels_consistent (m:motion (T:=R)) t :
  (forall qv, getq (motion_values ROps m t) = Some qv ->
     exists uv, getu (motion_values ROps m t) = Some uv /\
       is_derive (fun s => match getq (motion_values ROps m s) with Some x => x | None => 0 end) t uv) /\
  (forall uv, getu (motion_values ROps m t) = Some uv ->
     exists av, getud (motion_values ROps m t) = Some av /\
       is_derive (fun s => match getu (motion_values ROps m s) with Some x => x | None => 0 end) t av).
Proof. exact (motion_levels_consistent m t). Qed.
Print Assumptions C10_motion_levels_consistent.

Theorem C10_motion_prescribes_from_its_level (m:motion (T:=R)) t :
  match motion_level m with
  | Position => getq (motion_values ROps m t) <> None /\ getu (motion_values ROps m t) <> None /\ getud (motion_values ROps m t) <> None
  | Velocity => getq (motion_values ROps m t) = None /\ getu (motion_values ROps m t) <> None /\ getud (motion_values ROps m t) <> None
  | Acceleration => getq (motion_values ROps m t) = None /\ getu (motion_values ROps m t) = None /\ getud (motion_values ROps m t) <> None
  | NoLevel => motion_values ROps m t = (None, None, None)
  end.
Proof. exact (motion_prescribes_from_its_level m t). Qed.
Print Assumptions C10_motion_prescribes_from_its_level.

Theorem C10_motion_forces_instance :
  let V := (R * R)%type in
  let vadd (a b:V) := (fst a + fst b, snd a + snd b) in let vsub (a b:V) := (fst a - fst b, snd a - snd b) in
  let dot (a b:V) := fst a * fst b + snd a * snd b in
  let Mop (a:V) := (2 * fst a + snd a, fst a + 3 * snd a) in let Ep (tau:R) : V := (tau, 0) in
  forall udot tau f x, vadd (Mop udot) (Ep tau) = f -> Mop x = vsub f (Ep tau) -> x = udot.
Proof. exact (@motion_forces_instance). Qed.
Print Assumptions C10_motion_forces_instance.

Theorem C10_prescribed_values_exact {T} (O:NumOps T) (m:mob (T:=T)) t :
  let m' := step O m (Prescribe t) in
  q m' = match fst (fst (presc O m t)) with Some v => v | None => q m end /\
  u m' = match snd (fst (presc O m t)) with Some v => v | None => u m end /\
  presc O m' t = presc O m t /\ lk m' = lk m /\ lockedQ m' = lockedQ m /\ lockedU m' = lockedU m.
Proof. exact (prescribed_values_exact O m t). Qed.
Print Assumptions C10_prescribed_values_exact.

Theorem C10_prescribe_idempotent {T} (O:NumOps T) (m:mob (T:=T)) t : step O (step O m (Prescribe t)) (Prescribe t) = step O m (Prescribe t).
Proof. exact (prescribe_idempotent O m t). Qed.
Print Assumptions C10_prescribe_idempotent.

Theorem C10_lock_position_honoured {T} (O:NumOps T) m l t : forallb free_op l = true ->
  let m' := step O (run O (step O m (Lock Position)) l) (Prescribe t) in
  q m' = q m /\ u m' = n0 O /\ presc_udot O m' t = Some (n0 O) /\ lock_value m' = Some (q m).
Proof. exact (lock_position_honoured O m l t). Qed.
Print Assumptions C10_lock_position_honoured.

Theorem C10_lockAt_position_honoured {T} (O:NumOps T) m v l t : forallb free_op l = true ->
  let m' := step O (run O (step O m (LockAt Position v)) l) (Prescribe t) in
  q m' = v /\ u m' = n0 O /\ presc_udot O m' t = Some (n0 O) /\ lock_value m' = Some v.
Proof. exact (lockAt_position_honoured O m v l t). Qed.
Print Assumptions C10_lockAt_position_honoured.

Theorem C10_lock_velocity_honoured {T} (O:NumOps T) m l t : forallb free_op l = true ->
  let m' := step O (run O (step O m (Lock Velocity)) l) (Prescribe t) in
  u m' = u m /\ presc_udot O m' t = Some (n0 O) /\ lock_value m' = Some (u m).
Proof. exact (lock_velocity_honoured O m l t). Qed.
Print Assumptions C10_lock_velocity_honoured.

Theorem C10_lockAt_acceleration_honoured {T} (O:NumOps T) m v l t : forallb free_op l = true ->
  let m1 := run O (step O m (LockAt Acceleration v)) l in
  presc_udot O m1 t = Some v /\ fst (presc O m1 t) = (None, None) /\ lock_value m1 = Some v.
Proof. exact (lockAt_acceleration_honoured O m v l t). Qed.
Print Assumptions C10_lockAt_acceleration_honoured.

Theorem C10_lock_overrides_motion {T} (O:NumOps T) (m:mob (T:=T)) t : lk m <> NoLevel ->
  presc O m t = presc O (mkMob (lk m) (lockedQ m) (lockedU m) (q m) (u m) None false) t.
Proof. exact (lock_overrides_motion O m t). Qed.
Print Assumptions C10_lock_overrides_motion.

Theorem C10_unlock_restores_free {T} (O:NumOps T) (m:mob (T:=T)) t : (mot m = None \/ mot_on m = false) ->
  presc O (step O m Unlock) t = (None, None, None) /\ step O (step O m Unlock) (Prescribe t) = step O m Unlock /\
  q (step O m Unlock) = q m /\ u (step O m Unlock) = u m.
Proof. exact (unlock_restores_free O m t). Qed.
Print Assumptions C10_unlock_restores_free.

Theorem C10_unlock_restores_motion {T} (O:NumOps T) (m:mob (T:=T)) t : presc O (step O m Unlock) t =
  match mot m with Some mo => if mot_on m then motion_values O mo t else (None, None, None) | None => (None, None, None) end.
Proof. exact (unlock_restores_motion O m t). Qed.
Print Assumptions C10_unlock_restores_motion.

Theorem C10_disable_motion_restores_free {T} (O:NumOps T) (m:mob (T:=T)) t : lk m = NoLevel ->
  presc O (step O m (MotionEnable false)) t = (None, None, None).
Proof. exact (disable_motion_restores_free O m t). Qed.
Print Assumptions C10_disable_motion_restores_free.

Theorem C10_motion_forces_reproduce (V P:Type) (vadd vsub:V -> V -> V) (Mop:V -> V) (Ep:P -> V) :
  (forall a b, vsub (vadd a b) b = a) ->
  forall udot tau f, vadd (Mop udot) (Ep tau) = f -> Mop udot = vsub f (Ep tau).
Proof. intros H. exact (motion_forces_reproduce V P vadd vsub Mop Ep H). Qed.
Print Assumptions C10_motion_forces_reproduce.

Theorem C10_motion_forces_reproduce_unique (V P:Type) (vadd vsub:V -> V -> V) (vzero:V) (dot:V -> V -> R) (Mop:V -> V) (Ep:P -> V) :
  (forall a b, vsub (vadd a b) b = a) -> (forall a b, vsub a b = vzero -> a = b) -> (forall a b, vsub (Mop a) (Mop b) = Mop (vsub a b)) ->
  (forall a, vsub a a = vzero) -> (forall a, dot vzero a = 0) -> (forall a, a <> vzero -> dot (Mop a) a > 0) ->
  forall udot tau f x, vadd (Mop udot) (Ep tau) = f -> Mop x = vsub f (Ep tau) -> x = udot.
Proof. intros H1 H2 H3 H4 H5 H6. exact (motion_forces_reproduce_unique V P vadd vsub vzero dot Mop Ep H1 H2 H3 H4 H5 H6). Qed.
Print Assumptions C10_motion_forces_reproduce_unique.

(** position-level Motion on a mobilizer with qdot = N(q) u (Ball, Free, Ellipsoid in Euler-angle mode); the helpers are the
    translations of Rotation.h in Gen/rot_gen.v, their properties are those of C28 *)
Theorem C10_prescribed_qdot_exact c0 s0 c1 s1 : c1 <> 0 -> s0*s0 + c0*c0 = 1 -> forall qd : Vec3 R,
  rep_qdot3 ROps (c0,c1) (s0,s1) (1/c1) (presc_u3 ROps (c0,c1) (s0,s1) qd) = qd.
Proof. exact (prescribed_qdot_exact c0 s0 c1 s1). Qed.
Print Assumptions C10_prescribed_qdot_exact.

Theorem C10_prescribed_qdotdot_exact c0 s0 c1 s1 : c1 <> 0 -> s0*s0 + c0*c0 = 1 -> s1*s1 + c1*c1 = 1 -> forall qd qdd : Vec3 R,
  rep_qdotdot3 ROps (c0,c1) (s0,s1) (1/c1) (rep_qdot3 ROps (c0,c1) (s0,s1) (1/c1) (presc_u3 ROps (c0,c1) (s0,s1) qd))
               (presc_udot3 ROps true (c0,c1) (s0,s1) (1/c1) qd qdd) = qdd.
Proof. exact (prescribed_qdotdot_exact c0 s0 c1 s1). Qed.
Print Assumptions C10_prescribed_qdotdot_exact.

Theorem C10_prescribed_qdotdot_wrong_sign c0 s0 c1 s1 : c1 <> 0 -> s0*s0 + c0*c0 = 1 -> s1*s1 + c1*c1 = 1 -> forall qd qdd : Vec3 R,
  rep_qdotdot3 ROps (c0,c1) (s0,s1) (1/c1) (rep_qdot3 ROps (c0,c1) (s0,s1) (1/c1) (presc_u3 ROps (c0,c1) (s0,s1) qd))
               (presc_udot3 ROps false (c0,c1) (s0,s1) (1/c1) qd qdd)
  = v3_add ROps (v3_add ROps qdd (ndot_u3 ROps (c0,c1) (s0,s1) (1/c1) qd (presc_u3 ROps (c0,c1) (s0,s1) qd)))
                (ndot_u3 ROps (c0,c1) (s0,s1) (1/c1) qd (presc_u3 ROps (c0,c1) (s0,s1) qd)).
Proof. exact (prescribed_qdotdot_wrong_sign c0 s0 c1 s1). Qed.
Print Assumptions C10_prescribed_qdotdot_wrong_sign.

Theorem C10_prescribed_qdotdot_wrong_sign_refuted :
  exists qd qdd, rep_qdotdot3 ROps (1,1) (0,0) (1/1) (rep_qdot3 ROps (1,1) (0,0) (1/1) (presc_u3 ROps (1,1) (0,0) qd))
                              (presc_udot3 ROps false (1,1) (0,0) (1/1) qd qdd) <> qdd.
Proof. exact prescribed_qdotdot_wrong_sign_refuted. Qed.
Print Assumptions C10_prescribed_qdotdot_wrong_sign_refuted.

Theorem C10_sinusoid_on_ball_all_levels a w p t :
  let q := sin_val ROps a w p t in let qd := sin_dot ROps a w p t in let qdd := sin_dotdot ROps a w p t in
  cos q <> 0 ->
  let '(u, udot, qdot, qdotdot) := presc_all ROps true (q,q,q) (qd,qd,qd) (qdd,qdd,qdd) in
  qdot = (qd,qd,qd) /\ qdotdot = (qdd,qdd,qdd) /\
  is_derive (fun s => sin_val ROps a w p s) t qd /\ is_derive (fun s => sin_dot ROps a w p s) t qdd.
Proof. exact (sinusoid_on_ball_all_levels a w p t). Qed.
Print Assumptions C10_sinusoid_on_ball_all_levels.
