(** C10 property theorems, part 2: motion multipliers / motion forces / motion power, and lockByDefault (statements only, each
    closed by [exact]; proofs in C10/C10_MultProofs.v, models C10/C10_MultModel.v and C10/C10_Model.v). *)
From Coq Require Import List Arith Bool Reals.
Import ListNotations.
Require Import Num C10_Model C10_Proofs C10_MultModel C10_MultProofs.
Close Scope R_scope. Open Scope nat_scope.

Theorem C10_unpack_zero_elsewhere {T} (K:NumOps T) nu slots tau j : ~ In j slots -> nth j (unpack K nu slots tau) (n0 K) = n0 K.
Proof. exact (unpack_zero_elsewhere K nu slots tau j). Qed.
Print Assumptions C10_unpack_zero_elsewhere.

Theorem C10_unpack_length {T} (K:NumOps T) nu slots tau : length (unpack K nu slots tau) = nu.
Proof. exact (unpack_length K nu slots tau). Qed.
Print Assumptions C10_unpack_length.

Theorem C10_pack_unpack {T} (K:NumOps T) nu slots (tau:list T) : NoDup slots -> (forall s, In s slots -> s < nu) -> length tau = length slots ->
  pack K slots (unpack K nu slots tau) = tau.
Proof. exact (pack_unpack K nu slots tau). Qed.
Print Assumptions C10_pack_unpack.

Theorem C10_pack_unpack_pres_slots {T} (K:NumOps T) mobs (tau:list T) : length tau = length (pres_slots 0 mobs) ->
  pack K (pres_slots 0 mobs) (unpack K (total_nu mobs) (pres_slots 0 mobs) tau) = tau.
Proof. exact (pack_unpack_pres_slots K mobs tau). Qed.
Print Assumptions C10_pack_unpack_pres_slots.

Theorem C10_pres_slots_NoDup mobs first : NoDup (pres_slots first mobs).
Proof. exact (pres_slots_NoDup mobs first). Qed.
Print Assumptions C10_pres_slots_NoDup.

Theorem C10_motion_power_is_minus_sum slots tau u : length tau = length slots ->
  motion_power ROps slots tau u = (- sumR (map (fun st => snd st * nth (fst st) u 0) (combine slots tau)))%R.
Proof. exact (motion_power_is_minus_sum slots tau u). Qed.
Print Assumptions C10_motion_power_is_minus_sum.

Theorem C10_motion_power_is_minus_dot (nu:nat) slots tau u : NoDup slots -> (forall s, In s slots -> s < nu) -> length tau = length slots ->
  motion_power ROps slots tau u = (- dot ROps (unpack ROps nu slots tau) u)%R.
Proof. exact (motion_power_is_minus_dot nu slots tau u). Qed.
Print Assumptions C10_motion_power_is_minus_dot.

Theorem C10_motion_power_pres_slots mobs tau u : length tau = length (pres_slots 0 mobs) ->
  motion_power ROps (pres_slots 0 mobs) tau u = (- dot ROps (unpack ROps (total_nu mobs) (pres_slots 0 mobs) tau) u)%R.
Proof. exact (motion_power_pres_slots mobs tau u). Qed.
Print Assumptions C10_motion_power_pres_slots.

Theorem C10_locked_position_honoured {T} (O:NumOps T) (m:mob (T:=T)) l t : lk m = Position -> forallb free_op l = true ->
  let m' := step O (run O m l) (Prescribe t) in
  q m' = lockedQ m /\ u m' = n0 O /\ presc_udot O m' t = Some (n0 O) /\ lock_value m' = Some (lockedQ m).
Proof. exact (locked_position_honoured O m l t). Qed.
Print Assumptions C10_locked_position_honoured.

Theorem C10_default_lock_honoured {T} (O:NumOps T) dl q0 mo on l t : forallb free_op l = true ->
  let m' := step O (run O (mob_default O dl q0 mo on) l) (Prescribe t) in
  match dl with
  | Position => q m' = q0 /\ u m' = n0 O /\ presc_udot O m' t = Some (n0 O) /\ lock_value m' = Some q0
  | Velocity => u m' = n0 O /\ presc_udot O m' t = Some (n0 O) /\ lock_value m' = Some (n0 O)
  | Acceleration => presc_udot O m' t = Some (n0 O) /\ lock_value m' = Some (n0 O)
  | NoLevel => lock_value m' = None
  end.
Proof. exact (default_lock_honoured O dl q0 mo on l t). Qed.
Print Assumptions C10_default_lock_honoured.

Theorem C10_unlock_overrides_default {T} (O:NumOps T) dl q0 on t :
  presc O (step O (mob_default O dl q0 None on) Unlock) t = (None, None, None).
Proof. exact (unlock_overrides_default O dl q0 on t). Qed.
Print Assumptions C10_unlock_overrides_default.
