(** C11 property theorems (statements only, each closed by [exact]; proofs in C11/C11_Proofs.v): the continuous-time
    invariants behind "energy and momentum are conserved when physics says so".  The derivative statements are along
    first-order jets at t = 0 (DESIGN 2.2).  NOT here, and not decided by any theorem of this development: a bound on the
    energy or momentum drift of any numerical integrator (the property's first sentence). *)
From Coq Require Import List Reals Lra Lia.
From Coquelicot Require Import Coquelicot.
Require Import Num Vec Tactics C11_Model C13_Model C13_Proofs C12_Proofs C11_Proofs.
Import ListNotations.
Local Open Scope R_scope.

Theorem C11_free_body_energy_rate m (c v0 a F : Vec3 R) (Ib : SymMat33 R) (w0 wd tau : Vec3 R) :
  v3_scale ROps m a = F ->
  v3_add ROps (sym_mulv ROps Ib wd) (v3_cross ROps w0 (sym_mulv ROps Ib w0)) = tau ->
  is_derive (fun t => ke_body ROps (m, c, v3_add ROps v0 (v3_scale ROps t a), Ib, v3_add ROps w0 (v3_scale ROps t wd)))
            0 (v3_dot ROps F v0 + v3_dot ROps tau w0).
Proof. exact (free_body_energy_rate m c v0 a F Ib w0 wd tau). Qed.
Print Assumptions C11_free_body_energy_rate.

Theorem C11_free_body_energy_balance m (c v0 a Fc Fd : Vec3 R) (Ib : SymMat33 R) (w0 wd tc td : Vec3 R) (pe : R -> R) dpe :
  v3_scale ROps m a = v3_add ROps Fc Fd ->
  v3_add ROps (sym_mulv ROps Ib wd) (v3_cross ROps w0 (sym_mulv ROps Ib w0)) = v3_add ROps tc td ->
  is_derive pe 0 dpe -> v3_dot ROps Fc v0 + v3_dot ROps tc w0 = - dpe ->
  is_derive (fun t => ke_body ROps (m, c, v3_add ROps v0 (v3_scale ROps t a), Ib, v3_add ROps w0 (v3_scale ROps t wd)) + pe t)
            0 (v3_dot ROps Fd v0 + v3_dot ROps td w0).
Proof. exact (free_body_energy_balance m c v0 a Fc Fd Ib w0 wd tc td pe dpe). Qed.
Print Assumptions C11_free_body_energy_balance.

Theorem C11_free_body_dissipation_never_adds_energy m (c v0 a Fc Fd : Vec3 R) (Ib : SymMat33 R) (w0 wd tc td : Vec3 R) (pe : R -> R) dpe :
  v3_scale ROps m a = v3_add ROps Fc Fd ->
  v3_add ROps (sym_mulv ROps Ib wd) (v3_cross ROps w0 (sym_mulv ROps Ib w0)) = v3_add ROps tc td ->
  is_derive pe 0 dpe -> v3_dot ROps Fc v0 + v3_dot ROps tc w0 = - dpe ->
  v3_dot ROps Fd v0 + v3_dot ROps td w0 <= 0 ->
  exists dE, is_derive (fun t => ke_body ROps (m, c, v3_add ROps v0 (v3_scale ROps t a), Ib, v3_add ROps w0 (v3_scale ROps t wd)) + pe t) 0 dE /\ dE <= 0.
Proof. exact (free_body_dissipation_never_adds_energy m c v0 a Fc Fd Ib w0 wd tc td pe dpe). Qed.
Print Assumptions C11_free_body_dissipation_never_adds_energy.

Theorem C11_mom_body_is m c v Ic w : mom_body ROps (m, c, v, Ic, w) = mom_at (m, c, v, v3_zero ROps, sym_mulv ROps Ic w, v3_zero ROps) 0.
Proof. exact (mom_body_is m c v Ic w). Qed.
Print Assumptions C11_mom_body_is.

Theorem C11_body_momentum_rate m (c0 v0 a h0 hd f tauc : Vec3 R) :
  v3_scale ROps m a = f -> hd = tauc ->
  is_derive_sv (mom_at (m, c0, v0, a, h0, hd)) 0 (force_about_origin ROps c0 (tauc, f)).
Proof. exact (body_momentum_rate m c0 v0 a h0 hd f tauc). Qed.
Print Assumptions C11_body_momentum_rate.

Theorem C11_system_momentum_rate (bfs : BodyForces) : List.Forall newton_euler bfs ->
  is_derive_sv (mom_total (map fst bfs)) 0 (force_total bfs).
Proof. exact (system_momentum_rate bfs). Qed.
Print Assumptions C11_system_momentum_rate.

Theorem C11_internal_forces_conserve_momentum (bfs : BodyForces) : List.Forall newton_euler bfs ->
  force_total bfs = (v3_zero ROps, v3_zero ROps) ->
  is_derive_sv (mom_total (map fst bfs)) 0 (v3_zero ROps, v3_zero ROps).
Proof. exact (internal_forces_conserve_momentum bfs). Qed.
Print Assumptions C11_internal_forces_conserve_momentum.

Theorem C11_two_point_pair_is_internal (c1 c2 r1 r2 : Vec3 R) (f : Vec3 R) :
  (* force f at point c1 + r1 on body 1, -f at c2 + r2 on body 2, line of action through both points *)
  v3_cross ROps (v3_sub ROps (v3_add ROps c1 r1) (v3_add ROps c2 r2)) f = v3_zero ROps ->
  sv_add ROps (force_about_origin ROps c1 (v3_cross ROps r1 f, f))
              (force_about_origin ROps c2 (v3_cross ROps r2 (v3_neg ROps f), v3_neg ROps f)) = (v3_zero ROps, v3_zero ROps).
Proof. exact (two_point_pair_is_internal c1 c2 r1 r2 f). Qed.
Print Assumptions C11_two_point_pair_is_internal.

Theorem C11_bil_sym n M u v : (forall i j, M i j = M j i) -> bil ROps n M u v = bil ROps n M v u.
Proof. exact (bil_sym n M u v). Qed.
Print Assumptions C11_bil_sym.

Theorem C11_quadratic_energy_rate n M u ud : (forall i j, M i j = M j i) ->
  is_derive (fun t => / 2 * bil ROps n M (fun i => u i + t * ud i) (fun i => u i + t * ud i)) 0 (bil ROps n M u ud).
Proof. exact (quadratic_energy_rate n M u ud). Qed.
Print Assumptions C11_quadratic_energy_rate.

Theorem C11_dissipation_never_adds_energy tp md gd :
  List.Forall (fun d : TPD => let '(cc, _, _, _, _, _, _) := d in 0 <= cc) tp ->
  List.Forall (fun d : R * R => 0 <= fst d) md -> List.Forall (fun d : R * list R => 0 <= fst d) gd ->
  total_power tp md gd <= 0.
Proof. exact (dissipation_never_adds_energy tp md gd). Qed.
Print Assumptions C11_dissipation_never_adds_energy.

Theorem C11_free_body_example :
  is_derive (fun t => ke_body ROps (2, (0,0,0), v3_add ROps (1,0,0) (v3_scale ROps t (0,3,0)), ((1,2,3),(0,0,0)), v3_add ROps (0,0,1) (v3_scale ROps t (0,0,2)))) 0
            (v3_dot ROps (0,6,0) (1,0,0) + v3_dot ROps (0,0,6) (0,0,1)).
Proof. exact (@free_body_example). Qed.
Print Assumptions C11_free_body_example.

Theorem C11_two_body_internal_example :
  let b1 : MBody := (2, (1,0,0), (0,1,0), (3,0,0), (0,0,1), (0,0,0)) in
  let b2 : MBody := (3, (-1,0,0), (0,0,0), (-2,0,0), (0,0,0), (0,0,0)) in
  is_derive_sv (mom_total [b1; b2]) 0 (v3_zero ROps, v3_zero ROps).
Proof. exact (@two_body_internal_example). Qed.
Print Assumptions C11_two_body_internal_example.

