(** C12 property theorems (power delivered by a force element = - d/dt of its reported PE + a non-positive
    dissipation term that vanishes without damping): statements only, each closed by [exact]; proofs are in
    C12/C12_Proofs.v, the element model in C13/C13_Model.v (hand-written from Force.cpp / Force_Gravity.cpp and run
    against the compiled elements by checks/C12.py on every run).
    [pose_path X V t] = (R + t [w]x R, p + t v): first-order jet of a rigid motion through pose X with spatial velocity V.
    [*_refuted]: elements that report PE = 0 and are energy sources (known finding, DESIGN 7.17). *)
From Coq Require Import ZArith Reals List.
From Coquelicot Require Import Coquelicot.
Require Import Num Vec C13_Model C13_Proofs C12_Proofs.
Import ListNotations.
Local Open Scope R_scope.

Theorem C12_spring_power_balance k x0 (X1 X2:Transform R) V1 V2 st1 st2 :
  0 < v3_normSqr ROps (tp_r ROps X1 st1 X2 st2) ->
  let P := spring_F ROps k x0 X1 st1 X2 st2 in
  is_derive (fun t => spring_PE ROps k x0 (pose_path X1 V1 t) st1 (pose_path X2 V2 t) st2) 0
            (- (sv_dot ROps (fst P) V1 + sv_dot ROps (snd P) V2)).
Proof. exact (spring_power_balance k x0 X1 X2 V1 V2 st1 st2). Qed.
Print Assumptions C12_spring_power_balance.

Theorem C12_damper_power cc (X1 X2:Transform R) V1 V2 st1 st2 :
  let P := damper_F ROps cc X1 V1 st1 X2 V2 st2 in
  let s := v3_dot ROps (vrel X1 V1 st1 X2 V2 st2) (v3_unit ROps (tp_r ROps X1 st1 X2 st2)) in
  sv_dot ROps (fst P) V1 + sv_dot ROps (snd P) V2 = - cc * (s * s).
Proof. exact (damper_power cc X1 X2 V1 V2 st1 st2). Qed.
Print Assumptions C12_damper_power.

Theorem C12_damper_dissipates cc (X1 X2:Transform R) V1 V2 st1 st2 : 0 <= cc ->
  let P := damper_F ROps cc X1 V1 st1 X2 V2 st2 in
  sv_dot ROps (fst P) V1 + sv_dot ROps (snd P) V2 <= 0.
Proof. exact (damper_dissipates cc X1 X2 V1 V2 st1 st2). Qed.
Print Assumptions C12_damper_dissipates.

Theorem C12_damper_no_damping (X1 X2:Transform R) V1 V2 st1 st2 :
  let P := damper_F ROps 0 X1 V1 st1 X2 V2 st2 in
  sv_dot ROps (fst P) V1 + sv_dot ROps (snd P) V2 = 0.
Proof. exact (damper_no_damping X1 X2 V1 V2 st1 st2). Qed.
Print Assumptions C12_damper_no_damping.

Theorem C12_tpconst_power f (X1 X2:Transform R) V1 V2 st1 st2 :
  let P := tpconst_F ROps f X1 st1 X2 st2 in
  sv_dot ROps (fst P) V1 + sv_dot ROps (snd P) V2 = v3_dot ROps (tpconst_f ROps f X1 st1 X2 st2) (vrel X1 V1 st1 X2 V2 st2).
Proof. exact (tpconst_power f X1 X2 V1 V2 st1 st2). Qed.
Print Assumptions C12_tpconst_power.

Theorem C12_tpconst_dissipation_sign_refuted : exists f X1 V1 st1 X2 V2 st2,
  let P := tpconst_F ROps f X1 st1 X2 st2 in
  snd (ev_tpconst ROps [X1;X2] 0 0 1 st1 st2 f) = 0 /\
  (forall t, snd (ev_tpconst ROps [pose_path X1 V1 t; pose_path X2 V2 t] 0 0 1 st1 st2 f) = 0) /\
  0 < sv_dot ROps (fst P) V1 + sv_dot ROps (snd P) V2.
Proof. exact (@tpconst_dissipation_sign_refuted). Qed.
Print Assumptions C12_tpconst_dissipation_sign_refuted.

Theorem C12_constforce_power (X:Transform R) V st f :
  sv_dot ROps (constforce_F ROps X st f) V = v3_dot ROps f (st_vel ROps X V st).
Proof. exact (constforce_power X V st f). Qed.
Print Assumptions C12_constforce_power.

Theorem C12_constforce_dissipation_sign_refuted : exists X V st f,
  (forall t, snd (ev_constforce ROps [pose_path X V t] 0 0 st f) = 0) /\ 0 < sv_dot ROps (constforce_F ROps X st f) V.
Proof. exact (@constforce_dissipation_sign_refuted). Qed.
Print Assumptions C12_constforce_dissipation_sign_refuted.

Theorem C12_consttorque_dissipation_sign_refuted : exists (X:Transform R) V tq,
  (forall t, snd (ev_consttorque ROps [pose_path X V t] 0 0 tq) = 0) /\ 0 < sv_dot ROps (consttorque_F ROps tq) V.
Proof. exact (@consttorque_dissipation_sign_refuted). Qed.
Print Assumptions C12_consttorque_dissipation_sign_refuted.

Theorem C12_mconst_dissipation_sign_refuted : exists f u : R,
  snd (ev_mconst ROps 1 1 0 f) = 0 /\ 0 < f * u.
Proof. exact (@mconst_dissipation_sign_refuted). Qed.
Print Assumptions C12_mconst_dissipation_sign_refuted.

Theorem C12_mspring_power_balance k q0 q u :
  is_derive (fun t => mspring_PE ROps k q0 (q + t*u)) 0 (- (mspring_f ROps k q0 q * u)).
Proof. exact (mspring_power_balance k q0 q u). Qed.
Print Assumptions C12_mspring_power_balance.

Theorem C12_mspring_force_is_minus_gradient k q0 q :
  is_derive (fun x => mspring_PE ROps k q0 x) q (- mspring_f ROps k q0 q).
Proof. exact (mspring_force_is_minus_gradient k q0 q). Qed.
Print Assumptions C12_mspring_force_is_minus_gradient.

Theorem C12_mdamper_dissipates c u : 0 <= c -> mdamper_f ROps c u * u <= 0.
Proof. exact (mdamper_dissipates c u). Qed.
Print Assumptions C12_mdamper_dissipates.

Theorem C12_mdamper_no_damping u : mdamper_f ROps 0 u * u = 0.
Proof. exact (mdamper_no_damping u). Qed.
Print Assumptions C12_mdamper_no_damping.

Theorem C12_globaldamper_power c us : dot_s ROps (globaldamper_f ROps c us) us = - c * dot_s ROps us us.
Proof. exact (globaldamper_power c us). Qed.
Print Assumptions C12_globaldamper_power.

Theorem C12_globaldamper_dissipates c us : 0 <= c -> dot_s ROps (globaldamper_f ROps c us) us <= 0.
Proof. exact (globaldamper_dissipates c us). Qed.
Print Assumptions C12_globaldamper_dissipates.

Theorem C12_gravity_power_balance gvec zoff V0 (bsV:list (gbody (T:=R) * SpatialVec R)) :
  is_derive (fun t => grav_PE ROps gvec zoff (map (gpath t) bsV)) 0
            (- power ROps (grav_F ROps gvec (map fst bsV)) (V0 :: map snd bsV)).
Proof. exact (gravity_power_balance gvec zoff V0 bsV). Qed.
Print Assumptions C12_gravity_power_balance.

Theorem C12_uniformgravity_power_balance nu g zeroHeight V0 (bsV:list (gbody (T:=R) * SpatialVec R)) :
  is_derive (fun t => snd (ev_uniformgravity ROps nu g zeroHeight (map (gpath t) bsV))) 0
            (- power ROps (fst (fst (ev_uniformgravity ROps nu g zeroHeight (map fst bsV)))) (V0 :: map snd bsV)).
Proof. exact (uniformgravity_power_balance nu g zeroHeight V0 bsV). Qed.
Print Assumptions C12_uniformgravity_power_balance.

Theorem C12_gravity_element_power_balance nu d g z V0 (bsV:list (gbody (T:=R) * SpatialVec R)) :
  is_derive (fun t => snd (ev_gravity ROps nu d g z (map (gpath t) bsV))) 0
            (- power ROps (fst (fst (ev_gravity ROps nu d g z (map fst bsV)))) (V0 :: map snd bsV)).
Proof. exact (gravity_element_power_balance nu d g z V0 bsV). Qed.
Print Assumptions C12_gravity_element_power_balance.

Theorem C12_mstop_dPE_is_derivative k qlo qhi q u : 0 <= k -> qlo <= qhi -> q <> qlo -> q <> qhi ->
  is_derive (fun t => mstop_PE ROps k qlo qhi (q + t*u)) 0 (mstop_dPE k qlo qhi q u).
Proof. exact (mstop_dPE_is_derivative k qlo qhi q u). Qed.
Print Assumptions C12_mstop_dPE_is_derivative.

Theorem C12_mstop_diss_nonpos k d qlo qhi q u : 0 <= k -> 0 <= d -> qlo <= qhi -> mstop_diss k d qlo qhi q u <= 0.
Proof. exact (mstop_diss_nonpos k d qlo qhi q u). Qed.
Print Assumptions C12_mstop_diss_nonpos.

Theorem C12_mstop_diss_zero_without_damping k qlo qhi q u : 0 <= k -> qlo <= qhi -> mstop_diss k 0 qlo qhi q u = 0.
Proof. exact (mstop_diss_zero_without_damping k qlo qhi q u). Qed.
Print Assumptions C12_mstop_diss_zero_without_damping.

Theorem C12_mstop_power_balance_partial k d qlo qhi q u : 0 <= k -> 0 <= d -> qlo <= qhi -> q <> qlo -> q <> qhi ->
  is_derive (fun t => mstop_PE ROps k qlo qhi (q + t*u)) 0 (- (mstop_f ROps k d qlo qhi q u * u) + mstop_diss k d qlo qhi q u)
  /\ mstop_diss k d qlo qhi q u <= 0 /\ (d = 0 -> mstop_diss k d qlo qhi q u = 0).
Proof. exact (mstop_power_balance_partial k d qlo qhi q u). Qed.
Print Assumptions C12_mstop_power_balance_partial.

Theorem C12_bushing_power_is_generalized_power_partial (X1 X2:Transform R) V1 V2 XB1F XB2M qr (f:C13_Model.Vec6) :
  is_rot (fst X1) -> is_rot (fst XB1F) ->
  let P := bush_F_of_f ROps X1 X2 XB1F XB2M qr f in
  let qd := bush_qdot ROps X1 X2 V1 V2 XB1F XB2M qr in
  sv_dot ROps (fst P) V1 + sv_dot ROps (snd P) V2 = v3_dot ROps (fst f) (fst qd) + v3_dot ROps (snd f) (snd qd).
Proof. exact (bushing_power_is_generalized_power_partial X1 X2 V1 V2 XB1F XB2M qr f). Qed.
Print Assumptions C12_bushing_power_is_generalized_power_partial.

Theorem C12_bushing_power_balance_partial (X1 X2:Transform R) V1 V2 XB1F XB2M (k c:C13_Model.Vec6) qr :
  is_rot (fst X1) -> is_rot (fst XB1F) ->
  let q := bush_q ROps X1 X2 XB1F XB2M qr in
  let qd := bush_qdot ROps X1 X2 V1 V2 XB1F XB2M qr in
  let P := fst (bush_core ROps X1 X2 V1 V2 XB1F XB2M k c qr) in
  let diss := - (v3_dot ROps (v3_mul ROps (fst c) (fst qd)) (fst qd) + v3_dot ROps (v3_mul ROps (snd c) (snd qd)) (snd qd)) in
  sv_dot ROps (fst P) V1 + sv_dot ROps (snd P) V2 =
    - (v3_dot ROps (v3_mul ROps (fst k) (fst q)) (fst qd) + v3_dot ROps (v3_mul ROps (snd k) (snd q)) (snd qd)) + diss
  /\ ((0 <= v3_0 (fst c) /\ 0 <= v3_1 (fst c) /\ 0 <= v3_2 (fst c) /\ 0 <= v3_0 (snd c) /\ 0 <= v3_1 (snd c) /\ 0 <= v3_2 (snd c)) -> diss <= 0)
  /\ (c = ((0,0,0),(0,0,0)) -> diss = 0).
Proof. exact (bushing_power_balance_partial X1 X2 V1 V2 XB1F XB2M k c qr). Qed.
Print Assumptions C12_bushing_power_balance_partial.

Theorem C12_spring_hyp_satisfiable : 0 < v3_normSqr ROps (tp_r ROps (Xat O3) O3 (Xat (3,4,0)) O3).
Proof. exact (@spring_hyp_satisfiable). Qed.
Print Assumptions C12_spring_hyp_satisfiable.

Theorem C12_mstop_hyp_satisfiable : 0 <= 50 /\ 0 <= 1/2 /\ -1 <= 1 /\ 2 <> -1 /\ 2 <> 1 /\ mstop_dPE 50 (-1) 1 2 3 = 150.
Proof. exact (@mstop_hyp_satisfiable). Qed.
Print Assumptions C12_mstop_hyp_satisfiable.

