(** C13 property theorems (Newton's third law for interaction force elements): statements only, each closed
    by [exact]; proofs are in C13/C13_Proofs.v, the element model in C13/C13_Model.v (hand-written from
    Force.cpp / Force_LinearBushing.cpp and run against the compiled elements by checks/C13.py on every run).
    [net c ps Fs] = total (moment about c, force) of the body forces Fs applied at body origins ps; [Z6] = zero. *)
From Coq Require Import ZArith Reals List.
Require Import Num Vec C13_Model C13_Proofs.
Import ListNotations.
Local Open Scope R_scope.

Theorem C13_spring_pair_balanced k x0 (X1 X2:Transform R) st1 st2 c :
  let P := spring_F ROps k x0 X1 st1 X2 st2 in
  sv_add ROps (shift_to ROps c (snd X1) (fst P)) (shift_to ROps c (snd X2) (snd P)) = Z6.
Proof. exact (spring_pair_balanced k x0 X1 X2 st1 st2 c). Qed.
Print Assumptions C13_spring_pair_balanced.

Theorem C13_damper_pair_balanced cc (X1 X2:Transform R) V1 V2 st1 st2 c :
  let P := damper_F ROps cc X1 V1 st1 X2 V2 st2 in
  sv_add ROps (shift_to ROps c (snd X1) (fst P)) (shift_to ROps c (snd X2) (snd P)) = Z6.
Proof. exact (damper_pair_balanced cc X1 X2 V1 V2 st1 st2 c). Qed.
Print Assumptions C13_damper_pair_balanced.

Theorem C13_tpconst_pair_balanced f (X1 X2:Transform R) st1 st2 c :
  let P := tpconst_F ROps f X1 st1 X2 st2 in
  sv_add ROps (shift_to ROps c (snd X1) (fst P)) (shift_to ROps c (snd X2) (snd P)) = Z6.
Proof. exact (tpconst_pair_balanced f X1 X2 st1 st2 c). Qed.
Print Assumptions C13_tpconst_pair_balanced.

Theorem C13_spring_third_law (Xs:list (Transform R)) (nu b1 b2:nat) st1 st2 k x0 c :
  (b1 < length Xs)%nat -> (b2 < length Xs)%nat ->
  net ROps c (map snd Xs) (fst (fst (ev_spring ROps Xs nu b1 b2 st1 st2 k x0))) = Z6.
Proof. exact (spring_third_law Xs nu b1 b2 st1 st2 k x0 c). Qed.
Print Assumptions C13_spring_third_law.

Theorem C13_damper_third_law (Xs:list (Transform R)) Vs (nu b1 b2:nat) st1 st2 cc c :
  (b1 < length Xs)%nat -> (b2 < length Xs)%nat ->
  net ROps c (map snd Xs) (fst (fst (ev_damper ROps Xs Vs nu b1 b2 st1 st2 cc))) = Z6.
Proof. exact (damper_third_law Xs Vs nu b1 b2 st1 st2 cc c). Qed.
Print Assumptions C13_damper_third_law.

Theorem C13_tpconst_third_law (Xs:list (Transform R)) (nu b1 b2:nat) st1 st2 f c :
  (b1 < length Xs)%nat -> (b2 < length Xs)%nat ->
  net ROps c (map snd Xs) (fst (fst (ev_tpconst ROps Xs nu b1 b2 st1 st2 f))) = Z6.
Proof. exact (tpconst_third_law Xs nu b1 b2 st1 st2 f c). Qed.
Print Assumptions C13_tpconst_third_law.

Theorem C13_bush_core_balanced (X1 X2:Transform R) V1 V2 XB1F XB2M k cc qr c : is_rot (fst X1) -> is_rot (fst XB1F) ->
  let P := fst (bush_core ROps X1 X2 V1 V2 XB1F XB2M k cc qr) in
  sv_add ROps (shift_to ROps c (snd X1) (fst P)) (shift_to ROps c (snd X2) (snd P)) = Z6.
Proof. exact (bush_core_balanced X1 X2 V1 V2 XB1F XB2M k cc qr c). Qed.
Print Assumptions C13_bush_core_balanced.

Theorem C13_bushing_third_law (Xs:list (Transform R)) Vs (nu b1 b2:nat) XB1F XB2M k cc c :
  (b1 < length Xs)%nat -> (b2 < length Xs)%nat -> is_rot (fst (getX ROps Xs b1)) -> is_rot (fst XB1F) ->
  net ROps c (map snd Xs) (fst (fst (ev_bushing ROps Xs Vs nu b1 b2 XB1F XB2M k cc))) = Z6.
Proof. exact (bushing_third_law Xs Vs nu b1 b2 XB1F XB2M k cc c). Qed.
Print Assumptions C13_bushing_third_law.

Theorem C13_bushing_rotation_hypothesis_is_needed : exists (X1 X2 XB1F XB2M:Transform R) V1 V2 k cc qr c,
  ~ is_rot (fst X1) /\
  let P := fst (bush_core ROps X1 X2 V1 V2 XB1F XB2M k cc qr) in
  sv_add ROps (shift_to ROps c (snd X1) (fst P)) (shift_to ROps c (snd X2) (snd P)) <> Z6.
Proof. exact (@bushing_rotation_hypothesis_is_needed). Qed.
Print Assumptions C13_bushing_rotation_hypothesis_is_needed.

Theorem C13_two_point_example_nontrivial :
  let Xs := [xf_id ROps; (m33_id ROps, (3,4,0))] in
  (1 < length Xs)%nat /\ tp_r ROps (getX ROps Xs 0) (0,0,0) (getX ROps Xs 1) (0,0,0) = (3,4,0).
Proof. exact (@two_point_example_nontrivial). Qed.
Print Assumptions C13_two_point_example_nontrivial.

Theorem C13_is_rot_example : is_rot ((0,-1,0),(1,0,0),(0,0,1)).
Proof. exact (@is_rot_example). Qed.
Print Assumptions C13_is_rot_example.

