(** C14 property theorems (statements only; proofs in C14/C14_Proofs.v).  For EVERY tree of bodies and every
    per-body data (shift vector, spatial inertia, V, A, applied and constraint forces, frame offsets), over R. *)
From Coq Require Import List Reals.
Import ListNotations.
Require Import Num Vec Tree MB Spatial C15_Model C14_Model C14_Proofs.
Local Open Scope R_scope.

Theorem C14_sf_inverse l (F : SVR) : shiftForce ROps (v3_neg ROps l) (shiftForce ROps l F) = F.
Proof. exact (sf_inverse l F). Qed.
Print Assumptions C14_sf_inverse.

Theorem C14_sf_add l (F G : SVR) : shiftForce ROps l (sv_add ROps F G) = sv_add ROps (shiftForce ROps l F) (shiftForce ROps l G).
Proof. exact (sf_add l F G). Qed.
Print Assumptions C14_sf_add.

Theorem C14_sf_comp a b (F : SVR) : shiftForce ROps a (shiftForce ROps b F) = shiftForce ROps (v3_add ROps a b) F.
Proof. exact (sf_comp a b F). Qed.
Print Assumptions C14_sf_comp.

Theorem C14_newton_euler_balance (t : tree rbodyR) :
  Forall (fun s => let x := fst (root s) in
            inertialForce ROps x
            = sv_sub ROps (sv_add ROps (sv_sub ROps (r_Fapp x) (r_Fcons x)) (snd (root s))) (childSum r_l (kids s)))
         (subtrees (reactionsAtOrigin ROps t)).
Proof. exact (newton_euler_balance t). Qed.
Print Assumptions C14_newton_euler_balance.

Theorem C14_newton_euler_balance_with_parent_side_reactions (t : tree rbodyR) :
  Forall (fun s => let x := fst (root s) in
            inertialForce ROps x
            = sv_add ROps (sv_add ROps (sv_sub ROps (r_Fapp x) (r_Fcons x)) (snd (root s))) (childReactionsOnParent (kids s)))
         (subtrees (reactionsAtOrigin ROps t)).
Proof. exact (newton_euler_balance_with_parent_side_reactions t). Qed.
Print Assumptions C14_newton_euler_balance_with_parent_side_reactions.

Theorem C14_parent_reaction_is_negated_shift (x : rbodyR) FB :
  onParentAtOrigin ROps x FB = sv_neg ROps (shiftForce ROps (r_l x) FB).
Proof. exact (parent_reaction_is_negated_shift x FB). Qed.
Print Assumptions C14_parent_reaction_is_negated_shift.

Theorem C14_atM_roundtrip (x : rbodyR) FB : shiftForce ROps (r_pBM x) (atM ROps x FB) = FB.
Proof. exact (atM_roundtrip x FB). Qed.
Print Assumptions C14_atM_roundtrip.

Theorem C14_onParentAtF_roundtrip (x : rbodyR) FB : shiftForce ROps (r_pPF x) (onParentAtF ROps x FB) = onParentAtOrigin ROps x FB.
Proof. exact (onParentAtF_roundtrip x FB). Qed.
Print Assumptions C14_onParentAtF_roundtrip.

Theorem C14_reactions_equal_and_opposite (x : rbodyR) FB :
  sv_add ROps (shiftForce ROps (r_l x) (shiftForce ROps (r_pBM x) (atM ROps x FB)))
              (shiftForce ROps (r_pPF x) (onParentAtF ROps x FB)) = sv00.
Proof. exact (reactions_equal_and_opposite x FB). Qed.
Print Assumptions C14_reactions_equal_and_opposite.

Theorem C14_reaction_carries_subtree (t : tree rbodyR) :
  Forall (fun s => snd (root s)
                   = svsum (map (fun xo => shiftForce ROps (snd xo) (bodyTerm ROps (fst xo))) (offs r_l (0,0,0) (tmap fst s))))
         (subtrees (reactionsAtOrigin ROps t)).
Proof. exact (reaction_carries_subtree t). Qed.
Print Assumptions C14_reaction_carries_subtree.

Theorem C14_hanging_body :
  let z3 : Vec3 R := (0,0,0) in let z : SVR := (z3, z3) in
  let g := mkRb 0%nat 0%nat z3 (0, z3, (z3, z3)) z z z z z3 z3 in
  let b := mkRb 1%nat 0%nat (1,0,0) (2, z3, ((1,1,1), z3)) z z (z3, (0,0,-2)) z (0,1,0) (1,0,0) in
  map (fun xr => (r_idx (fst xr), snd xr)) (flatten (reactionsAtOrigin ROps (mkTree g [b])))
  = [(0%nat, ((0,-2,0) : Vec3 R, (0,0,2) : Vec3 R)); (1%nat, (z3, (0,0,2)))].
Proof. exact (@hanging_body). Qed.
Print Assumptions C14_hanging_body.

