(** C14 (second file): the route the implementation actually takes.  calcMobilizerReactionForces and the four find*
    accessors evaluate the reaction at a body's mobilizer as  P+ (~phi A_parent) + z+  from the articulated-body pass of
    forward dynamics; calcMobilizerReactionForcesUsingFreebodyMethod accumulates  Mk A + b - F_applied + sum phi F_child
    inward over the tree (the free-body recursion whose Newton-Euler balance is the subject of Properties_C14.v).
    Model: coq/C02/C02_Model.v (react_art, react_fb on top of the forward-dynamics model fd, which is tied to
    calcTreeAccelerations incl. its internal z+, P+, A by the C02 correspondence).  Theorem: the two routes give the same
    spatial force at EVERY body of EVERY tree, for all per-body data, whenever the elimination pivots of each body's
    D = ~H P H are non-zero and there is one mobility force per mobility.  Statements only; proofs in C02/C02_Proofs.v
    (route_sub, by induction over the tree) and C02/C02_GJ.v. *)
From Coq Require Import List Reals.
Import ListNotations.
Require Import Num Vec Tree MB MB_Proofs Spatial Spatial_Proofs C02_Model C02_Proofs C02_Concrete C02_GJ.
Local Open Scope R_scope.

Theorem C14_articulated_route_equals_free_body_route {X} (nd : X -> node (SpatialVec R) (Vec3 R) (SpInertia (T:=R)))
    (dy : X -> dyn R (SpatialVec R)) (t : tree X) :
  (forall y, In y (flatten (abi_pass KR AR nd t)) ->
     length (d_f (dy (fst y))) = length (n_H (nd (fst y))) /\ pivots_ok (a_D (snd y))) ->
  map (fun r => (fst (fst r), snd r)) (flatten (react_fb KR AR nd dy t))
  = map (fun r => (fst r, snd (snd r))) (flatten (react_art KR AR nd dy t)).
Proof. exact (reaction_routes_agree_pivots nd dy t). Qed.

(** the same under the abstract per-body hypothesis (any inverse routine that returns a symmetric inverse of D) *)
Theorem C14_articulated_route_equals_free_body_route_sym_inverse {X} (nd : X -> node (SpatialVec R) (Vec3 R) (SpInertia (T:=R)))
    (dy : X -> dyn R (SpatialVec R)) (t : tree X) :
  (forall y, In y (flatten (abi_pass KR AR nd t)) -> body_ok nd dy y) ->
  map (fun r => (fst (fst r), snd r)) (flatten (react_fb KR AR nd dy t))
  = map (fun r => (fst r, snd (snd r))) (flatten (react_art KR AR nd dy t)).
Proof. exact (reaction_routes_agree_R nd dy t). Qed.

(** the free-body route is, at every node, the Newton-Euler sum of the node's own term and its children's reactions
    shifted to the node's origin (definitional unfolding of the inward pass, stated for the record) *)
Theorem C14_free_body_route_node {X} (nd : X -> node (SpatialVec R) (Vec3 R) (SpInertia (T:=R))) (F : X * SpatialVec R -> SpatialVec R)
    (x : X * SpatialVec R) (cs : list (tree (X * SpatialVec R))) :
  accum KR (fun xv => nd (fst xv)) F (Node x cs)
  = Node (x, vadd KR (F x) (fold_right (fun r z => vadd KR (phi KR (n_l (nd (fst (fst r)))) (snd r)) z) (vzero KR)
                                        (map (fun c => root (accum KR (fun xv => nd (fst xv)) F c)) cs)))
         (map (accum KR (fun xv => nd (fst xv)) F) cs).
Proof. unfold accum. cbn [inward]. rewrite map_map. reflexivity. Qed.

(** non-vacuity: the concrete tree of Properties_C02 (Ground - pin body - welded body) meets the hypothesis *)
Theorem C14_routes_example :
  map (fun r => (fst (fst r), snd r)) (flatten (react_fb KR AR ex_nd ex_dy ex_t))
  = map (fun r => (fst r, snd (snd r))) (flatten (react_art KR AR ex_nd ex_dy ex_t)).
Proof. exact (reaction_routes_agree_R ex_nd ex_dy ex_t ex_ok). Qed.

Print Assumptions C14_articulated_route_equals_free_body_route.
Print Assumptions C14_articulated_route_equals_free_body_route_sym_inverse.
Print Assumptions C14_free_body_route_node.
Print Assumptions C14_routes_example.
