(** C15 property theorems (statements only; proofs in C15/C15_Proofs.v and C15/C15_CBI.v).
    Aggregates: for EVERY list of bodies (mass, origin, mass-centre vector, unit inertia, V_GB, A_GB in Ground).
    Composite inertias: for EVERY tree and per-node (shift vector, compact spatial inertia). *)
From Coq Require Import List Reals.
Import ListNotations.
Require Import Num Vec Tree MB Spatial C15_Model C15_Proofs C15_Frames C15_CBI.
Local Open Scope R_scope.

Theorem C15_mass_is_sum bs : calcSystemMass ROps bs = lsum (map g_m bs).
Proof. exact (mass_is_sum bs). Qed.
Print Assumptions C15_mass_is_sum.

Theorem C15_com_times_mass bs : calcSystemMass ROps bs <> 0 ->
  v3_scale ROps (calcSystemMass ROps bs) (calcSystemMassCenterLocationInGround ROps bs) = firstMoment bs.
Proof. exact (com_times_mass bs). Qed.
Print Assumptions C15_com_times_mass.

Theorem C15_momentum_is_mass_times_vcom bs : calcSystemMass ROps bs <> 0 ->
  snd (calcSystemMomentumAboutGroundOrigin ROps bs)
  = v3_scale ROps (calcSystemMass ROps bs) (calcSystemMassCenterVelocityInGround ROps bs).
Proof. exact (momentum_is_mass_times_vcom bs). Qed.
Print Assumptions C15_momentum_is_mass_times_vcom.

Theorem C15_linear_momentum_is_sum bs : snd (calcSystemMomentumAboutGroundOrigin ROps bs) = linearMomentum bs.
Proof. exact (linear_momentum_is_sum bs). Qed.
Print Assumptions C15_linear_momentum_is_sum.

Theorem C15_momentum_about_origin_is_shifted_spatial_sum bs :
  calcSystemMomentumAboutGroundOrigin ROps bs
  = svsum (fun b => shiftForce ROps (g_r b) (uspMul ROps (bodyMk b) (g_V b))) bs.
Proof. exact (momentum_about_origin_is_shifted_spatial_sum bs). Qed.
Print Assumptions C15_momentum_about_origin_is_shifted_spatial_sum.

Theorem C15_momentum_about_origin_parallel_axis bs :
  calcSystemMomentumAboutGroundOrigin ROps bs
  = svsum (fun b => (v3_add ROps (sym_mulv ROps (centralInertia ROps b) (fst (g_V b)))
                                  (v3_cross ROps (massCenterInGround ROps b) (v3_scale ROps (g_m b) (stationVel ROps b))),
                     v3_scale ROps (g_m b) (stationVel ROps b))) bs.
Proof. exact (momentum_about_origin_parallel_axis bs). Qed.
Print Assumptions C15_momentum_about_origin_parallel_axis.

Theorem C15_central_momentum_is_shift bs :
  calcSystemCentralMomentum ROps bs
  = shiftForce ROps (v3_neg ROps (calcSystemMassCenterLocationInGround ROps bs)) (calcSystemMomentumAboutGroundOrigin ROps bs).
Proof. exact (central_momentum_is_shift bs). Qed.
Print Assumptions C15_central_momentum_is_shift.

Theorem C15_central_momentum_about_any_point (C : Vec3 R) bs :
  fst (shiftForce ROps (v3_neg ROps C) (calcSystemMomentumAboutGroundOrigin ROps bs))
  = vsum (fun b => v3_add ROps (sym_mulv ROps (centralInertia ROps b) (fst (g_V b)))
                               (v3_cross ROps (v3_sub ROps (massCenterInGround ROps b) C) (v3_scale ROps (g_m b) (stationVel ROps b)))) bs.
Proof. exact (central_momentum_about_any_point C bs). Qed.
Print Assumptions C15_central_momentum_about_any_point.

Theorem C15_com_acceleration_is_total_inertial_force bs : calcSystemMass ROps bs <> 0 ->
  v3_scale ROps (calcSystemMass ROps bs) (calcSystemMassCenterAccelerationInGround ROps bs)
  = snd (svsum (fun b => sv_add ROps (uspMul ROps (bodyMk b) (g_A b)) (gyroscopicForce b)) bs).
Proof. exact (com_acceleration_is_total_inertial_force bs). Qed.
Print Assumptions C15_com_acceleration_is_total_inertial_force.

Theorem C15_ke_is_classical_sum bs :
  calcKineticEnergy ROps bs
  = lsum (map (fun b => (g_m b * v3_normSqr ROps (stationVel ROps b)
                         + v3_dot ROps (fst (g_V b)) (sym_mulv ROps (centralInertia ROps b) (fst (g_V b)))) / 2) bs).
Proof. exact (ke_is_classical_sum bs). Qed.
Print Assumptions C15_ke_is_classical_sum.

Theorem C15_ke_is_spatial_form bs :
  calcKineticEnergy ROps bs
  = / 2 * lsum (map (fun b => dot (svK ROps) (mapply (svK ROps) (g_m b, g_p b, sym_scale ROps (g_m b) (g_G b)) (g_V b)) (g_V b)) bs).
Proof. exact (ke_is_spatial_form bs). Qed.
Print Assumptions C15_ke_is_spatial_form.

Theorem C15_sysInertiaAboutGround_is_sum bs : sysInertiaAboutGround ROps bs = inertiaAbout (v3_zero ROps) bs.
Proof. exact (sysInertiaAboutGround_is_sum bs). Qed.
Print Assumptions C15_sysInertiaAboutGround_is_sum.

Theorem C15_system_inertia_about_ground_is_sum bs : calcSystemMass ROps bs <> 0 ->
  sysMassPropsInertia ROps bs = inertiaAbout (v3_zero ROps) bs.
Proof. exact (system_inertia_about_ground_is_sum bs). Qed.
Print Assumptions C15_system_inertia_about_ground_is_sum.

Theorem C15_inertiaAbout_shift (Q : Vec3 R) bs :
  inertiaAbout Q bs
  = let M := lsum (map g_m bs) in let h := firstMoment bs in
    let '(qx,qy,qz) := Q in let '(hx,hy,hz) := h in
    sym_add ROps (inertiaAbout (v3_zero ROps) bs)
      ((M*(qy*qy+qz*qz) - 2*(hy*qy+hz*qz), M*(qx*qx+qz*qz) - 2*(hx*qx+hz*qz), M*(qx*qx+qy*qy) - 2*(hx*qx+hy*qy)),
       (hx*qy + hy*qx - M*qx*qy, hx*qz + hz*qx - M*qx*qz, hy*qz + hz*qy - M*qy*qz)).
Proof. exact (inertiaAbout_shift Q bs). Qed.
Print Assumptions C15_inertiaAbout_shift.

Theorem C15_central_inertia_parallel_axis bs : calcSystemMass ROps bs <> 0 ->
  calcSystemCentralInertiaInGround ROps bs = inertiaAbout (calcSystemMassCenterLocationInGround ROps bs) bs.
Proof. exact (central_inertia_parallel_axis bs). Qed.
Print Assumptions C15_central_inertia_parallel_axis.

Theorem C15_central_inertia_independent_of_intermediate_point (Q : Vec3 R) bs : calcSystemMass ROps bs <> 0 ->
  let C := calcSystemMassCenterLocationInGround ROps bs in
  sym_sub ROps (inertiaAbout Q bs) (pointMassAt ROps (v3_sub ROps C Q) (calcSystemMass ROps bs)) = inertiaAbout C bs.
Proof. exact (central_inertia_independent_of_intermediate_point Q bs). Qed.
Print Assumptions C15_central_inertia_independent_of_intermediate_point.

Theorem C15_central_inertia_massless bs : calcSystemMass ROps bs = 0 -> calcSystemCentralInertiaInGround ROps bs = sym0 ROps.
Proof. exact (central_inertia_massless bs). Qed.
Print Assumptions C15_central_inertia_massless.


Theorem C15_agg_hyp_satisfiable :
  let b0 : bodyR := mkBody 0 (0,0,1) (1,1,1) ((0,0,0),(0,0,0)) ((1,0,0),(0,1,0)) ((0,0,0),(0,0,0)) in
  let b1 : bodyR := mkBody 1 (1,0,0) (0,1,0) ((1,1,1),(0,0,0)) ((0,0,1),(1,0,0)) ((0,1,0),(0,0,1)) in
  let b2 : bodyR := mkBody 2 (0,2,0) (0,0,1) ((2,2,1),(0,0,0)) ((0,1,0),(0,0,1)) ((1,0,0),(0,0,0)) in
  calcSystemMass ROps [b0; b1; b2] = 3 /\ calcSystemMass ROps [b0; b1; b2] <> 0
  /\ calcSystemMassCenterLocationInGround ROps [b0; b1; b2] = (1/3, 5/3, 2/3).
Proof. exact agg_hyp_satisfiable. Qed.
Print Assumptions C15_agg_hyp_satisfiable.

(** body-frame layer: the code paths that work in B and re-express afterwards equal the Ground-frame formulas on [toG b] *)
Theorem C15_bodyCentralMomentumB_is_G (b : bodyBR) : orthonormal (f_R b) ->
  bodyCentralMomentumB ROps b = bodyCentralMomentum ROps (toG ROps b).
Proof. exact (bodyCentralMomentumB_is_G b). Qed.
Print Assumptions C15_bodyCentralMomentumB_is_G.

Theorem C15_transformedMassPropsB_is_G (b : bodyBR) : orthonormal (f_R b) ->
  transformedMassPropsB ROps b
  = (g_m (toG ROps b), massCenterInGround ROps (toG ROps b), bodyUnitInertiaAboutGround ROps (toG ROps b)).
Proof. exact (transformedMassPropsB_is_G b). Qed.
Print Assumptions C15_transformedMassPropsB_is_G.

Theorem C15_orthonormal_satisfiable : orthonormal ((0,-1,0),(1,0,0),(0,0,1)).
Proof. exact orthonormal_satisfiable. Qed.
Print Assumptions C15_orthonormal_satisfiable.

(** composite body inertias *)
Theorem C15_toM_shift S (A : USpR) : toM (uspShift ROps S A) = mshift S (toM A).
Proof. exact (toM_shift S A). Qed.
Print Assumptions C15_toM_shift.

Theorem C15_mshift_madd S A B : mshift S (madd A B) = madd (mshift S A) (mshift S B).
Proof. exact (mshift_madd S A B). Qed.
Print Assumptions C15_mshift_madd.

Theorem C15_mshift_mshift S1 S2 A : mshift S2 (mshift S1 A) = mshift (v3_add ROps S1 S2) A.
Proof. exact (mshift_mshift S1 S2 A). Qed.
Print Assumptions C15_mshift_mshift.

Theorem C15_mshift_inverse S A : mshift (v3_neg ROps S) (mshift S A) = A.
Proof. exact (mshift_inverse S A). Qed.
Print Assumptions C15_mshift_inverse.

Theorem C15_cbi_hyp_satisfiable :
  let mk (m : R) : Vec3 R * USpR := ((1,0,0), (m, (0,1,0), ((1,1,1),(0,0,0)))) in
  let t := Node (mk 0) [Node (mk 1) []; Node (mk 2) [Node (mk 3) []]] in
  massive snd t /\ cbi_ok snd t /\ tmass snd t = 6.
Proof. exact (@cbi_hyp_satisfiable). Qed.
Print Assumptions C15_cbi_hyp_satisfiable.

Section T.
Context {X : Type} (xl : X -> Vec3 R) (xM : X -> USpR).
Notation Rroot := (Rroot xl xM). Notation tmass := (tmass xM). Notation cbi_ok := (cbi_ok xM).
Notation direct := (direct xl xM). Notation massive := (massive xM).
Theorem C15_Rroot_mass t : u_mass (Rroot t) = tmass t.
Proof. exact (Rroot_mass xl xM t). Qed.

Theorem C15_cbi_is_direct_sum_gen : forall t, cbi_ok t -> forall o, mshift (v3_neg ROps o) (toM (Rroot t)) = direct o t.
Proof. exact (cbi_is_direct_sum_gen xl xM). Qed.

Theorem C15_cbi_is_direct_sum t : cbi_ok t -> toM (Rroot t) = direct (0,0,0) t.
Proof. exact (cbi_is_direct_sum xl xM t). Qed.

Theorem C15_cbi_every_node t : cbi_ok t ->
  Forall (fun s => toM (snd (root s)) = direct (0,0,0) (tmap fst s)) (subtrees (cbi ROps xl xM t)).
Proof. exact (cbi_every_node xl xM t). Qed.

Theorem C15_massive_ok t : massive t -> cbi_ok t /\ 0 < tmass t.
Proof. exact (massive_ok xM t). Qed.

Theorem C15_cbi_is_direct_sum_massive t : massive t -> toM (Rroot t) = direct (0,0,0) t.
Proof. exact (cbi_is_direct_sum_massive xl xM t). Qed.

Theorem C15_cbi_compact_form t : cbi_ok t -> tmass t <> 0 ->
  let '(M, h, J) := direct (0,0,0) t in Rroot t = (M, v3_scale ROps (/ M) h, sym_scale ROps (/ M) J).
Proof. exact (cbi_compact_form xl xM t). Qed.
End T.
Section TG.
Context {X : Type} (xl : X -> Vec3 R) (xM : X -> USpR).
(** the recursion with the proposed repair (zero-mass child composites skipped) is exact whenever no mass is negative *)
Theorem C15_cbiG_is_direct_sum_repaired (t : tree X) : nonneg xM t -> toM (RrootG xl xM t) = direct xl xM (0,0,0) t.
Proof. exact (cbiG_is_direct_sum xl xM t). Qed.
End TG.
Theorem C15_massless_chain_outside_domain :
  let mk (m : R) : Vec3 R * USpR := ((1,0,0), (m, (0,0,0), ((0,0,0),(0,0,0)))) in
  let t := Node (mk 2) [Node (mk 0) [Node (mk 0) []]] in
  ~ cbi_ok snd t /\ nonneg snd t.
Proof. exact massless_chain_outside_domain. Qed.
Print Assumptions C15_cbiG_is_direct_sum_repaired.
Print Assumptions C15_massless_chain_outside_domain.
Print Assumptions C15_Rroot_mass.
Print Assumptions C15_cbi_is_direct_sum_gen.
Print Assumptions C15_cbi_is_direct_sum.
Print Assumptions C15_cbi_every_node.
Print Assumptions C15_massive_ok.
Print Assumptions C15_cbi_is_direct_sum_massive.
Print Assumptions C15_cbi_compact_form.
