(** C16 Realization results depend only on current state values -- property theorems (statements only, each closed by
    [exact]; proofs in C16/C16_Proofs.v and C16/C16_Code.v; model C16/C16_Model.v; systems C16/C16_Systems.v; the
    dependency facts [code_now] are regenerated from the source of the tree under test on every run
    (translate/C16_table.py -> Gen/C16_table_gen.v)). *)
From Coq Require Import List Arith Bool PeanoNat.
Import ListNotations.
Require Import C16_Model C16_Proofs C16_Systems C16_table_gen C16_Code.

Theorem C16_cached_values_fresh T vals ops r l : wf_table T = true -> sound T = true ->
  slot (run T (init T vals) ops) r = Some l -> l = fv T (m_vals (run T (init T vals) ops)) r.
Proof. exact (cached_values_fresh T vals ops r l). Qed.
Print Assumptions C16_cached_values_fresh.

Theorem C16_history_independence T vals ops r : wf_table T = true -> sound T = true ->
  let s := run T (init T vals) ops in
  obs T s r = obs T (realize T (m_stg s) (init T (m_vals s))) r.
Proof. exact (history_independence T vals ops r). Qed.
Print Assumptions C16_history_independence.

Theorem C16_two_histories_agree T v1 v2 ops1 ops2 r : wf_table T = true -> sound T = true ->
  let s1 := run T (init T v1) ops1 in let s2 := run T (init T v2) ops2 in
  m_vals s1 = m_vals s2 -> m_stg s1 = m_stg s2 -> obs T s1 r = obs T s2 r.
Proof. exact (two_histories_agree T v1 v2 ops1 ops2 r). Qed.
Print Assumptions C16_two_histories_agree.

Theorem C16_visible_results_are_functions_of_values T vals ops r : wf_table T = true -> sound T = true ->
  let s := run T (init T vals) ops in
  obs T s r = if (r <? nres T) && (eager_visible T (m_stg s) r || lazy_visible T (m_stg s) r) then Some (fv T (m_vals s) r) else None.
Proof. exact (visible_results_are_functions_of_values T vals ops r). Qed.
Print Assumptions C16_visible_results_are_functions_of_values.

Theorem C16_unrelated_variable_does_not_matter T vals v x r : wf_table T = true -> ~ In v (tr T r) ->
  fv T (upd_nth v x vals) r = fv T vals r.
Proof. exact (unrelated_variable_does_not_matter T vals v x r). Qed.
Print Assumptions C16_unrelated_variable_does_not_matter.


Theorem C16_table_soundness : forallb (fun m => wf_table (build_z code_now m) && sound (build_z code_now m)) models = true.
Proof. exact (@table_soundness). Qed.
Print Assumptions C16_table_soundness.

Theorem C16_history_independence_code m vals ops r : In m models ->
  let T := build_z code_now m in let s := run T (init T vals) ops in
  obs T s r = obs T (realize T (m_stg s) (init T (m_vals s))) r.
Proof. exact (history_independence_code m vals ops r). Qed.
Print Assumptions C16_history_independence_code.

Theorem C16_cached_values_fresh_code m vals ops r l : In m models ->
  let T := build_z code_now m in
  slot (run T (init T vals) ops) r = Some l -> l = fv T (m_vals (run T (init T vals) ops)) r.
Proof. exact (cached_values_fresh_code m vals ops r l). Qed.
Print Assumptions C16_cached_values_fresh_code.

Theorem C16_all_classes_sound : forallb (class_sound code_fsub) code_classes = true.
Proof. exact (@all_classes_sound). Qed.
Print Assumptions C16_all_classes_sound.

Theorem C16_history_independence_refuted_old_table :
  let c := code_old code_now in let T := build c m0 in
  wf_table T = true /\ sound T = false /\ unsound_pairs T = [(r_elem 0, v_par c m0 0 0)] /\
  exists vals ops r, let s := run T (init T vals) ops in
     ops = witness c /\ obs T s r <> obs T (realize T (m_stg s) (init T (m_vals s))) r /\
     stale_results T s = [r_elem 0; r_total m0].
Proof. exact (@history_independence_refuted_old_table). Qed.
Print Assumptions C16_history_independence_refuted_old_table.

Theorem C16_witness_fresh_now :
  let T := build_z code_now m0 in stale_results T (run T (init T [0;0;0;0;0;1;0]) (witness code_now)) = []
  /\ nth (r_elem 0) (m_cnt (run T (init T [0;0;0;0;0;1;0]) (witness code_now))) 0 = 2.
Proof. exact (@witness_fresh_now). Qed.
Print Assumptions C16_witness_fresh_now.

Theorem C16_gravity_setter_without_invalidate_refuted :
  let c := with_grav code_now (mkG 7 5 [(true,true); (true,true); (true,true); (false,true)]) in
  let m := mkSpec [15] true 1 0 0 in let T := build c m in
  wf_table T = true /\ sound T = false /\
  stale_results T (run T (init T [0;0;0;0;0;1;0;1;0;0]) [Realize 5; Query (r_grav m); SetVar (v_gzh c m) 3; Realize 7]) = [r_grav m; r_total m].
Proof. exact (@gravity_setter_without_invalidate_refuted). Qed.
Print Assumptions C16_gravity_setter_without_invalidate_refuted.

Theorem C16_flag_not_reset_at_position_refuted :
  let c := with_fsub code_now (mkF 3 4 7 true) in     (* reset moved to realizeSubsystemTimeImpl *)
  let T := build c m0 in
  wf_table T = true /\ sound T = false /\
  stale_results T (run T (init T [0;0;0;0;0;1;0]) [Realize 7; SetVar V_Q 1; Realize 7]) <> [].
Proof. exact (@flag_not_reset_at_position_refuted). Qed.
Print Assumptions C16_flag_not_reset_at_position_refuted.

Theorem C16_history_independence_nonvacuous :
  let m := nth 1 models m0 in let T := build_z code_now m in
  let s := run T (init T (repeat 1 (nvars T))) [Realize 7; SetVar (v_par code_now m 0 0) 5; Realize 5; Query (r_grav m); SetVar V_U 2; Realize 8] in
  m_stg s = 8 /\ obs T s (r_total m) <> None /\ obs T s (r_total m) = obs T (realize T 8 (init T (m_vals s))) (r_total m)
  /\ nth (r_elem 3) (m_cnt s) 0 = 2 /\ nth (r_elem 4) (m_cnt s) 0 = 2 /\ nth (r_grav m) (m_cnt s) 0 = 2.
Proof. exact (@history_independence_nonvacuous). Qed.
Print Assumptions C16_history_independence_nonvacuous.



Theorem C16_zdot_of_disabled_element_refuted_old_table :
  let T := build_z (code_zold code_now) mz in let r := r_zdot mz 0 in
  wf_table T = false /\ wf_table (build_z code_now mz) = true /\ sound (build_z code_now mz) = true /\
  exists vals ops, let s := run T (init T vals) ops in
     ops = [Realize 8; SetVar (v_en mz 0) 0; Realize 8] /\ m_stg s = 8 /\
     obs T s r <> obs T (realize T (m_stg s) (init T (m_vals s))) r /\
     (forall r', r' < r -> obs T s r' = obs T (realize T (m_stg s) (init T (m_vals s))) r').
Proof. exact (@zdot_of_disabled_element_refuted_old_table). Qed.
Print Assumptions C16_zdot_of_disabled_element_refuted_old_table.

Theorem C16_zdot_witness_fresh_now :
  let T := build_z code_now mz in let s := run T (init T [0;0;0;0;0;1;0]) [Realize 8; SetVar (v_en mz 0) 0; Realize 8] in
  stale_results T s = [] /\ obs T s (r_zdot mz 0) <> None /\
  obs T s (r_zdot mz 0) = obs T (realize T (m_stg s) (init T (m_vals s))) (r_zdot mz 0).
Proof. exact (@zdot_witness_fresh_now). Qed.
Print Assumptions C16_zdot_witness_fresh_now.

