(** C17 Force totals are independent of threading and scheduling -- property theorems (statements only, each closed by
    [exact]; proofs in C17/C17_Proofs.v, C17/C17_PE.v (on top of the C33 executor protocol model) and C17/C17_Code.v;
    model C17/C17_Model.v; the access tables [code_parallel], [code_nonparallel] are regenerated from
    Simbody/src/GeneralForceSubsystem.cpp of the tree under test on every run (translate/C17_access.py)). *)
From Coq Require Import List Arith Bool PeanoNat Permutation Reals.
Import ListNotations.
Require Import C33_Lib C33_Index C33_PE C33_PEProofs C17_Model C17_Proofs C17_PE C17_access_gen C17_Code.

Theorem C17_totals_schedule_independent d m els S T1 T2 evs1 evs2 s :
  wf_task d m = true -> is_shared S = true -> T1 > 0 -> T2 > 0 ->
  (forall w, w < T1 -> slot_of d w = w) -> (forall w, w < T2 -> slot_of d w = w) ->
  valid_round T1 (ntasks els) evs1 -> valid_round T2 (ntasks els) evs2 ->
  Permutation (shg (interp d m els evs1 s) S) (shg (interp d m els evs2 s) S).
Proof. exact (totals_schedule_independent d m els S T1 T2 evs1 evs2 s). Qed.
Print Assumptions C17_totals_schedule_independent.

Theorem C17_totals_are_expected d m els S T evs s :
  wf_task d m = true -> is_shared S = true -> T > 0 -> (forall w, w < T -> slot_of d w = w) ->
  valid_round T (ntasks els) evs ->
  Permutation (shg (interp d m els evs s) S) (shg s S ++ expected d m els S).
Proof. exact (totals_are_expected d m els S T evs s). Qed.
Print Assumptions C17_totals_are_expected.

Theorem C17_sums_schedule_independent d m els S T1 T2 evs1 evs2 s (val:nat -> R) :
  wf_task d m = true -> is_shared S = true -> T1 > 0 -> T2 > 0 ->
  (forall w, w < T1 -> slot_of d w = w) -> (forall w, w < T2 -> slot_of d w = w) ->
  valid_round T1 (ntasks els) evs1 -> valid_round T2 (ntasks els) evs2 ->
  sumR val (shg (interp d m els evs1 s) S) = sumR val (shg (interp d m els evs2 s) S).
Proof. exact (sums_schedule_independent d m els S T1 T2 evs1 evs2 s val). Qed.
Print Assumptions C17_sums_schedule_independent.

Theorem C17_valid_round_b_sound T n evs : valid_round_b T n evs = true -> valid_round T n evs.
Proof. exact (valid_round_b_sound T n evs). Qed.
Print Assumptions C17_valid_round_b_sound.


Theorem C17_pe_round_valid T td tr s :
  run T td ((Main, MExecEnd) :: tr) s ->
  exists n, last_begin tr = Some n /\ valid_round T n (tevs (round_events tr)).
Proof. exact (pe_round_valid T td tr s). Qed.
Print Assumptions C17_pe_round_valid.

Theorem C17_totals_after_any_executor_run d m els S T td tr s0 f :
  wf_task d m = true -> is_shared S = true -> T > 0 -> (forall w, w < T -> slot_of d w = w) ->
  run T td ((Main, MExecEnd) :: tr) s0 -> last_begin tr = Some (ntasks els) ->
  Permutation (shg (interp d m els (tevs (round_events tr)) f) S) (shg f S ++ expected d m els S).
Proof. exact (totals_after_any_executor_run d m els S T td tr s0 f). Qed.
Print Assumptions C17_totals_after_any_executor_run.

Theorem C17_race_free d m els : t_tls d = true -> exec_local_only d = true -> wf_task d m = true ->
  forall T td tr s w1 w2, run T td tr s -> w1 < T -> w2 < T -> w1 <> w2 -> race d m els T s w1 w2 = false.
Proof. exact (race_free d m els). Qed.
Print Assumptions C17_race_free.


Theorem C17_access_table_ok :
  forallb (wf_task code_parallel) modes && t_tls code_parallel && exec_local_only code_parallel
  && forallb (wf_task code_nonparallel) modes && code_nonparallel_forced_single && negb code_set_threads_can_override = true.
Proof. exact (@access_table_ok). Qed.
Print Assumptions C17_access_table_ok.

Theorem C17_parallel_totals_schedule_independent m els S T td tr s0 f :
  is_shared S = true -> T > 0 -> run T td ((Main, MExecEnd) :: tr) s0 -> last_begin tr = Some (ntasks els) ->
  Permutation (shg (interp code_parallel m els (tevs (round_events tr)) f) S) (shg f S ++ expected code_parallel m els S).
Proof. exact (parallel_totals_schedule_independent m els S T td tr s0 f). Qed.
Print Assumptions C17_parallel_totals_schedule_independent.

Theorem C17_parallel_sums_schedule_independent m els S T1 T2 td1 td2 tr1 tr2 s1 s2 f (val:nat -> R) :
  is_shared S = true -> T1 > 0 -> T2 > 0 ->
  run T1 td1 ((Main, MExecEnd) :: tr1) s1 -> last_begin tr1 = Some (ntasks els) ->
  run T2 td2 ((Main, MExecEnd) :: tr2) s2 -> last_begin tr2 = Some (ntasks els) ->
  sumR val (shg (interp code_parallel m els (tevs (round_events tr1)) f) S)
  = sumR val (shg (interp code_parallel m els (tevs (round_events tr2)) f) S).
Proof. exact (parallel_sums_schedule_independent m els S T1 T2 td1 td2 tr1 tr2 s1 s2 f val). Qed.
Print Assumptions C17_parallel_sums_schedule_independent.

Theorem C17_parallel_race_free m els T td tr s w1 w2 :
  run T td tr s -> w1 < T -> w2 < T -> w1 <> w2 -> race code_parallel m els T s w1 w2 = false.
Proof. exact (parallel_race_free m els T td tr s w1 w2). Qed.
Print Assumptions C17_parallel_race_free.

Theorem C17_nonparallel_single_thread_totals m els S evs f :
  is_shared S = true -> valid_round 1 (ntasks els) evs ->
  Permutation (shg (interp code_nonparallel m els evs f) S) (shg f S ++ expected code_nonparallel m els S).
Proof. exact (nonparallel_single_thread_totals m els S evs f). Qed.
Print Assumptions C17_nonparallel_single_thread_totals.

Theorem C17_both_tasks_same_mult : forallb (fun m => forallb (fun S => forallb (fun pos =>
    mult code_nonparallel m S pos =? mult code_parallel m S pos) [true; false]) [SharedF; SharedC]) modes = true.
Proof. exact (@both_tasks_same_mult). Qed.
Print Assumptions C17_both_tasks_same_mult.

Theorem C17_both_tasks_same_expected m S els : is_shared S = true -> par els = [] ->
  Permutation (expected code_nonparallel m els S) (expected code_parallel m els S).
Proof. exact (both_tasks_same_expected m S els). Qed.
Print Assumptions C17_both_tasks_same_expected.

Theorem C17_prefix_table_race_refuted :
  exists T td tr s w1 w2 els m,
    run T td tr s /\ w1 < T /\ w2 < T /\ w1 <> w2 /\ exec_local_only parallel_prefix = false /\
    race parallel_prefix m els T s w1 w2 = true /\ race code_parallel m els T s w1 w2 = false.
Proof. exact (@prefix_table_race_refuted). Qed.
Print Assumptions C17_prefix_table_race_refuted.

Theorem C17_nonparallel_multithreaded_race_refuted :
  exists td tr s els m,
    run 2 td tr s /\ race code_nonparallel m els 2 s 0 1 = true.
Proof. exact (@nonparallel_multithreaded_race_refuted). Qed.
Print Assumptions C17_nonparallel_multithreaded_race_refuted.

Theorem C17_nonparallel_multithreaded_totals_refuted :
  let els := [mkEl 0 false false] in
  let lost := [(0,TInit); (0,TExec 0); (1,TInit); (1,TFin); (0,TFin)] in
  let twice := [(0,TInit); (1,TInit); (0,TExec 0); (0,TFin); (1,TFin)] in
  valid_round 2 (ntasks els) lost /\ valid_round 2 (ntasks els) twice /\
  shg (interp code_nonparallel MAll els lost fstate0) SharedF = [] /\
  shg (interp code_nonparallel MAll els twice fstate0) SharedF = [0; 0] /\
  expected code_nonparallel MAll els SharedF = [0].
Proof. exact (@nonparallel_multithreaded_totals_refuted). Qed.
Print Assumptions C17_nonparallel_multithreaded_totals_refuted.

Theorem C17_totals_nonvacuous :
  let els := [mkEl 0 false true; mkEl 1 true false; mkEl 2 false false; mkEl 3 true true] in
  ntasks els = 3 /\
  expected code_parallel MCNC els SharedF = [2; 1] /\ expected code_parallel MCNC els SharedC = [0; 3] /\
  expected code_parallel MNC els SharedF = [2; 1] /\ expected code_parallel MNC els SharedC = [] /\
  expected code_parallel MAll els SharedF = [0; 2; 1; 3] /\
  valid_round 2 3 [(1,TInit); (0,TInit); (1,TExec 1); (0,TExec 0); (1,TFin); (0,TExec 2); (0,TFin)] /\
  shg (interp code_parallel MCNC els [(1,TInit); (0,TInit); (1,TExec 1); (0,TExec 0); (1,TFin); (0,TExec 2); (0,TFin)] fstate0) SharedF = [1; 2] /\
  shg (interp code_parallel MCNC els [(1,TInit); (0,TInit); (1,TExec 1); (0,TExec 0); (1,TFin); (0,TExec 2); (0,TFin)] fstate0) SharedC = [0; 3].
Proof. exact (@totals_nonvacuous). Qed.
Print Assumptions C17_totals_nonvacuous.

