(** C18 property theorems: statements only, each closed by [exact]; proofs are in C18/C18_Proofs.v (and C18_Refine.v),
    the model in C18/C18_Model.v, the ghost specification in C18/C18_Spec.v. *)
From Coq Require Import List Arith Bool PeanoNat.
Require Import C18_Model C18_Spec C18_Basics C18_Refine C18_Refine2 C18_Refine3 C18_Values C18_Alloc C18_Proofs.
Import ListNotations.

Theorem C18_upd_lowers_all_stages cf s o g : inval_of s o = Some g ->
  let s' := fst (step cf s o) in
  snd (step cf s o) = false /\ nsubs s' = nsubs s /\
  sys_stage s' = Nat.min (sys_stage s) (g-1) /\
  forall i, i < nsubs s -> s_stage (get_sub i s') = Nat.min (s_stage (get_sub i s)) (g-1).
Proof. exact (upd_lowers_all_stages cf s o g). Qed.
Print Assumptions C18_upd_lowers_all_stages.

Theorem C18_versions_bump_exactly_invalidated_stages cf s o g : inval_of s o = Some g ->
  let s' := fst (step cf s o) in
  (forall j, getv (sys_ver s') j = if (g <=? j) && (j <=? sys_stage s) && (j <? length (sys_ver s)) then S (getv (sys_ver s) j) else getv (sys_ver s) j) /\
  (forall i, i < nsubs s -> 2 <= g -> forall j,
      getv (s_ver (get_sub i s')) j =
      if (g <=? j) && (j <=? s_stage (get_sub i s)) && (j <? length (s_ver (get_sub i s))) then S (getv (s_ver (get_sub i s)) j) else getv (s_ver (get_sub i s)) j) /\
  (forall i, i < nsubs s -> g <= 1 -> s_ver (get_sub i s') = if s_stage (get_sub i s) =? 0 then s_ver (get_sub i s) else ver0).
Proof. exact (versions_bump_exactly_invalidated_stages cf s o g). Qed.
Print Assumptions C18_versions_bump_exactly_invalidated_stages.

Theorem C18_valid_iff_spec_partial cf s l : wf_check s = true -> dyn_check s = true -> legal_run cf s l = true ->
  trace cf s l = gtrace (abs s) l /\ obs (run cf s l) = gobs (grun (abs s) l) /\
  forall k, isUpToDate (run cf s l) k = gvalid (grun (abs s) l) k.
Proof. exact (valid_iff_spec_partial cf s l). Qed.
Print Assumptions C18_valid_iff_spec_partial.

Theorem C18_valid_iff_spec_from_empty_partial cf n l : legal_run cf (st0 n) l = true ->
  trace cf (st0 n) l = gtrace (abs (st0 n)) l /\ forall k, isUpToDate (run cf (st0 n) l) k = gvalid (grun (abs (st0 n)) l) k.
Proof. exact (valid_iff_spec_from_empty_partial cf n l). Qed.
Print Assumptions C18_valid_iff_spec_from_empty_partial.

Theorem C18_step_refines_spec cf s o : WF s -> Dyn s -> covered s o = true -> legal cf s o = true ->
  abs (fst (step cf s o)) = fst (gstep (abs s) o) /\ snd (step cf s o) = snd (gstep (abs s) o) /\ WF (fst (step cf s o)) /\ Dyn (fst (step cf s o)).
Proof. exact (step_refines_spec cf s o). Qed.
Print Assumptions C18_step_refines_spec.

Theorem C18_valid_iff_spec_nonvacuous :
  let s := run cfg_now (st0 2) ex_setup in
  wf_check s = true /\ dyn_check s = true /\ legal_run cfg_now s ex_run = true /\ legal_run cfg_fixed s ex_run = true /\
  legal_run cfg_now (st0 2) (ex_setup ++ ex_run) = true /\ length (ex_setup ++ ex_run) = 43 /\
  map fst (trace cfg_now (st0 2) ex_setup) = repeat false 19 /\
  isUpToDate (run cfg_now s [AdvSub 0 4; AdvSub 1 4; AdvSys 4; AdvSub 0 5; AdvSub 1 5; AdvSys 5; Mark (0,1)]) (0,1) = true /\
  isUpToDate (run cfg_now s [AdvSub 0 4; AdvSub 1 4; AdvSys 4; AdvSub 0 5; AdvSub 1 5; AdvSys 5; Mark (0,1); Upd WQ; AdvSub 0 5; AdvSub 1 5; AdvSys 5]) (0,1) = false.
Proof. exact (@valid_iff_spec_nonvacuous). Qed.
Print Assumptions C18_valid_iff_spec_nonvacuous.

Theorem C18_valid_iff_spec_refuted_autoupdate :
  exists l k dk, let s0 := run cfg_now (st0 1) (removelast l) in let s := run cfg_now (st0 1) l in
    last l Query = AutoUpdate /\
    isUpToDate s k = true /\ gvalid (grun (abs (st0 1)) l) k = false /\
    d_val (get_dv dk s0) <> d_val (get_dv dk s) /\ d_valver (get_dv dk s0) = d_valver (get_dv dk s) /\ In dk (c_dvs (get_ce k s)).
Proof. exact (@valid_iff_spec_refuted_autoupdate). Qed.
Print Assumptions C18_valid_iff_spec_refuted_autoupdate.

Theorem C18_autoupdate_fixed_agrees :
  let s0 := run cfg_fixed (st0 1) (removelast w_auto) in let s := run cfg_fixed (st0 1) w_auto in
  isUpToDate s (0,1) = false /\ trace cfg_fixed (st0 1) w_auto = gtrace (abs (st0 1)) w_auto /\ d_valver (get_dv (0,0) s) = S (d_valver (get_dv (0,0) s0)).
Proof. exact (@autoupdate_fixed_agrees). Qed.
Print Assumptions C18_autoupdate_fixed_agrees.

Theorem C18_valid_iff_spec_refuted_markahead :
  exists l k, isUpToDate (run cfg_now (st0 1) l) k = true /\ gvalid (grun (abs (st0 1)) l) k = false /\
              isUpToDate (run cfg_fixed (st0 1) l) k = true.
Proof. exact (@valid_iff_spec_refuted_markahead). Qed.
Print Assumptions C18_valid_iff_spec_refuted_markahead.

Theorem C18_valid_iff_spec_refuted_copy :
  exists l k, isUpToDate (nth 1 (wrun cfg_now [st0 1; st0 1] l) (st0 0)) k = true /\
              isUpToDate (nth 0 (wrun cfg_now [st0 1; st0 1] (l ++ map (On 0) (adv 0 5 5))) (st0 0)) k = false /\
              gvalid (nth 1 (gwrun [abs (st0 1); abs (st0 1)] l) (mkG 0 [])) k = false.
Proof. exact (@valid_iff_spec_refuted_copy). Qed.
Print Assumptions C18_valid_iff_spec_refuted_copy.

Theorem C18_copy_fixed_agrees :
  isUpToDate (nth 1 (wrun cfg_fixed [st0 1; st0 1] w_copy) (st0 0)) (0,0) = false /\
  map abs (wrun cfg_fixed [st0 1; st0 1] w_copy) = gwrun [abs (st0 1); abs (st0 1)] w_copy.
Proof. exact (@copy_fixed_agrees). Qed.
Print Assumptions C18_copy_fixed_agrees.

Theorem C18_value_versions_monotone_and_change_on_upd cf s : WF s ->
  (forall o, runtime s o = true -> le_vals s (fst (step cf s o))) /\
  (forall k v, runtime s (SetDV k v) = true -> has_sub s (fst k) && has_dv s k = true ->
      d_val (get_dv k (fst (step cf s (SetDV k v)))) = v /\ d_valver (get_dv k (fst (step cf s (SetDV k v)))) = S (d_valver (get_dv k s))) /\
  qvs (fst (step cf s (Upd WQ))) = (S (qv s), uv s, zv s) /\ qvs (fst (step cf s (Upd WU))) = (qv s, S (uv s), zv s) /\
  qvs (fst (step cf s (Upd WZ))) = (qv s, uv s, S (zv s)) /\ qvs (fst (step cf s (Upd WY))) = (S (qv s), S (uv s), S (zv s)) /\
  qvs (fst (step cf s (Upd WT))) = qvs s /\
  (forall ss, has_sub s ss = true ->
      qvs (fst (step cf s (UpdSub WQ ss))) = (S (qv s), uv s, zv s) /\ qvs (fst (step cf s (UpdSub WU ss))) = (qv s, S (uv s), zv s) /\
      qvs (fst (step cf s (UpdSub WZ ss))) = (qv s, uv s, S (zv s)) /\
      (forall w, w = WUW \/ w = WZW \/ w = WQEW \/ w = WUEW -> qvs (fst (step cf s (UpdSub w ss))) = qvs s)).
Proof. exact (value_versions_monotone_and_change_on_upd cf s). Qed.
Print Assumptions C18_value_versions_monotone_and_change_on_upd.

Theorem C18_autoupdate_swaps_only_on_request cf s : WF s ->
  (forall o dk, runtime s o = true -> o <> AutoUpdate -> (forall v, o <> SetDV dk v) -> get_dv dk (fst (step cf s o)) = get_dv dk s) /\
  (forall dk cx, d_auto (get_dv dk s) = Some cx -> has_dv s dk = true -> has_ce s (fst dk, cx) = true ->
      let s' := auto_one cf s dk in
      (isUpToDate s (fst dk,cx) = true -> d_val (get_dv dk s') = c_val (get_ce (fst dk,cx) s) /\ c_val (get_ce (fst dk,cx) s') = d_val (get_dv dk s)) /\
      (isUpToDate s (fst dk,cx) = false -> s' = s)).
Proof. exact (autoupdate_swaps_only_on_request cf s). Qed.
Print Assumptions C18_autoupdate_swaps_only_on_request.

Theorem C18_copy_deep_independent cf w i o j : j <> i -> nth j (fst (wstep cf w (On i o))) (st0 0) = nth j w (st0 0).
Proof. exact (copy_deep_independent cf w i o j). Qed.
Print Assumptions C18_copy_deep_independent.

Theorem C18_copy_stage_rule cf w d s_ : d < length w -> s_ < length w -> d <> s_ ->
  let w' := fst (wstep cf w (CopyC d s_)) in let src := nth s_ w (st0 0) in let c := nth d w' (st0 0) in
  nth s_ w' (st0 0) = src /\ sys_stage c = Nat.min (sys_stage src) 3 /\ nsubs c = nsubs src /\
  forall i, i < nsubs src -> s_stage (get_sub i c) = Nat.min (s_stage (get_sub i src)) 3.
Proof. exact (copy_stage_rule cf w d s_). Qed.
Print Assumptions C18_copy_stage_rule.

