(** C18 property theorems: statements only, each closed by [exact]; proofs are in C18/C18_Proofs.v (and C18_Refine.v),
    the model in C18/C18_Model.v, the ghost specification in C18/C18_Spec.v. *)
From Coq Require Import List Arith Bool PeanoNat.
Require Import C18_Model C18_Spec C18_Basics C18_Proofs.
Import ListNotations.

Theorem C18_upd_lowers_all_stages cf s o g : inval_of s o = Some g ->
  let s' := fst (step cf s o) in
  snd (step cf s o) = false /\ nsubs s' = nsubs s /\
  sys_stage s' = Nat.min (sys_stage s) (g-1) /\
  forall i, i < nsubs s -> s_stage (get_sub i s') = Nat.min (s_stage (get_sub i s)) (g-1).
Proof. exact (upd_lowers_all_stages cf s o g). Qed.
Print Assumptions C18_upd_lowers_all_stages.

Theorem C18_versions_bump_exactly_invalidated_stages cf s o g : inval_of s o = Some g ->
  let s' := fst (step cf s o) in
  (forall j, getv (sys_ver s') j = if (g <=? j) && (j <=? sys_stage s) && (j <? length (sys_ver s)) then S (getv (sys_ver s) j) else getv (sys_ver s) j) /\
  (forall i, i < nsubs s -> 2 <= g -> forall j,
      getv (s_ver (get_sub i s')) j =
      if (g <=? j) && (j <=? s_stage (get_sub i s)) && (j <? length (s_ver (get_sub i s))) then S (getv (s_ver (get_sub i s)) j) else getv (s_ver (get_sub i s)) j) /\
  (forall i, i < nsubs s -> g <= 1 -> s_ver (get_sub i s') = if s_stage (get_sub i s) =? 0 then s_ver (get_sub i s) else ver0).
Proof. exact (versions_bump_exactly_invalidated_stages cf s o g). Qed.
Print Assumptions C18_versions_bump_exactly_invalidated_stages.

