(** C19 property theorems (statements only; proofs in C19/C19_Proofs.v, C19/C19_T1.v, C19/C19_CPodes_Proofs.v).
    Models: C19/C19_Model.v (AbstractIntegratorRep::stepTo, takeOneStep as oracle) and C19/C19_CPodes.v
    (CPodesIntegratorRep::stepTo, CPodes::step as oracle).  Times are in Q.
    [reqs_ok c s0 reqs orc] = every request of the sequence, in the state it is issued in, has report >= current time,
    scheduled-event time >= the time already advanced to, no report time strictly inside an event window localized by
    an earlier call, and every oracle answer used meets the contract [oracle_ok]; [Inv c s0] holds of the state after
    initialize when the final time is not earlier than the initial time ([Inv_init]). *)
From Coq Require Import QArith List Bool Reals.
Require Import Num C19_Model C19_Proofs C19_T1 C19_CPodes C19_CPodes_Proofs.
Import ListNotations.
Local Open Scope Q_scope.

Theorem C19_Inv_init c t : final_le c t -> Inv c (init_state t).
Proof. exact (Inv_init c t). Qed.
Print Assumptions C19_Inv_init.

Theorem C19_returned_time_le_earliest_pending c s0 reqs orc : Inv c s0 -> reqs_ok c s0 reqs orc ->
  forall x st s' us, In x (run c s0 reqs orc) -> cr_res x = Ok (st, s', us) ->
  tState s' <= cr_report x /\ tState s' <= cr_sched x /\ (forall f, finalT c = Some f -> tState s' <= f).
Proof. exact (returned_time_le_earliest_pending c s0 reqs orc). Qed.
Print Assumptions C19_returned_time_le_earliest_pending.

Theorem C19_time_monotone c s0 reqs orc : Inv c s0 -> reqs_ok c s0 reqs orc ->
  nondecreasing (ret_times (run c s0 reqs orc)) /\
  forall x st s' us, In x (run c s0 reqs orc) -> cr_res x = Ok (st, s', us) ->
     tState (cr_pre x) <= tState s' /\ tAdv (cr_pre x) <= tAdv s'.
Proof. exact (time_monotone c s0 reqs orc). Qed.
Print Assumptions C19_time_monotone.

Theorem C19_advanced_never_passes_sched_or_final c s0 reqs orc : Inv c s0 -> reqs_ok c s0 reqs orc ->
  forall x st s' us, In x (run c s0 reqs orc) -> cr_res x = Ok (st, s', us) ->
  tAdv s' <= cr_sched x /\ (forall f, finalT c = Some f -> tAdv s' <= f).
Proof. exact (advanced_never_passes_sched_or_final c s0 reqs orc). Qed.
Print Assumptions C19_advanced_never_passes_sched_or_final.

Theorem C19_report_sched_final_stops_exact c s0 reqs orc : Inv c s0 -> reqs_ok c s0 reqs orc ->
  forall x st s' us, In x (run c s0 reqs orc) -> cr_res x = Ok (st, s', us) ->
  (st = ReachedReportTime -> tState s' == cr_report x \/ exists f, finalT c = Some f /\ tState s' == f) /\
  (st = ReachedScheduledEvent -> tState s' == cr_sched x) /\
  (st = EndOfSimulation -> exists f, finalT c = Some f /\ tState s' == f).
Proof. exact (report_sched_final_stops_exact c s0 reqs orc). Qed.
Print Assumptions C19_report_sched_final_stops_exact.

(** no hypothesis on requests or oracle: once EndOfSimulation has been returned every later stepTo is refused
    (hence it is returned at most once), as long as reinitialize(stage<Report) is not used to restart *)
Theorem C19_end_of_simulation_once_then_refused c reqs s orc : no_restart reqs ->
  eos_then_refused (run c s reqs orc).
Proof. exact (end_of_simulation_once_then_refused c reqs s orc). Qed.
Print Assumptions C19_end_of_simulation_once_then_refused.

Theorem C19_refused_only_after_final c s r sc orc :
  stepTo c s r sc orc = Refused -> comm_st s = FinalReturned /\ startCI s = false.
Proof. exact (refused_only_after_final c s r sc orc). Qed.
Print Assumptions C19_refused_only_after_final.

Theorem C19_no_pending_time_inside_event_window c s0 reqs orc : Inv c s0 -> reqs_ok c s0 reqs orc ->
  forall x s' us, In x (run c s0 reqs orc) -> cr_res x = Ok (ReachedEventTrigger, s', us) ->
  tLow s' < tHigh s' /\ tState s' == tLow s' /\ tAdv s' == tHigh s' /\
  ~ (tLow s' < cr_report x /\ cr_report x < tHigh s') /\
  ~ (tLow s' < cr_sched x /\ cr_sched x < tHigh s') /\
  (forall f, finalT c = Some f -> ~ (tLow s' < f /\ f < tHigh s')).
Proof. exact (no_pending_time_inside_event_window c s0 reqs orc). Qed.
Print Assumptions C19_no_pending_time_inside_event_window.

(** without "the scheduled-event time is never lowered below the advanced time" the first clause is false
    (DESIGN 7.11; the witness is the recorded RungeKuttaMerson run) *)
Theorem C19_returned_time_le_earliest_pending_refuted :
  exists c s0 reqs orc, Inv c s0 /\ reqs_sat req_doc c s0 reqs orc /\
    exists x s' us, In x (run c s0 reqs orc) /\ cr_res x = Ok (ReachedReportTime, s', us) /\
       cr_sched x < tState s' /\ cr_sched x < tAdv s'.
Proof. exact returned_time_le_earliest_pending_refuted. Qed.
Print Assumptions C19_returned_time_le_earliest_pending_refuted.

(** without "no new report time strictly inside a window localized by an earlier call" the last clause is false *)
Theorem C19_no_pending_time_inside_event_window_refuted :
  exists c s0 reqs orc, Inv c s0 /\ reqs_sat req_nowin c s0 reqs orc /\
    exists x s' us, In x (run c s0 reqs orc) /\ cr_res x = Ok (ReachedEventTrigger, s', us) /\
       tLow s' < cr_report x /\ cr_report x < tHigh s'.
Proof. exact no_pending_time_inside_event_window_refuted. Qed.
Print Assumptions C19_no_pending_time_inside_event_window_refuted.

(** non-vacuity of the hypotheses of the clause theorems *)
Theorem C19_clause_hypotheses_satisfiable :
  Inv ex_cfg (init_state 0) /\ reqs_ok ex_cfg (init_state 0) ex_reqs ex_orc /\ no_restart (skipn 4 ex_reqs) /\
  statuses (run ex_cfg (init_state 0) ex_reqs ex_orc) =
    [Some StartOfContinuousInterval; Some ReachedReportTime; Some ReachedEventTrigger; Some StartOfContinuousInterval;
     Some ReachedReportTime; Some ReachedScheduledEvent; Some ReachedReportTime; Some EndOfSimulation; None].
Proof. exact clause_hypotheses_satisfiable. Qed.
Print Assumptions C19_clause_hypotheses_satisfiable.

(** the t1 part of the oracle contract follows from takeOneStep's step-size selection (over R) *)
Theorem C19_oracle_contract_used_is_what_takeOneStep_ensures_partial (t0 tMax h:R) :
  (0 < h)%R -> (t0 < tMax)%R -> (t0 < fst (select_t1 ROps t0 tMax h) <= tMax)%R.
Proof. exact (oracle_contract_used_is_what_takeOneStep_ensures_partial t0 tMax h). Qed.
Print Assumptions C19_oracle_contract_used_is_what_takeOneStep_ensures_partial.

Theorem C19_select_t1_no_room (t0 tMax h:R) : (0 < h)%R -> (tMax <= t0)%R -> fst (select_t1 ROps t0 tMax h) = tMax.
Proof. exact (select_t1_no_room t0 tMax h). Qed.
Print Assumptions C19_select_t1_no_room.

(** ------------------------------------------------------------------------------------------
    second model: CPodesIntegratorRep::stepTo (C19/C19_CPodes.v) *)
(** EndOfSimulation puts the wrapper into FinalTimeHasBeenReturned and every later stepTo is refused, whatever
    reinitialize did in between *)
Theorem C19_cp_end_of_simulation_then_refused c s report sched orc s' rest us :
  stepToC c s report sched orc = COk (EndOfSimulation, s', rest, us) ->
  c_comm s' = FinalReturned /\
  forall l t r2 sc2 orc2, stepToC c (reinitC s' l t) r2 sc2 orc2 = CRefused /\ stepToC c s' r2 sc2 orc2 = CRefused.
Proof. exact (cp_end_of_simulation_then_refused c s report sched orc s' rest us). Qed.
Print Assumptions C19_cp_end_of_simulation_then_refused.

(** for calls in which CPODES reports no root: a scheduled-event stop is exactly at the scheduled time, a report stop
    exactly at the report time (or it is the first encounter of the stop time), and TimeHasAdvanced / stop-time returns
    are strictly before both pending times.  Any state, any oracle answers.  (With a root return the times compared
    are tLo while the advanced state is at tHi; not covered.) *)
Theorem C19_cp_stops_exact_and_not_late_partial c s report sched orc st s' rest us :
  stepToC c s report sched orc = COk (st, s', rest, us) ->
  c_pending s <> Some CRoot -> Forall nonroot orc ->
  st = StartOfContinuousInterval \/ st = ReachedStepLimit \/ cret_ok c report sched st s'.
Proof. exact (cp_stops_exact_and_not_late_partial c s report sched orc st s' rest us). Qed.
Print Assumptions C19_cp_stops_exact_and_not_late_partial.

(** DESIGN 7.18 (b): the CPodes wrapper lets the advanced state pass a pending scheduled event *)
Theorem C19_cp_advanced_never_passes_sched_refuted :
  exists c s report sched orc st s' rest us,
    stepToC c (init_stateC 0 None) 0 1 [] = COk (StartOfContinuousInterval, s, [], []) /\
    tStateC s <= report /\ tStateC s <= sched /\
    stepToC c s report sched orc = COk (st, s', rest, us) /\ forallb cp_okb us = true /\
    st = ReachedReportTime /\ tStateC s' == report /\ sched < c_tAdv s'.
Proof. exact cp_advanced_never_passes_sched_refuted. Qed.
Print Assumptions C19_cp_advanced_never_passes_sched_refuted.
