(** C20 property theorems: statements only, each closed by [exact]; proofs are in C20/C20_Tableau.v,
    C20/C20_Poly.v, C20/C20_Control.v (collected by C20/C20_Proofs.v); the model they speak about is
    C20/C20_Model.v, a hand transcription of the attemptODEStep / attemptDAEStep bodies, interpolateOrder3,
    adjustStepSize and the retry loop of takeOneStep, tied to the compiled code by the correspondence run of
    checks/C20.py on every run.

    C20 (error-controlled integrators deliver the requested accuracy) is claimed PARTIALLY.  Proved here, over the
    reals, for every right-hand side f / every input unless a theorem names a family:
      - each explicit method's step IS the generic Runge-Kutta step of the tableau printed in the source
        (C20_rk*_is_tableau, any f, any function space I -> R);
      - those tableaux satisfy Butcher's order conditions up to RK2: 2(1), RK3: 3(2), Merson: 4(3), Fehlberg:
        propagated 4, comparison 5 (C20_rk*_order_conditions), and no more (C20_*_order_is_sharp);
        the documented "fifth order" of RungeKuttaFeldberg is REFUTED for the solution that is propagated
        (C20_rkf_documented_order5_refuted, C20_rkf_not_exact_on_degree_5);
      - exactness on polynomial solutions of degree <= p (also for the cascade y' = g(t), z' = y, which exercises
        the A matrix), stability polynomial = exp through z^p, error estimate
        exactly proportional to h^errOrder on the first degree it sees (Fehlberg: h^5, although errOrder = 4);
      - one-step formulas of explicit Euler, semi-explicit Euler (1 and 2), Verlet on constant / time-linear
        accelerations; cubic Hermite interpolation reproduces cubics and is C1;
      - adjustStepSize: bounds 0.1 h .. 5 h, user limits, never shrinks when err <= accuracy, success iff
        err <= accuracy or step at the user minimum, rejected => step <= 0.9 h, hysteresis 1.2, targets
        0.9^p * accuracy under the h^p error model; the retry loop of takeOneStep accepts a step only if it
        converged with estimated error norm <= accuracy or the step is at the user's minimum
        (C20_accepted_step_meets_accuracy_partial).
      - calcErrorNorm over the (q,u,z) partition, both norms: the infinity norm is the maximum over ALL weighted
        components (C20_err_norm_inf_ge_every_component, C20_single_bad_z_component_bounds_inf_norm,
        C20_err_norm_inf_is_max, C20_inf_norm_le_acc_iff), the RMS norm is the largest block RMS and bounds every
        component up to sqrt(block size); a step accepted under the infinity norm has EVERY weighted error-estimate
        component within the accuracy (C20_accepted_step_every_component_within_accuracy).
    NOT decided (no theorem, and the check does not test it either): that the GLOBAL error over an interval is
    <= c * accuracy for general smooth ODEs (the order conditions are stated as rational identities; the classical
    theorem "order conditions => local error O(h^(p+1)) for every smooth f" is not formalised), that tightening the
    accuracy never makes the error substantially worse, convergence order of the fixed-step methods on general
    f, accuracy of interpolated states for non-polynomial solutions, constrained systems (projection), and all of
    CPodes.  Floating point is not modelled (theorems are over R). *)
From Coq Require Import ZArith List Reals Bool.
From Coquelicot Require Import Coquelicot.
Require Import Num C20_Model C20_Proofs.
Import ListNotations.
Local Open Scope R_scope.

Theorem C20_rk2_is_tableau :
  forall (I : Type) (f : R -> (I -> R) -> I -> R) (t0 h : R) (y0 : I -> R),
  rk2_step ROps (VF ROps I) f t0 (t0 + h) y0 (f t0 y0) =
  with_abs_err (rk_generic ROps (VF ROps I) f (rk2_tab ROps) t0 h y0).
Proof. exact @rk2_is_tableau. Qed.
Print Assumptions C20_rk2_is_tableau.

Theorem C20_rk3_is_tableau :
  forall (I : Type) (f : R -> (I -> R) -> I -> R) (t0 h : R) (y0 : I -> R),
  rk3_step ROps (VF ROps I) f t0 (t0 + h) y0 (f t0 y0) =
  with_abs_err (rk_generic ROps (VF ROps I) f (rk3_tab ROps) t0 h y0).
Proof. exact @rk3_is_tableau. Qed.
Print Assumptions C20_rk3_is_tableau.

Theorem C20_rkm_is_tableau :
  forall (I : Type) (f : R -> (I -> R) -> I -> R) (t0 h : R) (y0 : I -> R),
  rkm_step ROps (VF ROps I) f t0 (t0 + h) y0 (f t0 y0) =
  with_abs_err (rk_generic ROps (VF ROps I) f (rkm_tab ROps) t0 h y0).
Proof. exact @rkm_is_tableau. Qed.
Print Assumptions C20_rkm_is_tableau.

Theorem C20_rkf_is_tableau :
  forall (I : Type) (f : R -> (I -> R) -> I -> R) (t0 h : R) (y0 : I -> R),
  rkf_step ROps (VF ROps I) f t0 (t0 + h) y0 (f t0 y0) =
  with_diff_err (rk_generic ROps (VF ROps I) f (rkf_tab ROps) t0 h y0).
Proof. exact @rkf_is_tableau. Qed.
Print Assumptions C20_rkf_is_tableau.

Theorem C20_rk2_tableau_well_formed :
  well_formed (rk2_tab ROps) /\ row_sums (rk2_tab ROps).
Proof. exact @rk2_tableau_well_formed. Qed.
Print Assumptions C20_rk2_tableau_well_formed.

Theorem C20_rk3_tableau_well_formed :
  well_formed (rk3_tab ROps) /\ row_sums (rk3_tab ROps).
Proof. exact @rk3_tableau_well_formed. Qed.
Print Assumptions C20_rk3_tableau_well_formed.

Theorem C20_rkm_tableau_well_formed :
  well_formed (rkm_tab ROps) /\ row_sums (rkm_tab ROps).
Proof. exact @rkm_tableau_well_formed. Qed.
Print Assumptions C20_rkm_tableau_well_formed.

Theorem C20_rkf_tableau_well_formed :
  well_formed (rkf_tab ROps) /\ row_sums (rkf_tab ROps).
Proof. exact @rkf_tableau_well_formed. Qed.
Print Assumptions C20_rkf_tableau_well_formed.

Theorem C20_rk2_order_conditions :
  order_conditions 2 (rk2_tab ROps) (t_b (rk2_tab ROps)) /\
  order_conditions 1 (rk2_tab ROps) (t_bh (rk2_tab ROps)).
Proof. exact @rk2_order_conditions. Qed.
Print Assumptions C20_rk2_order_conditions.

Theorem C20_rk3_order_conditions :
  order_conditions 3 (rk3_tab ROps) (t_b (rk3_tab ROps)) /\
  order_conditions 2 (rk3_tab ROps) (t_bh (rk3_tab ROps)).
Proof. exact @rk3_order_conditions. Qed.
Print Assumptions C20_rk3_order_conditions.

Theorem C20_rkm_order_conditions :
  order_conditions 4 (rkm_tab ROps) (t_b (rkm_tab ROps)) /\
  order_conditions 3 (rkm_tab ROps) (t_bh (rkm_tab ROps)).
Proof. exact @rkm_order_conditions. Qed.
Print Assumptions C20_rkm_order_conditions.

Theorem C20_rkf_order_conditions :
  order_conditions 4 (rkf_tab ROps) (t_b (rkf_tab ROps)) /\
  order_conditions 5 (rkf_tab ROps) (t_bh (rkf_tab ROps)).
Proof. exact @rkf_order_conditions. Qed.
Print Assumptions C20_rkf_order_conditions.

Theorem C20_rk2_order_is_sharp :
  ~ order_conditions 3 (rk2_tab ROps) (t_b (rk2_tab ROps)).
Proof. exact @rk2_order_is_sharp. Qed.
Print Assumptions C20_rk2_order_is_sharp.

Theorem C20_rk3_order_is_sharp :
  ~ order_conditions 4 (rk3_tab ROps) (t_b (rk3_tab ROps)).
Proof. exact @rk3_order_is_sharp. Qed.
Print Assumptions C20_rk3_order_is_sharp.

Theorem C20_rkm_order_is_sharp :
  ~ order_conditions 5 (rkm_tab ROps) (t_b (rkm_tab ROps)).
Proof. exact @rkm_order_is_sharp. Qed.
Print Assumptions C20_rkm_order_is_sharp.

Theorem C20_rkf_documented_order5_refuted :
  ~ order_conditions 5 (rkf_tab ROps) (t_b (rkf_tab ROps)).
Proof. exact @rkf_documented_order5_refuted. Qed.
Print Assumptions C20_rkf_documented_order5_refuted.

Theorem C20_rk2_exact_on_polynomials_deg_le_2 :
  forall (t0 h y0 : R) (cs : list R),
  (length cs <= 2)%nat ->
  fst (rk2_step ROps (VS ROps) (quad cs) t0 (t0 + h) y0 (quad cs t0 y0)) =
  y0 + (pint cs (t0 + h) - pint cs t0).
Proof. exact @rk2_exact_on_polynomials_deg_le_2. Qed.
Print Assumptions C20_rk2_exact_on_polynomials_deg_le_2.

Theorem C20_rk3_exact_on_polynomials_deg_le_3 :
  forall (t0 h y0 : R) (cs : list R),
  (length cs <= 3)%nat ->
  fst (rk3_step ROps (VS ROps) (quad cs) t0 (t0 + h) y0 (quad cs t0 y0)) =
  y0 + (pint cs (t0 + h) - pint cs t0).
Proof. exact @rk3_exact_on_polynomials_deg_le_3. Qed.
Print Assumptions C20_rk3_exact_on_polynomials_deg_le_3.

Theorem C20_rkm_exact_on_polynomials_deg_le_4 :
  forall (t0 h y0 : R) (cs : list R),
  (length cs <= 4)%nat ->
  fst (rkm_step ROps (VS ROps) (quad cs) t0 (t0 + h) y0 (quad cs t0 y0)) =
  y0 + (pint cs (t0 + h) - pint cs t0).
Proof. exact @rkm_exact_on_polynomials_deg_le_4. Qed.
Print Assumptions C20_rkm_exact_on_polynomials_deg_le_4.

Theorem C20_rkf_exact_on_polynomials_deg_le_4 :
  forall (t0 h y0 : R) (cs : list R),
  (length cs <= 4)%nat ->
  fst (rkf_step ROps (VS ROps) (quad cs) t0 (t0 + h) y0 (quad cs t0 y0)) =
  y0 + (pint cs (t0 + h) - pint cs t0).
Proof. exact @rkf_exact_on_polynomials_deg_le_4. Qed.
Print Assumptions C20_rkf_exact_on_polynomials_deg_le_4.

Theorem C20_euler_exact_on_polynomials_deg_le_1 :
  forall (t0 h y0 : R) (cs : list R),
  (length cs <= 1)%nat ->
  fst (euler_step ROps (VS ROps) (quad cs) t0 (t0 + h) y0 (quad cs t0 y0)) =
  y0 + (pint cs (t0 + h) - pint cs t0).
Proof. exact @euler_exact_on_polynomials_deg_le_1. Qed.
Print Assumptions C20_euler_exact_on_polynomials_deg_le_1.

Theorem C20_rkf_not_exact_on_degree_5 :
  forall h : R, fst (rkf_step ROps (VS ROps) (quad [0; 0; 0; 0; 1]) 0 h 0 0) = h ^ 5 / 5 - h ^ 5 / 2080.
Proof. exact @rkf_not_exact_on_degree_5. Qed.
Print Assumptions C20_rkf_not_exact_on_degree_5.

Theorem C20_rkm_not_exact_on_degree_5 :
  forall h : R, fst (rkm_step ROps (VS ROps) (quad [0; 0; 0; 0; 1]) 0 h 0 0) = h ^ 5 / 5 + h ^ 5 / 120.
Proof. exact @rkm_not_exact_on_degree_5. Qed.
Print Assumptions C20_rkm_not_exact_on_degree_5.

Theorem C20_rk2_stability_function :
  forall t0 h y0 lam : R,
  fst (rk2_step ROps (VS ROps) (lin lam) t0 (t0 + h) y0 (lin lam t0 y0)) =
  (let z := h * lam in 1 + z + z ^ 2 / 2) * y0.
Proof. exact @rk2_stability_function. Qed.
Print Assumptions C20_rk2_stability_function.

Theorem C20_rk3_stability_function :
  forall t0 h y0 lam : R,
  fst (rk3_step ROps (VS ROps) (lin lam) t0 (t0 + h) y0 (lin lam t0 y0)) =
  (let z := h * lam in 1 + z + z ^ 2 / 2 + z ^ 3 / 6) * y0.
Proof. exact @rk3_stability_function. Qed.
Print Assumptions C20_rk3_stability_function.

Theorem C20_rkm_stability_function :
  forall t0 h y0 lam : R,
  fst (rkm_step ROps (VS ROps) (lin lam) t0 (t0 + h) y0 (lin lam t0 y0)) =
  (let z := h * lam in 1 + z + z ^ 2 / 2 + z ^ 3 / 6 + z ^ 4 / 24 + z ^ 5 / 144) * y0.
Proof. exact @rkm_stability_function. Qed.
Print Assumptions C20_rkm_stability_function.

Theorem C20_rkf_stability_function :
  forall t0 h y0 lam : R,
  fst (rkf_step ROps (VS ROps) (lin lam) t0 (t0 + h) y0 (lin lam t0 y0)) =
  (let z := h * lam in 1 + z + z ^ 2 / 2 + z ^ 3 / 6 + z ^ 4 / 24 + z ^ 5 / 104) * y0.
Proof. exact @rkf_stability_function. Qed.
Print Assumptions C20_rkf_stability_function.

Theorem C20_euler_stability_function :
  forall t0 h y0 lam : R,
  fst (euler_step ROps (VS ROps) (lin lam) t0 (t0 + h) y0 (lin lam t0 y0)) = (1 + h * lam) * y0.
Proof. exact @euler_stability_function. Qed.
Print Assumptions C20_euler_stability_function.

Theorem C20_rk2_error_estimate_order :
  forall t0 h y0 a0 a1 : R,
  snd (rk2_step ROps (VS ROps) (quad [a0; a1]) t0 (t0 + h) y0 (quad [a0; a1] t0 y0)) =
  Rabs (a1 * h ^ 2 / 2).
Proof. exact @rk2_error_estimate_order. Qed.
Print Assumptions C20_rk2_error_estimate_order.

Theorem C20_rk3_error_estimate_order :
  forall t0 h y0 a0 a1 a2 : R,
  snd (rk3_step ROps (VS ROps) (quad [a0; a1; a2]) t0 (t0 + h) y0 (quad [a0; a1; a2] t0 y0)) =
  Rabs (a2 * h ^ 3 / 12).
Proof. exact @rk3_error_estimate_order. Qed.
Print Assumptions C20_rk3_error_estimate_order.

Theorem C20_rkm_error_estimate_order :
  forall t0 h y0 a0 a1 a2 a3 : R,
  snd (rkm_step ROps (VS ROps) (quad [a0; a1; a2; a3]) t0 (t0 + h) y0 (quad [a0; a1; a2; a3] t0 y0)) =
  Rabs (a3 * h ^ 4 / 90).
Proof. exact @rkm_error_estimate_order. Qed.
Print Assumptions C20_rkm_error_estimate_order.

Theorem C20_rkf_error_estimate_order :
  forall t0 h y0 a0 a1 a2 a3 a4 : R,
  snd
    (rkf_step ROps (VS ROps) (quad [a0; a1; a2; a3; a4]) t0 (t0 + h) y0
       (quad [a0; a1; a2; a3; a4] t0 y0)) = a4 * h ^ 5 / 2080.
Proof. exact @rkf_error_estimate_order. Qed.
Print Assumptions C20_rkf_error_estimate_order.

Theorem C20_euler_error_estimate_order :
  forall t0 h y0 a0 a1 : R,
  snd (euler_step ROps (VS ROps) (quad [a0; a1]) t0 (t0 + h) y0 (quad [a0; a1] t0 y0)) =
  - (a1 * h ^ 2 / 2).
Proof. exact @euler_error_estimate_order. Qed.
Print Assumptions C20_euler_error_estimate_order.

Theorem C20_euler_one_step_consistency :
  forall (t0 h y0 : R) (f : R -> R -> R),
  let r := euler_step ROps (VS ROps) f t0 (t0 + h) y0 (f t0 y0) in
  fst r = y0 + h * f t0 y0 /\ snd r = h / 2 * (f t0 y0 - f (t0 + h) (fst r)).
Proof. exact @euler_one_step_consistency. Qed.
Print Assumptions C20_euler_one_step_consistency.

Theorem C20_rk2_exact_on_cascade :
  forall (t0 h y0 z0 : R) (cs : list R),
  (length cs <= 1)%nat ->
  forall i : bool,
  fst (rk2_step ROps (VF ROps bool) (casc cs) t0 (t0 + h) (casc0 y0 z0) (casc cs t0 (casc0 y0 z0))) i =
  casc_exact cs t0 h y0 z0 i.
Proof. exact @rk2_exact_on_cascade. Qed.
Print Assumptions C20_rk2_exact_on_cascade.

Theorem C20_rk3_exact_on_cascade :
  forall (t0 h y0 z0 : R) (cs : list R),
  (length cs <= 2)%nat ->
  forall i : bool,
  fst (rk3_step ROps (VF ROps bool) (casc cs) t0 (t0 + h) (casc0 y0 z0) (casc cs t0 (casc0 y0 z0))) i =
  casc_exact cs t0 h y0 z0 i.
Proof. exact @rk3_exact_on_cascade. Qed.
Print Assumptions C20_rk3_exact_on_cascade.

Theorem C20_rkm_exact_on_cascade :
  forall (t0 h y0 z0 : R) (cs : list R),
  (length cs <= 3)%nat ->
  forall i : bool,
  fst (rkm_step ROps (VF ROps bool) (casc cs) t0 (t0 + h) (casc0 y0 z0) (casc cs t0 (casc0 y0 z0))) i =
  casc_exact cs t0 h y0 z0 i.
Proof. exact @rkm_exact_on_cascade. Qed.
Print Assumptions C20_rkm_exact_on_cascade.

Theorem C20_rkf_exact_on_cascade :
  forall (t0 h y0 z0 : R) (cs : list R),
  (length cs <= 3)%nat ->
  forall i : bool,
  fst (rkf_step ROps (VF ROps bool) (casc cs) t0 (t0 + h) (casc0 y0 z0) (casc cs t0 (casc0 y0 z0))) i =
  casc_exact cs t0 h y0 z0 i.
Proof. exact @rkf_exact_on_cascade. Qed.
Print Assumptions C20_rkf_exact_on_cascade.

Theorem C20_sxe_one_step_consistency :
  forall (t0 h q0 u0 z0 : R) (n : R -> R) (udot0 zdot0 : R),
  sxe_step ROps (VS ROps) (nmulS n) t0 (t0 + h) q0 u0 z0 udot0 zdot0 =
  (q0 + h * (n q0 * u0) + h ^ 2 * (n q0 * udot0), u0 + h * udot0, z0 + h * zdot0).
Proof. exact @sxe_one_step_consistency. Qed.
Print Assumptions C20_sxe_one_step_consistency.

Theorem C20_sxe_free_fall_error :
  forall (t0 h q0 u0 z0 : R) (n : R -> R) (a b : R),
  (forall x : R, n x = 1) ->
  sxe_step ROps (VS ROps) (nmulS n) t0 (t0 + h) q0 u0 z0 a b =
  (q0 + h * u0 + a * h ^ 2 / 2 + a * h ^ 2 / 2, u0 + h * a, z0 + h * b).
Proof. exact @sxe_free_fall_error. Qed.
Print Assumptions C20_sxe_free_fall_error.

Theorem C20_sxe2_free_fall :
  forall (t0 h q0 u0 z0 : R) (n : R -> R) (a b : R),
  (forall x : R, n x = 1) ->
  sxe2_step ROps (VS ROps) (nmulS n) (fun _ _ _ _ : R => (a, b)) t0 (t0 + h) q0 u0 z0 a b =
  (q0 + h * u0 + a * h ^ 2 / 2 + a * h ^ 2 / 4, u0 + h * a, z0 + h * b, (- (a * h ^ 2 / 4), 0, 0)).
Proof. exact @sxe2_free_fall. Qed.
Print Assumptions C20_sxe2_free_fall.

Theorem C20_sxe2_one_step_consistency :
  forall (t0 h q0 u0 z0 : R) (n : R -> R) (facc : R -> R -> R -> R -> R * R) (udot0 zdot0 : R),
  let r := sxe2_step ROps (VS ROps) (nmulS n) facc t0 (t0 + h) q0 u0 z0 udot0 zdot0 in
  let uH := u0 + h / 2 * udot0 in
  let zH := z0 + h / 2 * zdot0 in
  let qH := q0 + h / 2 * (n q0 * uH) in
  let a := facc (t0 + h / 2) qH uH zH in
  snd (fst (fst r)) = u0 + h / 2 * udot0 + h / 2 * fst a /\
  snd (fst r) = z0 + h / 2 * zdot0 + h / 2 * snd a /\
  snd (fst (snd r)) = h / 2 * (fst a - udot0) /\ snd (snd r) = h / 2 * (snd a - zdot0).
Proof. exact @sxe2_one_step_consistency. Qed.
Print Assumptions C20_sxe2_one_step_consistency.

Theorem C20_verlet_exact_constant_acceleration :
  forall t0 h q0 u0 z0 a b tiny tol : R,
  0 < tiny ->
  0 <= tol ->
  verlet_step ROps (VS ROps) (nmulS (fun _ : R => 1)) (fun _ _ _ _ : R => (a, b)) Rabs t0 
    (t0 + h) q0 u0 z0 (1 * u0) a b a tiny tol =
  (q0 + h * u0 + a * h ^ 2 / 2, u0 + h * a, z0 + h * b, (0, 0, 0), true, 1%nat).
Proof. exact @verlet_exact_constant_acceleration. Qed.
Print Assumptions C20_verlet_exact_constant_acceleration.

Theorem C20_verlet_time_linear_acceleration :
  forall h q0 u0 a c tiny tol : R,
  0 < tiny ->
  0 <= tol ->
  let r :=
    verlet_step ROps (VS ROps) (nmulS (fun _ : R => 1)) (fun t _ _ _ : R => (a + c * t, 0)) Rabs 0 h q0
      u0 0 (1 * u0) a 0 a tiny tol in
  fst (fst (fst r)) =
  (q0 + h * u0 + a * h ^ 2 / 2 + c * h ^ 3 / 6 - c * h ^ 3 / 6, u0 + h * a + c * h ^ 2 / 2, 0) /\
  snd (fst r) = true.
Proof. exact @verlet_time_linear_acceleration. Qed.
Print Assumptions C20_verlet_time_linear_acceleration.

Theorem C20_hermite_interp_exact_on_cubics :
  forall t0 t1 : R,
  t1 <> t0 ->
  forall a0 a1 a2 a3 t : R,
  hermite ROps (VS ROps) t0 (cubic a0 a1 a2 a3 t0) (dcubic a0 a1 a2 a3 t0) t1 
    (cubic a0 a1 a2 a3 t1) (dcubic a0 a1 a2 a3 t1) t = cubic a0 a1 a2 a3 t.
Proof. exact @hermite_interp_exact_on_cubics. Qed.
Print Assumptions C20_hermite_interp_exact_on_cubics.

Theorem C20_hermite_interp_endpoints :
  forall t0 t1 : R,
  t1 <> t0 ->
  forall y0 f0 y1 f1 : R,
  hermite ROps (VS ROps) t0 y0 f0 t1 y1 f1 t0 = y0 /\ hermite ROps (VS ROps) t0 y0 f0 t1 y1 f1 t1 = y1.
Proof. exact @hermite_interp_endpoints. Qed.
Print Assumptions C20_hermite_interp_endpoints.

Theorem C20_hermite_interp_end_slopes :
  forall t0 t1 : R,
  t1 <> t0 ->
  forall y0 f0 y1 f1 : R,
  is_derive (fun t : R_AbsRing => hermite ROps (VS ROps) t0 y0 f0 t1 y1 f1 t) t0 f0 /\
  is_derive (fun t : R_AbsRing => hermite ROps (VS ROps) t0 y0 f0 t1 y1 f1 t) t1 f1.
Proof. exact @hermite_interp_end_slopes. Qed.
Print Assumptions C20_hermite_interp_end_slopes.

Theorem C20_adjust_bounded :
  forall (err : R) (p : Z) (limited : bool) (acc cur : R),
  0 < cur ->
  0 < acc ->
  0 <= err ->
  (1 <= p)%Z ->
  forall umin umax : option R,
  (forall b : R, umax = Some b -> 1 / 10 * cur <= b) ->
  (forall a : R, umin = Some a -> a <= 5 * cur) ->
  1 / 10 * cur <= snd (adjR true err p limited acc cur umin umax) <= 5 * cur.
Proof. exact @adjust_bounded. Qed.
Print Assumptions C20_adjust_bounded.

Theorem C20_adjust_respects_user_limits :
  forall (err : R) (p : Z) (limited : bool) (acc cur : R),
  0 < cur ->
  0 < acc ->
  0 <= err ->
  (1 <= p)%Z ->
  forall umin umax : option R,
  (forall a b : R, umin = Some a -> umax = Some b -> a <= b) ->
  (forall a : R, umin = Some a -> a <= snd (adjR true err p limited acc cur umin umax)) /\
  (forall b : R, umax = Some b -> snd (adjR true err p limited acc cur umin umax) <= b).
Proof. exact @adjust_respects_user_limits. Qed.
Print Assumptions C20_adjust_respects_user_limits.

Theorem C20_adjust_positive :
  forall (err : R) (p : Z) (limited : bool) (acc cur : R),
  0 < cur ->
  0 < acc ->
  0 <= err ->
  (1 <= p)%Z ->
  forall umin umax : option R,
  (forall b : R, umax = Some b -> 0 < b) -> 0 < snd (adjR true err p limited acc cur umin umax).
Proof. exact @adjust_positive. Qed.
Print Assumptions C20_adjust_positive.

Theorem C20_adjust_success_iff_not_smaller :
  forall (err : R) (p : Z) (limited : bool) (acc cur : R) (umin umax : option R),
  fst (adjR true err p limited acc cur umin umax) = true <->
  cur <= snd (adjR true err p limited acc cur umin umax).
Proof. exact @adjust_success_iff_not_smaller. Qed.
Print Assumptions C20_adjust_success_iff_not_smaller.

Theorem C20_adjust_never_shrinks_when_accurate :
  forall (err : R) (p : Z) (limited : bool) (acc cur : R),
  0 < cur ->
  0 < acc ->
  0 <= err ->
  (1 <= p)%Z ->
  forall umin umax : option R,
  err <= acc ->
  (forall b : R, umax = Some b -> cur <= b) ->
  fst (adjR true err p limited acc cur umin umax) = true /\
  cur <= snd (adjR true err p limited acc cur umin umax).
Proof. exact @adjust_never_shrinks_when_accurate. Qed.
Print Assumptions C20_adjust_never_shrinks_when_accurate.

Theorem C20_adjust_success_iff :
  forall (err : R) (p : Z) (limited : bool) (acc cur : R),
  0 < cur ->
  0 < acc ->
  0 <= err ->
  (1 <= p)%Z ->
  forall umin umax : option R,
  (forall b : R, umax = Some b -> cur <= b) ->
  fst (adjR true err p limited acc cur umin umax) = true <->
  err <= acc \/ (exists a : R, umin = Some a /\ cur <= a).
Proof. exact @adjust_success_iff. Qed.
Print Assumptions C20_adjust_success_iff.

Theorem C20_adjust_reject_shrinks :
  forall (err : R) (p : Z) (limited : bool) (acc cur : R),
  0 < cur ->
  0 < acc ->
  0 <= err ->
  (1 <= p)%Z ->
  forall umin umax : option R,
  (forall b : R, umax = Some b -> cur <= b) ->
  fst (adjR true err p limited acc cur umin umax) = false ->
  snd (adjR true err p limited acc cur umin umax) < cur /\
  (snd (adjR true err p limited acc cur umin umax) <= 9 / 10 * cur \/
   umin = Some (snd (adjR true err p limited acc cur umin umax))).
Proof. exact @adjust_reject_shrinks. Qed.
Print Assumptions C20_adjust_reject_shrinks.

Theorem C20_adjust_limited_never_grows :
  forall (err : R) (p : Z) (limited : bool) (acc cur : R),
  0 < cur ->
  0 < acc ->
  0 <= err ->
  (1 <= p)%Z ->
  forall umin umax : option R,
  limited = true ->
  (forall a : R, umin = Some a -> a <= cur) -> snd (adjR true err p limited acc cur umin umax) <= cur.
Proof. exact @adjust_limited_never_grows. Qed.
Print Assumptions C20_adjust_limited_never_grows.

Theorem C20_adjust_growth_hysteresis :
  forall (err : R) (p : Z) (limited : bool) (acc cur : R),
  0 < cur ->
  0 < acc ->
  0 <= err ->
  (1 <= p)%Z ->
  forall umin umax : option R,
  cur < snd (adjR true err p limited acc cur umin umax) ->
  (forall a : R, umin = Some a -> a <= cur) ->
  12 / 10 * cur <= snd (adjR true err p limited acc cur umin umax) \/
  umax = Some (snd (adjR true err p limited acc cur umin umax)).
Proof. exact @adjust_growth_hysteresis. Qed.
Print Assumptions C20_adjust_growth_hysteresis.

Theorem C20_adjust_zero_error :
  forall (err : R) (p : Z) (limited : bool) (acc cur : R),
  0 < cur ->
  0 < acc ->
  forall umin umax : option R,
  err = 0 ->
  limited = false ->
  umin = None -> umax = None -> adjR true err p limited acc cur umin umax = (true, 5 * cur).
Proof. exact @adjust_zero_error. Qed.
Print Assumptions C20_adjust_zero_error.

Theorem C20_adjust_targets_accuracy :
  forall (err : R) (p : Z) (limited : bool) (acc cur : R),
  0 < cur ->
  0 < acc ->
  0 <= err ->
  (1 <= p)%Z ->
  forall umin umax : option R,
  acc < err ->
  umin = None ->
  umax = None ->
  1 / 10 <= 9 / 10 * Rpower (acc / err) (1 / IZR p) ->
  snd (adjR true err p limited acc cur umin umax) = 9 / 10 * cur * Rpower (acc / err) (1 / IZR p) /\
  err * Rpower (snd (adjR true err p limited acc cur umin umax) / cur) (IZR p) =
  Rpower (9 / 10) (IZR p) * acc.
Proof. exact @adjust_targets_accuracy. Qed.
Print Assumptions C20_adjust_targets_accuracy.

Theorem C20_adjust_nonfinite_error :
  forall (err : R) (p : Z) (limited : bool) (acc cur : R),
  0 < cur -> Rleb err acc = false -> adjR false err p limited acc cur None None = (false, 1 / 10 * cur).
Proof. exact @adjust_nonfinite_error. Qed.
Print Assumptions C20_adjust_nonfinite_error.

Theorem C20_accepted_step_meets_accuracy_partial :
  forall (A : Type) (attempt : R -> bool * R * Z * A) (inf t0 tMax acc : R) (umin umax : option R),
  0 < acc ->
  acc < inf ->
  (forall t : R, let '(_, en, ord, _) := attempt t in 0 <= en /\ (1 <= ord)%Z) ->
  forall (fuel : nat) (cur : R) (nfail : nat) (res : A) (t1 h' : R) (nf : nat),
  0 < cur ->
  (forall b : R, umax = Some b -> cur <= b) ->
  (forall a b : R, umin = Some a -> umax = Some b -> a <= b) ->
  take_step ROps Rpower fuel attempt inf t0 tMax acc cur umin umax nfail = Some (res, t1, h', nf) ->
  exists (c : R) (conv : bool) (en : R) (ord : Z),
    0 < c /\
    fst (sel_t1 ROps t0 tMax c) = t1 /\
    attempt t1 = (conv, en, ord, res) /\
    (conv = true /\ en <= acc \/ (exists a : R, umin = Some a /\ c <= a)).
Proof. exact @take_step_accepts_only_accurate. Qed.
Print Assumptions C20_accepted_step_meets_accuracy_partial.

Theorem C20_adjust_regime_nonvacuous :
  exists (err : R) (p : Z) (acc cur : R),
    0 < cur /\
    0 < acc /\ 0 <= err /\ (1 <= p)%Z /\ acc < err /\ 1 / 10 <= 9 / 10 * Rpower (acc / err) (1 / IZR p).
Proof. exact @adjust_regime_nonvacuous. Qed.
Print Assumptions C20_adjust_regime_nonvacuous.

Theorem C20_take_step_nonvacuous :
  take_step ROps Rpower 1 (fun _ : R => (true, 0, 4%Z, tt)) 1000 0 1 (1 / 1000) (1 / 10) None None 0 =
  Some (tt, 0 + 1 / 10, 5 * (1 / 10), 0%nat).
Proof. exact @take_step_nonvacuous. Qed.
Print Assumptions C20_take_step_nonvacuous.

Theorem C20_order_conditions_discriminate :
  ~ order_conditions 1 (rk2_tab ROps) [1; 1].
Proof. exact @order_conditions_discriminate. Qed.
Print Assumptions C20_order_conditions_discriminate.

(** ------------------------------------------------------------------------------------------
    calcErrorNorm over the (q,u,z) partition (IntegratorRep.h), both settings of setUseInfinityNorm *)
Theorem C20_err_norm_inf_ge_every_component wq su sz eq eu ez :
  (forall i, (i < blen wq eq)%nat -> wc wq eq i <= err_norm_inf ROps wq su sz eq eu ez) /\
  (forall i, (i < blen su eu)%nat -> wc su eu i <= err_norm_inf ROps wq su sz eq eu ez) /\
  (forall i, (i < blen sz ez)%nat -> wc sz ez i <= err_norm_inf ROps wq su sz eq eu ez).
Proof. exact (err_norm_inf_ge_every_component wq su sz eq eu ez). Qed.
Print Assumptions C20_err_norm_inf_ge_every_component.

(** a single bad z component bounds the infinity norm from below, whatever q and u are *)
Theorem C20_single_bad_z_component_bounds_inf_norm wq su sz eq eu ez i : (i < blen sz ez)%nat ->
  Rabs (nth i sz 0 * nth i ez 0) <= err_norm_inf ROps wq su sz eq eu ez.
Proof. exact (single_bad_z_component_bounds_inf_norm wq su sz eq eu ez i). Qed.
Print Assumptions C20_single_bad_z_component_bounds_inf_norm.

Theorem C20_err_norm_inf_is_max wq su sz eq eu ez c : 0 <= c ->
  (forall i, (i < blen wq eq)%nat -> wc wq eq i <= c) -> (forall i, (i < blen su eu)%nat -> wc su eu i <= c) ->
  (forall i, (i < blen sz ez)%nat -> wc sz ez i <= c) -> err_norm_inf ROps wq su sz eq eu ez <= c.
Proof. exact (err_norm_inf_is_max wq su sz eq eu ez c). Qed.
Print Assumptions C20_err_norm_inf_is_max.

Theorem C20_inf_norm_le_acc_iff wq su sz eq eu ez acc : 0 <= acc ->
  (err_norm_inf ROps wq su sz eq eu ez <= acc <->
   (forall i, (i < blen wq eq)%nat -> wc wq eq i <= acc) /\ (forall i, (i < blen su eu)%nat -> wc su eu i <= acc) /\
   (forall i, (i < blen sz ez)%nat -> wc sz ez i <= acc)).
Proof. exact (inf_norm_le_acc_iff wq su sz eq eu ez acc). Qed.
Print Assumptions C20_inf_norm_le_acc_iff.

Theorem C20_wrms_component_bound ws es i : (i < blen ws es)%nat ->
  wc ws es i <= sqrt (INR (length es)) * wrms ROps ws es.
Proof. exact (wrms_component_bound ws es i). Qed.
Print Assumptions C20_wrms_component_bound.

Theorem C20_err_norm_rms_is_max_of_blocks wq su sz eq eu ez :
  let p := err_norm ROps wq su sz eq eu ez in
  wrms ROps wq eq <= p /\ wrms ROps su eu <= p /\ wrms ROps sz ez <= p /\
  (p = wrms ROps wq eq \/ p = wrms ROps su eu \/ p = wrms ROps sz ez).
Proof. exact (err_norm_rms_is_max_of_blocks wq su sz eq eu ez). Qed.
Print Assumptions C20_err_norm_rms_is_max_of_blocks.

Theorem C20_single_bad_z_component_bounds_rms_norm wq su sz eq eu ez i : (i < blen sz ez)%nat ->
  Rabs (nth i sz 0 * nth i ez 0) <= sqrt (INR (length ez)) * err_norm ROps wq su sz eq eu ez.
Proof. exact (single_bad_z_component_bounds_rms_norm wq su sz eq eu ez i). Qed.
Print Assumptions C20_single_bad_z_component_bounds_rms_norm.

(** a step accepted by the retry loop of takeOneStep under the infinity norm either converged with EVERY weighted
    error-estimate component of q, u and z within the accuracy, or was taken at the user's minimum step size *)
Theorem C20_accepted_step_every_component_within_accuracy (A:Type) wq su sz
  (est : R -> bool * (list R * list R * list R) * Z * A) inf t0 tMax acc umin umax :
  0 < acc -> acc < inf -> (forall t, let '(_, _, ord, _) := est t in (1 <= ord)%Z) ->
  forall fuel cur nfail res t1 h' nf,
  0 < cur -> (forall b, umax = Some b -> cur <= b) -> (forall a b, umin = Some a -> umax = Some b -> a <= b) ->
  take_step ROps Rpower fuel (attempt_inf wq su sz est) inf t0 tMax acc cur umin umax nfail = Some (res, t1, h', nf) ->
  exists c conv eq eu ez ord, 0 < c /\ fst (sel_t1 ROps t0 tMax c) = t1 /\ est t1 = (conv, (eq, eu, ez), ord, res) /\
    ((conv = true /\
      (forall i, (i < blen wq eq)%nat -> wc wq eq i <= acc) /\ (forall i, (i < blen su eu)%nat -> wc su eu i <= acc) /\
      (forall i, (i < blen sz ez)%nat -> wc sz ez i <= acc))
     \/ (exists a, umin = Some a /\ c <= a)).
Proof. exact (@accepted_step_every_component_within_accuracy A wq su sz est inf t0 tMax acc umin umax). Qed.
Print Assumptions C20_accepted_step_every_component_within_accuracy.

Theorem C20_inf_norm_example : err_norm_inf ROps [1] [1] [1; 2] [1/100] [1/50] [1/100; 3] = 6.
Proof. exact inf_norm_example. Qed.
Print Assumptions C20_inf_norm_example.
