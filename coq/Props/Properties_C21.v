(** C21 property theorems (partial; statements only, proofs in C19/C19_Proofs.v).  Model: C19/C19_Model.v with the
    flags advProj ("the advanced state is the end of a step that left attemptDAEStep through its projecting exit,
    or the projected initial / backed-up state") and intProj ("the interpolated state was created with projection").
    That a projection achieves its tolerance is the contract of System::project (C09) and is not modelled. *)
From Coq Require Import QArith List Bool Reals.
Require Import Num C19_Model C19_Proofs C21_Model C21_Proofs.
Import ListNotations.
Local Open Scope Q_scope.

(** every state returned by stepTo is either the advanced state at the end of a projected step, or an interpolated
    state created with the projection option the user chose *)
Theorem C21_every_returned_state_projected_partial c reqs s orc :
  Inv c s -> reqs_ok c s reqs orc -> advProj s = true -> Forall step_proj_ok orc ->
  Forall (proj_ok c) (run c s reqs orc).
Proof. exact (every_returned_state_projected_partial c reqs s orc). Qed.
Print Assumptions C21_every_returned_state_projected_partial.

(** the state integration resumes from after an event localized strictly inside a step -- the advanced state made by
    backUpAdvancedStateByInterpolation, also the state handed to event handlers -- has passed projection: for every
    configuration (in particular with projection of interpolated states switched off), every state, every request and
    every oracle answer, with no hypothesis.  ([step_proj_ok o] above is [step_end_proj o = true]: a backed-up step end
    counts as projected whatever the accepted attempt did; createInterpolatedState, by contrast, follows the option.) *)
Theorem C21_state_resumed_after_backed_up_event_projected c s report sched orc st s' orc' us u :
  stepTo c s report sched orc = Ok (st, s', orc', us) -> last_use us = Some u -> backed_up (u_o u) = true ->
  advProj s' = true.
Proof. exact (state_resumed_after_backed_up_event_projected c s report sched orc st s' orc' us u). Qed.
Print Assumptions C21_state_resumed_after_backed_up_event_projected.

(** non-vacuity: in the example script the event step is backed up (window (0.6,0.7], accepted attempt ends at 0.8) *)
Theorem C21_backed_up_example : existsb backed_up ex_orc = true.
Proof. exact c21_backed_up_example. Qed.
Print Assumptions C21_backed_up_example.

Theorem C21_interp_without_projection_only_when_disabled c reqs s orc x st s' us :
  Inv c s -> reqs_ok c s reqs orc -> In x (run c s reqs orc) -> cr_res x = Ok (st, s', us) ->
  interp s' = true -> intProj s' = false -> projInterp c = false.
Proof. exact (interp_without_projection_only_when_disabled c reqs s orc x st s' us). Qed.
Print Assumptions C21_interp_without_projection_only_when_disabled.

(** non-vacuity: the script of C19_clause_hypotheses_satisfiable also satisfies the two extra hypotheses *)
Theorem C21_hypotheses_satisfiable :
  Inv ex_cfg (init_state 0) /\ reqs_ok ex_cfg (init_state 0) ex_reqs ex_orc /\ advProj (init_state 0) = true /\
  Forall step_proj_ok ex_orc.
Proof. exact c21_hypotheses_satisfiable. Qed.
Print Assumptions C21_hypotheses_satisfiable.

(** ------------------------------------------------------------------------------------------
    where the per-step flag [proj] comes from: the attempt loop of takeOneStep with the default attemptDAEStep and
    adjustStepSize (C21/C21_Model.v), over the reals *)
(** adjustStepSize accepts a step whose error estimate is not finite (e.g. not converged) or exceeds the accuracy
    only when the user's minimum step size forbids shrinking *)
Theorem C21_adjust_accepts_bad_step_only_at_min_step fin zero limited (cand h:R) minS maxS :
  (0 < h)%R -> (fin = false \/ (zero = false /\ (cand < h)%R)) ->
  snd (adjust ROps fin zero limited false cand h minS maxS) = true ->
  exists m, minS = Some m /\ (h <= m)%R.
Proof. exact (adjust_accepts_bad_step_only_at_min_step fin zero limited cand h minS maxS). Qed.
Print Assumptions C21_adjust_accepts_bad_step_only_at_min_step.

(** the step accepted by takeOneStep left attemptDAEStep through its projecting exit, unless it was accepted at a step
    size not above the user's minimum step size *)
Theorem C21_unprojected_step_only_at_min_step_partial minS maxS l (h hu hn:R) :
  (0 < h)%R -> (forall M, maxS = Some M -> (0 < M)%R) -> atts_ok minS maxS h l ->
  attempts ROps true minS maxS h l = Some (false, hu, hn) ->
  exists m, minS = Some m /\ (hu <= m)%R.
Proof. exact (unprojected_step_only_at_min_step_partial minS maxS l h hu hn). Qed.
Print Assumptions C21_unprojected_step_only_at_min_step_partial.

(** ... and at the minimum step size an unprojected step is accepted (exact rationals; replayed on RungeKutta2/3) *)
Theorem C21_every_accepted_step_projected_refuted :
  attempts QOps true (Some (1#10)%Q) None (1#10)%Q [bad_attempt] = Some (false, (1#10)%Q, (1#10)%Q).
Proof. exact every_accepted_step_projected_refuted. Qed.
Print Assumptions C21_every_accepted_step_projected_refuted.

Theorem C21_attempt_contract_satisfiable : atts_ok (Some (1/10)%R) None (1/10)%R [bad_attempt_R] /\ (0 < 1/10)%R.
Proof. exact contract_satisfiable. Qed.
Print Assumptions C21_attempt_contract_satisfiable.

(** "within tolerance" is relative to the norm the integrator was asked to use (setUseInfinityNorm): acceptance in the
    RMS norm does not give acceptance in the infinity norm, the converse holds *)
Theorem C21_rms_within_does_not_give_inf_within :
  within_tol QOps false [(3#2)%Q; 0%Q; 0%Q; 0%Q] 1%Q = true /\ within_tol QOps true [(3#2)%Q; 0%Q; 0%Q; 0%Q] 1%Q = false.
Proof. exact rms_within_does_not_give_inf_within. Qed.
Print Assumptions C21_rms_within_does_not_give_inf_within.

Theorem C21_inf_within_gives_rms_within (errs:list R) (tol:R) :
  (0 <= tol)%R -> within_tol ROps true errs tol = true -> within_tol ROps false errs tol = true.
Proof. exact (inf_within_gives_rms_within errs tol). Qed.
Print Assumptions C21_inf_within_gives_rms_within.
