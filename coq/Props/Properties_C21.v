(** C21 property theorems (partial; statements only, proofs in C19/C19_Proofs.v).  Model: C19/C19_Model.v with the
    flags advProj ("the advanced state is the end of a step that left attemptDAEStep through its projecting exit,
    or the projected initial / backed-up state") and intProj ("the interpolated state was created with projection").
    That a projection achieves its tolerance is the contract of System::project (C09) and is not modelled. *)
From Coq Require Import QArith List Bool.
Require Import C19_Model C19_Proofs.
Import ListNotations.
Local Open Scope Q_scope.

(** every state returned by stepTo is either the advanced state at the end of a projected step, or an interpolated
    state created with the projection option the user chose *)
Theorem C21_every_returned_state_projected_partial c reqs s orc :
  Inv c s -> reqs_ok c s reqs orc -> advProj s = true -> Forall (fun o => proj o = true) orc ->
  Forall (proj_ok c) (run c s reqs orc).
Proof. exact (every_returned_state_projected_partial c reqs s orc). Qed.
Print Assumptions C21_every_returned_state_projected_partial.

Theorem C21_interp_without_projection_only_when_disabled c reqs s orc x st s' us :
  Inv c s -> reqs_ok c s reqs orc -> In x (run c s reqs orc) -> cr_res x = Ok (st, s', us) ->
  interp s' = true -> intProj s' = false -> projInterp c = false.
Proof. exact (interp_without_projection_only_when_disabled c reqs s orc x st s' us). Qed.
Print Assumptions C21_interp_without_projection_only_when_disabled.

(** non-vacuity: the script of C19_clause_hypotheses_satisfiable also satisfies the two extra hypotheses *)
Theorem C21_hypotheses_satisfiable :
  Inv ex_cfg (init_state 0) /\ reqs_ok ex_cfg (init_state 0) ex_reqs ex_orc /\ advProj (init_state 0) = true /\
  Forall (fun o => proj o = true) ex_orc.
Proof. exact c21_hypotheses_satisfiable. Qed.
Print Assumptions C21_hypotheses_satisfiable.
