(** C22 property theorems (statements only; proofs in C22/C22_Proofs.v, C22_Loc.v, C22_Order.v, C22_TS.v).
    Model: C22/C22_Model.v.  PARTIAL claim.
    Decided here: the transition tables; what findEventCandidates lists; the root estimate; the localisation loop of
    takeOneStep for ANY trigger-value oracle e(t) (bracket, width, report time, retained candidates, no assert, termination);
    ordering of the triggered events; scheduled-event selection and the TimeStepper dispatch for an integrator meeting
    [use_ok].  Numeric statements are over the reals.
    NOT decided: that a crossing which appears and disappears within one step is seen (the code documents it is not);
    accuracy of the interpolated trigger values (e is an arbitrary function here); binary64 rounding. *)
From Coq Require Import ZArith NArith QArith Reals List Bool Sorting.Sorted Sorting.Permutation.
Require Import Num C22_Model C22_Proofs C22_Loc C22_Order C22_TS C22_Examples.
Import ListNotations.

(** ------------------------------------------------------------------------------------------ A: tables *)
(** bound: all 3 x 3 sign pairs x 4 masks = 36 rows, by vm_compute lifted with forallb_forall *)
Theorem C22_classify_exhaustive b a r f : In b signs -> In a signs ->
  (transitionSeen b a (calcMask r f) <> 0%N <-> monitored_change b a r f = true) /\
  (transitionSeen b a (calcMask r f) <> 0%N -> toReport (transitionSeen b a (calcMask r f)) = expected_report b).
Proof. exact (classify_exhaustive b a r f). Qed.
Print Assumptions C22_classify_exhaustive.

(** bound: 3^3 sign triples x 4 masks = 108 rows *)
Theorem C22_split_transition sl sm sh r f : In sl signs -> In sm signs -> In sh signs ->
  transitionSeen sl sh (calcMask r f) <> 0%N -> transitionSeen sl sm (calcMask r f) = 0%N ->
  transitionSeen sm sh (calcMask r f) <> 0%N /\ sm = sl.
Proof. exact (split_transition sl sm sh r f). Qed.
Print Assumptions C22_split_transition.

(** ------------------------------------------------------------------------------------------ B: detection and localisation *)
Local Open Scope R_scope.

(** a trigger is a candidate iff it was viable and its value changed sign in a monitored direction over the interval *)
Theorem C22_candidate_listed_iff info accw viable tLow eLow tHigh eHigh bias mw i r f :
  ti_mask (nth i info (no_info ROps)) = calcMask r f ->
  (In i (map (@c_idx R) (f_cands (findEventCandidates ROps info accw viable tLow eLow tHigh eHigh bias mw))) <->
   In i viable /\ changed_monitored (nth i eLow 0) (nth i eHigh 0) r f).
Proof. exact (candidate_listed_iff info accw viable tLow eLow tHigh eHigh bias mw i r f). Qed.
Print Assumptions C22_candidate_listed_iff.

Theorem C22_no_event_iff info accw e tReport mw fuel t0 t1 e0 e1 :
  event_phase ROps info accw e tReport mw fuel t0 t1 e0 e1 = NoEvent <->
  forall i, (i < length e0)%nat -> seenAt ROps info e0 e1 i = 0%N.
Proof. exact (no_event_iff info accw e tReport mw fuel t0 t1 e0 e1). Qed.
Print Assumptions C22_no_event_iff.

Theorem C22_root_estimate_inside_interval tLow fLow tHigh fHigh bias minWindow :
  tLow < tHigh -> 0 < minWindow ->
  tLow < estimateRootTime ROps tLow fLow tHigh fHigh bias minWindow < tHigh.
Proof. exact (root_estimate_inside_interval tLow fLow tHigh fHigh bias minWindow). Qed.
Print Assumptions C22_root_estimate_inside_interval.

Theorem C22_root_estimate_buffer tLow fLow tHigh fHigh bias minWindow :
  tLow < tHigh -> 0 < minWindow ->
  let est := estimateRootTime ROps tLow fLow tHigh fHigh bias minWindow in
  tLow + (tHigh - tLow) / 10 <= est <= tHigh - (tHigh - tLow) / 10.
Proof. exact (root_estimate_buffer tLow fLow tHigh fHigh bias minWindow). Qed.
Print Assumptions C22_root_estimate_buffer.

(** MAIN: whenever the event phase of takeOneStep reports an event -- for any oracle e, report time, fuel --
    the window is inside the step and non-empty, no wider than the narrowest localisation requirement of the retained
    candidates (itself between minWindow and every retained candidate's accuracy-scaled window), the report time is not
    strictly inside, at least one candidate is retained, every retained candidate is an original one with its original
    transition, its trigger value changes sign in a monitored direction between the two ends of the window (values are
    the ones the oracle gave at those ends, or the step's own end values), and its time estimate is strictly inside. *)
Theorem C22_localisation_brackets info accw e tReport mw fuel t0 t1 e0 e1 s tr :
  masks_ok info -> 0 < mw -> t0 < t1 ->
  event_phase ROps info accw e tReport mw fuel t0 t1 e0 e1 = Event s tr ->
  (t0 <= l_tLow s /\ l_tLow s < l_tHigh s /\ l_tHigh s <= t1) /\
  l_tHigh s - l_tLow s <= l_narrowest s /\
  (mw <= l_narrowest s /\ forall c, In c (l_cands s) -> l_narrowest s <= Rmax mw (window_of info accw (c_idx c))) /\
  ~ (l_tLow s < tReport < l_tHigh s) /\
  l_cands s <> [] /\
  (forall c, In c (l_cands s) ->
     (exists c0, In c0 (orig_of info accw mw t0 t1 e0 e1) /\ c_idx c0 = c_idx c /\ c_tr c0 = c_tr c) /\
     (forall r f, ti_mask (nth (c_idx c) info (no_info ROps)) = calcMask r f ->
        changed_monitored (nth (c_idx c) (l_eLow s) 0) (nth (c_idx c) (l_eHigh s) 0) r f) /\
     l_tLow s < c_est c < l_tHigh s) /\
  ((l_tLow s = t0 /\ l_eLow s = e0) \/ l_eLow s = e (l_tLow s)) /\
  ((l_tHigh s = t1 /\ l_eHigh s = e1) \/ l_eHigh s = e (l_tHigh s)).
Proof.
  intros Hm Hw Hlt E.
  destruct (localisation_brackets info accw Hm e tReport mw Hw fuel t0 t1 e0 e1 s tr Hlt E) as [I [W N]].
  destruct I. repeat (split; try assumption); try tauto.
  - apply li_orig; auto.
  - intros r f Hmask. pose proof (li_seen c H) as Hs. unfold seenAt in Hs. rewrite Hmask in Hs.
    apply monitored_change_R. apply classify_exhaustive; auto using sgn_in.
  - apply li_est; auto.
  - apply li_est; auto.
Qed.
Print Assumptions C22_localisation_brackets.

(** the assert(!newEventCandidates.empty()) in the loop can never fire ("TODO: I think this can happen if we land
    exactly on a zero in eMid" -- it cannot) *)
Theorem C22_event_phase_never_asserts info accw e tReport mw fuel t0 t1 e0 e1 s :
  masks_ok info -> 0 < mw -> t0 < t1 -> event_phase ROps info accw e tReport mw fuel t0 t1 e0 e1 <> EAssert s.
Proof. intros Hm Hw. exact (event_phase_never_asserts info accw Hm e tReport mw Hw fuel t0 t1 e0 e1 s). Qed.
Print Assumptions C22_event_phase_never_asserts.

(** the loop terminates: n+2 iterations suffice when (9/10)^n (t1-t0) <= minWindow *)
Theorem C22_event_phase_terminates info accw e tReport mw n t0 t1 e0 e1 s :
  masks_ok info -> 0 < mw -> t0 < t1 -> (9/10)^n * (t1 - t0) <= mw ->
  event_phase ROps info accw e tReport mw (S (S n)) t0 t1 e0 e1 <> EFuel s.
Proof. intros Hm Hw. exact (event_phase_terminates info accw Hm e tReport mw Hw n t0 t1 e0 e1 s). Qed.
Print Assumptions C22_event_phase_terminates.

(** detection: a trigger whose value changed sign in a monitored direction over the whole step is not skipped -- an
    event is reported (fuel as in the termination theorem) *)
Theorem C22_event_detected info accw e tReport mw n t0 t1 e0 e1 :
  masks_ok info -> 0 < mw -> t0 < t1 -> (9/10)^n * (t1 - t0) <= mw ->
  (exists i, (i < length e0)%nat /\ seenAt ROps info e0 e1 i <> 0%N) ->
  exists s tr, event_phase ROps info accw e tReport mw (S (S n)) t0 t1 e0 e1 = Event s tr.
Proof. intros Hm Hw. exact (event_detected info accw Hm e tReport mw Hw n t0 t1 e0 e1). Qed.
Print Assumptions C22_event_detected.

(** non-vacuity: the hypotheses of the localisation theorems hold on a concrete step, for every oracle *)
Theorem C22_ex_event_reported (e:R -> list R) :
  exists s tr, event_phase ROps ex_info (1/100) e (1/2) (1/1000) 80 0 1 [-1] [2] = Event s tr /\
               l_tHigh s - l_tLow s <= l_narrowest s /\ ~ (l_tLow s < 1/2 < l_tHigh s) /\ l_cands s <> [].
Proof. exact (ex_event_reported e). Qed.
Print Assumptions C22_ex_event_reported.

(** the triggered events are reported in nondecreasing order of estimated time; nothing is lost or added *)
Theorem C22_triggered_sorted_by_estimate info cs :
  Sorted est_le (triggered_of ROps info cs) /\
  Permutation (map (@g_est R) (triggered_of ROps info cs)) (map (@c_est R) cs) /\
  length (triggered_of ROps info cs) = length cs.
Proof. exact (triggered_sorted_by_estimate info cs). Qed.
Print Assumptions C22_triggered_sorted_by_estimate.

(** ------------------------------------------------------------------------------------------ C: time stepper *)
Local Open Scope Q_scope.

(** PeriodicEventHandler::getNextEventTime (exact arithmetic): the least multiple of the interval later than t
    (or equal to t when the current time is allowed) *)
Theorem C22_periodic_next_spec interval t incl : 0 < interval ->
  let r := periodic_next interval t incl in
  (exists k:Z, r == inject_Z k * interval /\
     (if incl then t <= r else t < r) /\
     (if incl then inject_Z (k - 1) * interval < t else inject_Z (k - 1) * interval <= t)).
Proof. exact (periodic_next_spec interval t incl). Qed.
Print Assumptions C22_periodic_next_spec.

(** calcTimeOfNextScheduledEvent of one subsystem returns the earliest eligible time and exactly the handlers due then *)
Theorem C22_sub_next_spec S hs t incl tn ids : sub_next S hs t incl = (tn, ids) ->
  (forall i, In i ids -> exists h, In h hs /\ h_id h = i /\ eligible t incl (h_next h t incl) = true /\ Ieq (h_next h t incl) tn) /\
  (forall h, In h hs -> eligible t incl (h_next h t incl) = true ->
      Ile tn (h_next h t incl) /\ (Ieq (h_next h t incl) tn -> In (h_id h) ids)).
Proof. exact (sub_next_spec S hs t incl tn ids). Qed.
Print Assumptions C22_sub_next_spec.

(** the run-time contract checks imply the propositional contracts: [use_core] (answer times ordered, status clauses) is
    evaluated on every recorded answer of all nine integrators, [use_mono] (advanced time never goes back) on the eight
    AbstractIntegratorRep ones; [use_ok] = both *)
Theorem C22_use_coreb_sound u : use_coreb u = true -> use_core u.
Proof. exact (use_coreb_sound u). Qed.
Print Assumptions C22_use_coreb_sound.

Theorem C22_use_okb_sound u : use_okb u = true -> use_ok u.
Proof. exact (use_okb_sound u). Qed.
Print Assumptions C22_use_okb_sound.

(** every call of a scheduled handler made by TimeStepper::stepTo happens at that handler's own next event time (as it
    answered when the integrator was started from u_tcur), which is eligible (later than u_tcur, or equal when allowed),
    and the handler gets the advanced state at exactly that time *)
Theorem C22_scheduled_called_exactly_at_time S ss thandlers flow cf reportAll time s orc st s' rest log uses :
  ids_disjoint S ss ->
  ts_stepTo S cf [ss] thandlers flow reportAll time s orc = TSRet S st s' rest log uses ->
  (forall u, In u uses -> use_core u) ->
  forall k, In k log -> k_cause k = CScheduled ->
  exists h u, In h (ss_handlers ss) /\ h_id h = k_id k /\ In u uses /\
     Ieq (h_next h (u_tcur u) (u_inclEv u)) (Some (k_time k)) /\
     eligible (u_tcur u) (u_inclEv u) (h_next h (u_tcur u) (u_inclEv u)) = true /\
     k_time k == a_tadv (u_ans u) /\ a_status (u_ans u) = ReachedScheduledEvent.
Proof. exact (scheduled_called_exactly_at_time S ss thandlers flow cf reportAll time s orc st s' rest log uses). Qed.
Print Assumptions C22_scheduled_called_exactly_at_time.

Theorem C22_reporters_called_exactly_at_time S ss thandlers flow cf reportAll time s orc st s' rest log uses :
  ids_disjoint S ss ->
  ts_stepTo S cf [ss] thandlers flow reportAll time s orc = TSRet S st s' rest log uses ->
  (forall u, In u uses -> use_core u) ->
  forall k, In k log -> k_cause k = CReport ->
  exists r u, In r (ss_reporters ss) /\ h_id r = k_id k /\ In u uses /\
     Ieq (h_next r (u_tcur u) (u_inclRep u)) (Some (k_time k)) /\
     k_time k == a_t (u_ans u) /\ a_status (u_ans u) = ReachedReportTime.
Proof. exact (reporters_called_exactly_at_time S ss thandlers flow cf reportAll time s orc st s' rest log uses). Qed.
Print Assumptions C22_reporters_called_exactly_at_time.

(** within one TimeStepper::stepTo the calls of the state-changing handlers (scheduled and triggered) are made at
    nondecreasing times, and so are the calls of the scheduled reporters.  (Not claimed: the relative order of a reporter
    call and a handler call -- a triggered handler sees the advanced state at tHigh while a report served next may be at
    a time inside (tLow,tHigh) when the handler changed nothing; see C19's known finding about report times placed inside
    a localised window.) *)
Theorem C22_handlers_in_time_order_partial S ss thandlers flow cf reportAll time s orc st s' rest log uses :
  ids_disjoint S ss -> ts_t s <= ts_tadv s ->
  ts_stepTo S cf [ss] thandlers flow reportAll time s orc = TSRet S st s' rest log uses ->
  (forall u, In u uses -> use_ok u) ->
  nondecr (htimes S log) /\ nondecr (rtimes S log).
Proof. exact (handlers_in_time_order S ss thandlers flow cf reportAll time s orc st s' rest log uses). Qed.
Print Assumptions C22_handlers_in_time_order_partial.

(** a PeriodicEventHandler is only ever called at exact multiples of its interval (exact arithmetic) *)
Theorem C22_periodic_handler_called_at_multiples S ss thandlers flow cf reportAll time s orc st s' rest log uses interval :
  ids_disjoint S ss -> 0 < interval ->
  ts_stepTo S cf [ss] thandlers flow reportAll time s orc = TSRet S st s' rest log uses ->
  (forall u, In u uses -> use_core u) ->
  forall k h, In k log -> k_cause k = CScheduled -> In h (ss_handlers ss) -> h_id h = k_id k ->
  NoDup (map (@h_id S) (ss_handlers ss)) ->
  (forall t incl, h_next h t incl = Some (periodic_next interval t incl)) ->
  exists z:Z, k_time k == inject_Z z * interval.
Proof. exact (periodic_handler_called_at_multiples S ss thandlers flow cf reportAll time s orc st s' rest log uses interval). Qed.
Print Assumptions C22_periodic_handler_called_at_multiples.

(** "later integration starts from the state the handlers produced" (model level): after a triggered event the called
    handlers see, in registration order, the trajectory state at the advanced time and then each other's results; the
    state kept for the integrator is the last handler's result at that same time ... *)
Theorem C22_resumes_from_triggered_handlers S ss thandlers flow time s u l s2 stop :
  ts_body S [ss] thandlers flow time s u = (l, s2, stop) ->
  a_status (u_ans u) = ReachedEventTrigger ->
  let a := u_ans u in
  let st0 := flow (ts_pay s) (ts_tadv s) (a_tadv a) in
  let hs := called th_id (a_ids a) thandlers in
  map (@k_in S) l = inputs S th_act (a_tadv a) hs st0 /\ map (@k_id S) l = map (@th_id S) hs /\
  ts_pay s2 = apply_all S th_act (a_tadv a) hs st0 /\ ts_tadv s2 = a_tadv a.
Proof. exact (resumes_from_triggered_handlers S ss thandlers flow time s u l s2 stop). Qed.
Print Assumptions C22_resumes_from_triggered_handlers.

(** ... the same for a scheduled event (handlers in order, then the reporters due at that time see the handlers' result) ... *)
Theorem C22_resumes_from_scheduled_handlers S ss thandlers flow time s u l s2 stop :
  ts_body S [ss] thandlers flow time s u = (l, s2, stop) ->
  a_status (u_ans u) = ReachedScheduledEvent ->
  let a := u_ans u in
  let st0 := flow (ts_pay s) (ts_tadv s) (a_tadv a) in
  let hs := called h_id (u_evids u) (ss_handlers ss) in
  let st1 := apply_all S h_act (a_tadv a) hs st0 in
  exists lh lr, l = lh ++ lr /\
    map (@k_in S) lh = inputs S h_act (a_tadv a) hs st0 /\ map (@k_id S) lh = map (@h_id S) hs /\
    (forall k, In k lr -> k_cause k = CReport /\ k_in k = st1) /\
    ts_pay s2 = st1 /\ ts_tadv s2 = a_tadv a.
Proof. exact (resumes_from_scheduled_handlers S ss thandlers flow time s u l s2 stop). Qed.
Print Assumptions C22_resumes_from_scheduled_handlers.

(** ... and the next integrator call continues the trajectory from exactly that state and time *)
Theorem C22_next_step_continues_from_state S ss thandlers flow time s u l s2 stop time' u' l' s3 stop' :
  ts_body S [ss] thandlers flow time s u = (l, s2, stop) ->
  ts_body S [ss] thandlers flow time' s2 u' = (l', s3, stop') ->
  a_status (u_ans u') = StartOfContinuousInterval \/ a_status (u_ans u') = ReachedStepLimit ->
  ts_pay s3 = flow (ts_pay s2) (ts_tadv s2) (a_tadv (u_ans u')).
Proof. intros H1. exact (next_step_continues_from_state S ss thandlers flow time s u l s2 stop H1 time' u' l' s3 stop'). Qed.
Print Assumptions C22_next_step_continues_from_state.

(** TERMINATION.  The "should terminate" outcome of one handleEvents dispatch is the OR over ALL handlers invoked (each
    applied to the state the previous one produced): after a triggered / scheduled event the simulation is over iff some
    invoked handler asked for it -- in particular a terminating handler registered BEFORE a non-terminating one that fires
    in the same window still ends the run ([any_term_true]). *)
Theorem C22_triggered_dispatch_terminates_iff S ss thandlers flow time s u l s2 stop :
  ts_body S [ss] thandlers flow time s u = (l, s2, stop) -> a_status (u_ans u) = ReachedEventTrigger ->
  ts_over s2 = any_term S th_act (a_tadv (u_ans u)) (called th_id (a_ids (u_ans u)) thandlers)
                        (flow (ts_pay s) (ts_tadv s) (a_tadv (u_ans u))).
Proof. exact (triggered_dispatch_terminates_iff S ss thandlers flow time s u l s2 stop). Qed.
Print Assumptions C22_triggered_dispatch_terminates_iff.

Theorem C22_scheduled_dispatch_terminates_iff S ss thandlers flow time s u l s2 stop :
  ts_body S [ss] thandlers flow time s u = (l, s2, stop) -> a_status (u_ans u) = ReachedScheduledEvent ->
  ts_over s2 = any_term S h_act (a_tadv (u_ans u)) (called h_id (u_evids u) (ss_handlers ss))
                        (flow (ts_pay s) (ts_tadv s) (a_tadv (u_ans u))).
Proof. exact (scheduled_dispatch_terminates_iff S ss thandlers flow time s u l s2 stop). Qed.
Print Assumptions C22_scheduled_dispatch_terminates_iff.

Theorem C22_any_term_true S (H:Type) (act:H -> S -> Q -> S * bool * bool) t hs st :
  (exists pre h post, hs = pre ++ h :: post /\ snd (fst (act h (apply_all S act t pre st) t)) = true) ->
  any_term S act t hs st = true.
Proof. exact (any_term_true S act t hs st). Qed.
Print Assumptions C22_any_term_true.

(** when the dispatch of one integrator answer leaves the simulation over, that TimeStepper::stepTo consumes no further
    integrator answer and makes no further handler call, and every later stepTo returns EndOfSimulation without doing
    anything (no step, no handler call) *)
Theorem C22_termination_requested_ends_run S ss thandlers flow cf reportAll time s a orc log uses l s2 stop :
  ts_over s = false ->
  ts_body S [ss] thandlers flow time s (mk_use S cf [ss] time s a) = (l, s2, stop) -> ts_over s2 = true ->
  ts_loop S cf [ss] thandlers flow reportAll time s (a :: orc) log uses =
    TSRet S (if stop || reportAll then a_status a else EndOfSimulation) s2 orc (log ++ l) (uses ++ [mk_use S cf [ss] time s a]) /\
  forall ra time' orc', ts_stepTo S cf [ss] thandlers flow ra time' s2 orc' = TSRet S EndOfSimulation s2 orc' [] [].
Proof. exact (termination_requested_ends_run S ss thandlers flow cf reportAll time s a orc log uses l s2 stop). Qed.
Print Assumptions C22_termination_requested_ends_run.

(** non-vacuity of the time-stepper theorems: a concrete run with 14 integrator answers that all meet [use_ok] *)
Theorem C22_ex_ts_run :
  ex_summary (ts_stepTo Q false [ex_ss] ex_th ex_flow false 1 (ts_init Q 0 0) ex_orc) =
  Some (ReachedReportTime, 0%nat,
        [(CReport, 1%nat, 0, 0); (CScheduled, 0%nat, 0, 0); (CScheduled, 0%nat, 1#4, 1); (CTriggered, 2%nat, 5#16, 2);
         (CReport, 1%nat, 1#2, 12); (CScheduled, 0%nat, 1#2, 12); (CScheduled, 0%nat, 3#4, 13); (CReport, 1%nat, 1, 14)],
        true, 14) /\ ids_disjoint Q ex_ss.
Proof. exact (conj ex_ts_run ex_ids_disjoint). Qed.
Print Assumptions C22_ex_ts_run.

(** System::Guts::calcTimeOfNextScheduledEventImpl / ...ReportImpl as repaired in /repo (748896e4: test before assign),
    for ANY number of subsystems: the returned time is the earliest eligible next-event time over all subsystems and the
    ids are exactly the handlers due then.  The check determines on every run that the implementation follows this
    variant ([clearFirst = true]) and not the pre-repair one. *)
Theorem C22_sys_next_spec S sel subs t incl tn ids : sys_next S true sel subs t incl = (tn, ids) ->
  (forall i, In i ids -> exists ss h, In ss subs /\ In h (sel ss) /\ h_id h = i /\
       eligible t incl (h_next h t incl) = true /\ Ieq (h_next h t incl) tn) /\
  (forall ss h, In ss subs -> In h (sel ss) -> eligible t incl (h_next h t incl) = true ->
      Ile tn (h_next h t incl) /\ (Ieq (h_next h t incl) tn -> In (h_id h) ids)).
Proof. exact (sys_next_spec S sel subs t incl tn ids). Qed.
Print Assumptions C22_sys_next_spec.

(** REGRESSION lemmas for the repaired defect: the loop as written before 748896e4 ([sys_next false]) kept the ids of a
    subsystem whose event is LATER than the one found afterwards -- a default-subsystem handler (id 0) due at t=1/2 was
    listed for (and then called at) the event of another subsystem (id 1) at t=5/16 -- while the repaired loop lists only
    id 1.  The same witnesses are run on the implementation by the check and must now give the repaired answers. *)
Theorem C22_sys_next_two_subsystems_regression S :
  sys_next S false ss_handlers (w_subs S) 0 true = (Some (5#16), [0%nat; 1%nat]) /\
  sys_next S false ss_handlers (w_subs S) (5#16) false = (Some (1#2), [0%nat]) /\
  sys_next S true ss_handlers (w_subs S) 0 true = (Some (5#16), [1%nat]).
Proof. exact (sys_next_two_subsystems_regression S). Qed.
Print Assumptions C22_sys_next_two_subsystems_regression.

(** second face of the same repaired defect: a handler with no further event (next time +Infinity) was listed for every
    later event of another subsystem *)
Theorem C22_sys_next_exhausted_handler_regression S :
  sys_next S false ss_handlers (w_subs2 S) (5#16) false = (Some (1#2), [0%nat; 1%nat]) /\
  sys_next S true ss_handlers (w_subs2 S) (5#16) false = (Some (1#2), [1%nat]).
Proof. exact (sys_next_exhausted_handler_regression S). Qed.
Print Assumptions C22_sys_next_exhausted_handler_regression.
