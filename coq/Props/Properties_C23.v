(** C23 property theorems: statements only (placeholder header, rewritten below). *)
From Coq Require Import List Arith Bool PeanoNat ZArith Reals.
From Coquelicot Require Import Coquelicot.
Require Import Num C23_Model C23_Proofs.
Import ListNotations.
Local Open Scope R_scope.

Theorem C23_sinusoid_derivs a w p k t : (k < 3)%nat ->
  is_derive (sin_d ROps a w p k) t (sin_d ROps a w p (S k) t).
Proof. exact (sinusoid_derivs a w p k t). Qed.
Print Assumptions C23_sinusoid_derivs.

