(** C23 "Measures compute what their definitions say" -- property theorems: statements only, each closed by [exact];
    the proofs are in C23/C23_Proofs.v, C23_Arith.v, C23_Extreme.v, C23_Delay.v.  All statements are about the executable
    model C23/C23_Model.v (hand-written from MeasureImplementation.h / Measure.h / StateImpl.h, Release semantics), over
    the reals (ROps).  The model is tied to the code on every run of checks/C23.py: extracted to OCaml and compared
    (1) after every operation of generated operation sequences executed on a real SimTK::State + System, and (2) at every
    state returned by real integrators, whose auto-update time sequence is recorded by a user-defined measure.

    PARTIAL.  What is proved, for ALL operation sequences / trees / buffers:
    - arith_eval_correct: the lazily cached Constant/Time/Variable/Sinusoid/Plus/Minus/Scale trees return their formula at
      the current time and variable values (cache never stale) under two provisos, each shown necessary by a refuted
      statement that is a known finding of the code (arith_eval_refuted_variable, arith_eval_refuted_early_get);
    - reported_derivatives_are_derivatives / sinusoid_derivs: every derivative order the leaf measures offer (Sinusoid: 1..3,
      the code offers no more) is the time derivative of the next lower order (Coquelicot is_derive);
    - extreme_is_fold + fold_is_extreme + fold_keeps_first + vfold_nth: Minimum/Maximum/MinAbs/MaxAbs (element-wise on
      vectors) return the signed sample of extreme key over the initial value, the operand at every state where the
      auto-update ran after the measure had been evaluated, and the current state; every statement about runs is for both
      variants [fx] of the model: fx = true is Extreme::setValue as repaired in /repo (d4a04011 = patches/C23_extreme_setvalue.diff),
      under which setValue is admissible in every state (setvalue_restarts_history_when_repaired); fx = false is the code
      before that repair, for which setValue had to be excluded (extreme_setvalue_prefix_regression: the witnesses of the
      repaired defect, replayed on the implementation every run and required to pass now); the check decides which
      variant the tree implements;
    - Delay: copy_keeps_sorted, delay_buffer_returns_bracketing_sample (+ exhaustive cases; interpolation between the two
      bracketing samples, flat before the first, EXTRAPOLATION through the last two when t - delay is after the newest
      sample, also for delay = 0), prune_preserves_answers (pruning never changes an answer at or after t - delay, delay >= 0),
      delay_is_calc_on_buffer (the state machine: buffer changes only by copyInAndUpdate at an auto-update, getValue =
      calcValueAtTimeLinearOnly on the buffer present when first asked at the current time -- that qualification is needed:
      delay_autoupdate_not_transparent, known finding), lerp_affine_exact;
    - sample_hold_holds: SPECIFICATION ONLY -- Measure::SampleAndHold is declared in Measure.h but has no implementation
      in the source, so there is nothing to tie it to;
    - Differentiate (finite differences): the formula (f_ensure_value), exact on affine operands, second-order form exact
      on quadratics; Integrate: zdot := integrand (specification).
    NOT DECIDED: Integrate accuracy (integrator dependent), Differentiate accuracy on general operands, the Delay
    interpolation/extrapolation error against the operand's true value at t - delay, cubic interpolation (not implemented),
    floating point (theorems are over R).
    pruned_buffer_answers_like_full_history: after ANY number of updates at non-decreasing times (delay >= 0) the pruned
    buffer answers every request at or after (last update time - delay) exactly like the never-pruned sample history, so
    together with delay_is_calc_on_buffer the Delay value is the piecewise-linear interpolant (extrapolant) of ALL samples
    recorded at auto-updates. *)
From Coq Require Import List Arith Bool PeanoNat ZArith Reals.
From Coquelicot Require Import Coquelicot.
Require Import Num C23_Model C23_Proofs C23_Arith C23_Extreme C23_Delay.
Import ListNotations.

(* ---------------- from C23_Proofs.v *)
Local Open Scope R_scope.

Theorem C23_sinusoid_derivs a w p k t : (k < 3)%nat ->
  is_derive (sin_d ROps a w p k) t (sin_d ROps a w p (S k) t).
Proof. exact (sinusoid_derivs a w p k t). Qed.
Print Assumptions C23_sinusoid_derivs.

Theorem C23_reported_derivatives_are_derivatives (E : Env) m k : is_leaf m -> k_ok m (S k) = true ->
  is_derive (fun t => den_k (at_time E t) m k) (e_t E) (den_k E m (S k)).
Proof. exact (reported_derivatives_are_derivatives E m k). Qed.
Print Assumptions C23_reported_derivatives_are_derivatives.

Theorem C23_sample_hold_holds src t0 ops1 advances :
  List.Forall (fun o => exists x, o = ShAdvance x) advances ->
  let '(t1, m1) := sh_run ROps src t0 (ops1 ++ [ShEvent]) in
  h_val (snd (sh_run ROps src t0 (ops1 ++ [ShEvent] ++ advances))) = veval ROps src t1 /\
  h_val m1 = veval ROps src t1 /\ h_time (snd (sh_run ROps src t0 (ops1 ++ [ShEvent] ++ advances))) = t1.
Proof. exact (sample_hold_holds src t0 ops1 advances). Qed.
Print Assumptions C23_sample_hold_holds.

Theorem C23_f_ensure_value (E : Env) (m : @difm R) e f0 fd0 good0 t0 :
  valid E (vdep (f_src m)) (f_upd m) = false -> f_src m = [e] -> f_dv m = ([f0], [fd0], good0) -> f_dvt m = Some t0 ->
  e_t E <> t0 ->
  ce_val (f_upd (f_ensure ROps E m)) =
  ([peval ROps e (e_t E)],
   [if good0 then 2 * ((peval ROps e (e_t E) - f0) / (e_t E - t0)) - fd0 else (peval ROps e (e_t E) - f0) / (e_t E - t0)], true).
Proof. exact (f_ensure_value E m e f0 fd0 good0 t0). Qed.
Print Assumptions C23_f_ensure_value.

Theorem C23_differentiate_exact_on_affine a c f0 t t0 : t <> t0 -> f0 = a * t0 + c -> ((a * t + c) - f0) / (t - t0) = a.
Proof. exact (differentiate_exact_on_affine a c f0 t t0). Qed.
Print Assumptions C23_differentiate_exact_on_affine.

Theorem C23_differentiate_second_order_exact_on_quadratics a b c t t0 : t <> t0 ->
  let f := fun x => a * x * x + b * x + c in
  2 * ((f t - f t0) / (t - t0)) - (2 * a * t0 + b) = 2 * a * t + b.
Proof. exact (differentiate_second_order_exact_on_quadratics a b c t t0). Qed.
Print Assumptions C23_differentiate_second_order_exact_on_quadratics.

Theorem C23_integrate_zdot_is_integrand (src : @pexpr R) t (m : @intm R) : i_zdot (i_acc ROps src t m) = peval ROps src t /\ i_z (i_acc ROps src t m) = i_z m.
Proof. exact (integrate_zdot_is_integrand src t m). Qed.
Print Assumptions C23_integrate_zdot_is_integrand.

(* ---------------- from C23_Arith.v *)
Local Close Scope R_scope.

Theorem C23_tget_correct (E : Env) m : dep m <= e_stage E -> J E m -> fst (tget ROps E m) = den E m /\ J E (snd (tget ROps E m)).
Proof. exact (tget_correct E m). Qed.
Print Assumptions C23_tget_correct.

Theorem C23_step_inv (fx : bool) (s : St) (o : Op) : Inv s -> well_staged s o -> Inv (fst (step ROps fx s o)).
Proof. exact (step_inv fx s o). Qed.
Print Assumptions C23_step_inv.

Theorem C23_arith_eval_correct (fx : bool) (s : St) (ops : list Op) : Inv s -> ws_run fx s ops -> obs_run fx s ops.
Proof. exact (arith_eval_correct fx s ops). Qed.
Print Assumptions C23_arith_eval_correct.

Theorem C23_run_obs_nth (fx : bool) (s : St) (ops : list Op) : forall j o, nth_error ops j = Some o ->
  exists sj, nth_error (snd (run ROps fx s ops)) j = Some (snd (step ROps fx sj o)) /\
             (obs_run fx s ops -> obs_ok sj o (snd (step ROps fx sj o))).
Proof. exact (run_obs_nth fx s ops). Qed.
Print Assumptions C23_run_obs_nth.

Theorem C23_Inv_init t vars trees machs :
  (forall i g, var_stage (env0 t vars) i = Some g -> 1 <= g) ->
  List.Forall (fun m => erase m = m) trees -> List.Forall (wf_vars (env0 t vars)) trees ->
  Inv (mkSt (env0 t vars) trees machs).
Proof. exact (Inv_init t vars trees machs). Qed.
Print Assumptions C23_Inv_init.

Theorem C23_arith_eval_correct_example :
  let s := mkSt (env0 1%R [(5%R, 4)]) [mk_scale ROps 2%R (mk_plus ROps (MVar 0) (mk_sin ROps 1%R 3%R 0%R))] [] in
  let ops := [Realize 8; GetT 0 [] 0; SetVar 0 7%R; Realize 4; GetT 0 [] 0; SetTime 2%R; Realize 8; GetT 0 [false] 0;
              GetT 0 [false; true] 2; GetT 0 [] 0] in
  Inv s /\ ws_run false s ops /\ obs_run false s ops /\
  nth_error (snd (run ROps false s ops)) 9 = Some (OVal [2 * (7 + 1 * sin (3 * 2 + 0))])%R.
Proof. exact (@arith_eval_correct_example). Qed.
Print Assumptions C23_arith_eval_correct_example.

Theorem C23_arith_eval_refuted_variable : exists (s : St) (ops : list Op),
  env_wf (s_env s) /\ vars_pos (s_env s) /\ List.Forall (J (s_env s)) (s_trees s) /\ ws_run false s ops /\ ~ obs_run false s ops.
Proof. exact (@arith_eval_refuted_variable). Qed.
Print Assumptions C23_arith_eval_refuted_variable.

Theorem C23_arith_eval_refuted_early_get : exists (s : St) (ops : list Op),
  Inv s /\ (forall j, nth_error (snd (run ROps false s ops)) j <> Some OGuard) /\ ~ obs_run false s ops.
Proof. exact (@arith_eval_refuted_early_get). Qed.
Print Assumptions C23_arith_eval_refuted_early_get.

(* ---------------- from C23_Extreme.v *)
Theorem C23_x_ensure_spec (E : Env) x init G : XI E x init G -> vdep (x_src x) <= e_stage E ->
  let cur := veval ROps (x_src x) (e_t E) in
  let r := x_ensure ROps E x in
  XI E (snd r) init G /\ fst r = any_new ROps (x_op x) cur (x_dv x) /\ x_dv (snd r) = x_dv x /\
  x_op (snd r) = x_op x /\ x_src (snd r) = x_src x /\ x_dvt (snd r) = x_dvt x /\
  (fst r = true -> valid E (vdep (x_src x)) (x_upd (snd r)) = true /\
                   ce_val (x_upd (snd r)) = vextreme ROps (x_op x) cur (x_dv x)).
Proof. exact (x_ensure_spec E x init G). Qed.
Print Assumptions C23_x_ensure_spec.

Theorem C23_x_auto_spec (E : Env) x init G : XI E x init G ->
  XI E (x_auto E x) init (if valid E (vdep (x_src x)) (x_newupd x) then G ++ [veval ROps (x_src x) (e_t E)] else G) /\
  x_op (x_auto E x) = x_op x /\ x_src (x_auto E x) = x_src x.
Proof. exact (x_auto_spec E x init G). Qed.
Print Assumptions C23_x_auto_spec.

Theorem C23_step_XS (fx : bool) (s : St) j o src init G (op : Op) : XS s j o src init G -> x_allowed j op ->
  XS (fst (step ROps fx s op)) j o src init (ghost_step s j op G).
Proof. exact (step_XS fx s j o src init G op). Qed.
Print Assumptions C23_step_XS.

Theorem C23_extreme_is_fold (fx : bool) (s : St) j o src init G (ops : list Op) :
  XS s j o src init G -> List.Forall (x_allowed j) ops -> x_run_ok fx s j o src init G ops.
Proof. exact (extreme_is_fold fx s j o src init G ops). Qed.
Print Assumptions C23_extreme_is_fold.

Theorem C23_XS_init t vars trees machs j o src init :
  nth_error machs j = Some (MX (mk_ext o src init)) -> length init = length src ->
  XS (mkSt (env0 t vars) trees machs) j o src init [].
Proof. exact (XS_init t vars trees machs j o src init). Qed.
Print Assumptions C23_XS_init.

Theorem C23_XI_x_set (fx : bool) (E : Env) x init G v : env_wf E -> XI E x init G ->
  (fx = false -> ~ fresh (inval E 7) (vdep (x_src x)) (x_newupd x)) -> length v = length (x_src x) ->
  XI (inval E 7) (x_set fx (inval E 7) x v) v [].
Proof. exact (XI_x_set fx E x init G v). Qed.
Print Assumptions C23_XI_x_set.

Theorem C23_setvalue_restarts_history_when_repaired (s : St) j o src init G v :
  XS s j o src init G -> length v = length src ->
  XS (fst (step ROps true s (SetExt j v))) j o src v [].
Proof. exact (setvalue_restarts_history_when_repaired s j o src init G v). Qed.
Print Assumptions C23_setvalue_restarts_history_when_repaired.

Local Open Scope R_scope.

Theorem C23_fold_is_extreme o l : forall init, In (sfold o init l) (init :: l) /\ forall s, In s (init :: l) -> key o (sfold o init l) <= key o s.
Proof. exact (fold_is_extreme o l). Qed.
Print Assumptions C23_fold_is_extreme.

Theorem C23_fold_keeps_first o l init : (forall s, In s l -> key o init <= key o s) -> sfold o init l = init.
Proof. exact (fold_keeps_first o l init). Qed.
Print Assumptions C23_fold_keeps_first.

Theorem C23_vfold_nth o (d : R) : forall (G : list Vec) init i, (forall s, In s G -> length s = length init) -> (i < length init)%nat ->
  nth i (vfold o init G) d = sfold o (nth i init d) (map (fun s => nth i s d) G).
Proof. exact (vfold_nth o d). Qed.
Print Assumptions C23_vfold_nth.

Theorem C23_extreme_is_fold_example :
  let s := mkSt (env0 1 []) [] [MX (mk_ext Maximum [PTime] [0])] in
  let ops := [Realize 8; AutoUpd; SetTime (1/2); Realize 8; GetM 0] in
  XS s 0%nat Maximum [PTime] [0] [] /\ List.Forall (x_allowed 0) ops /\
  nth_error (snd (run ROps false s ops)) 4 = Some (OVal [1]).
Proof. exact (@extreme_is_fold_example). Qed.
Print Assumptions C23_extreme_is_fold_example.

(** REGRESSION lemma for the defect repaired in /repo d4a04011: in the model of the code BEFORE the repair (fx = false)
    Extreme::setValue after an evaluation at the current time made getValue throw, or ignore the current operand value *)
Theorem C23_extreme_setvalue_prefix_regression :
  (exists (s : St) (ops : list Op), XS s 0%nat Maximum [PTime] [0] [] /\
     nth_error (snd (run ROps false s ops)) 3 = Some OThrow) /\
  (exists (s : St) (ops : list Op), XS s 0%nat Maximum [PTime] [10] [] /\
     nth_error (snd (run ROps false s ops)) 3 = Some (OVal [-5]) /\ vfold Maximum [-5] [[1]] = [1]).
Proof. exact (@extreme_setvalue_refuted). Qed.
Print Assumptions C23_extreme_setvalue_prefix_regression.

(* ---------------- from C23_Delay.v *)
Theorem C23_copy_keeps_sorted (old : Buf) tE tNow v : sorted old -> sorted (copy_in_and_update ROps old tE tNow v).
Proof. exact (copy_keeps_sorted old tE tNow v). Qed.
Print Assumptions C23_copy_keeps_sorted.

Theorem C23_delay_buffer_returns_bracketing_sample (b : Buf) td : sorted b -> b <> [] ->
  (td <= tm b 0 -> calc_value_at ROps b td = Some (snd (nth 0 b dE))) /\
  (forall i, (S i < length b)%nat -> tm b i < td <= tm b (S i) ->
     calc_value_at ROps b td = Some (lerp_entries ROps (nth i b dE) (nth (S i) b dE) td)) /\
  (tm b (length b - 1) < td ->
     calc_value_at ROps b td = Some (if Nat.eqb (length b) 1 then snd (nth 0 b dE)
                                     else lerp_entries ROps (nth (length b - 2) b dE) (nth (length b - 1) b dE) td)).
Proof. exact (delay_buffer_returns_bracketing_sample b td). Qed.
Print Assumptions C23_delay_buffer_returns_bracketing_sample.

Theorem C23_bracketing_cases_exhaustive (b : Buf) td : sorted b -> b <> [] ->
  td <= tm b 0 \/ (exists i, (S i < length b)%nat /\ tm b i < td <= tm b (S i)) \/ tm b (length b - 1) < td.
Proof. exact (bracketing_cases_exhaustive b td). Qed.
Print Assumptions C23_bracketing_cases_exhaustive.

Theorem C23_lerp_affine_exact a c t0 t1 td : t0 <> t1 ->
  lerp_entries ROps (t0, [a * t0 + c]) (t1, [a * t1 + c]) td = [a * td + c].
Proof. exact (lerp_affine_exact a c t0 t1 td). Qed.
Print Assumptions C23_lerp_affine_exact.

Theorem C23_lerp_at_later_sample t0 t1 v0 v1 : t0 <> t1 -> lerp_entries ROps (t0, [v0]) (t1, [v1]) t1 = [v1].
Proof. exact (lerp_at_later_sample t0 t1 v0 v1). Qed.
Print Assumptions C23_lerp_at_later_sample.

Theorem C23_prune_preserves_answers (old : Buf) tE tNow v td : sorted old -> tE <= tNow -> tE <= td ->
  calc_value_at ROps (copy_in_and_update ROps old tE tNow v) td =
  calc_value_at ROps (firstn (count_to_last_earlier ROps old tNow) old ++ [(tNow, v)]) td.
Proof. exact (prune_preserves_answers old tE tNow v td). Qed.
Print Assumptions C23_prune_preserves_answers.

Theorem C23_step_DS (fx : bool) (s : St) j src delay bv (op : Op) : DS s j src delay bv -> op <> Init ->
  DS (fst (step ROps fx s op)) j src delay (dghost_step s j op bv) /\
  (forall d d', dmach s j = Some d -> dmach (fst (step ROps fx s op)) j = Some d' -> d_buf d' = dbuf_step s j op (d_buf d)) /\
  (op = GetM j -> (4 <= e_stage (s_env s))%nat ->
   snd (step ROps fx s op) = match calc_value_at ROps (dghost_step s j op bv) (e_t (s_env s) - delay) with
                          | Some w => OVal w | None => ONaN end).
Proof. exact (step_DS fx s j src delay bv op). Qed.
Print Assumptions C23_step_DS.

Theorem C23_delay_is_calc_on_buffer (fx : bool) (s : St) j src delay bv (ops : list Op) :
  DS s j src delay bv -> List.Forall (fun o => o <> Init) ops -> d_run_ok fx s j delay bv ops.
Proof. exact (delay_is_calc_on_buffer fx s j src delay bv ops). Qed.
Print Assumptions C23_delay_is_calc_on_buffer.

Theorem C23_DS_init t vars trees machs j src delay bv :
  nth_error machs j = Some (MD (mk_delay src delay)) -> DS (mkSt (env0 t vars) trees machs) j src delay bv.
Proof. exact (DS_init t vars trees machs j src delay bv). Qed.
Print Assumptions C23_DS_init.

Theorem C23_DI_d_init (E : Env) d bv : DI E d bv -> DI E (d_init ROps E d) bv.
Proof. exact (DI_d_init E d bv). Qed.
Print Assumptions C23_DI_d_init.

Theorem C23_delay_is_calc_on_buffer_example :
  let s := mkSt (env0 0 []) [] [MD (mk_delay [PTime] (1/2))] in
  let ops := [Realize 8; AutoUpd; SetTime 1; Realize 8; AutoUpd; SetTime 2; Realize 8; GetM 0] in
  DS s 0%nat [PTime] (1/2) [] /\ List.Forall (fun o : Op => o <> Init) ops /\
  exists v, nth_error (snd (run ROps false s ops)) 7 = Some (OVal [v]) /\ v = 3/2.
Proof. exact (@delay_is_calc_on_buffer_example). Qed.
Print Assumptions C23_delay_is_calc_on_buffer_example.

Theorem C23_delay_autoupdate_not_transparent :
  let s := mkSt (env0 0 []) [] [MD (mk_delay [PSin 1 (PI/2) 0] (1/2))] in
  let ops := [Realize 8; AutoUpd; SetTime 1; Realize 8; AutoUpd; SetTime 2; Realize 8; GetM 0; AutoUpd; GetM 0;
              SetTime 2; Realize 8; GetM 0] in
  DS s 0%nat [PSin 1 (PI/2) 0] (1/2) [] /\ List.Forall (fun o : Op => o <> Init) ops /\
  exists v1 v2, nth_error (snd (run ROps false s ops)) 7 = Some (OVal [v1]) /\ nth_error (snd (run ROps false s ops)) 9 = Some (OVal [v1]) /\
                nth_error (snd (run ROps false s ops)) 12 = Some (OVal [v2]) /\ v1 = 3/2 /\ v2 = 1/2.
Proof. exact (@delay_autoupdate_not_transparent). Qed.
Print Assumptions C23_delay_autoupdate_not_transparent.

Theorem C23_PR_same_answer tq P H td : sorted H -> PR tq P H -> tq <= td -> calc_value_at ROps P td = calc_value_at ROps H td.
Proof. exact (PR_same_answer tq P H td). Qed.
Print Assumptions C23_PR_same_answer.

Theorem C23_PR_step tq P H tE tNow v : sorted H -> PR tq P H -> tq <= tE -> tE <= tNow ->
  PR tE (copy_in_and_update ROps P tE tNow v) (hist_step H tNow v) /\ sorted (hist_step H tNow v).
Proof. exact (PR_step tq P H tE tNow v). Qed.
Print Assumptions C23_PR_step.

Theorem C23_pruned_buffer_answers_like_full_history delay : 0 <= delay -> forall samples t0 P H,
  sorted H -> PR (t0 - delay) P H -> nondecreasing_from t0 samples ->
  let PH := replay delay samples (P, H) in
  sorted (snd PH) /\ PR (last_time t0 samples - delay) (fst PH) (snd PH) /\
  forall td, last_time t0 samples - delay <= td -> calc_value_at ROps (fst PH) td = calc_value_at ROps (snd PH) td.
Proof. exact (pruned_buffer_answers_like_full_history delay). Qed.
Print Assumptions C23_pruned_buffer_answers_like_full_history.

Theorem C23_pruned_history_example :
  let smp := [(0, [0]); (1, [1]); (2, [0]); (3, [1]); (4, [0])] in
  0 <= 3/2 /\ sorted ([] : Buf) /\ PR (0 - 3/2) [] [] /\ nondecreasing_from 0 smp /\
  length (fst (replay (3/2) smp ([], []))) = 4%nat /\ length (snd (replay (3/2) smp ([], []))) = 5%nat /\
  length (fst (replay (1/2) smp ([], []))) = 5%nat.
Proof. exact (@pruned_history_example). Qed.
Print Assumptions C23_pruned_history_example.
