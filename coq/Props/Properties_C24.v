(** C24 property theorems: statements only, each closed by [exact]; proofs are in C24/C24_Proofs.v.
    Model: C24/C24_Model.v -- the rank count of FactorSVDRep::computeSVD and the certificate checkers (orthogonality,
    A = U S Vt, descending sigma, normal equations, orthogonality to the null-space rows, solve residual, inverse,
    eigen residual) that checks/C24.py runs, extracted, on the outputs of FactorLU/FactorLLT/FactorQTZ/FactorSVD/Eigen.
    PARTIAL and THIN: LAPACK itself (the factorizations) is a binary outside the model and is NOT verified; the theorems
    say what the certificates imply when they hold EXACTLY (tolerance 0, over R); the per-run checks hold only to a
    rounding tolerance, and no perturbation theorem connects the two. *)
From Coq Require Import ZArith Reals List Bool Arith.
Require Import Num C24_Model C24_Proofs.
Local Open Scope R_scope.

Theorem C24_min_norm_ls_characterisation (m n : nat) (A : Rmat) (b x y : Rvec) :
  (forall j, (j < n)%nat -> Rmulv m (Rtr A) (fun i => Rmulv n A x i - b i) j = 0) ->
  (forall j, (j < n)%nat -> x j = Rmulv m (Rtr A) y j) ->
  (forall z, Rdot m (fun i => Rmulv n A x i - b i) (fun i => Rmulv n A x i - b i)
             <= Rdot m (fun i => Rmulv n A z i - b i) (fun i => Rmulv n A z i - b i)) /\
  (forall z, (forall j, (j < n)%nat -> Rmulv m (Rtr A) (fun i => Rmulv n A z i - b i) j = 0) -> Rdot n x x <= Rdot n z z).
Proof. exact (min_norm_ls_characterisation m n A b x y). Qed.
Print Assumptions C24_min_norm_ls_characterisation.

Theorem C24_svd_certificate_implies_pinv_min_norm (m n k : nat) (A U Vt : Rmat) (s b : Rvec) :
  (k <= m)%nat -> (k <= n)%nat ->
  orth_check ROps m 0 U = true -> orth_check ROps n 0 Vt = true ->
  recon_check ROps m n 0 A U (diagm ROps k s) Vt = true -> desc_check ROps k s = true ->
  let x := pinv_solution ROps m n k 0 U s Vt b in
  let res := fun z : Rvec => fun i => Rmulv n A z i - b i in
  (forall j, (j < n)%nat -> Rmulv m (Rtr A) (res x) j = 0) /\
  (exists y, forall j, (j < n)%nat -> x j = Rmulv m (Rtr A) y j) /\
  (forall z, Rdot m (res x) (res x) <= Rdot m (res z) (res z)) /\
  (forall z, (forall j, (j < n)%nat -> Rmulv m (Rtr A) (res z) j = 0) -> Rdot n x x <= Rdot n z z).
Proof. exact (svd_certificate_implies_pinv_min_norm m n k A U Vt s b). Qed.
Print Assumptions C24_svd_certificate_implies_pinv_min_norm.

Theorem C24_svd_certificate_kernel (m n k : nat) (A U Vt : Rmat) (s z : Rvec) :
  (k <= m)%nat -> (k <= n)%nat ->
  orth_check ROps m 0 U = true -> orth_check ROps n 0 Vt = true ->
  recon_check ROps m n 0 A U (diagm ROps k s) Vt = true ->
  ((forall i, (i < m)%nat -> Rmulv n A z i = 0) <-> (forall p, (p < k)%nat -> s p <> 0 -> Rdot n (Vt p) z = 0)).
Proof. exact (svd_certificate_kernel m n k A U Vt s z). Qed.
Print Assumptions C24_svd_certificate_kernel.

Theorem C24_svd_rank_counts_nonzero (k r : nat) (s : Rvec) (rcond : R) :
  desc_check ROps k s = true -> (r <= k)%nat ->
  (forall p, (p < r)%nat -> 0 < s p) -> (forall p, (r <= p < k)%nat -> s p = 0) ->
  0 <= rcond -> (forall p, (p < r)%nat -> rcond * s O < s p) ->
  svd_rank ROps rcond k s = r.
Proof. exact (svd_rank_counts_nonzero k r s rcond). Qed.
Print Assumptions C24_svd_rank_counts_nonzero.

Theorem C24_svd_rank_counts_nonzero' (k r : nat) (s : Rvec) (rcond : R) :
  desc_check ROps k s = true -> (0 < r <= k)%nat ->
  (forall p, (p < r)%nat -> 0 < s p) -> (forall p, (r <= p < k)%nat -> s p = 0) ->
  0 <= rcond -> rcond * s O < s (pred r) ->
  svd_rank ROps rcond k s = r.
Proof. exact (svd_rank_counts_nonzero' k r s rcond). Qed.
Print Assumptions C24_svd_rank_counts_nonzero'.

Theorem C24_nullorth_certificate_min_norm (m n k r : nat) (A U Vt : Rmat) (s b x : Rvec) :
  (k <= m)%nat -> (k <= n)%nat -> (r <= k)%nat ->
  orth_check ROps m 0 U = true -> orth_check ROps n 0 Vt = true ->
  recon_check ROps m n 0 A U (diagm ROps k s) Vt = true ->
  (forall p, (p < r)%nat -> s p <> 0) ->
  normal_check ROps m n 0 A x b = true -> nullorth_check ROps n r 0 Vt x = true ->
  let res := fun z : Rvec => fun i => Rmulv n A z i - b i in
  (exists y, forall j, (j < n)%nat -> x j = Rmulv m (Rtr A) y j) /\
  (forall z, Rdot m (res x) (res x) <= Rdot m (res z) (res z)) /\
  (forall z, (forall j, (j < n)%nat -> Rmulv m (Rtr A) (res z) j = 0) -> Rdot n x x <= Rdot n z z).
Proof. exact (nullorth_certificate_min_norm m n k r A U Vt s b x). Qed.
Print Assumptions C24_nullorth_certificate_min_norm.

Theorem C24_sym_eig_certificate (n : nat) (A V : Rmat) (lam : Rvec) :
  orth_check ROps n 0 V = true -> eig_check ROps n 0 A lam V = true ->
  (forall i j, (i < n)%nat -> (j < n)%nat -> A i j = Rsum n (fun p => lam p * (V i p * V j p))) /\
  (forall i j, (i < n)%nat -> (j < n)%nat -> A i j = A j i) /\
  (forall (mu : R) (w : Rvec), (exists i, (i < n)%nat /\ w i <> 0) ->
     (forall i, (i < n)%nat -> Rmulv n A w i = mu * w i) -> exists p, (p < n)%nat /\ lam p = mu).
Proof. exact (sym_eig_certificate n A V lam). Qed.
Print Assumptions C24_sym_eig_certificate.

Theorem C24_inverse_certificate (n : nat) (A Ai : Rmat) (x b : Rvec) :
  inverse_check ROps n 0 A Ai = true ->
  ((forall i, (i < n)%nat -> Rmulv n A x i = b i) <-> (forall i, (i < n)%nat -> x i = Rmulv n Ai b i)).
Proof. exact (inverse_certificate n A Ai x b). Qed.
Print Assumptions C24_inverse_certificate.

Theorem C24_solve_unique (n : nat) (A Ai : Rmat) (x z b : Rvec) :
  inverse_check ROps n 0 A Ai = true -> solve_check ROps n n 0 A x b = true -> solve_check ROps n n 0 A z b = true ->
  forall i, (i < n)%nat -> x i = z i.
Proof. exact (solve_unique n A Ai x z b). Qed.
Print Assumptions C24_solve_unique.

Theorem C24_svd_certificate_example :
  orth_check ROps 2 0 exI = true /\ recon_check ROps 2 2 0 exA exI (diagm ROps 2 exs) exI = true /\
  desc_check ROps 2 exs = true /\ svd_rank ROps (1 / 1000) 2 exs = 1%nat.
Proof. exact (@svd_certificate_example). Qed.
Print Assumptions C24_svd_certificate_example.

Theorem C24_qtz_certificate_example :
  let x : Rvec := fun i => if Nat.eqb i 0 then 1 else 0 in
  let b : Rvec := fun i => if Nat.eqb i 0 then 3 else 5 in
  normal_check ROps 2 2 0 exA x b = true /\ nullorth_check ROps 2 1 0 exI x = true.
Proof. exact (@qtz_certificate_example). Qed.
Print Assumptions C24_qtz_certificate_example.

Theorem C24_eig_certificate_example :
  let A : Rmat := fun i j => if Nat.eqb i j then (if Nat.eqb i 0 then 1 else 2) else 0 in
  let lam : Rvec := fun i => if Nat.eqb i 0 then 1 else 2 in
  orth_check ROps 2 0 exI = true /\ eig_check ROps 2 0 A lam exI = true.
Proof. exact (@eig_certificate_example). Qed.
Print Assumptions C24_eig_certificate_example.

Theorem C24_inverse_certificate_example :
  let A : Rmat := fun i j => if Nat.eqb i j then (if Nat.eqb i 0 then 2 else 4) else 0 in
  let Ai : Rmat := fun i j => if Nat.eqb i j then (if Nat.eqb i 0 then 1 / 2 else 1 / 4) else 0 in
  inverse_check ROps 2 0 A Ai = true.
Proof. exact (@inverse_certificate_example). Qed.
Print Assumptions C24_inverse_certificate_example.

Theorem C24_svd_rank_default_counts_nonzero (m n k r : nat) (s : Rvec) (sig : R) :
  desc_check ROps k s = true -> (0 < r <= k)%nat ->
  (forall p, (p < r)%nat -> 0 < s p) -> (forall p, (r <= p < k)%nat -> s p = 0) ->
  0 <= sig -> INR (Nat.max m n) * sig * s O < s (pred r) ->
  svd_rank_default ROps sig m n k s = r.
Proof. exact (svd_rank_default_counts_nonzero m n k r s sig). Qed.
Print Assumptions C24_svd_rank_default_counts_nonzero.
