(** C25 (fixed-size part) property theorems: statements only, each closed by [exact]; proofs are in C25/C25_Proofs.v,
    the definitions k25_* in Gen/sm25{c,d,i}_gen.v are regenerated from SmallMatrixMixed.h on every run. *)
From Coq Require Import ZArith Reals.
Require Import Num Vec sm25c_gen sm25d_gen sm25i_gen C25_Proofs.
Local Open Scope R_scope.

Theorem C25_det33_is_triple_product m : k25_det33 ROps m = m33_det ROps m.
Proof. exact (det33_is_triple_product m). Qed.

Theorem C25_det33_mul a b : k25_det33 ROps (mm a b) = k25_det33 ROps a * k25_det33 ROps b.
Proof. exact (det33_mul a b). Qed.

Theorem C25_det33_transpose m : k25_det33 ROps (m33_T m) = k25_det33 ROps m.
Proof. exact (det33_transpose m). Qed.

Theorem C25_det33_identity : k25_det33 ROps I33 = 1.
Proof. exact (@det33_identity). Qed.

Theorem C25_det33_scale c m : k25_det33 ROps (m33_scale ROps c m) = c * c * c * k25_det33 ROps m.
Proof. exact (det33_scale c m). Qed.

Theorem C25_detSym33_is_det33 s : k25_detSym33 ROps s = k25_det33 ROps (sym_to_m33 s).
Proof. exact (detSym33_is_det33 s). Qed.

Theorem C25_inv33_right m : k25_det33 ROps m <> 0 -> mm m (k25_inv33 ROps m) = I33.
Proof. exact (inv33_right m). Qed.

Theorem C25_inv33_left m : k25_det33 ROps m <> 0 -> mm (k25_inv33 ROps m) m = I33.
Proof. exact (inv33_left m). Qed.

Theorem C25_inv33_solves m x : k25_det33 ROps m <> 0 ->
  m33_mulv ROps m (m33_mulv ROps (k25_inv33 ROps m) x) = x.
Proof. exact (inv33_solves m x). Qed.

Theorem C25_det_inv33 m : k25_det33 ROps m <> 0 -> k25_det33 ROps (k25_inv33 ROps m) * k25_det33 ROps m = 1.
Proof. exact (det_inv33 m). Qed.

Theorem C25_invSym33_is_inv33 s : k25_detSym33 ROps s <> 0 ->
  sym_to_m33 (k25_invSym33 ROps s) = k25_inv33 ROps (sym_to_m33 s).
Proof. exact (invSym33_is_inv33 s). Qed.

Theorem C25_invSym33_right s : k25_detSym33 ROps s <> 0 -> mm (sym_to_m33 s) (sym_to_m33 (k25_invSym33 ROps s)) = I33.
Proof. exact (invSym33_right s). Qed.

Theorem C25_invSym33_left s : k25_detSym33 ROps s <> 0 -> mm (sym_to_m33 (k25_invSym33 ROps s)) (sym_to_m33 s) = I33.
Proof. exact (invSym33_left s). Qed.

Theorem C25_invSym33_before_fix_was_wrong :
  let s : SymMat33 R := ((2,3,4),(1/10,1/5,3/10)) in
  k25_detSym33 ROps s <> 0 /\ mm (sym_to_m33 s) (sym_to_m33 (invSym33_before_fix s)) <> I33 /\
  mm (sym_to_m33 s) (sym_to_m33 (k25_invSym33 ROps s)) = I33.
Proof. exact (@invSym33_before_fix_was_wrong). Qed.

Theorem C25_cross_is_cross a b : k25_cross ROps a b = v3_cross ROps a b.
Proof. exact (cross_is_cross a b). Qed.

Theorem C25_cross_anticommutes a b : k25_cross ROps a b = v3_neg ROps (k25_cross ROps b a).
Proof. exact (cross_anticommutes a b). Qed.

Theorem C25_cross_self a : k25_cross ROps a a = (0,0,0).
Proof. exact (cross_self a). Qed.

Theorem C25_cross_orthogonal a b : v3_dot ROps a (k25_cross ROps a b) = 0 /\ v3_dot ROps b (k25_cross ROps a b) = 0.
Proof. exact (cross_orthogonal a b). Qed.

Theorem C25_cross_lagrange a b : v3_normSqr ROps (k25_cross ROps a b) =
  v3_normSqr ROps a * v3_normSqr ROps b - v3_dot ROps a b * v3_dot ROps a b.
Proof. exact (cross_lagrange a b). Qed.

Theorem C25_cross_bilinear a b c s : k25_cross ROps (v3_add ROps a (v3_scale ROps s b)) c =
  v3_add ROps (k25_cross ROps a c) (v3_scale ROps s (k25_cross ROps b c)).
Proof. exact (cross_bilinear a b c s). Qed.

Theorem C25_cross_bac_cab a b c : k25_cross ROps a (k25_cross ROps b c) =
  v3_sub ROps (v3_scale ROps (v3_dot ROps a c) b) (v3_scale ROps (v3_dot ROps a b) c).
Proof. exact (cross_bac_cab a b c). Qed.

Theorem C25_triple_product_is_det a b c : v3_dot ROps a (k25_cross ROps b c) = k25_det33 ROps (a, b, c).
Proof. exact (triple_product_is_det a b c). Qed.

Theorem C25_cross2_is_z_of_cross a0 a1 b0 b1 : k25_cross2 ROps (a0,a1) (b0,b1) = v3_2 (k25_cross ROps (a0,a1,0) (b0,b1,0)).
Proof. exact (cross2_is_z_of_cross a0 a1 b0 b1). Qed.

Theorem C25_crossMat_mulv v w : m33_mulv ROps (k25_crossMat ROps v) w = k25_cross ROps v w.
Proof. exact (crossMat_mulv v w). Qed.

Theorem C25_crossMat_skew v : m33_T (k25_crossMat ROps v) = m33_neg ROps (k25_crossMat ROps v).
Proof. exact (crossMat_skew v). Qed.

Theorem C25_crossMat_is_base v : k25_crossMat ROps v = m33_crossMat ROps v.
Proof. exact (crossMat_is_base v). Qed.

Theorem C25_cross_vec_sym v s : k25_cross_vs ROps v s = mm (k25_crossMat ROps v) (sym_to_m33 s).
Proof. exact (cross_vec_sym v s). Qed.

Theorem C25_cross_sym_vec s v : k25_cross_sv ROps s v = mm (sym_to_m33 s) (k25_crossMat ROps v).
Proof. exact (cross_sym_vec s v). Qed.

Theorem C25_crossMatSq_is_square v : sym_to_m33 (k25_crossMatSq ROps v) = m33_neg ROps (mm (k25_crossMat ROps v) (k25_crossMat ROps v)).
Proof. exact (crossMatSq_is_square v). Qed.

Theorem C25_crossMatSq_is_Mt_M v : sym_to_m33 (k25_crossMatSq ROps v) = mm (m33_T (k25_crossMat ROps v)) (k25_crossMat ROps v).
Proof. exact (crossMatSq_is_Mt_M v). Qed.

Theorem C25_crossMatSq_parallel_axis v : sym_to_m33 (k25_crossMatSq ROps v) =
  m33_sub ROps (m33_scale ROps (v3_dot ROps v v) I33) (m33_outer ROps v v).
Proof. exact (crossMatSq_parallel_axis v). Qed.

Theorem C25_crossMatSq_mulv v w : m33_mulv ROps (sym_to_m33 (k25_crossMatSq ROps v)) w = k25_cross ROps (k25_cross ROps v w) v.
Proof. exact (crossMatSq_mulv v w). Qed.

Theorem C25_ex_invertible : k25_det33 ROps ((2,1,0),(0,3,1),(1,0,2)) <> 0 /\ k25_detSym33 ROps ((2,3,4),(1,0,1)) <> 0.
Proof. exact (@ex_invertible). Qed.

(** one traversal for the axioms of all theorems of this file *)
Definition C25_all := (@C25_det33_is_triple_product,
  @C25_det33_mul,
  @C25_det33_transpose,
  @C25_det33_identity,
  @C25_det33_scale,
  @C25_detSym33_is_det33,
  @C25_inv33_right,
  @C25_inv33_left,
  @C25_inv33_solves,
  @C25_det_inv33,
  @C25_invSym33_is_inv33,
  @C25_invSym33_right,
  @C25_invSym33_left,
  @C25_invSym33_before_fix_was_wrong,
  @C25_cross_is_cross,
  @C25_cross_anticommutes,
  @C25_cross_self,
  @C25_cross_orthogonal,
  @C25_cross_lagrange,
  @C25_cross_bilinear,
  @C25_cross_bac_cab,
  @C25_triple_product_is_det,
  @C25_cross2_is_z_of_cross,
  @C25_crossMat_mulv,
  @C25_crossMat_skew,
  @C25_crossMat_is_base,
  @C25_cross_vec_sym,
  @C25_cross_sym_vec,
  @C25_crossMatSq_is_square,
  @C25_crossMatSq_is_Mt_M,
  @C25_crossMatSq_parallel_axis,
  @C25_crossMatSq_mulv,
  @C25_ex_invertible).
Print Assumptions C25_all.
