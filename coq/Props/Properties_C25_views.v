(** C25, Matrix_/Vector_/RowVector_ objects and views: the statement list (statements only; proofs in
    coq/C25/C25_views_Addr.v and coq/C25/C25_views_Proofs.v about the model coq/C25/C25_views_Model.v).
    Names: view_op_elt = step_view_addr + block_elt/row_elt/col_elt/diag_elt/transpose_elt/negate_elt/subvector_elt/subrow_elt;
    view_chain; write_through_view_changes_exactly (+ write_exact, write_exact_self, vmap_exact for whole-view updates);
    sym_index_* (SymMat packed storage is a bijection onto [0, M(M+1)/2)); tri_* (TriInFullUpperHelper);
    vsum_denotes / vnormsqr_denotes (folds); scalar_add_matrix / scalar_add_vector (scalar conventions);
    assign_to_copied_column_block_refuted (known finding) next to resize_full_owner_ok (what does hold) and resize_owner_ok_repaired / assign_to_copied_column_block_repaired (the model variant of the proposed repair). *)
From Coq Require Import List Arith ZArith Bool Lia.
Require Import C25_views_Model C25_views_Addr C25_views_Proofs.
Import ListNotations.

Theorem C25_eneg_invol e : eneg (eneg e) = e.
Proof. exact (eneg_invol e). Qed.
Print Assumptions C25_eneg_invol.

Theorem C25_econj_invol c e : econj c (econj c e) = e.
Proof. exact (econj_invol c e). Qed.
Print Assumptions C25_econj_invol.

Theorem C25_econj_eneg c e : econj c (eneg e) = eneg (econj c e).
Proof. exact (econj_eneg c e). Qed.
Print Assumptions C25_econj_eneg.

Theorem C25_adapt_invol c v e : adapt c v (adapt c v e) = e.
Proof. exact (adapt_invol c v e). Qed.
Print Assumptions C25_adapt_invol.

Theorem C25_addr_affine h b i j : addr h b i j = b + i * rstride h + j * cstride h.
Proof. exact (addr_affine h b i j). Qed.
Print Assumptions C25_addr_affine.

Theorem C25_step_view_wf o v v' : wfv v -> step_view o v = Some v' -> wfv v'.
Proof. exact (step_view_wf o v v'). Qed.
Print Assumptions C25_step_view_wf.

Theorem C25_step_view_addr o v v' i j :
  wfv v -> step_view o v = Some v' -> inr v' i j ->
  inr v (fst (vop_index_in o v i j)) (snd (vop_index_in o v i j)) /\
  vaddr v' i j = vaddr v (fst (vop_index_in o v i j)) (snd (vop_index_in o v i j)) /\ v_buf v' = v_buf v.
Proof. exact (step_view_addr o v v' i j). Qed.
Print Assumptions C25_step_view_addr.

Theorem C25_step_view_dims o v v' : step_view o v = Some v' ->
  match o with
  | OBlock _ _ m n => v_nr v' = m /\ v_nc v' = n
  | ORow _ => v_nr v' = 1 /\ v_nc v' = v_nc v
  | OCol _ => v_nr v' = v_nr v /\ v_nc v' = 1
  | ODiag => v_nr v' = Nat.min (v_nr v) (v_nc v) /\ v_nc v' = 1
  | OTr => v_nr v' = v_nc v /\ v_nc v' = v_nr v
  | ONeg | OWhole => v_nr v' = v_nr v /\ v_nc v' = v_nc v
  | OSub _ m => match v_shape v with SRow => v_nr v' = 1 /\ v_nc v' = m | _ => v_nr v' = m /\ v_nc v' = 1 end
  end.
Proof. exact (step_view_dims o v v'). Qed.
Print Assumptions C25_step_view_dims.

Theorem C25_step_view_flags o v v' : step_view o v = Some v' ->
  v_neg v' = xorb (v_neg v) (match o with ONeg => true | _ => false end) /\
  v_conj v' = xorb (v_conj v) (match o with OTr => true | _ => false end).
Proof. exact (step_view_flags o v v'). Qed.
Print Assumptions C25_step_view_flags.

Theorem C25_step_view_defined o v :
  step_view o v <> None <->
  match o with
  | OBlock i j m n => i + m <= v_nr v /\ j + n <= v_nc v
  | ORow i => i < v_nr v
  | OCol j => j < v_nc v
  | OSub i m => match v_shape v with SVec => i + m <= v_nr v /\ 1 <= v_nc v | SRow => i + m <= v_nc v /\ 1 <= v_nr v | SMat => False end
  | _ => True
  end.
Proof. exact (step_view_defined o v). Qed.
Print Assumptions C25_step_view_defined.



Theorem C25_run_ops_wf os : forall v v', wfv v -> run_ops os v = Some v' -> wfv v'.
Proof. exact (run_ops_wf os). Qed.
Print Assumptions C25_run_ops_wf.

Theorem C25_view_chain_addr os : forall v v' i j,
  wfv v -> run_ops os v = Some v' -> inr v' i j ->
  inr v (fst (chain_index os v i j)) (snd (chain_index os v i j)) /\
  vaddr v' i j = vaddr v (fst (chain_index os v i j)) (snd (chain_index os v i j)) /\
  v_buf v' = v_buf v /\
  v_neg v' = xorb (v_neg v) (count_op is_neg os) /\ v_conj v' = xorb (v_conj v) (count_op is_tr os).
Proof. exact (view_chain_addr os). Qed.
Print Assumptions C25_view_chain_addr.

Theorem C25_view_chain c W os v v' i j :
  wfv v -> run_ops os v = Some v' -> inr v' i j ->
  vget c W v' i j = flagfix c (count_op is_neg os) (count_op is_tr os)
                      (vget c W v (fst (chain_index os v i j)) (snd (chain_index os v i j))).
Proof. exact (view_chain c W os v v' i j). Qed.
Print Assumptions C25_view_chain.

Theorem C25_block_elt c W v v' i0 j0 m n i j : wfv v -> step_view (OBlock i0 j0 m n) v = Some v' -> i < m -> j < n ->
  vget c W v' i j = vget c W v (i0 + i) (j0 + j).
Proof. exact (block_elt c W v v' i0 j0 m n i j). Qed.
Print Assumptions C25_block_elt.

Theorem C25_row_elt c W v v' i0 j : wfv v -> step_view (ORow i0) v = Some v' -> j < v_nc v ->
  vget c W v' 0 j = vget c W v i0 j.
Proof. exact (row_elt c W v v' i0 j). Qed.
Print Assumptions C25_row_elt.

Theorem C25_col_elt c W v v' j0 i : wfv v -> step_view (OCol j0) v = Some v' -> i < v_nr v ->
  vget c W v' i 0 = vget c W v i j0.
Proof. exact (col_elt c W v v' j0 i). Qed.
Print Assumptions C25_col_elt.

Theorem C25_diag_elt c W v v' i : wfv v -> step_view ODiag v = Some v' -> i < Nat.min (v_nr v) (v_nc v) ->
  vget c W v' i 0 = vget c W v i i.
Proof. exact (diag_elt c W v v' i). Qed.
Print Assumptions C25_diag_elt.

Theorem C25_transpose_elt c W v v' i j : wfv v -> step_view OTr v = Some v' -> i < v_nc v -> j < v_nr v ->
  vget c W v' i j = econj c (vget c W v j i).
Proof. exact (transpose_elt c W v v' i j). Qed.
Print Assumptions C25_transpose_elt.

Theorem C25_negate_elt c W v v' i j : wfv v -> step_view ONeg v = Some v' -> i < v_nr v -> j < v_nc v ->
  vget c W v' i j = eneg (vget c W v i j).
Proof. exact (negate_elt c W v v' i j). Qed.
Print Assumptions C25_negate_elt.

Theorem C25_subvector_elt c W v v' k m i : wfv v -> v_shape v = SVec -> step_view (OSub k m) v = Some v' -> i < m ->
  vget c W v' i 0 = vget c W v (k + i) 0.
Proof. exact (subvector_elt c W v v' k m i). Qed.
Print Assumptions C25_subvector_elt.

Theorem C25_subrow_elt c W v v' k m j : wfv v -> v_shape v = SRow -> step_view (OSub k m) v = Some v' -> j < m ->
  vget c W v' 0 j = vget c W v 0 (k + j).
Proof. exact (subrow_elt c W v v' k m j). Qed.
Print Assumptions C25_subrow_elt.

Theorem C25_negate_involutive c W v v1 v2 i j : wfv v -> step_view ONeg v = Some v1 -> step_view ONeg v1 = Some v2 ->
  i < v_nr v -> j < v_nc v -> vget c W v2 i j = vget c W v i j.
Proof. exact (negate_involutive c W v v1 v2 i j). Qed.
Print Assumptions C25_negate_involutive.

Theorem C25_transpose_involutive c W v v1 v2 i j : wfv v -> step_view OTr v = Some v1 -> step_view OTr v1 = Some v2 ->
  i < v_nr v -> j < v_nc v -> vget c W v2 i j = vget c W v i j.
Proof. exact (transpose_involutive c W v v1 v2 i j). Qed.
Print Assumptions C25_transpose_involutive.

Theorem C25_step_view_inj o v v' : wfv v -> injv v -> step_view o v = Some v' -> injv v'.
Proof. exact (step_view_inj o v v'). Qed.
Print Assumptions C25_step_view_inj.

Theorem C25_run_ops_inj os : forall v v', wfv v -> injv v -> run_ops os v = Some v' -> injv v'.
Proof. exact (run_ops_inj os). Qed.
Print Assumptions C25_run_ops_inj.

Theorem C25_packed_full_inj b ro nr nc base ng cj sh ow :
  injv (mkView b (HFull ro (if ro then nc else nr)) nr nc base ng cj sh ow).
Proof. exact (packed_full_inj b ro nr nc base ng cj sh ow). Qed.
Print Assumptions C25_packed_full_inj.

Theorem C25_packed_vec_inj b r nr nc base ng cj sh ow : nr <= 1 \/ nc <= 1 ->
  injv (mkView b (HVecC r) nr nc base ng cj sh ow).
Proof. exact (packed_vec_inj b r nr nc base ng cj sh ow). Qed.
Print Assumptions C25_packed_vec_inj.

Theorem C25_write_exact c W v i j e w i' j' :
  inb W v -> inr v i j ->
  vget c (vset c W v i j e) w i' j' =
  if (v_buf w =? v_buf v) && (vaddr w i' j' =? vaddr v i j) then adapt c w (adapt c v e) else vget c W w i' j'.
Proof. exact (write_exact c W v i j e w i' j'). Qed.
Print Assumptions C25_write_exact.

Theorem C25_write_exact_self c W v i j e i' j' :
  inb W v -> injv v -> inr v i j -> inr v i' j' ->
  vget c (vset c W v i j e) v i' j' = if (i' =? i) && (j' =? j) then e else vget c W v i' j'.
Proof. exact (write_exact_self c W v i j e i' j'). Qed.
Print Assumptions C25_write_exact_self.

Theorem C25_write_through_view_changes_exactly c W os r v i j e a b :
  wfv r -> injv r -> inb W r -> run_ops os r = Some v -> inr v i j -> inr r a b ->
  vget c (vset c W v i j e) r a b =
  if (a =? fst (chain_index os r i j)) && (b =? snd (chain_index os r i j))
  then flagfix c (count_op is_neg os) (count_op is_tr os) e else vget c W r a b.
Proof. exact (write_through_view_changes_exactly c W os r v i j e a b). Qed.
Print Assumptions C25_write_through_view_changes_exactly.

Theorem C25_vmap_exact c W v f : inb W v -> injv v ->
  (forall a b, inr v a b -> vget c (vmap c W v f) v a b = f a b (vget c W v a b)) /\
  (forall w i' j', (v_buf w <> v_buf v \/ forall i j, inr v i j -> vaddr w i' j' <> vaddr v i j) ->
                   vget c (vmap c W v f) w i' j' = vget c W w i' j').
Proof. exact (vmap_exact c W v f). Qed.
Print Assumptions C25_vmap_exact.

Theorem C25_contiguous_range v i j : wfv v -> contiguous v = true -> inr v i j ->
  v_base v <= vaddr v i j < v_base v + v_nr v * v_nc v /\
  vaddr v i j = v_base v + match v_h v with HFull true _ => i * v_nc v + j | HFull false _ => j * v_nr v + i | _ => i + j end.
Proof. exact (contiguous_range v i j). Qed.
Print Assumptions C25_contiguous_range.

Theorem C25_sym_lowerIx_range M i j : j < i -> i < M -> sym_lowerIx M i j < tri_num M.
Proof. exact (sym_lowerIx_range M i j). Qed.
Print Assumptions C25_sym_lowerIx_range.

Theorem C25_sym_lowerIx_injective M i j i' j' : j < i -> i < M -> j' < i' -> i' < M ->
  sym_lowerIx M i j = sym_lowerIx M i' j' -> i = i' /\ j = j'.
Proof. exact (sym_lowerIx_injective M i j i' j'). Qed.
Print Assumptions C25_sym_lowerIx_injective.

Theorem C25_sym_lowerIx_surjective M k : k < tri_num M -> exists i j, j < i /\ i < M /\ sym_lowerIx M i j = k.
Proof. exact (sym_lowerIx_surjective M k). Qed.
Print Assumptions C25_sym_lowerIx_surjective.

Theorem C25_sym_index_range M i j : j <= i -> i < M -> sym_index M i j < M + tri_num M.
Proof. exact (sym_index_range M i j). Qed.
Print Assumptions C25_sym_index_range.

Theorem C25_sym_index_injective M i j i' j' : j <= i -> i < M -> j' <= i' -> i' < M ->
  sym_index M i j = sym_index M i' j' -> i = i' /\ j = j'.
Proof. exact (sym_index_injective M i j i' j'). Qed.
Print Assumptions C25_sym_index_injective.

Theorem C25_sym_index_surjective M k : k < M + tri_num M -> exists i j, j <= i /\ i < M /\ sym_index M i j = k.
Proof. exact (sym_index_surjective M k). Qed.
Print Assumptions C25_sym_index_surjective.

Theorem C25_tri_num_closed M : 2 * (M + tri_num M) = M * (M + 1).
Proof. exact (tri_num_closed M). Qed.
Print Assumptions C25_tri_num_closed.

Theorem C25_tri_addr_injective t i j i' j' : t_minmn t <= t_ld t ->
  tri_stored t i j = true -> tri_stored t i' j' = true -> tri_addr t i j = tri_addr t i' j' -> i = i' /\ j = j'.
Proof. exact (tri_addr_injective t i j i' j'). Qed.
Print Assumptions C25_tri_addr_injective.

Theorem C25_tri_any_stored c k t mem i j : tri_stored t i j = true -> tri_any c k t mem i j = nth (tri_addr t i j) mem [].
Proof. exact (tri_any_stored c k t mem i j). Qed.
Print Assumptions C25_tri_any_stored.

Theorem C25_tri_any_triangular_zero c k t mem i j : t_triangular t = true -> j < i -> tri_any c k t mem i j = ezero k.
Proof. exact (tri_any_triangular_zero c k t mem i j). Qed.
Print Assumptions C25_tri_any_triangular_zero.

Theorem C25_tri_any_symmetric c k t mem i j :
  t_triangular t = false -> t_hermitian t = false -> t_skew t = false -> i < t_minmn t -> j < t_minmn t ->
  tri_any c k t mem i j = tri_any c k t mem j i.
Proof. exact (tri_any_symmetric c k t mem i j). Qed.
Print Assumptions C25_tri_any_symmetric.

Theorem C25_tri_any_hermitian c k t mem i j :
  t_triangular t = false -> t_hermitian t = true -> t_skew t = false -> i < t_minmn t -> j < t_minmn t -> i <> j ->
  tri_any c k t mem i j = econj c (tri_any c k t mem j i).
Proof. exact (tri_any_hermitian c k t mem i j). Qed.
Print Assumptions C25_tri_any_hermitian.

Theorem C25_tri_any_skew c k t mem i j :
  t_triangular t = false -> t_hermitian t = false -> t_skew t = true -> i < t_minmn t -> j < t_minmn t -> i <> j ->
  tri_any c k t mem i j = eneg (tri_any c k t mem j i).
Proof. exact (tri_any_skew c k t mem i j). Qed.
Print Assumptions C25_tri_any_skew.

Theorem C25_scalar_add_matrix c W v e i j :
  v_shape v = SMat -> wfv v -> injv v -> inb W v -> inr v i j ->
  vget c (vscalar_add c W v e) v i j = if i =? j then eadd (vget c W v i j) e else vget c W v i j.
Proof. exact (scalar_add_matrix c W v e i j). Qed.
Print Assumptions C25_scalar_add_matrix.

Theorem C25_scalar_add_vector c W v e i j :
  v_shape v <> SMat -> injv v -> inb W v -> inr v i j ->
  vget c (vscalar_add c W v e) v i j = eadd (vget c W v i j) e.
Proof. exact (scalar_add_vector c W v e i j). Qed.
Print Assumptions C25_scalar_add_vector.

Theorem C25_scale_through_view c W v s i j : injv v -> inb W v -> inr v i j ->
  vget c (vmap c W v (fun _ _ x => escale s x)) v i j = escale s (vget c W v i j).
Proof. exact (scale_through_view c W v s i j). Qed.
Print Assumptions C25_scale_through_view.

Theorem C25_vsum_denotes c k W os r v : wfv r -> run_ops os r = Some v ->
  vsum c k W v = fold_left (fun s ij => eadd s (flagfix c (count_op is_neg os) (count_op is_tr os)
                     (vget c W r (fst (chain_index os r (fst ij) (snd ij))) (snd (chain_index os r (fst ij) (snd ij))))))
                           (vixs v) (ezero k).
Proof. exact (vsum_denotes c k W os r v). Qed.
Print Assumptions C25_vsum_denotes.

Theorem C25_vnormsqr_denotes c W os r v : wfv r -> run_ops os r = Some v ->
  vnormsqr c W v = fold_left (fun s ij => Z.add s (esqr (flagfix c (count_op is_neg os) (count_op is_tr os)
                     (vget c W r (fst (chain_index os r (fst ij) (snd ij))) (snd (chain_index os r (fst ij) (snd ij)))))))
                           (vixs v) 0%Z.
Proof. exact (vnormsqr_denotes c W os r v). Qed.
Print Assumptions C25_vnormsqr_denotes.

Theorem C25_new_owner_ok b sh m n : size_ok sh m n = true -> wfv (new_view b sh m n) /\ injv (new_view b sh m n).
Proof. exact (new_owner_ok b sh m n). Qed.
Print Assumptions C25_new_owner_ok.

Theorem C25_resize_full_owner_ok rp W h v m n keep W1 v1 ro ld :
  v_h v = HFull ro ld -> resize rp W h v m n keep = Some (W1, v1) -> (m, n) <> (v_nr v, v_nc v) ->
  v_nr v1 = m /\ v_nc v1 = n /\ wfv v1 /\ injv v1.
Proof. exact (resize_full_owner_ok rp W h v m n keep W1 v1 ro ld). Qed.
Print Assumptions C25_resize_full_owner_ok.

Theorem C25_resize_owner_ok_repaired W h v m n keep W1 v1 :
  resize true W h v m n keep = Some (W1, v1) -> (m, n) <> (v_nr v, v_nc v) -> m <> 1 -> n <> 1 ->
  v_nr v1 = m /\ v_nc v1 = n /\ wfv v1 /\ injv v1.
Proof. exact (resize_owner_ok_repaired W h v m n keep W1 v1). Qed.
Print Assumptions C25_resize_owner_ok_repaired.

Theorem C25_assign_to_copied_column_block_refuted :
  exists v, getview (run_w false 1 false refut_ops) 2 = Some v /\ v_owner v = true /\ v_nr v = 2 /\ v_nc v = 2 /\
            velems false (run_w false 1 false refut_ops) v = [[11]; [13]; [13]; [12]]%Z /\
            velems false (run_w false 1 false refut_ops) v <> [[11]; [12]; [13]; [14]]%Z /\ ~ wfv v.
Proof. exact (@assign_to_copied_column_block_refuted). Qed.
Print Assumptions C25_assign_to_copied_column_block_refuted.

Theorem C25_assign_to_copied_column_block_repaired :
  exists v, getview (run_w false 1 true refut_ops) 2 = Some v /\ v_nr v = 2 /\ v_nc v = 2 /\ wfv v /\
            velems false (run_w false 1 true refut_ops) v = [[11]; [12]; [13]; [14]]%Z.
Proof. exact (@assign_to_copied_column_block_repaired). Qed.
Print Assumptions C25_assign_to_copied_column_block_repaired.

Theorem C25_ex_chain_runs : exists v, run_ops ex_ops ex_root = Some v /\ v_nr v = 2 /\ v_nc v = 1 /\ v_shape v = SVec /\
  chain_index ex_ops ex_root 1 0 = (3, 3) /\ count_op is_neg ex_ops = true /\ count_op is_tr ex_ops = false.
Proof. exact (@ex_chain_runs). Qed.
Print Assumptions C25_ex_chain_runs.

Theorem C25_ex_root_ok : wfv ex_root /\ injv ex_root.
Proof. exact (@ex_root_ok). Qed.
Print Assumptions C25_ex_root_ok.

Theorem C25_ex_world_inb : let W := run_w false 1 false [WNew SMat 4 5 1%Z] in getview W 0 = Some ex_root /\ inb W ex_root.
Proof. exact (@ex_world_inb). Qed.
Print Assumptions C25_ex_world_inb.

Theorem C25_ex_sym_index : map (fun ij => sym_index 4 (fst ij) (snd ij)) [(0,0);(1,1);(2,2);(3,3);(1,0);(2,0);(3,0);(2,1);(3,1);(3,2)] = seq 0 10.
Proof. exact (@ex_sym_index). Qed.
Print Assumptions C25_ex_sym_index.

