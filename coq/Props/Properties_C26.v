(** C26 property theorems: statements only, each closed by [exact]; proofs are in C26/C26_Proofs.v (Array_ slot
    model C26/C26_Model.v, operation lemmas C26/C26_Ops.v) and C26/C26_PtrProofs.v (pointer-wrapper models C26/C26_Ptr.v).

    Array_ (all for EVERY operation sequence from K empty arrays, value arguments outside the arrays):
      refines_list, precondition_only   contents and order = std::vector semantics; the model stops exactly at violated preconditions
      slot_discipline                   never construct on a live slot / read, move, assign or destroy a dead one / free live objects /
                                        read a freed block; afterwards live objects exactly in [0,size), capacity >= size
      ctor_dtor_balanced, all_destroyed constructions - destructions = elements alive; everything destroyed at the end
      growth_policy_bounds, *_capacity  the growth policy and when reallocation happens
      view_*                            ArrayView_ (nested) aliases exactly its sub-range
      *_refuted                         push_back / insert / resize with a value that refers to the array's own element (DESIGN 7.10)
    Pointer wrappers: cow_* (CloneOnWritePtr, every operation sequence), clone_ptr_* (ClonePtr, every operation sequence), reference_ptr_*, reset_on_copy_*, reinit_on_copy_*,
      copies_do_not_carry_value. *)
From Coq Require Import List Arith Bool NArith.
Import ListNotations.
Require Import C26_Model C26_Lemmas C26_Ops C26_Guard C26_Proofs C26_Ptr C26_PtrProofs C26_CloneProofs.

Theorem C26_refines_list :
  forall (elt : Type) (dflt : elt) (guard : bool) (k : nat) (ops : list (op elt)) (ls : list (list elt)),
  forallb (allowed guard) ops = true ->
  srun dflt (repeat [] k) ops = Some ls ->
  exists w : world elt, run dflt guard (init_world k) ops = Ok w /\ map observe (arrs w) = map (map Some) ls.
Proof. exact (@refines_list). Qed.
Print Assumptions C26_refines_list.

Theorem C26_precondition_only :
  forall (elt : Type) (dflt : elt) (guard : bool) (k : nat) (ops : list (op elt)),
  forallb (allowed guard) ops = true ->
  srun dflt (repeat [] k) ops = None -> run dflt guard (init_world k) ops = Err Precond.
Proof. exact (@precondition_only). Qed.
Print Assumptions C26_precondition_only.

Theorem C26_slot_discipline :
  forall (elt : Type) (dflt : elt) (guard : bool) (k : nat) (ops : list (op elt)),
  forallb (allowed guard) ops = true ->
  match run dflt guard (init_world k) ops with
  | Ok w => Forall disciplined (arrs w)
  | Err f => f = Precond
  end.
Proof. exact (@slot_discipline). Qed.
Print Assumptions C26_slot_discipline.

Theorem C26_ctor_dtor_balanced :
  forall (elt : Type) (dflt : elt) (guard : bool) (k : nat) (ops : list (op elt)) (w : world elt),
  forallb (allowed guard) ops = true ->
  run dflt guard (init_world k) ops = Ok w ->
  wctor w = (wdtor w + N.of_nat (sizes w))%N /\ Forall (fun a : arr elt => live_count a = asize a) (arrs w).
Proof. exact (@ctor_dtor_balanced). Qed.
Print Assumptions C26_ctor_dtor_balanced.

Theorem C26_all_destroyed :
  forall (elt : Type) (dflt : elt) (guard : bool) (k : nat) (ops : list (op elt)) (w : world elt),
  forallb (allowed guard) ops = true ->
  run dflt guard (init_world k) ops = Ok w ->
  exists w' : world elt,
    run dflt guard w (map Deallocate (seq 0 (length (arrs w)))) = Ok w' /\
    wctor w' = wdtor w' /\ Forall (fun a : arr elt => asize a = 0) (arrs w').
Proof. exact (@all_destroyed). Qed.
Print Assumptions C26_all_destroyed.

Theorem C26_growth_policy_bounds :
  forall cap n : nat,
  cap + n <= new_cap cap n /\
  2 * cap <= new_cap cap n /\
  4 <= new_cap cap n /\ (new_cap cap n = cap + n \/ new_cap cap n = 2 * cap \/ new_cap cap n = 4).
Proof. exact (@growth_policy_bounds). Qed.
Print Assumptions C26_growth_policy_bounds.

Theorem C26_push_back_capacity :
  forall (elt : Type) (s : st elt) (xs : list elt) (v : elt),
  good s xs ->
  exists s' : st elt,
    push_back (Ext v) s = Ok s' /\
    good s' (xs ++ [v]) /\
    capacity s' = (if capacity s =? length xs then new_cap (capacity s) 1 else capacity s).
Proof. exact (@push_back_capacity). Qed.
Print Assumptions C26_push_back_capacity.

Theorem C26_insert_capacity :
  forall (elt : Type) (s : st elt) (xs : list elt) (p n : nat) (v : elt),
  good s xs ->
  p <= length xs ->
  exists s' : st elt,
    insert_n p n (Ext v) s = Ok s' /\
    good s' (splice p p (repeat v n) xs) /\
    capacity s' =
    (if n =? 0 then capacity s else if length xs + n <=? capacity s then capacity s else new_cap (capacity s) n).
Proof. exact (@insert_capacity). Qed.
Print Assumptions C26_insert_capacity.

Theorem C26_reserve_capacity :
  forall (elt : Type) (s : st elt) (xs : list elt) (n : nat),
  good s xs ->
  exists s' : st elt,
    reserve n s = Ok s' /\ good s' xs /\ capacity s' = (if n <=? capacity s then capacity s else n).
Proof. exact (@reserve_capacity). Qed.
Print Assumptions C26_reserve_capacity.

Theorem C26_shrink_capacity :
  forall (elt : Type) (s : st elt) (xs : list elt),
  good s xs ->
  exists s' : st elt,
    shrink_to_fit s = Ok s' /\
    good s' xs /\
    capacity s' = (if capacity s - Nat.div2 (Nat.div2 (length xs)) <=? length xs then capacity s else length xs).
Proof. exact (@shrink_capacity). Qed.
Print Assumptions C26_shrink_capacity.

Theorem C26_view_aliases_subrange :
  forall (elt : Type) (s : st elt) (xs : list elt) (path : list (nat * nat)) (v : elt) (b l : nat),
  good s xs ->
  resolve_view path 0 (length xs) = Some (b, l) ->
  exists s' : st elt,
    view_fill path v s = Ok s' /\
    good s' (firstn b xs ++ repeat v l ++ skipn (b + l) xs) /\ capacity s' = capacity s /\ b + l <= length xs.
Proof. exact (@view_aliases_subrange). Qed.
Print Assumptions C26_view_aliases_subrange.

Theorem C26_view_assign_aliases_subrange :
  forall (elt : Type) (s : st elt) (xs : list elt) (path : list (nat * nat)) (vs : list elt) (b : nat),
  good s xs ->
  resolve_view path 0 (length xs) = Some (b, length vs) ->
  exists s' : st elt,
    view_assign path vs s = Ok s' /\
    good s' (firstn b xs ++ vs ++ skipn (b + length vs) xs) /\ capacity s' = capacity s.
Proof. exact (@view_assign_aliases_subrange). Qed.
Print Assumptions C26_view_assign_aliases_subrange.

Theorem C26_view_nested_inside :
  forall (path : list (nat * nat)) (base len b l : nat),
  resolve_view path base len = Some (b, l) -> base <= b /\ b + l <= base + len.
Proof. exact (@view_nested_inside). Qed.
Print Assumptions C26_view_nested_inside.

Theorem C26_slot_discipline_refuted :
  exists ops : list (op nat),
    srun 0 [[]] ops = Some [[1; 2; 3; 4; 1]] /\ run 0 false (init_world 1) ops = Err ReadFreed.
Proof. exact (@slot_discipline_refuted). Qed.
Print Assumptions C26_slot_discipline_refuted.

Theorem C26_slot_discipline_refuted_insert_realloc :
  exists ops : list (op nat),
    srun 0 [[]] ops = Some [[1; 1; 2; 3; 4]] /\ run 0 false (init_world 1) ops = Err ReadFreed.
Proof. exact (@slot_discipline_refuted_insert_realloc). Qed.
Print Assumptions C26_slot_discipline_refuted_insert_realloc.

Theorem C26_slot_discipline_refuted_insert_n_realloc :
  exists ops : list (op nat),
    srun 0 [[]] ops = Some [[1; 2; 2; 2; 3; 4]] /\ run 0 false (init_world 1) ops = Err ReadFreed.
Proof. exact (@slot_discipline_refuted_insert_n_realloc). Qed.
Print Assumptions C26_slot_discipline_refuted_insert_n_realloc.

Theorem C26_slot_discipline_refuted_resize :
  exists ops : list (op nat),
    srun 0 [[]] ops = Some [[1; 2; 3; 4; 3; 3]] /\ run 0 false (init_world 1) ops = Err ReadFreed.
Proof. exact (@slot_discipline_refuted_resize). Qed.
Print Assumptions C26_slot_discipline_refuted_resize.

Theorem C26_slot_discipline_refuted_inplace :
  exists ops : list (op nat),
    srun 0 [[]] ops = Some [[1; 1; 2; 3; 4]] /\ run 0 false (init_world 1) ops = Err ReadNotLive.
Proof. exact (@slot_discipline_refuted_inplace). Qed.
Print Assumptions C26_slot_discipline_refuted_inplace.

Theorem C26_refines_list_refuted :
  exists (ops : list (op nat)) (w : world nat),
    srun 0 [[]] ops = Some [[3; 1; 2; 3; 4]] /\
    run 0 false (init_world 1) ops = Ok w /\ map observe (arrs w) = [[Some 2; Some 1; Some 2; Some 3; Some 4]].
Proof. exact (@refines_list_refuted). Qed.
Print Assumptions C26_refines_list_refuted.

Theorem C26_own_argument_fine_without_moves :
  exists (ops : list (op nat)) (w : world nat),
    run 0 false (init_world 1) ops = Ok w /\
    map observe (arrs w) = map (map Some) [[1; 2; 3; 2; 4; 1]] /\ srun 0 [[]] ops = Some [[1; 2; 3; 2; 4; 1]].
Proof. exact (@own_argument_fine_without_moves). Qed.
Print Assumptions C26_own_argument_fine_without_moves.

Theorem C26_witnesses_repaired :
  map
    (fun ops : list (op nat) =>
     match run 0 true (init_world 1) ops with
     | Ok w => map observe (arrs w)
     | Err _ => []
     end)
    [four ++ [PushBack 0 (Own 0)]; four ++ [Insert 0 0 (Own 0)]; four ++ [InsertN 0 1 2 (Own 1)];
     four ++ [ResizeFill 0 6 (Own 2)]; four ++ [Reserve 0 16; Insert 0 0 (Own 0)];
     four ++ [Reserve 0 16; Insert 0 0 (Own 2)]] =
  map (fun l : list nat => [map Some l])
    [[1; 2; 3; 4; 1]; [1; 1; 2; 3; 4]; [1; 2; 2; 2; 3; 4]; [1; 2; 3; 4; 3; 3]; [1; 1; 2; 3; 4]; [3; 1; 2; 3; 4]].
Proof. exact (@witnesses_repaired). Qed.
Print Assumptions C26_witnesses_repaired.

Theorem C26_push_back_own_ok :
  forall (elt : Type) (i : nat) (x : elt) (xs : list elt) (s : st elt),
  nth_error xs i = Some x ->
  good s xs ->
  capacity s <> size s ->
  exists s' : st elt,
    push_back (Own i) s = Ok s' /\
    good s' (xs ++ [x]) /\ bal s s' (length xs) (length (xs ++ [x])) /\ capacity s' = capacity s.
Proof. exact (@push_back_own_ok). Qed.
Print Assumptions C26_push_back_own_ok.

Theorem C26_resize_fill_own_ok :
  forall (elt : Type) (n i : nat) (x : elt) (xs : list elt) (s : st elt),
  nth_error xs i = Some x ->
  good s xs ->
  n <= capacity s ->
  exists s' : st elt,
    resize_fill n (Own i) s = Ok s' /\
    good s' (firstn n xs ++ repeat x (n - length xs)) /\
    bal s s' (length xs) (length (firstn n xs ++ repeat x (n - length xs))).
Proof. exact (@resize_fill_own_ok). Qed.
Print Assumptions C26_resize_fill_own_ok.

Theorem C26_demo_hypotheses :
  forallb (allowed false) demo = true /\
  srun 0 (repeat [] 3) demo = Some [[5; 40; 41; 72; 7; 7; 2; 3]; [5; 7; 7; 55; 55; 0; 0; 0; 0; 0; 0]; []].
Proof. exact (@demo_hypotheses). Qed.
Print Assumptions C26_demo_hypotheses.

Theorem C26_cow_copies_independent :
  forall (elt : Type) (k : nat) (ops : list (pop elt)) (vs : list (option elt)),
  pspec_run (repeat None k) ops = Some vs ->
  exists s : pst elt, prun false (pinit k) ops = Some s /\ (forall p : nat, pvalue s p = nth p vs None).
Proof. exact (@cow_copies_independent). Qed.
Print Assumptions C26_cow_copies_independent.

Theorem C26_cow_precondition_only :
  forall (elt : Type) (k : nat) (ops : list (pop elt)),
  pspec_run (repeat None k) ops = None -> prun false (pinit k) ops = None.
Proof. exact (@cow_precondition_only). Qed.
Print Assumptions C26_cow_precondition_only.

Theorem C26_cow_refcount_exact :
  forall (elt : Type) (k : nat) (ops : list (pop elt)) (s : pst elt),
  prun false (pinit k) ops = Some s ->
  forall i : nat,
  match cell s i with
  | Some (_, c) => c = occ i (vars s) /\ 1 <= c
  | None => occ i (vars s) = 0
  end.
Proof. exact (@cow_refcount_exact). Qed.
Print Assumptions C26_cow_refcount_exact.

Theorem C26_cow_copy_shares :
  forall (elt : Type) (s : pst elt) (p q : nat) (a b : option nat),
  RC s ->
  getv s p = Some a ->
  getv s q = Some b ->
  p <> q ->
  exists s' : pst elt,
    pstep false s (PCopyCtor p q) = Some s' /\
    getv s' p = getv s' q /\ getv s' q = Some b /\ nclone s' = nclone s.
Proof. exact (@cow_copy_shares). Qed.
Print Assumptions C26_cow_copy_shares.

Theorem C26_cow_clone_only_on_shared_write :
  forall (elt : Type) (s s' : pst elt) (o : pop elt),
  RC s ->
  pstep false s o = Some s' ->
  nclone s' = nclone s \/
  (exists (p : nat) (v : elt), o = PAssignVal p v /\ nclone s' = N.succ (nclone s)) \/
  (exists (p i : nat) (v : elt) (c : nat),
     (o = PDetach p \/ o = PRelease p \/ (exists x : elt, o = PWrite p x)) /\
     getv s p = Some (Some i) /\ cell s i = Some (v, c) /\ 2 <= c /\ nclone s' = N.succ (nclone s)).
Proof. exact (@cow_clone_only_on_shared_write). Qed.
Print Assumptions C26_cow_clone_only_on_shared_write.

Theorem C26_reference_ptr_copy_is_null :
  forall (elt : Type) (nul : elt) (s : list (elt * elt)) (p q : nat) (s' : list (elt * elt)),
  wstep WRef nul s (WCopyCtor p q) = Some s' -> wval s' p = Some nul.
Proof. exact (@reference_ptr_copy_is_null). Qed.
Print Assumptions C26_reference_ptr_copy_is_null.

Theorem C26_reference_ptr_assign_is_null :
  forall (elt : Type) (nul : elt) (s : list (elt * elt)) (p q : nat) (s' : list (elt * elt)),
  p <> q -> wstep WRef nul s (WCopyAssign p q) = Some s' -> wval s' p = Some nul.
Proof. exact (@reference_ptr_assign_is_null). Qed.
Print Assumptions C26_reference_ptr_assign_is_null.

Theorem C26_reset_on_copy_drops_value :
  forall (elt : Type) (nul : elt) (s : list (elt * elt)) (p q : nat) (s' : list (elt * elt)),
  wstep WReset nul s (WCopyCtor p q) = Some s' \/ wstep WReset nul s (WCopyAssign p q) = Some s' ->
  wval s' p = Some nul.
Proof. exact (@reset_on_copy_drops_value). Qed.
Print Assumptions C26_reset_on_copy_drops_value.

Theorem C26_reinit_on_copy_reinitializes :
  forall (elt : Type) (nul : elt) (s : list (elt * elt)) (p q : nat) (s' : list (elt * elt)),
  (wstep WReinit nul s (WCopyCtor p q) = Some s' ->
   exists vq rq : elt, nth_error s q = Some (vq, rq) /\ nth_error s' p = Some (rq, rq)) /\
  (wstep WReinit nul s (WCopyAssign p q) = Some s' ->
   exists vp rp : elt, nth_error s p = Some (vp, rp) /\ nth_error s' p = Some (rp, rp)).
Proof. exact (@reinit_on_copy_reinitializes). Qed.
Print Assumptions C26_reinit_on_copy_reinitializes.

Theorem C26_copies_do_not_carry_value :
  forall (elt : Type) (k : wkind) (nul : elt) (s : list (elt * elt)) (p q : nat) (vq rq x : elt) (o : wop elt),
  p <> q ->
  nth_error s q = Some (vq, rq) ->
  o = WCopyCtor p q \/ o = WCopyAssign p q ->
  match wstep k nul s o with
  | Some s1 =>
      match wstep k nul (upd q (x, rq) s) o with
      | Some s2 => nth_error s1 p = nth_error s2 p
      | None => False
      end
  | None => match wstep k nul (upd q (x, rq) s) o with
            | Some _ => False
            | None => True
            end
  end.
Proof. exact (@copies_do_not_carry_value). Qed.
Print Assumptions C26_copies_do_not_carry_value.

Theorem C26_clone_ptr_copies_independent :
  forall (elt : Type) (k : nat) (ops : list (pop elt)) (vs : list (option elt)),
  pspec_run (repeat None k) ops = Some vs ->
  exists s : pst elt, prun true (pinit k) ops = Some s /\ (forall p : nat, pvalue s p = nth p vs None).
Proof. exact (@clone_ptr_copies_independent). Qed.
Print Assumptions C26_clone_ptr_copies_independent.

Theorem C26_clone_ptr_precondition_only :
  forall (elt : Type) (k : nat) (ops : list (pop elt)),
  pspec_run (repeat None k) ops = None -> prun true (pinit k) ops = None.
Proof. exact (@clone_ptr_precondition_only). Qed.
Print Assumptions C26_clone_ptr_precondition_only.

Theorem C26_clone_ptr_never_shares :
  forall (elt : Type) (k : nat) (ops : list (pop elt)) (s : pst elt),
  prun true (pinit k) ops = Some s ->
  (forall p q i : nat, p <> q -> getv s p = Some (Some i) -> getv s q <> Some (Some i)) /\
  (forall i : nat,
   match cell s i with
   | Some (_, c) => c = 1 /\ occ i (vars s) = 1
   | None => occ i (vars s) = 0
   end).
Proof. exact (@clone_ptr_never_shares). Qed.
Print Assumptions C26_clone_ptr_never_shares.
