(** C27 property theorems (part 1: one-, two-, three-angle constructors): statements only, each closed by [exact]; proofs are in C27/C27_Proofs*.v.
    Definitions: Gen/rot27_gen.v (k27_*: regenerated from Rotation.h / Rotation.cpp on every run) and
    C27/C27_Model.v (hand model of the branchy / index-generic code, tied by the correspondence run).
    All statements are over the reals. *)
From Coq Require Import ZArith Arith Reals Bool.
Require Import Num Vec rot27_gen C27_Model C27_Proofs.
Local Open Scope R_scope.

Theorem C27_rotation_mul A B : is_rotation ROps A -> is_rotation ROps B -> is_rotation ROps (mm A B).
Proof. exact (rotation_mul A B). Qed.

Theorem C27_rotation_T A : is_rotation ROps A -> is_rotation ROps (tr33 A).
Proof. exact (rotation_T A). Qed.

Theorem C27_setX_is_Relem R0 c s : k27_setX ROps R0 c s = Relem ROps 0 c s.
Proof. exact (setX_is_Relem R0 c s). Qed.

Theorem C27_setY_is_Relem R0 c s : k27_setY ROps R0 c s = Relem ROps 1 c s.
Proof. exact (setY_is_Relem R0 c s). Qed.

Theorem C27_setZ_is_Relem R0 c s : k27_setZ ROps R0 c s = Relem ROps 2 c s.
Proof. exact (setZ_is_Relem R0 c s). Qed.

Theorem C27_Relem_rotation (a:nat) c s : (a < 3)%nat -> s*s + c*c = 1 -> is_rotation ROps (Relem ROps a c s).
Proof. exact (Relem_rotation a c s). Qed.

Theorem C27_Rang_rotation (a:nat) q : (a < 3)%nat -> is_rotation ROps (Rang ROps a q).
Proof. exact (Rang_rotation a q). Qed.

Theorem C27_setFromAngleAboutAxis_is_Rang R0 q (a:nat) : (a < 3)%nat -> setFromAngleAboutAxis ROps R0 q a = Rang ROps a q.
Proof. exact (setFromAngleAboutAxis_is_Rang R0 q a). Qed.

Theorem C27_setFromAngleAboutAxis_rotation R0 q (a:nat) : (a < 3)%nat -> is_rotation ROps (setFromAngleAboutAxis ROps R0 q a).
Proof. exact (setFromAngleAboutAxis_rotation R0 q a). Qed.

Theorem C27_two_angles_is_product R0 space a1 (i:nat) a2 (j:nat) : (i < 3)%nat -> (j < 3)%nat ->
  setFromTwoAnglesTwoAxes ROps R0 space a1 i a2 j = seq2 space a1 i a2 j.
Proof. exact (two_angles_is_product R0 space a1 i a2 j). Qed.

Theorem C27_three_angles_is_product R0 space a1 (i:nat) a2 (j:nat) a3 (k:nat) : (i < 3)%nat -> (j < 3)%nat -> (k < 3)%nat ->
  setFromThreeAnglesThreeAxes ROps R0 space a1 i a2 j a3 k = seq3 space a1 i a2 j a3 k.
Proof. exact (three_angles_is_product R0 space a1 i a2 j a3 k). Qed.

Theorem C27_two_angles_rotation R0 space a1 (i:nat) a2 (j:nat) : (i < 3)%nat -> (j < 3)%nat ->
  is_rotation ROps (setFromTwoAnglesTwoAxes ROps R0 space a1 i a2 j).
Proof. exact (two_angles_rotation R0 space a1 i a2 j). Qed.

Theorem C27_three_angles_rotation R0 space a1 (i:nat) a2 (j:nat) a3 (k:nat) : (i < 3)%nat -> (j < 3)%nat -> (k < 3)%nat ->
  is_rotation ROps (setFromThreeAnglesThreeAxes ROps R0 space a1 i a2 j a3 k).
Proof. exact (three_angles_rotation R0 space a1 i a2 j a3 k). Qed.

Theorem C27_twoBF_is_product R0 c1 s1 (i:nat) c2 s2 (j:nat) : (i < 3)%nat -> (j < 3)%nat -> i <> j ->
  setTwoAngleTwoAxesBF ROps R0 c1 s1 i c2 s2 j =
  if ax_isRev i j then mm (Relem ROps i c1 (-s1)) (Relem ROps j c2 (-s2)) else mm (Relem ROps i c1 s1) (Relem ROps j c2 s2).
Proof. exact (twoBF_is_product R0 c1 s1 i c2 s2 j). Qed.

Theorem C27_threeBF2_is_product R0 c1 s1 (i:nat) c2 s2 (j:nat) c3 s3 : (i < 3)%nat -> (j < 3)%nat -> i <> j ->
  setThreeAngleTwoAxesBF ROps R0 c1 s1 i c2 s2 j c3 s3 =
  if ax_isRev i j then mm (mm (Relem ROps i c1 (-s1)) (Relem ROps j c2 (-s2))) (Relem ROps i c3 (-s3))
  else mm (mm (Relem ROps i c1 s1) (Relem ROps j c2 s2)) (Relem ROps i c3 s3).
Proof. exact (threeBF2_is_product R0 c1 s1 i c2 s2 j c3 s3). Qed.

Theorem C27_threeBF3_is_product R0 c1 s1 (i:nat) c2 s2 (j:nat) c3 s3 (k:nat) : (i < 3)%nat -> (j < 3)%nat -> (k < 3)%nat ->
  i <> j -> j <> k -> i <> k ->
  setThreeAngleThreeAxesBF ROps R0 c1 s1 i c2 s2 j c3 s3 k =
  if ax_isRev i j then mm (mm (Relem ROps i c1 (-s1)) (Relem ROps j c2 (-s2))) (Relem ROps k c3 (-s3))
  else mm (mm (Relem ROps i c1 s1) (Relem ROps j c2 s2)) (Relem ROps k c3 s3).
Proof. exact (threeBF3_is_product R0 c1 s1 i c2 s2 j c3 s3 k). Qed.

Theorem C27_bodyXYZ_cs_is_product R0 c0 c1 c2 s0 s1 s2 :
  k27_bodyXYZ ROps R0 (c0,c1,c2) (s0,s1,s2) = mm (mm (Relem ROps 0 c0 s0) (Relem ROps 1 c1 s1)) (Relem ROps 2 c2 s2).
Proof. exact (bodyXYZ_cs_is_product R0 c0 c1 c2 s0 s1 s2). Qed.

Theorem C27_bodyXYZ_cs_rotation R0 c0 c1 c2 s0 s1 s2 : s0*s0+c0*c0 = 1 -> s1*s1+c1*c1 = 1 -> s2*s2+c2*c2 = 1 ->
  is_rotation ROps (k27_bodyXYZ ROps R0 (c0,c1,c2) (s0,s1,s2)).
Proof. exact (bodyXYZ_cs_rotation R0 c0 c1 c2 s0 s1 s2). Qed.

Theorem C27_bodyXYZ_angles_agree R0 R1 q0 q1 q2 :
  setToBodyFixedXYZ ROps R0 (q0,q1,q2) = k27_bodyXYZ ROps R1 (cos q0, cos q1, cos q2) (sin q0, sin q1, sin q2).
Proof. exact (bodyXYZ_angles_agree R0 R1 q0 q1 q2). Qed.

Theorem C27_bodyXYZ_rotation R0 q0 q1 q2 : is_rotation ROps (setToBodyFixedXYZ ROps R0 (q0,q1,q2)).
Proof. exact (bodyXYZ_rotation R0 q0 q1 q2). Qed.

Theorem C27_bodyXY_rotation R0 q0 q1 : is_rotation ROps (setToBodyFixedXY ROps R0 (q0,q1)).
Proof. exact (bodyXY_rotation R0 q0 q1). Qed.

(** one traversal for the axioms of all theorems of this file (a Print Assumptions per theorem costs seconds each) *)
Definition C27_all := (@C27_rotation_mul,
  @C27_rotation_T,
  @C27_setX_is_Relem,
  @C27_setY_is_Relem,
  @C27_setZ_is_Relem,
  @C27_Relem_rotation,
  @C27_Rang_rotation,
  @C27_setFromAngleAboutAxis_is_Rang,
  @C27_setFromAngleAboutAxis_rotation,
  @C27_two_angles_is_product,
  @C27_three_angles_is_product,
  @C27_two_angles_rotation,
  @C27_three_angles_rotation,
  @C27_twoBF_is_product,
  @C27_threeBF2_is_product,
  @C27_threeBF3_is_product,
  @C27_bodyXYZ_cs_is_product,
  @C27_bodyXYZ_cs_rotation,
  @C27_bodyXYZ_angles_agree,
  @C27_bodyXYZ_rotation,
  @C27_bodyXY_rotation).
Print Assumptions C27_all.
