(** C27 property theorems (part 4: perp, one-axis and two-axes constructions): statements only, each closed by [exact]; proofs are in C27/C27_Proofs*.v.
    Definitions: Gen/rot27_gen.v (k27_*: regenerated from Rotation.h / Rotation.cpp on every run) and
    C27/C27_Model.v (hand model of the branchy / index-generic code, tied by the correspondence run).
    All statements are over the reals. *)
From Coq Require Import ZArith Arith Reals Bool.
Require Import Num Vec rot27_gen C27_Model C27_Proofs C27_ProofsA.
Local Open Scope R_scope.

Theorem C27_cols_rotation R0 (i:nat) a b : (i < 3)%nat -> nsq a = 1 -> nsq b = 1 -> dot3 a b = 0 ->
  let c := cross3 a b in
  let j := ax_next i in let k := ax_next j in
  let M1 := m33_setcol (m33_setcol (m33_setcol R0 i a) j b) k c in
  let M2 := m33_setcol (m33_setcol (m33_setcol R0 i a) k c) j b in
  is_rotation ROps M1 /\ M2 = M1 /\ col3 M1 i = a /\ col3 M1 j = b /\ col3 M1 k = c.
Proof. exact (cols_rotation R0 i a b). Qed.

Theorem C27_perp_spec u : nsq u = 1 -> nsq (perp ROps u) = 1 /\ dot3 u (perp ROps u) = 0.
Proof. exact (perp_spec u). Qed.

Theorem C27_oneAxis_rotation R0 u (i:nat) : (i < 3)%nat -> nsq u = 1 ->
  let M := setFromOneAxis ROps R0 u i in is_rotation ROps M /\ col3 M i = u.
Proof. exact (oneAxis_rotation R0 u i). Qed.

Theorem C27_twoAxes_rotation_main se R0 u v (i j:nat) : (i < 3)%nat -> (j < 3)%nat -> i <> j -> nsq u = 1 ->
  0 < nsq v -> 0 < nsq (cross3 u v) -> se * nsq v <= nsq (cross3 u v) ->
  let M := setFromTwoAxes ROps se R0 u i v j in
  is_rotation ROps M /\ col3 M i = u /\ 0 < dot3 (col3 M j) v.
Proof. exact (twoAxes_rotation_main se R0 u v i j). Qed.

Theorem C27_twoAxes_rotation se R0 u v (i j:nat) : (i < 3)%nat -> (j < 3)%nat -> nsq u = 1 -> 0 < se ->
  let M := setFromTwoAxes ROps se R0 u i v j in is_rotation ROps M /\ col3 M i = u.
Proof. exact (twoAxes_rotation se R0 u v i j). Qed.

(** one traversal for the axioms of all theorems of this file (a Print Assumptions per theorem costs seconds each) *)
Definition C27_allA := (@C27_cols_rotation,
  @C27_perp_spec,
  @C27_oneAxis_rotation,
  @C27_twoAxes_rotation_main,
  @C27_twoAxes_rotation).
Print Assumptions C27_allA.
