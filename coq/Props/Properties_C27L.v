(** C27 property theorems (part 7: atan2 facts and the gimbal-lock branches of the three-angle extraction): statements only,
    each closed by [exact]; proofs are in C27/C27_ProofsL.v.  Definitions: Gen/rot27_gen.v and C27/C27_Model.v. Over the reals. *)
From Coq Require Import ZArith Arith Reals Bool.
Require Import Num Vec rot27_gen C27_Model C27_Proofs C27_ProofsT C27_ProofsL.
Local Open Scope R_scope.

Theorem C27_sincos_Ratan2 s c : s*s + c*c = 1 -> sin (Ratan2 s c) = s /\ cos (Ratan2 s c) = c.
Proof. exact (sincos_Ratan2 s c). Qed.

Theorem C27_Ratan2_scale k y x : 0 < k -> Ratan2 (k * y) (k * x) = Ratan2 y x.
Proof. exact (Ratan2_scale k y x). Qed.

Theorem C27_three_angle_lock_roundtrip_ijk eps4 R0 R1 space (sg:bool) (i j k:nat) a1 a3 :
  (i < 3)%nat -> (j < 3)%nat -> (k < 3)%nat -> i <> j -> j <> k -> i <> k -> 0 <= eps4 ->
  let a2 := if sg then PI/2 else - (PI/2) in
  let M := setFromThreeAnglesThreeAxes ROps R0 space a1 i a2 j a3 k in
  let ang := convertThreeAxesToThreeAngles ROps eps4 M space i j k in
  setFromThreeAnglesThreeAxes ROps R1 space (v3_0 ang) i (v3_1 ang) j (v3_2 ang) k = M.
Proof. exact (three_angle_lock_roundtrip_ijk eps4 R0 R1 space sg i j k a1 a3). Qed.

Theorem C27_three_angle_lock_roundtrip_iji eps4 R0 R1 space (sg:bool) (i j:nat) a1 a3 :
  (i < 3)%nat -> (j < 3)%nat -> i <> j -> 0 <= eps4 ->
  let a2 := if sg then 0 else PI in
  let M := setFromThreeAnglesThreeAxes ROps R0 space a1 i a2 j a3 i in
  let ang := convertThreeAxesToThreeAngles ROps eps4 M space i j i in
  setFromThreeAnglesThreeAxes ROps R1 space (v3_0 ang) i (v3_1 ang) j (v3_2 ang) i = M.
Proof. exact (three_angle_lock_roundtrip_iji eps4 R0 R1 space sg i j a1 a3). Qed.

(** one traversal for the axioms of all theorems of this file *)
Definition C27_allL := (@C27_sincos_Ratan2,
  @C27_Ratan2_scale,
  @C27_three_angle_lock_roundtrip_ijk,
  @C27_three_angle_lock_roundtrip_iji).
Print Assumptions C27_allL.
