(** C27 property theorems (part 2: quaternion, angle-axis): statements only, each closed by [exact]; proofs are in C27/C27_Proofs*.v.
    Definitions: Gen/rot27_gen.v (k27_*: regenerated from Rotation.h / Rotation.cpp on every run) and
    C27/C27_Model.v (hand model of the branchy / index-generic code, tied by the correspondence run).
    All statements are over the reals. *)
From Coq Require Import ZArith Arith Reals Bool.
Require Import Num Vec rot27_gen C27_Model C27_Proofs C27_ProofsQ.
Local Open Scope R_scope.

Theorem C27_fromQuat_rotation R0 e0 e1 e2 e3 : e0*e0+e1*e1+e2*e2+e3*e3 = 1 ->
  is_rotation ROps (k27_fromQuat ROps R0 (e0,e1,e2,e3)).
Proof. exact (fromQuat_rotation R0 e0 e1 e2 e3). Qed.

Theorem C27_fromQuat_neg R0 R1 e0 e1 e2 e3 :
  k27_fromQuat ROps R0 (v4_neg ROps (e0,e1,e2,e3)) = k27_fromQuat ROps R1 (e0,e1,e2,e3).
Proof. exact (fromQuat_neg R0 R1 e0 e1 e2 e3). Qed.

Theorem C27_quatFromAngleAxis_unit a u0 u1 u2 : u0*u0+u1*u1+u2*u2 = 1 ->
  v4_normSqr ROps (quatFromAngleAxis ROps a (u0,u1,u2)) = 1.
Proof. exact (quatFromAngleAxis_unit a u0 u1 u2). Qed.

Theorem C27_quatFromAngleAxis_canonical a u0 u1 u2 : 0 <= v4_0 (quatFromAngleAxis ROps a (u0,u1,u2)).
Proof. exact (quatFromAngleAxis_canonical a u0 u1 u2). Qed.

Theorem C27_angleAxis_rotation R0 a u0 u1 u2 : u0*u0+u1*u1+u2*u2 = 1 ->
  is_rotation ROps (setFromAngleAboutUnitVector ROps R0 a (u0,u1,u2)).
Proof. exact (angleAxis_rotation R0 a u0 u1 u2). Qed.

Theorem C27_angleAxis_is_rodrigues R0 a u0 u1 u2 : u0*u0+u1*u1+u2*u2 = 1 ->
  setFromAngleAboutUnitVector ROps R0 a (u0,u1,u2) = rodrigues a (u0,u1,u2).
Proof. exact (angleAxis_is_rodrigues R0 a u0 u1 u2). Qed.

Theorem C27_quat_rot_quat_branch0 R0 e0 e1 e2 e3 : e0*e0+e1*e1+e2*e2+e3*e3 = 1 ->
  let M := k27_fromQuat ROps R0 (e0,e1,e2,e3) in guard0 M -> pm_q (rotToQuat ROps M) (e0,e1,e2,e3).
Proof. exact (quat_rot_quat_branch0 R0 e0 e1 e2 e3). Qed.

Theorem C27_quat_rot_quat_branch1 R0 e0 e1 e2 e3 : e0*e0+e1*e1+e2*e2+e3*e3 = 1 ->
  let M := k27_fromQuat ROps R0 (e0,e1,e2,e3) in ~ guard0 M -> guard1 M -> pm_q (rotToQuat ROps M) (e0,e1,e2,e3).
Proof. exact (quat_rot_quat_branch1 R0 e0 e1 e2 e3). Qed.

Theorem C27_quat_rot_quat_branch2 R0 e0 e1 e2 e3 : e0*e0+e1*e1+e2*e2+e3*e3 = 1 ->
  let M := k27_fromQuat ROps R0 (e0,e1,e2,e3) in ~ guard0 M -> ~ guard1 M -> guard2 M -> pm_q (rotToQuat ROps M) (e0,e1,e2,e3).
Proof. exact (quat_rot_quat_branch2 R0 e0 e1 e2 e3). Qed.

Theorem C27_quat_rot_quat_branch3 R0 e0 e1 e2 e3 : e0*e0+e1*e1+e2*e2+e3*e3 = 1 ->
  let M := k27_fromQuat ROps R0 (e0,e1,e2,e3) in ~ guard0 M -> ~ guard1 M -> ~ guard2 M -> pm_q (rotToQuat ROps M) (e0,e1,e2,e3).
Proof. exact (quat_rot_quat_branch3 R0 e0 e1 e2 e3). Qed.

Theorem C27_quat_rot_quat R0 e0 e1 e2 e3 : e0*e0+e1*e1+e2*e2+e3*e3 = 1 ->
  pm_q (rotToQuat ROps (k27_fromQuat ROps R0 (e0,e1,e2,e3))) (e0,e1,e2,e3).
Proof. exact (quat_rot_quat R0 e0 e1 e2 e3). Qed.

Theorem C27_rot_quat_rot R0 R1 e0 e1 e2 e3 : e0*e0+e1*e1+e2*e2+e3*e3 = 1 ->
  let M := k27_fromQuat ROps R0 (e0,e1,e2,e3) in k27_fromQuat ROps R1 (rotToQuat ROps M) = M.
Proof. exact (rot_quat_rot R0 R1 e0 e1 e2 e3). Qed.

Theorem C27_approximate_fixes_rotation R0 R1 e0 e1 e2 e3 : e0*e0+e1*e1+e2*e2+e3*e3 = 1 ->
  let M := k27_fromQuat ROps R0 (e0,e1,e2,e3) in setFromApproximateMat33 ROps R1 M = M.
Proof. exact (approximate_fixes_rotation R0 R1 e0 e1 e2 e3). Qed.

Theorem C27_ex_branch0_taken : guard0 (k27_fromQuat ROps I33 (1/2,1/2,1/2,1/2)).
Proof. exact (@ex_branch0_taken). Qed.

Theorem C27_ex_branch1_taken : let M := k27_fromQuat ROps I33 (0,1,0,0) in ~ guard0 M /\ guard1 M.
Proof. exact (@ex_branch1_taken). Qed.

Theorem C27_ex_branch2_taken : let M := k27_fromQuat ROps I33 (0,0,1,0) in ~ guard0 M /\ ~ guard1 M /\ guard2 M.
Proof. exact (@ex_branch2_taken). Qed.

Theorem C27_ex_branch3_taken : let M := k27_fromQuat ROps I33 (0,0,0,1) in ~ guard0 M /\ ~ guard1 M /\ ~ guard2 M.
Proof. exact (@ex_branch3_taken). Qed.

(** one traversal for the axioms of all theorems of this file (a Print Assumptions per theorem costs seconds each) *)
Definition C27_allQ := (@C27_fromQuat_rotation,
  @C27_fromQuat_neg,
  @C27_quatFromAngleAxis_unit,
  @C27_quatFromAngleAxis_canonical,
  @C27_angleAxis_rotation,
  @C27_angleAxis_is_rodrigues,
  @C27_quat_rot_quat_branch0,
  @C27_quat_rot_quat_branch1,
  @C27_quat_rot_quat_branch2,
  @C27_quat_rot_quat_branch3,
  @C27_quat_rot_quat,
  @C27_rot_quat_rot,
  @C27_approximate_fixes_rotation,
  @C27_ex_branch0_taken,
  @C27_ex_branch1_taken,
  @C27_ex_branch2_taken,
  @C27_ex_branch3_taken).
Print Assumptions C27_allQ.
