(** C27 property theorems (part 5: rotation -> quaternion -> rotation on every proper rotation): statements only, each closed by [exact]; proofs are in C27/C27_Proofs*.v.
    Definitions: Gen/rot27_gen.v (k27_*: regenerated from Rotation.h / Rotation.cpp on every run) and
    C27/C27_Model.v (hand model of the branchy / index-generic code, tied by the correspondence run).
    All statements are over the reals. *)
From Coq Require Import ZArith Arith Reals Bool.
Require Import Num Vec rot27_gen C27_Model C27_Proofs C27_ProofsQ C27_ProofsR.
Local Open Scope R_scope.

Theorem C27_rot_quat_rot_any M R1 : is_rotation ROps M -> k27_fromQuat ROps R1 (rotToQuat ROps M) = M.
Proof. exact (rot_quat_rot_any M R1). Qed.

Theorem C27_rotToQuat_unit_canonical M : is_rotation ROps M ->
  v4_normSqr ROps (rotToQuat ROps M) = 1 /\ 0 <= v4_0 (rotToQuat ROps M).
Proof. exact (rotToQuat_unit_canonical M). Qed.

Theorem C27_approximate_fixes_any_rotation R1 M : is_rotation ROps M -> setFromApproximateMat33 ROps R1 M = M.
Proof. exact (approximate_fixes_any_rotation R1 M). Qed.

(** one traversal for the axioms of all theorems of this file *)
Definition C27_allR := (@C27_rot_quat_rot_any,
  @C27_rotToQuat_unit_canonical,
  @C27_approximate_fixes_any_rotation).
Print Assumptions C27_allR.
