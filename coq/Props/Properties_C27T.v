(** C27 property theorems (part 6: angle round trips that the real-number library can decide): statements only, each closed by [exact]; proofs are in C27/C27_Proofs*.v.
    Definitions: Gen/rot27_gen.v (k27_*: regenerated from Rotation.h / Rotation.cpp on every run) and
    C27/C27_Model.v (hand model of the branchy / index-generic code, tied by the correspondence run).
    All statements are over the reals. *)
From Coq Require Import ZArith Arith Reals Bool.
Require Import Num Vec rot27_gen C27_Model C27_Proofs C27_ProofsT.
Local Open Scope R_scope.

Theorem C27_Ratan2_sin_cos q : - PI < q <= PI -> Ratan2 (sin q) (cos q) = q.
Proof. exact (Ratan2_sin_cos q). Qed.

Theorem C27_one_angle_roundtrip R0 (a:nat) q : (a < 3)%nat -> - PI < q <= PI ->
  convertOneAxisToOneAngle ROps (setFromAngleAboutAxis ROps R0 q a) a = q.
Proof. exact (one_angle_roundtrip R0 a q). Qed.

Theorem C27_conv2BF_spec (M:Mat33 R) (i j:nat) c1 s1 c2 s2 : s1*s1 + c1*c1 = 1 -> s2*s2 + c2*c2 = 1 ->
  let k := ax_third i j in let e := m33_e M in
  e k j = s1 -> e j j = c1 -> e j i = s2 * s1 -> e j k = - s1 * c2 -> e k i = - s2 * c1 -> e k k = c1 * c2 -> e i k = s2 -> e i i = c2 ->
  convertTwoAxesBFToTwoAngles ROps M i j =
  if ax_isRev i j then (- Ratan2 s1 c1, - Ratan2 s2 c2) else (Ratan2 s1 c1, Ratan2 s2 c2).
Proof. exact (conv2BF_spec M i j c1 s1 c2 s2). Qed.

Theorem C27_two_angle_roundtrip R0 space (i j:nat) a1 a2 : (i < 3)%nat -> (j < 3)%nat -> i <> j ->
  - PI < a1 < PI -> - PI < a2 < PI ->
  convertTwoAxesToTwoAngles ROps (setFromTwoAnglesTwoAxes ROps R0 space a1 i a2 j) space i j = (a1, a2).
Proof. exact (two_angle_roundtrip R0 space i j a1 a2). Qed.

(** one traversal for the axioms of all theorems of this file *)
Definition C27_allT := (@C27_Ratan2_sin_cos,
  @C27_one_angle_roundtrip,
  @C27_conv2BF_spec,
  @C27_two_angle_roundtrip).
Print Assumptions C27_allT.
