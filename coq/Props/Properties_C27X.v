(** C27 property theorems (part 3: reexpressSymMat33, Rotation*InverseRotation, Transform laws): statements only, each closed by [exact]; proofs are in C27/C27_Proofs*.v.
    Definitions: Gen/rot27_gen.v (k27_*: regenerated from Rotation.h / Rotation.cpp on every run) and
    C27/C27_Model.v (hand model of the branchy / index-generic code, tied by the correspondence run).
    All statements are over the reals. *)
From Coq Require Import ZArith Arith Reals Bool.
Require Import Num Vec rot27_gen C27_Model C27_Proofs C27_ProofsX.
Local Open Scope R_scope.

Theorem C27_reexpress_is_R_S_Rt M xx yy zz xy xz yz : is_rotation ROps M ->
  sym_to_m33 (reexpressSymMat33 ROps M ((xx,yy,zz),(xy,xz,yz))) = sym_RSRt ROps M ((xx,yy,zz),(xy,xz,yz)).
Proof. exact (reexpress_is_R_S_Rt M xx yy zz xy xz yz). Qed.

Theorem C27_rot_mul_inv_self M : is_ortho ROps M -> rot_mul_inv ROps M M = I33.
Proof. exact (rot_mul_inv_self M). Qed.

Theorem C27_inv_mul_rot_self M : is_ortho ROps M -> inv_mul_rot ROps M M = I33.
Proof. exact (inv_mul_rot_self M). Qed.

Theorem C27_rot_div_self M : is_ortho ROps M -> rot_div ROps M M = I33.
Proof. exact (rot_div_self M). Qed.

Theorem C27_rot_mul_rotation A B : is_rotation ROps A -> is_rotation ROps B -> is_rotation ROps (rot_mul ROps A B).
Proof. exact (rot_mul_rotation A B). Qed.

Theorem C27_rot_mul_inv_rotation A B : is_rotation ROps A -> is_rotation ROps B -> is_rotation ROps (rot_mul_inv ROps A B).
Proof. exact (rot_mul_inv_rotation A B). Qed.

Theorem C27_inv_mul_rot_rotation A B : is_rotation ROps A -> is_rotation ROps B -> is_rotation ROps (inv_mul_rot ROps A B).
Proof. exact (inv_mul_rot_rotation A B). Qed.

Theorem C27_rot_mulv_preserves_norm M v : is_ortho ROps M -> v3_normSqr ROps (m33_mulv ROps M v) = v3_normSqr ROps v.
Proof. exact (rot_mulv_preserves_norm M v). Qed.

Theorem C27_rot_inv_mulv_inverts M v : is_ortho ROps M -> m33_mulv ROps (tr33 M) (m33_mulv ROps M v) = v.
Proof. exact (rot_inv_mulv_inverts M v). Qed.

Theorem C27_X_compose_assoc X Y Z : X_compose ROps (X_compose ROps X Y) Z = X_compose ROps X (X_compose ROps Y Z).
Proof. exact (X_compose_assoc X Y Z). Qed.

Theorem C27_X_compose_acts X Y s :
  X_shiftFrameStationToBase ROps (X_compose ROps X Y) s = X_shiftFrameStationToBase ROps X (X_shiftFrameStationToBase ROps Y s).
Proof. exact (X_compose_acts X Y s). Qed.

Theorem C27_X_compose_id_l X : X_compose ROps Xid X = X.
Proof. exact (X_compose_id_l X). Qed.

Theorem C27_X_compose_id_r X : X_compose ROps X Xid = X.
Proof. exact (X_compose_id_r X). Qed.

Theorem C27_X_composeInv_agrees X Yi : X_composeInv ROps X Yi = X_compose ROps X (IX_toTransform ROps Yi).
Proof. exact (X_composeInv_agrees X Yi). Qed.

Theorem C27_IX_compose_agrees Xi Y : IX_compose ROps Xi Y = X_compose ROps (IX_toTransform ROps Xi) Y.
Proof. exact (IX_compose_agrees Xi Y). Qed.

Theorem C27_IX_composeInv_agrees Xi Yi : IX_composeInv ROps Xi Yi = X_compose ROps (IX_toTransform ROps Xi) (IX_toTransform ROps Yi).
Proof. exact (IX_composeInv_agrees Xi Yi). Qed.

Theorem C27_IX_shiftFrameStationToBase_agrees Xi s :
  IX_shiftFrameStationToBase ROps Xi s = X_shiftFrameStationToBase ROps (IX_toTransform ROps Xi) s.
Proof. exact (IX_shiftFrameStationToBase_agrees Xi s). Qed.

Theorem C27_X_times_inverse X : is_ortho ROps (fst X) -> X_composeInv ROps X X = Xid.
Proof. exact (X_times_inverse X). Qed.

Theorem C27_inverse_times_X X : is_ortho ROps (fst X) -> IX_compose ROps X X = Xid.
Proof. exact (inverse_times_X X). Qed.

Theorem C27_inverse_of_compose X Y : is_ortho ROps (fst X) -> is_ortho ROps (fst Y) ->
  IX_toTransform ROps (X_compose ROps X Y) = X_compose ROps (IX_toTransform ROps Y) (IX_toTransform ROps X).
Proof. exact (inverse_of_compose X Y). Qed.

Theorem C27_shift_base_frame_roundtrip X s : is_ortho ROps (fst X) ->
  X_shiftBaseStationToFrame ROps X (X_shiftFrameStationToBase ROps X s) = s.
Proof. exact (shift_base_frame_roundtrip X s). Qed.

Theorem C27_shift_frame_base_roundtrip X s : is_ortho ROps (fst X) ->
  X_shiftFrameStationToBase ROps X (X_shiftBaseStationToFrame ROps X s) = s.
Proof. exact (shift_frame_base_roundtrip X s). Qed.

Theorem C27_IX_shift_is_inverse X s : is_ortho ROps (fst X) ->
  IX_shiftFrameStationToBase ROps X (X_shiftFrameStationToBase ROps X s) = s /\
  IX_shiftBaseStationToFrame ROps X (IX_shiftFrameStationToBase ROps X s) = s /\
  IX_shiftFrameStationToBase ROps X s = X_shiftBaseStationToFrame ROps X s.
Proof. exact (IX_shift_is_inverse X s). Qed.

Theorem C27_X_pInv_is_inverse_translation X : X_pInv ROps X = snd (IX_toTransform ROps X).
Proof. exact (X_pInv_is_inverse_translation X). Qed.

Theorem C27_IX_ofTransform_reads_back X : is_ortho ROps (fst X) -> IX_toTransform ROps (IX_ofTransform ROps X) = X.
Proof. exact (IX_ofTransform_reads_back X). Qed.

Theorem C27_X_compose_rotation X Y : is_rotation ROps (fst X) -> is_rotation ROps (fst Y) -> is_rotation ROps (fst (X_compose ROps X Y)).
Proof. exact (X_compose_rotation X Y). Qed.

Theorem C27_three_angle_roundtrip_partial R0 space a1 (i:nat) a2 (j:nat) a3 (k:nat) : (i < 3)%nat -> (j < 3)%nat -> (k < 3)%nat ->
  let M := setFromThreeAnglesThreeAxes ROps R0 space a1 i a2 j a3 k in
  M = seq3 space a1 i a2 j a3 k /\ is_rotation ROps M.
Proof. exact (three_angle_roundtrip_partial R0 space a1 i a2 j a3 k). Qed.

Theorem C27_two_angle_roundtrip_partial R0 space a1 (i:nat) a2 (j:nat) : (i < 3)%nat -> (j < 3)%nat ->
  let M := setFromTwoAnglesTwoAxes ROps R0 space a1 i a2 j in
  M = seq2 space a1 i a2 j /\ is_rotation ROps M.
Proof. exact (two_angle_roundtrip_partial R0 space a1 i a2 j). Qed.

Theorem C27_ex_unit_cs : (4/5)*(4/5) + (3/5)*(3/5) = 1.
Proof. exact (@ex_unit_cs). Qed.

Theorem C27_ex_rotation_exists : is_rotation ROps (Relem ROps 2 (3/5) (4/5)) /\ Relem ROps 2 (3/5) (4/5) <> I33.
Proof. exact (@ex_rotation_exists). Qed.

Theorem C27_ex_unit_quat : (1/2)*(1/2)+(1/2)*(1/2)+(1/2)*(1/2)+(1/2)*(1/2) = 1.
Proof. exact (@ex_unit_quat). Qed.

(** one traversal for the axioms of all theorems of this file (a Print Assumptions per theorem costs seconds each) *)
Definition C27_allX := (@C27_reexpress_is_R_S_Rt,
  @C27_rot_mul_inv_self,
  @C27_inv_mul_rot_self,
  @C27_rot_div_self,
  @C27_rot_mul_rotation,
  @C27_rot_mul_inv_rotation,
  @C27_inv_mul_rot_rotation,
  @C27_rot_mulv_preserves_norm,
  @C27_rot_inv_mulv_inverts,
  @C27_X_compose_assoc,
  @C27_X_compose_acts,
  @C27_X_compose_id_l,
  @C27_X_compose_id_r,
  @C27_X_composeInv_agrees,
  @C27_IX_compose_agrees,
  @C27_IX_composeInv_agrees,
  @C27_IX_shiftFrameStationToBase_agrees,
  @C27_X_times_inverse,
  @C27_inverse_times_X,
  @C27_inverse_of_compose,
  @C27_shift_base_frame_roundtrip,
  @C27_shift_frame_base_roundtrip,
  @C27_IX_shift_is_inverse,
  @C27_X_pInv_is_inverse_translation,
  @C27_IX_ofTransform_reads_back,
  @C27_X_compose_rotation,
  @C27_three_angle_roundtrip_partial,
  @C27_two_angle_roundtrip_partial,
  @C27_ex_unit_cs,
  @C27_ex_rotation_exists,
  @C27_ex_unit_quat).
Print Assumptions C27_allX.
