(** C28 property theorems: statements only, each closed by [exact]; proofs are in C28/C28_Proofs.v,
    the helper definitions in Gen/rot_gen.v are regenerated from Rotation.h on every run. *)
From Coq Require Import ZArith Reals.
From Coquelicot Require Import Coquelicot.
Require Import Num Vec rot_gen C28_Defs C28_Proofs.
Local Open Scope R_scope.

Theorem C28_NInvB_NB c0 s0 c1 s1 c2 s2 : c1 <> 0 -> s2*s2 + c2*c2 = 1 ->
  m33_mul ROps (cNInvB ROps (c0,c1,c2) (s0,s1,s2)) (cNB ROps (c0,c1,c2) (s0,s1,s2)) = I33.
Proof. exact (NInvB_NB c0 s0 c1 s1 c2 s2). Qed.
Print Assumptions C28_NInvB_NB.

Theorem C28_NB_NInvB c0 s0 c1 s1 c2 s2 : c1 <> 0 -> s2*s2 + c2*c2 = 1 ->
  m33_mul ROps (cNB ROps (c0,c1,c2) (s0,s1,s2)) (cNInvB ROps (c0,c1,c2) (s0,s1,s2)) = I33.
Proof. exact (NB_NInvB c0 s0 c1 s1 c2 s2). Qed.
Print Assumptions C28_NB_NInvB.

Theorem C28_NInvP_NP c0 s0 c1 s1 c2 s2 : c1 <> 0 -> s0*s0 + c0*c0 = 1 ->
  m33_mul ROps (cNInvP ROps (c0,c1,c2) (s0,s1,s2)) (cNP ROps (c0,c1,c2) (s0,s1,s2)) = I33.
Proof. exact (NInvP_NP c0 s0 c1 s1 c2 s2). Qed.
Print Assumptions C28_NInvP_NP.

Theorem C28_NP_NInvP c0 s0 c1 s1 c2 s2 : c1 <> 0 -> s0*s0 + c0*c0 = 1 ->
  m33_mul ROps (cNP ROps (c0,c1,c2) (s0,s1,s2)) (cNInvP ROps (c0,c1,c2) (s0,s1,s2)) = I33.
Proof. exact (NP_NInvP c0 s0 c1 s1 c2 s2). Qed.
Print Assumptions C28_NP_NInvP.

Theorem C28_NInvB_NB_q q0 q1 q2 : cos q1 <> 0 ->
  m33_mul ROps (cNInvB_q ROps (q0,q1,q2)) (cNB_q ROps (q0,q1,q2)) = I33.
Proof. exact (NInvB_NB_q q0 q1 q2). Qed.
Print Assumptions C28_NInvB_NB_q.

Theorem C28_NInvP_NP_q q0 q1 q2 : cos q1 <> 0 ->
  m33_mul ROps (cNInvP_q ROps (q0,q1,q2)) (cNP_q ROps (q0,q1,q2)) = I33.
Proof. exact (NInvP_NP_q q0 q1 q2). Qed.
Print Assumptions C28_NInvP_NP_q.

Theorem C28_mulNP_is_NP c0 s0 c1 s1 c2 s2 w0 w1 w2 : c1 <> 0 ->
  mulNP ROps (c0,c1) (s0,s1) (1/c1) (w0,w1,w2) = m33_mulv ROps (cNP ROps (c0,c1,c2) (s0,s1,s2)) (w0,w1,w2).
Proof. exact (mulNP_is_NP c0 s0 c1 s1 c2 s2 w0 w1 w2). Qed.
Print Assumptions C28_mulNP_is_NP.

Theorem C28_mulNTP_is_NPT c0 s0 c1 s1 c2 s2 w0 w1 w2 : c1 <> 0 ->
  mulNTP ROps (c0,c1) (s0,s1) (1/c1) (w0,w1,w2) = m33_Tmulv ROps (cNP ROps (c0,c1,c2) (s0,s1,s2)) (w0,w1,w2).
Proof. exact (mulNTP_is_NPT c0 s0 c1 s1 c2 s2 w0 w1 w2). Qed.
Print Assumptions C28_mulNTP_is_NPT.

Theorem C28_mulNInvP_is_NInvP c0 s0 c1 s1 c2 s2 w0 w1 w2 :
  mulNInvP ROps (c0,c1) (s0,s1) (w0,w1,w2) = m33_mulv ROps (cNInvP ROps (c0,c1,c2) (s0,s1,s2)) (w0,w1,w2).
Proof. exact (mulNInvP_is_NInvP c0 s0 c1 s1 c2 s2 w0 w1 w2). Qed.
Print Assumptions C28_mulNInvP_is_NInvP.

Theorem C28_mulNInvTP_is_NInvPT c0 s0 c1 s1 c2 s2 w0 w1 w2 :
  mulNInvTP ROps (c0,c1) (s0,s1) (w0,w1,w2) = m33_Tmulv ROps (cNInvP ROps (c0,c1,c2) (s0,s1,s2)) (w0,w1,w2).
Proof. exact (mulNInvTP_is_NInvPT c0 s0 c1 s1 c2 s2 w0 w1 w2). Qed.
Print Assumptions C28_mulNInvTP_is_NInvPT.

Theorem C28_mulNTP_adjoint c0 s0 c1 s1 oo w0 w1 w2 f0 f1 f2 :
  v3_dot ROps (f0,f1,f2) (mulNP ROps (c0,c1) (s0,s1) oo (w0,w1,w2)) =
  v3_dot ROps (mulNTP ROps (c0,c1) (s0,s1) oo (f0,f1,f2)) (w0,w1,w2).
Proof. exact (mulNTP_adjoint c0 s0 c1 s1 oo w0 w1 w2 f0 f1 f2). Qed.
Print Assumptions C28_mulNTP_adjoint.

Theorem C28_mulNInvTP_adjoint c0 s0 c1 s1 w0 w1 w2 f0 f1 f2 :
  v3_dot ROps (f0,f1,f2) (mulNInvP ROps (c0,c1) (s0,s1) (w0,w1,w2)) =
  v3_dot ROps (mulNInvTP ROps (c0,c1) (s0,s1) (f0,f1,f2)) (w0,w1,w2).
Proof. exact (mulNInvTP_adjoint c0 s0 c1 s1 w0 w1 w2 f0 f1 f2). Qed.
Print Assumptions C28_mulNInvTP_adjoint.

Theorem C28_mulNInvP_mulNP c0 s0 c1 s1 w0 w1 w2 : c1 <> 0 -> s0*s0 + c0*c0 = 1 ->
  mulNInvP ROps (c0,c1) (s0,s1) (mulNP ROps (c0,c1) (s0,s1) (1/c1) (w0,w1,w2)) = (w0,w1,w2).
Proof. exact (mulNInvP_mulNP c0 s0 c1 s1 w0 w1 w2). Qed.
Print Assumptions C28_mulNInvP_mulNP.

Theorem C28_NInvQ_NQ e0 e1 e2 e3 w0 w1 w2 :
  m34_mulv ROps (cNInvQ ROps (e0,e1,e2,e3)) (m43_mulv ROps (cNQ ROps (e0,e1,e2,e3)) (w0,w1,w2))
  = v3_scale ROps (e0*e0+e1*e1+e2*e2+e3*e3) (w0,w1,w2).
Proof. exact (NInvQ_NQ e0 e1 e2 e3 w0 w1 w2). Qed.
Print Assumptions C28_NInvQ_NQ.

Theorem C28_NQ_NInvQ e0 e1 e2 e3 d0 d1 d2 d3 : e0*e0+e1*e1+e2*e2+e3*e3 = 1 -> e0*d0+e1*d1+e2*d2+e3*d3 = 0 ->
  m43_mulv ROps (cNQ ROps (e0,e1,e2,e3)) (m34_mulv ROps (cNInvQ ROps (e0,e1,e2,e3)) (d0,d1,d2,d3)) = (d0,d1,d2,d3).
Proof. exact (NQ_NInvQ e0 e1 e2 e3 d0 d1 d2 d3). Qed.
Print Assumptions C28_NQ_NInvQ.

Theorem C28_angVel2qdotQ_is_N e0 e1 e2 e3 w0 w1 w2 :
  angVel2qdotQ ROps (e0,e1,e2,e3) (w0,w1,w2) = m43_mulv ROps (cNQ ROps (e0,e1,e2,e3)) (w0,w1,w2).
Proof. exact (angVel2qdotQ_is_N e0 e1 e2 e3 w0 w1 w2). Qed.
Print Assumptions C28_angVel2qdotQ_is_N.

Theorem C28_qdotQ2angVel_inverts e0 e1 e2 e3 w0 w1 w2 : e0*e0+e1*e1+e2*e2+e3*e3 = 1 ->
  qdotQ2angVel ROps (e0,e1,e2,e3) (angVel2qdotQ ROps (e0,e1,e2,e3) (w0,w1,w2)) = (w0,w1,w2).
Proof. exact (qdotQ2angVel_inverts e0 e1 e2 e3 w0 w1 w2). Qed.
Print Assumptions C28_qdotQ2angVel_inverts.

Theorem C28_angVel2qdotQ_tangent e0 e1 e2 e3 w0 w1 w2 :
  v4_dot ROps (e0,e1,e2,e3) (angVel2qdotQ ROps (e0,e1,e2,e3) (w0,w1,w2)) = 0.
Proof. exact (angVel2qdotQ_tangent e0 e1 e2 e3 w0 w1 w2). Qed.
Print Assumptions C28_angVel2qdotQ_tangent.

Theorem C28_NDotB_is_jet (i j : nat) q0 q1 q2 d0 d1 d2 : (i < 3)%nat -> (j < 3)%nat -> cos q1 <> 0 ->
  is_derive (fun t => e33 i j (cNB_q ROps (q0+t*d0, q1+t*d1, q2+t*d2))) 0 (e33 i j (cNDotB_q ROps (q0,q1,q2) (d0,d1,d2))).
Proof. exact (NDotB_is_jet i j q0 q1 q2 d0 d1 d2). Qed.
Print Assumptions C28_NDotB_is_jet.

Theorem C28_NDotP_is_jet (i j : nat) q0 q1 q2 d0 d1 d2 : (i < 3)%nat -> (j < 3)%nat -> cos q1 <> 0 ->
  is_derive (fun t => e33 i j (cNP_q ROps (q0+t*d0, q1+t*d1, q2+t*d2))) 0 (e33 i j (cNDotP_q ROps (q0,q1,q2) (d0,d1,d2))).
Proof. exact (NDotP_is_jet i j q0 q1 q2 d0 d1 d2). Qed.
Print Assumptions C28_NDotP_is_jet.

Theorem C28_NDotQ_is_N_of_qdot d0 d1 d2 d3 : cNDotQ ROps (d0,d1,d2,d3) = cNQ ROps (d0,d1,d2,d3).
Proof. exact (NDotQ_is_N_of_qdot d0 d1 d2 d3). Qed.
Print Assumptions C28_NDotQ_is_N_of_qdot.

Theorem C28_NQ_linear e0 e1 e2 e3 d0 d1 d2 d3 t w0 w1 w2 :
  m43_mulv ROps (cNQ ROps (e0+t*d0,e1+t*d1,e2+t*d2,e3+t*d3)) (w0,w1,w2) =
  v4_add ROps (m43_mulv ROps (cNQ ROps (e0,e1,e2,e3)) (w0,w1,w2)) (v4_scale ROps t (m43_mulv ROps (cNDotQ ROps (d0,d1,d2,d3)) (w0,w1,w2))).
Proof. exact (NQ_linear e0 e1 e2 e3 d0 d1 d2 d3 t w0 w1 w2). Qed.
Print Assumptions C28_NQ_linear.

Theorem C28_qdotP_moves_R_with_w (i j:nat) q0 q1 q2 w0 w1 w2 : (i < 3)%nat -> (j < 3)%nat -> cos q1 <> 0 ->
  let qd := m33_mulv ROps (cNP_q ROps (q0,q1,q2)) (w0,w1,w2) in
  is_derive (fun t => e33 i j (Rxyz ROps (q0+t*v3_0 qd, q1+t*v3_1 qd, q2+t*v3_2 qd))) 0
            (e33 i j (m33_mul ROps (m33_crossMat ROps (w0,w1,w2)) (Rxyz ROps (q0,q1,q2)))).
Proof. exact (qdotP_moves_R_with_w i j q0 q1 q2 w0 w1 w2). Qed.
Print Assumptions C28_qdotP_moves_R_with_w.

Theorem C28_qdotB_moves_R_with_w (i j:nat) q0 q1 q2 w0 w1 w2 : (i < 3)%nat -> (j < 3)%nat -> cos q1 <> 0 ->
  let qd := angVelB2qdot_q ROps (q0,q1,q2) (w0,w1,w2) in
  is_derive (fun t => e33 i j (Rxyz ROps (q0+t*v3_0 qd, q1+t*v3_1 qd, q2+t*v3_2 qd))) 0
            (e33 i j (m33_mul ROps (Rxyz ROps (q0,q1,q2)) (m33_crossMat ROps (w0,w1,w2)))).
Proof. exact (qdotB_moves_R_with_w i j q0 q1 q2 w0 w1 w2). Qed.
Print Assumptions C28_qdotB_moves_R_with_w.

Theorem C28_qdotQ_moves_R_with_w (i j:nat) e0 e1 e2 e3 w0 w1 w2 : (i < 3)%nat -> (j < 3)%nat -> e0*e0+e1*e1+e2*e2+e3*e3 = 1 ->
  let qd := angVel2qdotQ ROps (e0,e1,e2,e3) (w0,w1,w2) in
  is_derive (fun t => e33 i j (Rquat ROps (e0+t*v4_0 qd, e1+t*v4_1 qd, e2+t*v4_2 qd, e3+t*v4_3 qd))) 0
            (e33 i j (m33_mul ROps (m33_crossMat ROps (w0,w1,w2)) (Rquat ROps (e0,e1,e2,e3)))).
Proof. exact (qdotQ_moves_R_with_w i j e0 e1 e2 e3 w0 w1 w2). Qed.
Print Assumptions C28_qdotQ_moves_R_with_w.

Theorem C28_angAccB2qdd_is_jet (i:nat) q0 q1 q2 w0 w1 w2 b0 b1 b2 : (i < 3)%nat -> cos q1 <> 0 ->
  let qd := angVelB2qdot_q ROps (q0,q1,q2) (w0,w1,w2) in
  is_derive (fun t => e3 i (angVelB2qdot_q ROps (q0+t*v3_0 qd, q1+t*v3_1 qd, q2+t*v3_2 qd) (w0+t*b0, w1+t*b1, w2+t*b2))) 0
            (e3 i (angAccB2qdd_q ROps (q0,q1,q2) (w0,w1,w2) (b0,b1,b2))).
Proof. exact (angAccB2qdd_is_jet i q0 q1 q2 w0 w1 w2 b0 b1 b2). Qed.
Print Assumptions C28_angAccB2qdd_is_jet.

Theorem C28_angAcc2qdd321_is_jet (i:nat) q0 q1 q2 w0 w1 w2 b0 b1 b2 : (i < 3)%nat -> cos q1 <> 0 ->
  let qd := angVel2qdot321 ROps (q0,q1,q2) (w0,w1,w2) in
  is_derive (fun t => e3 i (angVel2qdot321 ROps (q0+t*v3_0 qd, q1+t*v3_1 qd, q2+t*v3_2 qd) (w0+t*b0, w1+t*b1, w2+t*b2))) 0
            (e3 i (angAcc2qdd321 ROps (q0,q1,q2) (w0,w1,w2) (b0,b1,b2))).
Proof. exact (angAcc2qdd321_is_jet i q0 q1 q2 w0 w1 w2 b0 b1 b2). Qed.
Print Assumptions C28_angAcc2qdd321_is_jet.

Theorem C28_angAcc2qddQ_is_jet (i:nat) e0 e1 e2 e3' w0 w1 w2 b0 b1 b2 : (i < 4)%nat ->
  let qd := angVel2qdotQ ROps (e0,e1,e2,e3') (w0,w1,w2) in
  is_derive (fun t => e4 i (angVel2qdotQ ROps (e0+t*v4_0 qd, e1+t*v4_1 qd, e2+t*v4_2 qd, e3'+t*v4_3 qd) (w0+t*b0, w1+t*b1, w2+t*b2))) 0
            (e4 i (angAcc2qddQ ROps (e0,e1,e2,e3') (w0,w1,w2) (b0,b1,b2))).
Proof. exact (angAcc2qddQ_is_jet i e0 e1 e2 e3' w0 w1 w2 b0 b1 b2). Qed.
Print Assumptions C28_angAcc2qddQ_is_jet.

Theorem C28_angAccP_formula c0 s0 c1 s1 q0 q1 q2 b0 b1 b2 : c1 <> 0 -> s0*s0 + c0*c0 = 1 -> s1*s1 + c1*c1 = 1 ->
  angAccP2qdd ROps (c0,c1) (s0,s1) (1/c1) (q0,q1,q2) (b0,b1,b2) =
  v3_add ROps (m33_mulv ROps (cNP ROps (c0,c1,0) (s0,s1,0)) (b0,b1,b2))
              (m33_mulv ROps (cNDotP ROps (c0,c1) (s0,s1) (1/c1) (q0,q1,q2))
                             (m33_mulv ROps (cNInvP ROps (c0,c1,0) (s0,s1,0)) (q0,q1,q2))).
Proof. exact (angAccP_formula c0 s0 c1 s1 q0 q1 q2 b0 b1 b2). Qed.
Print Assumptions C28_angAccP_formula.

Theorem C28_qdot321_roundtrip q0 q1 q2 w0 w1 w2 : cos q1 <> 0 ->
  qdot3212angVel ROps (q0,q1,q2) (angVel2qdot321 ROps (q0,q1,q2) (w0,w1,w2)) = (w0,w1,w2).
Proof. exact (qdot321_roundtrip q0 q1 q2 w0 w1 w2). Qed.
Print Assumptions C28_qdot321_roundtrip.

Theorem C28_qdotB_roundtrip q0 q1 q2 w0 w1 w2 : cos q1 <> 0 ->
  qdot2angVelB_q ROps (q0,q1,q2) (angVelB2qdot_q ROps (q0,q1,q2) (w0,w1,w2)) = (w0,w1,w2).
Proof. exact (qdotB_roundtrip q0 q1 q2 w0 w1 w2). Qed.
Print Assumptions C28_qdotB_roundtrip.

Theorem C28_hyps_satisfiable : cos (PI/3) <> 0 /\ (1/2)*(1/2)+(sqrt 3/2)*(sqrt 3/2) = 1.
Proof. exact (@hyps_satisfiable). Qed.
Print Assumptions C28_hyps_satisfiable.

