(** C29 property theorems (part 1 of 5; the files are compiled in parallel): statements only, each closed by [exact]; proofs are in C29/C29_Proofs.v.
    in_pointMassAt, in_isValid, in_shiftToMassCenter, in_shiftFromMassCenter, si_mulSV, si_calcMassMoment, sa_shift*
    are regenerated from MassProperties.h / SpatialAlgebra.h on every run (Gen/c29in_gen.v, c29si_gen.v, c29sa_gen.v);
    the other functions are the hand model C29/C29_Model.v, tied by the correspondence run of checks/C29.py. *)
From Coq Require Import ZArith Reals List QArith.
Require Import Num Vec c29in_gen c29si_gen c29sa_gen C29_Model C29_Proofs.
Local Open Scope R_scope.

Theorem C29_shift_to_from_inverse I c m : in_shiftFromMassCenter ROps (in_shiftToMassCenter ROps I c m) c m = I.
Proof. exact (shift_to_from_inverse I c m). Qed.
Print Assumptions C29_shift_to_from_inverse.

Theorem C29_shift_from_to_inverse I c m : in_shiftToMassCenter ROps (in_shiftFromMassCenter ROps I c m) c m = I.
Proof. exact (shift_from_to_inverse I c m). Qed.
Print Assumptions C29_shift_from_to_inverse.

Theorem C29_pointMass_is_parallel_axis_term x y z m :
  sym_to_m33 (in_pointMassAt ROps (x,y,z) m) =
  m33_scale ROps m (m33_sub ROps (m33_scale ROps (v3_normSqr ROps (x,y,z)) I33) (m33_outer ROps (x,y,z) (x,y,z))).
Proof. exact (pointMass_is_parallel_axis_term x y z m). Qed.
Print Assumptions C29_pointMass_is_parallel_axis_term.

Theorem C29_shift_additive Ic p q m :
  in_shiftFromMassCenter ROps (in_shiftToMassCenter ROps (in_shiftFromMassCenter ROps Ic p m) p m) q m
  = in_shiftFromMassCenter ROps Ic q m.
Proof. exact (shift_additive Ic p q m). Qed.
Print Assumptions C29_shift_additive.

Theorem C29_crossMatSq_is_unit_point_mass x y z : crossMatSq ROps (x,y,z) = in_pointMassAt ROps (x,y,z) 1.
Proof. exact (crossMatSq_is_unit_point_mass x y z). Qed.
Print Assumptions C29_crossMatSq_is_unit_point_mass.

Theorem C29_si_shift_zero m p G : si_shift ROps (m,p,G) (0,0,0) = (m,p,G).
Proof. exact (si_shift_zero m p G). Qed.
Print Assumptions C29_si_shift_zero.

Theorem C29_si_shift_additive m p G a b :
  si_shift ROps (si_shift ROps (m,p,G) a) b = si_shift ROps (m,p,G) (v3_add ROps a b).
Proof. exact (si_shift_additive m p G a b). Qed.
Print Assumptions C29_si_shift_additive.

Theorem C29_si_shift_inverse m p G a : si_shift ROps (si_shift ROps (m,p,G) a) (v3_neg ROps a) = (m,p,G).
Proof. exact (si_shift_inverse m p G a). Qed.
Print Assumptions C29_si_shift_inverse.

Theorem C29_si_shift_is_parallel_axis m p G S :
  sym_scale ROps m (si_G (si_shift ROps (m,p,G) S)) =
  in_shiftFromMassCenter ROps (in_shiftToMassCenter ROps (sym_scale ROps m G) p m) (v3_sub ROps p S) m.
Proof. exact (si_shift_is_parallel_axis m p G S). Qed.
Print Assumptions C29_si_shift_is_parallel_axis.

Theorem C29_shiftVelocity_additive V a b :
  sa_shiftVelocityBy ROps (sa_shiftVelocityBy ROps V a) b = sa_shiftVelocityBy ROps V (v3_add ROps a b).
Proof. exact (shiftVelocity_additive V a b). Qed.
Print Assumptions C29_shiftVelocity_additive.

Theorem C29_shiftForce_additive F a b :
  sa_shiftForceBy ROps (sa_shiftForceBy ROps F a) b = sa_shiftForceBy ROps F (v3_add ROps a b).
Proof. exact (shiftForce_additive F a b). Qed.
Print Assumptions C29_shiftForce_additive.

Theorem C29_shiftAcceleration_additive A w a b :
  sa_shiftAccelerationBy ROps (sa_shiftAccelerationBy ROps A w a) w b = sa_shiftAccelerationBy ROps A w (v3_add ROps a b).
Proof. exact (shiftAcceleration_additive A w a b). Qed.
Print Assumptions C29_shiftAcceleration_additive.

Theorem C29_shiftVelocity_zero V : sa_shiftVelocityBy ROps V (0,0,0) = V.
Proof. exact (shiftVelocity_zero V). Qed.
Print Assumptions C29_shiftVelocity_zero.

Theorem C29_shiftForce_zero F : sa_shiftForceBy ROps F (0,0,0) = F.
Proof. exact (shiftForce_zero F). Qed.
Print Assumptions C29_shiftForce_zero.

Theorem C29_shiftFromTo_is_By V F A w p q :
  sa_shiftVelocityFromTo ROps V p q = sa_shiftVelocityBy ROps V (v3_sub ROps q p) /\
  sa_shiftForceFromTo ROps F p q = sa_shiftForceBy ROps F (v3_sub ROps q p) /\
  sa_shiftAccelerationFromTo ROps A w p q = sa_shiftAccelerationBy ROps A w (v3_sub ROps q p).
Proof. exact (shiftFromTo_is_By V F A w p q). Qed.
Print Assumptions C29_shiftFromTo_is_By.

Theorem C29_power_invariant_under_shift F V r :
  sv_dot ROps (sa_shiftForceBy ROps F r) (sa_shiftVelocityBy ROps V r) = sv_dot ROps F V.
Proof. exact (power_invariant_under_shift F V r). Qed.
Print Assumptions C29_power_invariant_under_shift.

Theorem C29_momentum_shifts_like_force m p G V S :
  si_mul ROps (si_shift ROps (m,p,G) S) (sa_shiftVelocityBy ROps V S) = sa_shiftForceBy ROps (si_mul ROps (m,p,G) V) S.
Proof. exact (momentum_shifts_like_force m p G V S). Qed.
Print Assumptions C29_momentum_shifts_like_force.

Theorem C29_ke_invariant_under_shift m p G V S :
  sv_dot ROps (sa_shiftVelocityBy ROps V S) (si_mul ROps (si_shift ROps (m,p,G) S) (sa_shiftVelocityBy ROps V S))
  = sv_dot ROps V (si_mul ROps (m,p,G) V).
Proof. exact (ke_invariant_under_shift m p G V S). Qed.
Print Assumptions C29_ke_invariant_under_shift.

Theorem C29_reexpress_is_congruence R S : rotation R ->
  sym_to_m33 (reexpressSymMat33 ROps R S) = sym_congr ROps R S.
Proof. exact (reexpress_is_congruence R S). Qed.
Print Assumptions C29_reexpress_is_congruence.

Theorem C29_reexpressSymMat33_preserves_charpoly R S : rotation R ->
  sym_trace ROps (reexpressSymMat33 ROps R S) = sym_trace ROps S /\
  sym_inv2 ROps (reexpressSymMat33 ROps R S) = sym_inv2 ROps S /\
  sym_det ROps (reexpressSymMat33 ROps R S) = sym_det ROps S.
Proof. exact (reexpressSymMat33_preserves_charpoly R S). Qed.
Print Assumptions C29_reexpressSymMat33_preserves_charpoly.

