(** C29 property theorems (part 2 of 5; the files are compiled in parallel): statements only, each closed by [exact]; proofs are in C29/C29_Proofs.v.
    in_pointMassAt, in_isValid, in_shiftToMassCenter, in_shiftFromMassCenter, si_mulSV, si_calcMassMoment, sa_shift*
    are regenerated from MassProperties.h / SpatialAlgebra.h on every run (Gen/c29in_gen.v, c29si_gen.v, c29sa_gen.v);
    the other functions are the hand model C29/C29_Model.v, tied by the correspondence run of checks/C29.py. *)
From Coq Require Import ZArith Reals List QArith.
Require Import Num Vec c29in_gen c29si_gen c29sa_gen C29_Model C29_Proofs.
Local Open Scope R_scope.

Theorem C29_reexpress_preserves_trace_and_charpoly I R_FB : rotation R_FB ->
  sym_trace ROps (in_reexpress ROps I R_FB) = sym_trace ROps I /\
  sym_inv2 ROps (in_reexpress ROps I R_FB) = sym_inv2 ROps I /\
  sym_det ROps (in_reexpress ROps I R_FB) = sym_det ROps I.
Proof. exact (reexpress_preserves_trace_and_charpoly I R_FB). Qed.
Print Assumptions C29_reexpress_preserves_trace_and_charpoly.

Theorem C29_in_reexpress_is_congruence I R_FB : rotation R_FB ->
  sym_to_m33 (in_reexpress ROps I R_FB) = m33_mul ROps (m33_mul ROps (m33_T R_FB) (sym_to_m33 I)) R_FB.
Proof. exact (in_reexpress_is_congruence I R_FB). Qed.
Print Assumptions C29_in_reexpress_is_congruence.

Theorem C29_power_invariant_under_reexpress F V R_FB : orthogonal R_FB ->
  sv_dot ROps (sv_reexpress ROps F R_FB) (sv_reexpress ROps V R_FB) = sv_dot ROps F V.
Proof. exact (power_invariant_under_reexpress F V R_FB). Qed.
Print Assumptions C29_power_invariant_under_reexpress.

Theorem C29_momentum_reexpresses m p G V R_FB : rotation R_FB ->
  si_mul ROps (si_reexpress ROps (m,p,G) R_FB) (sv_reexpress ROps V R_FB) = sv_reexpress ROps (si_mul ROps (m,p,G) V) R_FB.
Proof. exact (momentum_reexpresses m p G V R_FB). Qed.
Print Assumptions C29_momentum_reexpresses.

Theorem C29_ke_invariant_under_reexpress m p G V R_FB : rotation R_FB ->
  sv_dot ROps (sv_reexpress ROps V R_FB) (si_mul ROps (si_reexpress ROps (m,p,G) R_FB) (sv_reexpress ROps V R_FB))
  = sv_dot ROps V (si_mul ROps (m,p,G) V).
Proof. exact (ke_invariant_under_reexpress m p G V R_FB). Qed.
Print Assumptions C29_ke_invariant_under_reexpress.

Theorem C29_ke_invariant_under_transform m p G V R_FB x : rotation R_FB ->
  let V' := sv_reexpress ROps (sa_shiftVelocityBy ROps V x) R_FB in
  sv_dot ROps V' (si_mul ROps (si_transform ROps (m,p,G) (R_FB,x)) V') = sv_dot ROps V (si_mul ROps (m,p,G) V).
Proof. exact (ke_invariant_under_transform m p G V R_FB x). Qed.
Print Assumptions C29_ke_invariant_under_transform.

Theorem C29_pointMass_quadratic_form p m u :
  sym_quad ROps (in_pointMassAt ROps p m) u = m * v3_normSqr ROps (v3_cross ROps p u).
Proof. exact (pointMass_quadratic_form p m u). Qed.
Print Assumptions C29_pointMass_quadratic_form.

Theorem C29_cloud_psd pts u : masses_nonneg pts -> 0 <= sym_quad ROps (cloud_inertia ROps pts) u.
Proof. exact (cloud_psd pts u). Qed.
Print Assumptions C29_cloud_psd.

Theorem C29_cloud_triangle pts : masses_nonneg pts -> triangle_and_product_bounds (cloud_inertia ROps pts) 0.
Proof. exact (cloud_triangle pts). Qed.
Print Assumptions C29_cloud_triangle.

Theorem C29_isValid_iff m : in_isValid ROps m = true <-> triangle_and_product_bounds m (slopR m).
Proof. exact (isValid_iff m). Qed.
Print Assumptions C29_isValid_iff.

Theorem C29_valid_implies_triangle a b c d e f : in_isValid ROps ((a,b,c),(d,e,f)) = true ->
  let s := slopR ((a,b,c),(d,e,f)) in
  (0 <= a /\ 0 <= b /\ 0 <= c) /\ (c <= a + b + s /\ b <= a + c + s /\ a <= b + c + s).
Proof. exact (valid_implies_triangle a b c d e f). Qed.
Print Assumptions C29_valid_implies_triangle.

Theorem C29_invalid_rejected a b c d e f : let s := slopR ((a,b,c),(d,e,f)) in
  (a < 0 \/ b < 0 \/ c < 0 \/ a + b + s < c \/ a + c + s < b \/ b + c + s < a \/
   a + s < Rabs (2*f) \/ b + s < Rabs (2*e) \/ c + s < Rabs (2*d)) ->
  in_isValid ROps ((a,b,c),(d,e,f)) = false.
Proof. exact (invalid_rejected a b c d e f). Qed.
Print Assumptions C29_invalid_rejected.

Theorem C29_cloud_accepted pts : masses_nonneg pts -> in_isValid ROps (cloud_inertia ROps pts) = true.
Proof. exact (cloud_accepted pts). Qed.
Print Assumptions C29_cloud_accepted.

Theorem C29_valid_implies_psd_refuted :
  exists (m:SymMat33 R) (u:Vec3 R), in_isValid ROps m = true /\ sym_quad ROps m u < 0 /\ sym_det ROps m < 0.
Proof. exact (@valid_implies_psd_refuted). Qed.
Print Assumptions C29_valid_implies_psd_refuted.

Theorem C29_valid_implies_psd_refuted_Q :
  in_isValid QOps ((1,2,2),(1,-1,1#2))%Q = true /\
  (sym_quad QOps ((1,2,2),(1,-1,1#2)) (-2,1,-1) == -1)%Q /\ (sym_det QOps ((1,2,2),(1,-1,1#2)) == -5#4)%Q.
Proof. exact (@valid_implies_psd_refuted_Q). Qed.
Print Assumptions C29_valid_implies_psd_refuted_Q.

Theorem C29_massprops_shift_agrees_with_spatial_inertia m p G S : m <> 0 ->
  mp_calcShiftedMassProps ROps (m,p,G) S = si_shift ROps (m,p,G) S.
Proof. exact (massprops_shift_agrees_with_spatial_inertia m p G S). Qed.
Print Assumptions C29_massprops_shift_agrees_with_spatial_inertia.

Theorem C29_spatial_inertia_transform_agrees_with_massprops m p G X : m <> 0 ->
  mp_calcTransformedMassProps ROps (m,p,G) X = si_transform ROps (m,p,G) X.
Proof. exact (spatial_inertia_transform_agrees_with_massprops m p G X). Qed.
Print Assumptions C29_spatial_inertia_transform_agrees_with_massprops.

Theorem C29_massless_transform_agrees_on_inertia p G X :
  mp_calcInertia ROps (mp_calcTransformedMassProps ROps (0,p,G) X) = sym_scale ROps 0 (si_G (si_transform ROps (0,p,G) X)).
Proof. exact (massless_transform_agrees_on_inertia p G X). Qed.
Print Assumptions C29_massless_transform_agrees_on_inertia.

Theorem C29_mp_reexpress_is_si_reexpress m p G Rm : mp_reexpress ROps (m,p,G) Rm = si_reexpress ROps (m,p,G) Rm.
Proof. exact (mp_reexpress_is_si_reexpress m p G Rm). Qed.
Print Assumptions C29_mp_reexpress_is_si_reexpress.

Theorem C29_mp_calcShiftedInertia_is_shift m p G o :
  mp_calcShiftedInertia ROps (m,p,G) o =
  in_shiftFromMassCenter ROps (in_shiftToMassCenter ROps (mp_calcInertia ROps (m,p,G)) p m) (v3_sub ROps o p) m.
Proof. exact (mp_calcShiftedInertia_is_shift m p G o). Qed.
Print Assumptions C29_mp_calcShiftedInertia_is_shift.

