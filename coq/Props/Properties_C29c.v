(** C29 property theorems (part 3 of 3; the three files are compiled in parallel): statements only, each closed by [exact]; proofs are in C29/C29_Proofs.v.
    in_pointMassAt, in_isValid, in_shiftToMassCenter, in_shiftFromMassCenter, si_mulSV, si_calcMassMoment, sa_shift*
    are regenerated from MassProperties.h / SpatialAlgebra.h on every run (Gen/c29in_gen.v, c29si_gen.v, c29sa_gen.v);
    the other functions are the hand model C29/C29_Model.v, tied by the correspondence run of checks/C29.py. *)
From Coq Require Import ZArith Reals List QArith.
Require Import Num Vec c29in_gen c29si_gen c29sa_gen C29_Model C29_Proofs.
Local Open Scope R_scope.

Theorem C29_valid_implies_psd_refuted_Q :
  in_isValid QOps ((1,2,2),(1,-1,1#2))%Q = true /\
  (sym_quad QOps ((1,2,2),(1,-1,1#2)) (-2,1,-1) == -1)%Q /\ (sym_det QOps ((1,2,2),(1,-1,1#2)) == -5#4)%Q.
Proof. exact (@valid_implies_psd_refuted_Q). Qed.
Print Assumptions C29_valid_implies_psd_refuted_Q.

Theorem C29_massprops_shift_agrees_with_spatial_inertia m p G S : m <> 0 ->
  mp_calcShiftedMassProps ROps (m,p,G) S = si_shift ROps (m,p,G) S.
Proof. exact (massprops_shift_agrees_with_spatial_inertia m p G S). Qed.
Print Assumptions C29_massprops_shift_agrees_with_spatial_inertia.

Theorem C29_spatial_inertia_transform_agrees_with_massprops m p G X : m <> 0 ->
  mp_calcTransformedMassProps ROps (m,p,G) X = si_transform ROps (m,p,G) X.
Proof. exact (spatial_inertia_transform_agrees_with_massprops m p G X). Qed.
Print Assumptions C29_spatial_inertia_transform_agrees_with_massprops.

Theorem C29_massless_transform_agrees_on_inertia p G X :
  mp_calcInertia ROps (mp_calcTransformedMassProps ROps (0,p,G) X) = sym_scale ROps 0 (si_G (si_transform ROps (0,p,G) X)).
Proof. exact (massless_transform_agrees_on_inertia p G X). Qed.
Print Assumptions C29_massless_transform_agrees_on_inertia.

Theorem C29_mp_reexpress_is_si_reexpress m p G Rm : mp_reexpress ROps (m,p,G) Rm = si_reexpress ROps (m,p,G) Rm.
Proof. exact (mp_reexpress_is_si_reexpress m p G Rm). Qed.
Print Assumptions C29_mp_reexpress_is_si_reexpress.

Theorem C29_mp_calcShiftedInertia_is_shift m p G o :
  mp_calcShiftedInertia ROps (m,p,G) o =
  in_shiftFromMassCenter ROps (in_shiftToMassCenter ROps (mp_calcInertia ROps (m,p,G)) p m) (v3_sub ROps o p) m.
Proof. exact (mp_calcShiftedInertia_is_shift m p G o). Qed.
Print Assumptions C29_mp_calcShiftedInertia_is_shift.

Theorem C29_ai_mul_ofSI m p G V : ai_mul ROps (ai_ofSI ROps (m,p,G)) V = si_mul ROps (m,p,G) V.
Proof. exact (ai_mul_ofSI m p G V). Qed.
Print Assumptions C29_ai_mul_ofSI.

Theorem C29_ai_shift_of_rigid m p G s :
  ai_shift ROps (ai_ofSI ROps (m,p,G)) s = ai_ofSI ROps (si_shift ROps (m,p,G) (v3_neg ROps s)).
Proof. exact (ai_shift_of_rigid m p G s). Qed.
Print Assumptions C29_ai_shift_of_rigid.

Theorem C29_ai_shift_momentum P s V :
  ai_mul ROps (ai_shift ROps P s) V = sa_shiftForceBy ROps (ai_mul ROps P (sa_shiftVelocityBy ROps V s)) (v3_neg ROps s).
Proof. exact (ai_shift_momentum P s V). Qed.
Print Assumptions C29_ai_shift_momentum.

Theorem C29_ai_shift_quadratic_form P s V :
  sv_dot ROps V (ai_mul ROps (ai_shift ROps P s) V)
  = sv_dot ROps (sa_shiftVelocityBy ROps V s) (ai_mul ROps P (sa_shiftVelocityBy ROps V s)).
Proof. exact (ai_shift_quadratic_form P s V). Qed.
Print Assumptions C29_ai_shift_quadratic_form.

Theorem C29_ai_shift_additive P a b : ai_shift ROps (ai_shift ROps P a) b = ai_shift ROps P (v3_add ROps a b).
Proof. exact (ai_shift_additive P a b). Qed.
Print Assumptions C29_ai_shift_additive.

Theorem C29_ai_shift_zero P : ai_shift ROps P (0,0,0) = P.
Proof. exact (ai_shift_zero P). Qed.
Print Assumptions C29_ai_shift_zero.

Theorem C29_rotation_example : rotation ((2/3,-1/3,2/3),(2/3,2/3,-1/3),(-1/3,2/3,2/3)).
Proof. exact (@rotation_example). Qed.
Print Assumptions C29_rotation_example.

Theorem C29_cloud_example :
  masses_nonneg (((1,2,0),3) :: ((0,-1,1),2) :: nil) /\
  cloud_inertia ROps (((1,2,0),3) :: ((0,-1,1),2) :: nil) = ((16,5,17),(-6,0,2)).
Proof. exact (@cloud_example). Qed.
Print Assumptions C29_cloud_example.

Theorem C29_valid_example : in_isValid ROps ((16,5,17),(-6,0,2)) = true.
Proof. exact (@valid_example). Qed.
Print Assumptions C29_valid_example.

Theorem C29_invalid_example : in_isValid ROps ((1,1,3),(0,0,0)) = false.
Proof. exact (@invalid_example). Qed.
Print Assumptions C29_invalid_example.

