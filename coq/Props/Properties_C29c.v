(** C29 property theorems (part 3 of 5; the files are compiled in parallel): statements only, each closed by [exact]; proofs are in C29/C29_Proofs.v.
    in_pointMassAt, in_isValid, in_shiftToMassCenter, in_shiftFromMassCenter, si_mulSV, si_calcMassMoment, sa_shift*
    are regenerated from MassProperties.h / SpatialAlgebra.h on every run (Gen/c29in_gen.v, c29si_gen.v, c29sa_gen.v);
    the other functions are the hand model C29/C29_Model.v, tied by the correspondence run of checks/C29.py. *)
From Coq Require Import ZArith Reals List QArith.
Require Import Num Vec c29in_gen c29si_gen c29sa_gen C29_Model C29_Proofs.
Local Open Scope R_scope.

Theorem C29_ai_mul_ofSI m p G V : ai_mul ROps (ai_ofSI ROps (m,p,G)) V = si_mul ROps (m,p,G) V.
Proof. exact (ai_mul_ofSI m p G V). Qed.
Print Assumptions C29_ai_mul_ofSI.

Theorem C29_ai_shift_of_rigid m p G s :
  ai_shift ROps (ai_ofSI ROps (m,p,G)) s = ai_ofSI ROps (si_shift ROps (m,p,G) (v3_neg ROps s)).
Proof. exact (ai_shift_of_rigid m p G s). Qed.
Print Assumptions C29_ai_shift_of_rigid.

Theorem C29_ai_shift_momentum P s V :
  ai_mul ROps (ai_shift ROps P s) V = sa_shiftForceBy ROps (ai_mul ROps P (sa_shiftVelocityBy ROps V s)) (v3_neg ROps s).
Proof. exact (ai_shift_momentum P s V). Qed.
Print Assumptions C29_ai_shift_momentum.

Theorem C29_ai_shift_quadratic_form P s V :
  sv_dot ROps V (ai_mul ROps (ai_shift ROps P s) V)
  = sv_dot ROps (sa_shiftVelocityBy ROps V s) (ai_mul ROps P (sa_shiftVelocityBy ROps V s)).
Proof. exact (ai_shift_quadratic_form P s V). Qed.
Print Assumptions C29_ai_shift_quadratic_form.

Theorem C29_ai_shift_additive P a b : ai_shift ROps (ai_shift ROps P a) b = ai_shift ROps P (v3_add ROps a b).
Proof. exact (ai_shift_additive P a b). Qed.
Print Assumptions C29_ai_shift_additive.

Theorem C29_ai_shift_zero P : ai_shift ROps P (0,0,0) = P.
Proof. exact (ai_shift_zero P). Qed.
Print Assumptions C29_ai_shift_zero.

Theorem C29_cloud_inertia_translate pts s :
  cloud_inertia ROps (cloud_translate s pts) =
  sym_add ROps (sym_sub ROps (cloud_inertia ROps pts) (sym_cross_term (cloud_moment pts) s)) (in_pointMassAt ROps s (cloud_mass pts)).
Proof. exact (cloud_inertia_translate pts s). Qed.
Print Assumptions C29_cloud_inertia_translate.

Theorem C29_cloud_mass_moment_translate pts s :
  cloud_mass (cloud_translate s pts) = cloud_mass pts /\
  cloud_moment (cloud_translate s pts) = v3_sub ROps (cloud_moment pts) (v3_scale ROps (cloud_mass pts) s).
Proof. exact (cloud_mass_moment_translate pts s). Qed.
Print Assumptions C29_cloud_mass_moment_translate.

Theorem C29_cloud_shift_is_parallel_axis pts s com : v3_scale ROps (cloud_mass pts) com = cloud_moment pts ->
  cloud_inertia ROps (cloud_translate s pts) =
  in_shiftFromMassCenter ROps (in_shiftToMassCenter ROps (cloud_inertia ROps pts) com (cloud_mass pts)) (v3_sub ROps com s) (cloud_mass pts).
Proof. exact (cloud_shift_is_parallel_axis pts s com). Qed.
Print Assumptions C29_cloud_shift_is_parallel_axis.

Theorem C29_cloud_si_shift pts m p G S :
  m = cloud_mass pts -> v3_scale ROps m p = cloud_moment pts -> sym_scale ROps m G = cloud_inertia ROps pts ->
  let M' := si_shift ROps (m,p,G) S in
  si_m M' = cloud_mass (cloud_translate S pts) /\
  v3_scale ROps (si_m M') (si_p M') = cloud_moment (cloud_translate S pts) /\
  sym_scale ROps (si_m M') (si_G M') = cloud_inertia ROps (cloud_translate S pts).
Proof. exact (cloud_si_shift pts m p G S). Qed.
Print Assumptions C29_cloud_si_shift.

Theorem C29_si_quadratic_form_of_cloud pts m p G V :
  m = cloud_mass pts -> v3_scale ROps m p = cloud_moment pts -> sym_scale ROps m G = cloud_inertia ROps pts ->
  sv_dot ROps V (si_mul ROps (m,p,G) V) = cloud_ke2 pts V.
Proof. exact (si_quadratic_form_of_cloud pts m p G V). Qed.
Print Assumptions C29_si_quadratic_form_of_cloud.

Theorem C29_cloud_spatial_inertia_psd pts m p G V : masses_nonneg pts ->
  m = cloud_mass pts -> v3_scale ROps m p = cloud_moment pts -> sym_scale ROps m G = cloud_inertia ROps pts ->
  0 <= sv_dot ROps V (si_mul ROps (m,p,G) V).
Proof. exact (cloud_spatial_inertia_psd pts m p G V). Qed.
Print Assumptions C29_cloud_spatial_inertia_psd.

Theorem C29_findRelativeVelocityInF_composes p VA VB :
  VB = sv_add ROps (sa_shiftVelocityBy ROps VA p) (sa_findRelativeVelocityInF ROps p VA VB).
Proof. exact (findRelativeVelocityInF_composes p VA VB). Qed.
Print Assumptions C29_findRelativeVelocityInF_composes.

Theorem C29_findRelativeAccelerationInF_composes p VA AA VB AB :
  let Vrel := sa_findRelativeVelocityInF ROps p VA VB in
  let Arel := sa_findRelativeAccelerationInF ROps p VA AA VB AB in
  AB = sv_add ROps (sa_shiftAccelerationBy ROps AA (fst VA) p)
         (sv_add ROps Arel (v3_cross ROps (fst VA) (fst Vrel), v3_scale ROps 2 (v3_cross ROps (fst VA) (snd Vrel)))).
Proof. exact (findRelativeAccelerationInF_composes p VA AA VB AB). Qed.
Print Assumptions C29_findRelativeAccelerationInF_composes.

Theorem C29_rotation_example : rotation ((2/3,-1/3,2/3),(2/3,2/3,-1/3),(-1/3,2/3,2/3)).
Proof. exact (@rotation_example). Qed.
Print Assumptions C29_rotation_example.

Theorem C29_cloud_example :
  masses_nonneg (((1,2,0),3) :: ((0,-1,1),2) :: nil) /\
  cloud_inertia ROps (((1,2,0),3) :: ((0,-1,1),2) :: nil) = ((16,5,17),(-6,0,2)).
Proof. exact (@cloud_example). Qed.
Print Assumptions C29_cloud_example.

Theorem C29_valid_example : in_isValid ROps ((16,5,17),(-6,0,2)) = true.
Proof. exact (@valid_example). Qed.
Print Assumptions C29_valid_example.

Theorem C29_invalid_example : in_isValid ROps ((1,1,3),(0,0,0)) = false.
Proof. exact (@invalid_example). Qed.
Print Assumptions C29_invalid_example.

Theorem C29_cloud_translate_example :
  cloud_mass (((1,2,0),3) :: ((0,-1,1),2) :: nil) = 5 /\ cloud_moment (((1,2,0),3) :: ((0,-1,1),2) :: nil) = (3,4,2) /\
  v3_scale ROps 5 (3/5,4/5,2/5) = cloud_moment (((1,2,0),3) :: ((0,-1,1),2) :: nil).
Proof. exact (@cloud_translate_example). Qed.
Print Assumptions C29_cloud_translate_example.

