(** C29 property theorems (part 4 of 5): the acceleration shift is the time derivative of the velocity shift
    (Coquelicot is_derive over the kernels generated from SpatialAlgebra.h); proofs in C29/C29_Deriv.v. *)
From Coq Require Import ZArith Reals.
From Coquelicot Require Import Coquelicot.
Require Import Num Vec c29sa_gen C29_Deriv.
Local Open Scope R_scope.

Theorem C29_shiftAcceleration_is_derivative_of_shiftVelocity (i:nat) w0 w1 w2 v0 v1 v2 b0 b1 b2 a0 a1 a2 r0 r1 r2 : (i < 3)%nat ->
  let rd := v3_cross ROps (w0,w1,w2) (r0,r1,r2) in
  is_derive (fun t => e3 i (snd (sa_shiftVelocityBy ROps ((w0+t*b0, w1+t*b1, w2+t*b2),(v0+t*a0, v1+t*a1, v2+t*a2))
                                   (r0+t*v3_0 rd, r1+t*v3_1 rd, r2+t*v3_2 rd)))) 0
            (e3 i (snd (sa_shiftAccelerationBy ROps ((b0,b1,b2),(a0,a1,a2)) (w0,w1,w2) (r0,r1,r2)))).
Proof. exact (shiftAcceleration_is_derivative_of_shiftVelocity i w0 w1 w2 v0 v1 v2 b0 b1 b2 a0 a1 a2 r0 r1 r2). Qed.
Print Assumptions C29_shiftAcceleration_is_derivative_of_shiftVelocity.

Theorem C29_shiftVelocity_is_derivative_of_position (i:nat) w0 w1 w2 v0 v1 v2 x0 x1 x2 r0 r1 r2 : (i < 3)%nat ->
  let rd := v3_cross ROps (w0,w1,w2) (r0,r1,r2) in
  is_derive (fun t => e3 i (v3_add ROps (x0+t*v0, x1+t*v1, x2+t*v2) (r0+t*v3_0 rd, r1+t*v3_1 rd, r2+t*v3_2 rd))) 0
            (e3 i (snd (sa_shiftVelocityBy ROps ((w0,w1,w2),(v0,v1,v2)) (r0,r1,r2)))).
Proof. exact (shiftVelocity_is_derivative_of_position i w0 w1 w2 v0 v1 v2 x0 x1 x2 r0 r1 r2). Qed.
Print Assumptions C29_shiftVelocity_is_derivative_of_position.

