(** C29 property theorems (part 5 of 5): the unit-inertia shape factories (Gen/c29ui_gen.v, regenerated from MassProperties.h)
    are accepted and positive semidefinite for all dimensions, including the thin-rod / thin-disc limits; proofs in C29/C29_Shapes.v. *)
From Coq Require Import ZArith Reals.
Require Import Num Vec c29in_gen c29ui_gen C29_Model C29_Proofs C29_Shapes.
Local Open Scope R_scope.

Theorem C29_sphere_accepted_psd r : in_isValid ROps (ui_sphere ROps r) = true /\ forall u, 0 <= sym_quad ROps (ui_sphere ROps r) u.
Proof. exact (sphere_accepted_psd r). Qed.
Print Assumptions C29_sphere_accepted_psd.

Theorem C29_cylinderAlongZ_accepted_psd r h :
  in_isValid ROps (ui_cylinderAlongZ ROps r h) = true /\ forall u, 0 <= sym_quad ROps (ui_cylinderAlongZ ROps r h) u.
Proof. exact (cylinderAlongZ_accepted_psd r h). Qed.
Print Assumptions C29_cylinderAlongZ_accepted_psd.

Theorem C29_cylinderAlongY_accepted_psd r h :
  in_isValid ROps (ui_cylinderAlongY ROps r h) = true /\ forall u, 0 <= sym_quad ROps (ui_cylinderAlongY ROps r h) u.
Proof. exact (cylinderAlongY_accepted_psd r h). Qed.
Print Assumptions C29_cylinderAlongY_accepted_psd.

Theorem C29_cylinderAlongX_accepted_psd r h :
  in_isValid ROps (ui_cylinderAlongX ROps r h) = true /\ forall u, 0 <= sym_quad ROps (ui_cylinderAlongX ROps r h) u.
Proof. exact (cylinderAlongX_accepted_psd r h). Qed.
Print Assumptions C29_cylinderAlongX_accepted_psd.

Theorem C29_brick_accepted_psd hx hy hz :
  in_isValid ROps (ui_brick ROps hx hy hz) = true /\ forall u, 0 <= sym_quad ROps (ui_brick ROps hx hy hz) u.
Proof. exact (brick_accepted_psd hx hy hz). Qed.
Print Assumptions C29_brick_accepted_psd.

Theorem C29_ellipsoid_accepted_psd hx hy hz :
  in_isValid ROps (ui_ellipsoid ROps hx hy hz) = true /\ forall u, 0 <= sym_quad ROps (ui_ellipsoid ROps hx hy hz) u.
Proof. exact (ellipsoid_accepted_psd hx hy hz). Qed.
Print Assumptions C29_ellipsoid_accepted_psd.

Theorem C29_thin_rod_on_boundary h : ui_cylinderAlongZ ROps 0 h = ((h*h/3, h*h/3, 0),(0,0,0)).
Proof. exact (thin_rod_on_boundary h). Qed.
Print Assumptions C29_thin_rod_on_boundary.

Theorem C29_thin_disc_on_boundary r : let d := fst (ui_cylinderAlongZ ROps r 0) in v3_0 d + v3_1 d = v3_2 d.
Proof. exact (thin_disc_on_boundary r). Qed.
Print Assumptions C29_thin_disc_on_boundary.

