(** C30 property theorems: statements only, each closed by [exact]; proofs are in C30/C30_Proofs.v.
    Model: C30/C30_Model.v -- the real and complex QUADRATIC overloads of PolynomialRootFinder::findRoots, hand-written
    statement by statement (tied to the compiled code by the correspondence run of checks/C30.py, double and float),
    and the Vieta / conjugate-closure CERTIFICATE checkers that checks/C30.py runs (extracted) on the roots returned by
    the cubic and general-degree overloads.  Complex numbers are pairs of reals (Coquelicot's C).
    PARTIAL: rpoly.cpp / cpoly.cpp (Jenkins-Traub iteration behind the cubic and general-degree overloads) are not
    modelled; their convergence, the count "degree-many roots" and the accuracy of their output are NOT decided by any
    theorem here -- only checked per run through the certificate.  Theorems are over R, not binary64. *)
From Coq Require Import ZArith Reals List Bool.
From Coquelicot Require Import Complex.
Require Import Num C30_Model C30_Proofs.
Import ListNotations.
Local Open Scope R_scope.

Theorem C30_csqrt_sqr (z : C) : Cmult (csqrt ROps z) (csqrt ROps z) = z.
Proof. exact (csqrt_sqr z). Qed.
Print Assumptions C30_csqrt_sqr.

Theorem C30_csqrt_re_nonneg (z : C) : 0 <= fst (csqrt ROps z).
Proof. exact (csqrt_re_nonneg z). Qed.
Print Assumptions C30_csqrt_re_nonneg.

Theorem C30_quad_real_defined eps a b c : quad_real ROps eps a b c = None <-> a = 0.
Proof. exact (quad_real_defined eps a b c). Qed.
Print Assumptions C30_quad_real_defined.

Theorem C30_quad_real_roots eps a b c r1 r2 :
  quad_real ROps eps a b c = Some (r1, r2) -> ~ near_double eps a b c ->
  is_root [RtoC a; RtoC b; RtoC c] r1 /\ is_root [RtoC a; RtoC b; RtoC c] r2 /\
  (r1 + r2 = - RtoC b / RtoC a)%C /\ (r1 * r2 = RtoC c / RtoC a)%C.
Proof. exact (quad_real_roots eps a b c r1 r2). Qed.
Print Assumptions C30_quad_real_roots.

Theorem C30_quad_real_near_double_residual eps a b c r1 r2 :
  quad_real ROps eps a b c = Some (r1, r2) -> near_double eps a b c ->
  r1 = RtoC (- b / (2 * a)) /\ r2 = r1 /\
  ceval ROps [RtoC a; RtoC b; RtoC c] r1 = RtoC (- (b * b - 4 * a * c) / (4 * a)) /\
  Rabs (- (b * b - 4 * a * c) / (4 * a)) < eps * (b * b) / (2 * Rabs a) /\
  (r1 + r2 = - RtoC b / RtoC a)%C.
Proof. exact (quad_real_near_double_residual eps a b c r1 r2). Qed.
Print Assumptions C30_quad_real_near_double_residual.

Theorem C30_quad_real_exact_double_root eps a b c r1 r2 :
  quad_real ROps eps a b c = Some (r1, r2) -> near_double eps a b c -> b * b - 4 * a * c = 0 ->
  is_root [RtoC a; RtoC b; RtoC c] r1 /\ r2 = r1.
Proof. exact (quad_real_exact_double_root eps a b c r1 r2). Qed.
Print Assumptions C30_quad_real_exact_double_root.

Theorem C30_quad_real_roots_eps0 a b c r1 r2 :
  quad_real ROps 0 a b c = Some (r1, r2) ->
  is_root [RtoC a; RtoC b; RtoC c] r1 /\ is_root [RtoC a; RtoC b; RtoC c] r2 /\
  (r1 + r2 = - RtoC b / RtoC a)%C /\ (r1 * r2 = RtoC c / RtoC a)%C.
Proof. exact (quad_real_roots_eps0 a b c r1 r2). Qed.
Print Assumptions C30_quad_real_roots_eps0.

Theorem C30_quad_real_conjugate_pair eps a b c r1 r2 :
  quad_real ROps eps a b c = Some (r1, r2) ->
  (snd r1 = 0 /\ snd r2 = 0) \/ r2 = Cconj r1.
Proof. exact (quad_real_conjugate_pair eps a b c r1 r2). Qed.
Print Assumptions C30_quad_real_conjugate_pair.

Theorem C30_quad_cplx_defined a b c : quad_cplx ROps a b c = None <-> a = RtoC 0.
Proof. exact (quad_cplx_defined a b c). Qed.
Print Assumptions C30_quad_cplx_defined.

Theorem C30_quad_cplx_roots (a b c r1 r2 : C) :
  quad_cplx ROps a b c = Some (r1, r2) ->
  is_root [a; b; c] r1 /\ is_root [a; b; c] r2 /\ (r1 + r2 = - b / a)%C /\ (r1 * r2 = c / a)%C.
Proof. exact (quad_cplx_roots a b c r1 r2). Qed.
Print Assumptions C30_quad_cplx_roots.

Local Open Scope C_scope.
Theorem C30_expand_eval l x : ceval ROps (expand ROps l) x = prodlin l x.
Proof. exact (expand_eval l x). Qed.
Print Assumptions C30_expand_eval.

Theorem C30_expand_nth_vieta l k : nth k (expand ROps l) (RtoC 0) = sgn k * esym k l.
Proof. exact (expand_nth_vieta l k). Qed.
Print Assumptions C30_expand_nth_vieta.

Theorem C30_vieta_implies_roots (coeffs roots : list C) (lead : C) :
  length coeffs = S (length roots) ->
  (forall k, (k <= length roots)%nat -> nth k coeffs (RtoC 0) = lead * (sgn k * esym k roots)) ->
  (forall x, ceval ROps coeffs x = lead * prodlin roots x) /\
  (forall r, In r roots -> is_root coeffs r).
Proof. exact (vieta_implies_roots coeffs roots lead). Qed.
Print Assumptions C30_vieta_implies_roots.
Local Close Scope C_scope.

Theorem C30_vieta_check_residual_bound tol coeffs roots :
  vieta_check ROps tol coeffs roots = true ->
  forall x, Cmod (ceval ROps coeffs x - hd (RtoC 0) coeffs * prodlin roots x)%C <= tol * gsum (S (length roots)) (Cmod x).
Proof. exact (vieta_check_residual_bound tol coeffs roots). Qed.
Print Assumptions C30_vieta_check_residual_bound.

Theorem C30_vieta_check_root_residual tol coeffs roots r :
  vieta_check ROps tol coeffs roots = true -> In r roots ->
  Cmod (ceval ROps coeffs r) <= tol * gsum (S (length roots)) (Cmod r).
Proof. exact (vieta_check_root_residual tol coeffs roots r). Qed.
Print Assumptions C30_vieta_check_root_residual.

Theorem C30_vieta_check_exact_implies_roots coeffs roots :
  vieta_check ROps 0 coeffs roots = true ->
  (forall x, ceval ROps coeffs x = (hd (RtoC 0) coeffs * prodlin roots x)%C) /\
  (forall r, In r roots -> is_root coeffs r).
Proof. exact (vieta_check_exact_implies_roots coeffs roots). Qed.
Print Assumptions C30_vieta_check_exact_implies_roots.

Theorem C30_conjugate_closed_from_real_vieta coeffs roots :
  all_real ROps coeffs = true -> hd (RtoC 0) coeffs <> RtoC 0 ->
  vieta_check ROps 0 coeffs roots = true ->
  forall r, In r roots -> In (Cconj r) roots.
Proof. exact (conjugate_closed_from_real_vieta coeffs roots). Qed.
Print Assumptions C30_conjugate_closed_from_real_vieta.

Theorem C30_conj_closed_check_exact roots :
  conj_closed_check ROps 0 roots = true <-> (forall r, In r roots -> In (Cconj r) roots).
Proof. exact (conj_closed_check_exact roots). Qed.
Print Assumptions C30_conj_closed_check_exact.

Theorem C30_quad_real_2xx_minus_8 eps : quad_real ROps eps 2 0 (-8) = Some (RtoC 2, RtoC (-2)).
Proof. exact (quad_real_2xx_minus_8 eps). Qed.
Print Assumptions C30_quad_real_2xx_minus_8.

Theorem C30_quad_real_general_nonvacuous :
  exists r1 r2, quad_real ROps 0 1 (-3) 2 = Some (r1, r2) /\ ~ near_double 0 1 (-3) 2.
Proof. exact (@quad_real_general_nonvacuous). Qed.
Print Assumptions C30_quad_real_general_nonvacuous.

Theorem C30_quad_real_near_double_nonvacuous :
  near_double (1 / 1000) 1 2 1 /\ quad_real ROps (1 / 1000) 1 2 1 = Some (RtoC (-1), RtoC (-1)).
Proof. exact (@quad_real_near_double_nonvacuous). Qed.
Print Assumptions C30_quad_real_near_double_nonvacuous.

Theorem C30_quad_cplx_nonvacuous : exists r1 r2, quad_cplx ROps (0, 1) (1, 1) (2, -1) = Some (r1, r2).
Proof. exact (@quad_cplx_nonvacuous). Qed.
Print Assumptions C30_quad_cplx_nonvacuous.

Theorem C30_vieta_check_example :
  vieta_check ROps 0 [RtoC 1; RtoC (-3); RtoC 2] [RtoC 1; RtoC 2] = true.
Proof. exact (@vieta_check_example). Qed.
Print Assumptions C30_vieta_check_example.

Theorem C30_conjugate_example :
  all_real ROps [RtoC 1; RtoC 0; RtoC 1] = true /\ vieta_check ROps 0 [RtoC 1; RtoC 0; RtoC 1] [(0, 1); (0, -1)] = true.
Proof. exact (@conjugate_example). Qed.
Print Assumptions C30_conjugate_example.

