(** C31 property theorems: statements only, each closed by [exact]; proofs are in C31/C31_Proofs.v,
    the model in C31/C31_Model.v (tied to /repo by the bit-exact correspondence run of checks/C31.py). *)
From Coq Require Import NArith ZArith Reals Lia Lra List Bool.
From Flocq Require Import Core.Core IEEE754.BinarySingleNaN.
From Coq Require Import SpecFloat.
Require Import C31_Model C31_Lemmas C31_FloatLemmas C31_Proofs.
Import ListNotations.
Local Open Scope N_scope.

Theorem C31_sfmt_reference_vector :
  firstn 5 (sfmt_out32 1234 2) = [3440181298; 1564997079; 1510669302; 2930277156; 1452439940].
Proof. exact (@sfmt_reference_vector). Qed.
Print Assumptions C31_sfmt_reference_vector.

Theorem C31_sfmt_block_size_independent a b w :
  fst (extend (a + b) w) = fst (extend a w) ++ fst (extend b (snd (extend a w))) /\
  snd (extend (a + b) w) = snd (extend b (snd (extend a w))).
Proof. exact (sfmt_block_size_independent a b w). Qed.
Print Assumptions C31_sfmt_block_size_independent.

Theorem C31_sfmt_outputs_in_range32 seed n v : In v (sfmt_out32 seed n) -> v < 2 ^ 32.
Proof. exact (sfmt_outputs_in_range32 seed n v). Qed.
Print Assumptions C31_sfmt_outputs_in_range32.

Theorem C31_sfmt_outputs_in_range64 seed n v : In v (sfmt_out64 seed n) -> v < 2 ^ 64.
Proof. exact (sfmt_outputs_in_range64 seed n v). Qed.
Print Assumptions C31_sfmt_outputs_in_range64.

Theorem C31_init_period_certified seed : inner_of (hd zl (init_gen_rand seed)) = 1.
Proof. exact (init_period_certified seed). Qed.
Print Assumptions C31_init_period_certified.

Theorem C31_random_draws_are_sfmt_stream seed n :
  exists m, fst (raw_seq n (set_seed seed)) = firstn n (sfmt_out64 seed m).
Proof. exact (random_draws_are_sfmt_stream seed n). Qed.
Print Assumptions C31_random_draws_are_sfmt_stream.

Theorem C31_raw_draws_in_range seed n v : In v (fst (raw_seq n (set_seed seed))) -> v < 2 ^ 64.
Proof. exact (raw_draws_in_range seed n v). Qed.
Print Assumptions C31_raw_draws_in_range.

Theorem C31_deterministic_stream seed n k :
  fst (raw_seq n (set_seed seed)) = firstn n (fst (raw_seq (n + k) (set_seed seed))).
Proof. exact (deterministic_stream seed n k). Qed.
Print Assumptions C31_deterministic_stream.

Local Open Scope R_scope.

Theorem C31_res53_in_unit_interval_closed v : (v < 2 ^ 64)%N -> 0 <= B2R (res53 v) <= 1.
Proof. exact (res53_in_unit_interval_closed v). Qed.
Print Assumptions C31_res53_in_unit_interval_closed.

Theorem C31_res53_in_unit_interval_partial v :
  (v < 2 ^ 64 - 2 ^ 10)%N -> is_finite (res53 v) = true /\ 0 <= B2R (res53 v) <= 1 - / 9007199254740992 /\ B2R (res53 v) < 1.
Proof. exact (res53_in_unit_interval_partial v). Qed.
Print Assumptions C31_res53_in_unit_interval_partial.

Theorem C31_res53_in_unit_interval_refuted : exists v, (v < 2 ^ 64)%N /\ B2R (res53 v) = 1.
Proof. exact (@res53_in_unit_interval_refuted). Qed.
Print Assumptions C31_res53_in_unit_interval_refuted.

Theorem C31_res53_equals_one_iff v : (v < 2 ^ 64)%N -> (B2R (res53 v) = 1 <-> (2 ^ 64 - 2 ^ 10 <= v)%N).
Proof. exact (res53_equals_one_iff v). Qed.
Print Assumptions C31_res53_equals_one_iff.

Theorem C31_res53_monotone v1 v2 : (v1 <= v2)%N -> (v2 < 2 ^ 64)%N -> B2R (res53 v1) <= B2R (res53 v2).
Proof. exact (res53_monotone v1 v2). Qed.
Print Assumptions C31_res53_monotone.

Theorem C31_uniform_real_in_range (mn mx r : R) : mn < mx -> 0 <= r < 1 -> mn <= mn + r * (mx - mn) < mx.
Proof. exact (uniform_real_in_range mn mx r). Qed.
Print Assumptions C31_uniform_real_in_range.

Theorem C31_uniform_int_in_range_real (a b : Z) (r : R) :
  (a < b)%Z -> 0 <= r < 1 -> (a <= Zfloor (IZR a + r * (IZR b - IZR a)) < b)%Z.
Proof. exact (uniform_int_in_range_real a b r). Qed.
Print Assumptions C31_uniform_int_in_range_real.

Theorem C31_uniform_value_in_range_binary64 a b v :
  (- 2 ^ 31 <= a)%Z -> (a < b)%Z -> (b <= 2 ^ 31)%Z -> (v < 2 ^ 64)%N ->
  is_finite (uniform_value (fofZ a) (fofZ b) v) = true /\
  IZR a <= B2R (uniform_value (fofZ a) (fofZ b) v) < IZR b.
Proof. exact (uniform_value_in_range_binary64 a b v). Qed.
Print Assumptions C31_uniform_value_in_range_binary64.

Theorem C31_uniform_int_in_range_binary64 a b v :
  (- 2 ^ 31 <= a)%Z -> (a < b)%Z -> (b <= 2 ^ 31)%Z -> (v < 2 ^ 64)%N ->
  (a <= uniform_int (fofZ a) (fofZ b) v < b)%Z.
Proof. exact (uniform_int_in_range_binary64 a b v). Qed.
Print Assumptions C31_uniform_int_in_range_binary64.

Theorem C31_uniform_clamp_inactive a b v :
  (- 2 ^ 31 <= a)%Z -> (a < b)%Z -> (b <= 2 ^ 31)%Z -> (v < 2 ^ 64)%N ->
  B2R (uniform_value_raw (fofZ a) (fofZ b) v) < IZR b ->
  B2R (uniform_value (fofZ a) (fofZ b) v) = B2R (uniform_value_raw (fofZ a) (fofZ b) v).
Proof. exact (uniform_clamp_inactive a b v). Qed.
Print Assumptions C31_uniform_clamp_inactive.

Theorem C31_fixed_witness_in_range :
  uniform_int (fofZ 1073741824) (fofZ 1073741825) 18446742594892032221 = 1073741824%Z /\
  bits_of (uniform_value (fofZ 0) (fofZ 1) 18446744073709551615) = 4607182418800017407%Z /\
  uniform_int (fofZ 1) (fofZ 2) (2 ^ 64 - 2 ^ 10 - 1) = 1%Z.
Proof. exact (@fixed_witness_in_range). Qed.
Print Assumptions C31_fixed_witness_in_range.

Theorem C31_prefix_uniform_int_overshoot :
  exists v, (v < 2 ^ 64 - 2 ^ 10)%N /\ B2R (res53 v) < 1 /\
    uniform_int_raw (fofZ 1073741824) (fofZ 1073741825) v = 1073741825%Z.
Proof. exact (@prefix_uniform_int_overshoot). Qed.
Print Assumptions C31_prefix_uniform_int_overshoot.

Theorem C31_prefix_uniform_int_lower_bound a b v :
  (- 2 ^ 31 <= a)%Z -> (a < b)%Z -> (b <= 2 ^ 31)%Z -> (v < 2 ^ 64)%N ->
  (a <= uniform_int_raw (fofZ a) (fofZ b) v)%Z.
Proof. exact (prefix_uniform_int_lower_bound a b v). Qed.
Print Assumptions C31_prefix_uniform_int_lower_bound.

Theorem C31_prefix_uniform_value_closed a b v :
  (- 2 ^ 31 <= a)%Z -> (a < b)%Z -> (b <= 2 ^ 31)%Z -> (v < 2 ^ 64)%N ->
  IZR a <= B2R (uniform_value_raw (fofZ a) (fofZ b) v) <= IZR b.
Proof. exact (prefix_uniform_value_closed a b v). Qed.
Print Assumptions C31_prefix_uniform_value_closed.

Theorem C31_prefix_uniform_int_monotone a b v1 v2 :
  (- 2 ^ 31 <= a)%Z -> (a < b)%Z -> (b <= 2 ^ 31)%Z -> (v1 <= v2)%N -> (v2 < 2 ^ 64)%N ->
  (uniform_int_raw (fofZ a) (fofZ b) v1 <= uniform_int_raw (fofZ a) (fofZ b) v2)%Z.
Proof. exact (prefix_uniform_int_monotone a b v1 v2). Qed.
Print Assumptions C31_prefix_uniform_int_monotone.

Theorem C31_prefix_uniform_int_criterion a b :
  (- 2 ^ 31 <= a)%Z -> (a < b)%Z -> (b <= 2 ^ 31)%Z ->
  (uniform_int_raw (fofZ a) (fofZ b) (2 ^ 64 - 2 ^ 10 - 1) < b)%Z ->
  forall v, (v < 2 ^ 64 - 2 ^ 10)%N -> (a <= uniform_int_raw (fofZ a) (fofZ b) v < b)%Z.
Proof. exact (prefix_uniform_int_criterion a b). Qed.
Print Assumptions C31_prefix_uniform_int_criterion.

Theorem C31_prefix_uniform_int_min0 b v :
  (1 <= b)%Z -> (b <= 2 ^ 31)%Z -> (v < 2 ^ 64 - 2 ^ 10)%N ->
  (0 <= uniform_int_raw (fofZ 0) (fofZ b) v < b)%Z.
Proof. exact (prefix_uniform_int_min0 b v). Qed.
Print Assumptions C31_prefix_uniform_int_min0.

Theorem C31_polar_symmetric fuel : forall us, polar RG fuel (map mirror us) = neg_result (polar RG fuel us).
Proof. exact (polar_symmetric fuel). Qed.
Print Assumptions C31_polar_symmetric.

Theorem C31_gauss_symmetric fuel mean sd us v c rest :
  gauss_value RG fuel mean sd None us = Some (v, c, rest) ->
  gauss_value RG fuel mean sd None (map mirror us) =
    Some (2 * mean - v, option_map Ropp c, map mirror rest).
Proof. exact (gauss_symmetric fuel mean sd us v c rest). Qed.
Print Assumptions C31_gauss_symmetric.

Theorem C31_gauss_terminates k : forall fuel pre r1 r2 rest,
  length pre = (2 * k)%nat -> (k < fuel)%nat ->
  accepted RG (centred RG r1) (centred RG r2) = true ->
  exists x y m rest', polar RG fuel (pre ++ r1 :: r2 :: rest) = Some (x, y, m, rest') /\
                      0 < x * x + y * y < 1.
Proof. exact (gauss_terminates k). Qed.
Print Assumptions C31_gauss_terminates.

Theorem C31_gauss_cached_second fuel mean sd g us :
  gauss_value RG fuel mean sd (Some g) us = Some (mean + sd * g, None, us).
Proof. exact (gauss_cached_second fuel mean sd g us). Qed.
Print Assumptions C31_gauss_cached_second.

Theorem C31_gauss_pair_values fuel mean sd us x y m rest :
  polar RG fuel us = Some (x, y, m, rest) ->
  exists c, gauss_value RG fuel mean sd None us = Some (mean + sd * x * m, Some c, rest) /\
            gauss_value RG fuel mean sd (Some c) rest = Some (mean + sd * (y * m), None, rest).
Proof. exact (gauss_pair_values fuel mean sd us x y m rest). Qed.
Print Assumptions C31_gauss_pair_values.

Theorem C31_gauss_radius x y : 0 < x * x + y * y < 1 ->
  (x * multiplier RG x y) * (x * multiplier RG x y) + (y * multiplier RG x y) * (y * multiplier RG x y)
  = - 2 * ln (x * x + y * y).
Proof. exact (gauss_radius x y). Qed.
Print Assumptions C31_gauss_radius.

Theorem C31_criterion_holds_m5_5 : (uniform_int_raw (fofZ (-5)) (fofZ 5) (2 ^ 64 - 2 ^ 10 - 1) < 5)%Z.
Proof. exact (@criterion_holds_m5_5). Qed.
Print Assumptions C31_criterion_holds_m5_5.

Theorem C31_criterion_fails_1_2 : uniform_int_raw (fofZ 1) (fofZ 2) (2 ^ 64 - 2 ^ 10 - 1) = 2%Z.
Proof. exact (@criterion_fails_1_2). Qed.
Print Assumptions C31_criterion_fails_1_2.

Theorem C31_criterion_fails_100_101 : uniform_int_raw (fofZ 100) (fofZ 101) (2 ^ 64 - 2 ^ 10 - 1) = 101%Z.
Proof. exact (@criterion_fails_100_101). Qed.
Print Assumptions C31_criterion_fails_100_101.

Theorem C31_gauss_accepts_example : accepted RG (centred RG (1 / 2)) (centred RG (3 / 4)) = true.
Proof. exact (@gauss_accepts_example). Qed.
Print Assumptions C31_gauss_accepts_example.

Theorem C31_res53_small_values : bits_of (res53 0) = 0%Z /\ bits_of (res53 1) = 4318952042648305664%Z.
Proof. exact (@res53_small_values). Qed.
Print Assumptions C31_res53_small_values.

Theorem C31_uniform_history_refines ops : forall o, uinv o ->
  fst (urun o ops) = uspec_run (uo_min o) (uo_max o) (uo_st o) ops.
Proof. exact (uniform_history_refines ops). Qed.
Print Assumptions C31_uniform_history_refines.

Theorem C31_uniform_history_new mn mx seed ops :
  fst (urun (unew mn mx seed) ops) = uspec_run mn mx (set_seed seed) ops.
Proof. exact (uniform_history_new mn mx seed ops). Qed.
Print Assumptions C31_uniform_history_new.

Theorem C31_gget_value_law fuel o r o' : gget RG fuel o = Some (r, o') ->
  o_val r = o_mean r + o_sd r * o_dev r /\ o_mean r = go_mean o /\ o_sd r = go_sd o /\
  go_mean o' = go_mean o /\ go_sd o' = go_sd o.
Proof. exact (gget_value_law fuel o r o'). Qed.
Print Assumptions C31_gget_value_law.

Theorem C31_gauss_history_value_law fuel ops : forall o r, In (Some r) (grun RG fuel o ops) ->
  o_val r = o_mean r + o_sd r * o_dev r.
Proof. exact (gauss_history_value_law fuel ops). Qed.
Print Assumptions C31_gauss_history_value_law.

Theorem C31_gauss_history_zero_sd fuel ops o r : In (Some r) (grun RG fuel o ops) -> o_sd r = 0 -> o_val r = o_mean r.
Proof. exact (gauss_history_zero_sd fuel ops o r). Qed.
Print Assumptions C31_gauss_history_zero_sd.

Theorem C31_gauss_history_params fuel ops : forall o, ~ In None (grun RG fuel o ops) ->
  map (fun r => (o_mean r, o_sd r)) (somes (grun RG fuel o ops)) = gparams (go_mean o) (go_sd o) ops.
Proof. exact (gauss_history_params fuel ops). Qed.
Print Assumptions C31_gauss_history_params.

Theorem C31_gauss_reseed_clears_cache fuel o us t :
  grun RG fuel o (GSetSeed us :: GGet :: t) =
  match polar RG fuel us with
  | Some (x, y, m, rest) =>
      Some (mkGOut (go_mean o) (go_sd o) (x * m) (go_mean o + go_sd o * x * m))
      :: grun RG fuel (mkGO (go_mean o) (go_sd o) (Some (y * m)) rest) t
  | None => [None]
  end.
Proof. exact (gauss_reseed_clears_cache fuel o us t). Qed.
Print Assumptions C31_gauss_reseed_clears_cache.

Theorem C31_gget_matches_gauss_value fuel o :
  match gget RG fuel o, gauss_value RG fuel (go_mean o) (go_sd o) (go_cache o) (go_us o) with
  | Some (r, o'), Some (v, c, rest) => o_val r = v /\ go_cache o' = c /\ go_us o' = rest
  | None, None => True
  | _, _ => False
  end.
Proof. exact (gget_matches_gauss_value fuel o). Qed.
Print Assumptions C31_gget_matches_gauss_value.

Theorem C31_gauss_history_example :
  let o := mkGO 10 2 None [1 / 2; 3 / 4] in
  exists z1 z2, grun RG 4 o [GGet; GSetMean 100; GSetSd 0; GGet]
    = [Some (mkGOut 10 2 z1 (10 + 2 * 0 * multiplier RG 0 (1 / 2))); Some (mkGOut 100 0 z2 (100 + 0 * z2))].
Proof. exact (@gauss_history_example). Qed.
Print Assumptions C31_gauss_history_example.


(* proved inside a Section of C31_Proofs.v for an arbitrary number type T and operations G *)
Theorem C31_gauss_history_deviates_independent (T : Type) (G : GOps T) fuel ops : forall o m s,
  map (@o_dev T) (somes (grun G fuel o ops)) =
  map (@o_dev T) (somes (grun G fuel (mkGO m s (go_cache o) (go_us o)) (gerase ops))).
Proof. exact (gauss_history_deviates_independent G fuel ops). Qed.
Print Assumptions C31_gauss_history_deviates_independent.
