(** C32 property theorems: statements only, each closed by [exact]; proofs are in C32/C32_Proofs.v,
    the model in C32/C32_Model.v (tied to /repo by the exact correspondence run of checks/C32.py).
    libc's number formatting/parsing appears only as explicitly quantified functions with the stated
    hypotheses (strto = strtod/strtof behind operator>>, fmt = snprintf with "%.17g"/"%.9g"). *)
From Coq Require Import NArith ZArith List Bool Lia.
Require Import C32_Model C32_Proofs.
Import ListNotations.
Local Open Scope N_scope.

Theorem C32_trim_decompose s :
  exists l r, s = l ++ trim s ++ r /\ all_space l = true /\ all_space r = true.
Proof. exact (trim_decompose s). Qed.
Print Assumptions C32_trim_decompose.

Theorem C32_trim_of_padded l m r c t :
  m = c :: t -> is_space c = false -> is_space (last m c) = false ->
  all_space l = true -> all_space r = true -> trim (l ++ m ++ r) = m.
Proof. exact (trim_of_padded l m r c t). Qed.
Print Assumptions C32_trim_of_padded.

Theorem C32_int_accepts_iff_denotes s z : conv_int s = Some z <-> int_denotes s z.
Proof. exact (int_accepts_iff_denotes s z). Qed.
Print Assumptions C32_int_accepts_iff_denotes.

Theorem C32_bool_accepts_iff_denotes s b : conv_bool s = Some b <-> bool_denotes s b.
Proof. exact (bool_accepts_iff_denotes s b). Qed.
Print Assumptions C32_bool_accepts_iff_denotes.

Theorem C32_bool_values_roundtrip b : conv_bool (print_bool b) = Some b.
Proof. exact (bool_values_roundtrip b). Qed.
Print Assumptions C32_bool_values_roundtrip.

Theorem C32_unformatted_roundtrip_bool_fixed (t : tree bool) : wf bool t ->
  read_fixed _ conv_bool (shape_of _ t) (open_stream (write _ print_bool t)) = Some (t, mkS [] true).
Proof. exact (unformatted_roundtrip_bool_fixed t). Qed.
Print Assumptions C32_unformatted_roundtrip_bool_fixed.

Theorem C32_array_trailing_space_refuted :
  exists s l, read_array bool conv_bool SLeaf s = Some l /\ read_array bool conv_bool SLeaf (s ++ [32]) = None.
Proof. exact (@array_trailing_space_refuted). Qed.
Print Assumptions C32_array_trailing_space_refuted.

Theorem C32_int_example : conv_int [32; 43; 49; 50; 9] = Some 12%Z /\ int_denotes [32; 43; 49; 50; 9] 12%Z.
Proof. exact (@int_example). Qed.
Print Assumptions C32_int_example.

Theorem C32_int_rejects : conv_int [49; 50; 120] = None /\ conv_int [50; 49; 52; 55; 52; 56; 51; 54; 52; 56] = None
                      /\ conv_int [45; 50; 49; 52; 55; 52; 56; 51; 54; 52; 56] = Some (-2147483648)%Z.
Proof. exact (@int_rejects). Qed.
Print Assumptions C32_int_rejects.

Theorem C32_bool_example : conv_bool [32; 84; 82; 117; 69; 10] = Some true /\ conv_bool [45; 48; 48] = Some false
                       /\ conv_bool [49; 120] = None /\ conv_bool [50] = None.
Proof. exact (@bool_example). Qed.
Print Assumptions C32_bool_example.

Theorem C32_float_example (strto : str -> option Z) :
  conv_float Z strto [32; 45; 73; 110; 70; 105; 110; 105; 116; 121] = Some FNInf /\
  conv_float Z strto [43; 110; 97; 110] = None /\
  conv_float Z strto [49; 46; 53; 97; 98; 99] = None /\
  conv_float Z strto [49; 101] = None /\
  conv_float Z strto [46; 53; 69; 45; 51] = match strto [46; 53; 101; 45; 51] with Some x => Some (FFin x) | None => None end.
Proof. exact (float_example strto). Qed.
Print Assumptions C32_float_example.

Theorem C32_tree_example :
  let t := Node 10 [Node 32 [Leaf true; Leaf false]; Node 32 [Leaf false; Leaf true]] in
  write bool print_bool t = [116;114;117;101; 32; 102;97;108;115;101; 10; 102;97;108;115;101; 32; 116;114;117;101]
  /\ wf bool t.
Proof. exact (@tree_example). Qed.
Print Assumptions C32_tree_example.


(* ---- statements proved inside Sections of C32_Proofs.v: the Section variables and hypotheses are explicit here *)
Theorem C32_float_accepts_iff_denotes (F : Type) (strto : str -> option F) (s : str) (v : fval F) :
  conv_float F strto s = Some v <-> float_denotes F strto s v.
Proof. exact (float_accepts_iff_denotes F strto (fun _ => []) s v). Qed.
Print Assumptions C32_float_accepts_iff_denotes.

Theorem C32_special_values_roundtrip (F : Type) (strto : str -> option F) (fmt : F -> str) :
  conv_float F strto (print_float F fmt FNaN) = Some FNaN /\
  conv_float F strto (print_float F fmt FPInf) = Some FPInf /\
  conv_float F strto (print_float F fmt FNInf) = Some FNInf.
Proof. exact (special_values_roundtrip F strto fmt). Qed.
Print Assumptions C32_special_values_roundtrip.

Theorem C32_finite_values_roundtrip (F : Type) (strto : str -> option F) (fmt : F -> str) :
  (forall x, is_float_lit (clean (fmt x)) = true) ->
  (forall x, strto (clean (fmt x)) = Some x) ->
  forall v, conv_float F strto (print_float F fmt v) = Some v.
Proof. exact (finite_values_roundtrip F strto fmt). Qed.
Print Assumptions C32_finite_values_roundtrip.

Theorem C32_unformatted_roundtrip_fixed (A : Type) (print : A -> str) (parse : str -> option A) :
  (forall x, parse (print x) = Some x) -> (forall x, print x <> []) ->
  (forall x c, In c (print x) -> is_space c = false) ->
  forall t, wf A t ->
  read_fixed A parse (shape_of A t) (open_stream (write A print t)) = Some (t, mkS [] true).
Proof. exact (unformatted_roundtrip_fixed A print parse). Qed.
Print Assumptions C32_unformatted_roundtrip_fixed.

Theorem C32_unformatted_roundtrip_embedded (A : Type) (print : A -> str) (parse : str -> option A) :
  (forall x, parse (print x) = Some x) -> (forall x, print x <> []) ->
  (forall x c, In c (print x) -> is_space c = false) ->
  forall t, wf A t -> forall pre tl, all_space pre = true -> tail_ok tl ->
  read_fixed A parse (shape_of A t) (mkS (pre ++ write A print t ++ tl) false) = Some (t, mkS tl (is_nil tl)).
Proof. exact (read_fixed_written A print parse). Qed.
Print Assumptions C32_unformatted_roundtrip_embedded.

Theorem C32_unformatted_roundtrip_array (A : Type) (print : A -> str) (parse : str -> option A) :
  (forall x, parse (print x) = Some x) -> (forall x, print x <> []) ->
  (forall x c, In c (print x) -> is_space c = false) ->
  forall sh l, Forall (wf A) l -> (forall t, In t l -> shape_of A t = sh) ->
  read_array A parse sh (write_array A print l) = Some l.
Proof. exact (unformatted_roundtrip_array A print parse). Qed.
Print Assumptions C32_unformatted_roundtrip_array.

Theorem C32_unformatted_roundtrip_floating_fixed (F : Type) (strto : str -> option F) (fmt : F -> str) :
  (forall x, is_float_lit (clean (fmt x)) = true) -> (forall x, strto (clean (fmt x)) = Some x) ->
  (forall x, fmt x <> []) -> (forall x c, In c (fmt x) -> is_space c = false) ->
  forall t : tree (fval F), wf (fval F) t ->
  read_fixed _ (conv_float F strto) (shape_of _ t) (open_stream (write _ (print_float F fmt) t)) = Some (t, mkS [] true).
Proof. exact (unformatted_roundtrip_floating_fixed F strto fmt). Qed.
Print Assumptions C32_unformatted_roundtrip_floating_fixed.

Theorem C32_unformatted_roundtrip_floating_array (F : Type) (strto : str -> option F) (fmt : F -> str) :
  (forall x, is_float_lit (clean (fmt x)) = true) -> (forall x, strto (clean (fmt x)) = Some x) ->
  (forall x, fmt x <> []) -> (forall x c, In c (fmt x) -> is_space c = false) ->
  forall sh (l : list (tree (fval F))), Forall (wf (fval F)) l -> (forall t, In t l -> shape_of _ t = sh) ->
  read_array _ (conv_float F strto) sh (write_array _ (print_float F fmt) l) = Some l.
Proof. exact (unformatted_roundtrip_floating_array F strto fmt). Qed.
Print Assumptions C32_unformatted_roundtrip_floating_array.


Theorem C32_float_literal_syntax a : is_float_lit a = true <-> float_syntax a.
Proof. exact (float_literal_syntax a). Qed.
Print Assumptions C32_float_literal_syntax.

Theorem C32_float_accepts_iff_syntax (F : Type) (strto : str -> option F) s v :
  conv_float F strto s = Some v <->
  exists l m r, s = l ++ m ++ r /\ all_space l = true /\ all_space r = true /\
    ((to_lower m = s_nan /\ v = FNaN) \/
     (In (to_lower m) pinf_words /\ v = FPInf) \/
     (In (to_lower m) ninf_words /\ v = FNInf) \/
     (float_syntax (to_lower m) /\ exists x, strto (to_lower m) = Some x /\ v = FFin x)).
Proof. exact (float_accepts_iff_syntax F strto s v). Qed.
Print Assumptions C32_float_accepts_iff_syntax.

Theorem C32_int_values_roundtrip z : (int_min <= z <= int_max)%Z -> conv_int (print_int z) = Some z.
Proof. exact (int_values_roundtrip z). Qed.
Print Assumptions C32_int_values_roundtrip.

(* ---- XML character data (TinyXML EncodeString / GetEntity / ReadText as used by Xml.cpp) *)
Theorem C32_xml_char_roundtrip utf8 cw kq c rest :
  get_char utf8 (enc1 cw kq c ++ rest) = Some ([c], rest).
Proof. exact (xml_char_roundtrip utf8 cw kq c rest). Qed.
Print Assumptions C32_xml_char_roundtrip.

Theorem C32_xml_control_reference_roundtrip utf8 kq c rest : 1 <= c < 32 ->
  enc1 true kq c = [38; 35; 120; hex_upper (c / 16); hex_upper (c mod 16); 59] /\
  get_entity utf8 ([35; 120; hex_upper (c / 16); hex_upper (c mod 16); 59] ++ rest) = Some ([c], rest).
Proof. exact (xml_control_reference_roundtrip utf8 kq c rest). Qed.
Print Assumptions C32_xml_control_reference_roundtrip.

Theorem C32_xml_hex_digit_case c : 65 <= c <= 70 -> hex_digit c = Some (c - 55) /\ hex_digit (c + 32) = Some (c - 55).
Proof. exact (xml_hex_digit_case c). Qed.
Print Assumptions C32_xml_hex_digit_case.

Theorem C32_xml_attribute_roundtrip utf8 cw q s rest : no_ref s = true -> q = 34 \/ q = 39 ->
  xml_read_attr utf8 q (xml_encode cw false s ++ q :: rest) = Some s.
Proof. exact (xml_attribute_roundtrip utf8 cw q s rest). Qed.
Print Assumptions C32_xml_attribute_roundtrip.

Theorem C32_xml_text_roundtrip_keep utf8 s rest : no_ref s = true -> all_space s = false ->
  xml_read_text false utf8 (xml_encode false true s ++ 60 :: rest) = Some s.
Proof. exact (xml_text_roundtrip_keep utf8 s rest). Qed.
Print Assumptions C32_xml_text_roundtrip_keep.

Theorem C32_xml_roundtrip_refuted :
  xml_read_attr true 34 (xml_encode true false [38; 35; 120; 52; 49; 59] ++ [34; 32; 47; 62]) = Some [65] /\
  xml_read_attr true 34 (xml_encode true false [97; 38; 35; 120] ++ [34; 32; 47; 62]) = None.
Proof. exact (@xml_roundtrip_refuted). Qed.
Print Assumptions C32_xml_roundtrip_refuted.

Theorem C32_xml_blank_text_refuted : xml_read_text true true (xml_encode true true [9] ++ [60; 47; 114; 62]) = Some [] /\
                               xml_read_text false true (xml_encode false true [32] ++ [60; 47; 114; 62]) = Some [].
Proof. exact (@xml_blank_text_refuted). Qed.
Print Assumptions C32_xml_blank_text_refuted.

Theorem C32_xml_reference_examples :
  xml_read_attr true 34 ([38;35;120;48;97;59; 38;35;120;48;65;59; 38;35;49;48;59] ++ [34]) = Some [10; 10; 10] /\
  xml_read_text true true ([32; 97; 32; 32; 38;35;120;48;65;59; 98; 32] ++ [60]) = Some [97; 32; 10; 98] /\
  xml_read_attr true 34 ([38;35;50;51;51;59] ++ [34]) = Some [195; 169] /\
  xml_read_attr false 34 ([38;35;50;51;51;59] ++ [34]) = Some [233] /\
  xml_read_attr true 34 ([38;35;120;90;59] ++ [34]) = None /\
  xml_read_attr true 34 ([38;35] ++ [34; 62; 60; 47; 114; 62]) = None.
Proof. exact (@xml_reference_examples). Qed.
Print Assumptions C32_xml_reference_examples.
