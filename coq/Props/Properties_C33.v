(** C33 property theorems, part (i): index functions of ParallelExecutor / Parallel2DExecutor.
    Statements only, each closed by [exact]; proofs are in C33/C33_IndexProofs.v, the model in C33/C33_Index.v
    (tied to the code by the correspondence run of checks/C33.py). *)
From Coq Require Import Arith List Bool Permutation Sorted.
Import ListNotations.
Require Import C33_Index C33_IndexProofs C33_Compose.

Theorem C33_stripe_spec t T n i : T > 0 -> (In i (stripe t T n) <-> i < n /\ exists k, i = t + k * T).
Proof. exact (stripe_spec t T n i). Qed.
Print Assumptions C33_stripe_spec.

Theorem C33_stripe_increasing t T n : T > 0 -> StronglySorted lt (stripe t T n).
Proof. exact (stripe_increasing t T n). Qed.
Print Assumptions C33_stripe_increasing.

Theorem C33_stripes_partition n T : T > 0 ->
  Permutation (concat (map (fun t => stripe t T n) (seq 0 T))) (seq 0 n).
Proof. exact (stripes_partition n T). Qed.
Print Assumptions C33_stripes_partition.

Theorem C33_pe_workers_partition m n : m > 0 -> Permutation (concat (pe_workers m n)) (seq 0 n).
Proof. exact (pe_workers_partition m n). Qed.
Print Assumptions C33_pe_workers_partition.

Theorem C33_stripes_nonvac : concat (map (fun t => stripe t 3 10) (seq 0 3)) = [0;3;6;9;1;4;7;2;5;8].
Proof. exact (@stripes_nonvac). Qed.
Print Assumptions C33_stripes_nonvac.

Theorem C33_pe_workers_nonvac : pe_workers 4 10 = [[0;4;8];[1;5;9];[2;6];[3;7]] /\ pe_workers 1 3 = [[0;1;2]].
Proof. exact (@pe_workers_nonvac). Qed.
Print Assumptions C33_pe_workers_nonvac.

Theorem C33_binStart_monotone_covers bins n : bins > 0 ->
  binStart bins n 0 = 0 /\ binStart bins n bins = n /\
  forall i j, i <= j -> binStart bins n i <= binStart bins n j.
Proof. exact (binStart_monotone_covers bins n). Qed.
Print Assumptions C33_binStart_monotone_covers.

Theorem C33_addSquare_bounds level : forall x y p q x' y',
  In (q, (x', y')) (addSquare x y p level) ->
  x * 2 ^ level <= x' < (x + 1) * 2 ^ level /\
  (y + 1) * 2 ^ level <= y' + 1 < (y + 2) * 2 ^ level /\
  (p + 1) * 2 ^ level <= q + 1 < (p + 2) * 2 ^ level.
Proof. exact (addSquare_bounds level). Qed.
Print Assumptions C33_addSquare_bounds.

Theorem C33_addTriangle_pass_bounds levels q xy :
  In (q, xy) (addTriangle 0 0 0 levels) -> 1 <= q /\ q + 2 <= 2 ^ levels.
Proof. exact (addTriangle_pass_bounds levels q xy). Qed.
Print Assumptions C33_addTriangle_pass_bounds.

Theorem C33_squares_bins_in_table levels i x y :
  In (x, y) (squares_of levels i) -> x < y + 1 /\ y + 2 <= 2 ^ levels.
Proof. exact (squares_bins_in_table levels i x y). Qed.
Print Assumptions C33_squares_bins_in_table.

Theorem C33_p2d_par_cover_exactly_once levels n rt p : levels >= 1 ->
  cnt (concat (concat (p2d_par levels n rt))) p = if in_range n rt p then 1 else 0.
Proof. exact (p2d_par_cover_exactly_once levels n rt p). Qed.
Print Assumptions C33_p2d_par_cover_exactly_once.

Theorem C33_p2d_cover_exactly_once gridSize np rt p :
  cnt (concat (concat (p2d_passes gridSize np rt))) p = if in_range gridSize rt p then 1 else 0.
Proof. exact (p2d_cover_exactly_once gridSize np rt p). Qed.
Print Assumptions C33_p2d_cover_exactly_once.

Theorem C33_p2d_ext_cover_exactly_once gridSize nproc rt p : nproc >= 2 ->
  cnt (concat (concat (p2d_passes_ext gridSize nproc rt))) p = if in_range gridSize rt p then 1 else 0.
Proof. exact (p2d_ext_cover_exactly_once gridSize nproc rt p). Qed.
Print Assumptions C33_p2d_ext_cover_exactly_once.

Theorem C33_p2d_ext_single_processor_refuted :
  exists gridSize rt p, in_range gridSize rt p = true /\ cnt (concat (concat (p2d_passes_ext gridSize 1 rt))) p = 0.
Proof. exact (@p2d_ext_single_processor_refuted). Qed.
Print Assumptions C33_p2d_ext_single_processor_refuted.

Theorem C33_p2d_pairs_nodup gridSize np rt : NoDup (concat (concat (p2d_passes gridSize np rt))).
Proof. exact (p2d_pairs_nodup gridSize np rt). Qed.
Print Assumptions C33_p2d_pairs_nodup.

Theorem C33_p2d_pairs_in gridSize np rt p :
  In p (concat (concat (p2d_passes gridSize np rt))) <-> in_range gridSize rt p = true.
Proof. exact (p2d_pairs_in gridSize np rt p). Qed.
Print Assumptions C33_p2d_pairs_in.

Theorem C33_p2d_nonvac : length (concat (concat (p2d_passes 9 4 HalfMatrix))) = 36.
Proof. exact (@p2d_nonvac). Qed.
Print Assumptions C33_p2d_nonvac.

Theorem C33_p2d_nonvac_full : length (concat (concat (p2d_passes 9 4 FullMatrix))) = 81.
Proof. exact (@p2d_nonvac_full). Qed.
Print Assumptions C33_p2d_nonvac_full.

Theorem C33_p2d_nonvac_hpd : length (concat (concat (p2d_passes 9 4 HalfPlusDiagonal))) = 45.
Proof. exact (@p2d_nonvac_hpd). Qed.
Print Assumptions C33_p2d_nonvac_hpd.

Theorem C33_p2d_par_nonvac : length (concat (concat (p2d_par 3 11 HalfMatrix))) = 55 /\ length (p2d_par 3 11 HalfMatrix) = 8.
Proof. exact (@p2d_par_nonvac). Qed.
Print Assumptions C33_p2d_par_nonvac.

Theorem C33_p2d_ext_nonvac : length (concat (concat (p2d_passes_ext 7 2 FullMatrix))) = 49.
Proof. exact (@p2d_ext_nonvac). Qed.
Print Assumptions C33_p2d_ext_nonvac.

Theorem C33_p2d_par_same_pass_disjoint levels n rt pass a b ta tb p q : levels >= 1 ->
  In pass (p2d_par levels n rt) -> a <> b ->
  nth_error pass a = Some ta -> nth_error pass b = Some tb ->
  In p ta -> In q tb -> share_index p q = false.
Proof. exact (p2d_par_same_pass_disjoint levels n rt pass a b ta tb p q). Qed.
Print Assumptions C33_p2d_par_same_pass_disjoint.

Theorem C33_p2d_same_pass_tasks_disjoint_indices gridSize np rt pass a b ta tb p q :
  In pass (p2d_passes gridSize np rt) -> a <> b ->
  nth_error pass a = Some ta -> nth_error pass b = Some tb ->
  In p ta -> In q tb -> share_index p q = false.
Proof. exact (p2d_same_pass_tasks_disjoint_indices gridSize np rt pass a b ta tb p q). Qed.
Print Assumptions C33_p2d_same_pass_tasks_disjoint_indices.

Theorem C33_p2d_ext_same_pass_tasks_disjoint_indices gridSize nproc rt pass a b ta tb p q : nproc >= 2 ->
  In pass (p2d_passes_ext gridSize nproc rt) -> a <> b ->
  nth_error pass a = Some ta -> nth_error pass b = Some tb ->
  In p ta -> In q tb -> share_index p q = false.
Proof. exact (p2d_ext_same_pass_tasks_disjoint_indices gridSize nproc rt pass a b ta tb p q). Qed.
Print Assumptions C33_p2d_ext_same_pass_tasks_disjoint_indices.

Theorem C33_p2d_disjoint_nonvac :
  exists pass ta tb, In pass (p2d_passes 9 4 HalfMatrix) /\
    nth_error pass 0 = Some ta /\ nth_error pass 1 = Some tb /\ ta <> [] /\ tb <> [] /\
    forallb (fun p => forallb (fun q => negb (share_index p q)) tb) ta = true.
Proof. exact (@p2d_disjoint_nonvac). Qed.
Print Assumptions C33_p2d_disjoint_nonvac.

Theorem C33_p2d_triangle_pass_nonvac :
  map (@length _) (hd [] (p2d_passes 9 4 HalfMatrix)) = [1; 3; 1; 1].
Proof. exact (@p2d_triangle_pass_nonvac). Qed.
Print Assumptions C33_p2d_triangle_pass_nonvac.

Theorem C33_binStart_nonvac : map (binStart 8 9) (seq 0 9) = [0; 1; 2; 3; 5; 6; 7; 8; 9].
Proof. exact (@binStart_nonvac). Qed.
Print Assumptions C33_binStart_nonvac.

Theorem C33_squares_nonvac :
  squares_of 3 0 = [(0, 1); (1, 2); (4, 5); (5, 6)] /\ squares_of 3 5 = [(0, 6); (1, 5); (2, 4); (3, 3)] /\ squares_of 3 6 = [].
Proof. exact (@squares_nonvac). Qed.
Print Assumptions C33_squares_nonvac.



Theorem C33_p2d_different_workers_never_share_an_index gridSize np rt T pass w1 w2 k1 k2 ta tb p q :
  In pass (p2d_passes gridSize np rt) ->
  w1 < T -> w2 < T -> w1 <> w2 ->
  In k1 (stripe w1 T (length pass)) -> In k2 (stripe w2 T (length pass)) ->
  nth_error pass k1 = Some ta -> nth_error pass k2 = Some tb ->
  In p ta -> In q tb -> share_index p q = false.
Proof. exact (@p2d_different_workers_never_share_an_index gridSize np rt T pass w1 w2 k1 k2 ta tb p q). Qed.
Print Assumptions C33_p2d_different_workers_never_share_an_index.

Theorem C33_p2d_ext_different_workers_never_share_an_index gridSize nproc rt T pass w1 w2 k1 k2 ta tb p q :
  nproc >= 2 -> In pass (p2d_passes_ext gridSize nproc rt) ->
  w1 < T -> w2 < T -> w1 <> w2 ->
  In k1 (stripe w1 T (length pass)) -> In k2 (stripe w2 T (length pass)) ->
  nth_error pass k1 = Some ta -> nth_error pass k2 = Some tb ->
  In p ta -> In q tb -> share_index p q = false.
Proof. exact (@p2d_ext_different_workers_never_share_an_index gridSize nproc rt T pass w1 w2 k1 k2 ta tb p q). Qed.
Print Assumptions C33_p2d_ext_different_workers_never_share_an_index.

Theorem C33_p2d_workers_nonvac :
  exists pass ta tb, nth_error (p2d_passes 9 4 HalfMatrix) 1 = Some pass /\
    In 0 (stripe 0 2 (length pass)) /\ In 1 (stripe 1 2 (length pass)) /\
    nth_error pass 0 = Some ta /\ nth_error pass 1 = Some tb /\ ta <> [] /\ tb <> [].
Proof. exact (@p2d_workers_nonvac). Qed.
Print Assumptions C33_p2d_workers_nonvac.

