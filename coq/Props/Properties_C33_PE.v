(** C33 property theorems, part (ii): lock / condition-variable protocol of ParallelExecutor (and of every pass of
    Parallel2DExecutor), for any number T of workers, any list of task counts, every interleaving of the model.
    Statements only, each closed by [exact]; proofs in C33/C33_PEProofs.v, model in C33/C33_PE.v (tied to the code
    by hook-trace inclusion, checks/C33.py). *)
From Coq Require Import Arith List Bool.
Import ListNotations.
Require Import C33_Lib C33_Index C33_PE C33_PEProofs.

Theorem C33_pe_enabled_sound s e s' : In (e, s') (enabled s) -> fire s e = Some s'.
Proof. exact (@pe_enabled_sound s e s'). Qed.
Print Assumptions C33_pe_enabled_sound.

Theorem C33_pe_enabled_complete s e s' : fire s e = Some s' -> In (e, s') (enabled s).
Proof. exact (@pe_enabled_complete s e s'). Qed.
Print Assumptions C33_pe_enabled_complete.

Theorem C33_pe_mutex_exclusive T td tr s :
  run T td tr s ->
  nthreads s = T /\
  (forall w, mtx s = Some (W w) <-> (w < T /\ in_cs (pcw s w) = true)) /\
  (mtx s = Some Main <-> m_in_cs (mp s) = true).
Proof. exact (@pe_mutex_exclusive T td tr s). Qed.
Print Assumptions C33_pe_mutex_exclusive.

Theorem C33_pe_finish_mutually_exclusive T td tr s w1 w2 :
  run T td tr s -> w1 < T -> w2 < T -> pcw s w1 = WInFin -> pcw s w2 = WInFin ->
  w1 = w2 /\ mtx s = Some (W w1).
Proof. exact (@pe_finish_mutually_exclusive T td tr s w1 w2). Qed.
Print Assumptions C33_pe_finish_mutually_exclusive.

Theorem C33_pe_finish_mutually_exclusive_trace T td tr s w :
  run T td ((W w, AFinB) :: tr) s -> forall w', fin_open tr w' = false.
Proof. exact (@pe_finish_mutually_exclusive_trace T td tr s w). Qed.
Print Assumptions C33_pe_finish_mutually_exclusive_trace.

Theorem C33_pe_init_before_exec_before_finish_per_worker T td tr s w :
  run T td tr s -> w < T -> wphase tr w <> PhBad.
Proof. exact (@pe_init_before_exec_before_finish_per_worker T td tr s w). Qed.
Print Assumptions C33_pe_init_before_exec_before_finish_per_worker.

Theorem C33_pe_execute_state T td tr s :
  run T td tr s -> mp s = MWaitDone \/ mp s = MRet ->
  waiting s = T /\
  forall w, w < T -> done s w = true /\ runw s w = false /\ quiet (pcw s w) = true /\ wphase tr w = PhIdle.
Proof. exact (@pe_execute_state T td tr s). Qed.
Print Assumptions C33_pe_execute_state.

Theorem C33_pe_execute_returns_only_when_all_finished T td tr s :
  run T td ((Main, MExecEnd) :: tr) s ->
  waiting s = T /\
  forall w, w < T -> wphase tr w = PhIdle /\ runw s w = false /\ quiet (pcw s w) = true.
Proof. exact (@pe_execute_returns_only_when_all_finished T td tr s). Qed.
Print Assumptions C33_pe_execute_returns_only_when_all_finished.

Theorem C33_pe_no_deadlock T td tr s :
  run T td tr s -> final s = false ->
  exists e s', In (e, s') (enabled s) /\ is_spurious (snd e) = false.
Proof. exact (@pe_no_deadlock T td tr s). Qed.
Print Assumptions C33_pe_no_deadlock.

Theorem C33_pe_accepts_sound T td evs s fired :
  accepts_from (init T td) [] [] evs = Some (s, fired) -> run T td fired s.
Proof. exact (@pe_accepts_sound T td evs s fired). Qed.
Print Assumptions C33_pe_accepts_sound.

Theorem C33_pe_accepts_sound_ex T td evs : accepts T td evs = true -> exists tr s, run T td tr s.
Proof. exact (@pe_accepts_sound_ex T td evs). Qed.
Print Assumptions C33_pe_accepts_sound_ex.

Theorem C33_pe_accepts_complete_sound T td evs :
  accepts_complete T td evs = true -> exists tr s, run T td tr s /\ final s = true.
Proof. exact (@pe_accepts_complete_sound T td evs). Qed.
Print Assumptions C33_pe_accepts_complete_sound.

Theorem C33_pe_demo_accepted : accepts_complete 2 [3] demo_trace = true.
Proof. exact (@pe_demo_accepted). Qed.
Print Assumptions C33_pe_demo_accepted.

Theorem C33_pe_demo_round : exists tr s, run 2 [3] ((Main, MExecEnd) :: tr) s.
Proof. exact (@pe_demo_round). Qed.
Print Assumptions C33_pe_demo_round.

Theorem C33_pe_round_executes_stripes T td tr s :
  run T td ((Main, MExecEnd) :: tr) s ->
  exists n, last_begin tr = Some n /\
            forall w, w < T -> wtask w (round_events tr) = AInit :: map AExec (stripe w T n) ++ [AFinB; AFinE].
Proof. exact (@pe_round_executes_stripes T td tr s). Qed.
Print Assumptions C33_pe_round_executes_stripes.

Theorem C33_pe_demo_stripes :
  match accepts_from (init 2 [3]) [] [] (firstn 40 demo_trace) with
  | Some (_, e :: tr) =>
      e = (Main, MExecEnd) /\ last_begin tr = Some 3 /\
      wtask 0 (round_events tr) = [AInit; AExec 0; AExec 2; AFinB; AFinE] /\
      wtask 1 (round_events tr) = [AInit; AExec 1; AFinB; AFinE] /\
      full 0 2 3 = [AInit; AExec 0; AExec 2; AFinB; AFinE] /\ full 1 2 3 = [AInit; AExec 1; AFinB; AFinE]
  | _ => False
  end.
Proof. exact (@pe_demo_stripes). Qed.
Print Assumptions C33_pe_demo_stripes.

