(** C33 property theorems, part (ii): lock / condition-variable protocol of ParallelWorkQueue, for any number T of
    workers, any queue size, any producer program of addTask/flush calls, every interleaving of the model.
    Statements only, each closed by [exact]; proofs in C33/C33_WQProofs.v, model in C33/C33_WQ.v (tied to the code
    by hook-trace inclusion, checks/C33.py). *)
From Coq Require Import Arith List Bool Permutation.
Import ListNotations.
Require Import C33_Lib C33_WQ C33_WQProofs.

Theorem C33_wq_enabled_complete s e s' : fire s e = Some s' -> In (e, s') (enabled s).
Proof. exact (@wq_enabled_complete s e s'). Qed.
Print Assumptions C33_wq_enabled_complete.

Theorem C33_wq_enabled_sound s e s' : In (e, s') (enabled s) -> fire s e = Some s'.
Proof. exact (@wq_enabled_sound s e s'). Qed.
Print Assumptions C33_wq_enabled_sound.

Theorem C33_wq_sizes T qs pr tr s : run T qs pr tr s -> nthreads s = T /\ qsize s = qs.
Proof. exact (@wq_sizes T qs pr tr s). Qed.
Print Assumptions C33_wq_sizes.

Theorem C33_wq_mutex_exclusive T qs pr tr s :
  run T qs pr tr s ->
  (forall w, mtx s = Some (W w) <-> (w < T /\ holds (pcw s w) = true)) /\
  (mtx s = Some Prod <-> pholds (pp s) = true).
Proof. exact (@wq_mutex_exclusive T qs pr tr s). Qed.
Print Assumptions C33_wq_mutex_exclusive.

Theorem C33_wq_mutex_at_most_one T qs pr tr s :
  run T qs pr tr s ->
  (forall w1 w2, w1 < T -> w2 < T -> holds (pcw s w1) = true -> holds (pcw s w2) = true -> w1 = w2) /\
  (forall w, w < T -> holds (pcw s w) = true -> pholds (pp s) = false).
Proof. exact (@wq_mutex_at_most_one T qs pr tr s). Qed.
Print Assumptions C33_wq_mutex_at_most_one.

Theorem C33_wq_each_task_accounted T qs pr tr s :
  run T qs pr tr s ->
  forall id,
    cnt (adds (prog s)) id + inflight (pp s) id + cnt (queue s) id
      + countb (fun w => heldpre id (pcw s w)) T + cnt (executed s) id = cnt (adds pr) id
    /\ cnt (executed s) id = countb (fun w => isdel id (pcw s w)) T + cnt (deleted s) id.
Proof. exact (@wq_each_task_accounted T qs pr tr s). Qed.
Print Assumptions C33_wq_each_task_accounted.

Theorem C33_wq_never_more_than_added T qs pr tr s :
  run T qs pr tr s ->
  forall id, cnt (deleted s) id <= cnt (executed s) id /\ cnt (executed s) id <= cnt (adds pr) id.
Proof. exact (@wq_never_more_than_added T qs pr tr s). Qed.
Print Assumptions C33_wq_never_more_than_added.

Theorem C33_wq_executed_were_added T qs pr tr s :
  run T qs pr tr s -> forall id, In id (executed s) -> In id (adds pr).
Proof. exact (@wq_executed_were_added T qs pr tr s). Qed.
Print Assumptions C33_wq_executed_were_added.

Theorem C33_wq_pending_counts T qs pr tr s :
  run T qs pr tr s -> pending s = length (queue s) + countb (fun w => counted (pcw s w)) T.
Proof. exact (@wq_pending_counts T qs pr tr s). Qed.
Print Assumptions C33_wq_pending_counts.

Theorem C33_wq_flush_unlock_pending0 T qs pr tr s : run T qs pr tr s -> pp s = PFUnlock -> pending s = 0.
Proof. exact (@wq_flush_unlock_pending0 T qs pr tr s). Qed.
Print Assumptions C33_wq_flush_unlock_pending0.

Theorem C33_wq_flush_returns_only_when_done T qs pr tr s :
  run T qs pr ((Prod, PFUnlockA) :: tr) s ->
  pending s = 0 /\ queue s = [] /\
  forall id, cnt (deleted s) id + cnt (adds (prog s)) id = cnt (adds pr) id
             /\ cnt (executed s) id = cnt (deleted s) id.
Proof. exact (@wq_flush_returns_only_when_done T qs pr tr s). Qed.
Print Assumptions C33_wq_flush_returns_only_when_done.

Theorem C33_wq_destructor_drains T qs pr tr s :
  T >= 1 -> run T qs pr tr s -> final s = true ->
  queue s = [] /\ pending s = 0 /\ Permutation (executed s) (adds pr) /\ Permutation (deleted s) (adds pr).
Proof. exact (@wq_destructor_drains T qs pr tr s). Qed.
Print Assumptions C33_wq_destructor_drains.

Theorem C33_wq_each_task_exactly_once T qs pr tr s :
  NoDup (adds pr) -> T >= 1 -> run T qs pr tr s -> final s = true ->
  NoDup (executed s) /\ NoDup (deleted s) /\ (forall id, In id (executed s) <-> In id (adds pr)).
Proof. exact (@wq_each_task_exactly_once T qs pr tr s). Qed.
Print Assumptions C33_wq_each_task_exactly_once.

Theorem C33_wq_no_deadlock T qs pr tr s :
  T >= 1 -> qs >= 1 -> run T qs pr tr s -> final s = false ->
  exists e s', In (e, s') (enabled s) /\ is_spurious (snd e) = false.
Proof. exact (@wq_no_deadlock T qs pr tr s). Qed.
Print Assumptions C33_wq_no_deadlock.

Theorem C33_wq_accepts_sound T qs pr evs s fired :
  accepts_from (init T qs pr) [] [] evs = Some (s, fired) -> run T qs pr fired s.
Proof. exact (@wq_accepts_sound T qs pr evs s fired). Qed.
Print Assumptions C33_wq_accepts_sound.

Theorem C33_wq_accepts_run T qs pr evs : accepts T qs pr evs = true -> exists tr s, run T qs pr tr s.
Proof. exact (@wq_accepts_run T qs pr evs). Qed.
Print Assumptions C33_wq_accepts_run.

Theorem C33_wq_accepts_complete_run T qs pr evs :
  accepts_complete T qs pr evs = true -> exists tr s, run T qs pr tr s /\ final s = true.
Proof. exact (@wq_accepts_complete_run T qs pr evs). Qed.
Print Assumptions C33_wq_accepts_complete_run.

Theorem C33_wq_demo_accepted : accepts_complete 1 1 demo_prog demo_trace = true.
Proof. exact (@wq_demo_accepted). Qed.
Print Assumptions C33_wq_demo_accepted.

Theorem C33_wq_demo_final_run :
  exists tr s, run 1 1 demo_prog tr s /\ final s = true /\ executed s = [7] /\ deleted s = [7].
Proof. exact (@wq_demo_final_run). Qed.
Print Assumptions C33_wq_demo_final_run.

Theorem C33_wq_demo_flush_run :
  exists tr s, run 1 1 demo_prog ((Prod, PFUnlockA) :: tr) s /\ executed s = [7] /\ deleted s = [7] /\ prog s = [].
Proof. exact (@wq_demo_flush_run). Qed.
Print Assumptions C33_wq_demo_flush_run.

Theorem C33_wq_demo_rejected :
  accepts 1 1 demo_prog [ (W 0, AStart); (W 0, ALock); (W 0, AChk); (W 0, AWaitEnter); (W 0, AWaitExit) ] = false.
Proof. exact (@wq_demo_rejected). Qed.
Print Assumptions C33_wq_demo_rejected.

Theorem C33_wq_demo2_accepted : accepts_complete 2 1 demo2_prog demo2_trace = true.
Proof. exact (@wq_demo2_accepted). Qed.
Print Assumptions C33_wq_demo2_accepted.

Theorem C33_wq_demo2_final_run :
  exists tr s, run 2 1 demo2_prog tr s /\ final s = true /\ executed s = [1; 2] /\ deleted s = [1; 2].
Proof. exact (@wq_demo2_final_run). Qed.
Print Assumptions C33_wq_demo2_final_run.

