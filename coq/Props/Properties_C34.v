(** C34 property theorems (contact surface queries are geometrically correct; analytic shapes only: half space, sphere,
    cylinder, brick): statements only, each closed by [exact]; proofs in C34/C34_Proofs.v and C34/C34_Jet.v, model in
    C34/C34_Model.v (hand-written from ContactGeometry_{HalfSpace,Sphere,Cylinder,Brick}.cpp, ContactGeometryImpl.h, Geo_Box.h
    and run against the compiled ContactGeometry classes by checks/C34.py on every run).  Over the reals.
    [dist2 a b] = squared distance; implicit functions are positive inside. *)
From Coq Require Import ZArith Reals List.
From Coquelicot Require Import Coquelicot.
Require Import Num Vec C34_Model C34_Proofs C34_Jet.
Local Open Scope R_scope.

Theorem C34_hs_nearest_is_closest p : let '(q, inside, n) := hs_nearest ROps p in
  v3_0 q = 0 /\ (forall s, v3_0 s = 0 -> dist2 p q <= dist2 p s) /\ (inside = true <-> 0 <= v3_0 p) /\ v3_normSqr ROps n = 1.
Proof. exact (hs_nearest_is_closest p). Qed.
Print Assumptions C34_hs_nearest_is_closest.

Theorem C34_hs_ray_first_hit sig o d : 0 < sig ->
  match hs_ray ROps sig o d with
  | Some (dist, n) => 0 <= dist /\ v3_0 (ray_at ROps o d dist) = 0 /\ (forall s, 0 <= s < dist -> v3_0 (ray_at ROps o d s) <> 0)
                      /\ v3_normSqr ROps n = 1
  | None => sig <= Rabs (v3_0 d) -> forall s, 0 <= s -> v3_0 (ray_at ROps o d s) <> 0
  end.
Proof. exact (hs_ray_first_hit sig o d). Qed.
Print Assumptions C34_hs_ray_first_hit.

Theorem C34_hs_ray_parallel_partial sig o d : v3_0 d = 0 -> 0 < sig -> hs_ray ROps sig o d = None /\
  (v3_0 o <> 0 -> forall s, v3_0 (ray_at ROps o d s) <> 0).
Proof. exact (hs_ray_parallel_partial sig o d). Qed.
Print Assumptions C34_hs_ray_parallel_partial.

Theorem C34_sp_nearest_is_closest r p : 0 <= r -> 0 < v3_normSqr ROps p ->
  let '(q, inside, n) := sp_nearest ROps r p in
  sp_value ROps r q = 0 /\ (forall s, sp_value ROps r s = 0 -> dist2 p q <= dist2 p s)
  /\ (inside = true <-> 0 <= sp_value ROps r p) /\ v3_normSqr ROps n = 1.
Proof. exact (sp_nearest_is_closest r p). Qed.
Print Assumptions C34_sp_nearest_is_closest.

Theorem C34_sp_normal_is_minus_unit_gradient r p : 0 < v3_normSqr ROps p ->
  snd (sp_nearest ROps r p) = v3_unit ROps (v3_neg ROps (sp_gradient ROps p)).
Proof. exact (sp_normal_is_minus_unit_gradient r p). Qed.
Print Assumptions C34_sp_normal_is_minus_unit_gradient.

Theorem C34_sp_support_maximises r d : 0 <= r -> v3_normSqr ROps d = 1 ->
  sp_value ROps r (sp_support ROps r d) = 0 /\
  forall q, 0 <= sp_value ROps r q -> v3_dot ROps q d <= v3_dot ROps (sp_support ROps r d) d.
Proof. exact (sp_support_maximises r d). Qed.
Print Assumptions C34_sp_support_maximises.

Theorem C34_sp_bounding_sphere_contains r q : 0 <= sp_value ROps r q -> v3_normSqr ROps q <= r * r.
Proof. exact (sp_bounding_sphere_contains r q). Qed.
Print Assumptions C34_sp_bounding_sphere_contains.

Theorem C34_sp_ray_first_hit r o d : 0 < r -> v3_normSqr ROps d = 1 ->
  match sp_ray ROps r o d with
  | Some (dist, n) => 0 <= dist /\ sp_value ROps r (ray_at ROps o d dist) = 0
                      /\ (forall s, 0 < s < dist -> sp_value ROps r (ray_at ROps o d s) <> 0) /\ v3_normSqr ROps n = 1
  | None => forall s, 0 <= s -> sp_value ROps r (ray_at ROps o d s) <> 0
  end.
Proof. exact (sp_ray_first_hit r o d). Qed.
Print Assumptions C34_sp_ray_first_hit.

Theorem C34_sp_nearest_at_centre_refuted :
  exists r, 0 < r /\ sp_value ROps r (fst (fst (sp_nearest ROps r (0, 0, 0)))) <> 0.
Proof. exact (@sp_nearest_at_centre_refuted). Qed.
Print Assumptions C34_sp_nearest_at_centre_refuted.

Theorem C34_cy_nearest_is_closest r p : 0 <= r -> 0 < rho2 p ->
  let '(q, inside, n) := cy_nearest ROps r p in
  cy_value ROps r q = 0 /\ (forall s, cy_value ROps r s = 0 -> dist2 p q <= dist2 p s)
  /\ (inside = true <-> 0 <= cy_value ROps r p) /\ v3_normSqr ROps n = 1.
Proof. exact (cy_nearest_is_closest r p). Qed.
Print Assumptions C34_cy_nearest_is_closest.

Theorem C34_cy_ray_first_hit r o d : 0 < r -> 0 < rho2 d ->
  match cy_ray ROps r o d with
  | Some (dist, n) => 0 <= dist /\ cy_value ROps r (ray_at ROps o d dist) = 0
                      /\ (forall s, 0 < s < dist -> cy_value ROps r (ray_at ROps o d s) <> 0) /\ v3_normSqr ROps n = 1
  | None => forall s, 0 <= s -> cy_value ROps r (ray_at ROps o d s) <> 0
  end.
Proof. exact (cy_ray_first_hit r o d). Qed.
Print Assumptions C34_cy_ray_first_hit.

Theorem C34_bx_support_maximises h d : 0 <= v3_0 h -> 0 <= v3_1 h -> 0 <= v3_2 h ->
  in_box h (bx_support ROps h d) /\ forall q, in_box h q -> v3_dot ROps q d <= v3_dot ROps (bx_support ROps h d) d.
Proof. exact (bx_support_maximises h d). Qed.
Print Assumptions C34_bx_support_maximises.

Theorem C34_bx_bounding_sphere_contains h q : in_box h q -> v3_normSqr ROps q <= bx_bsphere ROps h * bx_bsphere ROps h.
Proof. exact (bx_bounding_sphere_contains h q). Qed.
Print Assumptions C34_bx_bounding_sphere_contains.

Theorem C34_ex_sphere_ray_hits : sp_ray ROps 1 (- (2), 0, 0) (1, 0, 0) <> None.
Proof. exact (@ex_sphere_ray_hits). Qed.
Print Assumptions C34_ex_sphere_ray_hits.

Theorem C34_ex_sphere_ray_misses : sp_ray ROps 1 (- (2), 2, 0) (1, 0, 0) = None.
Proof. exact (@ex_sphere_ray_misses). Qed.
Print Assumptions C34_ex_sphere_ray_misses.

Theorem C34_ex_in_box : in_box (1, 2, 3) (1, - (2), 0).
Proof. exact (@ex_in_box). Qed.
Print Assumptions C34_ex_in_box.


Theorem C34_sp_gradient_is_jet r x d :
  is_derive (fun t => sp_value ROps r (v3_add ROps x (v3_scale ROps t d))) 0 (v3_dot ROps (sp_gradient ROps x) d).
Proof. exact (sp_gradient_is_jet r x d). Qed.
Print Assumptions C34_sp_gradient_is_jet.

Theorem C34_cy_gradient_is_jet r x d :
  is_derive (fun t => cy_value ROps r (v3_add ROps x (v3_scale ROps t d))) 0 (v3_dot ROps (cy_gradient ROps x) d).
Proof. exact (cy_gradient_is_jet r x d). Qed.
Print Assumptions C34_cy_gradient_is_jet.

