(** C34 property theorems, ellipsoid (closed-form part): statements only, each closed by [exact]; proofs in
    C34/C34_el_Proofs.v and C34/C34_el_Jet.v, model in C34/C34_el_Model.v (hand-written from ContactGeometryImpl.h /
    ContactGeometry_Ellipsoid.cpp; an object with radii AND cached curvatures; run against the compiled class, through
    constructor, setRadii and copies, by checks/C34.py on every run).  Over the reals. *)
From Coq Require Import ZArith Reals List.
From Coquelicot Require Import Coquelicot.
Require Import Num Vec C34_Model C34_Proofs C34_el_Model C34_el_Proofs C34_el_Jet.
Import ListNotations.
Local Open Scope R_scope.

Theorem C34_el_ops_keep_cache_consistent r0 ops : pos3 r0 -> List.Forall op_ok ops ->
  el_consistent (el_run ROps r0 ops) /\ pos3 (el_radii (el_run ROps r0 ops)).
Proof. exact (el_ops_keep_cache_consistent r0 ops). Qed.
Print Assumptions C34_el_ops_keep_cache_consistent.

Theorem C34_el_curvatures_are_reciprocal_radii (e:ellipsoidR) : el_consistent e ->
  el_curv e = (1 / v3_0 (el_radii e), 1 / v3_1 (el_radii e), 1 / v3_2 (el_radii e)).
Proof. exact (el_curvatures_are_reciprocal_radii e). Qed.
Print Assumptions C34_el_curvatures_are_reciprocal_radii.

Theorem C34_el_normal_unit_and_parallel_to_gradient e q : el_consistent e -> pos3 (el_radii e) -> 0 < v3_normSqr ROps q ->
  v3_normSqr ROps (el_unitNormalAt ROps e q) = 1 /\
  el_unitNormalAt ROps e q = v3_unit ROps (v3_neg ROps (el_gradient ROps e q)).
Proof. exact (el_normal_unit_and_parallel_to_gradient e q). Qed.
Print Assumptions C34_el_normal_unit_and_parallel_to_gradient.

Theorem C34_el_support_maximises e d : pos3 (el_radii e) -> v3_normSqr ROps d = 1 ->
  el_value ROps e (el_support ROps e d) = 0 /\
  forall q, 0 <= el_value ROps e q -> v3_dot ROps q d <= v3_dot ROps (el_support ROps e d) d.
Proof. exact (el_support_maximises e d). Qed.
Print Assumptions C34_el_support_maximises.

Theorem C34_el_pointInDirection_on_surface e q : el_consistent e -> pos3 (el_radii e) -> 0 < v3_normSqr ROps q ->
  el_value ROps e (el_pointInDirection ROps e q) = 0 /\ exists s, 0 < s /\ el_pointInDirection ROps e q = v3_scale ROps s q.
Proof. exact (el_pointInDirection_on_surface e q). Qed.
Print Assumptions C34_el_pointInDirection_on_surface.

Theorem C34_el_bounding_sphere_contains e q : pos3 (el_radii e) -> 0 <= el_value ROps e q ->
  v3_normSqr ROps q <= el_bsphere ROps e * el_bsphere ROps e.
Proof. exact (el_bounding_sphere_contains e q). Qed.
Print Assumptions C34_el_bounding_sphere_contains.

Theorem C34_el_axis_curvatures_are_classical e : el_consistent e -> pos3 (el_radii e) ->
  let a := v3_0 (el_radii e) in let b := v3_1 (el_radii e) in let c := v3_2 (el_radii e) in
  el_axisCurvatures ROps e 0 = (Rmax (a / (b * b)) (a / (c * c)), Rmin (a / (b * b)) (a / (c * c))) /\
  el_axisCurvatures ROps e 1 = (Rmax (b / (c * c)) (b / (a * a)), Rmin (b / (c * c)) (b / (a * a))) /\
  el_axisCurvatures ROps e 2 = (Rmax (c / (a * a)) (c / (b * b)), Rmin (c / (a * a)) (c / (b * b))).
Proof. exact (el_axis_curvatures_are_classical e). Qed.
Print Assumptions C34_el_axis_curvatures_are_classical.

Theorem C34_el_axis_curvature_from_hessian_and_gradient e : pos3 (el_radii e) ->
  let a := v3_0 (el_radii e) in let b := v3_1 (el_radii e) in
  (a / (b * b)) * v3_norm ROps (el_gradient ROps e (a, 0, 0)) = - m33_e (el_hessian ROps e) 1 1.
Proof. exact (el_axis_curvature_from_hessian_and_gradient e). Qed.
Print Assumptions C34_el_axis_curvature_from_hessian_and_gradient.

Theorem C34_ex_el_ops : el_consistent (el_run ROps (1, 2, 3) [OpSet (5/2, 7/10, 13/10); OpCopy]) /\ el_radii (el_run ROps (1, 2, 3) [OpSet (5/2, 7/10, 13/10); OpCopy]) = (5/2, 7/10, 13/10).
Proof. exact (@ex_el_ops). Qed.
Print Assumptions C34_ex_el_ops.


Theorem C34_el_gradient_is_jet e x d : pos3 (el_radii e) ->
  is_derive (fun t => el_value ROps e (v3_add ROps x (v3_scale ROps t d))) 0 (v3_dot ROps (el_gradient ROps e x) d).
Proof. exact (el_gradient_is_jet e x d). Qed.
Print Assumptions C34_el_gradient_is_jet.

Theorem C34_el_hessian_is_jet_of_gradient e x d : pos3 (el_radii e) ->
  is_derive (fun t => v3_0 (el_gradient ROps e (v3_add ROps x (v3_scale ROps t d)))) 0 (v3_dot ROps (m33_r0 (el_hessian ROps e)) d) /\
  is_derive (fun t => v3_1 (el_gradient ROps e (v3_add ROps x (v3_scale ROps t d)))) 0 (v3_dot ROps (m33_r1 (el_hessian ROps e)) d) /\
  is_derive (fun t => v3_2 (el_gradient ROps e (v3_add ROps x (v3_scale ROps t d)))) 0 (v3_dot ROps (m33_r2 (el_hessian ROps e)) d).
Proof. exact (el_hessian_is_jet_of_gradient e x d). Qed.
Print Assumptions C34_el_hessian_is_jet_of_gradient.

