(** C35 property theorems (collision detection reports exactly the overlapping pairs; sphere/sphere and half-space/sphere
    only): statements only, each closed by [exact]; proofs in C35/C35_Proofs.v, model in C35/C35_Model.v (hand-written from
    CollisionDetectionAlgorithm.cpp and ContactTracker.cpp and run against the compiled classes by checks/C35.py on every
    run).  Over the reals.  [dist a b] = |b - a|; [hs_height X q] = signed height of q inside the half space of frame X. *)
From Coq Require Import ZArith Reals List.
Require Import Num Vec C35_Model C35_Proofs.
Local Open Scope R_scope.

Theorem C35_hs_sphere_contact_iff_overlap X1 c r : 0 <= r -> v3_normSqr ROps (hs_axis X1) = 1 ->
  (hs_sphere ROps X1 c r <> None <-> exists q, dist c q <= r /\ 0 < hs_height X1 q).
Proof. exact (hs_sphere_contact_iff_overlap X1 c r). Qed.
Print Assumptions C35_hs_sphere_contact_iff_overlap.

Theorem C35_hs_sphere_depth_is_max_height X1 c r q : 0 <= r -> v3_normSqr ROps (hs_axis X1) = 1 -> dist c q <= r ->
  hs_height X1 q <= hs_depth X1 c r.
Proof. exact (hs_sphere_depth_is_max_height X1 c r q). Qed.
Print Assumptions C35_hs_sphere_depth_is_max_height.

Theorem C35_hs_sphere_formulas X1 c r : is_rotation (fst X1) -> 0 < hs_depth X1 c r ->
  hs_sphere ROps X1 c r = Some (hs_depth X1 c r, v3_neg ROps (hs_axis X1),
                                v3_add ROps c (v3_scale ROps (r - hs_depth X1 c r / 2) (hs_axis X1)), r).
Proof. exact (hs_sphere_formulas X1 c r). Qed.
Print Assumptions C35_hs_sphere_formulas.

Theorem C35_sphere_sphere_contact_iff_overlap p1 r1 p2 r2 : 0 < r1 -> 0 < r2 -> 0 < dist p1 p2 ->
  (sphere_sphere ROps p1 r1 p2 r2 <> None <-> exists q, dist p1 q < r1 /\ dist p2 q < r2).
Proof. exact (sphere_sphere_contact_iff_overlap p1 r1 p2 r2). Qed.
Print Assumptions C35_sphere_sphere_contact_iff_overlap.

Theorem C35_sphere_sphere_formulas p1 r1 p2 r2 : 0 < dist p1 p2 < r1 + r2 ->
  exists n, sphere_sphere ROps p1 r1 p2 r2 = Some (r1 + r2 - dist p1 p2, n, v3_add ROps p1 (v3_scale ROps (r1 - (r1 + r2 - dist p1 p2) / 2) n), r1 * r2 / (r1 + r2))
    /\ v3_normSqr ROps n = 1 /\ v3_scale ROps (dist p1 p2) n = v3_sub ROps p2 p1
    /\ v3_add ROps p1 (v3_scale ROps (r1 - (r1 + r2 - dist p1 p2) / 2) n) = v3_add ROps p2 (v3_scale ROps (r2 - (r1 + r2 - dist p1 p2) / 2) (v3_neg ROps n)).
Proof. exact (sphere_sphere_formulas p1 r1 p2 r2). Qed.
Print Assumptions C35_sphere_sphere_formulas.

Theorem C35_sphere_sphere_swap_symmetry p1 r1 p2 r2 : 0 < dist p1 p2 ->
  match sphere_sphere ROps p1 r1 p2 r2, sphere_sphere ROps p2 r2 p1 r1 with
  | Some (d, n, l, r), Some (d', n', l', r') => d' = d /\ n' = v3_neg ROps n /\ l' = l /\ r' = r
  | None, None => True
  | _, _ => False
  end.
Proof. exact (sphere_sphere_swap_symmetry p1 r1 p2 r2). Qed.
Print Assumptions C35_sphere_sphere_swap_symmetry.

Theorem C35_sphere_sphere_rigid_motion_invariance Q t p1 r1 p2 r2 : is_isometry Q -> 0 < dist p1 p2 ->
  sphere_sphere ROps (move Q t p1) r1 (move Q t p2) r2 =
    match sphere_sphere ROps p1 r1 p2 r2 with
    | Some (d, n, l, r) => Some (d, m33_mulv ROps Q n, move Q t l, r)
    | None => None
    end.
Proof. exact (sphere_sphere_rigid_motion_invariance Q t p1 r1 p2 r2). Qed.
Print Assumptions C35_sphere_sphere_rigid_motion_invariance.

Theorem C35_hs_sphere_rigid_motion_invariance Q t X1 c r : cols_orthonormal Q ->
  hs_sphere ROps (m33_mul ROps Q (fst X1), move Q t (snd X1)) (move Q t c) r =
    match hs_sphere ROps X1 c r with
    | Some (d, n, l, rr) => Some (d, m33_mulv ROps Q n, move Q t l, rr)
    | None => None
    end.
Proof. exact (hs_sphere_rigid_motion_invariance Q t X1 c r). Qed.
Print Assumptions C35_hs_sphere_rigid_motion_invariance.

Theorem C35_sphere_sphere_concentric_refuted :
  exists p r1 r2, 0 < r1 /\ 0 < r2 /\ (exists q, dist p q < r1 /\ dist p q < r2) /\ sphere_sphere ROps p r1 p r2 = None.
Proof. exact (@sphere_sphere_concentric_refuted). Qed.
Print Assumptions C35_sphere_sphere_concentric_refuted.

Theorem C35_tk_hs_sphere_agrees XH c r cutoff :
  tk_hs_sphere ROps XH c r cutoff =
    if Rle_dec (hs_depth XH c r) (- cutoff) then None
    else Some (hs_depth XH c r, negx ROps, (hs_depth XH c r / 2, v3_1 (xf_apply ROps (xf_inv ROps XH) c), v3_2 (xf_apply ROps (xf_inv ROps XH) c)), r).
Proof. exact (tk_hs_sphere_agrees XH c r cutoff). Qed.
Print Assumptions C35_tk_hs_sphere_agrees.

Theorem C35_tk_sphere_sphere_depth sig R1 p1 r1 p2 r2 : 0 <= r1 + r2 -> sig <= dist p1 p2 ->
  match tk_sphere_sphere ROps sig R1 p1 r1 p2 r2 0 with
  | inl (Some (d, n, o, r)) => dist p1 p2 <= r1 + r2 /\ d = r1 + r2 - dist p1 p2 /\ r = r1 * r2 / (r1 + r2)
  | inl None => r1 + r2 < dist p1 p2
  | inr _ => False
  end.
Proof. exact (tk_sphere_sphere_depth sig R1 p1 r1 p2 r2). Qed.
Print Assumptions C35_tk_sphere_sphere_depth.

Theorem C35_ex_overlapping_spheres : sphere_sphere ROps (0, 0, 0) 1 (1, 0, 0) 1 <> None.
Proof. exact (@ex_overlapping_spheres). Qed.
Print Assumptions C35_ex_overlapping_spheres.

Theorem C35_ex_identity_is_rotation : is_rotation (m33_id ROps) /\ is_isometry (m33_id ROps).
Proof. exact (@ex_identity_is_rotation). Qed.
Print Assumptions C35_ex_identity_is_rotation.

Theorem C35_ex_identity_cols_orthonormal : cols_orthonormal (m33_id ROps).
Proof. exact (@ex_identity_cols_orthonormal). Qed.
Print Assumptions C35_ex_identity_cols_orthonormal.

