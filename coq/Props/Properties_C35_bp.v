(** C35 property theorems, broad phase of ContactTrackerSubsystem (bounding-sphere pruning): statements only, each closed by
    [exact]; proofs in C35/C35_bp_Proofs.v, model in C35/C35_bp_Model.v (hand-written from ContactTrackerSubsystem.cpp; the
    sort-and-sweep loop modelled by its specification); checks/C35.py compares, for every pair of every scene, the compiled
    subsystem's active contacts with the brute-force narrow phase restricted to the pairs the extracted model keeps.
    [rigid X]: the rotation part of X preserves lengths.  Over the reals. *)
From Coq Require Import ZArith Reals List.
Require Import Num Vec C35_Model C35_Proofs C35_bp_Model C35_bp_Proofs.
Local Open Scope R_scope.

Theorem C35_bp_extent_test_redundant axis c1 r1 c2 r2 : 0 <= r1 -> 0 <= r2 ->
  bp_spheres_touch ROps c1 r1 c2 r2 = true -> bp_extents_overlap ROps axis c1 r1 c2 r2 = true.
Proof. exact (bp_extent_test_redundant axis c1 r1 c2 r2). Qed.
Print Assumptions C35_bp_extent_test_redundant.

Theorem C35_bp_pruning_sound axis XGB1 XBS1 cS1 r1 XGB2 XBS2 cS2 r2 s1 s2 :
  rigid XGB1 -> rigid XBS1 -> rigid XGB2 -> rigid XBS2 -> 0 <= r1 -> 0 <= r2 ->
  dist cS1 s1 <= r1 -> dist cS2 s2 <= r2 ->                           (* s1, s2: points of the shapes, in their surface frames *)
  xf_apply ROps XGB1 (xf_apply ROps XBS1 s1) = xf_apply ROps XGB2 (xf_apply ROps XBS2 s2) ->    (* the same point of Ground *)
  bp_keeps ROps axis XGB1 XBS1 cS1 r1 XGB2 XBS2 cS2 r2 = true.
Proof. exact (bp_pruning_sound axis XGB1 XBS1 cS1 r1 XGB2 XBS2 cS2 r2 s1 s2). Qed.
Print Assumptions C35_bp_pruning_sound.

Theorem C35_bp_center_is_transformed_point (XGB XBS:Transform R) cS :
  bp_center_G ROps XGB XBS cS = xf_apply ROps (xf_compose ROps XGB XBS) cS.
Proof. exact (bp_center_is_transformed_point XGB XBS cS). Qed.
Print Assumptions C35_bp_center_is_transformed_point.

Theorem C35_ex_rigid_identity : rigid (m33_id ROps, (0, 0, 0)).
Proof. exact (@ex_rigid_identity). Qed.
Print Assumptions C35_ex_rigid_identity.

