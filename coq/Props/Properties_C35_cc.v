(** C35 property theorems, convex-convex detector, closed-form families only (two axis-parallel ellipsoids / spheres with
    centres on a common principal axis): statements only, each closed by [exact]; proofs in C35/C35_cc_Proofs.v, model in
    C35/C35_cc_Model.v (specification-level: the code reaches these values by MPR + Newton iteration, which is not modelled);
    checks/C35.py compares the compiled ConvexConvex algorithm with the model on exactly aligned pairs and checks
    continuity, swap symmetry and rigid-motion invariance on the implementation.  [ell_f r c] = implicit function of the
    ellipsoid with radii r centred at c (C34's model, positive inside).  Over the reals. *)
From Coq Require Import ZArith Reals List.
Require Import Num Vec C34_el_Model C35_Model C35_Proofs C35_cc_Model C35_cc_Proofs.
Local Open Scope R_scope.

Theorem C35_cc_axis_points_on_surfaces r1 r2 c1 i t : pos3 r1 -> pos3 r2 -> t <> 0 ->
  let u := axis3 i in let c2 := v3_add ROps c1 (v3_scale ROps t u) in
  ell_f r1 c1 (cc_p1 ROps c1 u (comp3 r1 i) t) = 0 /\ ell_f r2 c2 (cc_p2 ROps c1 u (comp3 r2 i) t) = 0.
Proof. exact (cc_axis_points_on_surfaces r1 r2 c1 i t). Qed.
Print Assumptions C35_cc_axis_points_on_surfaces.

Theorem C35_cc_common_normal r1 r2 c1 i t : pos3 r1 -> pos3 r2 -> t <> 0 ->
  let u := axis3 i in let c2 := v3_add ROps c1 (v3_scale ROps t u) in let s := cc_sign ROps t in
  v3_neg ROps (ell_g r1 c1 (cc_p1 ROps c1 u (comp3 r1 i) t)) = v3_scale ROps (2 / comp3 r1 i) (v3_scale ROps s u) /\
  v3_neg ROps (ell_g r2 c2 (cc_p2 ROps c1 u (comp3 r2 i) t)) = v3_scale ROps (2 / comp3 r2 i) (v3_scale ROps (- s) u).
Proof. exact (cc_common_normal r1 r2 c1 i t). Qed.
Print Assumptions C35_cc_common_normal.

Theorem C35_cc_depth_normal_location c1 u ra rb t : t <> 0 ->
  let P1 := cc_p1 ROps c1 u ra t in let P2 := cc_p2 ROps c1 u rb t in let d := cc_depth ROps ra rb t in let s := cc_sign ROps t in
  v3_sub ROps P1 P2 = v3_scale ROps d (v3_scale ROps s u) /\
  (0 < d -> cc_axis ROps c1 u ra rb t = Some (d, v3_scale ROps s u, v3_scale ROps (1 / 2) (v3_add ROps P1 P2))) /\
  (d <= 0 -> cc_axis ROps c1 u ra rb t = None).
Proof. exact (cc_depth_normal_location c1 u ra rb t). Qed.
Print Assumptions C35_cc_depth_normal_location.

Theorem C35_cc_contact_iff_overlap r1 r2 c1 i t : pos3 r1 -> pos3 r2 -> t <> 0 ->
  let u := axis3 i in let c2 := v3_add ROps c1 (v3_scale ROps t u) in
  (cc_axis ROps c1 u (comp3 r1 i) (comp3 r2 i) t <> None <-> exists q, 0 < ell_f r1 c1 q /\ 0 < ell_f r2 c2 q).
Proof. exact (cc_contact_iff_overlap r1 r2 c1 i t). Qed.
Print Assumptions C35_cc_contact_iff_overlap.

Theorem C35_ex_cc_depth : cc_axis ROps (0, 0, 0) (1, 0, 0) 1 (1 / 2) (29 / 20) = Some (1 / 20, (1, 0, 0), (39 / 40, 0, 0)).
Proof. exact (@ex_cc_depth). Qed.
Print Assumptions C35_ex_cc_depth.

