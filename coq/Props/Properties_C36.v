(** C36 Mesh queries match brute force and bounding volumes contain - thin partial: the statement list.
    obb_tree_prune_sound: the pruned OBB-tree search equals brute force over all faces when every box distance bounds the
    distances to the faces below it from below; box_contains_convex + tree_ok_all_nodes + parent_box_contains_children: the
    certificate checker (vertices in boxes) means triangles in boxes at every node; box_dist2_lower_bound_in_frame: the
    clamped distance is such a lower bound; adjacency_ok_sound, tree_covers_sound: what the other checkers establish. *)
From Coq Require Import List Arith ZArith Bool Reals.
Require Import Num Vec C36_Model C36_Proofs.
Import ListNotations.
Local Open Scope R_scope.

(** In the three statements below: [dist f] = squared distance from the query point to face f, [lb b] = squared distance to box b,
    INF = MostPositiveReal; hypotheses: every distance is below INF, every box distance is at most INF. *)
Theorem C36_psearch_spec (face box : Type) (dist : face -> R) (lb : box -> R) (INF : R)
  (dist_lt_INF : forall f, dist f < INF) (lb_le_INF : forall b, lb b <= INF) (t : ptree face box) :
  boxes_ok face box dist lb t -> forall cutoff,
  brute face dist INF (pfaces face box t) <= psearch face box dist lb INF cutoff t /\ psearch face box dist lb INF cutoff t <= INF /\
  (brute face dist INF (pfaces face box t) < cutoff -> psearch face box dist lb INF cutoff t = brute face dist INF (pfaces face box t)).
Proof. exact (psearch_spec face box dist lb INF lb_le_INF t). Qed.
Print Assumptions C36_psearch_spec.

Theorem C36_obb_tree_prune_sound (face box : Type) (dist : face -> R) (lb : box -> R) (INF : R)
  (dist_lt_INF : forall f, dist f < INF) (lb_le_INF : forall b, lb b <= INF) (t : ptree face box) :
  boxes_ok face box dist lb t -> psearch face box dist lb INF INF t = brute face dist INF (pfaces face box t).
Proof. exact (obb_tree_prune_sound face box dist lb INF dist_lt_INF lb_le_INF t). Qed.
Print Assumptions C36_obb_tree_prune_sound.

Theorem C36_obb_tree_search_attained (face box : Type) (dist : face -> R) (lb : box -> R) (INF : R)
  (dist_lt_INF : forall f, dist f < INF) (lb_le_INF : forall b, lb b <= INF) (t : ptree face box) :
  boxes_ok face box dist lb t -> pfaces face box t <> [] ->
  exists f, In f (pfaces face box t) /\ psearch face box dist lb INF INF t = dist f /\ forall g, In g (pfaces face box t) -> dist f <= dist g.
Proof. exact (obb_tree_search_attained face box dist lb INF dist_lt_INF lb_le_INF t). Qed.
Print Assumptions C36_obb_tree_search_attained.

Theorem C36_box_contains_convex bx tol a b c u v w :
  Rin_box bx tol a -> Rin_box bx tol b -> Rin_box bx tol c -> 0 <= u -> 0 <= v -> 0 <= w -> u + v + w = 1 ->
  Rin_box bx tol (v3_add ROps (v3_add ROps (v3_scale ROps u a) (v3_scale ROps v b)) (v3_scale ROps w c)).
Proof. exact (box_contains_convex bx tol a b c u v w). Qed.
Print Assumptions C36_box_contains_convex.

Theorem C36_box_dist2_lower_bound_in_frame (s0 s1 s2 q0 q1 q2 y0 y1 y2 : R) :
  0 <= s0 -> 0 <= s1 -> 0 <= s2 -> 0 <= y0 <= s0 -> 0 <= y1 <= s1 -> 0 <= y2 <= s2 ->
  let I : Mat33 R := ((1, 0, 0), (0, 1, 0), (0, 0, 1)) in
  box_dist2 ROps ((I, (0, 0, 0)), (s0, s1, s2)) (q0, q1, q2) <= (y0 - q0) * (y0 - q0) + (y1 - q1) * (y1 - q1) + (y2 - q2) * (y2 - q2).
Proof. exact (box_dist2_lower_bound_in_frame s0 s1 s2 q0 q1 q2 y0 y1 y2). Qed.
Print Assumptions C36_box_dist2_lower_bound_in_frame.

Theorem C36_tree_ok_sound {T} (K : NumOps T) tol vs fs (t : otree (T:=T)) :
  tree_ok K tol vs fs t = true ->
  (forall f, In f (tree_faces t) -> face_in_box K tol vs fs (tree_box t) f = true) /\
  match t with OLeaf _ _ => True | ONode _ l r => tree_ok K tol vs fs l = true /\ tree_ok K tol vs fs r = true end.
Proof. exact (@tree_ok_sound T K tol vs fs t). Qed.
Print Assumptions C36_tree_ok_sound.

Theorem C36_tree_ok_all_nodes {T} (K : NumOps T) tol vs fs (t : otree (T:=T)) :
  tree_ok K tol vs fs t = true -> all_nodes_contain K tol vs fs t.
Proof. exact (@tree_ok_all_nodes T K tol vs fs t). Qed.
Print Assumptions C36_tree_ok_all_nodes.

Theorem C36_parent_box_contains_children {T} (K : NumOps T) tol vs fs b (l r : otree (T:=T)) f :
  tree_ok K tol vs fs (ONode b l r) = true -> In f (tree_faces l) \/ In f (tree_faces r) -> face_in_box K tol vs fs b f = true.
Proof. exact (@parent_box_contains_children T K tol vs fs b l r f). Qed.
Print Assumptions C36_parent_box_contains_children.

Theorem C36_tree_covers_sound {T} n (t : otree (T:=T)) :
  tree_covers n t = true -> (forall f, (f < n)%nat -> In f (tree_faces t)) /\ length (tree_faces t) = n.
Proof. exact (@tree_covers_sound T n t). Qed.
Print Assumptions C36_tree_covers_sound.

Theorem C36_adjacency_ok_sound nverts fv fe ev ef :
  adjacency_ok nverts fv fe ev ef = true ->
  length fv = length fe /\ length ev = length ef /\
  (forall k, (k < length fv)%nat ->
     let '(a, b, c) := nth k fv (0, 0, 0)%nat in
     (a < nverts /\ b < nverts /\ c < nverts /\ a <> b /\ b <> c /\ a <> c)%nat /\
     forall x, In x (let '(e0, e1, e2) := nth k fe (0, 0, 0)%nat in [e0; e1; e2]) ->
       (x < length ev)%nat /\ edge_has_face (nth x ef (0%nat, None)) k = true /\
       in3 (fst (nth x ev (0, 0)%nat)) (nth k fv (0, 0, 0)%nat) = true /\ in3 (snd (nth x ev (0, 0)%nat)) (nth k fv (0, 0, 0)%nat) = true) /\
  (forall x, (x < length ev)%nat ->
     fst (nth x ev (0, 0)%nat) <> snd (nth x ev (0, 0)%nat) /\
     (fst (nth x ef (0%nat, None)) < length fv)%nat /\ in3 x (nth (fst (nth x ef (0%nat, None))) fe (0, 0, 0)%nat) = true /\
     match snd (nth x ef (0%nat, None)) with
     | Some g => (g < length fv)%nat /\ g <> fst (nth x ef (0%nat, None)) /\ in3 x (nth g fe (0, 0, 0)%nat) = true
     | None => True end).
Proof. exact (adjacency_ok_sound nverts fv fe ev ef). Qed.
Print Assumptions C36_adjacency_ok_sound.

Theorem C36_ex_boxes_ok : boxes_ok nat nat ex_dist ex_lb ex_t.
Proof. exact (@ex_boxes_ok). Qed.
Print Assumptions C36_ex_boxes_ok.

Theorem C36_ex_prune : psearch nat nat ex_dist ex_lb 100 100 ex_t = 3.
Proof. exact (@ex_prune). Qed.
Print Assumptions C36_ex_prune.

