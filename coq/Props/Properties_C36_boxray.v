(** C36, box/ray part: the statement list (proofs in coq/C36/C36_boxray_Proofs.v about coq/C36/C36_boxray_Model.v, the slab test
    of OrientedBoundingBox::intersectsRay in the box frame).  box_ray_sound: whenever the ray meets the box the test says hit and
    its distance is a lower bound (what OBB-tree pruning in TriangleMesh::intersectsRay needs); box_ray_complete; box_ray_decides;
    box_ray_distance_is_entry.  All for every size >= 0, origin and direction, including exactly zero direction components. *)
From Coq Require Import List Bool Reals Lra.
Require Import Num Vec C36_Model C36_boxray_Model C36_boxray_Proofs.
Local Open Scope R_scope.

Theorem C36_slab_interval o d s t : d <> 0 -> 0 <= s ->
  let d1 := - o / d in let d2 := (s - o) / d in
  in_slab o d s t <-> (if Rltb d1 d2 then d1 else d2) <= t <= (if Rltb d1 d2 then d2 else d1).
Proof. exact (slab_interval o d s t). Qed.
Print Assumptions C36_slab_interval.

Theorem C36_slab_some i o d s i' : 0 <= s -> wfI i -> slab ROps i o d s = Some i' ->
  wfI i' /\ forall t, (inI i t /\ in_slab o d s t) <-> inI i' t.
Proof. exact (slab_some i o d s i'). Qed.
Print Assumptions C36_slab_some.

Theorem C36_slab_none i o d s : 0 <= s -> wfI i -> slab ROps i o d s = None -> forall t, 0 <= t -> ~ (inI i t /\ in_slab o d s t).
Proof. exact (slab_none i o d s). Qed.
Print Assumptions C36_slab_none.

Theorem C36_box_ray_sound s o d t : size_ok3 s -> 0 <= t -> ray_point_in_box s o d t ->
  exists dist, box_ray_frame ROps s o d = Some dist /\ 0 <= dist <= t.
Proof. exact (box_ray_sound s o d t). Qed.
Print Assumptions C36_box_ray_sound.

Theorem C36_box_ray_complete s o d dist : size_ok3 s -> box_ray_frame ROps s o d = Some dist -> 0 <= dist /\ ray_point_in_box s o d dist.
Proof. exact (box_ray_complete s o d dist). Qed.
Print Assumptions C36_box_ray_complete.

Theorem C36_box_ray_decides s o d : size_ok3 s -> ((exists dist, box_ray_frame ROps s o d = Some dist) <-> (exists t, 0 <= t /\ ray_point_in_box s o d t)).
Proof. exact (box_ray_decides s o d). Qed.
Print Assumptions C36_box_ray_decides.

Theorem C36_box_ray_distance_is_entry s o d dist t : size_ok3 s -> box_ray_frame ROps s o d = Some dist -> 0 <= t -> ray_point_in_box s o d t -> dist <= t.
Proof. exact (box_ray_distance_is_entry s o d dist t). Qed.
Print Assumptions C36_box_ray_distance_is_entry.

Theorem C36_ex_axis_ray : box_ray_frame ROps (1, 1/5, 3) (-1/2, 1/10, 2) (1, 0, 0) = Some (1/2).
Proof. exact (@ex_axis_ray). Qed.
Print Assumptions C36_ex_axis_ray.

