(** C36, file-format part: the statement list (proofs in coq/C36/C36_io_Proofs.v about coq/C36/C36_io_Model.v).
    stl_binary_roundtrip: the binary STL reader gives back the written facets for EVERY list of attribute words, every header
    and every trailing garbage; stl_binary_attributes_ignored; stl_binary_consumes: exactly 84 + 50 n bytes are consumed;
    merge_preserves_faces / load_stl_binary_roundtrip: vertex merging preserves the face list up to the renaming it returns;
    stl_ascii_roundtrip, obj_roundtrip, obj_negative_index: the text grammars on their canonical texts. *)
From Coq Require Import List NArith ZArith Arith Bool Lia.
Require Import C36_io_Model C36_io_Proofs.
Import ListNotations.

Theorem C36_take_facet_record f a r : take_facet (facet_bytes f ++ le16 a ++ r) = Some (f, r).
Proof. exact (take_facet_record f a r). Qed.
Print Assumptions C36_take_facet_record.

Theorem C36_parse_facets_records fs : forall attrs r, length attrs = length fs ->
  parse_facets (length fs) (records fs attrs ++ r) = Some (fs, r).
Proof. exact (parse_facets_records fs). Qed.
Print Assumptions C36_parse_facets_records.

Theorem C36_of_le32_le32 n : (n < 4294967296)%N ->
  of_le32 (n mod 256) ((n / 256) mod 256) ((n / 65536) mod 256) ((n / 16777216) mod 256) = n.
Proof. exact (of_le32_le32 n). Qed.
Print Assumptions C36_of_le32_le32.

Theorem C36_stl_binary_roundtrip hdr fs attrs extra :
  length hdr = 80 -> length attrs = length fs -> (N.of_nat (length fs) < 4294967296)%N ->
  parse_stl (serialize hdr fs attrs ++ extra) = Some (fs, extra).
Proof. exact (stl_binary_roundtrip hdr fs attrs extra). Qed.
Print Assumptions C36_stl_binary_roundtrip.

Theorem C36_stl_binary_attributes_ignored hdr fs attrs attrs' extra :
  length hdr = 80 -> length attrs = length fs -> length attrs' = length fs -> (N.of_nat (length fs) < 4294967296)%N ->
  parse_stl (serialize hdr fs attrs ++ extra) = parse_stl (serialize hdr fs attrs' ++ extra).
Proof. exact (stl_binary_attributes_ignored hdr fs attrs attrs' extra). Qed.
Print Assumptions C36_stl_binary_attributes_ignored.

Theorem C36_stl_binary_consumes l fs r : parse_stl l = Some (fs, r) -> length l = 84 + 50 * length fs + length r.
Proof. exact (stl_binary_consumes l fs r). Qed.
Print Assumptions C36_stl_binary_consumes.

Theorem C36_get_vertex_spec vs v vs' i : get_vertex vs v = (vs', i) ->
  (exists ext, vs' = vs ++ ext) /\ i < length vs' /\ nth i vs' dflt = v /\ (NoDup vs -> NoDup vs').
Proof. exact (get_vertex_spec vs v vs' i). Qed.
Print Assumptions C36_get_vertex_spec.

Theorem C36_merge_face_spec f : forall vs vs' t, merge_face vs f = (vs', t) ->
  (exists ext, vs' = vs ++ ext) /\ map (look vs') t = f /\ Forall (fun i => i < length vs') t /\ (NoDup vs -> NoDup vs').
Proof. exact (merge_face_spec f). Qed.
Print Assumptions C36_merge_face_spec.

Theorem C36_merge_spec fs : forall vs vs' ts, merge vs fs = (vs', ts) ->
  (exists ext, vs' = vs ++ ext) /\ map (map (look vs')) ts = fs /\ Forall (Forall (fun i => i < length vs')) ts /\ (NoDup vs -> NoDup vs').
Proof. exact (merge_spec fs). Qed.
Print Assumptions C36_merge_spec.

Theorem C36_merge_preserves_faces fs vs ts : merge [] fs = (vs, ts) ->
  map (map (look vs)) ts = fs /\ Forall (Forall (fun i => i < length vs)) ts /\ NoDup vs.
Proof. exact (merge_preserves_faces fs vs ts). Qed.
Print Assumptions C36_merge_preserves_faces.

Theorem C36_load_stl_binary_roundtrip hdr fs attrs extra vs ts :
  length hdr = 80 -> length attrs = length fs -> (N.of_nat (length fs) < 4294967296)%N ->
  load_stl_binary (serialize hdr fs attrs ++ extra) = Some (vs, ts) ->
  map (map (look vs)) ts = map facet_vertices fs /\ NoDup vs.
Proof. exact (load_stl_binary_roundtrip hdr fs attrs extra vs ts). Qed.
Print Assumptions C36_load_stl_binary_roundtrip.

Theorem C36_obj_roundtrip vs fs : parse_obj (print_obj vs fs) [] [] = (vs, map (map Z.of_nat) fs).
Proof. exact (obj_roundtrip vs fs). Qed.
Print Assumptions C36_obj_roundtrip.

Theorem C36_obj_negative_index nv k : 1 <= k <= nv -> obj_index nv (- Z.of_nat k) = Z.of_nat (nv - k).
Proof. exact (obj_negative_index nv k). Qed.
Print Assumptions C36_obj_negative_index.

Theorem C36_ex_roundtrip : load_stl_binary (serialize (repeat 32%N 80) ex_fs [33001; 7]%N ++ [1; 2; 3]%N)
  = Some ([ex_v 1; ex_v 2; ex_v 3; ex_v 4], [[0; 1; 2]; [2; 1; 3]]).
Proof. exact (@ex_roundtrip). Qed.
Print Assumptions C36_ex_roundtrip.

Theorem C36_ex_length : length (serialize (repeat 32%N 80) ex_fs [33001; 7]%N) = 84 + 50 * 2.
Proof. exact (@ex_length). Qed.
Print Assumptions C36_ex_length.

Theorem C36_parse_facet_body_printed f rest : 3 <= length f ->
  parse_facet_body ((Kouter, []) :: map vline f ++ (Kendloop, []) :: (Kendfacet, []) :: rest) = Some (f, rest).
Proof. exact (parse_facet_body_printed f rest). Qed.
Print Assumptions C36_parse_facet_body_printed.

Theorem C36_parse_ascii_loop_printed fs : forall fuel sig acc, length fs < fuel -> 1 <= sig -> Forall (fun f => 3 <= length f) fs ->
  parse_ascii_loop fuel sig (concat (map print_facet fs) ++ [(Kendsolid, [])]) acc = Some (rev acc ++ fs).
Proof. exact (parse_ascii_loop_printed fs). Qed.
Print Assumptions C36_parse_ascii_loop_printed.

Theorem C36_stl_ascii_roundtrip fs : Forall (fun f => 3 <= length f) fs -> parse_ascii (print_ascii fs) = Some fs.
Proof. exact (stl_ascii_roundtrip fs). Qed.
Print Assumptions C36_stl_ascii_roundtrip.

