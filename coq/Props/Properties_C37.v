(** C37 property theorems (compliant contact forces follow their documented laws): statements only, each closed by
    [exact]; proofs are in C37/C37_Proofs.v, the model in C37/C37_Model.v (hand-written from HuntCrossleyForce.cpp,
    SmoothSphereHalfSpaceForce.cpp, ExponentialSpringForce.cpp, CompliantContactSubsystem.cpp and run against the compiled
    force elements by checks/C37.py on every run; k37_step5 / k37_hollars are regenerated from CompliantContactSubsystem.cpp).
    Over the reals; std::pow is Rpower.  Names: hc_ = HuntCrossleyForce, ss_ = SmoothSphereHalfSpaceForce,
    es_ = ExponentialSpringForce, hz_ = Hertz (CompliantContactSubsystem), bk_ = brick/half-space vertex law,
    cc_ = friction shared by the CompliantContactSubsystem generators. *)
From Coq Require Import ZArith Reals List.
Require Import Num Vec c37_gen C37_Model C37_Proofs.
Import ListNotations.
Local Open Scope R_scope.

Theorem C37_hollars_bounds us ud uv vt vslip : 0 <= ud <= us -> 0 <= uv -> 0 < vt -> 0 <= vslip ->
  0 <= hollars_mu ROps us ud uv vt vslip <= us + uv * vslip.
Proof. exact (hollars_bounds us ud uv vt vslip). Qed.
Print Assumptions C37_hollars_bounds.

Theorem C37_k37_hollars_bounds us ud uv v : 0 <= ud <= us -> 0 <= uv -> 0 <= v ->
  0 <= k37_hollars ROps us ud uv v <= us + uv * v.
Proof. exact (k37_hollars_bounds us ud uv v). Qed.
Print Assumptions C37_k37_hollars_bounds.

Theorem C37_hc_mu_ordered d1 d2 s1 s2 : 0 <= d1 <= s1 -> 0 <= d2 <= s2 -> hc_mu ROps d1 d2 <= hc_mu ROps s1 s2.
Proof. exact (hc_mu_ordered d1 d2 s1 s2). Qed.
Print Assumptions C37_hc_mu_ordered.

Theorem C37_hc_force_decomp p1 p2 vt R x n v :
  let f := hc_f ROps p1 p2 R x (v3_dot ROps v n) in
  hc_force ROps p1 p2 vt R x n v =
    if Rle_dec f 0 then v3_zero ROps
    else v3_add ROps (v3_scale ROps f n) (v3_scale ROps (hc_lam p1 p2 vt f (vtan_of v n)) (vtan_of v n)).
Proof. exact (hc_force_decomp p1 p2 vt R x n v). Qed.
Print Assumptions C37_hc_force_decomp.

Theorem C37_hc_normal_component p1 p2 vt R x n v : v3_dot ROps n n = 1 ->
  v3_dot ROps (hc_force ROps p1 p2 vt R x n v) n = Rmax 0 (hc_f ROps p1 p2 R x (v3_dot ROps v n)).
Proof. exact (hc_normal_component p1 p2 vt R x n v). Qed.
Print Assumptions C37_hc_normal_component.

Theorem C37_hc_normal_never_attractive p1 p2 vt R x n v : v3_dot ROps n n = 1 ->
  0 <= v3_dot ROps (hc_force ROps p1 p2 vt R x n v) n.
Proof. exact (hc_normal_never_attractive p1 p2 vt R x n v). Qed.
Print Assumptions C37_hc_normal_never_attractive.

Theorem C37_hc_zero_without_penetration p1 p2 vt R x n v : x <= 0 -> 0 <= R * hc_k ROps p1 p2 ->
  hc_force ROps p1 p2 vt R x n v = v3_zero ROps.
Proof. exact (hc_zero_without_penetration p1 p2 vt R x n v). Qed.
Print Assumptions C37_hc_zero_without_penetration.

Theorem C37_hc_magnitude_is_documented_formula p1 p2 R x vn : 0 <= R -> 0 <= x -> 0 <= hc_k ROps p1 p2 ->
  let s1 := h_k p2 / (h_k p1 + h_k p2) in
  let k := h_k p1 * s1 in
  let c := h_c p1 * s1 + h_c p2 * (1 - s1) in
  hc_f ROps p1 p2 R x vn = (4/3) * sqrt R * pow32 k * pow32 x * (1 + (3/2) * c * vn).
Proof. exact (hc_magnitude_is_documented_formula p1 p2 R x vn). Qed.
Print Assumptions C37_hc_magnitude_is_documented_formula.

Theorem C37_hc_friction_in_tangent_plane p1 p2 vt f v n : v3_dot ROps n n = 1 ->
  v3_dot ROps (hc_friction ROps p1 p2 vt f (vtan_of v n)) n = 0.
Proof. exact (hc_friction_in_tangent_plane p1 p2 vt f v n). Qed.
Print Assumptions C37_hc_friction_in_tangent_plane.

Theorem C37_hc_friction_opposes_slip p1 p2 vt f vtan : hc_fric_ok p1 -> hc_fric_ok p2 -> 0 < vt -> 0 <= f ->
  v3_dot ROps (v3_neg ROps (hc_friction ROps p1 p2 vt f vtan)) vtan <= 0.
Proof. exact (hc_friction_opposes_slip p1 p2 vt f vtan). Qed.
Print Assumptions C37_hc_friction_opposes_slip.

Theorem C37_hc_friction_le_limit p1 p2 vt f vtan : hc_fric_ok p1 -> hc_fric_ok p2 -> 0 < vt -> 0 <= f ->
  let limit := f * (hc_mu ROps (h_us p1) (h_us p2) + hc_mu ROps (h_uv p1) (h_uv p2) * v3_norm ROps vtan) in
  v3_normSqr ROps (hc_friction ROps p1 p2 vt f vtan) <= limit * limit.
Proof. exact (hc_friction_le_limit p1 p2 vt f vtan). Qed.
Print Assumptions C37_hc_friction_le_limit.

Theorem C37_hc_each_contact_gets_its_law (surfs:list surfaceR) (bodies:list bodyR) (vt:R) cs b : (b < length bodies)%nat ->
  nth b (fst (hc_calcForce ROps surfs bodies vt cs)) (sv_zero ROps) = sv_sum (map (fun c => c_wrench ROps surfs bodies vt c b) cs).
Proof. exact (hc_each_contact_gets_its_law surfs bodies vt cs b). Qed.
Print Assumptions C37_hc_each_contact_gets_its_law.

Theorem C37_hc_contribution_is_law (surfs:list surfaceR) (bodies:list bodyR) (vt:R) c b : c_active ROps surfs bodies c = true ->
  c_b1 ROps surfs c <> c_b2 ROps surfs c ->
  c_wrench ROps surfs bodies vt c b =
    if Nat.eqb b (c_b2 ROps surfs c) then wrench_at ROps (nth b bodies (body0 ROps)) (c_at ROps surfs c) (c_force ROps surfs bodies vt c)
    else if Nat.eqb b (c_b1 ROps surfs c) then wrench_at ROps (nth b bodies (body0 ROps)) (c_at ROps surfs c) (v3_neg ROps (c_force ROps surfs bodies vt c))
    else sv_zero ROps.
Proof. exact (hc_contribution_is_law surfs bodies vt c b). Qed.
Print Assumptions C37_hc_contribution_is_law.

Theorem C37_hc_pe_is_sum (surfs:list surfaceR) (bodies:list bodyR) (vt:R) cs :
  snd (hc_calcForce ROps surfs bodies vt cs) = sumR (map (fun c => if c_point c then c_pe ROps surfs c else 0) cs).
Proof. exact (hc_pe_is_sum surfs bodies vt cs). Qed.
Print Assumptions C37_hc_pe_is_sum.

Theorem C37_ss_normal_attractive_iff p R x vn : ss_ok p -> 0 < R ->
  ss_fhc_smooth ROps Rpower p R x vn < 0 <-> vn < - (2 / (3 * ss_dissipation p)).
Proof. exact (ss_normal_attractive_iff p R x vn). Qed.
Print Assumptions C37_ss_normal_attractive_iff.

Theorem C37_ss_normal_nonneg_partial p R x vn : ss_ok p -> 0 < R ->
  - (2 / (3 * ss_dissipation p)) <= vn -> 0 <= ss_fhc_smooth ROps Rpower p R x vn.
Proof. exact (ss_normal_nonneg_partial p R x vn). Qed.
Print Assumptions C37_ss_normal_nonneg_partial.

Theorem C37_ss_normal_never_attractive_refuted :
  exists p R x vn, ss_ok p /\ 0 < R /\ 0 < x /\ ss_fhc_smooth ROps Rpower p R x vn < 0.
Proof. exact (@ss_normal_never_attractive_refuted). Qed.
Print Assumptions C37_ss_normal_never_attractive_refuted.

Theorem C37_ss_force_decomp p R x n v :
  ss_contact_force ROps Rpower p R x n v =
    v3_add ROps (v3_scale ROps (ss_fhc_smooth ROps Rpower p R x (v3_dot ROps v n)) n)
                (v3_scale ROps (ss_lam p (ss_fhc_smooth ROps Rpower p R x (v3_dot ROps v n)) (vtan_of v n)) (vtan_of v n)).
Proof. exact (ss_force_decomp p R x n v). Qed.
Print Assumptions C37_ss_force_decomp.

Theorem C37_ss_friction_in_tangent_plane p fhc n v : v3_dot ROps n n = 1 ->
  v3_dot ROps (v3_scale ROps (ss_lam p fhc (vtan_of v n)) (vtan_of v n)) n = 0.
Proof. exact (ss_friction_in_tangent_plane p fhc n v). Qed.
Print Assumptions C37_ss_friction_in_tangent_plane.

Theorem C37_ss_friction_opposes_slip p fhc vtan : ss_fric_ok p -> 0 <= fhc ->
  v3_dot ROps (v3_neg ROps (v3_scale ROps (ss_lam p fhc vtan) vtan)) vtan <= 0.
Proof. exact (ss_friction_opposes_slip p fhc vtan). Qed.
Print Assumptions C37_ss_friction_opposes_slip.

Theorem C37_ss_friction_le_limit p fhc vtan : ss_fric_ok p ->
  let limit := fhc * (ss_us p + ss_uv p * ss_vslip ROps Rpower p vtan) in
  v3_normSqr ROps (v3_scale ROps (ss_lam p fhc vtan) vtan) <= limit * limit.
Proof. exact (ss_friction_le_limit p fhc vtan). Qed.
Print Assumptions C37_ss_friction_le_limit.

Theorem C37_ss_fh_pos_cf0_is_hertz p R x : ss_cf p = 0 -> 0 < x -> 0 < R -> 0 < ss_stiffness p ->
  let e := Rpower (ss_stiffness p) (2 / 3) in
  ss_fh_pos ROps Rpower p R x = hc_fH ROps (mkHc e 0 0 0 0) (mkHc e 0 0 0 0) R x.
Proof. exact (ss_fh_pos_cf0_is_hertz p R x). Qed.
Print Assumptions C37_ss_fh_pos_cf0_is_hertz.

Theorem C37_es_normal_props p pz vz : 0 <= e_maxFz p ->
  let '(fe, fd, fz) := es_normal ROps p pz vz in 0 <= fz <= e_maxFz p /\ fz = fe + fd.
Proof. exact (es_normal_props p pz vz). Qed.
Print Assumptions C37_es_normal_props.

Theorem C37_es_normal_never_attractive p pz vz : 0 <= e_maxFz p -> 0 <= snd (es_normal ROps p pz vz).
Proof. exact (es_normal_never_attractive p pz vz). Qed.
Print Assumptions C37_es_normal_never_attractive.

Theorem C37_es_normal_is_documented_formula p pz vz : 0 <= e_maxFz p ->
  let doc := e_d1 p * exp (- e_d2 p * (pz - e_d0 p)) * (1 - e_cz p * vz) in
  snd (es_normal ROps p pz vz) = Rmin (e_maxFz p) (Rmax 0 doc).
Proof. exact (es_normal_is_documented_formula p pz vz). Qed.
Print Assumptions C37_es_normal_is_documented_formula.

Theorem C37_es_friction_le_limit sig p mus muk Ksl fz pxy vxy p0 : 0 <= sig -> 0 <= Ksl <= 1 ->
  let fr := es_friction ROps sig p mus muk Ksl fz pxy vxy p0 in
  v3_normSqr ROps (f_fric fr) <= f_limit fr * f_limit fr.
Proof. exact (es_friction_le_limit sig p mus muk Ksl fz pxy vxy p0). Qed.
Print Assumptions C37_es_friction_le_limit.

Theorem C37_es_friction_in_plane sig p mus muk Ksl fz pxy vxy p0 : v3_2 pxy = 0 -> v3_2 vxy = 0 -> v3_2 p0 = 0 ->
  v3_2 (f_fric (es_friction ROps sig p mus muk Ksl fz pxy vxy p0)) = 0.
Proof. exact (es_friction_in_plane sig p mus muk Ksl fz pxy vxy p0). Qed.
Print Assumptions C37_es_friction_in_plane.

Theorem C37_es_mu_between sig p mus muk Ksl fz pxy vxy p0 : 0 <= Ksl <= 1 -> muk <= mus ->
  muk <= f_mu (es_friction ROps sig p mus muk Ksl fz pxy vxy p0) <= mus.
Proof. exact (es_mu_between sig p mus muk Ksl fz pxy vxy p0). Qed.
Print Assumptions C37_es_mu_between.

Theorem C37_es_limit_is_mu_fz sig p mus muk Ksl fz pxy vxy p0 :
  let fr := es_friction ROps sig p mus muk Ksl fz pxy vxy p0 in f_limit fr = f_mu fr * fz.
Proof. exact (es_limit_is_mu_fz sig p mus muk Ksl fz pxy vxy p0). Qed.
Print Assumptions C37_es_limit_is_mu_fz.

Theorem C37_es_sliding_friction_opposes_slip_partial sig p mus muk fz pxy vxy p0 : 0 <= sig -> 0 <= e_cxy p ->
  v3_dot ROps (f_fric (es_friction ROps sig p mus muk 1 fz pxy vxy p0)) vxy <= 0.
Proof. exact (es_sliding_friction_opposes_slip_partial sig p mus muk fz pxy vxy p0). Qed.
Print Assumptions C37_es_sliding_friction_opposes_slip_partial.

Theorem C37_step5_range x : 0 <= x <= 1 -> 0 <= k37_step5 ROps x <= 1.
Proof. exact (step5_range x). Qed.
Print Assumptions C37_step5_range.

Theorem C37_stribeck_bounds us ud uv v : 0 <= ud <= us -> 0 <= uv -> 0 <= v ->
  0 <= stribeck ROps us ud uv v <= us + uv * v.
Proof. exact (stribeck_bounds us ud uv v). Qed.
Print Assumptions C37_stribeck_bounds.

Theorem C37_cc_mu_ordered d1 d2 s1 s2 : 0 <= d1 <= s1 -> 0 <= d2 <= s2 -> cc_mu ROps d1 d2 <= cc_mu ROps s1 s2.
Proof. exact (cc_mu_ordered d1 d2 s1 s2). Qed.
Print Assumptions C37_cc_mu_ordered.

Theorem C37_cc_friction_props sig m1 m2 vtrans fN velT : cc_fric_ok m1 -> cc_fric_ok m2 -> 0 < vtrans -> 0 <= fN -> 0 <= sig ->
  let '(fF, pF) := cc_friction ROps sig m1 m2 vtrans fN velT in
  let limit := fN * (cc_mu ROps (m_us m1) (m_us m2) + cc_mu ROps (m_uv m1) (m_uv m2) * v3_norm ROps velT) in
  v3_dot ROps fF velT <= 0 /\ v3_normSqr ROps fF <= limit * limit /\ pF = - v3_dot ROps fF velT
  /\ (forall n, v3_dot ROps velT n = 0 -> v3_dot ROps fF n = 0).
Proof. exact (cc_friction_props sig m1 m2 vtrans fN velT). Qed.
Print Assumptions C37_cc_friction_props.

Theorem C37_hz_force_decomp sig m1 m2 vtrans depth n origin Rr e p12 w12 v12 :
  let vel := hz_vel m1 m2 depth n origin p12 w12 v12 in
  let fN := hz_fN m1 m2 depth Rr e (- v3_dot ROps vel n) in
  let r := hz_force ROps sig m1 m2 vtrans depth n origin Rr e p12 w12 v12 in
  (depth <= 0 -> z_valid r = false /\ z_force r = v3_zero ROps) /\
  (0 < depth -> z_valid r = true /\ z_pt r = hz_pt m1 m2 depth n origin /\
     z_force r = if Rle_dec fN 0 then v3_zero ROps
                 else v3_add ROps (v3_scale ROps fN n) (fst (cc_friction ROps sig m1 m2 vtrans fN (vtan_of vel n)))).
Proof. exact (hz_force_decomp sig m1 m2 vtrans depth n origin Rr e p12 w12 v12). Qed.
Print Assumptions C37_hz_force_decomp.

Theorem C37_hz_normal_never_attractive sig m1 m2 vtrans depth n origin R e p12 w12 v12 : v3_dot ROps n n = 1 ->
  let vel := hz_vel m1 m2 depth n origin p12 w12 v12 in
  v3_dot ROps (z_force (hz_force ROps sig m1 m2 vtrans depth n origin R e p12 w12 v12)) n
    = if Rle_dec depth 0 then 0 else Rmax 0 (hz_fN m1 m2 depth R e (- v3_dot ROps vel n)).
Proof. exact (hz_normal_never_attractive sig m1 m2 vtrans depth n origin R e p12 w12 v12). Qed.
Print Assumptions C37_hz_normal_never_attractive.

Theorem C37_hz_magnitude_is_documented_formula m1 m2 depth R e xdot : 0 <= R -> 0 <= depth ->
  let s1 := m_k m2 / (m_k m1 + m_k m2) in let k := m_k m1 * s1 in let c := m_c m1 * s1 + m_c m2 * (1 - s1) in
  0 <= k -> hz_fN m1 m2 depth R e xdot = e * (4 / 3) * sqrt R * pow32 k * pow32 depth * (1 + 3 / 2 * c * xdot).
Proof. exact (hz_magnitude_is_documented_formula m1 m2 depth R e xdot). Qed.
Print Assumptions C37_hz_magnitude_is_documented_formula.

Theorem C37_bk_vertex_law sig mH mB vtrans n pHB w v vH :
  let x := - v3_dot ROps vH n in
  let sB := 1 - m_k mB / (m_k mH + m_k mB) in
  let pt := v3_add ROps vH (v3_scale ROps (x * sB) n) in
  let vel := v3_add ROps v (v3_cross ROps w (v3_sub ROps pt pHB)) in
  let fN := bk_fN mH mB x (- v3_dot ROps vel n) in
  match bk_vertex ROps sig mH mB vtrans n pHB w v vH with
  | None => x <= 0
  | Some (pt', f, _, _, x', xdot') => 0 < x /\ pt' = pt /\ x' = x /\ xdot' = - v3_dot ROps vel n /\
      f = if Rle_dec fN 0 then v3_zero ROps
          else v3_add ROps (v3_scale ROps fN n) (fst (cc_friction ROps sig mH mB vtrans fN (vtan_of vel n)))
  end.
Proof. exact (bk_vertex_law sig mH mB vtrans n pHB w v vH). Qed.
Print Assumptions C37_bk_vertex_law.

Theorem C37_bk_each_vertex_gets_its_law sig mH mB vtrans n pHB w v vs F pe pw :
  bk_loop ROps sig mH mB vtrans n pHB w v vs (F, pe, pw) =
    (sv_add ROps F (sv_sum (map (fun vH => fst (fst (bk_contrib sig mH mB vtrans n pHB w v vH))) vs)),
     pe + sumR (map (fun vH => snd (fst (bk_contrib sig mH mB vtrans n pHB w v vH))) vs),
     pw + sumR (map (fun vH => snd (bk_contrib sig mH mB vtrans n pHB w v vH)) vs)).
Proof. exact (bk_each_vertex_gets_its_law sig mH mB vtrans n pHB w v vs F pe pw). Qed.
Print Assumptions C37_bk_each_vertex_gets_its_law.

Theorem C37_ex_hc_fric_ok : hc_fric_ok ex_p.
Proof. exact (@ex_hc_fric_ok). Qed.
Print Assumptions C37_ex_hc_fric_ok.

Theorem C37_ex_hc_f_positive : hc_f ROps ex_p ex_p 1 1 0 = 4 / 3.
Proof. exact (@ex_hc_f_positive). Qed.
Print Assumptions C37_ex_hc_f_positive.

Theorem C37_ex_hc_sliding_contact_pushes_and_drags :
  v3_dot ROps (hc_force ROps ex_p ex_p (1/100) 1 1 (0,1,0) (1,0,0)) (0,1,0) = 4 / 3.
Proof. exact (@ex_hc_sliding_contact_pushes_and_drags). Qed.
Print Assumptions C37_ex_hc_sliding_contact_pushes_and_drags.

Theorem C37_ex_hc_separating_contact_is_clipped : hc_f ROps ex_p ex_p 1 1 (-2) < 0.
Proof. exact (@ex_hc_separating_contact_is_clipped). Qed.
Print Assumptions C37_ex_hc_separating_contact_is_clipped.

Theorem C37_ex_ss_ok : ss_ok ss_witness /\ ss_fric_ok (mkSs 100000 1 (4/5) (1/2) (1/10) (1/1000) (1/100000) 300 50).
Proof. exact (@ex_ss_ok). Qed.
Print Assumptions C37_ex_ss_ok.

Theorem C37_ex_es_clamped_low : snd (es_normal ROps (mkEs 0 1 1 1 100 1 1) 0 2) = 0.
Proof. exact (@ex_es_clamped_low). Qed.
Print Assumptions C37_ex_es_clamped_low.

Theorem C37_ex_cc_fric_ok : cc_fric_ok (mkMat 1 (1/2) (4/5) (1/2) (1/10)).
Proof. exact (@ex_cc_fric_ok). Qed.
Print Assumptions C37_ex_cc_fric_ok.

Theorem C37_ex_step5_mid : k37_step5 ROps (1/2) = 1 / 2.
Proof. exact (@ex_step5_mid). Qed.
Print Assumptions C37_ex_step5_mid.

