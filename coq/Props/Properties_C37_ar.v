(** C37 property theorems, action and reaction of the compliant contact elements: statements only, each closed by [exact];
    proofs in C37/C37_ar_Proofs.v, model in C37/C37_ar_Model.v (the body-force application step of
    CompliantContactSubsystemImpl::realizeSubsystemDynamicsImpl, hand-written and run against the compiled subsystem by
    checks/C37.py on every run) and C37_Model.v / C37_ef_Model.v.  [net_wrench bodies fs] = total force and total moment
    about the Ground origin of the per-body spatial forces fs, Ground's entry included.  Over the reals. *)
From Coq Require Import ZArith Reals List.
Require Import Num Vec c37_gen C37_Model C37_Proofs C37_ef_Model C37_ef_Proofs C37_ar_Model C37_ar_Proofs.
Import ListNotations.
Local Open Scope R_scope.

Theorem C37_cc_pair_net_zero (b1 b2:bodyR) (c:cforceR) :
  sv_add ROps (shiftO b1 (cc_F1 ROps b1 c)) (shiftO b2 (cc_F2 ROps b2 c)) = sv_zero ROps.
Proof. exact (cc_pair_net_zero b1 b2 c). Qed.
Print Assumptions C37_cc_pair_net_zero.

Theorem C37_point_pair_net_zero (b1 b2:bodyR) pt F :
  sv_add ROps (shiftO b1 (wrench_at ROps b1 pt F)) (shiftO b2 (wrench_at ROps b2 pt (v3_neg ROps F))) = sv_zero ROps.
Proof. exact (point_pair_net_zero b1 b2 pt F). Qed.
Print Assumptions C37_point_pair_net_zero.

Theorem C37_cc_net_wrench_zero bodies (cs:list cforceR) : Forall (cf_ok (length bodies)) cs ->
  net_wrench ROps bodies (cc_bodyForces ROps bodies cs) = sv_zero ROps.
Proof. exact (cc_net_wrench_zero bodies cs). Qed.
Print Assumptions C37_cc_net_wrench_zero.

Theorem C37_hc_net_wrench_zero surfs bodies vt (cs:list contactR) : Forall (hc_ok surfs (length bodies)) cs ->
  net_wrench ROps bodies (fst (hc_calcForce ROps surfs bodies vt cs)) = sv_zero ROps.
Proof. exact (hc_net_wrench_zero surfs bodies vt cs). Qed.
Print Assumptions C37_hc_net_wrench_zero.

Theorem C37_ef_net_wrench_zero bodies vt (cs:list efcontactR) : Forall (ef_ok (length bodies)) cs ->
  net_wrench ROps bodies (fst (ef_calcForce ROps bodies vt cs)) = sv_zero ROps.
Proof. exact (ef_net_wrench_zero bodies vt cs). Qed.
Print Assumptions C37_ef_net_wrench_zero.

Theorem C37_ex_cc_net : net_wrench ROps [mkBody (0,0,0) (0,0,0) (0,0,0); mkBody (1,2,3) (0,0,0) (0,0,0)]
                      (cc_bodyForces ROps [mkBody (0,0,0) (0,0,0) (0,0,0); mkBody (1,2,3) (0,0,0) (0,0,0)] [mkCf 0 1 (1,0,2) (5,6,7) (3,-1,4)]) = sv_zero ROps.
Proof. exact (@ex_cc_net). Qed.
Print Assumptions C37_ex_cc_net.

