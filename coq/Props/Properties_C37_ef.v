(** C37 property theorems, ElasticFoundationForce part: statements only, each closed by [exact]; proofs in
    C37/C37_ef_Proofs.v and C37/C37_ef_Jet.v, model in C37/C37_ef_Model.v (hand-written from
    Simbody/src/ElasticFoundationForce.cpp and run against the compiled element by checks/C37.py on every run, with the
    per-face geometry taken from the implementation).  Over the reals. *)
From Coq Require Import ZArith Reals List.
From Coquelicot Require Import Coquelicot.
Require Import Num Vec c37_gen C37_Model C37_Proofs C37_ef_Model C37_ef_Proofs C37_ef_Jet.
Import ListNotations.
Local Open Scope R_scope.

Theorem C37_ef_force_decomp p vt area d v :
  let dir := ef_dir d in let f := ef_f ROps p area (v3_norm ROps d) (v3_dot ROps v dir) in
  ef_force ROps p vt area d v =
    if Rlt_dec 0 f then v3_add ROps (v3_scale ROps f dir) (v3_scale ROps (ef_lam p vt f (vtan_of v dir)) (vtan_of v dir))
    else v3_zero ROps.
Proof. exact (ef_force_decomp p vt area d v). Qed.
Print Assumptions C37_ef_force_decomp.

Theorem C37_ef_normal_never_attractive p vt area d v : 0 < v3_normSqr ROps d ->
  v3_dot ROps (ef_force ROps p vt area d v) (ef_dir d) = Rmax 0 (ef_f ROps p area (v3_norm ROps d) (v3_dot ROps v (ef_dir d)))
  /\ 0 <= v3_dot ROps (ef_force ROps p vt area d v) (ef_dir d).
Proof. exact (ef_normal_never_attractive p vt area d v). Qed.
Print Assumptions C37_ef_normal_never_attractive.

Theorem C37_ef_magnitude_is_documented_formula p area dist vn : ef_f ROps p area dist vn = ef_k p * area * dist * (1 + ef_c p * vn).
Proof. exact (ef_magnitude_is_documented_formula p area dist vn). Qed.
Print Assumptions C37_ef_magnitude_is_documented_formula.

Theorem C37_ef_friction_props p vt f v dir : ef_fric_ok p -> 0 < vt -> 0 <= f -> v3_dot ROps dir dir = 1 ->
  let fr := v3_scale ROps (ef_lam p vt f (vtan_of v dir)) (vtan_of v dir) in
  let limit := f * (ef_us p + ef_uv p * v3_norm ROps (vtan_of v dir)) in
  v3_dot ROps fr dir = 0 /\ 0 <= v3_dot ROps fr (vtan_of v dir) /\ v3_normSqr ROps fr <= limit * limit.
Proof. exact (ef_friction_props p vt f v dir). Qed.
Print Assumptions C37_ef_friction_props.

Theorem C37_ef_static_force p vt area d : 0 < v3_normSqr ROps d -> 0 <= ef_k p * area ->
  ef_force ROps p vt area d (v3_zero ROps) = v3_scale ROps (ef_k p * area) d.
Proof. exact (ef_static_force p vt area d). Qed.
Print Assumptions C37_ef_static_force.

Theorem C37_ef_total_is_sum_over_faces bodies vt (cs:list efcontactR) b : (b < length bodies)%nat ->
  nth b (fst (ef_calcForce ROps bodies vt cs)) (sv_zero ROps) = sv_sum (map (fun c => ef_contact_wrench bodies vt c b) cs)
  /\ snd (ef_calcForce ROps bodies vt cs) = sumR (map ef_contact_pe cs).
Proof. exact (ef_total_is_sum_over_faces bodies vt cs b). Qed.
Print Assumptions C37_ef_total_is_sum_over_faces.

Theorem C37_ef_scale_rule (c:efcontactR) :
  ef_scale ROps c = match e_par1 c, e_par2 c with Some _, Some _ => 1 / 2 | _, _ => 1 end.
Proof. exact (ef_scale_rule c). Qed.
Print Assumptions C37_ef_scale_rule.

Theorem C37_ex_ef_static : ef_force ROps (mkEf 1000 0 0 0 0) (1/100) (1/2) (0, 3, 4) (0, 0, 0) = (0, 1500, 2000).
Proof. exact (@ex_ef_static). Qed.
Print Assumptions C37_ex_ef_static.


Theorem C37_ef_force_is_minus_gradient_of_pe p vt scale fc e : 0 < v3_normSqr ROps (ef_disp ROps fc) -> 0 <= ef_k p * (scale * fa_area fc) ->
  is_derive (fun t => ef_pe_at p scale fc (v3_add ROps (fa_sp fc) (v3_scale ROps t e))) 0
            (- v3_dot ROps (ef_face_force ROps p vt scale (body0 ROps) (body0 ROps) fc) e).
Proof. exact (ef_force_is_minus_gradient_of_pe p vt scale fc e). Qed.
Print Assumptions C37_ef_force_is_minus_gradient_of_pe.

