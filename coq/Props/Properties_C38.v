(** C38 property theorems (non-contact force elements follow their documented laws; parameter changes take effect
    at the next realization): statements only, each closed by [exact]; proofs are in C38/C38_Proofs.v, the element
    model in C13/C13_Model.v and the cache model in C38/C38_Model.v (both hand-written and run against the compiled
    elements by checks/C38.py on every run).  [wrench_at s f] = force f applied at point s, about the body origin. *)
From Coq Require Import ZArith Reals List.
Require Import Num Vec C13_Model C38_Model C38_Proofs.
Import ListNotations.
Local Open Scope R_scope.

Theorem C38_dirn_is_unit (X1 X2:Transform R) st1 st2 : 0 < v3_normSqr ROps (tp_r ROps X1 st1 X2 st2) ->
  v3_dot ROps (dirn X1 st1 X2 st2) (dirn X1 st1 X2 st2) = 1.
Proof. exact (dirn_is_unit X1 X2 st1 st2). Qed.
Print Assumptions C38_dirn_is_unit.

Theorem C38_dirn_times_sep (X1 X2:Transform R) st1 st2 : sep X1 st1 X2 st2 <> 0 ->
  v3_scale ROps (sep X1 st1 X2 st2) (dirn X1 st1 X2 st2) = tp_r ROps X1 st1 X2 st2.
Proof. exact (dirn_times_sep X1 X2 st1 st2). Qed.
Print Assumptions C38_dirn_times_sep.

Theorem C38_spring_is_documented k x0 (X1 X2:Transform R) st1 st2 : sep X1 st1 X2 st2 <> 0 ->
  let f := k * (sep X1 st1 X2 st2 - x0) in
  spring_F ROps k x0 X1 st1 X2 st2 =
    (wrench_at (st_G ROps X1 st1) (v3_scale ROps f (dirn X1 st1 X2 st2)),
     wrench_at (st_G ROps X2 st2) (v3_scale ROps (- f) (dirn X1 st1 X2 st2)))
  /\ spring_PE ROps k x0 X1 st1 X2 st2 = / 2 * k * ((sep X1 st1 X2 st2 - x0) * (sep X1 st1 X2 st2 - x0)).
Proof. exact (spring_is_documented k x0 X1 X2 st1 st2). Qed.
Print Assumptions C38_spring_is_documented.

Theorem C38_damper_is_documented c (X1 X2:Transform R) V1 V2 st1 st2 :
  let v := v3_dot ROps (v3_sub ROps (st_vel ROps X2 V2 st2) (st_vel ROps X1 V1 st1)) (dirn X1 st1 X2 st2) in
  damper_F ROps c X1 V1 st1 X2 V2 st2 =
    (wrench_at (st_G ROps X1 st1) (v3_scale ROps (c * v) (dirn X1 st1 X2 st2)),
     wrench_at (st_G ROps X2 st2) (v3_scale ROps (- (c * v)) (dirn X1 st1 X2 st2))).
Proof. exact (damper_is_documented c X1 X2 V1 V2 st1 st2). Qed.
Print Assumptions C38_damper_is_documented.

Theorem C38_tpconst_is_documented f (X1 X2:Transform R) st1 st2 :
  tpconst_F ROps f X1 st1 X2 st2 =
    (wrench_at (st_G ROps X1 st1) (v3_scale ROps (- f) (dirn X1 st1 X2 st2)),
     wrench_at (st_G ROps X2 st2) (v3_scale ROps f (dirn X1 st1 X2 st2))).
Proof. exact (tpconst_is_documented f X1 X2 st1 st2). Qed.
Print Assumptions C38_tpconst_is_documented.

Theorem C38_constforce_is_documented (X:Transform R) st f : constforce_F ROps X st f = wrench_at (st_G ROps X st) f.
Proof. exact (constforce_is_documented X st f). Qed.
Print Assumptions C38_constforce_is_documented.

Theorem C38_consttorque_is_documented t : consttorque_F ROps t = (t, (0,0,0)).
Proof. exact (consttorque_is_documented t). Qed.
Print Assumptions C38_consttorque_is_documented.

Theorem C38_gravity_body_force_is_documented d g (b:gbody (T:=R)) :
  let '(m, com, X, ex) := b in
  grav_body_F ROps (gravity_vec ROps g d) b = if ex then sv_zero ROps else wrench_at (st_G ROps X com) (v3_scale ROps (m * g) d).
Proof. exact (gravity_body_force_is_documented d g b). Qed.
Print Assumptions C38_gravity_body_force_is_documented.

Theorem C38_gravity_PE_is_documented nu d g hz (bs:list (gbody (T:=R))) :
  snd (ev_gravity ROps nu d g hz bs) = sumR (map (grav_doc_PE d g hz) bs).
Proof. exact (gravity_PE_is_documented nu d g hz bs). Qed.
Print Assumptions C38_gravity_PE_is_documented.

Theorem C38_gravity_excluded_body_gets_nothing gvec m com X : grav_body_F ROps gvec (m, com, X, true) = sv_zero ROps.
Proof. exact (gravity_excluded_body_gets_nothing gvec m com X). Qed.
Print Assumptions C38_gravity_excluded_body_gets_nothing.

Theorem C38_gravity_ground_gets_nothing gvec bs : hd (sv_zero ROps) (grav_F ROps gvec bs) = sv_zero ROps.
Proof. exact (gravity_ground_gets_nothing gvec bs). Qed.
Print Assumptions C38_gravity_ground_gets_nothing.

Theorem C38_uniformgravity_PE_formula nu g z (bs:list (gbody (T:=R))) :
  snd (ev_uniformgravity ROps nu g z bs) =
  sumR (map (fun b:gbody (T:=R) => let '(m, com, X, ex) := b in
                                   if ex then 0 else - (m * (v3_dot ROps g (pt_G ROps X com) + v3_norm ROps g * z))) bs).
Proof. exact (uniformgravity_PE_formula nu g z bs). Qed.
Print Assumptions C38_uniformgravity_PE_formula.

Theorem C38_uniformgravity_PE_is_documented nu g z (bs:list (gbody (T:=R))) : v3_norm ROps g <> 0 ->
  snd (ev_uniformgravity ROps nu g z bs) =
  sumR (map (fun b:gbody (T:=R) => let '(m, com, X, ex) := b in
        if ex then 0 else m * v3_norm ROps g * (v3_dot ROps (pt_G ROps X com) (v3_neg ROps g) / v3_norm ROps g - z)) bs).
Proof. exact (uniformgravity_PE_is_documented nu g z bs). Qed.
Print Assumptions C38_uniformgravity_PE_is_documented.

Theorem C38_uniformgravity_zero_height nu g z m com (X:Transform R) :
  v3_dot ROps g (pt_G ROps X com) = - (v3_norm ROps g * z) ->
  snd (ev_uniformgravity ROps nu g z [(m, com, X, false)]) = 0.
Proof. exact (uniformgravity_zero_height nu g z m com X). Qed.
Print Assumptions C38_uniformgravity_zero_height.

Theorem C38_uniformgravity_zero_height_witness :
  snd (ev_uniformgravity ROps 0 (0,-2,0) 3 [(1, (0,0,0), (m33_id ROps, (0,3,0)), false)]) = 0.
Proof. exact (@uniformgravity_zero_height_witness). Qed.
Print Assumptions C38_uniformgravity_zero_height_witness.

Theorem C38_mspring_is_documented k q0 q : mspring_f ROps k q0 q = - k * (q - q0) /\ mspring_PE ROps k q0 q = / 2 * k * ((q - q0) * (q - q0)).
Proof. exact (mspring_is_documented k q0 q). Qed.
Print Assumptions C38_mspring_is_documented.

Theorem C38_mdamper_is_documented c u : mdamper_f ROps c u = - c * u.
Proof. exact (mdamper_is_documented c u). Qed.
Print Assumptions C38_mdamper_is_documented.

Theorem C38_globaldamper_is_documented c us : globaldamper_f ROps c us = map (fun u => - c * u) us.
Proof. exact (globaldamper_is_documented c us). Qed.
Print Assumptions C38_globaldamper_is_documented.

Theorem C38_mstop_is_documented k d qlo qhi q qdot : mstop_f ROps k d qlo qhi q qdot = mstop_doc k d qlo qhi q qdot.
Proof. exact (mstop_is_documented k d qlo qhi q qdot). Qed.
Print Assumptions C38_mstop_is_documented.

Theorem C38_mstop_PE_is_documented k qlo qhi q :
  mstop_PE ROps k qlo qhi q = if Rlt_dec qhi q then / 2 * k * ((q-qhi)*(q-qhi)) else if Rlt_dec q qlo then / 2 * k * ((q-qlo)*(q-qlo)) else 0.
Proof. exact (mstop_PE_is_documented k qlo qhi q). Qed.
Print Assumptions C38_mstop_PE_is_documented.

Theorem C38_bushing_is_documented_partial (k c q qd:C13_Model.Vec6) :
  bush_f ROps k c q qd = sv_neg ROps (sv_add ROps (v3_mul ROps (fst k) (fst q), v3_mul ROps (snd k) (snd q))
                                                  (v3_mul ROps (fst c) (fst qd), v3_mul ROps (snd c) (snd qd)))
  /\ bush_PE_of_q ROps k q = / 2 * (v3_dot ROps (fst q) (v3_mul ROps (fst k) (fst q)) + v3_dot ROps (snd q) (v3_mul ROps (snd k) (snd q))).
Proof. exact (bushing_is_documented_partial k c q qd). Qed.
Print Assumptions C38_bushing_is_documented_partial.

Theorem C38_param_change_effective_next_realize (P Q F:Type) (law : P -> Q -> F) (off : F) ops p q e :
  hrun law off true (mkH p q e None) ops = hspec law off (mkH p q e None) ops.
Proof. exact (param_change_effective_next_realize P Q F law off ops p q e). Qed.
Print Assumptions C38_param_change_effective_next_realize.

Theorem C38_param_change_needs_invalidation_refuted :
  exists ops, hrun (fun p q : nat => (p + q)%nat) 0%nat false (mkH 0%nat 0%nat true None) ops
           <> hspec (fun p q : nat => (p + q)%nat) 0%nat (mkH 0%nat 0%nat true None) ops.
Proof. exact (@param_change_needs_invalidation_refuted). Qed.
Print Assumptions C38_param_change_needs_invalidation_refuted.

Theorem C38_history_example :
  hspec (fun p q : nat => (p + q)%nat) 0%nat (mkH 0%nat 0%nat true None) [Report; SetPar 1%nat; Report; SetEnabled false; Report] = [0;1;0]%nat.
Proof. exact (@history_example). Qed.
Print Assumptions C38_history_example.

