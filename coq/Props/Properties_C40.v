(** C40 property theorems: statements only, each closed by [exact]; proofs are in C40/C40_Proofs.v.
    The model C40/C40_Model.v (step-size rule, forward/central quotients, gradient and Jacobian loops) is hand-written
    from SimTKmath/src/Differentiator.cpp and tied to it by the correspondence run of checks/C40.py.
    Partial: the bounds are truncation bounds over R; the rounding part of the error is not covered. *)
From Coq Require Import ZArith Reals List.
From Coquelicot Require Import Coquelicot.
Require Import Num C40_Model C40_Proofs.
Import ListNotations.
Local Open Scope R_scope.

Theorem C40_step_positive order acc cb y0 : 0 < acc -> 0 < cb -> 0 < dstep ROps order acc cb y0.
Proof. exact (step_positive order acc cb y0). Qed.
Print Assumptions C40_step_positive.

Theorem C40_step_scale_aware order acc cb y0 : 0 < acc -> 0 < cb ->
  let h := dstep ROps order acc cb y0 in let A := accfac ROps order acc cb in
  A * Rabs y0 <= h /\ A / 10 <= h /\ (1 / 10 <= Rabs y0 -> h = A * Rabs y0) /\ (Rabs y0 <= 1 / 10 -> h = A / 10) /\
  dstep ROps order acc cb (- y0) = h.
Proof. exact (step_scale_aware order acc cb y0). Qed.
Print Assumptions C40_step_scale_aware.

Theorem C40_step_accuracy_orders acc cb y0 : 0 < acc -> cb * cb * cb = acc ->
  let s := Rmax (Rabs y0) (1 / 10) in
  dstep ROps 1 acc cb y0 * dstep ROps 1 acc cb y0 = acc * (s * s) /\
  dstep ROps 2 acc cb y0 * (dstep ROps 2 acc cb y0 * dstep ROps 2 acc cb y0) = acc * (s * (s * s)).
Proof. exact (step_accuracy_orders acc cb y0). Qed.
Print Assumptions C40_step_accuracy_orders.

Theorem C40_forward_exact_on_affine acc cb a b y0 : 0 < acc -> 0 < cb ->
  diff_scalar ROps 1 acc cb (fun t => a * t + b) y0 (a * y0 + b) = a.
Proof. exact (forward_exact_on_affine acc cb a b y0). Qed.
Print Assumptions C40_forward_exact_on_affine.

Theorem C40_central_exact_on_quadratic acc cb a b c y0 fy0 : 0 < acc -> 0 < cb ->
  diff_scalar ROps 2 acc cb (fun t => a * t * t + b * t + c) y0 fy0 = 2 * a * y0 + b.
Proof. exact (central_exact_on_quadratic acc cb a b c y0 fy0). Qed.
Print Assumptions C40_central_exact_on_quadratic.

Theorem C40_forward_error_on_quadratic acc cb a b c y0 : 0 < acc -> 0 < cb ->
  diff_scalar ROps 1 acc cb (fun t => a * t * t + b * t + c) y0 (a * y0 * y0 + b * y0 + c) - (2 * a * y0 + b)
  = a * dstep ROps 1 acc cb y0.
Proof. exact (forward_error_on_quadratic acc cb a b c y0). Qed.
Print Assumptions C40_forward_error_on_quadratic.

Theorem C40_central_error_on_cubic acc cb a y0 fy0 : 0 < acc -> 0 < cb ->
  diff_scalar ROps 2 acc cb (fun t => a * t * t * t) y0 fy0 - 3 * a * y0 * y0
  = a * (dstep ROps 2 acc cb y0 * dstep ROps 2 acc cb y0).
Proof. exact (central_error_on_cubic acc cb a y0 fy0). Qed.
Print Assumptions C40_central_error_on_cubic.

Theorem C40_grad_length order acc cb f y0 fy0 : length (diff_grad ROps order acc cb f y0 fy0) = length y0.
Proof. exact (grad_length order acc cb f y0 fy0). Qed.
Print Assumptions C40_grad_length.

Theorem C40_grad_component order acc cb f y0 fy0 i : (i < length y0)%nat ->
  nth i (diff_grad ROps order acc cb f y0 fy0) 0 =
  diff_scalar ROps order acc cb (fun t => f (upd i t y0)) (nth i y0 0) fy0.
Proof. exact (grad_component order acc cb f y0 fy0 i). Qed.
Print Assumptions C40_grad_component.

Theorem C40_jac_length order acc cb f y0 fy0 : length (diff_jac ROps order acc cb f y0 fy0) = length y0.
Proof. exact (jac_length order acc cb f y0 fy0). Qed.
Print Assumptions C40_jac_length.

Theorem C40_jac_entry order acc cb f y0 fy0 m i j : 0 < acc -> 0 < cb -> (i < length y0)%nat ->
  (forall y, length (f y) = m) -> length fy0 = m ->
  nth j (nth i (diff_jac ROps order acc cb f y0 fy0) []) 0 =
  diff_scalar ROps order acc cb (fun t => nth j (f (upd i t y0)) 0) (nth i y0 0) (nth j fy0 0).
Proof. exact (jac_entry order acc cb f y0 fy0 m i j). Qed.
Print Assumptions C40_jac_entry.

Theorem C40_grad_forward_exact_on_affine acc cb f y0 i a b : 0 < acc -> 0 < cb -> (i < length y0)%nat ->
  (forall t, f (upd i t y0) = a * t + b) ->
  nth i (diff_grad ROps 1 acc cb f y0 (f y0)) 0 = a.
Proof. exact (grad_forward_exact_on_affine acc cb f y0 i a b). Qed.
Print Assumptions C40_grad_forward_exact_on_affine.

Theorem C40_grad_central_exact_on_quadratic acc cb f y0 fy0 i a b c : 0 < acc -> 0 < cb -> (i < length y0)%nat ->
  (forall t, f (upd i t y0) = a * t * t + b * t + c) ->
  nth i (diff_grad ROps 2 acc cb f y0 fy0) 0 = 2 * a * nth i y0 0 + b.
Proof. exact (grad_central_exact_on_quadratic acc cb f y0 fy0 i a b c). Qed.
Print Assumptions C40_grad_central_exact_on_quadratic.

Theorem C40_jac_forward_exact_on_affine acc cb f y0 m i j a b : 0 < acc -> 0 < cb -> (i < length y0)%nat ->
  (forall y, length (f y) = m) ->
  (forall t, nth j (f (upd i t y0)) 0 = a * t + b) ->
  nth j (nth i (diff_jac ROps 1 acc cb f y0 (f y0)) []) 0 = a.
Proof. exact (jac_forward_exact_on_affine acc cb f y0 m i j a b). Qed.
Print Assumptions C40_jac_forward_exact_on_affine.

Theorem C40_jac_central_exact_on_quadratic acc cb f y0 fy0 m i j a b c : 0 < acc -> 0 < cb -> (i < length y0)%nat ->
  (forall y, length (f y) = m) -> length fy0 = m ->
  (forall t, nth j (f (upd i t y0)) 0 = a * t * t + b * t + c) ->
  nth j (nth i (diff_jac ROps 2 acc cb f y0 fy0) []) 0 = 2 * a * nth i y0 0 + b.
Proof. exact (jac_central_exact_on_quadratic acc cb f y0 fy0 m i j a b c). Qed.
Print Assumptions C40_jac_central_exact_on_quadratic.

Theorem C40_grad_forward_exact_on_affine_all acc cb a b y0 : 0 < acc -> 0 < cb -> length a = length y0 ->
  diff_grad ROps 1 acc cb (fun y => lin a y + b) y0 (lin a y0 + b) = a.
Proof. exact (grad_forward_exact_on_affine_all acc cb a b y0). Qed.
Print Assumptions C40_grad_forward_exact_on_affine_all.

Theorem C40_grad_central_exact_on_affine_all acc cb a b y0 fy0 : 0 < acc -> 0 < cb -> length a = length y0 ->
  diff_grad ROps 2 acc cb (fun y => lin a y + b) y0 fy0 = a.
Proof. exact (grad_central_exact_on_affine_all acc cb a b y0 fy0). Qed.
Print Assumptions C40_grad_central_exact_on_affine_all.

Theorem C40_forward_truncation_bound acc cb (f f1 f2 : R -> R) M y0 : 0 < acc -> 0 < cb ->
  (forall t, is_derive f t (f1 t)) -> (forall t, is_derive f1 t (f2 t)) ->
  let h := dstep ROps 1 acc cb y0 in
  (forall t, y0 <= t <= y0 + h -> Rabs (f2 t) <= M) ->
  Rabs (diff_scalar ROps 1 acc cb f y0 (f y0) - f1 y0) <= h / 2 * M.
Proof. exact (forward_truncation_bound acc cb f f1 f2 M y0). Qed.
Print Assumptions C40_forward_truncation_bound.

Theorem C40_central_truncation_bound acc cb (f f1 f2 f3 : R -> R) M y0 fy0 : 0 < acc -> 0 < cb ->
  (forall t, is_derive f t (f1 t)) -> (forall t, is_derive f1 t (f2 t)) -> (forall t, is_derive f2 t (f3 t)) ->
  let h := dstep ROps 2 acc cb y0 in
  (forall t, y0 - h <= t <= y0 + h -> Rabs (f3 t) <= M) ->
  Rabs (diff_scalar ROps 2 acc cb f y0 fy0 - f1 y0) <= h * h / 6 * M.
Proof. exact (central_truncation_bound acc cb f f1 f2 f3 M y0 fy0). Qed.
Print Assumptions C40_central_truncation_bound.

Theorem C40_forward_error_bound_partial acc cb (f f1 f2 : R -> R) M y0 : 0 < acc -> 0 < cb ->
  (forall t, is_derive f t (f1 t)) -> (forall t, is_derive f1 t (f2 t)) -> (forall t, Rabs (f2 t) <= M) ->
  Rabs (diff_scalar ROps 1 acc cb f y0 (f y0) - f1 y0) <= sqrt acc * Rmax (Rabs y0) (1 / 10) / 2 * M.
Proof. exact (forward_error_bound_partial acc cb f f1 f2 M y0). Qed.
Print Assumptions C40_forward_error_bound_partial.

Theorem C40_central_error_bound_partial acc cb (f f1 f2 f3 : R -> R) M y0 fy0 : 0 < acc -> 0 < cb ->
  (forall t, is_derive f t (f1 t)) -> (forall t, is_derive f1 t (f2 t)) -> (forall t, is_derive f2 t (f3 t)) ->
  (forall t, Rabs (f3 t) <= M) ->
  Rabs (diff_scalar ROps 2 acc cb f y0 fy0 - f1 y0) <= (cb * Rmax (Rabs y0) (1 / 10)) * (cb * Rmax (Rabs y0) (1 / 10)) / 6 * M.
Proof. exact (central_error_bound_partial acc cb f f1 f2 f3 M y0 fy0). Qed.
Print Assumptions C40_central_error_bound_partial.

Theorem C40_grad_forward_truncation_bound acc cb f y0 i (g1 g2 : R -> R) M : 0 < acc -> 0 < cb -> (i < length y0)%nat ->
  (forall t, is_derive (fun t => f (upd i t y0)) t (g1 t)) -> (forall t, is_derive g1 t (g2 t)) -> (forall t, Rabs (g2 t) <= M) ->
  Rabs (nth i (diff_grad ROps 1 acc cb f y0 (f y0)) 0 - g1 (nth i y0 0)) <= sqrt acc * Rmax (Rabs (nth i y0 0)) (1 / 10) / 2 * M.
Proof. exact (grad_forward_truncation_bound acc cb f y0 i g1 g2 M). Qed.
Print Assumptions C40_grad_forward_truncation_bound.

Theorem C40_grad_central_truncation_bound acc cb f y0 fy0 i (g1 g2 g3 : R -> R) M : 0 < acc -> 0 < cb -> (i < length y0)%nat ->
  (forall t, is_derive (fun t => f (upd i t y0)) t (g1 t)) -> (forall t, is_derive g1 t (g2 t)) -> (forall t, is_derive g2 t (g3 t)) ->
  (forall t, Rabs (g3 t) <= M) ->
  Rabs (nth i (diff_grad ROps 2 acc cb f y0 fy0) 0 - g1 (nth i y0 0)) <=
    (cb * Rmax (Rabs (nth i y0 0)) (1 / 10)) * (cb * Rmax (Rabs (nth i y0 0)) (1 / 10)) / 6 * M.
Proof. exact (grad_central_truncation_bound acc cb f y0 fy0 i g1 g2 g3 M). Qed.
Print Assumptions C40_grad_central_truncation_bound.

Theorem C40_jac_forward_truncation_bound acc cb f y0 m i j (g1 g2 : R -> R) M : 0 < acc -> 0 < cb -> (i < length y0)%nat ->
  (forall y, length (f y) = m) ->
  (forall t, is_derive (fun t => nth j (f (upd i t y0)) 0) t (g1 t)) -> (forall t, is_derive g1 t (g2 t)) -> (forall t, Rabs (g2 t) <= M) ->
  Rabs (nth j (nth i (diff_jac ROps 1 acc cb f y0 (f y0)) []) 0 - g1 (nth i y0 0)) <= sqrt acc * Rmax (Rabs (nth i y0 0)) (1 / 10) / 2 * M.
Proof. exact (jac_forward_truncation_bound acc cb f y0 m i j g1 g2 M). Qed.
Print Assumptions C40_jac_forward_truncation_bound.

Theorem C40_jac_central_truncation_bound acc cb f y0 fy0 m i j (g1 g2 g3 : R -> R) M : 0 < acc -> 0 < cb -> (i < length y0)%nat ->
  (forall y, length (f y) = m) -> length fy0 = m ->
  (forall t, is_derive (fun t => nth j (f (upd i t y0)) 0) t (g1 t)) -> (forall t, is_derive g1 t (g2 t)) -> (forall t, is_derive g2 t (g3 t)) ->
  (forall t, Rabs (g3 t) <= M) ->
  Rabs (nth j (nth i (diff_jac ROps 2 acc cb f y0 fy0) []) 0 - g1 (nth i y0 0)) <=
    (cb * Rmax (Rabs (nth i y0 0)) (1 / 10)) * (cb * Rmax (Rabs (nth i y0 0)) (1 / 10)) / 6 * M.
Proof. exact (jac_central_truncation_bound acc cb f y0 fy0 m i j g1 g2 g3 M). Qed.
Print Assumptions C40_jac_central_truncation_bound.

