(** C41 property theorems: statements only, each closed by [exact]; proofs are in C41/C41_Proofs.v.
    The smooth-step helpers k_stepUp ... k_d3stepAny are regenerated from Scalar.h into Gen/step_gen.v on every
    run (translator); the Function objects (Constant/Linear/Polynomial/Sinusoid/Step) are the hand model
    C41/C41_Model.v, tied to Function.h by the correspondence run of checks/C41.py.
    NOT covered (the property is therefore claimed partial): Spline_/SplineFitter/GCVSPL. *)
From Coq Require Import ZArith Reals List.
From Coquelicot Require Import Coquelicot.
Require Import Num Vec step_gen C41_Model C41_Proofs.
Require stepf_gen.
Import ListNotations.
Local Open Scope R_scope.

Theorem C41_dstepUp_is_derive x : is_derive (k_stepUp ROps) x (k_dstepUp ROps x).
Proof. exact (dstepUp_is_derive x). Qed.
Print Assumptions C41_dstepUp_is_derive.

Theorem C41_d2stepUp_is_derive x : is_derive (k_dstepUp ROps) x (k_d2stepUp ROps x).
Proof. exact (d2stepUp_is_derive x). Qed.
Print Assumptions C41_d2stepUp_is_derive.

Theorem C41_d3stepUp_is_derive x : is_derive (k_d2stepUp ROps) x (k_d3stepUp ROps x).
Proof. exact (d3stepUp_is_derive x). Qed.
Print Assumptions C41_d3stepUp_is_derive.

Theorem C41_dstepDown_is_derive x : is_derive (k_stepDown ROps) x (k_dstepDown ROps x).
Proof. exact (dstepDown_is_derive x). Qed.
Print Assumptions C41_dstepDown_is_derive.

Theorem C41_d2stepDown_is_derive x : is_derive (k_dstepDown ROps) x (k_d2stepDown ROps x).
Proof. exact (d2stepDown_is_derive x). Qed.
Print Assumptions C41_d2stepDown_is_derive.

Theorem C41_d3stepDown_is_derive x : is_derive (k_d2stepDown ROps) x (k_d3stepDown ROps x).
Proof. exact (d3stepDown_is_derive x). Qed.
Print Assumptions C41_d3stepDown_is_derive.

Theorem C41_step_end_values :
  k_stepUp ROps 0 = 0 /\ k_stepUp ROps 1 = 1 /\ k_stepDown ROps 0 = 1 /\ k_stepDown ROps 1 = 0.
Proof. exact (@step_end_values). Qed.
Print Assumptions C41_step_end_values.

Theorem C41_step_C2_at_ends :
  k_dstepUp ROps 0 = 0 /\ k_dstepUp ROps 1 = 0 /\ k_d2stepUp ROps 0 = 0 /\ k_d2stepUp ROps 1 = 0 /\
  k_dstepDown ROps 0 = 0 /\ k_dstepDown ROps 1 = 0 /\ k_d2stepDown ROps 0 = 0 /\ k_d2stepDown ROps 1 = 0.
Proof. exact (@step_C2_at_ends). Qed.
Print Assumptions C41_step_C2_at_ends.

Theorem C41_step_d3_jump_at_ends : k_d3stepUp ROps 0 = 60 /\ k_d3stepUp ROps 1 = 60.
Proof. exact (@step_d3_jump_at_ends). Qed.
Print Assumptions C41_step_d3_jump_at_ends.

Theorem C41_dstepUp_nonneg x : 0 <= k_dstepUp ROps x.
Proof. exact (dstepUp_nonneg x). Qed.
Print Assumptions C41_dstepUp_nonneg.

Theorem C41_stepUp_monotone a b : a <= b -> k_stepUp ROps a <= k_stepUp ROps b.
Proof. exact (stepUp_monotone a b). Qed.
Print Assumptions C41_stepUp_monotone.

Theorem C41_stepUp_strictly_monotone a b : 0 <= a -> a < b -> b <= 1 -> k_stepUp ROps a < k_stepUp ROps b.
Proof. exact (stepUp_strictly_monotone a b). Qed.
Print Assumptions C41_stepUp_strictly_monotone.

Theorem C41_stepUp_range x : 0 <= x <= 1 -> 0 <= k_stepUp ROps x <= 1.
Proof. exact (stepUp_range x). Qed.
Print Assumptions C41_stepUp_range.

Theorem C41_stepDown_antitone a b : a <= b -> k_stepDown ROps b <= k_stepDown ROps a.
Proof. exact (stepDown_antitone a b). Qed.
Print Assumptions C41_stepDown_antitone.

Theorem C41_stepDown_is_mirror x : k_stepDown ROps x = k_stepUp ROps (1 - x).
Proof. exact (stepDown_is_mirror x). Qed.
Print Assumptions C41_stepDown_is_mirror.

Theorem C41_stepAny_affine_reparam y0 yr x0 oox x :
  k_stepAny ROps y0 yr x0 oox x = y0 + yr * k_stepUp ROps (clamp01 ((x - x0) * oox)).
Proof. exact (stepAny_affine_reparam y0 yr x0 oox x). Qed.
Print Assumptions C41_stepAny_affine_reparam.

Theorem C41_dstepAny_affine_reparam yr x0 oox x :
  k_dstepAny ROps yr x0 oox x = yr * oox * k_dstepUp ROps (clamp01 ((x - x0) * oox)).
Proof. exact (dstepAny_affine_reparam yr x0 oox x). Qed.
Print Assumptions C41_dstepAny_affine_reparam.

Theorem C41_d2stepAny_affine_reparam yr x0 oox x :
  k_d2stepAny ROps yr x0 oox x = yr * (oox * oox) * k_d2stepUp ROps (clamp01 ((x - x0) * oox)).
Proof. exact (d2stepAny_affine_reparam yr x0 oox x). Qed.
Print Assumptions C41_d2stepAny_affine_reparam.

Theorem C41_d3stepAny_affine_reparam yr x0 oox x :
  k_d3stepAny ROps yr x0 oox x = yr * (oox * (oox * oox)) * k_d3stepUp ROps (clamp01 ((x - x0) * oox)).
Proof. exact (d3stepAny_affine_reparam yr x0 oox x). Qed.
Print Assumptions C41_d3stepAny_affine_reparam.

Theorem C41_stepAny_end_values y0 yr x0 x1 x : x0 <> x1 ->
  ((x - x0) / (x1 - x0) <= 0 -> k_stepAny ROps y0 yr x0 (1 / (x1 - x0)) x = y0) /\
  (1 <= (x - x0) / (x1 - x0) -> k_stepAny ROps y0 yr x0 (1 / (x1 - x0)) x = y0 + yr) /\
  k_stepAny ROps y0 yr x0 (1 / (x1 - x0)) x0 = y0 /\ k_stepAny ROps y0 yr x0 (1 / (x1 - x0)) x1 = y0 + yr.
Proof. exact (stepAny_end_values y0 yr x0 x1 x). Qed.
Print Assumptions C41_stepAny_end_values.

Theorem C41_stepAny_monotone y0 yr x0 oox a b : 0 <= yr -> 0 <= oox -> a <= b ->
  k_stepAny ROps y0 yr x0 oox a <= k_stepAny ROps y0 yr x0 oox b.
Proof. exact (stepAny_monotone y0 yr x0 oox a b). Qed.
Print Assumptions C41_stepAny_monotone.

Theorem C41_stepAny_range y0 yr x0 oox x : 0 <= yr -> y0 <= k_stepAny ROps y0 yr x0 oox x <= y0 + yr.
Proof. exact (stepAny_range y0 yr x0 oox x). Qed.
Print Assumptions C41_stepAny_range.

Theorem C41_dstepAny_is_derive y0 yr x0 oox x :
  is_derive (fun t => k_stepAny ROps y0 yr x0 oox t) x (k_dstepAny ROps yr x0 oox x).
Proof. exact (dstepAny_is_derive y0 yr x0 oox x). Qed.
Print Assumptions C41_dstepAny_is_derive.

Theorem C41_d2stepAny_is_derive yr x0 oox x :
  is_derive (fun t => k_dstepAny ROps yr x0 oox t) x (k_d2stepAny ROps yr x0 oox x).
Proof. exact (d2stepAny_is_derive yr x0 oox x). Qed.
Print Assumptions C41_d2stepAny_is_derive.

Theorem C41_d3stepAny_is_derive_inside yr x0 oox x : 0 < (x - x0) * oox < 1 ->
  is_derive (fun t => k_d2stepAny ROps yr x0 oox t) x (k_d3stepAny ROps yr x0 oox x).
Proof. exact (d3stepAny_is_derive_inside yr x0 oox x). Qed.
Print Assumptions C41_d3stepAny_is_derive_inside.

Theorem C41_d2stepAny_continuous yr x0 oox x : continuous (fun t => k_d2stepAny ROps yr x0 oox t) x.
Proof. exact (d2stepAny_continuous yr x0 oox x). Qed.
Print Assumptions C41_d2stepAny_continuous.

Theorem C41_d2stepAny_flat_outside yr x0 oox x : (x - x0) * oox < 0 \/ 1 < (x - x0) * oox ->
  is_derive (fun t => k_d2stepAny ROps yr x0 oox t) x 0.
Proof. exact (d2stepAny_flat_outside yr x0 oox x). Qed.
Print Assumptions C41_d2stepAny_flat_outside.

Theorem C41_float_overloads_same_formulas T (K : NumOps T) :
  (forall x, stepf_gen.k_stepUp K x = k_stepUp K x) /\ (forall x, stepf_gen.k_dstepUp K x = k_dstepUp K x) /\
  (forall x, stepf_gen.k_d2stepUp K x = k_d2stepUp K x) /\ (forall x, stepf_gen.k_d3stepUp K x = k_d3stepUp K x) /\
  (forall x, stepf_gen.k_stepDown K x = k_stepDown K x) /\ (forall x, stepf_gen.k_dstepDown K x = k_dstepDown K x) /\
  (forall x, stepf_gen.k_d2stepDown K x = k_d2stepDown K x) /\ (forall x, stepf_gen.k_d3stepDown K x = k_d3stepDown K x) /\
  (forall y0 yr x0 oox x, stepf_gen.k_stepAny K y0 yr x0 oox x = k_stepAny K y0 yr x0 oox x) /\
  (forall yr x0 oox x, stepf_gen.k_dstepAny K yr x0 oox x = k_dstepAny K yr x0 oox x) /\
  (forall yr x0 oox x, stepf_gen.k_d2stepAny K yr x0 oox x = k_d2stepAny K yr x0 oox x) /\
  (forall yr x0 oox x, stepf_gen.k_d3stepAny K yr x0 oox x = k_d3stepAny K yr x0 oox x).
Proof. exact (float_overloads_same_formulas T K). Qed.
Print Assumptions C41_float_overloads_same_formulas.

