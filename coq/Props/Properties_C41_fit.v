(** C41 property theorems, part 4 (spline fitting, specification level): statements only; proofs in C41/C41_spline_Fit.v.
    These are facts about the minimisation problem a smoothing spline solves (they justify the "polynomial reproduction"
    certificate evaluated on the implementation by checks/C41.py); the fitting code gcvspl_ itself is NOT modelled. *)
From Coq Require Import ZArith Reals List.
From Coquelicot Require Import Coquelicot.
Require Import Num step_gen C41_Model C41_Proofs C41_spline_Fit.
Local Open Scope R_scope.

Theorem C41_smoothing_objective_zero_on_polynomial_data p m a b cs pts : (length cs <= m)%nat ->
  List.Forall (fun q => snd (fst q) = poly_value ROps cs (fst (fst q))) pts ->
  objective p m a b pts (poly_value ROps cs) = 0.
Proof. exact (smoothing_objective_zero_on_polynomial_data p m a b cs pts). Qed.
Print Assumptions C41_smoothing_objective_zero_on_polynomial_data.

Theorem C41_smoothing_polynomial_is_minimiser p m a b cs pts s : (length cs <= m)%nat -> 0 <= p -> a <= b ->
  List.Forall (fun q => snd (fst q) = poly_value ROps cs (fst (fst q))) pts -> List.Forall (fun q => 0 < snd q) pts ->
  ex_RInt (fun t => Derive_n s m t * Derive_n s m t) a b ->
  objective p m a b pts (poly_value ROps cs) <= objective p m a b pts s /\
  (objective p m a b pts s = 0 -> List.Forall (fun q => s (fst (fst q)) = snd (fst q)) pts).
Proof. exact (smoothing_polynomial_is_minimiser p m a b cs pts s). Qed.
Print Assumptions C41_smoothing_polynomial_is_minimiser.

