(** C41 property theorems, part 2 (Function objects): statements only, each closed by [exact]; proofs are in C41/C41_Proofs.v.
    The smooth-step helpers k_stepUp ... k_d3stepAny are regenerated from Scalar.h into Gen/step_gen.v on every
    run (translator); the Function objects (Constant/Linear/Polynomial/Sinusoid/Step) are the hand model
    C41/C41_Model.v, tied to Function.h by the correspondence run of checks/C41.py.
    NOT covered (the property is therefore claimed partial): Spline_/SplineFitter/GCVSPL. *)
From Coq Require Import ZArith Reals List.
From Coquelicot Require Import Coquelicot.
Require Import Num Vec step_gen C41_Model C41_Proofs.
Import ListNotations.
Local Open Scope R_scope.

Theorem C41_Polynomial_deriv_every_order cs k x :
  is_derive_n (poly_value ROps cs) k x (poly_deriv ROps cs k x).
Proof. exact (Polynomial_deriv_every_order cs k x). Qed.
Print Assumptions C41_Polynomial_deriv_every_order.

Theorem C41_Polynomial_value_is_sum cs x : poly_value ROps cs x = pd 0 cs x.
Proof. exact (Polynomial_value_is_sum cs x). Qed.
Print Assumptions C41_Polynomial_value_is_sum.

Theorem C41_Sinusoid_deriv_every_order a w p n t :
  is_derive_n (sin_value ROps a w p) n t (sin_deriv ROps a w p n t).
Proof. exact (Sinusoid_deriv_every_order a w p n t). Qed.
Print Assumptions C41_Sinusoid_deriv_every_order.

Theorem C41_Linear_partials cs dc i x : length cs = S (length x) -> (i < length x)%nat ->
  is_derive (fun t => linF cs dc (upd i t x)) (nth i x 0) (lin_deriv ROps cs (i :: dc) x).
Proof. exact (Linear_partials cs dc i x). Qed.
Print Assumptions C41_Linear_partials.

Theorem C41_Linear_value_is_affine cs x : lin_value ROps cs x = dotp x cs.
Proof. exact (Linear_value_is_affine cs x). Qed.
Print Assumptions C41_Linear_value_is_affine.

Theorem C41_Constant_partials v dc i x :
  is_derive (fun t => constF v dc (upd i t x)) (nth i x 0) (const_deriv ROps v (i :: dc) x).
Proof. exact (Constant_partials v dc i x). Qed.
Print Assumptions C41_Constant_partials.

Theorem C41_Step_value_is_stepAny y0 y1 x0 x1 x : x0 <> x1 ->
  step_value ROps y0 y1 x0 x1 x = k_stepAny ROps y0 (y1 - y0) x0 (1 / (x1 - x0)) x.
Proof. exact (Step_value_is_stepAny y0 y1 x0 x1 x). Qed.
Print Assumptions C41_Step_value_is_stepAny.

Theorem C41_Step_deriv1_is_dstepAny y0 y1 x0 x1 x : x0 <> x1 ->
  step_deriv ROps y0 y1 x0 x1 1 x = Some (k_dstepAny ROps (y1 - y0) x0 (1 / (x1 - x0)) x).
Proof. exact (Step_deriv1_is_dstepAny y0 y1 x0 x1 x). Qed.
Print Assumptions C41_Step_deriv1_is_dstepAny.

Theorem C41_Step_deriv2_is_d2stepAny y0 y1 x0 x1 x : x0 <> x1 ->
  step_deriv ROps y0 y1 x0 x1 2 x = Some (k_d2stepAny ROps (y1 - y0) x0 (1 / (x1 - x0)) x).
Proof. exact (Step_deriv2_is_d2stepAny y0 y1 x0 x1 x). Qed.
Print Assumptions C41_Step_deriv2_is_d2stepAny.

Theorem C41_Step_deriv3 y0 y1 x0 x1 x : x0 <> x1 ->
  step_deriv ROps y0 y1 x0 x1 3 x =
    Some (if Rlt_dec 0 ((x - x0) / (x1 - x0)) then if Rlt_dec ((x - x0) / (x1 - x0)) 1
          then k_d3stepAny ROps (y1 - y0) x0 (1 / (x1 - x0)) x else 0 else 0).
Proof. exact (Step_deriv3 y0 y1 x0 x1 x). Qed.
Print Assumptions C41_Step_deriv3.

Theorem C41_Step_deriv_other_orders_throw y0 y1 x0 x1 k x : (k = 0 \/ 4 <= k)%nat -> step_deriv ROps y0 y1 x0 x1 k x = None.
Proof. exact (Step_deriv_other_orders_throw y0 y1 x0 x1 k x). Qed.
Print Assumptions C41_Step_deriv_other_orders_throw.

Theorem C41_Step_deriv1_is_derive y0 y1 x0 x1 x : x0 <> x1 ->
  is_derive (step_value ROps y0 y1 x0 x1) x (stepD y0 y1 x0 x1 1 x).
Proof. exact (Step_deriv1_is_derive y0 y1 x0 x1 x). Qed.
Print Assumptions C41_Step_deriv1_is_derive.

Theorem C41_Step_deriv2_is_derive y0 y1 x0 x1 x : x0 <> x1 ->
  is_derive (stepD y0 y1 x0 x1 1) x (stepD y0 y1 x0 x1 2 x).
Proof. exact (Step_deriv2_is_derive y0 y1 x0 x1 x). Qed.
Print Assumptions C41_Step_deriv2_is_derive.

Theorem C41_Step_deriv2_continuous y0 y1 x0 x1 x : x0 <> x1 -> continuous (stepD y0 y1 x0 x1 2) x.
Proof. exact (Step_deriv2_continuous y0 y1 x0 x1 x). Qed.
Print Assumptions C41_Step_deriv2_continuous.

Theorem C41_Step_deriv3_is_derive y0 y1 x0 x1 x : x0 <> x1 -> x <> x0 -> x <> x1 ->
  is_derive (stepD y0 y1 x0 x1 2) x (stepD y0 y1 x0 x1 3 x).
Proof. exact (Step_deriv3_is_derive y0 y1 x0 x1 x). Qed.
Print Assumptions C41_Step_deriv3_is_derive.

Theorem C41_Step_end_values y0 y1 x0 x1 x : x0 <> x1 ->
  ((x - x0) / (x1 - x0) <= 0 -> step_value ROps y0 y1 x0 x1 x = y0) /\
  (1 <= (x - x0) / (x1 - x0) -> step_value ROps y0 y1 x0 x1 x = y1) /\
  step_value ROps y0 y1 x0 x1 x0 = y0 /\ step_value ROps y0 y1 x0 x1 x1 = y1.
Proof. exact (Step_end_values y0 y1 x0 x1 x). Qed.
Print Assumptions C41_Step_end_values.

Theorem C41_Step_end_values_forward y0 y1 x0 x1 x : x0 < x1 ->
  (x <= x0 -> step_value ROps y0 y1 x0 x1 x = y0) /\ (x1 <= x -> step_value ROps y0 y1 x0 x1 x = y1).
Proof. exact (Step_end_values_forward y0 y1 x0 x1 x). Qed.
Print Assumptions C41_Step_end_values_forward.

Theorem C41_Step_end_values_reversed y0 y1 x0 x1 x : x1 < x0 ->
  (x0 <= x -> step_value ROps y0 y1 x0 x1 x = y0) /\ (x <= x1 -> step_value ROps y0 y1 x0 x1 x = y1).
Proof. exact (Step_end_values_reversed y0 y1 x0 x1 x). Qed.
Print Assumptions C41_Step_end_values_reversed.

Theorem C41_Step_monotone y0 y1 x0 x1 a b : x0 < x1 -> y0 <= y1 -> a <= b ->
  step_value ROps y0 y1 x0 x1 a <= step_value ROps y0 y1 x0 x1 b.
Proof. exact (Step_monotone y0 y1 x0 x1 a b). Qed.
Print Assumptions C41_Step_monotone.

Theorem C41_Step_range y0 y1 x0 x1 x : x0 <> x1 -> y0 <= y1 -> y0 <= step_value ROps y0 y1 x0 x1 x <= y1.
Proof. exact (Step_range y0 y1 x0 x1 x). Qed.
Print Assumptions C41_Step_range.

Theorem C41_self_consistent_partial :
  (forall cs k x, is_derive_n (poly_value ROps cs) k x (poly_deriv ROps cs k x)) /\
  (forall a w p n t, is_derive_n (sin_value ROps a w p) n t (sin_deriv ROps a w p n t)) /\
  (forall cs dc i x, length cs = S (length x) -> (i < length x)%nat ->
     is_derive (fun t => linF cs dc (upd i t x)) (nth i x 0) (lin_deriv ROps cs (i :: dc) x)) /\
  (forall v dc i x, is_derive (fun t => constF v dc (upd i t x)) (nth i x 0) (const_deriv ROps v (i :: dc) x)) /\
  (forall y0 y1 x0 x1 x, x0 <> x1 ->
     is_derive (step_value ROps y0 y1 x0 x1) x (stepD y0 y1 x0 x1 1 x) /\
     is_derive (stepD y0 y1 x0 x1 1) x (stepD y0 y1 x0 x1 2 x) /\
     continuous (stepD y0 y1 x0 x1 2) x /\
     (x <> x0 -> x <> x1 -> is_derive (stepD y0 y1 x0 x1 2) x (stepD y0 y1 x0 x1 3 x))) /\
  (forall y0 y1 x0 x1 a b, x0 < x1 -> y0 <= y1 -> a <= b ->
     step_value ROps y0 y1 x0 x1 a <= step_value ROps y0 y1 x0 x1 b) /\
  (forall y0 y1 x0 x1 x, x0 <> x1 ->
     ((x - x0) / (x1 - x0) <= 0 -> step_value ROps y0 y1 x0 x1 x = y0) /\
     (1 <= (x - x0) / (x1 - x0) -> step_value ROps y0 y1 x0 x1 x = y1)) /\
  (forall a b, a <= b -> k_stepUp ROps a <= k_stepUp ROps b) /\
  (forall y0 yr x0 oox x, is_derive (fun t => k_stepAny ROps y0 yr x0 oox t) x (k_dstepAny ROps yr x0 oox x) /\
     is_derive (fun t => k_dstepAny ROps yr x0 oox t) x (k_d2stepAny ROps yr x0 oox x) /\
     continuous (fun t => k_d2stepAny ROps yr x0 oox t) x).
Proof. exact (@self_consistent_partial). Qed.
Print Assumptions C41_self_consistent_partial.

