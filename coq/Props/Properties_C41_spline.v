(** C41 property theorems, part 3 (splines): statements only, each closed by [exact]; proofs are in C41/C41_spline_Proofs.v and
    C41/C41_spline_Deg3.v.  The model C41/C41_spline_Model.v (search_, SimTK_splder_, GCVSPLUtil::splder, Spline_ dispatch) is
    hand-written from SimTKmath/Geometry/src/gcvspl.cpp and tied to it by the spline correspondence run of checks/C41.py
    (knots and coefficients produced by the implementation's SplineFitter; the fitting itself is not modelled).
    Partial: derivative consistency / continuity proved for degrees 1 and 3; degrees 5, 7 tied by correspondence only. *)
From Coq Require Import ZArith Reals List.
From Coquelicot Require Import Coquelicot.
Require Import Num C41_spline_Model C41_spline_Proofs C41_spline_Deg3.
Local Open Scope Z_scope.

Theorem C41_order_above_degree_zero ider m n t x c l : 2 * m <= ider -> splder_at ROps ider m n t x c l = 0%R.
Proof. exact (order_above_degree_zero ider m n t x c l). Qed.
Print Assumptions C41_order_above_degree_zero.

Theorem C41_spline_order_above_degree_zero degree xs cs order t guess : degree < order ->
  spline_deriv ROps degree xs cs order t guess = 0%R.
Proof. exact (spline_order_above_degree_zero degree xs cs order t guess). Qed.
Print Assumptions C41_spline_order_above_degree_zero.

Theorem C41_splder_at_linear_in_coefficients a b ider m n t x c1 c2 l :
  splder_at ROps ider m n t x (fun j => (a * c1 j + b * c2 j)%R) l =
  (a * splder_at ROps ider m n t x c1 l + b * splder_at ROps ider m n t x c2 l)%R.
Proof. exact (splder_at_linear_in_coefficients a b ider m n t x c1 c2 l). Qed.
Print Assumptions C41_splder_at_linear_in_coefficients.

Theorem C41_search_spec n x t l0 : 2 <= n -> knots_increasing n x ->
  let l := search ROps n x t l0 in
  ((t < x 1%Z)%R -> l = 0) /\ ((x n <= t)%R -> l = n) /\
  ((x 1%Z <= t < x n)%R -> 1 <= l < n /\ (x l <= t < x (l + 1)%Z)%R).
Proof. exact (search_spec n x t l0). Qed.
Print Assumptions C41_search_spec.

Theorem C41_search_guess_irrelevant n x t l0 l0' : 2 <= n -> knots_increasing n x ->
  search ROps n x t l0 = search ROps n x t l0'.
Proof. exact (search_guess_irrelevant n x t l0 l0'). Qed.
Print Assumptions C41_search_guess_irrelevant.

Theorem C41_search_in_interval n x t l l0 : 2 <= n -> knots_increasing n x -> 1 <= l < n -> (x l <= t < x (l + 1)%Z)%R ->
  search ROps n x t l0 = l.
Proof. exact (search_in_interval n x t l l0). Qed.
Print Assumptions C41_search_in_interval.

Theorem C41_deg1_linear_interpolation n l x c t : 1 <= l <= n - 1 ->
  splder_at ROps 0 1 n t x c l = (c (l + 1)%Z + (x (l + 1)%Z - t) * (c l - c (l + 1)%Z) / (x (l + 1)%Z - x l))%R /\
  splder_at ROps 1 1 n t x c l = ((c (l + 1)%Z - c l) / (x (l + 1)%Z - x l))%R.
Proof. exact (deg1_linear_interpolation n l x c t). Qed.
Print Assumptions C41_deg1_linear_interpolation.

Theorem C41_deg1_derivative_chain n l x c t : 1 <= l <= n - 1 -> knots_increasing n x ->
  is_derive (fun t => splder_at ROps 0 1 n t x c l) t (splder_at ROps 1 1 n t x c l) /\
  is_derive (fun t => splder_at ROps 1 1 n t x c l) t (splder_at ROps 2 1 n t x c l).
Proof. exact (deg1_derivative_chain n l x c t). Qed.
Print Assumptions C41_deg1_derivative_chain.

Theorem C41_deg1_interpolates n x c : 2 <= n -> knots_increasing n x ->
  (forall l, 1 <= l <= n - 1 -> splder_at ROps 0 1 n (x l) x c l = c l /\ splder_at ROps 0 1 n (x (l + 1)) x c l = c (l + 1)) /\
  splder_at ROps 0 1 n (x n) x c n = c n.
Proof. exact (deg1_interpolates n x c). Qed.
Print Assumptions C41_deg1_interpolates.

Theorem C41_deg1_value_continuous n l x c : 1 <= l <= n - 2 -> knots_increasing n x ->
  splder_at ROps 0 1 n (x (l + 1)) x c l = splder_at ROps 0 1 n (x (l + 1)) x c (l + 1).
Proof. exact (deg1_value_continuous n l x c). Qed.
Print Assumptions C41_deg1_value_continuous.

Theorem C41_deg1_spline_derivative_inside n l x c (g : R -> Z) t0 : 2 <= n -> knots_increasing n x -> 1 <= l < n ->
  (x l < t0 < x (l + 1)%Z)%R ->
  is_derive (fun t => splder ROps 0 1 n t x c (g t)) t0 (splder ROps 1 1 n t0 x c (g t0)) /\
  is_derive (fun t => splder ROps 1 1 n t x c (g t)) t0 (splder ROps 2 1 n t0 x c (g t0)).
Proof. exact (deg1_spline_derivative_inside n l x c g t0). Qed.
Print Assumptions C41_deg1_spline_derivative_inside.



Theorem C41_deg3_derivative_chain n l x c t : 4 <= n -> 1 <= l <= n - 1 -> knots_increasing n x ->
  is_derive (fun t => splder_at ROps 0 2 n t x c l) t (splder_at ROps 1 2 n t x c l) /\
  is_derive (fun t => splder_at ROps 1 2 n t x c l) t (splder_at ROps 2 2 n t x c l) /\
  is_derive (fun t => splder_at ROps 2 2 n t x c l) t (splder_at ROps 3 2 n t x c l) /\
  is_derive (fun t => splder_at ROps 3 2 n t x c l) t (splder_at ROps 4 2 n t x c l).
Proof. exact (deg3_derivative_chain n l x c t). Qed.
Print Assumptions C41_deg3_derivative_chain.

Theorem C41_deg3_C2_at_knots n l x c : 4 <= n -> 1 <= l <= n - 2 -> knots_increasing n x ->
  splder_at ROps 0 2 n (x (l + 1)) x c l = splder_at ROps 0 2 n (x (l + 1)) x c (l + 1) /\
  splder_at ROps 1 2 n (x (l + 1)) x c l = splder_at ROps 1 2 n (x (l + 1)) x c (l + 1) /\
  splder_at ROps 2 2 n (x (l + 1)) x c l = splder_at ROps 2 2 n (x (l + 1)) x c (l + 1).
Proof. exact (deg3_C2_at_knots n l x c). Qed.
Print Assumptions C41_deg3_C2_at_knots.

Theorem C41_deg3_value_at_last_knot n x c : 4 <= n -> knots_increasing n x ->
  splder_at ROps 0 2 n (x n) x c n = splder_at ROps 0 2 n (x n) x c (n - 1).
Proof. exact (deg3_value_at_last_knot n x c). Qed.
Print Assumptions C41_deg3_value_at_last_knot.

Theorem C41_deg3_spline_derivative_inside n l x c (g : R -> Z) t0 : 4 <= n -> knots_increasing n x -> 1 <= l < n ->
  (x l < t0 < x (l + 1)%Z)%R ->
  is_derive (fun t => splder ROps 0 2 n t x c (g t)) t0 (splder ROps 1 2 n t0 x c (g t0)) /\
  is_derive (fun t => splder ROps 1 2 n t x c (g t)) t0 (splder ROps 2 2 n t0 x c (g t0)) /\
  is_derive (fun t => splder ROps 2 2 n t x c (g t)) t0 (splder ROps 3 2 n t0 x c (g t0)) /\
  is_derive (fun t => splder ROps 3 2 n t x c (g t)) t0 (splder ROps 4 2 n t0 x c (g t0)).
Proof. exact (deg3_spline_derivative_inside n l x c g t0). Qed.
Print Assumptions C41_deg3_spline_derivative_inside.

Theorem C41_deg3_reported_at_knot n l x c l0 k : 4 <= n -> knots_increasing n x -> 1 <= l <= n - 2 -> 0 <= k <= 2 ->
  splder ROps k 2 n (x (l + 1)) x c l0 = splder_at ROps k 2 n (x (l + 1)) x c l.
Proof. exact (deg3_reported_at_knot n l x c l0 k). Qed.
Print Assumptions C41_deg3_reported_at_knot.

Theorem C41_spline_evaluation_consistent_partial :
  (forall n l x c (g : R -> Z) t0, 2 <= n -> knots_increasing n x -> 1 <= l < n -> (x l < t0 < x (l + 1)%Z)%R ->
     is_derive (fun t => splder ROps 0 1 n t x c (g t)) t0 (splder ROps 1 1 n t0 x c (g t0)) /\
     is_derive (fun t => splder ROps 1 1 n t x c (g t)) t0 (splder ROps 2 1 n t0 x c (g t0))) /\
  (forall n l x c (g : R -> Z) t0, 4 <= n -> knots_increasing n x -> 1 <= l < n -> (x l < t0 < x (l + 1)%Z)%R ->
     is_derive (fun t => splder ROps 0 2 n t x c (g t)) t0 (splder ROps 1 2 n t0 x c (g t0)) /\
     is_derive (fun t => splder ROps 1 2 n t x c (g t)) t0 (splder ROps 2 2 n t0 x c (g t0)) /\
     is_derive (fun t => splder ROps 2 2 n t x c (g t)) t0 (splder ROps 3 2 n t0 x c (g t0)) /\
     is_derive (fun t => splder ROps 3 2 n t x c (g t)) t0 (splder ROps 4 2 n t0 x c (g t0))) /\
  (forall n l x c, 4 <= n -> 1 <= l <= n - 2 -> knots_increasing n x ->
     splder_at ROps 0 2 n (x (l + 1)) x c l = splder_at ROps 0 2 n (x (l + 1)) x c (l + 1) /\
     splder_at ROps 1 2 n (x (l + 1)) x c l = splder_at ROps 1 2 n (x (l + 1)) x c (l + 1) /\
     splder_at ROps 2 2 n (x (l + 1)) x c l = splder_at ROps 2 2 n (x (l + 1)) x c (l + 1)) /\
  (forall n l x c, 1 <= l <= n - 2 -> knots_increasing n x ->
     splder_at ROps 0 1 n (x (l + 1)) x c l = splder_at ROps 0 1 n (x (l + 1)) x c (l + 1)) /\
  (forall ider m n t x c l, 2 * m <= ider -> splder_at ROps ider m n t x c l = 0%R) /\
  (forall a b ider m n t x c1 c2 l,
     splder_at ROps ider m n t x (fun j => (a * c1 j + b * c2 j)%R) l =
     (a * splder_at ROps ider m n t x c1 l + b * splder_at ROps ider m n t x c2 l)%R).
Proof. exact (@spline_evaluation_consistent_partial). Qed.
Print Assumptions C41_spline_evaluation_consistent_partial.

