(** C42 property theorems: statements only, each closed by [exact]; proofs are in C42/C42_Theorems.v
    (helpers in C42/C42_Proofs.v, C42/C42_Final.v), the model is C42/C42_Model.v (tied to the code by the
    correspondence run of checks/C42.py). *)
From Coq Require Import List ZArith Bool Arith.
Import ListNotations.
Require Import C42_Model C42_Proofs C42_Final C42_Fuel C42_Base C42_Theorems.

Theorem C42_each_body_mobilized_once fuel inp g : generate fuel inp = Ok g ->
  g_nb g = S (length (in_bodies inp)) /\
  (forall b, 1 <= b < g_nb g + length (g_slaves g) -> occ (fun m => Nat.eqb (moutb m) b) (g_mobs g) = 1) /\
  (forall m, In m (g_mobs g) -> 1 <= moutb m < g_nb g + length (g_slaves g)).
Proof. exact (each_body_mobilized_once fuel inp g). Qed.
Print Assumptions C42_each_body_mobilized_once.

Theorem C42_inboard_first fuel inp g : generate fuel inp = Ok g ->
  forall i m, nth_error (g_mobs g) i = Some m ->
  (minb m = 0 /\ mlevel m = 1) \/
  (exists i' m', i' < i /\ nth_error (g_mobs g) i' = Some m' /\ moutb m' = minb m /\ mlevel m = S (mlevel m')).
Proof. exact (inboard_first fuel inp g). Qed.
Print Assumptions C42_inboard_first.

Theorem C42_each_joint_once fuel inp g : generate fuel inp = Ok g ->
  (exists added, g_joints g = inputJoints inp ++ added /\
                 Forall (fun j => exists b, 1 <= b < g_nb g /\ j = baseJoint b) added) /\
  (forall j, j < length (g_joints g) ->
     occ (fun m => Nat.eqb (mjoint m) j) (g_mobs g) + occ (fun c => Nat.eqb (cjoint c) j) (g_cons g) = 1) /\
  (forall m, In m (g_mobs g) -> mjoint m < length (g_joints g)) /\
  (forall c, In c (g_cons g) -> cjoint c < length (g_joints g)).
Proof. exact (each_joint_once fuel inp g). Qed.
Print Assumptions C42_each_joint_once.

Theorem C42_mobilizer_kinds fuel inp g : generate fuel inp = Ok g ->
  forall m, In m (g_mobs g) ->
  let j := nth (mjoint m) (g_joints g) jd in
  (1 <= moutb m < g_nb g /\ minb m < g_nb g /\ jloop j = false /\ oriented j m) \/
  (exists k, moutb m = g_nb g + k /\ nth_error (g_slaves g) k = Some (jchi j) /\
             minb m = jpar j /\ mrev m = false /\ tloop (typeOf (allTypes inp) j) = false).
Proof. exact (mobilizer_kinds fuel inp g). Qed.
Print Assumptions C42_mobilizer_kinds.

Theorem C42_loop_constraints_ok fuel inp g : generate fuel inp = Ok g ->
  forall c, In c (g_cons g) ->
  let j := nth (cjoint c) (g_joints g) jd in
  cpar c = jpar j /\ cchi c = jchi j /\ ctype c = jty j /\ tloop (typeOf (allTypes inp) j) = true.
Proof. exact (loop_constraints_ok fuel inp g). Qed.
Print Assumptions C42_loop_constraints_ok.

Theorem C42_slaves_welded_to_master fuel inp g : generate fuel inp = Ok g ->
  forall k master, nth_error (g_slaves g) k = Some master ->
  master < g_nb g /\
  exists i m, nth_error (g_mobs g) i = Some m /\ moutb m = g_nb g + k /\ mrev m = false /\
              mjoint m < length (g_joints g) /\
              jchi (nth (mjoint m) (g_joints g) jd) = master /\ minb m = jpar (nth (mjoint m) (g_joints g) jd) /\
              tloop (typeOf (allTypes inp) (nth (mjoint m) (g_joints g) jd)) = false.
Proof. exact (slaves_welded_to_master fuel inp g). Qed.
Print Assumptions C42_slaves_welded_to_master.

Theorem C42_must_be_loop_honoured fuel inp g : generate fuel inp = Ok g ->
  forall m, In m (g_mobs g) -> jloop (nth (mjoint m) (g_joints g) jd) = true -> g_nb g <= moutb m.
Proof. exact (must_be_loop_honoured fuel inp g). Qed.
Print Assumptions C42_must_be_loop_honoured.

Theorem C42_no_terminal_massless_mobile fuel inp g : generate fuel inp = Ok g ->
  forall m, In m (g_mobs g) -> moutb m < g_nb g ->
  massOf (allBodies inp) (moutb m) = 0%Z -> 0 < dofOf (allTypes inp) (nth (mjoint m) (g_joints g) jd) ->
  exists m', In m' (g_mobs g) /\ minb m' = moutb m /\ 1 <= moutb m' < g_nb g.
Proof. exact (no_terminal_massless_mobile fuel inp g). Qed.
Print Assumptions C42_no_terminal_massless_mobile.

Theorem C42_fuel_suffices fuel inp : length (in_bodies inp) + 2 <= fuel -> generate fuel inp <> OutOfFuel.
Proof. exact (fuel_suffices fuel inp). Qed.
Print Assumptions C42_fuel_suffices.

Theorem C42_massless_chain_extension_is_single_step B f J s added : chain B (S f) J s added = chain B 1 J s added.
Proof. exact (massless_chain_extension_is_single_step B f J s added). Qed.
Print Assumptions C42_massless_chain_extension_is_single_step.

Theorem C42_two_massless_in_a_row_is_an_error : generate (defaultFuel two_massless) two_massless = Error (ETerminalMassless 1).
Proof. exact (@two_massless_in_a_row_is_an_error). Qed.
Print Assumptions C42_two_massless_in_a_row_is_an_error.

Theorem C42_must_be_base_refuted_massless_chain :
  exists inp g, generate (defaultFuel inp) inp = Ok g /\ ~ base_honoured inp g.
Proof. exact (@must_be_base_refuted_massless_chain). Qed.
Print Assumptions C42_must_be_base_refuted_massless_chain.

Theorem C42_must_be_base_honoured fuel inp g b : generate fuel inp = Ok g -> 1 <= b < g_nb g ->
  baseOf (allBodies inp) b = true ->
  exists m, In m (g_mobs g) /\ moutb m = b /\ levelOf g b = Some (mlevel m) /\
    ((mlevel m = 1 /\ minb m = 0) \/ Z.gtb (massOf (allBodies inp) (minb m)) 0 = false).
Proof. exact (must_be_base_honoured fuel inp g b). Qed.
Print Assumptions C42_must_be_base_honoured.

Theorem C42_must_be_base_honoured_level1 fuel inp g b : generate fuel inp = Ok g -> 1 <= b < g_nb g ->
  baseOf (allBodies inp) b = true -> no_massless_neighbour inp b ->
  levelOf g b = Some 1.
Proof. exact (must_be_base_honoured_level1 fuel inp g b). Qed.
Print Assumptions C42_must_be_base_honoured_level1.

Theorem C42_fourbar_ok : exists g, generate (defaultFuel fourbar) fourbar = Ok g /\
  length (g_mobs g) = 4 /\ length (g_slaves g) = 1 /\ length (g_cons g) = 1.
Proof. exact (@fourbar_ok). Qed.
Print Assumptions C42_fourbar_ok.

Theorem C42_massless_link_ok : exists g m, generate (defaultFuel massless_link) massless_link = Ok g /\ In m (g_mobs g) /\
  moutb m < g_nb g /\ massOf (allBodies massless_link) (moutb m) = 0%Z /\
  0 < dofOf (allTypes massless_link) (nth (mjoint m) (g_joints g) jd).
Proof. exact (@massless_link_ok). Qed.
Print Assumptions C42_massless_link_ok.

Theorem C42_default_fuel_suffices inp : generate (defaultFuel inp) inp <> OutOfFuel.
Proof. exact (default_fuel_suffices inp). Qed.
Print Assumptions C42_default_fuel_suffices.

Theorem C42_base_ok_input_hyps : (exists g, generate (defaultFuel base_ok_input) base_ok_input = Ok g) /\
  baseOf (allBodies base_ok_input) 2 = true /\ no_massless_neighbour base_ok_input 2.
Proof. exact (@base_ok_input_hyps). Qed.
Print Assumptions C42_base_ok_input_hyps.

