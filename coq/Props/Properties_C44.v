(** C44 property theorems: statements only, each closed by [exact]; proofs are in C44/C44_Proofs.v.
    Model: C44/C44_Model.v -- PGSImpulseSolver::solve (Simbody/src/PGSImpulseSolver.cpp) hand-written statement by statement:
    row sums, SOR updates, the four projections, one sweep in the order of the C++ and the outer loop with the iteration limit
    as fuel; tied to the compiled code by the correspondence run of checks/C44.py (bit-for-bit on every run so far).
    PARTIAL: convergence of PGS is not decided (the theorems hold after every sweep, converged or not); PLUSImpulseSolver is
    not modelled (its outputs are only checked per run against the extracted inequalities).  Over R, not binary64. *)
From Coq Require Import ZArith Reals List Bool Arith.
Require Import Num C44_Model C44_Proofs.
Import ListNotations.
Local Open Scope R_scope.

Theorem C44_pgs_projection_invariants (m : nat) part A D rhs piE sor (steps : list step_R) (pi : list R) :
  steps_wfb ROps m steps = true -> length pi = m ->
  Forall (holds piE (pi_of (sweep ROps part A D rhs piE sor steps pi))) steps.
Proof. exact (pgs_projection_invariants m part A D rhs piE sor steps pi). Qed.
Print Assumptions C44_pgs_projection_invariants.

Theorem C44_pgs_loop_invariants (m : nat) part A D rhs piE tol (steps : list step_R) :
  steps_wfb ROps m steps = true ->
  forall fuel its sor prev (pi : list R) conds enf,
    length pi = m -> (fuel = O -> Forall (holds piE pi) steps) ->
    Forall (holds piE (loop_pi (pgs_loop ROps fuel its part A D rhs piE tol steps sor prev pi conds enf))) steps.
Proof. exact (pgs_loop_invariants m part A D rhs piE tol steps). Qed.
Print Assumptions C44_pgs_loop_invariants.

Theorem C44_pgs_solve_invariants (maxIters : nat) part (A : list (list R)) D verrStart verrApplied piE expanding tol sor0 (steps : list step_R) :
  steps_wfb ROps (length A) steps = true -> part <> [] -> (0 < maxIters)%nat ->
  Forall (holds piE (loop_pi (pgs_solve ROps maxIters part A D verrStart verrApplied piE expanding tol sor0 steps))) steps.
Proof. exact (pgs_solve_invariants maxIters part A D verrStart verrApplied piE expanding tol sor0 steps). Qed.
Print Assumptions C44_pgs_solve_invariants.

Theorem C44_inv_check_spec piE (steps : list step_R) (pi : list R) : inv_check ROps 0 piE steps pi = true <-> Forall (holds piE pi) steps.
Proof. exact (inv_check_spec piE steps pi). Qed.
Print Assumptions C44_inv_check_spec.

Theorem C44_pgs_sweep_passes_inv_check (m : nat) part A D rhs piE sor (steps : list step_R) (pi : list R) :
  steps_wfb ROps m steps = true -> length pi = m ->
  inv_check ROps 0 piE steps (pi_of (sweep ROps part A D rhs piE sor steps pi)) = true.
Proof. exact (pgs_sweep_passes_inv_check m part A D rhs piE sor steps pi). Qed.
Print Assumptions C44_pgs_sweep_passes_inv_check.

Theorem C44_unconditional_solution_unique (M : list (list R)) (x y b : list R) :
  length x = length y ->
  (forall v, length v = length x -> v <> repeat 0 (length x) -> 0 < ldot v (lmv M v)) ->   (* M positive definite *)
  lmv M x = b -> lmv M y = b -> x = y.
Proof. exact (unconditional_solution_unique M x y b). Qed.
Print Assumptions C44_unconditional_solution_unique.

Theorem C44_pgs_fixed_point_satisfies_conditions (m : nat) part A D rhs piE sor (steps : list step_R) (pi : list R) :
  sor <> 0 -> steps_wfb ROps m steps = true -> NoDup (concat (map (@writes R) steps)) -> length pi = m ->
  pi_of (sweep ROps part A D rhs piE sor steps pi) = pi ->
  Forall (fp_cond part A D rhs piE sor pi) steps.
Proof. exact (pgs_fixed_point_satisfies_conditions m part A D rhs piE sor steps pi). Qed.
Print Assumptions C44_pgs_fixed_point_satisfies_conditions.

Theorem C44_wf_example :
  steps_wfb ROps 9 [SUncond [0; 1]%nat; SNormal 2%nat 1; SFric [3; 4]%nat 2%nat (1 / 2); SBounded 5%nat (-1) 1;
                    SState [6]%nat (1 / 2) 2; SCons [7; 8]%nat [0; 1]%nat (1 / 2)] = true.
Proof. exact (@wf_example). Qed.
Print Assumptions C44_wf_example.

Theorem C44_invariants_example part A D rhs piE sor (pi : list R) : length pi = 9%nat ->
  let steps := [SUncond [0; 1]%nat; SNormal 2%nat 1; SFric [3; 4]%nat 2%nat (1 / 2); SBounded 5%nat (-1) 1;
                SState [6]%nat (1 / 2) 2; SCons [7; 8]%nat [0; 1]%nat (1 / 2)] in
  inv_check ROps 0 piE steps (pi_of (sweep ROps part A D rhs piE sor steps pi)) = true.
Proof. exact (invariants_example part A D rhs piE sor pi). Qed.
Print Assumptions C44_invariants_example.

Theorem C44_fixed_point_example :
  pi_of (sweep ROps [0%nat] [[2]] [0] [4] [0] (12 / 10) [SUncond [0%nat]] [2]) = [2].
Proof. exact (@fixed_point_example). Qed.
Print Assumptions C44_fixed_point_example.

Theorem C44_unique_example : forall x y : list R, length x = length y ->
  lmv [[2; 0]; [0; 3]] x = [4; 9] -> lmv [[2; 0]; [0; 3]] y = [4; 9] -> length x = 2%nat -> x = y.
Proof. exact (@unique_example). Qed.
Print Assumptions C44_unique_example.

Theorem C44_bilateral_check_spec part A D rhs (pi : list R) :
  bilateral_check ROps 0 part A D rhs pi = true <->
  (forall r, In r part -> row_sum ROps part A D pi r = Rget rhs r) /\
  (forall i, (i < length A)%nat -> ~ In i part -> Rget pi i = 0).
Proof. exact (bilateral_check_spec part A D rhs pi). Qed.
Print Assumptions C44_bilateral_check_spec.

Theorem C44_bilateral_certificate_unique part A D rhs (pi pi' : list R) :
  length pi = length A -> length pi' = length A ->
  (forall v, length v = length A -> (exists r, In r part /\ Rget v r <> 0) -> 0 < qform part A D v) ->
  bilateral_check ROps 0 part A D rhs pi = true -> bilateral_check ROps 0 part A D rhs pi' = true -> pi = pi'.
Proof. exact (bilateral_certificate_unique part A D rhs pi pi'). Qed.
Print Assumptions C44_bilateral_certificate_unique.

Theorem C44_bilateral_example :
  bilateral_check ROps 0 [1%nat] [[5; 1]; [1; 2]] [0; 1] [7; 6] [0; 2] = true.
Proof. exact bilateral_example. Qed.
Print Assumptions C44_bilateral_example.
