// C02 correspondence probe: forward and inverse dynamics of random simbody trees.
// usage: C02_probe <seed> <nsystems> [maxBodies]
// For each random system prints the model inputs (SYS/BODY/H from mb_common.h, then UD, MF, FB, COR, GYR lines)
// followed by the implementation's results (OUT <tag> ...), then END.  ocaml/C02_drv.ml recomputes every OUT
// line from the inputs with the extracted Gallina model (coq/C02/C02_Model.v); checks/C02.py compares them.
//   inputs taken from the implementation exactly as H and the shift vectors are: mobilizer Coriolis
//   accelerations (getMobilizerCoriolisAcceleration) and gyroscopic forces (getGyroscopicForce).
// Every 4th system has u = 0; every 5th system is followed by a "lone particle" variant (a Translation
// mobilizer on Ground with identity frames, which simbody implements with the special RBNodeLoneParticle).
#include "mb_common.h"
#include "Simbody/src/SimbodyMatterSubsystemRep.h"
#include "Simbody/src/RigidBodyNode.h"

static void pAI(const ArticulatedInertia& P) {
    const SymMat33& M = P.getMass(); const Mat33& F = P.getMassMoment(); const SymMat33& J = P.getInertia();
    std::printf(" %a %a %a %a %a %a", M(0,0), M(1,1), M(2,2), M(1,0), M(2,0), M(2,1));
    for (int i = 0; i < 3; ++i) for (int j = 0; j < 3; ++j) std::printf(" %a", F(i,j));
    std::printf(" %a %a %a %a %a %a", J(0,0), J(1,1), J(2,2), J(1,0), J(2,0), J(2,1));
}

static void emit(RandSystem& rs, Force::DiscreteForces& df, Rng& r, bool zeroU, bool lone) {
    State& s = rs.state; const SimbodyMatterSubsystem& m = rs.matter;
    if (zeroU) s.updU() = 0;
    rs.sys.realize(s, Stage::Velocity);
    int nu = s.getNU(), NB = m.getNumBodies();
    dumpTreeData(rs, s);
    if (lone) std::printf("LONE\n");
    pvec("U", s.getU());
    Vector UD(nu), MF(nu); for (int i = 0; i < nu; ++i) { UD[i] = r.U(-1, 1); MF[i] = r.U(-2, 2); }
    pvec("UD", UD); pvec("MF", MF);
    Vector_<SpatialVec> FB(NB); for (int b = 0; b < NB; ++b) { FB[b] = SpatialVec(r.v3(2), r.v3(2)); std::printf("FB %d", b); psv(FB[b]); std::printf("\n"); }
    for (MobilizedBodyIndex b(1); b < NB; ++b) { std::printf("COR %d", (int)b); psv(m.getMobilizerCoriolisAcceleration(s, b)); std::printf("\n"); }
    for (MobilizedBodyIndex b(1); b < NB; ++b) { std::printf("GYR %d", (int)b); psv(m.getGyroscopicForce(s, b)); std::printf("\n"); }
    // ---------------- implementation results
    // inverse dynamics
    Vector resid; m.calcResidualForceIgnoringConstraints(s, MF, FB, UD, resid); pvec("OUT RESID", resid);
    Vector_<SpatialVec> Aid; m.calcBodyAccelerationFromUDot(s, UD, Aid);
    for (int b = 0; b < NB; ++b) { std::printf("OUT IDACC %d", b); psv(Aid[b]); std::printf("\n"); }
    // forward dynamics, operator form
    df.setAllMobilityForces(s, MF); df.setAllBodyForces(s, FB);
    rs.sys.realize(s, Stage::Dynamics);
    Vector udot; Vector_<SpatialVec> A; m.calcAccelerationIgnoringConstraints(s, MF, FB, udot, A);
    pvec("OUT FDUD", udot);
    for (int b = 0; b < NB; ++b) { std::printf("OUT FDACC %d", b); psv(A[b]); std::printf("\n"); }
    // body-to-mobility force mapping: J'F - inertial forces of the current velocities
    { Vector feq; m.calcTreeEquivalentMobilityForces(s, FB, feq); pvec("OUT EQUIV", feq); }
    // forward dynamics by realizing the system with the same forces applied through a force element
    rs.sys.realize(s, Stage::Acceleration);
    pvec("OUT RUD", s.getUDot());
    for (MobilizedBodyIndex b(0); b < NB; ++b) { std::printf("OUT RACC %d", (int)b); psv(m.getMobilizedBody(b).getBodyAcceleration(s)); std::printf("\n"); }
    // mobilizer reaction forces at the body origins: main (articulated-body) route and free-body route (C14).
    // The model computes the first as P+ (~phi A_parent) + z+ and the second by the inverse-dynamics accumulation.
    {
        Vector_<SpatialVec> FMfb; m.calcMobilizerReactionForcesUsingFreebodyMethod(s, FMfb);
        for (MobilizedBodyIndex b(0); b < NB; ++b) {
            const MobilizedBody& mb = m.getMobilizedBody(b);
            std::printf("OUT REACT %d", (int)b); psv(mb.findMobilizerReactionOnBodyAtOriginInGround(s)); std::printf("\n");
            // free-body result is reported at the M frame origin: move it to the body origin
            const Vec3 p_BM_G = mb.getBodyRotation(s) * mb.getOutboardFrame(s).p();
            SpatialVec F = FMfb[b]; F[0] += p_BM_G % F[1];
            std::printf("OUT REACTFB %d", (int)b); psv(F); std::printf("\n");
        }
    }
    // M^-1
    Vector mi; m.multiplyByMInv(s, MF, mi); pvec("OUT MINV", mi);
    Matrix MI; m.calcMInv(s, MI); Vector mim = MI * MF; pvec("OUT MINVMAT", mim);
    // articulated body inertias (Ground's is infinite by convention: skipped)
    for (MobilizedBodyIndex b(1); b < NB; ++b) { std::printf("OUT ABI %d", (int)b); pAI(m.getArticulatedBodyInertia(s, b)); std::printf("\n"); }
    // internal per-body forward-dynamics temporaries: z, zPlus, epsilon of calcTreeAccelerations
    {
        const SimbodyMatterSubsystemRep& rep = m.getRep();
        const SBTreeAccelerationCache& tac = rep.getTreeAccelerationCache(s);
        for (MobilizedBodyIndex b(0); b < NB; ++b) { std::printf("OUT Z %d", (int)b); psv(tac.z[b]); std::printf("\n"); }
        for (MobilizedBodyIndex b(0); b < NB; ++b) { std::printf("OUT ZP %d", (int)b); psv(tac.zPlus[b]); std::printf("\n"); }
        pvec("OUT EPS", tac.epsilon);
    }
    // internal articulated-body quantities of realizeArticulatedBodyInertiasInward: D = ~H P H, DI, G = P H DI, PPlus.
    // D/DI live in storageForD/DI at the node's uSq slot (slots are handed out in mobilized-body order: sum of dof^2 of the
    // earlier bodies), G at 2*uIndex.  RBNodeLoneParticle does not fill them: skipped for lone-particle systems.
    if (!lone) {
        const SBArticulatedBodyInertiaCache& abc = m.getRep().getArticulatedBodyInertiaCache(s);
        int sq = 0;
        for (MobilizedBodyIndex b(1); b < NB; ++b) {
            const MobilizedBody& mb = m.getMobilizedBody(b); int n = mb.getNumU(s);
            if (n > 0) {
                int u0 = (int)mb.getFirstUIndex(s);
                std::printf("OUT DMAT %d", (int)b); for (int i = 0; i < n; ++i) for (int j = 0; j < n; ++j) std::printf(" %a", abc.storageForD[sq + j * n + i]); std::printf("\n");
                std::printf("OUT DIMAT %d", (int)b); for (int i = 0; i < n; ++i) for (int j = 0; j < n; ++j) std::printf(" %a", abc.storageForDI[sq + j * n + i]); std::printf("\n");
                std::printf("OUT GMAT %d", (int)b); for (int k = 0; k < n; ++k) psv(SpatialVec(abc.storageForG[2 * (u0 + k)], abc.storageForG[2 * (u0 + k) + 1])); std::printf("\n");
            }
            sq += n * n;
            std::printf("OUT PPLUS %d", (int)b); pAI(abc.pPlus[b]); std::printf("\n");
        }
    }
    // the property's own predicate on the implementation: inverse dynamics of the forward-dynamics result
    Vector r2; m.calcResidualForceIgnoringConstraints(s, MF, FB, udot, r2); pvec("OUT IDFD", r2);
    std::printf("END\n");
}

int main(int argc, char** argv) {
    unsigned long long seed = std::strtoull(argv[1], 0, 10); int nsys = std::atoi(argv[2]); int maxb = argc > 3 ? std::atoi(argv[3]) : 10;
    Rng r(seed);
    for (int k = 0; k < nsys; ++k) {
        {
            RandSystem rs; rs.ntypes = NMOBTYPES_ALL; Force::DiscreteForces df(rs.forces, rs.matter);
            int nb = r.I(1, maxb); int shape = r.I(0, 2);
            try { rs.build(r, nb, shape); } catch (const std::exception& e) { std::printf("SKIP %s\n", e.what()); continue; }
            try { emit(rs, df, r, k % 4 == 3, false); } catch (const std::exception& e) { std::printf("SKIP %s\n", e.what()); }
        }
        if (k % 5 == 4) {   // lone particles next to an ordinary branch
            RandSystem rs; Force::DiscreteForces df(rs.forces, rs.matter);
            try {
                int np = r.I(1, 3);
                // half of the time a Free or Ball body comes first, so that the particles' q and u offsets differ
                if (r.I(0, 1)) { int ty = r.I(0, 1) ? 9 : 8; addMobod(ty, rs.matter.updGround(), r.xf(), Body::Rigid(randomMassProps(r)), r.xf(), false);
                                 rs.types.push_back(ty); rs.revs.push_back(false); }
                for (int i = 0; i < np; ++i) {
                    MassProperties mp = (i == 0) ? MassProperties(r.U(0.2, 2), Vec3(0), Inertia(0)) : randomMassProps(r);
                    MobilizedBody::Translation(rs.matter.updGround(), Transform(), Body::Rigid(mp), Transform());
                    rs.types.push_back(10); rs.revs.push_back(false);
                }
                rs.build(r, 1, 0);   // one ordinary body on Ground (build()'s chain numbering assumes it adds the first body)
                emit(rs, df, r, false, true);
            } catch (const std::exception& e) { std::printf("SKIP %s\n", e.what()); }
        }
    }
    return 0;
}
