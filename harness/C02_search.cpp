// C02 failing-input search, on the implementation alone: the property's own predicates on random systems.
//   ID(FD(f,F)) = 0            inverse dynamics of the forward-dynamics accelerations gives zero residual
//   FD(f + ID(udot)) = udot    forward dynamics of a residual reproduces the accelerations given to inverse dynamics
//   body forces enter as J'F   ID(udot; F) - ID(udot; 0) = -J'F   and   <F, J e_i> = -(ID(F) - ID(0))_i
//   same velocity terms        ID(udot) = M udot + ID(0)  with ID(0) the bias that FD uses: M FD(0,0) = -ID(0)
//   realize = operator         realize(Acceleration) with the same forces applied by a force element gives FD's udot
//   MInv                       multiplyByMInv(f) = FD at zero velocity without body forces
// usage: C02_search <seed> <nsystems> [maxBodies]   prints "FAIL C02 <predicate> err=... seed=.. system=.. ..." lines and DONE
#include "mb_common.h"
static long evals = 0; static int fails = 0;
static void chk(const char* what, Real err, Real scale, unsigned long long seed, int k, const RandSystem& rs, bool zeroU) {
    ++evals;
    if (!(err <= 1e-7 * (1 + scale))) { if (fails++ < 8) { std::printf("FAIL C02 %s err=%.6g scale=%.6g seed=%llu system=%d euler=%d zeroU=%d mobilizers=", what, err, scale, seed, k, (int)rs.euler, (int)zeroU);
        for (size_t i = 0; i < rs.types.size(); ++i) std::printf("%s%s,", MOBTYPES[rs.types[i]], rs.revs[i] ? "(rev)" : ""); std::printf("\n"); } }
}
int main(int argc, char** argv) {
    unsigned long long seed = std::strtoull(argv[1], 0, 10); int nsys = std::atoi(argv[2]); int maxb = argc > 3 ? std::atoi(argv[3]) : 10;
    Rng r(seed);
    for (int k = 0; k < nsys; ++k) {
        RandSystem rs; rs.ntypes = NMOBTYPES_ALL; Force::DiscreteForces df(rs.forces, rs.matter);
        int nb = r.I(1, maxb); int shape = r.I(0, 2);
        try { rs.build(r, nb, shape); } catch (const std::exception& e) { continue; }
        State& s = rs.state; const SimbodyMatterSubsystem& m = rs.matter;
        bool zeroU = (k % 4 == 3); if (zeroU) s.updU() = 0;
        int nu = s.getNU(), NB = m.getNumBodies();
        Vector UD(nu), MF(nu); for (int i = 0; i < nu; ++i) { UD[i] = r.U(-1, 1); MF[i] = r.U(-2, 2); }
        Vector_<SpatialVec> FB(NB), F0(NB); for (int b = 0; b < NB; ++b) { FB[b] = SpatialVec(r.v3(2), r.v3(2)); F0[b] = SpatialVec(Vec3(0), Vec3(0)); }
        Vector f0(nu); f0 = 0;
        try {
            df.setAllMobilityForces(s, MF); df.setAllBodyForces(s, FB);
            rs.sys.realize(s, Stage::Acceleration);
            Real fs = (nu ? MF.norm() : 0); for (int b = 0; b < NB; ++b) fs += FB[b].norm();
            // ID(FD) = 0
            Vector udot, res; Vector_<SpatialVec> A; m.calcAccelerationIgnoringConstraints(s, MF, FB, udot, A);
            m.calcResidualForceIgnoringConstraints(s, MF, FB, udot, res);
            chk("ID(FD(f))=0", nu ? res.norm() : 0, fs, seed, k, rs, zeroU);
            // realize = operator
            chk("realize(Acceleration)=FD-operator", nu ? (s.getUDot() - udot).norm() : 0, nu ? udot.norm() : 0, seed, k, rs, zeroU);
            // FD(ID(udot)) = udot : residual of UD under the applied forces, added to the mobility forces
            Vector rud; m.calcResidualForceIgnoringConstraints(s, MF, FB, UD, rud);
            Vector f2 = MF + rud, ud2; Vector_<SpatialVec> A2; m.calcAccelerationIgnoringConstraints(s, f2, FB, ud2, A2);
            chk("FD(f+ID(udot))=udot", nu ? (ud2 - UD).norm() : 0, nu ? UD.norm() : 0, seed, k, rs, zeroU);
            // body forces enter exactly as J'F
            Vector r0, rF, JtF; m.calcResidualForceIgnoringConstraints(s, f0, F0, UD, r0); m.calcResidualForceIgnoringConstraints(s, f0, FB, UD, rF);
            m.multiplyBySystemJacobianTranspose(s, FB, JtF);
            chk("ID(F)-ID(0)=-J'F", nu ? (rF - r0 + JtF).norm() : 0, nu ? JtF.norm() : 0, seed, k, rs, zeroU);
            if (nu) { int i = r.I(0, nu - 1); Vector e(nu); e = 0; e[i] = 1; Vector_<SpatialVec> Je; m.multiplyBySystemJacobian(s, e, Je);
                Real p = 0; for (int b = 0; b < NB; ++b) p += ~FB[b] * Je[b];
                chk("<F,J e_i>=-(ID(F)-ID(0))_i", std::abs(p + (rF[i] - r0[i])), std::abs(p), seed, k, rs, zeroU); }
            // mobility forces enter as -f
            Vector rf; m.calcResidualForceIgnoringConstraints(s, MF, F0, UD, rf);
            chk("ID(f)-ID(0)=-f", nu ? (rf - r0 + MF).norm() : 0, nu ? MF.norm() : 0, seed, k, rs, zeroU);
            // affine in udot with linear part M; the same bias in both directions
            Vector b0, zero(nu); zero = 0; m.calcResidualForceIgnoringConstraints(s, f0, F0, zero, b0);
            Vector MUD; m.multiplyByM(s, UD, MUD);
            chk("ID(udot)=M*udot+ID(0)", nu ? (r0 - MUD - b0).norm() : 0, nu ? r0.norm() : 0, seed, k, rs, zeroU);
            Vector ud0, Mud0; Vector_<SpatialVec> A0; m.calcAccelerationIgnoringConstraints(s, f0, F0, ud0, A0); m.multiplyByM(s, ud0, Mud0);
            chk("M*FD(0)=-ID(0)", nu ? (Mud0 + b0).norm() : 0, nu ? b0.norm() : 0, seed, k, rs, zeroU);
            // body-to-mobility force mapping: J'F - inertial = -ID(udot=0, f=0, F), and M^-1 of it is FD(0,F)
            { Vector feq, rz, udF, mieq; Vector_<SpatialVec> A3;
              m.calcTreeEquivalentMobilityForces(s, FB, feq); m.calcResidualForceIgnoringConstraints(s, f0, FB, zero, rz);
              chk("equivalentMobilityForces=-ID(0,F)", nu ? (feq + rz).norm() : 0, nu ? rz.norm() : 0, seed, k, rs, zeroU);
              m.calcAccelerationIgnoringConstraints(s, f0, FB, udF, A3); m.multiplyByMInv(s, feq, mieq);
              chk("FD(0,F)=MInv(equivalentMobilityForces)", nu ? (udF - mieq).norm() : 0, nu ? udF.norm() : 0, seed, k, rs, zeroU); }
            // M^-1
            Vector mi, Mmi; m.multiplyByMInv(s, MF, mi); m.multiplyByM(s, mi, Mmi);
            chk("M*MInv(f)=f", nu ? (Mmi - MF).norm() : 0, nu ? MF.norm() : 0, seed, k, rs, zeroU);
            Vector fdmi = udot - ud0 ; // FD is affine in (f,F): FD(f,F) - FD(0,0) = MInv (f + J'F)
            Vector g = MF + JtF, mig; m.multiplyByMInv(s, g, mig);
            chk("FD(f,F)-FD(0,0)=MInv(f+J'F)", nu ? (fdmi - mig).norm() : 0, nu ? mig.norm() : 0, seed, k, rs, zeroU);
        } catch (const std::exception& e) { std::printf("FAIL C02 exception %s seed=%llu system=%d\n", e.what(), seed, k); ++fails; }
    }
    std::printf("DONE %ld fails=%d\n", evals, fails);
    return 0;
}
