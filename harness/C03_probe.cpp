// C03 correspondence probe: random simbody trees (harness/mb_common.h: 17 mobilizer types, forward/Reverse, quaternion/Euler,
// general X_PF / X_BM frames).  Prints the kinematic inputs of the Gallina pipeline (coq/C03/C03_Model.v over the catalogue
// coq/C05/C05_Model.v) and the implementation's results.
// usage: C03_probe <seed> <nsystems> [maxBodies]
//   SYS nb nu nq euler
//   BODY idx parent type rev q0 nq u0 nu  npar par..  X_PF(12) X_BM(12)
//   Q .. | U .. | W .. (u-like) | F .. (q-like) | UD .. | ST i body px py pz
//   OUT X b 12 | OUT V b 6 | OUT ST i 6 | OUT QDOT | OUT QDD | OUT NW | OUT NTF | OUT NINVF | OUT NINVTW | OUT NDOTW | OUT NDOTTF | END
#include "mb_common.h"
static void pXf(const Transform& X) {
    for (int i = 0; i < 3; ++i) for (int j = 0; j < 3; ++j) std::printf(" %a", X.R().asMat33()(i, j));
    std::printf(" %a %a %a", X.p()[0], X.p()[1], X.p()[2]);
}
// childless Translation mobilizers on Ground with identity frames and the mass centre at the body origin: simbody's
// RBNodeLoneParticle (RigidBodyNode_LoneParticle.cpp), which the general generator of mb_common.h never produces
static void buildLone(RandSystem& rs, Rng& r, int nb) {
    rs.euler = r.I(0, 1) == 1;
    for (int i = 0; i < nb; ++i) {
        Real m = r.U(0.2, 2);
        Body::Rigid body(MassProperties(m, Vec3(0), m * UnitInertia::sphere(r.U(0.1, 0.5))));
        MobilizedBody::Translation(rs.matter.updGround(), Transform(), body, Transform());
        rs.types.push_back(10); rs.revs.push_back(false);
    }
    rs.state = rs.sys.realizeTopology(); rs.matter.setUseEulerAngles(rs.state, rs.euler); rs.sys.realizeModel(rs.state);
    for (int i = 0; i < rs.state.getNU(); ++i) rs.state.updU()[i] = r.U(-1, 1);
}
int main(int argc, char** argv) {
    unsigned long long seed = std::strtoull(argv[1], 0, 10); int nsys = std::atoi(argv[2]); int maxb = argc > 3 ? std::atoi(argv[3]) : 8;
    Rng r(seed); Rng ropt(seed ^ 0x5bd1e995ULL);   // separate stream for the mobilizer options (Screw pitch, Ellipsoid radii, SphericalCoords offsets/signs/axis)
    for (int k = 0; k < nsys; ++k) {
        RandSystem rs; rs.optRng = &ropt; int nb = r.I(1, maxb); int shape = r.I(0, 2);
        try { if (k % 10 == 9) buildLone(rs, r, nb); else rs.build(r, nb, shape); } catch (const std::exception& e) { std::printf("SKIP %s\n", e.what()); continue; }
        State& s = rs.state; const SimbodyMatterSubsystem& m = rs.matter;
        // wider coordinates than the default generator: angles in +-[0.1,1.2] (|cos q1| > 0.36), then renormalise quaternions
        for (int i = 0; i < s.getNQ(); ++i) s.updQ()[i] = r.U(0.1, 1.2) * (r.I(0, 1) ? 1 : -1);
        for (MobilizedBodyIndex b(1); b < m.getNumBodies(); ++b) if (m.isUsingQuaternion(s, b)) {
            const MobilizedBody& mb = m.getMobilizedBody(b); int q0 = (int)mb.getFirstQIndex(s);
            Vec4 e(r.U(-1, 1), r.U(-1, 1), r.U(-1, 1), r.U(-1, 1)); if (e.norm() < 0.2) e = Vec4(1, 0, 0, 0); e = e / e.norm();
            for (int i = 0; i < 4; ++i) s.updQ()[q0 + i] = e[i]; }
        rs.sys.realize(s, Stage::Velocity);
        int nu = s.getNU(), nq = s.getNQ(), NB = m.getNumBodies();
        std::printf("SYS %d %d %d %d\n", NB, nu, nq, (int)rs.euler);
        for (MobilizedBodyIndex b(1); b < NB; ++b) {
            const MobilizedBody& mb = m.getMobilizedBody(b); int ty = rs.types[b - 1];
            int bq = mb.getNumQ(s), bu = mb.getNumU(s);
            std::printf("BODY %d %d %d %d %d %d %d %d", (int)b, (int)mb.getParentMobilizedBody().getMobilizedBodyIndex(), ty, (int)rs.revs[b - 1],
                        bq ? (int)mb.getFirstQIndex(s) : 0, bq, bu ? (int)mb.getFirstUIndex(s) : 0, bu);
            { const std::vector<Real> par = (size_t)(b - 1) < rs.pars.size() ? rs.pars[b - 1] : defaultPars(ty);
              std::printf(" %d", (int)par.size()); for (size_t c = 0; c < par.size(); ++c) std::printf(" %a", par[c]); }
            pXf(mb.getInboardFrame(s)); pXf(mb.getOutboardFrame(s)); std::printf("\n");
        }
        pvec("Q", s.getQ()); pvec("U", s.getU());
        Vector W(nu), F(nq), UD(nu); for (int i = 0; i < nu; ++i) { W[i] = r.U(-1, 1); UD[i] = r.U(-1, 1); } for (int i = 0; i < nq; ++i) F[i] = r.U(-1, 1);
        pvec("W", W); pvec("F", F); pvec("UD", UD);
        int nt = r.I(1, 4); std::vector<int> tb; std::vector<Vec3> tp;
        for (int i = 0; i < nt; ++i) { tb.push_back(r.I(0, NB - 1)); tp.push_back(r.v3(0.6)); std::printf("ST %d %d %a %a %a\n", i, tb[i], tp[i][0], tp[i][1], tp[i][2]); }
        // ---------------- implementation results
        for (MobilizedBodyIndex b(0); b < NB; ++b) { const MobilizedBody& mb = m.getMobilizedBody(b);
            std::printf("OUT X %d", (int)b); pXf(mb.getBodyTransform(s)); std::printf("\n");
            std::printf("OUT V %d", (int)b); psv(mb.getBodyVelocity(s)); std::printf("\n"); }
        for (int i = 0; i < nt; ++i) { const MobilizedBody& mb = m.getMobilizedBody(MobilizedBodyIndex(tb[i]));
            Vec3 loc = mb.findStationLocationInGround(s, tp[i]), vel = mb.findStationVelocityInGround(s, tp[i]);
            std::printf("OUT ST %d %a %a %a %a %a %a\n", i, loc[0], loc[1], loc[2], vel[0], vel[1], vel[2]); }
        Vector qdot, qdd, o;
        m.calcQDot(s, s.getU(), qdot); pvec("OUT QDOT", qdot);
        m.calcQDotDot(s, UD, qdd); pvec("OUT QDD", qdd);
        m.multiplyByN(s, false, W, o); pvec("OUT NW", o);
        m.multiplyByN(s, true, F, o); pvec("OUT NTF", o);
        m.multiplyByNInv(s, false, F, o); pvec("OUT NINVF", o);
        m.multiplyByNInv(s, true, W, o); pvec("OUT NINVTW", o);
        m.multiplyByNDot(s, false, W, o); pvec("OUT NDOTW", o);
        m.multiplyByNDot(s, true, F, o); pvec("OUT NDOTTF", o);
        std::printf("END\n");
    }
    return 0;
}
