// C03 failing-input search, on the implementation alone: random trees (17 mobilizer types, forward/Reverse, quaternion/Euler),
// 4th-order central differences (h = 1e-3) along the motion q' = qdot = N(q) u, u' = udot:
//   pose-w / pose-v   d/dt of every reported body pose vs the reported spatial velocity (R' = [w]x R, p' = v)
//   station           d/dt of a station location vs findStationVelocityInGround
//   qdd               d/dt of qdot = N(q) u vs calcQDotDot
//   NInvN             NInv(N w) = w ;  NNInv: N(NInv(N w)) = N w
//   NDot              d/dt (N(q) v) for a FIXED arbitrary vector v vs multiplyByNDot v   (NDot is the derivative of N)
//   NDot-u            the same with v = u (the case used by calcQDotDot)
//   adjoint           <f, N w> = <N^T f, w>, same for NInv, NDot
// usage: C03_search <seed> <nsystems> [maxBodies]; prints FAIL <predicate>-<detail> ... lines and DONE <evaluations> fails=<n>
#include "mb_common.h"
static long evals = 0; static int fails = 0;
static std::string describe(const RandSystem& rs) { std::string s = rs.euler ? "mode=euler " : "mode=quat "; for (size_t i = 0; i < rs.types.size(); ++i) { s += MOBTYPES[rs.types[i]]; if (rs.revs[i]) s += "(rev)"; s += ","; } return s; }
static void chk(const std::string& what, Real err, Real tol, unsigned long long seed, int k, const RandSystem& rs) {
    ++evals;
    if (!(err <= tol)) { if (fails++ < 60) std::printf("FAIL %s err=%.6g seed=%llu system=%d %s\n", what.c_str(), err, seed, k, describe(rs).c_str()); }
}
// simbody's RBNodeLoneParticle: childless Translation on Ground, identity frames, mass centre at the body origin
static void buildLone(RandSystem& rs, Rng& r, int nb) {
    rs.euler = r.I(0, 1) == 1;
    for (int i = 0; i < nb; ++i) {
        Real m = r.U(0.2, 2);
        Body::Rigid body(MassProperties(m, Vec3(0), m * UnitInertia::sphere(r.U(0.1, 0.5))));
        MobilizedBody::Translation(rs.matter.updGround(), Transform(), body, Transform());
        rs.types.push_back(10); rs.revs.push_back(false);
    }
    rs.state = rs.sys.realizeTopology(); rs.matter.setUseEulerAngles(rs.state, rs.euler); rs.sys.realizeModel(rs.state);
    for (int i = 0; i < rs.state.getNU(); ++i) rs.state.updU()[i] = r.U(-1, 1);
}
int main(int argc, char** argv) {
    unsigned long long seed = std::strtoull(argv[1], 0, 10); int nsys = std::atoi(argv[2]); int maxb = argc > 3 ? std::atoi(argv[3]) : 6;
    Rng r(seed); Rng ropt(seed ^ 0x5bd1e995ULL);
    const Real h = 1e-3; const Real cf[4] = { 1.0 / 12, -8.0 / 12, 8.0 / 12, -1.0 / 12 }; const Real st[4] = { -2, -1, 1, 2 };
    // k = -2, -1: fixed regression cases (fix a24f10ba; Coq witness Line_NDot_prefix_refuted): one LineOrientation / FreeLine body,
    // quaternion mode, q = identity, u = (1,0,..), NDot applied to W = (0,1,..)
    for (int k = -2; k < nsys; ++k) {
        const bool reg = k < 0;
        RandSystem rs; rs.optRng = &ropt; rs.ntypes = NMOBTYPES_ALL; int nb = r.I(1, maxb); int shape = r.I(0, 2);
        // every other system is built from a single mobilizer type so that a failure names its type
        int only = (k >= 0 && k % 2 == 0) ? (k / 2) % NMOBTYPES_ALL : -1;
        if (reg) { only = k == -2 ? 13 : 14; nb = 1; }
        try { if (reg) rs.build(r, nb, 0, only, 0, 0); else if (k % 20 == 19) buildLone(rs, r, nb); else rs.build(r, nb, shape, only); } catch (const std::exception& e) { continue; }
        State& s = rs.state; const SimbodyMatterSubsystem& m = rs.matter;
        for (int i = 0; i < s.getNQ(); ++i) s.updQ()[i] = r.U(0.1, 1.2) * (r.I(0, 1) ? 1 : -1);
        for (MobilizedBodyIndex b(1); b < m.getNumBodies(); ++b) if (m.isUsingQuaternion(s, b)) {
            int q0 = (int)m.getMobilizedBody(b).getFirstQIndex(s);
            Vec4 e(r.U(-1, 1), r.U(-1, 1), r.U(-1, 1), r.U(-1, 1)); if (e.norm() < 0.2) e = Vec4(1, 0, 0, 0); e = e / e.norm();
            for (int i = 0; i < 4; ++i) s.updQ()[q0 + i] = e[i]; }
        if (reg) { s.updQ() = 0; s.updQ()[0] = 1; s.updU() = 0; s.updU()[0] = 1; }
        rs.sys.realize(s, Stage::Velocity);
        int nu = s.getNU(), nq = s.getNQ(), NB = m.getNumBodies();
        Vector W(nu), F(nq), UD(nu); for (int i = 0; i < nu; ++i) { W[i] = r.U(-1, 1); UD[i] = r.U(-1, 1); } for (int i = 0; i < nq; ++i) F[i] = r.U(-1, 1);
        if (reg) { W = 0; W[1] = 1; }
        Vec3 pS = r.v3(0.6); MobilizedBodyIndex sb(r.I(0, NB - 1));
        // finite differences along the motion
        std::vector<Mat33> dR(NB, Mat33(0)); std::vector<Vec3> dp(NB, Vec3(0)); Vec3 dS(0); Vector dQdot(nq, 0.0), dNW(nq, 0.0), dNU(nq, 0.0);
        for (int j = 0; j < 4; ++j) {
            State sp = s; sp.updQ() += st[j] * h * s.getQDot(); sp.updU() += st[j] * h * UD;
            rs.sys.realize(sp, Stage::Velocity);
            for (MobilizedBodyIndex b(0); b < NB; ++b) { const Transform& X = m.getMobilizedBody(b).getBodyTransform(sp); dR[b] += cf[j] * X.R().asMat33(); dp[b] += cf[j] * X.p(); }
            dS += cf[j] * m.getMobilizedBody(sb).findStationLocationInGround(sp, pS);
            dQdot += cf[j] * sp.getQDot();
            Vector o; m.multiplyByN(sp, false, W, o); dNW += cf[j] * o; m.multiplyByN(sp, false, s.getU(), o); dNU += cf[j] * o;
        }
        // pose predicates: attributed to the first body (parents precede children) whose error exceeds the tolerance
        {   Real ew = 0, ev = 0; std::string tw = "-ok", tv = "-ok";
            for (MobilizedBodyIndex b(0); b < NB; ++b) { const MobilizedBody& mb = m.getMobilizedBody(b);
                Mat33 Wm = (dR[b] / h) * ~mb.getBodyRotation(s).asMat33(); Vec3 w(Wm(2, 1), Wm(0, 2), Wm(1, 0));
                Real e1 = (w - mb.getBodyAngularVelocity(s)).norm(), e2 = (dp[b] / h - mb.getBodyOriginVelocity(s)).norm();
                if (e1 > 1e-7 && tw == "-ok") tw = std::string("-") + MOBTYPES[rs.types[b - 1]]; if (e2 > 1e-7 && tv == "-ok") tv = std::string("-") + MOBTYPES[rs.types[b - 1]];
                ew = std::max(ew, e1); ev = std::max(ev, e2); }
            chk("pose-w" + tw, ew, 1e-7, seed, k, rs); chk("pose-v" + tv, ev, 1e-7, seed, k, rs);
            chk(std::string("station-") + (sb == 0 ? "Ground" : MOBTYPES[rs.types[sb - 1]]), (dS / h - m.getMobilizedBody(sb).findStationVelocityInGround(s, pS)).norm(), 1e-7, seed, k, rs); }
        if (nq) {
            Vector qdd, NDW, NDU, NW, NINW, NNI, NTF, NITW, NIF, NDTF;
            m.calcQDotDot(s, UD, qdd); m.multiplyByNDot(s, false, W, NDW); m.multiplyByNDot(s, false, s.getU(), NDU);
            m.multiplyByN(s, false, W, NW); m.multiplyByNInv(s, false, NW, NINW); m.multiplyByN(s, false, NINW, NNI);
            m.multiplyByN(s, true, F, NTF); m.multiplyByNInv(s, true, W, NITW); m.multiplyByNInv(s, false, F, NIF); m.multiplyByNDot(s, true, F, NDTF);
            // block-diagonal operators: one evaluation per mobilizer, attributed to its type
            for (MobilizedBodyIndex b(1); b < NB; ++b) { const MobilizedBody& mb = m.getMobilizedBody(b); int bq = mb.getNumQ(s), bu = mb.getNumU(s); if (!bq) continue;
                int q0 = (int)mb.getFirstQIndex(s), u0 = (int)mb.getFirstUIndex(s); std::string tag = std::string("-") + MOBTYPES[rs.types[b - 1]] + (m.isUsingQuaternion(s, b) ? "-quat" : "");
                auto qn = [&](const Vector& a, const Vector& c) { Real e = 0; for (int i = 0; i < bq; ++i) e += square(a[q0 + i] - c[q0 + i]); return std::sqrt(e); };
                auto un = [&](const Vector& a, const Vector& c) { Real e = 0; for (int i = 0; i < bu; ++i) e += square(a[u0 + i] - c[u0 + i]); return std::sqrt(e); };
                auto qdot_ = [&](const Vector& a, const Vector& c) { Real e = 0; for (int i = 0; i < bq; ++i) e += a[q0 + i] * c[q0 + i]; return e; };
                auto udot_ = [&](const Vector& a, const Vector& c) { Real e = 0; for (int i = 0; i < bu; ++i) e += a[u0 + i] * c[u0 + i]; return e; };
                chk("qdd" + tag, qn(dQdot / h, qdd), 1e-7, seed, k, rs);
                chk("NDot" + tag, qn(dNW / h, NDW), 1e-7, seed, k, rs);
                chk("NDot-u" + tag, qn(dNU / h, NDU), 1e-7, seed, k, rs);
                chk("NInvN" + tag, un(NINW, W), 1e-12, seed, k, rs); chk("NNInv" + tag, qn(NNI, NW), 1e-12, seed, k, rs);
                chk("adjoint-N" + tag, std::abs(qdot_(F, NW) - udot_(NTF, W)), 1e-12, seed, k, rs);
                chk("adjoint-NInv" + tag, std::abs(udot_(W, NIF) - qdot_(NITW, F)), 1e-12, seed, k, rs);
                chk("adjoint-NDot" + tag, std::abs(qdot_(F, NDW) - udot_(NDTF, W)), 1e-12, seed, k, rs); }
        }
    }
    std::printf("DONE %ld fails=%d\n", evals, fails);
    return 0;
}
