// C05 correspondence probe: single-mobilizer systems Ground -> mobilizer -> body, every built-in mobilizer type,
// forward / Reverse, quaternion / Euler option, identity or general X_PF / X_BM frames, random options
// (Screw pitch, Ellipsoid radii, SphericalCoords offsets/signs/axis), random q and u.
// usage: C05_probe <seed> <ncases>
// prints per case:  CASE type rev euler frames nq nu npar par.. q.. u.. q2.. u2..
//                   OUT X 12 | OUT V 6 | OUT H k 6 | OUT FITX 12 | OUT FITQ nq | OUT FITU nu | OUT FITV 6
//                   OUT PFR nq | OUT PFT nq | OUT PFW nu | OUT PFL nu | END
// PFR / PFT: coordinates after the PARTIAL fits setQToFitRotation(R of X) / setQToFitTranslation(p of X) applied to a state
// holding the second random coordinate set q2; PFW / PFL: speeds after setUToFitAngularVelocity(w of V) /
// setUToFitLinearVelocity(v of V) applied to the case's q with the second random speeds u2.
// X,V,H are the reported getMobilizerTransform / getMobilizerVelocity / getH_FMCol; FITX is the mobilizer transform
// after setQToFitTransform(X) on a fresh state, FITU the speeds after setUToFitVelocity(V) (q as in the case).
#include "mb_common.h"

static MobilizedBody makeMobod(int type, MobilizedBody& parent, const Transform& xp, const Body& b, const Transform& xb, bool rev,
                               const std::vector<Real>& par) {
    MobilizedBody::Direction d = rev ? MobilizedBody::Reverse : MobilizedBody::Forward;
    switch (type) {
    case 11: return MobilizedBody::Screw(parent, xp, b, xb, par[0], d);
    case 12: return MobilizedBody::Ellipsoid(parent, xp, b, xb, Vec3(par[0], par[1], par[2]), d);
    case 15: return MobilizedBody::SphericalCoords(parent, xp, b, xb, par[0], par[1] < 0, par[2], par[3] < 0,
                                                   par[4] > 0 ? CoordinateAxis(XAxis) : CoordinateAxis(ZAxis), par[5] < 0, d);
    default: return addMobod(type, parent, xp, b, xb, rev);
    }
}
static void pX(const char* tag, const Transform& X) {
    std::printf("OUT %s", tag);
    for (int i = 0; i < 3; ++i) for (int j = 0; j < 3; ++j) std::printf(" %a", X.R().asMat33()(i, j));
    std::printf(" %a %a %a\n", X.p()[0], X.p()[1], X.p()[2]);
}
int main(int argc, char** argv) {
    unsigned long long seed = std::strtoull(argv[1], 0, 10); int n = std::atoi(argv[2]);
    Rng r(seed);
    // fixed regression cases run first (witnesses of defects repaired in /repo, see known_findings.txt `fixed:` lines):
    //  0 Ellipsoid radii (1,2,3), F and M aligned, u=(1,0,0)        (7c1ce7f5; Coq: Ell_fitV_prefix_refuted)
    //  1 Ellipsoid sphere, general orientation                      (7c1ce7f5: transform fit failed even for a sphere)
    //  2 BendStretch q=(0,-1)                                       (c1dcbf40; Coq: BendStretch_fit_prefix_negative_stretch_refuted)
    //  3 BendStretch q=(2.5,-0.7)
    //  4 SphericalCoords default options q=(0.5,0.7,2) u=(0.1,-0.2,0.3)   (e26a1a3b)
    //  5 SphericalCoords all negated, x axis, offsets, same q,u     (e26a1a3b)
    const int NREG = 6;
    struct Reg { int type; std::vector<Real> par, q, u; };
    const Reg regs[NREG] = {
        { 12, { 1, 2, 3 }, { 1, 0, 0, 0 }, { 1, 0, 0 } },
        { 12, { 0.8, 0.8, 0.8 }, { 0.5, -0.5, 0.5, 0.5 }, { 0.3, -0.2, 0.7 } },
        { 4, {}, { 0, -1 }, { 0.4, 0.6 } },
        { 4, {}, { 2.5, -0.7 }, { -0.4, 0.9 } },
        { 15, { 0, 1, 0, 1, -1, 1 }, { 0.5, 0.7, 2 }, { 0.1, -0.2, 0.3 } },
        { 15, { 0.3, -1, -0.4, -1, 1, -1 }, { 0.5, 0.7, 2 }, { 0.1, -0.2, 0.3 } } };
    for (int k = -NREG; k < n; ++k) {
        const Reg* reg = k < 0 ? &regs[k + NREG] : 0;
        int type = reg ? reg->type : k % NMOBTYPES; bool rev = r.I(0, 1) == 1; bool euler = r.I(0, 1) == 1; int frames = r.I(0, 1);
        if (reg) { rev = false; euler = false; frames = 0; }
        if (type == 16) rev = false;                     // there is no reverse Weld
        std::vector<Real> par;
        if (type == 11) par = { r.U(0.2, 1.5) * (r.I(0, 1) ? 1 : -1) };
        if (type == 12) { if (r.I(0, 3) == 0) { Real a = r.U(0.3, 1.2); par = { a, a, a }; } else par = { r.U(0.3, 1.2), r.U(0.3, 1.2), r.U(0.3, 1.2) }; }
        if (type == 15) par = { r.U(-1, 1), r.I(0, 1) ? 1.0 : -1.0, r.U(-1, 1), r.I(0, 1) ? 1.0 : -1.0, r.I(0, 1) ? 1.0 : -1.0, r.I(0, 1) ? 1.0 : -1.0 };
        if (reg) par = reg->par;
        MultibodySystem sys; SimbodyMatterSubsystem matter(sys);
        Body::Rigid body(randomMassProps(r));
        Transform xp = frames ? r.xf() : Transform(), xb = frames ? r.xf() : Transform();
        MobilizedBody mb = makeMobod(type, matter.updGround(), xp, body, xb, rev, par);
        State s = sys.realizeTopology(); matter.setUseEulerAngles(s, euler); sys.realizeModel(s);
        int nq = s.getNQ(), nu = s.getNU();
        bool quat = matter.isUsingQuaternion(s, mb.getMobilizedBodyIndex());
        // coordinates: angles in +-[0.1,1.2] (Euler middle angle |q1| <= 1.2 keeps |cos q1| > 0.36), translations likewise
        for (int i = 0; i < nq; ++i) s.updQ()[i] = r.U(0.1, 1.2) * (r.I(0, 1) ? 1 : -1);
        // half of the cases: the rotational coordinates other than an Euler middle angle range over +-[0.25,3.0]
        // (all four quadrants, so every branch of the atan2-based fitters is exercised)
        if (r.I(0, 1) == 1 && !quat) {
            static const int wideIdx[17][3] = { {0,-1,-1}, {-1,-1,-1}, {0,-1,-1}, {0,-1,-1}, {0,-1,-1}, {0,-1,-1}, {0,2,-1}, {0,2,-1}, {0,2,-1}, {0,2,-1},
                                                {-1,-1,-1}, {0,-1,-1}, {0,2,-1}, {0,2,-1}, {0,2,-1}, {0,1,-1}, {-1,-1,-1} };
            for (int j = 0; j < 3; ++j) if (wideIdx[type][j] >= 0 && wideIdx[type][j] < nq) s.updQ()[wideIdx[type][j]] *= 2.5; }
        if (quat) { Vec4 e(r.U(-1, 1), r.U(-1, 1), r.U(-1, 1), r.U(-1, 1)); if (e.norm() < 0.2) e = Vec4(1, 0, 0, 0); e = e / e.norm(); for (int i = 0; i < 4; ++i) s.updQ()[i] = e[i]; }
        for (int i = 0; i < nu; ++i) s.updU()[i] = r.U(-1, 1);
        if (reg) { for (int i = 0; i < (int)reg->q.size() && i < nq; ++i) s.updQ()[i] = reg->q[i]; for (int i = 0; i < (int)reg->u.size() && i < nu; ++i) s.updU()[i] = reg->u[i]; }
        sys.realize(s, Stage::Velocity);
        // second, unrelated coordinate / speed set: the starting point of the partial fits
        Vector q2(nq), u2(nu);
        for (int i = 0; i < nq; ++i) q2[i] = r.U(0.1, 1.2) * (r.I(0, 1) ? 1 : -1);
        if (quat) { Vec4 e(r.U(-1, 1), r.U(-1, 1), r.U(-1, 1), r.U(-1, 1)); if (e.norm() < 0.2) e = Vec4(1, 0, 0, 0); e = e / e.norm(); for (int i = 0; i < 4; ++i) q2[i] = e[i]; }
        for (int i = 0; i < nu; ++i) u2[i] = r.U(-1, 1);
        std::printf("CASE %d %d %d %d %d %d %d", type, (int)rev, (int)euler, frames, nq, nu, (int)par.size());
        for (Real p : par) std::printf(" %a", p);
        for (int i = 0; i < nq; ++i) std::printf(" %a", s.getQ()[i]);
        for (int i = 0; i < nu; ++i) std::printf(" %a", s.getU()[i]);
        for (int i = 0; i < nq; ++i) std::printf(" %a", q2[i]);
        for (int i = 0; i < nu; ++i) std::printf(" %a", u2[i]);
        std::printf("\n");
        const Transform X = mb.getMobilizerTransform(s); const SpatialVec V = mb.getMobilizerVelocity(s);
        pX("X", X);
        std::printf("OUT V"); psv(V); std::printf("\n");
        for (int j = 0; j < nu; ++j) { std::printf("OUT H %d", j); psv(mb.getH_FMCol(s, MobilizerUIndex(j))); std::printf("\n"); }
        // fit round trips on the implementation
        {   State s2 = sys.realizeTopology(); matter.setUseEulerAngles(s2, euler); sys.realizeModel(s2);
            mb.setQToFitTransform(s2, X);
            sys.realize(s2, Stage::Position);
            pX("FITX", mb.getMobilizerTransform(s2));
            pvec("OUT FITQ", s2.getQ());
            State s3 = s; s3.updU() = 0;
            mb.setUToFitVelocity(s3, V);
            pvec("OUT FITU", s3.getU());
            sys.realize(s3, Stage::Velocity);
            std::printf("OUT FITV"); psv(mb.getMobilizerVelocity(s3)); std::printf("\n");
            // partial fits from the second coordinate / speed set
            State a = s2; a.updQ() = q2; mb.setQToFitRotation(a, X.R()); pvec("OUT PFR", a.getQ());
            State b = s2; b.updQ() = q2; mb.setQToFitTranslation(b, X.p()); pvec("OUT PFT", b.getQ());
            State c = s; c.updU() = u2; mb.setUToFitAngularVelocity(c, V[0]); pvec("OUT PFW", c.getU());
            State d = s; d.updU() = u2; mb.setUToFitLinearVelocity(d, V[1]); pvec("OUT PFL", d.getU());
        }
        std::printf("END\n");
    }
    return 0;
}
