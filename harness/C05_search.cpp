// C05 failing-input search, on the implementation alone: the property's own predicates on single-mobilizer systems.
//  doc-form        reported X_FM equals the documented closed form (written here with plain sin/cos arithmetic)
//  speeds          V_FM equals the 4th-order central difference of X_FM along qdot (R' = [w]x R, p' = v)
//  reversed        X_FM(reversed mobilizer, q) * X_FM(forward mobilizer, q) = identity
//  H               V_FM = sum_j u_j getH_FMCol(j)
//  fit             setQToFitTransform(own X) / setUToFitVelocity(own V) reproduce pose / speeds
//  partial fits    starting from an unrelated second coordinate / speed set (q2,u2):
//    fitR+T        setQToFitRotation(R of X) then setQToFitTranslation(p of X) reproduces the pose (Ellipsoid: rotation fit only)
//    fitT+R        the other order, for forward mobilizers whose translation fit does not consult the rotation
//    fitR-keeps-p / fitT-keeps-R   independent coordinates (Cylinder, Planar, Bushing, Free, FreeLine, forward): a partial fit
//                  reaches its target and leaves the other part of the pose where it was
//    fitR-reaches-R / fitW-reaches-w   every type, forward and Reverse: the rotation (angular velocity) fit alone reproduces the
//                  requested rotation (angular velocity), which depend on the rotational coordinates (speeds) only
//    fitW+LV / fitLV+W   setUToFitAngularVelocity(w of V) and setUToFitLinearVelocity(v of V), either order, reproduce u
//                  (reversed mobilizers only when w_FM = 0: the linear wrapper assumes that; Ellipsoid W+LV only for a sphere)
// usage: C05_search <seed> <ncases>; prints "FAIL <predicate>-<Type> err=... case..." lines and "DONE <evaluations> fails=<n>".
#include "mb_common.h"
static long evals = 0; static int fails = 0;
static MobilizedBody makeMobod(int type, MobilizedBody& parent, const Transform& xp, const Body& b, const Transform& xb, bool rev,
                               const std::vector<Real>& par) {
    MobilizedBody::Direction d = rev ? MobilizedBody::Reverse : MobilizedBody::Forward;
    switch (type) {
    case 11: return MobilizedBody::Screw(parent, xp, b, xb, par[0], d);
    case 12: return MobilizedBody::Ellipsoid(parent, xp, b, xb, Vec3(par[0], par[1], par[2]), d);
    case 15: return MobilizedBody::SphericalCoords(parent, xp, b, xb, par[0], par[1] < 0, par[2], par[3] < 0,
                                                   par[4] > 0 ? CoordinateAxis(XAxis) : CoordinateAxis(ZAxis), par[5] < 0, d);
    default: return addMobod(type, parent, xp, b, xb, rev);
    }
}
static Mat33 RX(Real a) { Real c = std::cos(a), s = std::sin(a); return Mat33(1, 0, 0, 0, c, -s, 0, s, c); }
static Mat33 RY(Real a) { Real c = std::cos(a), s = std::sin(a); return Mat33(c, 0, s, 0, 1, 0, -s, 0, c); }
static Mat33 RZ(Real a) { Real c = std::cos(a), s = std::sin(a); return Mat33(c, -s, 0, s, c, 0, 0, 0, 1); }
static Mat33 RQ(const Vec4& q) { Vec4 e = q / q.norm(); Real a = e[0], b = e[1], c = e[2], d = e[3];
    return Mat33(a*a+b*b-c*c-d*d, 2*(b*c-a*d), 2*(b*d+a*c), 2*(b*c+a*d), a*a-b*b+c*c-d*d, 2*(c*d-a*b), 2*(b*d-a*c), 2*(c*d+a*b), a*a-b*b-c*c+d*d); }
// documented closed form of the as-defined X(q): returns R, p
static void docForm(int type, bool quat, const std::vector<Real>& par, const Vector& q, Mat33& R, Vec3& p) {
    R = Mat33(1); p = Vec3(0);
    auto ball = [&](int& off) { if (quat) { R = RQ(Vec4(q[0], q[1], q[2], q[3])); off = 4; } else { R = RX(q[0]) * RY(q[1]) * RZ(q[2]); off = 3; } };
    int off = 0;
    switch (type) {
    case 0: R = RZ(q[0]); break;
    case 1: p = Vec3(q[0], 0, 0); break;
    case 2: R = RX(q[0]) * RY(q[1]); break;
    case 3: R = RZ(q[0]); p = Vec3(0, 0, q[1]); break;
    case 4: R = RZ(q[0]); p = R * Vec3(q[1], 0, 0); break;
    case 5: R = RZ(q[0]); p = Vec3(q[1], q[2], 0); break;
    case 6: R = RX(q[0]) * RY(q[1]) * RZ(q[2]); break;
    case 7: R = RX(q[0]) * RY(q[1]) * RZ(q[2]); p = Vec3(q[3], q[4], q[5]); break;
    case 8: case 13: ball(off); break;
    case 9: case 14: ball(off); p = Vec3(q[off], q[off + 1], q[off + 2]); break;
    case 10: p = Vec3(q[0], q[1], q[2]); break;
    case 11: R = RZ(q[0]); p = Vec3(0, 0, par[0] * q[0]); break;
    case 12: ball(off); p = Vec3(par[0] * R(0, 2), par[1] * R(1, 2), par[2] * R(2, 2)); break;
    case 15: { R = RZ(par[1] * q[0] + par[0]) * RY(par[3] * q[1] + par[2]); Vec3 ax = par[4] > 0 ? Vec3(R(0, 0), R(1, 0), R(2, 0)) : Vec3(R(0, 2), R(1, 2), R(2, 2)); p = par[5] * q[2] * ax; break; }
    default: break;
    }
}
static void chk(const char* what, int type, Real err, Real tol, const char* info) {
    ++evals;
    if (!(err <= tol)) { if (fails++ < 40) std::printf("FAIL %s-%s err=%.6g %s\n", what, MOBTYPES[type], err, info); }
}
static Real xdiff(const Mat33& R, const Vec3& p, const Transform& X) { return (R - X.R().asMat33()).norm() + (p - X.p()).norm(); }
int main(int argc, char** argv) {
    unsigned long long seed = std::strtoull(argv[1], 0, 10); int n = std::atoi(argv[2]);
    Rng r(seed);
    for (int k = 0; k < n; ++k) {
        int type = k % NMOBTYPES; bool rev = r.I(0, 1) == 1; bool euler = r.I(0, 1) == 1; int frames = r.I(0, 1);
        if (type == 16) rev = false;
        std::vector<Real> par;
        if (type == 11) par = { r.U(0.2, 1.5) * (r.I(0, 1) ? 1 : -1) };
        if (type == 12) { if (r.I(0, 3) == 0) { Real a = r.U(0.3, 1.2); par = { a, a, a }; } else par = { r.U(0.3, 1.2), r.U(0.3, 1.2), r.U(0.3, 1.2) }; }
        if (type == 15) par = { r.U(-1, 1), r.I(0, 1) ? 1.0 : -1.0, r.U(-1, 1), r.I(0, 1) ? 1.0 : -1.0, r.I(0, 1) ? 1.0 : -1.0, r.I(0, 1) ? 1.0 : -1.0 };
        MultibodySystem sys; SimbodyMatterSubsystem matter(sys);
        Body::Rigid body(randomMassProps(r));
        Transform xp = frames ? r.xf() : Transform(), xb = frames ? r.xf() : Transform();
        MobilizedBody mb = makeMobod(type, matter.updGround(), xp, body, xb, rev, par);
        // the same mobilizer in the other direction, sharing q
        MultibodySystem sysO; SimbodyMatterSubsystem matterO(sysO);
        MobilizedBody mo = makeMobod(type, matterO.updGround(), xp, body, xb, !rev && type != 16, par);
        State s = sys.realizeTopology(); matter.setUseEulerAngles(s, euler); sys.realizeModel(s);
        State so = sysO.realizeTopology(); matterO.setUseEulerAngles(so, euler); sysO.realizeModel(so);
        int nq = s.getNQ(), nu = s.getNU(); bool quat = matter.isUsingQuaternion(s, mb.getMobilizedBodyIndex());
        for (int i = 0; i < nq; ++i) s.updQ()[i] = r.U(0.1, 1.2) * (r.I(0, 1) ? 1 : -1);
        if (quat) { Vec4 e(r.U(-1, 1), r.U(-1, 1), r.U(-1, 1), r.U(-1, 1)); if (e.norm() < 0.2) e = Vec4(1, 0, 0, 0); e = e / e.norm(); for (int i = 0; i < 4; ++i) s.updQ()[i] = e[i]; }
        for (int i = 0; i < nu; ++i) s.updU()[i] = r.U(-1, 1);
        so.updQ() = s.getQ();
        sys.realize(s, Stage::Velocity); sysO.realize(so, Stage::Position);
        char info[256]; std::snprintf(info, sizeof info, "seed=%llu case=%d rev=%d euler=%d frames=%d", seed, k, (int)rev, (int)euler, frames);
        const Transform X = mb.getMobilizerTransform(s); const SpatialVec V = mb.getMobilizerVelocity(s);
        // doc-form (as defined; the reversed mobilizer must report the inverse)
        Mat33 R; Vec3 p; docForm(type, quat, par, s.getQ(), R, p);
        if (rev) { Mat33 Rt = ~R; Vec3 pt = -(Rt * p); R = Rt; p = pt; }
        chk("doc-form", type, xdiff(R, p, X), 1e-12, info);
        // reversed * forward = identity
        if (type != 16) { Transform P = mo.getMobilizerTransform(so) * X; chk("reversed-inverse", type, xdiff(Mat33(1), Vec3(0), P), 1e-12, info); }
        // V = H u
        SpatialVec Hu(Vec3(0), Vec3(0)); for (int j = 0; j < nu; ++j) Hu += mb.getH_FMCol(s, MobilizerUIndex(j)) * s.getU()[j];
        chk("V=Hu", type, (Hu - V).norm(), 1e-12, info);
        // speeds meaning: 4th-order central difference of X_FM along qdot
        { const Real h = 1e-3; Mat33 dR(0); Vec3 dp(0); const Real cf[4] = { 1.0 / 12, -8.0 / 12, 8.0 / 12, -1.0 / 12 }; const Real st[4] = { -2, -1, 1, 2 };
          for (int m = 0; m < 4; ++m) { State sp = s; sp.updQ() += st[m] * h * s.getQDot(); sys.realize(sp, Stage::Position);
              const Transform Xm = mb.getMobilizerTransform(sp); dR += cf[m] * Xm.R().asMat33(); dp += cf[m] * Xm.p(); }
          dR /= h; dp /= h; Mat33 W = dR * ~X.R().asMat33(); Vec3 w(W(2, 1), W(0, 2), W(1, 0));
          chk("speeds-angular", type, (w - V[0]).norm(), 1e-8, info); chk("speeds-linear", type, (dp - V[1]).norm(), 1e-8, info); }
        // fits
        State s2 = sys.realizeTopology(); matter.setUseEulerAngles(s2, euler); sys.realizeModel(s2);
        { State f = s2; mb.setQToFitTransform(f, X); sys.realize(f, Stage::Position); const Transform X2 = mb.getMobilizerTransform(f);
          chk("fitQ", type, xdiff(X2.R().asMat33(), X2.p(), X), 1e-9, info);
          State s3 = s; s3.updU() = 0; mb.setUToFitVelocity(s3, V); chk("fitU", type, nu ? (s3.getU() - s.getU()).norm() : 0, 1e-9, info); }
        // partial fits, starting from a second unrelated coordinate / speed set
        { Vector q2(nq), u2(nu);
          for (int i = 0; i < nq; ++i) q2[i] = r.U(0.1, 1.2) * (r.I(0, 1) ? 1 : -1);
          if (quat) { Vec4 e(r.U(-1, 1), r.U(-1, 1), r.U(-1, 1), r.U(-1, 1)); if (e.norm() < 0.2) e = Vec4(1, 0, 0, 0); e = e / e.norm(); for (int i = 0; i < 4; ++i) q2[i] = e[i]; }
          for (int i = 0; i < nu; ++i) u2[i] = r.U(-1, 1);
          auto pose = [&](State& st) { sys.realize(st, Stage::Position); return mb.getMobilizerTransform(st); };
          State z = s2; z.updQ() = q2; const Transform X0 = pose(z);         // pose of the starting coordinates
          { State a = s2; a.updQ() = q2; mb.setQToFitRotation(a, X.R()); mb.setQToFitTranslation(a, X.p());   // (Ellipsoid: known finding fitR+T-Ellipsoid)
            const Transform Xa = pose(a); chk("fitR+T", type, xdiff(Xa.R().asMat33(), Xa.p(), X), 1e-9, info); }
          { State a = s2; a.updQ() = q2; mb.setQToFitRotation(a, X.R()); const Transform Xa = pose(a);
            chk("fitR-reaches-R", type, (Xa.R().asMat33() - X.R().asMat33()).norm(), 1e-9, info);
            State c = s; c.updU() = u2; mb.setUToFitAngularVelocity(c, V[0]); sys.realize(c, Stage::Velocity);
            chk("fitW-reaches-w", type, (mb.getMobilizerVelocity(c)[0] - V[0]).norm(), 1e-9, info); }
          const bool indep = !rev && (type == 3 || type == 5 || type == 7 || type == 9 || type == 14);
          const bool trOK = !rev && (indep || type == 0 || type == 1 || type == 2 || type == 6 || type == 8 || type == 10 || type == 11 || type == 13 || type == 16);
          if (trOK) { State a = s2; a.updQ() = q2; mb.setQToFitTranslation(a, X.p()); mb.setQToFitRotation(a, X.R());
            const Transform Xa = pose(a); chk("fitT+R", type, xdiff(Xa.R().asMat33(), Xa.p(), X), 1e-9, info); }
          if (indep) { State a = s2; a.updQ() = q2; mb.setQToFitRotation(a, X.R()); const Transform Xa = pose(a);
            chk("fitR-keeps-p", type, (Xa.R().asMat33() - X.R().asMat33()).norm() + (Xa.p() - X0.p()).norm(), 1e-9, info);
            State b = s2; b.updQ() = q2; mb.setQToFitTranslation(b, X.p()); const Transform Xb = pose(b);
            chk("fitT-keeps-R", type, (Xb.R().asMat33() - X0.R().asMat33()).norm() + (Xb.p() - X.p()).norm(), 1e-9, info); }
          const bool velOK = !rev || V[0].norm() == 0;
          const bool sphere = type != 12 || (par[0] == par[1] && par[1] == par[2]);
          (void)sphere;   // a non-spherical Ellipsoid is the known finding fitW+LV-Ellipsoid
          if (velOK) { State c = s; c.updU() = u2; mb.setUToFitAngularVelocity(c, V[0]); mb.setUToFitLinearVelocity(c, V[1]);
            chk("fitW+LV", type, nu ? (c.getU() - s.getU()).norm() : 0, 1e-9, info); }
          if (velOK) { State c = s; c.updU() = u2; mb.setUToFitLinearVelocity(c, V[1]); mb.setUToFitAngularVelocity(c, V[0]);
            chk("fitLV+W", type, nu ? (c.getU() - s.getU()).norm() : 0, 1e-9, info); }
        }
    }
    std::printf("DONE %ld fails=%d\n", evals, fails);
    return 0;
}
