// C06 mirror probe: representation pairs for the clauses the relocation probe (C06_probe.cpp) does not cover.
//  MIRROR : the same random tree built twice, member A with built-in mobilizers, member B with user-defined
//           mobilizers that mirror them (MobilizedBody::Custom implementations written here, or
//           MobilizedBody::FunctionBased), forward and Reverse, quaternion or Euler mode; same q,u, gravity,
//           random body forces and mobility forces.  Both members' per-body data (dumpTreeData: shift vectors,
//           hinge columns getHCol, inertias -- the hypothesis of the Coq extensionality theorem) and results.
//  MCONV  : quaternion<->Euler state conversion applied to both twins (A built-in, B mirror), all coordinates non-zero.
//  MSELF  : the mirror model before (A) and after (B) the conversion.
//  REV    : formulation of Simbody/tests/TestReverseMobilizers.cpp over all built-in types:
//           forward  Ground -Free-> A -T(X_AM,X_BM)-> B [+ children],
//           reversed Ground -Free-> B -T(X_BM,X_AM,Reverse)-> A [+ the same children], same q,u of T,
//           base placed with setQToFitTransform / setUToFitVelocity.  Bodies are printed under identity ids
//           (A=1, B=2, extra children 3,4) in both members.
// usage: C06_mirror_probe <seed> <npairs> [maxBodies]
#include "mb_common.h"
#include <cmath>

// ------------------------------------------------------------------ functions for FunctionBased mirrors
struct FConst : public Function {
    Real c; explicit FConst(Real c = 0) : c(c) {}
    Real calcValue(const Vector&) const override { return c; }
    Real calcDerivative(const Array_<int>&, const Vector&) const override { return 0; }
    int getArgumentSize() const override { return 0; }
    int getMaxDerivativeOrder() const override { return 10; }
    Function* clone() const override { return new FConst(*this); }
};
struct FLin : public Function {
    Real m; explicit FLin(Real m = 1) : m(m) {}
    Real calcValue(const Vector& x) const override { return m * x[0]; }
    Real calcDerivative(const Array_<int>& d, const Vector&) const override { return d.size() == 1 ? m : 0; }
    int getArgumentSize() const override { return 1; }
    int getMaxDerivativeOrder() const override { return 10; }
    Function* clone() const override { return new FLin(*this); }
};
// f(theta, r) = r cos(theta)  or  r sin(theta)   (BendStretch translation in F)
struct FPolar : public Function {
    bool isSin; explicit FPolar(bool s) : isSin(s) {}
    static Real trigd(bool isSin, int n, Real th) {   // n-th derivative of sin / cos
        int k = (n % 4 + (isSin ? 3 : 0)) % 4;        // cos -> -sin -> -cos -> sin ; sin = cos shifted by 3
        switch (k) { case 0: return std::cos(th); case 1: return -std::sin(th); case 2: return -std::cos(th); default: return std::sin(th); }
    }
    Real calcValue(const Vector& x) const override { return x[1] * trigd(isSin, 0, x[0]); }
    Real calcDerivative(const Array_<int>& d, const Vector& x) const override {
        int n0 = 0, n1 = 0; for (int i = 0; i < (int)d.size(); ++i) (d[i] == 0 ? n0 : n1)++;
        if (n1 >= 2) return 0;
        return (n1 == 1 ? 1.0 : x[1]) * trigd(isSin, n0, x[0]);
    }
    int getArgumentSize() const override { return 2; }
    int getMaxDerivativeOrder() const override { return 10; }
    Function* clone() const override { return new FPolar(*this); }
};

static const Real SCREW_PITCH = 0.3;   // as addMobod() in mb_common.h
// mirrorable built-in types (indices into MOBTYPES)
static const int MIRRORABLE[] = {0, 1, 2, 3, 4, 5, 6, 7, 8, 9, 10, 11, 12, 15};
static const int NMIRRORABLE = 14;
static bool hasFunctionBased(int ty) { return ty != 8 && ty != 9 && ty != 12 && ty != 15; }
static const Vec3 ELL_RADII(0.5, 0.7, 0.9);   // as addMobod() in mb_common.h

// ------------------------------------------------------------------ Custom implementations mirroring built-ins
class MirrorImpl : public MobilizedBody::Custom::Implementation {
public:
    int ty;
    //                                               Pin Sl Un Cy BS Pl Gi Bu Ba Fr Tr Sc El LO FL Sph
    static int nuOf(int ty) { static const int n[] = {1, 1, 2, 2, 2, 3, 3, 6, 3, 6, 3, 1, 3, 0, 0, 3}; return n[ty]; }
    static int nqOf(int ty) { static const int n[] = {1, 1, 2, 2, 2, 3, 3, 6, 4, 7, 3, 1, 4, 0, 0, 3}; return n[ty]; }
    static int nAngOf(int ty) { static const int n[] = {1, 0, 2, 1, 1, 1, 3, 3, 4, 4, 0, 1, 4, 0, 0, 2}; return n[ty]; }
    static Vec3 emul(const Vec3& r, const Vec3& v) { return Vec3(r[0] * v[0], r[1] * v[1], r[2] * v[2]); }
    MirrorImpl(SimbodyMatterSubsystem& m, int ty) : Implementation(m, nuOf(ty), nqOf(ty), nAngOf(ty)), ty(ty) {}
    Implementation* clone() const override { return new MirrorImpl(*this); }

    static Rotation Rx(Real a) { return Rotation(a, XAxis); }
    static Rotation Ry(Real a) { return Rotation(a, YAxis); }
    static Rotation Rz(Real a) { return Rotation(a, ZAxis); }

    Transform calcMobilizerTransformFromQ(const State& s, int nq, const Real* q) const override {
        switch (ty) {
        case 0: return Transform(Rz(q[0]), Vec3(0));
        case 1: return Transform(Rotation(), Vec3(q[0], 0, 0));
        case 2: return Transform(Rx(q[0]) * Ry(q[1]), Vec3(0));
        case 3: return Transform(Rz(q[0]), Vec3(0, 0, q[1]));
        case 4: { Rotation R = Rz(q[0]); return Transform(R, R * Vec3(q[1], 0, 0)); }
        case 5: return Transform(Rz(q[0]), Vec3(q[1], q[2], 0));
        case 6: return Transform(Rx(q[0]) * Ry(q[1]) * Rz(q[2]), Vec3(0));
        case 7: return Transform(Rx(q[0]) * Ry(q[1]) * Rz(q[2]), Vec3(q[3], q[4], q[5]));
        case 8: case 9: case 12: {
            Transform t(ty == 9 ? Vec3::getAs(&q[nq - 3]) : Vec3(0));
            if (getUseEulerAngles(s)) t.updR().setRotationToBodyFixedXYZ(Vec3::getAs(q));
            else t.updR().setRotationFromQuaternion(Quaternion(Vec4::getAs(q)));     // normalises
            if (ty == 12) t.updP() = emul(ELL_RADII, t.R() * Vec3(0, 0, 1));          // Mo on the ellipsoid surface, normal = Mz
            return t;
        }
        case 10: return Transform(Rotation(), Vec3(q[0], q[1], q[2]));
        case 15: { Rotation R = Rz(q[0]) * Ry(q[1]); return Transform(R, q[2] * (R * Vec3(0, 0, 1))); }   // default options: radius along Mz
        default: return Transform(Rz(q[0]), Vec3(0, 0, SCREW_PITCH * q[0]));
        }
    }
    // hinge columns (in F) and their time derivatives
    void HH(const State& s, SpatialVec* H, SpatialVec* Hd) const {
        const Vec3 x(1, 0, 0), y(0, 1, 0), z(0, 0, 1), o(0);
        for (int i = 0; i < 6; ++i) { H[i] = SpatialVec(o, o); if (Hd) Hd[i] = SpatialVec(o, o); }
        Vector q = getQ(s); Vector u; if (Hd) u = getU(s);
        switch (ty) {
        case 0: H[0] = SpatialVec(z, o); break;
        case 1: H[0] = SpatialVec(o, x); break;
        case 2: { Vec3 c1 = Rx(q[0]) * y; H[0] = SpatialVec(x, o); H[1] = SpatialVec(c1, o);
                  if (Hd) Hd[1] = SpatialVec((u[0] * x) % c1, o); break; }
        case 3: H[0] = SpatialVec(z, o); H[1] = SpatialVec(o, z); break;
        case 4: { Rotation R = Rz(q[0]); Vec3 rx = R * x; Vec3 p = q[1] * rx;
                  H[0] = SpatialVec(z, z % p); H[1] = SpatialVec(o, rx);
                  if (Hd) { Vec3 pd = u[0] * (z % p) + u[1] * rx; Hd[0] = SpatialVec(o, z % pd); Hd[1] = SpatialVec(o, u[0] * (z % rx)); }
                  break; }
        case 5: H[0] = SpatialVec(z, o); H[1] = SpatialVec(o, x); H[2] = SpatialVec(o, y); break;
        case 6: case 7: { Vec3 a1 = Rx(q[0]) * y; Vec3 a2 = (Rx(q[0]) * Ry(q[1])) * z;
                  H[0] = SpatialVec(x, o); H[1] = SpatialVec(a1, o); H[2] = SpatialVec(a2, o);
                  if (ty == 7) { H[3] = SpatialVec(o, x); H[4] = SpatialVec(o, y); H[5] = SpatialVec(o, z); }
                  if (Hd) { Hd[1] = SpatialVec((u[0] * x) % a1, o); Hd[2] = SpatialVec((u[0] * x + u[1] * a1) % a2, o); }
                  break; }
        case 8: H[0] = SpatialVec(x, o); H[1] = SpatialVec(y, o); H[2] = SpatialVec(z, o); break;
        case 9: H[0] = SpatialVec(x, o); H[1] = SpatialVec(y, o); H[2] = SpatialVec(z, o);
                H[3] = SpatialVec(o, x); H[4] = SpatialVec(o, y); H[5] = SpatialVec(o, z); break;
        case 10: H[0] = SpatialVec(o, x); H[1] = SpatialVec(o, y); H[2] = SpatialVec(o, z); break;
        case 12: { // u = w_FM in F; v = radii .* (w x n), n = Mz in F
            Vec3 n = getMobilizerTransform(s).R() * z; Vec3 e[3] = {x, y, z};
            Vec3 w(0); if (Hd) w = Vec3(u[0], u[1], u[2]);
            for (int i = 0; i < 3; ++i) { H[i] = SpatialVec(e[i], emul(ELL_RADII, e[i] % n)); if (Hd) Hd[i] = SpatialVec(o, emul(ELL_RADII, e[i] % (w % n))); }
            break; }
        case 15: { // azimuth q0 about Fz, zenith q1 about My, radius q2 along Mz
            Rotation R = Rz(q[0]) * Ry(q[1]); Vec3 My = R * y, Mz = R * z, p = q[2] * Mz;
            H[0] = SpatialVec(z, z % p); H[1] = SpatialVec(My, My % p); H[2] = SpatialVec(o, Mz);
            if (Hd) { Vec3 w = u[0] * z + u[1] * My; Vec3 Myd = (u[0] * z) % My, Mzd = w % Mz, pd = u[2] * Mz + q[2] * Mzd;
                      Hd[0] = SpatialVec(o, z % pd); Hd[1] = SpatialVec(Myd, Myd % p + My % pd); Hd[2] = SpatialVec(o, Mzd); }
            break; }
        default: H[0] = SpatialVec(z, SCREW_PITCH * z); break;
        }
    }
    SpatialVec multiplyByHMatrix(const State& s, int nu, const Real* u) const override {
        SpatialVec H[6]; HH(s, H, 0); SpatialVec r(Vec3(0), Vec3(0)); for (int i = 0; i < nu; ++i) r += u[i] * H[i]; return r;
    }
    void multiplyByHTranspose(const State& s, const SpatialVec& F, int nu, Real* f) const override {
        SpatialVec H[6]; HH(s, H, 0); for (int i = 0; i < nu; ++i) f[i] = ~H[i] * F;
    }
    SpatialVec multiplyByHDotMatrix(const State& s, int nu, const Real* u) const override {
        SpatialVec H[6], Hd[6]; HH(s, H, Hd); SpatialVec r(Vec3(0), Vec3(0)); for (int i = 0; i < nu; ++i) r += u[i] * Hd[i]; return r;
    }
    void multiplyByHDotTranspose(const State& s, const SpatialVec& F, int nu, Real* f) const override {
        SpatialVec H[6], Hd[6]; HH(s, H, Hd); for (int i = 0; i < nu; ++i) f[i] = ~Hd[i] * F;
    }
    // Ball / Free kinematic maps (u = w_FM [, v_FM] in F), as in Simbody/tests/TestCustomMobilizedBodies.cpp
    bool quatLike() const { return ty == 8 || ty == 9 || ty == 12; }
    void multiplyByN(const State& s, bool tr, int nIn, const Real* in, int nOut, Real* out) const override {
        if (!quatLike()) { Implementation::multiplyByN(s, tr, nIn, in, nOut, out); return; }
        const Vector q = getQ(s);
        if (getUseEulerAngles(s)) {
            Rotation R_FM; R_FM.setRotationToBodyFixedXYZ(Vec3::getAs(&q[0]));
            const Mat33 N = Rotation::calcNForBodyXYZInBodyFrame(Vec3::getAs(&q[0])) * ~R_FM;
            if (tr) Row3::updAs(out) = Row3::getAs(in) * N; else Vec3::updAs(out) = N * Vec3::getAs(in);
        } else {
            const Mat43 N = Rotation::calcUnnormalizedNForQuaternion(Vec4::getAs(&q[0]));
            if (tr) Row3::updAs(out) = Row4::getAs(in) * N; else Vec4::updAs(out) = N * Vec3::getAs(in);
        }
        if (ty == 9) Vec3::updAs(&out[nOut - 3]) = Vec3::getAs(&in[nIn - 3]);
    }
    void multiplyByNInv(const State& s, bool tr, int nIn, const Real* in, int nOut, Real* out) const override {
        if (!quatLike()) { Implementation::multiplyByNInv(s, tr, nIn, in, nOut, out); return; }
        const Vector q = getQ(s);
        if (getUseEulerAngles(s)) {
            Rotation R_FM; R_FM.setRotationToBodyFixedXYZ(Vec3::getAs(&q[0]));
            const Mat33 NInv = R_FM * Rotation::calcNInvForBodyXYZInBodyFrame(Vec3::getAs(&q[0]));
            if (tr) Row3::updAs(out) = Row3::getAs(in) * NInv; else Vec3::updAs(out) = NInv * Vec3::getAs(in);
        } else {
            const Mat34 NInv = Rotation::calcUnnormalizedNInvForQuaternion(Vec4::getAs(&q[0]));
            if (tr) Row4::updAs(out) = Row3::getAs(in) * NInv; else Vec3::updAs(out) = NInv * Vec4::getAs(in);
        }
        if (ty == 9) Vec3::updAs(&out[nOut - 3]) = Vec3::getAs(&in[nIn - 3]);
    }
    void multiplyByNDot(const State& s, bool tr, int nIn, const Real* in, int nOut, Real* out) const override {
        if (!quatLike()) { Implementation::multiplyByNDot(s, tr, nIn, in, nOut, out); return; }
        const Vector q = getQ(s);
        if (getUseEulerAngles(s)) {
            const Rotation& R_FM = getMobilizerTransform(s).R();
            Vec3::updAs(out) = Rotation::convertAngVelDotInBodyFrameToBodyXYZDotDot(Vec3::getAs(&q[0]), ~R_FM * Vec3::getAs(in), Vec3(0));
        } else {
            SimTK_ASSERT_ALWAYS(!tr, "NDot^T not needed");
            Vec4::updAs(out) = Rotation::convertAngVelDotToQuaternionDotDot(Vec4::getAs(&q[0]), Vec3::getAs(in), Vec3(0));
        }
        if (ty == 9) Vec3::updAs(&out[nOut - 3]) = Vec3(0);
    }
    void setQToFitTransform(const State& s, const Transform& X_FM, int nq, Real* q) const override {
        if (!quatLike()) { Implementation::setQToFitTransform(s, X_FM, nq, q); return; }
        if (getUseEulerAngles(s)) Vec3::updAs(q) = X_FM.R().convertRotationToBodyFixedXYZ();
        else Vec4::updAs(q) = X_FM.R().convertRotationToQuaternion().asVec4();
        if (ty == 9) Vec3::updAs(&q[nq - 3]) = X_FM.p();
    }
    void setUToFitVelocity(const State& s, const SpatialVec& V_FM, int nu, Real* u) const override {
        if (!quatLike()) { Implementation::setUToFitVelocity(s, V_FM, nu, u); return; }
        Vec3::updAs(u) = V_FM[0]; if (ty == 9) Vec3::updAs(&u[3]) = V_FM[1];
    }
};

static MobilizedBody addFunctionBased(int ty, MobilizedBody& parent, const Transform& xp, const Body& b, const Transform& xb, MobilizedBody::Direction d) {
    // spatial coordinate order of FunctionBased: rotX rotY rotZ transX transY transZ
    std::vector<const Function*> f(6); std::vector<std::vector<int> > ci(6);
    auto lin = [&](int slot, int coord, Real m = 1) { f[slot] = new FLin(m); ci[slot] = std::vector<int>(1, coord); };
    int nm = 0;
    switch (ty) {
    case 0: lin(2, 0); nm = 1; break;
    case 1: lin(3, 0); nm = 1; break;
    case 2: lin(0, 0); lin(1, 1); nm = 2; break;
    case 3: lin(2, 0); lin(5, 1); nm = 2; break;
    case 4: { lin(2, 0); std::vector<int> two; two.push_back(0); two.push_back(1);
              f[3] = new FPolar(false); ci[3] = two; f[4] = new FPolar(true); ci[4] = two; nm = 2; break; }
    case 5: lin(2, 0); lin(3, 1); lin(4, 2); nm = 3; break;
    case 6: lin(0, 0); lin(1, 1); lin(2, 2); nm = 3; break;
    case 7: for (int i = 0; i < 6; ++i) lin(i, i); nm = 6; break;
    case 10: lin(3, 0); lin(4, 1); lin(5, 2); nm = 3; break;
    default: lin(2, 0); lin(5, 0, SCREW_PITCH); nm = 1; break;
    }
    for (int i = 0; i < 6; ++i) if (!f[i]) f[i] = new FConst(0);
    return MobilizedBody::FunctionBased(parent, xp, b, xb, nm, f, ci, d);
}

// route: 0 built-in, 1 Custom, 2 FunctionBased
static MobilizedBody addByRoute(int route, int ty, SimbodyMatterSubsystem& matter, MobilizedBody& parent, const Transform& xp, const Body& b, const Transform& xb, bool rev) {
    MobilizedBody::Direction d = rev ? MobilizedBody::Reverse : MobilizedBody::Forward;
    if (route == 0) return addMobod(ty, parent, xp, b, xb, rev);
    if (route == 2 && hasFunctionBased(ty)) return addFunctionBased(ty, parent, xp, b, xb, d);
    return MobilizedBody::Custom(parent, new MirrorImpl(matter, ty), xp, b, xb, d);
}

struct Frc { int body; Vec3 station, force, torque; };
struct MobFrc { int body; int which; Real f; };

// one member of a mirror pair; mirror==false: built-in, true: Custom/FunctionBased.  Both members consume the
// same random stream.
struct MirrorSystem : public RandSystem {
    std::vector<int> routes;
    void buildMirror(Rng& r, int nb, int shape, bool mirror, int forceEuler, int firstType, const Vec3& g) {
        Force::UniformGravity(forces, matter, g);
        std::vector<MobFrc> mf;
        for (int i = 0; i < nb; ++i) {
            int p = (shape == 0) ? i : (shape == 1 ? (i == 0 ? 0 : 1) : r.I(0, i));
            int ty = MIRRORABLE[r.I(0, NMIRRORABLE - 1)]; if (i == 0 && firstType >= 0) ty = firstType;
            bool rev = r.I(0, 3) == 0; int route = r.I(1, 2); if (!hasFunctionBased(ty)) route = 1;
            Body::Rigid body(randomMassProps(r));
            Transform xpf = r.xf(), xbm = r.xf(); int special = r.I(0, 9);
            if (special <= 1) { xpf = Transform(); xbm = Transform(); } else if (special <= 3) { xpf = Transform(xpf.p()); xbm = Transform(xbm.p()); }
            MobilizedBody& parent = matter.updMobilizedBody(MobilizedBodyIndex(p));
            MobilizedBody mb = addByRoute(mirror ? route : 0, ty, matter, parent, xpf, body, xbm, rev);
            types.push_back(ty); revs.push_back(rev); routes.push_back(route);
            // random spatial force and torque on every body, random generalized force on every mobility
            Force::ConstantForce(forces, mb, r.v3(0.5), r.v3(3)); Force::ConstantTorque(forces, mb, r.v3(3));
            for (int k = 0; k < MirrorImpl::nuOf(ty); ++k) Force::MobilityConstantForce(forces, mb, k, r.U(-2, 2));
        }
        euler = forceEuler == 1;
        state = sys.realizeTopology(); matter.setUseEulerAngles(state, euler); sys.realizeModel(state);
    }
    // non-zero value in every coordinate, modest angles; quaternions normalised by projection
    void randomState(Rng& r) {
        for (int i = 0; i < state.getNQ(); ++i) state.updQ()[i] = r.U(0.1, 0.6) * (r.I(0, 1) ? 1 : -1);
        sys.realize(state, Stage::Position); sys.project(state, 1e-12);
        for (int i = 0; i < state.getNU(); ++i) state.updU()[i] = r.U(-1, 1);
    }
};

static void dumpResultsOf(const char* tag, const MultibodySystem& sys, const SimbodyMatterSubsystem& m, State& s) {
    sys.realize(s, Stage::Acceleration);
    for (MobilizedBodyIndex b(0); b < m.getNumBodies(); ++b) {
        const MobilizedBody& mb = m.getMobilizedBody(b);
        const Transform& X = mb.getBodyTransform(s);
        std::printf("%s POSE %d", tag, (int)b); for (int i = 0; i < 3; ++i) for (int j = 0; j < 3; ++j) std::printf(" %a", X.R()[i][j]);
        std::printf(" %a %a %a\n", X.p()[0], X.p()[1], X.p()[2]);
        std::printf("%s VEL %d", tag, (int)b); psv(mb.getBodyVelocity(s)); std::printf("\n");
        std::printf("%s ACC %d", tag, (int)b); psv(mb.getBodyAcceleration(s)); std::printf("\n");
    }
    std::string t(tag);
    pvec((t + " U").c_str(), s.getU()); pvec((t + " Q").c_str(), s.getQ());
    pvec((t + " QDOT").c_str(), s.getQDot()); pvec((t + " QDD").c_str(), s.getQDotDot());
    pvec((t + " UDOT").c_str(), s.getUDot());
    Matrix M; m.calcM(s, M); std::printf("%s M", tag); for (int i = 0; i < M.nrow(); ++i) for (int j = 0; j < M.ncol(); ++j) std::printf(" %a", M(i, j)); std::printf("\n");
    std::printf("%s KE %a\n", tag, m.calcKineticEnergy(s));
    Vector_<SpatialVec> reac; m.calcMobilizerReactionForces(s, reac);        // at each body's M frame origin, in Ground
    for (MobilizedBodyIndex b(1); b < m.getNumBodies(); ++b) { std::printf("%s REAC %d", tag, (int)b); psv(reac[b]); std::printf("\n"); }
}
static void dumpMember(const char* member, MirrorSystem& ms, State& s) {
    ms.sys.realize(s, Stage::Velocity);
    std::printf("MEMBER %s\n", member); dumpTreeData(ms, s);
    std::printf("ROUTES"); for (size_t i = 0; i < ms.routes.size(); ++i) std::printf(" %d", ms.routes[i]); std::printf("\n");
    dumpResultsOf(member, ms.sys, ms.matter, s);
}

// ------------------------------------------------------------------ REV pairs
struct RevSystem {
    MultibodySystem sys; SimbodyMatterSubsystem matter; GeneralForceSubsystem forces;
    MobilizedBody base, tmob; std::vector<MobilizedBody> extra;      // extra[i]: identity id 3+i
    MobilizedBody bodyA, bodyB;                                      // by identity
    State state;
    RevSystem() : matter(sys), forces(sys) {}
};
struct RevSpec {
    int ty; bool euler; Vec3 g; Transform X_AM, X_BM, baseF, baseM; MassProperties mpA, mpB;
    int nextra; int exType[2]; bool exRev[2]; int exParent[2]; Transform exF[2], exM[2]; MassProperties exMp[2];   // exParent: 1 = A, 2 = B
    Frc frc[4]; Real tfrc[6]; Real exfrc[2][6];
};
static int nuOfType(int ty) { static const int n[] = {1, 1, 2, 2, 2, 3, 3, 6, 3, 6, 3, 1, 3, 2, 5, 3, 0}; return n[ty]; }
static void addRevForces(RevSystem& s, const RevSpec& sp) {
    Force::UniformGravity(s.forces, s.matter, sp.g);
    MobilizedBody* ids[4] = {&s.bodyA, &s.bodyB, s.extra.size() > 0 ? &s.extra[0] : 0, s.extra.size() > 1 ? &s.extra[1] : 0};
    for (int i = 0; i < 4; ++i) if (ids[i]) {
        Force::ConstantForce(s.forces, *ids[i], sp.frc[i].station, sp.frc[i].force); Force::ConstantTorque(s.forces, *ids[i], sp.frc[i].torque);
    }
    for (int k = 0; k < nuOfType(sp.ty); ++k) Force::MobilityConstantForce(s.forces, s.tmob, k, sp.tfrc[k]);
    for (size_t e = 0; e < s.extra.size(); ++e) for (int k = 0; k < nuOfType(sp.exType[e]); ++k) Force::MobilityConstantForce(s.forces, s.extra[e], k, sp.exfrc[e][k]);
}
static void addExtras(RevSystem& s, const RevSpec& sp) {
    for (int e = 0; e < sp.nextra; ++e) {
        MobilizedBody& par = sp.exParent[e] == 1 ? s.bodyA : s.bodyB;
        s.extra.push_back(addMobod(sp.exType[e], par, sp.exF[e], Body::Rigid(sp.exMp[e]), sp.exM[e], sp.exRev[e]));
    }
}
static void finishRev(RevSystem& s, const RevSpec& sp) {
    addRevForces(s, sp);
    s.state = s.sys.realizeTopology(); s.matter.setUseEulerAngles(s.state, sp.euler); s.sys.realizeModel(s.state);
}
static void dumpRevMember(const char* member, RevSystem& s, const RevSpec& sp, bool reversedMember) {
    State& st = s.state; s.sys.realize(st, Stage::Acceleration);
    std::printf("MEMBER %s\n", member);
    std::vector<MobilizedBody*> ids; ids.push_back(&s.bodyA); ids.push_back(&s.bodyB); for (size_t e = 0; e < s.extra.size(); ++e) ids.push_back(&s.extra[e]);
    auto idOf = [&](const MobilizedBody& mb) { for (size_t i = 0; i < ids.size(); ++i) if (ids[i]->getMobilizedBodyIndex() == mb.getMobilizedBodyIndex()) return (int)i + 1; return 0; };
    for (size_t i = 0; i < ids.size(); ++i) {
        const MobilizedBody& mb = *ids[i]; int id = (int)i + 1; int pid = idOf(mb.getParentMobilizedBody());
        const Transform& X = mb.getBodyTransform(st); Vec3 l = X.p() - mb.getParentMobilizedBody().getBodyTransform(st).p();
        const MassProperties& mp = mb.getBodyMassProperties(st); Mat33 R = X.R().asMat33(); Mat33 IG = R * mp.getInertia().toMat33() * ~R; Vec3 pG = R * mp.getMassCenter();
        int nu = mb.getNumU(st); int u0 = nu > 0 ? (int)mb.getFirstUIndex(st) : 0;
        int ty = id <= 2 ? ((id == 1) != reversedMember ? 9 : sp.ty) : sp.exType[id - 3];
        int rev = id <= 2 ? (reversedMember && id == 1 ? 1 : 0) : (int)sp.exRev[id - 3];
        std::printf("BODY %d %d %d %d %s %d %a %a %a %a %a %a %a %a %a %a %a %a %a\n", id, pid, nu, u0, MOBTYPES[ty], rev, l[0], l[1], l[2],
                    mp.getMass(), pG[0], pG[1], pG[2], IG(0, 0), IG(1, 1), IG(2, 2), IG(1, 0), IG(2, 0), IG(2, 1));
        for (int k = 0; k < nu; ++k) { std::printf("H %d %d", id, k); psv(mb.getHCol(st, MobilizerUIndex(k))); std::printf("\n"); }
        std::printf("%s POSE %d", member, id); for (int a = 0; a < 3; ++a) for (int b = 0; b < 3; ++b) std::printf(" %a", X.R()[a][b]);
        std::printf(" %a %a %a\n", X.p()[0], X.p()[1], X.p()[2]);
        std::printf("%s VEL %d", member, id); psv(mb.getBodyVelocity(st)); std::printf("\n");
        std::printf("%s ACC %d", member, id); psv(mb.getBodyAcceleration(st)); std::printf("\n");
    }
    std::string t(member);
    // the mobilizer under test: same meaning of q,u in both members
    pvec((t + " TQ").c_str(), s.tmob.getQAsVector(st)); pvec((t + " TU").c_str(), s.tmob.getUAsVector(st));
    pvec((t + " TQDOT").c_str(), s.tmob.getQDotAsVector(st)); pvec((t + " TQDD").c_str(), s.tmob.getQDotDotAsVector(st));
    pvec((t + " TUDOT").c_str(), s.tmob.getUDotAsVector(st));
    for (size_t e = 0; e < s.extra.size(); ++e) {
        char nm[32]; std::snprintf(nm, sizeof nm, "%s XUDOT%d", member, (int)e); pvec(nm, s.extra[e].getUDotAsVector(st));
        std::snprintf(nm, sizeof nm, "%s XQDD%d", member, (int)e); pvec(nm, s.extra[e].getQDotDotAsVector(st));
    }
    std::printf("%s KE %a\n", member, s.matter.calcKineticEnergy(st));
    // across-mobilizer quantities of T (hypothesis of the reversed theorems: inverse transform, reversed hinge columns)
    const Transform& XFM = s.tmob.getMobilizerTransform(st);
    std::printf("%s XFM", member); for (int a = 0; a < 3; ++a) for (int b = 0; b < 3; ++b) std::printf(" %a", XFM.R()[a][b]);
    std::printf(" %a %a %a\n", XFM.p()[0], XFM.p()[1], XFM.p()[2]);
    std::printf("%s VFM", member); psv(s.tmob.getMobilizerVelocity(st)); std::printf("\n");
    for (int k = 0; k < s.tmob.getNumU(st); ++k) { std::printf("%s HFM %d", member, k); psv(s.tmob.getH_FMCol(st, MobilizerUIndex(k))); std::printf("\n"); }
}

static bool revPair(int k, int ty, Rng& r) {
    RevSpec sp; sp.ty = ty; sp.euler = r.I(0, 1) == 1; sp.g = r.v3(9.8);
    sp.X_AM = r.xf(); sp.X_BM = r.xf(); sp.baseF = r.xf(); sp.baseM = r.xf(); sp.mpA = randomMassProps(r); sp.mpB = randomMassProps(r);
    int special = r.I(0, 9);
    if (special <= 1) { sp.X_AM = Transform(); sp.X_BM = Transform(); } else if (special <= 3) { sp.X_AM = Transform(sp.X_AM.p()); sp.X_BM = Transform(sp.X_BM.p()); }
    sp.nextra = r.I(0, 2);
    for (int e = 0; e < 2; ++e) {
        sp.exType[e] = r.I(0, NMOBTYPES - 1); sp.exRev[e] = r.I(0, 3) == 0; sp.exParent[e] = r.I(1, 2); sp.exF[e] = r.xf(); sp.exM[e] = r.xf(); sp.exMp[e] = randomMassProps(r);
        for (int i = 0; i < 6; ++i) sp.exfrc[e][i] = r.U(-2, 2);
    }
    for (int i = 0; i < 4; ++i) { sp.frc[i].station = r.v3(0.5); sp.frc[i].force = r.v3(3); sp.frc[i].torque = r.v3(3); }
    for (int i = 0; i < 6; ++i) sp.tfrc[i] = r.U(-2, 2);
    // ---- forward member: Ground -Free-> A -T-> B
    RevSystem F;
    F.bodyA = MobilizedBody::Free(F.matter.Ground(), sp.baseF, Body::Rigid(sp.mpA), sp.baseM); F.base = F.bodyA;
    F.bodyB = addMobod(ty, F.bodyA, sp.X_AM, Body::Rigid(sp.mpB), sp.X_BM, false); F.tmob = F.bodyB;
    addExtras(F, sp); finishRev(F, sp);
    for (int i = 0; i < F.state.getNQ(); ++i) F.state.updQ()[i] = r.U(0.1, 0.6) * (r.I(0, 1) ? 1 : -1);
    F.sys.realize(F.state, Stage::Position); F.sys.project(F.state, 1e-12);
    for (int i = 0; i < F.state.getNU(); ++i) F.state.updU()[i] = r.U(-1, 1);
    F.sys.realize(F.state, Stage::Velocity);
    // ---- reversed member: Ground -Free-> B -T(Reverse, frames swapped)-> A.  The base's inboard frame on Ground is chosen
    // so that its across-mobilizer transform is a benign one (keeps the Euler option of the base away from its singularity).
    Transform nice = r.xf(); Transform baseM2 = r.xf();
    const Transform X_GB = F.bodyB.getBodyTransform(F.state);
    Transform baseF2 = X_GB * baseM2 * ~nice;
    RevSystem R;
    R.bodyB = MobilizedBody::Free(R.matter.Ground(), baseF2, Body::Rigid(sp.mpB), baseM2); R.base = R.bodyB;
    R.bodyA = addMobod(ty, R.bodyB, sp.X_BM, Body::Rigid(sp.mpA), sp.X_AM, true); R.tmob = R.bodyA;
    addExtras(R, sp); finishRev(R, sp);
    R.tmob.setQFromVector(R.state, F.tmob.getQAsVector(F.state));
    for (size_t e = 0; e < R.extra.size(); ++e) R.extra[e].setQFromVector(R.state, F.extra[e].getQAsVector(F.state));
    R.base.setQToFitTransform(R.state, nice);
    R.sys.realize(R.state, Stage::Position);
    R.tmob.setUFromVector(R.state, F.tmob.getUAsVector(F.state));
    for (size_t e = 0; e < R.extra.size(); ++e) R.extra[e].setUFromVector(R.state, F.extra[e].getUAsVector(F.state));
    // velocity of the base's M frame (fixed on B) in its F frame (fixed on Ground), expressed in F
    const SpatialVec V_G_BM(F.bodyB.getBodyAngularVelocity(F.state), F.bodyB.findStationVelocityInGround(F.state, baseM2.p()));
    R.base.setUToFitVelocity(R.state, SpatialVec(~baseF2.R() * V_G_BM[0], ~baseF2.R() * V_G_BM[1]));
    std::printf("PAIR REV %d %d %d\n", k, ty, (int)sp.euler);
    dumpRevMember("A", F, sp, false); dumpRevMember("B", R, sp, true);
    std::printf("ENDPAIR\n");
    return true;
}

int main(int argc, char** argv) {
    unsigned long long seed = std::strtoull(argv[1], 0, 10); int np = std::atoi(argv[2]); int maxb = argc > 3 ? std::atoi(argv[3]) : 6;
    Rng master(seed ^ 0xC06C06ULL);
    for (int k = 0; k < np; ++k) {
        unsigned long long s1 = master.g(); int nb = master.I(1, maxb), shape = master.I(0, 2); Vec3 g = master.v3(9.8);
        int eul = master.I(0, 1);
        // ---- mirror pair: built-in tree vs Custom / FunctionBased tree
        try {
            MirrorSystem a, b; Rng ra(s1), rb(s1);
            int first = (k % 3 == 0) ? (k % 2 ? 8 : 9) : -1;      // make sure Ball / Free mirrors occur often
            a.buildMirror(ra, nb, shape, false, eul, first, g); b.buildMirror(rb, nb, shape, true, eul, first, g);
            Rng rs(s1 + 5); a.randomState(rs); b.state.updQ() = a.state.getQ(); b.state.updU() = a.state.getU();
            std::printf("PAIR MIRROR %d %d\n", k, eul);
            dumpMember("A", a, a.state); dumpMember("B", b, b.state);
            std::printf("ENDPAIR\n");
        } catch (const std::exception& e) { std::printf("SKIP MIRROR %d %s\n", k, e.what()); }
        // ---- conversion pairs on the twins
        try {
            for (int startEuler = 0; startEuler < 2; ++startEuler) {
                MirrorSystem a, b; Rng ra(s1 + 31), rb(s1 + 31);
                int first = (k % 2) ? 8 : 9; int nbc = std::min(nb, 4);
                a.buildMirror(ra, nbc, shape, false, startEuler, first, g); b.buildMirror(rb, nbc, shape, true, startEuler, first, g);
                Rng rs(s1 + 77 + startEuler); a.randomState(rs); b.state.updQ() = a.state.getQ(); b.state.updU() = a.state.getU();
                State sa = a.state, sb = b.state;
                int nsteps = startEuler ? 1 : 2;      // quaternion -> Euler -> quaternion ; Euler -> quaternion
                bool inEuler = startEuler == 1;
                for (int step = 0; step < nsteps; ++step) {
                    State ca, cb;
                    a.sys.realize(sa, Stage::Velocity); b.sys.realize(sb, Stage::Velocity);
                    if (inEuler) { a.matter.convertToQuaternions(sa, ca); b.matter.convertToQuaternions(sb, cb); }
                    else { a.matter.convertToEulerAngles(sa, ca); b.matter.convertToEulerAngles(sb, cb); }
                    int code = startEuler * 2 + step;   // 0: q->E, 1: (q->)E->q, 2: E->q
                    std::printf("PAIR MSELF %d %d\n", k, code); dumpMember("A", b, sb); dumpMember("B", b, cb); std::printf("ENDPAIR\n");
                    std::printf("PAIR MCONV %d %d\n", k, code); dumpMember("A", a, ca); dumpMember("B", b, cb); std::printf("ENDPAIR\n");
                    sa = ca; sb = cb; inEuler = !inEuler;
                }
            }
        } catch (const std::exception& e) { std::printf("SKIP MCONV %d %s\n", k, e.what()); }
        // ---- reversed pair, cycling over all built-in types with mobilities
        try { Rng rr(s1 + 123); revPair(k, k % (NMOBTYPES - 1), rr); }
        catch (const std::exception& e) { std::printf("SKIP REV %d %s\n", k, e.what()); }
    }
    return 0;
}
