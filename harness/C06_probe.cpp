// C06 probe: representation pairs on random trees.
//  RELOC: the same random model built twice, the second time with every Ground-attached inboard frame
//         pre-multiplied by a rigid transform X (and gravity rotated): prints both members' per-body data
//         (the check verifies they are related by the rotation, which is the hypothesis of the Coq
//         isomorphism theorem) and both members' results (poses, velocities, accelerations, udot, M).
//  CONV:  quaternion <-> Euler conversion of a realized state: poses, velocities, accelerations before/after.
// usage: C06_probe <seed> <npairs> [maxBodies]
#include "mb_common.h"
static void dumpResults(const char* tag, RandSystem& rs, const Vec3& g) {
    State& s = rs.state; const SimbodyMatterSubsystem& m = rs.matter;
    rs.sys.realize(s, Stage::Acceleration);
    for (MobilizedBodyIndex b(0); b < m.getNumBodies(); ++b) {
        const MobilizedBody& mb = m.getMobilizedBody(b);
        const Transform& X = mb.getBodyTransform(s);
        std::printf("%s POSE %d", tag, (int)b); for (int i = 0; i < 3; ++i) for (int j = 0; j < 3; ++j) std::printf(" %a", X.R()[i][j]);
        std::printf(" %a %a %a\n", X.p()[0], X.p()[1], X.p()[2]);
        std::printf("%s VEL %d", tag, (int)b); psv(mb.getBodyVelocity(s)); std::printf("\n");
        std::printf("%s ACC %d", tag, (int)b); psv(mb.getBodyAcceleration(s)); std::printf("\n");
    }
    pvec((std::string(tag) + " U").c_str(), s.getU()); pvec((std::string(tag) + " Q").c_str(), s.getQ());
    pvec((std::string(tag) + " UDOT").c_str(), s.getUDot());
    Matrix M; m.calcM(s, M); std::printf("%s M", tag); for (int i = 0; i < M.nrow(); ++i) for (int j = 0; j < M.ncol(); ++j) std::printf(" %a", M(i, j)); std::printf("\n");
    std::printf("%s KE %a\n", tag, m.calcKineticEnergy(s));
}
int main(int argc, char** argv) {
    unsigned long long seed = std::strtoull(argv[1], 0, 10); int np = std::atoi(argv[2]); int maxb = argc > 3 ? std::atoi(argv[3]) : 8;
    Rng master(seed);
    for (int k = 0; k < np; ++k) {
        unsigned long long s1 = master.g(); int nb = master.I(1, maxb), shape = master.I(0, 2);
        Transform X = master.xf(1.0); Vec3 g = master.v3(9.8);
        // ---- relocation pair
        {
            RandSystem a, b; Rng ra(s1), rb(s1);
            Force::UniformGravity(a.forces, a.matter, g); Force::UniformGravity(b.forces, b.matter, X.R() * g);
            try { a.build(ra, nb, shape); b.build(rb, nb, shape, -1, &X); } catch (const std::exception& e) { std::printf("SKIP %s\n", e.what()); continue; }
            std::printf("PAIR RELOC %d\nXR", k); for (int i = 0; i < 3; ++i) for (int j = 0; j < 3; ++j) std::printf(" %a", X.R()[i][j]);
            std::printf(" %a %a %a\n", X.p()[0], X.p()[1], X.p()[2]);
            a.sys.realize(a.state, Stage::Velocity); b.sys.realize(b.state, Stage::Velocity);
            std::printf("MEMBER A\n"); dumpTreeData(a, a.state); std::printf("MEMBER B\n"); dumpTreeData(b, b.state);
            dumpResults("A", a, g); dumpResults("B", b, X.R() * g);
            std::printf("ENDPAIR\n");
        }
        // ---- conversion pair (quaternion -> Euler and Euler -> quaternion)
        {
            RandSystem a; Rng ra(s1 + 17);
            Force::UniformGravity(a.forces, a.matter, g);
            try { a.build(ra, nb, shape); } catch (const std::exception& e) { std::printf("SKIP %s\n", e.what()); continue; }
            std::printf("PAIR CONV %d %d\n", k, (int)a.euler);
            a.sys.realize(a.state, Stage::Velocity);
            RandSystem& b = a; State conv;
            if (a.euler) a.matter.convertToQuaternions(a.state, conv); else a.matter.convertToEulerAngles(a.state, conv);
            std::printf("MEMBER A\n"); dumpTreeData(a, a.state);
            dumpResults("A", a, g);
            State keep = a.state; a.state = conv; a.sys.realize(a.state, Stage::Velocity);
            std::printf("MEMBER B\n"); dumpTreeData(a, a.state);
            dumpResults("B", a, g);
            std::printf("ENDPAIR\n");
        }
    }
    return 0;
}
