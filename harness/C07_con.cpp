// C07 correspondence probe.  usage: C07_con <seed> <ncases> [onlyKind]
// Each case: a random 5-body tree (harness/C07_sys.h) with ONE constraint of a first-wave kind on a random body pair,
// a random state (violated; every third case projected onto the manifold), a random udot and random multipliers.
// Prints the inputs the Gallina kernels need (parameters, Ground-frame kinematics of the Ancestor and of the
// constrained bodies, coordinates/speeds for mobility constraints, Jacobian columns) followed by what the
// implementation reports (OUT lines): position/velocity/acceleration errors, constraint forces from multipliers,
// G, G*u, G^T*lambda, Pq, Pq*qdot-like, bias.
#include "C07_sys.h"

static void pBK(const char* tag, int id, const Transform& X, const SpatialVec& V, const SpatialVec& A) {
    std::printf("%s %d", tag, id); pX(X); psv(V); psv(A); std::printf("\n");
}

int main(int argc, char** argv) {
    unsigned long long seed = std::strtoull(argv[1], 0, 10); int ncases = std::atoi(argv[2]); int only = argc > 3 ? std::atoi(argv[3]) : -1;
    Rng r(seed);
    for (int k = 0; k < ncases; ++k) {
        // modelled kinds: the 13 first-wave kinds and SphereOnPlaneContact (+rolling), SphereOnSphereContact (+rolling), PointOnPlaneContact
        const int NMODEL = K_POP + 1;
        static const int PAIRS[] = {0, 1, 2, 3, 4, 5, 6, 7, 0, 5, 6};      // second wave: more pairs with both bodies moving and rotating
        int kind = only >= 0 ? only : (k % NMODEL); int pair = kind >= K_NKINDS ? PAIRS[r.I(0, 10)] : r.I(0, 7); bool onman = (k / NMODEL) % 3 == 2;
        try {
            ConSystem cs; cs.buildTree(r, onman || kind == K_WELD || kind >= K_NKINDS);
            // every other round a second, one-row mobility constraint shares the system (added before or after the main one) so that
            // the main constraint's rows sit at an offset inside G / the error vectors (row assembly: holonomic, nonholonomic, acc-only blocks)
            int extra = (k / NMODEL) % 2 == 1 ? r.I(1, 2) : 0; int extraKind = r.I(0, 1) ? K_CCOORD : K_CSPEED;
            if (extra == 1) cs.addMobilityConstraint(r, extraKind);
            ConDesc d = isBodyKind(kind) ? cs.addBodyConstraint(r, kind, pair) : cs.addMobilityConstraint(r, kind);
            if (extra == 2) cs.addMobilityConstraint(r, extraKind);
            cs.finish(r);
            State& s = cs.state; const SimbodyMatterSubsystem& m = cs.matter;
            if (onman) { cs.sys.realize(s, Stage::Velocity); cs.sys.project(s, 1e-12); }
            cs.sys.realize(s, Stage::Velocity);
            const Constraint& c = m.getConstraint(d.cx);
            int mp, mv, ma; c.getNumConstraintEquationsInUse(s, mp, mv, ma); int mm = mp + mv + ma;
            int nu = s.getNU(), nq = s.getNQ(), NB = m.getNumBodies();
            Vector udot(nu), lam(mm), uu(nu); for (int i = 0; i < nu; ++i) { udot[i] = r.U(-1, 1); uu[i] = r.U(-1, 1); }
            for (int i = 0; i < mm; ++i) lam[i] = r.U(-1, 1);
            // rows of this constraint inside the system-wide vectors/matrices, and the multipliers padded with zeros for the other constraint
            MultiplierIndex px0, vx0, ax0; c.getIndexOfMultipliersInUse(s, px0, vx0, ax0);
            std::vector<int> rowsOfMain; for (int i = 0; i < mp; ++i) rowsOfMain.push_back(px0 + i); for (int i = 0; i < mv; ++i) rowsOfMain.push_back(vx0 + i); for (int i = 0; i < ma; ++i) rowsOfMain.push_back(ax0 + i);
            const int mSys = s.getNMultipliers();
            Vector lamSys(mSys, Real(0)); for (int i = 0; i < mm; ++i) lamSys[rowsOfMain[i]] = lam[i];
            auto slice = [&](const Vector& v) { Vector o(mm); for (int i = 0; i < mm; ++i) o[i] = v[rowsOfMain[i]]; return o; };
            Vector_<SpatialVec> AG; m.calcBodyAccelerationFromUDot(s, udot, AG);
            Vector qdd; m.calcQDotDot(s, udot, qdd);
            std::printf("CASE %d %d %s pair %d onman %d euler %d nu %d nq %d m %d %d %d types %d %d %d %d extra %d rowoffset %d\n", k, kind, CKNAMES[kind], pair, (int)onman, (int)cs.euler,
                        nu, nq, mp, mv, ma, cs.types[0], cs.types[1], cs.types[2], cs.types[3], extra, mm ? rowsOfMain[0] : 0);
            std::printf("TINY %a\n", (double)TinyReal);
            if (kind == K_SOSR) {      // the contact-frame axes the implementation derives from the centre-to-centre direction (ensurePositionCacheRealized)
                const MobilizedBody& A = c.getAncestorMobilizedBody();
                const Transform X_AF = ~A.getBodyTransform(s) * m.getMobilizedBody(MobilizedBodyIndex(d.roles[0])).getBodyTransform(s);
                const Transform X_AB = ~A.getBodyTransform(s) * m.getMobilizedBody(MobilizedBodyIndex(d.roles[1])).getBodyTransform(s);
                const Vec3 sF(d.par[0], d.par[1], d.par[2]), sB(d.par[3], d.par[4], d.par[5]);
                const Vec3 pSfSb = X_AB * sB - X_AF * sF; Rotation RC; RC.setRotationFromOneAxis(UnitVec3(pSfSb), ZAxis);
                push3(d.par, Vec3(RC.x())); push3(d.par, Vec3(RC.y()));
            }
            std::printf("PAR"); pReals(d.par); std::printf("\n");
            pvec("LAM", lam); pvec("UU", uu); pvec("UDOT", udot);
            if (isBodyKind(kind)) {
                int anc = c.getAncestorMobilizedBody().getMobilizedBodyIndex();
                const MobilizedBody& A = m.getMobilizedBody(MobilizedBodyIndex(anc));
                pBK("ANC", anc, A.getBodyTransform(s), A.getBodyVelocity(s), AG[anc]);
                for (size_t i = 0; i < d.roles.size(); ++i) {
                    const MobilizedBody& B = m.getMobilizedBody(MobilizedBodyIndex(d.roles[i]));
                    pBK("BODY", d.roles[i], B.getBodyTransform(s), B.getBodyVelocity(s), AG[d.roles[i]]);
                }
                // Jacobian columns for the ancestor and the roles
                for (int j = 0; j < nu; ++j) {
                    Vector e(nu, Real(0)); e[j] = 1; Vector_<SpatialVec> JV; m.multiplyBySystemJacobian(s, e, JV);
                    std::printf("JCOL %d", j); psv(JV[anc]); for (size_t i = 0; i < d.roles.size(); ++i) psv(JV[d.roles[i]]); std::printf("\n");
                }
                { Vector_<SpatialVec> JV; m.multiplyBySystemJacobian(s, uu, JV);
                  std::printf("JUU"); psv(JV[anc]); for (size_t i = 0; i < d.roles.size(); ++i) psv(JV[d.roles[i]]); std::printf("\n"); }
            } else {
                // coordinates: for each (mobod, index): q, qdot, qdotdot (q-type) and u, udot (u-type), plus global indices
                for (size_t i = 0; i < d.coords.size(); ++i) {
                    const MobilizedBody& B = m.getMobilizedBody(MobilizedBodyIndex(d.coords[i].first)); int ix = d.coords[i].second;
                    int gq = (int)B.getFirstQIndex(s) + ix, gu = (int)B.getFirstUIndex(s) + ix;
                    std::printf("COORD %d %d %d %d %a %a %a %a %a\n", d.coords[i].first, ix, gq, gu, s.getQ()[gq], s.getQDot()[gq], qdd[gq], s.getU()[gu], udot[gu]);
                }
                std::printf("NSPEEDS %d\n", d.nspeeds);
                // N (nq x nu) column by column: qdot = N u
                for (int j = 0; j < nu; ++j) { Vector e(nu, Real(0)); e[j] = 1; Vector col; m.multiplyByN(s, false, e, col); std::printf("NCOL %d", j); for (int i = 0; i < nq; ++i) std::printf(" %a", col[i]); std::printf("\n"); }
            }
            // ---------------- implementation results
            pvec("OUT PERR", c.getPositionErrorsAsVector(s));
            pvec("OUT VERR", c.getVelocityErrorsAsVector(s));
            Vector pvaerr; m.calcConstraintAccelerationErrors(s, udot, pvaerr); pvec("OUT AERR", slice(pvaerr));
            Vector_<SpatialVec> FA; Vector mobF; c.calcConstraintForcesFromMultipliers(s, lam, FA, mobF);
            for (int i = 0; i < FA.size(); ++i) { std::printf("OUT FA %d", (int)c.getMobilizedBodyFromConstrainedBody(ConstrainedBodyIndex(i)).getMobilizedBodyIndex()); psv(FA[i]); std::printf("\n"); }
            if (!isBodyKind(kind)) {
                // mobility forces are per constrained u of this constraint: report them scattered into a full u vector through G^T
                pvec("OUT MOBF", mobF);
            }
            Matrix G; m.calcG(s, G);
            for (int j = 0; j < nu; ++j) { std::printf("OUT GCOL %d", j); for (int i = 0; i < mm; ++i) std::printf(" %a", G(rowsOfMain[i], j)); std::printf("\n"); }
            Vector Gu; m.multiplyByG(s, uu, Gu); pvec("OUT GU", slice(Gu));
            Vector Gtl; m.multiplyByGTranspose(s, lamSys, Gtl); pvec("OUT GTL", Gtl);
            Matrix Gt; m.calcGTranspose(s, Gt); Vector Gtl2 = Gt * lamSys; pvec("OUT GTMATL", Gtl2);
            Vector bias; m.calcBiasForMultiplyByG(s, bias); pvec("OUT GBIAS", slice(bias));
            Vector abias; m.calcBiasForAccelerationConstraints(s, abias); pvec("OUT ABIAS", slice(abias));
            { Vector z(nu, Real(0)), e0; m.calcConstraintAccelerationErrors(s, z, e0); pvec("OUT AERR0", slice(e0)); }
            if (mp) {
                Matrix Pq; m.calcPq(s, Pq);
                for (int j = 0; j < nq; ++j) { std::printf("OUT PQCOL %d", j); for (int i = 0; i < mp; ++i) std::printf(" %a", Pq(px0 + i, j)); std::printf("\n"); }
                Vector qlike(nq); for (int i = 0; i < nq; ++i) qlike[i] = s.getQDot()[i];
                Vector PqQ; m.multiplyByPq(s, qlike, PqQ); Vector PqQm(mp); for (int i = 0; i < mp; ++i) PqQm[i] = PqQ[px0 + i]; pvec("OUT PQQDOT", PqQm); pvec("OUT QDOT", qlike);
                Vector lamp(Pq.nrow(), Real(0)); for (int i = 0; i < mp; ++i) lamp[px0 + i] = lam[i];   // all holonomic rows of the system (NQErr would also count quaternion norms)
                Vector Pqtl; m.multiplyByPqTranspose(s, lamp, Pqtl); pvec("OUT PQTL", Pqtl);
            }
            std::printf("END\n");
        } catch (const std::exception& e) { std::printf("SKIP %d %s\n", k, e.what()); }
    }
    return 0;
}
