// C07 failing-input search and witness replay, on the implementation alone.
//   C07_search witness                -> replays the three Coq refutation witnesses (Ball verr, Ball aerr, NoSlip1D aerr)
//   C07_search search <seed> <n>      -> n random constrained systems (Euler angles; EVERY constructible built-in constraint type in turn -- the 13 first-wave
//        kinds, SphereOnPlaneContact, SphereOnSphereContact, LineOnLineContact (each with and without rolling), PointOnPlaneContact, PrescribedMotion --
//        on body pairs biased towards both bodies moving and rotating; violated and projected; time advances with the motion):
//        e_dq   : | d/dt qerr (central difference along qdot)  -  pverr |           relative
//        e_du   : | d/dt uerr (central difference along qdot,udot) - udoterr |       relative
//        e_G    : max | G(i,j) - d uerr_i / d u_j |   (uerr is affine in u: exact difference with a unit step)
//        e_adj  : | <lam, G u> - <G^T lam, u> |                                     relative
//        e_mulG : | multiplyByG(u) - calcG*u |                                       relative
//        e_Pq   : | Pq*dq - d qerr(q + h dq)/dh |  for a tangent dq = N du           relative
//        e_bias : | calcBiasForAccelerationConstraints - calcConstraintAccelerationErrors(udot = 0) |
#include "C07_sys.h"

static Real relerr(const Vector& a, const Vector& b) { return a.size() ? (a - b).norm() / (1 + b.norm()) : 0; }

static void witnessBall() {
    // body 1: Pin about z at the Ground origin (station at its origin); body 2: Free body, origin at (1,0,0), at rest
    MultibodySystem sys; SimbodyMatterSubsystem matter(sys);
    Body::Rigid body(MassProperties(1, Vec3(0), Inertia(1)));
    MobilizedBody::Pin b1(matter.Ground(), Transform(), body, Transform());
    MobilizedBody::Free b2(matter.Ground(), Transform(), body, Transform());
    Constraint::Ball ball(b1, Vec3(0), b2, Vec3(0));
    State s = sys.realizeTopology(); matter.setUseEulerAngles(s, true); sys.realizeModel(s);
    b2.setQToFitTranslation(s, Vec3(1, 0, 0)); b1.setOneU(s, 0, 1.0);
    sys.realize(s, Stage::Velocity);
    Vector perr = ball.getPositionErrorsAsVector(s), verr = ball.getVelocityErrorsAsVector(s);
    Real h = 1e-6; State sp = s, sm = s; sp.updQ() += h * s.getQDot(); sm.updQ() -= h * s.getQDot();
    sys.realize(sp, Stage::Position); sys.realize(sm, Stage::Position);
    Vector d = (ball.getPositionErrorsAsVector(sp) - ball.getPositionErrorsAsVector(sm)) / (2 * h);
    std::printf("WITNESS ball_verr perr %.12g %.12g %.12g verr %.12g %.12g %.12g fd_perr %.12g %.12g %.12g\n", perr[0], perr[1], perr[2], verr[0], verr[1], verr[2], d[0], d[1], d[2]);
    // aerr witness: body 2's station at the origin moving along x with speed 1, body 1 spinning
    State t = sys.getDefaultState(); matter.setUseEulerAngles(t, true); sys.realizeModel(t);
    b1.setOneU(t, 0, 1.0); b2.setUToFitLinearVelocity(t, Vec3(1, 0, 0));
    sys.realize(t, Stage::Velocity);
    Vector z(t.getNU(), Real(0)), aerr; matter.calcConstraintAccelerationErrors(t, z, aerr);
    Vector v0 = ball.getVelocityErrorsAsVector(t);
    State tp = t, tm = t; tp.updQ() += h * t.getQDot(); tm.updQ() -= h * t.getQDot();
    sys.realize(tp, Stage::Velocity); sys.realize(tm, Stage::Velocity);
    Vector dv = (ball.getVelocityErrorsAsVector(tp) - ball.getVelocityErrorsAsVector(tm)) / (2 * h);
    std::printf("WITNESS ball_aerr verr %.12g %.12g %.12g aerr %.12g %.12g %.12g fd_verr %.12g %.12g %.12g\n", v0[0], v0[1], v0[2], aerr[0], aerr[1], aerr[2], dv[0], dv[1], dv[2]);
}
static void witnessNoSlip() {
    // case body = Ground, P = (1,0,0), n = y; B0 a Free body at rest; B1 a Free body at the origin with w = (0,0,1), v = (1,-1,0)
    MultibodySystem sys; SimbodyMatterSubsystem matter(sys);
    Body::Rigid body(MassProperties(1, Vec3(0), Inertia(1)));
    MobilizedBody::Free b0(matter.Ground(), Transform(), body, Transform());
    MobilizedBody::Free b1(matter.Ground(), Transform(), body, Transform());
    Constraint::NoSlip1D ns(matter.Ground(), Vec3(1, 0, 0), UnitVec3(0, 1, 0), b0, b1);
    State s = sys.realizeTopology(); matter.setUseEulerAngles(s, true); sys.realizeModel(s);
    b1.setUToFitAngularVelocity(s, Vec3(0, 0, 1)); b1.setUToFitLinearVelocity(s, Vec3(1, -1, 0));
    sys.realize(s, Stage::Velocity);
    Vector z(s.getNU(), Real(0)), aerr; matter.calcConstraintAccelerationErrors(s, z, aerr);
    Vector v0 = ns.getVelocityErrorsAsVector(s);
    Real h = 1e-6; State sp = s, sm = s; sp.updQ() += h * s.getQDot(); sm.updQ() -= h * s.getQDot();
    sys.realize(sp, Stage::Velocity); sys.realize(sm, Stage::Velocity);
    Vector dv = (ns.getVelocityErrorsAsVector(sp) - ns.getVelocityErrorsAsVector(sm)) / (2 * h);
    std::printf("WITNESS noslip_aerr verr %.12g aerr %.12g fd_verr %.12g\n", v0[0], aerr[0], dv[0]);
}

int main(int argc, char** argv) {
    std::string mode = argv[1];
    if (mode == "witness") { witnessBall(); witnessNoSlip(); return 0; }
    unsigned long long seed = std::strtoull(argv[2], 0, 10); int n = std::atoi(argv[3]);
    Rng r(seed); long evals = 0;
    for (int k = 0; k < n; ++k) {
        // ALL constructible built-in types (first and second wave), whether modelled in Coq or not.  Pairs are biased towards both
        // bodies moving and rotating in the Ancestor frame (different branches: pair codes 0, 5, 6).
        static const int PAIRS[] = {0, 5, 6, 0, 5, 6, 1, 2, 3, 4, 7, 6};
        int kind = k % K_NALL; int pair = PAIRS[r.I(0, 11)]; bool onman = (k / K_NALL) % 2 == 1;
        try {
            ConSystem cs; cs.buildTree(r, onman || kind == K_WELD || kind >= K_NKINDS);
            ConDesc d = isBodyKind(kind) ? cs.addBodyConstraint(r, kind, pair) : cs.addMobilityConstraint(r, kind);
            cs.finish(r); State& s = cs.state; const SimbodyMatterSubsystem& m = cs.matter;
            if (!cs.euler) { m.setUseEulerAngles(s, true); cs.sys.realizeModel(s);
                for (int i = 0; i < s.getNQ(); ++i) s.updQ()[i] = r.U(0.1, 0.6) * (r.I(0, 1) ? 1 : -1);
                for (int i = 0; i < s.getNU(); ++i) s.updU()[i] = r.U(-1, 1); }
            cs.sys.realize(s, Stage::Velocity);
            if (onman) { cs.sys.project(s, 1e-12); cs.sys.realize(s, Stage::Velocity); }
            const int nq = s.getNQ(), nu = s.getNU(), mp = s.getNQErr(), mpv = s.getNUErr();
            Vector udot(nu); for (int i = 0; i < nu; ++i) udot[i] = r.U(-1, 1);
            Real h = 1e-6;
            State sp = s, sm = s; sp.updQ() += h * s.getQDot(); sm.updQ() -= h * s.getQDot(); sp.updTime() += h; sm.updTime() -= h; cs.sys.realize(sp, Stage::Position); cs.sys.realize(sm, Stage::Position);
            Vector dq = (sp.getQErr() - sm.getQErr()) / (2 * h); Real e_dq = mp ? relerr(dq, s.getUErr()(0, mp)) : 0;
            Vector pvaerr; m.calcConstraintAccelerationErrors(s, udot, pvaerr);
            State ap = s, am = s; ap.updQ() += h * s.getQDot(); ap.updU() += h * udot; am.updQ() -= h * s.getQDot(); am.updU() -= h * udot; ap.updTime() += h; am.updTime() -= h;
            cs.sys.realize(ap, Stage::Velocity); cs.sys.realize(am, Stage::Velocity);
            Vector du = (ap.getUErr() - am.getUErr()) / (2 * h); Real e_du = mpv ? relerr(du, pvaerr(0, mpv)) : 0;
            Matrix G; m.calcG(s, G); Real e_G = 0;
            for (int j = 0; j < nu; ++j) { State t = s; t.updU()[j] += 1; cs.sys.realize(t, Stage::Velocity); Vector col = t.getUErr() - s.getUErr();
                for (int i = 0; i < mpv; ++i) e_G = std::max(e_G, std::abs(col[i] - G(i, j))); }
            const int mm = G.nrow(); Vector lam(mm), uu(nu); for (int i = 0; i < mm; ++i) lam[i] = r.U(-1, 1); for (int i = 0; i < nu; ++i) uu[i] = r.U(-1, 1);
            Vector Gu, Gtl; m.multiplyByG(s, uu, Gu); m.multiplyByGTranspose(s, lam, Gtl);
            Real e_adj = std::abs(~lam * Gu - ~Gtl * uu) / (1 + std::abs(~lam * Gu));
            Real e_mulG = relerr(Gu, Vector(G * uu));
            Real e_Pq = 0;
            if (mp) { Matrix Pq; m.calcPq(s, Pq); Vector du2(nu), dqv; for (int i = 0; i < nu; ++i) du2[i] = r.U(-1, 1); m.multiplyByN(s, false, du2, dqv);
                State qp = s, qm = s; qp.updQ() += h * dqv; qm.updQ() -= h * dqv; cs.sys.realize(qp, Stage::Position); cs.sys.realize(qm, Stage::Position);
                Vector fd = (qp.getQErr() - qm.getQErr()) / (2 * h); e_Pq = relerr(fd, Vector(Pq * dqv)); }
            Vector z(nu, Real(0)), a0, ab; m.calcConstraintAccelerationErrors(s, z, a0); m.calcBiasForAccelerationConstraints(s, ab);
            Real e_bias = relerr(ab, a0);
            evals += 7;
            std::printf("S %d %s pair %d onman %d perrnorm %.3e uerrnorm %.3e e_dq %.3e e_du %.3e e_G %.3e e_adj %.3e e_mulG %.3e e_Pq %.3e e_bias %.3e\n", kind, CKNAMES[kind], pair, (int)onman,
                        s.getQErr().norm(), s.getUErr().norm(), e_dq, e_du, e_G, e_adj, e_mulG, e_Pq, e_bias);
        } catch (const std::exception& e) { std::printf("SKIP %d %s\n", k, e.what()); }
    }
    std::printf("DONE %ld\n", evals);
    return 0;
}
