// Shared by the C07 / C08 harnesses: seeded random small systems (Ground + 4 bodies in a branched tree,
// random mobilizer types, quaternion or Euler) with constraints of the C07 first-wave kinds attached to
// random body pairs (different branches, ancestor/descendant, with Ground, both orders).
#ifndef VERIF_C07_SYS_H
#define VERIF_C07_SYS_H
#include "mb_common.h"
#include <sstream>

// K_NKINDS = first wave (also what C08 draws from); second wave: contact constraints and PrescribedMotion
enum CKind { K_ROD = 0, K_BALL, K_WELD, K_PIP, K_POL, K_CANGLE, K_CORI, K_NOSLIP, K_CCOORD, K_CSPEED, K_CACC, K_CCPL, K_SCPL, K_NKINDS,
             K_SOP = K_NKINDS, K_SOPR, K_SOS, K_SOSR, K_POP, K_LOL, K_LOLR, K_PRESC, K_NALL };
static const char* CKNAMES[] = {"Rod", "Ball", "Weld", "PointInPlane", "PointOnLine", "ConstantAngle", "ConstantOrientation",
    "NoSlip1D", "ConstantCoordinate", "ConstantSpeed", "ConstantAcceleration", "CoordinateCoupler", "SpeedCoupler",
    "SphereOnPlaneContact", "SphereOnPlaneContact+rolling", "SphereOnSphereContact", "SphereOnSphereContact+rolling", "PointOnPlaneContact",
    "LineOnLineContact", "LineOnLineContact+rolling", "PrescribedMotion"};
inline bool isBodyKind(int k) { return k <= K_NOSLIP || (k >= K_SOP && k <= K_LOLR); }

struct ConDesc {               // what was built, in the form the model needs
    int kind; std::vector<Real> par;      // flat parameters (layout documented in checks/C07.py)
    std::vector<int> roles;               // MobilizedBodyIndex per role (body constraints)
    std::vector<std::pair<int,int> > coords;  // (mobod, q or u index) for mobility constraints (speeds first for SpeedCoupler)
    int nspeeds;                          // SpeedCoupler: number of speed arguments
    ConstraintIndex cx;
    ConDesc() : kind(-1), nspeeds(0) {}
};

inline void push3(std::vector<Real>& v, const Vec3& a) { v.push_back(a[0]); v.push_back(a[1]); v.push_back(a[2]); }
inline void pushR(std::vector<Real>& v, const Rotation& R) { for (int i = 0; i < 3; ++i) for (int j = 0; j < 3; ++j) v.push_back(R.asMat33()(i, j)); }

struct ConSystem {
    MultibodySystem sys; SimbodyMatterSubsystem matter; GeneralForceSubsystem forces;
    std::vector<int> types; bool euler; State state; std::vector<ConDesc> cons;
    ConSystem() : matter(sys), forces(sys), euler(false) {}
    MobilizedBody& mob(int i) { return matter.updMobilizedBody(MobilizedBodyIndex(i)); }
    // Ground + 4 bodies: b1 on G, b2 on b1, b3 on G, b4 on b2.   rich = only mobilizers with >= 3 dofs
    void buildTree(Rng& r, bool rich) {
        static const int richT[] = {6, 7, 8, 9, 9, 7};          // Gimbal Bushing Ball Free Free Bushing
        static const int anyT[] = {0, 1, 2, 3, 5, 6, 7, 8, 9, 10, 6, 7, 9};
        int par[4] = {0, 1, 0, 2};
        for (int i = 0; i < 4; ++i) {
            int ty = rich ? richT[r.I(0, 5)] : anyT[r.I(0, 12)];
            if (i == 2) ty = 9;                                   // b3 is Free: keeps every pair assemblable
            Body::Rigid body(randomMassProps(r));
            addMobod(ty, mob(par[i]), r.xf(), body, r.xf(), false);
            types.push_back(ty);
        }
    }
    // pair code -> (body1, body2)
    static void pairOf(int p, int& a, int& b) {
        static const int P[8][2] = {{2, 3}, {1, 4}, {0, 4}, {4, 0}, {4, 1}, {3, 2}, {3, 4}, {0, 3}};
        a = P[p % 8][0]; b = P[p % 8][1];
    }
    ConDesc addBodyConstraint(Rng& r, int kind, int pair) {
        ConDesc d; d.kind = kind; int a, b; pairOf(pair, a, b);
        MobilizedBody& A = mob(a); MobilizedBody& B = mob(b);
        switch (kind) {
        case K_ROD: { Vec3 s1 = r.v3(0.6), s2 = r.v3(0.6); Real len = r.U(0.5, 2.0);
            Constraint::Rod c(A, s1, B, s2, len); d.cx = c.getConstraintIndex(); push3(d.par, s1); push3(d.par, s2); d.par.push_back(len); break; }
        case K_BALL: { Vec3 s1 = r.v3(0.6), s2 = r.v3(0.6);
            Constraint::Ball c(A, s1, B, s2); d.cx = c.getConstraintIndex(); push3(d.par, s1); push3(d.par, s2); break; }
        case K_WELD: { Transform f1 = r.xf(0.5), f2 = r.xf(0.5);
            Constraint::Weld c(A, f1, B, f2); d.cx = c.getConstraintIndex();
            pushR(d.par, f1.R()); push3(d.par, f1.p()); pushR(d.par, f2.R()); push3(d.par, f2.p()); break; }
        case K_PIP: { UnitVec3 n(r.v3() + Vec3(0.01, 0.02, 0.03)); Real h = r.U(-0.5, 0.5); Vec3 s = r.v3(0.6);
            Constraint::PointInPlane c(A, n, h, B, s); d.cx = c.getConstraintIndex(); push3(d.par, Vec3(n)); d.par.push_back(h); push3(d.par, s); break; }
        case K_POL: { UnitVec3 z(r.v3() + Vec3(0.01, 0.02, 0.03)); Vec3 P = r.v3(0.5), s = r.v3(0.6);
            Constraint::PointOnLine c(A, z, P, B, s); d.cx = c.getConstraintIndex();
            UnitVec3 x = z.perp(); UnitVec3 y(z % x);          // exactly what PointOnLineImpl::realizeTopologyVirtual computes
            push3(d.par, Vec3(x)); push3(d.par, Vec3(y)); push3(d.par, P); push3(d.par, s); break; }
        case K_CANGLE: { UnitVec3 ab(r.v3() + Vec3(0.01, 0.02, 0.03)), af(r.v3() + Vec3(0.03, 0.02, 0.01)); Real ang = r.U(0.4, 2.7);
            Constraint::ConstantAngle c(A, ab, B, af, ang); d.cx = c.getConstraintIndex(); push3(d.par, Vec3(ab)); push3(d.par, Vec3(af)); d.par.push_back(std::cos(ang)); break; }
        case K_CORI: { Rotation r1 = r.rot(), r2 = r.rot();
            Constraint::ConstantOrientation c(A, r1, B, r2); d.cx = c.getConstraintIndex(); pushR(d.par, r1); pushR(d.par, r2); break; }
        case K_SOP: case K_SOPR: { Transform X_FP = r.xf(0.5); Vec3 pO = r.v3(0.5); Real rad = r.U(0.15, 0.6);
            Constraint::SphereOnPlaneContact c(A, X_FP, B, pO, rad, kind == K_SOPR); d.cx = c.getConstraintIndex();
            pushR(d.par, X_FP.R()); push3(d.par, X_FP.p()); push3(d.par, pO); d.par.push_back(rad); break; }
        case K_SOS: case K_SOSR: { Vec3 sF = r.v3(0.5), sB = r.v3(0.5); Real rf = r.U(0.15, 0.6), rb = r.U(0.15, 0.6);
            Constraint::SphereOnSphereContact c(A, sF, rf, B, sB, rb, kind == K_SOSR); d.cx = c.getConstraintIndex();
            push3(d.par, sF); push3(d.par, sB); d.par.push_back(rf); d.par.push_back(rb); break; }
        case K_POP: { Transform X_FP = r.xf(0.5); Vec3 pQ = r.v3(0.5);
            Constraint::PointOnPlaneContact c(A, X_FP, B, pQ); d.cx = c.getConstraintIndex();
            pushR(d.par, X_FP.R()); push3(d.par, X_FP.p()); push3(d.par, pQ); break; }
        case K_LOL: case K_LOLR: { Transform eF = r.xf(0.5), eB = r.xf(0.5); Real hf = r.U(0.3, 1), hb = r.U(0.3, 1);
            Constraint::LineOnLineContact c(A, eF, hf, B, eB, hb, kind == K_LOLR); d.cx = c.getConstraintIndex(); break; }
        case K_NOSLIP: { int cs[4] = {0, 3, 2, a}; int cb = cs[r.I(0, 3)]; Vec3 P = r.v3(0.6); UnitVec3 n(r.v3() + Vec3(0.01, 0.02, 0.03));
            Constraint::NoSlip1D c(mob(cb), P, n, A, B); d.cx = c.getConstraintIndex(); push3(d.par, P); push3(d.par, Vec3(n));
            d.roles.push_back(cb); break; }
        }
        d.roles.push_back(a); d.roles.push_back(b);
        cons.push_back(d); return d;
    }
    // mobility constraints; which = selector for the mobilizer(s); needs the tree already built
    ConDesc addMobilityConstraint(Rng& r, int kind) {
        ConDesc d; d.kind = kind;
        // candidate bodies: any with at least one mobility
        auto pick = [&]() { int b; do { b = r.I(1, 4); } while (types[b - 1] == 16); return b; };
        static const int NU[] = {1, 1, 2, 2, 2, 3, 3, 6, 3, 6, 3, 1, 3, 2, 5, 3, 0};
        switch (kind) {
        case K_CCOORD: { int b = pick(); int qi = r.I(0, NU[types[b - 1]] - 1); Real p = r.U(-0.5, 0.5);   // q index < nu is valid in both modes
            Constraint::ConstantCoordinate c(mob(b), MobilizerQIndex(qi), p); d.cx = c.getConstraintIndex(); d.par.push_back(p); d.coords.push_back(std::make_pair(b, qi)); break; }
        case K_CSPEED: { int b = pick(); int ui = r.I(0, NU[types[b - 1]] - 1); Real sp = r.U(-1, 1);
            Constraint::ConstantSpeed c(mob(b), MobilizerUIndex(ui), sp); d.cx = c.getConstraintIndex(); d.par.push_back(sp); d.coords.push_back(std::make_pair(b, ui)); break; }
        case K_CACC: { int b = pick(); int ui = r.I(0, NU[types[b - 1]] - 1); Real ac = r.U(-1, 1);
            Constraint::ConstantAcceleration c(mob(b), MobilizerUIndex(ui), ac); d.cx = c.getConstraintIndex(); d.par.push_back(ac); d.coords.push_back(std::make_pair(b, ui)); break; }
        case K_CCPL: { int n = r.I(2, 3); Array_<MobilizedBodyIndex> mb; Array_<MobilizerQIndex> qi; Vector coef(n + 1);
            for (int i = 0; i < n; ++i) { int b = pick(); int q = r.I(0, NU[types[b - 1]] - 1); mb.push_back(MobilizedBodyIndex(b)); qi.push_back(MobilizerQIndex(q)); d.coords.push_back(std::make_pair(b, q)); }
            for (int i = 0; i <= n; ++i) { coef[i] = r.U(-2, 2); d.par.push_back(coef[i]); }
            Constraint::CoordinateCoupler c(matter, new Function::Linear(coef), mb, qi); d.cx = c.getConstraintIndex(); break; }
        case K_PRESC: { int b = pick(); int qi = r.I(0, NU[types[b - 1]] - 1); Real a = r.U(0.2, 1), w = r.U(0.5, 2), ph = r.U(-1, 1);
            Constraint::PrescribedMotion c(matter, new Function::Sinusoid(a, w, ph), MobilizedBodyIndex(b), MobilizerQIndex(qi)); d.cx = c.getConstraintIndex();
            d.par.push_back(a); d.par.push_back(w); d.par.push_back(ph); d.coords.push_back(std::make_pair(b, qi)); break; }
        case K_SCPL: { int k = r.I(1, 3), l = r.I(0, 2); Array_<MobilizedBodyIndex> mb, qb; Array_<MobilizerUIndex> ui; Array_<MobilizerQIndex> qi; Vector coef(k + l + 1);
            for (int i = 0; i < k; ++i) { int b = pick(); int u = r.I(0, NU[types[b - 1]] - 1); mb.push_back(MobilizedBodyIndex(b)); ui.push_back(MobilizerUIndex(u)); d.coords.push_back(std::make_pair(b, u)); }
            for (int i = 0; i < l; ++i) { int b = pick(); int q = r.I(0, NU[types[b - 1]] - 1); qb.push_back(MobilizedBodyIndex(b)); qi.push_back(MobilizerQIndex(q)); d.coords.push_back(std::make_pair(b, q)); }
            for (int i = 0; i <= k + l; ++i) { coef[i] = r.U(-2, 2); d.par.push_back(coef[i]); }
            d.nspeeds = k;
            Constraint::SpeedCoupler c(matter, new Function::Linear(coef), mb, ui, qb, qi); d.cx = c.getConstraintIndex(); break; }
        }
        cons.push_back(d); return d;
    }
    void finish(Rng& r, Real qscale = 0.6) {
        euler = r.I(0, 1) == 1;
        state = sys.realizeTopology();
        matter.setUseEulerAngles(state, euler);
        sys.realizeModel(state);
        for (int i = 0; i < state.getNQ(); ++i) state.updQ()[i] = r.U(0.1, qscale) * (r.I(0, 1) ? 1 : -1);
        // normalise quaternions only (constraints stay violated): project with all constraints disabled is not
        // available as one call, so normalise by hand through the mobilizers' own q's
        if (!euler) for (MobilizedBodyIndex b(1); b < matter.getNumBodies(); ++b) {
            const MobilizedBody& m = matter.getMobilizedBody(b);
            if (matter.isUsingQuaternion(state, b)) {
                int q0 = m.getFirstQIndex(state); Real n = 0;
                for (int i = 0; i < 4; ++i) n += square(state.getQ()[q0 + i]);
                n = std::sqrt(n); for (int i = 0; i < 4; ++i) state.updQ()[q0 + i] /= n;
            }
        }
        for (int i = 0; i < state.getNU(); ++i) state.updU()[i] = r.U(-1, 1);
    }
};

inline void pX(const Transform& X) { for (int i = 0; i < 3; ++i) for (int j = 0; j < 3; ++j) std::printf(" %a", X.R().asMat33()(i, j)); std::printf(" %a %a %a", X.p()[0], X.p()[1], X.p()[2]); }
inline void pReals(const std::vector<Real>& v) { for (size_t i = 0; i < v.size(); ++i) std::printf(" %a", v[i]); }
#endif
