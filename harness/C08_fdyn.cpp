// C08 certificate probe.  usage: C08_fdyn <seed> <ncases>
// Each case: a random 5-body tree of rich mobilizers (harness/C07_sys.h) with 1-6 constraints of the C07 kinds
// (base constraints on distinct body pairs / distinct coordinates with at most 7 rows in total, plus exact duplicates and
// Ball-at-the-Weld-points as redundant-but-consistent members), a random enable mask, gravity + random mobility and body
// forces, a random state (every other case projected so that qerr = uerr = 0).
// Prints the data of the certificate  M udot + G^T lambda = rhs,  G udot = b  assembled from the implementation's OWN
// operators (calcM, calcG on the all-enabled state, calcResidualForceIgnoringConstraints, calcConstraintAccelerationErrors),
// the (udot, lambda) realize(Acceleration) produced with the mask applied, the implementation's own residual / power
// reports, and the results of the same system rebuilt WITHOUT the disabled constraints.
#include "C07_sys.h"

struct CSpec { int kind; int pair; unsigned long long sub; bool enabled; int special; };   // special: 1 = Ball at the points of the Weld with the same sub-seed

static void buildSystem(ConSystem& cs, unsigned long long treeSeed, const std::vector<CSpec>& specs, bool onlyEnabled, unsigned long long forceSeed) {
    Rng rt(treeSeed); cs.buildTree(rt, true);
    for (size_t i = 0; i < specs.size(); ++i) {
        const CSpec& c = specs[i]; if (onlyEnabled && !c.enabled) continue;
        Rng rc(c.sub);
        if (c.special == 1) {       // the Weld branch draws f1 = xf(0.5), f2 = xf(0.5): reuse the same draws for the Ball stations
            Transform f1 = rc.xf(0.5), f2 = rc.xf(0.5); int a, b; ConSystem::pairOf(c.pair, a, b);
            ConDesc d; d.kind = K_BALL; Constraint::Ball ball(cs.mob(a), f1.p(), cs.mob(b), f2.p()); d.cx = ball.getConstraintIndex(); cs.cons.push_back(d);
        } else if (c.kind <= K_NOSLIP) cs.addBodyConstraint(rc, c.kind, c.pair);
        else cs.addMobilityConstraint(rc, c.kind);
    }
    Rng rf(forceSeed);
    Force::UniformGravity(cs.forces, cs.matter, Vec3(rf.U(-3, 3), -9.8, rf.U(-3, 3)));
    for (int b = 1; b <= 4; ++b) {
        Force::ConstantForce(cs.forces, cs.mob(b), rf.v3(0.4), rf.v3(5));
        Force::ConstantTorque(cs.forces, cs.mob(b), rf.v3(3));
        Force::MobilityConstantForce(cs.forces, cs.mob(b), 0, rf.U(-4, 4));
    }
}

static int rowsOf(int kind) { static const int R[] = {1, 3, 6, 1, 2, 1, 3, 1, 1, 1, 1, 1, 1}; return R[kind]; }

int main(int argc, char** argv) {
    unsigned long long seed = std::strtoull(argv[1], 0, 10); int ncases = std::atoi(argv[2]);
    Rng r(seed);
    for (int k = 0; k < ncases; ++k) {
        unsigned long long treeSeed = r.g(), stateSeed = r.g(), forceSeed = r.g();
        bool onman = k % 2 == 1;
        // ---- constraint set
        std::vector<CSpec> specs; int rows = 0; std::vector<int> usedPairs;
        int nbase = r.I(1, 3);
        for (int i = 0; i < nbase; ++i) {
            CSpec c; c.kind = r.I(0, K_NKINDS - 1); c.pair = r.I(0, 7); c.sub = r.g(); c.enabled = true; c.special = 0;
            if (onman && (c.kind == K_CACC)) c.kind = K_CSPEED;
            if (c.kind <= K_NOSLIP) {           // one body constraint per unordered body pair, and none sharing a body with NoSlip's three
                int a, b; ConSystem::pairOf(c.pair, a, b); int key = std::min(a, b) * 8 + std::max(a, b);
                bool clash = false; for (size_t j = 0; j < usedPairs.size(); ++j) if (usedPairs[j] == key) clash = true;
                if (clash || rows + rowsOf(c.kind) > 7) continue;
                usedPairs.push_back(key);
            }
            rows += rowsOf(c.kind); specs.push_back(c);
        }
        if (specs.empty()) { CSpec c; c.kind = K_ROD; c.pair = 0; c.sub = r.g(); c.enabled = true; c.special = 0; specs.push_back(c); }
        int nred = r.I(0, 2);               // redundant but consistent members
        for (int i = 0; i < nred && specs.size() < 6; ++i) {
            CSpec c = specs[r.I(0, (int)specs.size() - 1)];
            if (c.special) continue;
            if (c.kind == K_WELD && r.I(0, 1)) { c.special = 1; }
            specs.push_back(c);
        }
        if (specs.size() >= 2) for (size_t i = 0; i < specs.size(); ++i) specs[i].enabled = r.I(0, 3) != 0;
        try {
            ConSystem A; buildSystem(A, treeSeed, specs, false, forceSeed);
            Rng rs(stateSeed); A.finish(rs);
            State s = A.state; const SimbodyMatterSubsystem& m = A.matter;
            State sAll = s;                                      // every constraint enabled
            for (size_t i = 0; i < specs.size(); ++i) if (!specs[i].enabled) m.getConstraint(A.cons[i].cx).disable(s);
            A.sys.realizeModel(s);
            if (onman) { A.sys.realize(s, Stage::Velocity); A.sys.project(s, 1e-12); sAll.updQ() = s.getQ(); sAll.updU() = s.getU(); }
            A.sys.realize(s, Stage::Acceleration); A.sys.realize(sAll, Stage::Velocity);
            const int nu = s.getNU(), mA = s.getNMultipliers();
            Matrix M; m.calcM(s, M);
            Matrix Gall; m.calcG(sAll, Gall); const int mAll = Gall.nrow();
            Vector zero(nu, Real(0)), ball0; m.calcConstraintAccelerationErrors(sAll, zero, ball0);     // = -b for all constraints
            const Vector& mobF = A.sys.getMobilityForces(s, Stage::Dynamics); const Vector_<SpatialVec>& bodyF = A.sys.getRigidBodyForces(s, Stage::Dynamics);
            Vector res0; m.calcResidualForceIgnoringConstraints(s, mobF, bodyF, zero, res0);             // = f_inertial - f_applied = -rhs
            // row map: full row index of every row of the masked system, per constraint
            std::vector<int> maskRow(mAll, 0); Vector lamFull(mAll); for (int i = 0; i < mAll; ++i) lamFull[i] = 123.0;   // disabled multipliers: arbitrary
            int totP_A = 0, totV_A = 0, totP_F = 0, totV_F = 0;
            for (size_t i = 0; i < specs.size(); ++i) { const Constraint& c = m.getConstraint(A.cons[i].cx); int p, v, a;
                c.getNumConstraintEquationsInUse(sAll, p, v, a); totP_F += p; totV_F += v; if (specs[i].enabled) { totP_A += p; totV_A += v; } }
            bool workless = true; std::string kinds;
            for (size_t i = 0; i < specs.size(); ++i) {
                const Constraint& c = m.getConstraint(A.cons[i].cx); int p, v, a; c.getNumConstraintEquationsInUse(sAll, p, v, a);
                MultiplierIndex pf, vf, af; c.getIndexOfMultipliersInUse(sAll, pf, vf, af);
                char buf[64]; std::snprintf(buf, sizeof buf, " %s%s%s", CKNAMES[specs[i].special ? K_BALL : specs[i].kind], specs[i].special ? "@weld" : "", specs[i].enabled ? "" : "(off)"); kinds += buf;
                if (!specs[i].enabled) continue;
                int kd = specs[i].kind; if (kd == K_CACC || kd == K_CSPEED || kd == K_SCPL) workless = false;    // working unless their constants vanish
                MultiplierIndex pa, va, aa; c.getIndexOfMultipliersInUse(s, pa, va, aa);
                for (int j = 0; j < p; ++j) { maskRow[pf + j] = 1; lamFull[pf + j] = s.getMultipliers()[pa + j]; }
                for (int j = 0; j < v; ++j) { maskRow[vf + j] = 1; lamFull[vf + j] = s.getMultipliers()[va + j]; }
                for (int j = 0; j < a; ++j) { maskRow[af + j] = 1; lamFull[af + j] = s.getMultipliers()[aa + j]; }
            }
            // consistency of the enabled acceleration equations (the property quantifies over consistent sets): least-squares residual
            Matrix GA; m.calcG(s, GA); Vector bA0; m.calcConstraintAccelerationErrors(s, zero, bA0);
            Real consRes = 0; int rankA = 0;
            if (mA > 0) { FactorQTZ qtz(GA, 1e-10); rankA = qtz.getRank(); Vector x; qtz.solve(Vector(-bA0), x); consRes = (GA * x + bA0).norm() / (1 + bA0.norm()); }
            std::printf("CASE %d onman %d nu %d mAll %d mA %d rank %d consistency %.3e workless %d nspecs %d kinds%s\n", k, (int)onman, nu, mAll, mA, rankA, consRes, (int)workless, (int)specs.size(), kinds.c_str());
            for (int i = 0; i < nu; ++i) { std::printf("MROW %d", i); for (int j = 0; j < nu; ++j) std::printf(" %a", M(i, j)); std::printf("\n"); }
            for (int i = 0; i < mAll; ++i) { std::printf("GROW %d %d", i, maskRow[i]); for (int j = 0; j < nu; ++j) std::printf(" %a", Gall(i, j)); std::printf("\n"); }
            pvec("RHS", Vector(-res0)); pvec("B", Vector(-ball0)); pvec("UDOT", s.getUDot()); pvec("LAMFULL", lamFull); pvec("U", s.getU());
            // ---- the implementation's own reports
            pvec("OUT UDOTERR", s.getUDotErr()); pvec("OUT QERR", s.getQErr()); pvec("OUT UERR", s.getUErr());
            Vector resid; m.calcResidualForce(s, mobF, bodyF, s.getUDot(), s.getMultipliers(), resid); pvec("OUT RESID", resid);
            std::printf("OUT POWER %a\n", m.calcConstraintPower(s));
            Vector Gtl; m.multiplyByGTranspose(s, s.getMultipliers(), Gtl); pvec("OUT GTL", Gtl);
            // ---- the same system without the disabled constraints
            bool anyOff = false; for (size_t i = 0; i < specs.size(); ++i) if (!specs[i].enabled) anyOff = true;
            if (anyOff) {
                ConSystem B; buildSystem(B, treeSeed, specs, true, forceSeed);
                Rng rs2(stateSeed); B.finish(rs2); State t = B.state; t.updQ() = s.getQ(); t.updU() = s.getU();
                B.sys.realize(t, Stage::Acceleration);
                pvec("OUT REDUCED_UDOT", t.getUDot()); pvec("OUT REDUCED_LAM", t.getMultipliers()); pvec("OUT MASKED_LAM", s.getMultipliers());
                Vector GtlB; B.matter.multiplyByGTranspose(t, t.getMultipliers(), GtlB); pvec("OUT REDUCED_GTL", GtlB);
            }
            std::printf("END\n");
        } catch (const std::exception& e) { std::printf("SKIP %d %s\n", k, e.what()); }
    }
    return 0;
}
