// C08 certificate probe.  usage: C08_fdyn <seed> <ncases>
// Enable/disable is exercised as a HISTORY on one state (defaults, repeated requests, toggling back, realizations in between).
// Each case: a random 5-body tree of rich mobilizers (harness/C07_sys.h) with 1-6 constraints of the C07 kinds
// (base constraints on distinct body pairs / distinct coordinates with at most 7 rows in total, plus exact duplicates and
// Ball-at-the-Weld-points as redundant-but-consistent members), a random enable mask, gravity + random mobility and body
// forces, a random state (every other case projected so that qerr = uerr = 0).
// Prints the data of the certificate  M udot + G^T lambda = rhs,  G udot = b  assembled from the implementation's OWN
// operators (calcM, calcG on the all-enabled state, calcResidualForceIgnoringConstraints, calcConstraintAccelerationErrors),
// the (udot, lambda) realize(Acceleration) produced with the mask applied, the implementation's own residual / power
// reports, and the results of the same system rebuilt WITHOUT the disabled constraints.
#include "C07_sys.h"

struct CSpec { int kind; int pair; unsigned long long sub; bool enabled; int special;
               bool defDisabled; std::vector<int> hist; };   // hist: enable/disable requests applied to ONE state in order (1 = disable); enabled = final flag   // special: 1 = Ball at the points of the Weld with the same sub-seed

static void buildSystem(ConSystem& cs, unsigned long long treeSeed, const std::vector<CSpec>& specs, bool onlyEnabled, unsigned long long forceSeed) {
    Rng rt(treeSeed); cs.buildTree(rt, true);
    for (size_t i = 0; i < specs.size(); ++i) {
        const CSpec& c = specs[i]; if (onlyEnabled && !c.enabled) continue;
        Rng rc(c.sub);
        if (c.special == 1) {       // the Weld branch draws f1 = xf(0.5), f2 = xf(0.5): reuse the same draws for the Ball stations
            Transform f1 = rc.xf(0.5), f2 = rc.xf(0.5); int a, b; ConSystem::pairOf(c.pair, a, b);
            ConDesc d; d.kind = K_BALL; Constraint::Ball ball(cs.mob(a), f1.p(), cs.mob(b), f2.p()); d.cx = ball.getConstraintIndex(); cs.cons.push_back(d);
        } else if (c.kind <= K_NOSLIP) cs.addBodyConstraint(rc, c.kind, c.pair);
        else cs.addMobilityConstraint(rc, c.kind);
        if (!onlyEnabled && c.defDisabled) cs.matter.updConstraint(cs.cons.back().cx).setDisabledByDefault(true);
    }
    Rng rf(forceSeed);
    Force::UniformGravity(cs.forces, cs.matter, Vec3(rf.U(-3, 3), -9.8, rf.U(-3, 3)));
    for (int b = 1; b <= 4; ++b) {
        Force::ConstantForce(cs.forces, cs.mob(b), rf.v3(0.4), rf.v3(5));
        Force::ConstantTorque(cs.forces, cs.mob(b), rf.v3(3));
        Force::MobilityConstantForce(cs.forces, cs.mob(b), 0, rf.U(-4, 4));
    }
}

static int rowsOf(int kind) { static const int R[] = {1, 3, 6, 1, 2, 1, 3, 1, 1, 1, 1, 1, 1}; return R[kind]; }

int main(int argc, char** argv) {
    unsigned long long seed = std::strtoull(argv[1], 0, 10); int ncases = std::atoi(argv[2]);
    Rng r(seed);
    for (int k = 0; k < ncases; ++k) {
        unsigned long long treeSeed = r.g(), stateSeed = r.g(), forceSeed = r.g();
        bool onman = k % 2 == 1;
        // ---- constraint set
        std::vector<CSpec> specs; int rows = 0; std::vector<int> usedPairs;
        int nbase = r.I(1, 3);
        for (int i = 0; i < nbase; ++i) {
            CSpec c; c.kind = r.I(0, K_NKINDS - 1); c.pair = r.I(0, 7); c.sub = r.g(); c.enabled = true; c.special = 0; c.defDisabled = false;
            if (onman && (c.kind == K_CACC)) c.kind = K_CSPEED;
            if (c.kind <= K_NOSLIP) {           // one body constraint per unordered body pair, and none sharing a body with NoSlip's three
                int a, b; ConSystem::pairOf(c.pair, a, b); int key = std::min(a, b) * 8 + std::max(a, b);
                bool clash = false; for (size_t j = 0; j < usedPairs.size(); ++j) if (usedPairs[j] == key) clash = true;
                if (clash || rows + rowsOf(c.kind) > 7) continue;
                usedPairs.push_back(key);
            }
            rows += rowsOf(c.kind); specs.push_back(c);
        }
        if (specs.empty()) { CSpec c; c.kind = K_ROD; c.pair = 0; c.sub = r.g(); c.enabled = true; c.special = 0; c.defDisabled = false; specs.push_back(c); }
        int nred = r.I(0, 2);               // redundant but consistent members
        for (int i = 0; i < nred && specs.size() < 6; ++i) {
            CSpec c = specs[r.I(0, (int)specs.size() - 1)];
            if (c.special) continue;
            if (c.kind == K_WELD && r.I(0, 1)) { c.special = 1; }
            specs.push_back(c);
        }
        // enable/disable HISTORIES on one state: every constraint gets a default flag (a quarter are disabled by default) and a sequence of
        // 0..4 requests whose last one is the final flag; sequences are biased to end by toggling BACK to the default (disable;enable resp.
        // enable;disable).  A lone constraint stays enabled in the end.
        for (size_t i = 0; i < specs.size(); ++i) {
            CSpec& c = specs[i]; c.defDisabled = r.I(0, 3) == 0; c.hist.clear();
            int L = r.I(0, 4); for (int j = 0; j < L; ++j) c.hist.push_back(r.I(0, 1));
            if (r.I(0, 2) == 0) { c.hist.push_back(c.defDisabled ? 0 : 1); c.hist.push_back(c.defDisabled ? 1 : 0); }   // away from the default and back
            bool fin = c.hist.empty() ? c.defDisabled : c.hist.back() == 1;
            if (specs.size() < 2 && fin) { c.hist.push_back(0); fin = false; }
            c.enabled = !fin;
        }
        { bool any = false; for (size_t i = 0; i < specs.size(); ++i) any = any || specs[i].enabled;
          if (!any) { specs[0].hist.push_back(0); specs[0].enabled = true; } }
        try {
            ConSystem A; buildSystem(A, treeSeed, specs, false, forceSeed);
            Rng rs(stateSeed); A.finish(rs);
            State s = A.state; const SimbodyMatterSubsystem& m = A.matter;
            State sAll = s;                                      // every constraint enabled (one request each from the default state)
            for (size_t i = 0; i < specs.size(); ++i) m.getConstraint(A.cons[i].cx).enable(sAll);
            // apply the request histories to s, interleaved over the constraints in random order, through Constraint::enable/disable or
            // SimbodyMatterSubsystem::setConstraintIsDisabled, realizing the state between requests half of the time
            { Rng rh(stateSeed ^ 0x9e3779b97f4a7c15ULL); std::vector<size_t> pos(specs.size(), 0); int left = 0; for (size_t i = 0; i < specs.size(); ++i) left += (int)specs[i].hist.size();
              while (left > 0) { size_t i = rh.I(0, (int)specs.size() - 1); if (pos[i] >= specs[i].hist.size()) continue;
                  bool dis = specs[i].hist[pos[i]++] == 1; --left; const Constraint& c = m.getConstraint(A.cons[i].cx);
                  if (rh.I(0, 2) == 0) m.setConstraintIsDisabled(s, A.cons[i].cx, dis); else if (dis) c.disable(s); else c.enable(s);
                  int rz = rh.I(0, 3); if (rz == 0) A.sys.realize(s, Stage::Instance); else if (rz == 1) A.sys.realize(s, Stage::Acceleration); } }
            // the flag the state reports must be the last request (the default if there was none)
            std::printf("PRE %d\n", k);
            bool flagsOk = true;
            for (size_t i = 0; i < specs.size(); ++i) { const Constraint& c = m.getConstraint(A.cons[i].cx);
                std::printf("FLAG %d %d %d %d |", (int)i, (int)c.isDisabledByDefault(), (int)c.isDisabled(s), (int)m.isConstraintDisabled(s, A.cons[i].cx));
                for (size_t j = 0; j < specs[i].hist.size(); ++j) std::printf(" %d", specs[i].hist[j]); std::printf("\n");
                if (c.isDisabled(s) != !specs[i].enabled) flagsOk = false; }
            if (!flagsOk) { std::printf("FLAGMISMATCH %d seed %llu\nEND\n", k, seed); continue; }
            A.sys.realizeModel(s);
            if (onman) { A.sys.realize(s, Stage::Velocity); A.sys.project(s, 1e-12); sAll.updQ() = s.getQ(); sAll.updU() = s.getU(); }
            A.sys.realize(s, Stage::Acceleration); A.sys.realize(sAll, Stage::Velocity);
            const int nu = s.getNU(), mA = s.getNMultipliers();
            Matrix M; m.calcM(s, M);
            Matrix Gall; m.calcG(sAll, Gall); const int mAll = Gall.nrow();
            Vector zero(nu, Real(0)), ball0; m.calcConstraintAccelerationErrors(sAll, zero, ball0);     // = -b for all constraints
            const Vector& mobF = A.sys.getMobilityForces(s, Stage::Dynamics); const Vector_<SpatialVec>& bodyF = A.sys.getRigidBodyForces(s, Stage::Dynamics);
            Vector res0; m.calcResidualForceIgnoringConstraints(s, mobF, bodyF, zero, res0);             // = f_inertial - f_applied = -rhs
            // row map: full row index of every row of the masked system, per constraint
            std::vector<int> maskRow(mAll, 0); Vector lamFull(mAll); for (int i = 0; i < mAll; ++i) lamFull[i] = 123.0;   // disabled multipliers: arbitrary
            int totP_A = 0, totV_A = 0, totP_F = 0, totV_F = 0;
            for (size_t i = 0; i < specs.size(); ++i) { const Constraint& c = m.getConstraint(A.cons[i].cx); int p, v, a;
                c.getNumConstraintEquationsInUse(sAll, p, v, a); totP_F += p; totV_F += v; if (specs[i].enabled) { totP_A += p; totV_A += v; } }
            bool workless = true; std::string kinds;
            for (size_t i = 0; i < specs.size(); ++i) {
                const Constraint& c = m.getConstraint(A.cons[i].cx); int p, v, a; c.getNumConstraintEquationsInUse(sAll, p, v, a);
                MultiplierIndex pf, vf, af; c.getIndexOfMultipliersInUse(sAll, pf, vf, af);
                char buf[64]; std::snprintf(buf, sizeof buf, " %s%s%s", CKNAMES[specs[i].special ? K_BALL : specs[i].kind], specs[i].special ? "@weld" : "", specs[i].enabled ? "" : "(off)"); kinds += buf; if (specs[i].defDisabled) kinds += "[dd]"; if (specs[i].hist.size() > 1) kinds += "[hist]";
                if (!specs[i].enabled) continue;
                int kd = specs[i].kind; if (kd == K_CACC || kd == K_CSPEED || kd == K_SCPL) workless = false;    // working unless their constants vanish
                MultiplierIndex pa, va, aa; c.getIndexOfMultipliersInUse(s, pa, va, aa);
                for (int j = 0; j < p; ++j) { maskRow[pf + j] = 1; lamFull[pf + j] = s.getMultipliers()[pa + j]; }
                for (int j = 0; j < v; ++j) { maskRow[vf + j] = 1; lamFull[vf + j] = s.getMultipliers()[va + j]; }
                for (int j = 0; j < a; ++j) { maskRow[af + j] = 1; lamFull[af + j] = s.getMultipliers()[aa + j]; }
            }
            // consistency of the enabled acceleration equations (the property quantifies over consistent sets): least-squares residual
            Matrix GA; m.calcG(s, GA); Vector bA0; m.calcConstraintAccelerationErrors(s, zero, bA0);
            Real consRes = 0; int rankA = 0;
            if (mA > 0) { FactorQTZ qtz(GA, 1e-10); rankA = qtz.getRank(); Vector x; qtz.solve(Vector(-bA0), x); consRes = (GA * x + bA0).norm() / (1 + bA0.norm()); }
            // conditioning of the multiplier solve: singular values of G M^-1 G^T (the matrix realizeLoopForwardDynamics factors with
            // FactorQTZ at rcond = m*Eps^(3/4)); cond = s_max / (smallest singular value the implementation keeps), dropped = the largest
            // singular value below its cut relative to s_max (0 if none is strictly between roundoff and the cut)
            Real cond = 1, dropped = 0, smax = 0;
            if (mA > 0) { Matrix W; m.calcProjectedMInv(s, W); FactorSVD svd(W); Vector sv; svd.getSingularValues(sv);
                smax = sv[0]; const Real cut = mA * SqrtEps * std::sqrt(SqrtEps) * smax; Real smin = smax;
                for (int i = 0; i < sv.size(); ++i) { if (sv[i] >= cut) smin = std::min(smin, sv[i]); else dropped = std::max(dropped, sv[i] / smax); }
                cond = smax / smin;
                std::printf("SV"); for (int i = 0; i < sv.size(); ++i) std::printf(" %.3e", sv[i]); std::printf("\n"); }
            std::printf("CASE %d onman %d nu %d mAll %d mA %d rank %d consistency %.3e workless %d nspecs %d cond %.3e dropped %.3e kinds%s\n", k, (int)onman, nu, mAll, mA, rankA, consRes, (int)workless, (int)specs.size(), cond, dropped, kinds.c_str());
            for (int i = 0; i < nu; ++i) { std::printf("MROW %d", i); for (int j = 0; j < nu; ++j) std::printf(" %a", M(i, j)); std::printf("\n"); }
            for (int i = 0; i < mAll; ++i) { std::printf("GROW %d %d", i, maskRow[i]); for (int j = 0; j < nu; ++j) std::printf(" %a", Gall(i, j)); std::printf("\n"); }
            pvec("RHS", Vector(-res0)); pvec("B", Vector(-ball0)); pvec("UDOT", s.getUDot()); pvec("LAMFULL", lamFull); pvec("U", s.getU());
            // ---- the implementation's own reports
            pvec("OUT UDOTERR", s.getUDotErr()); pvec("OUT QERR", s.getQErr()); pvec("OUT UERR", s.getUErr());
            Vector resid; m.calcResidualForce(s, mobF, bodyF, s.getUDot(), s.getMultipliers(), resid); pvec("OUT RESID", resid);
            std::printf("OUT POWER %a\n", m.calcConstraintPower(s));
            Vector Gtl; m.multiplyByGTranspose(s, s.getMultipliers(), Gtl); pvec("OUT GTL", Gtl);
            // ---- per-constraint accessors (Constraint::calcPower, force / multiplier / error accessors, P V A matrices) against the system-level ones
            { Vector_<SpatialVec> FG; Vector fu; m.findConstraintForces(s, FG, fu); Real pw = 0;       // documented: power = -(dot(F,V) + dot(f,u))
              for (MobilizedBodyIndex b(0); b < m.getNumBodies(); ++b) pw -= ~FG[b] * m.getMobilizedBody(b).getBodyVelocity(s);
              pw -= ~fu * s.getU(); std::printf("OUT POWER_FROM_FORCES %a\n", pw); }
            Matrix PqA; if (mA) m.calcPq(s, PqA);
            for (size_t i = 0; i < specs.size(); ++i) {
                if (!specs[i].enabled) continue;
                const Constraint& c = m.getConstraint(A.cons[i].cx); int p, v, a; c.getNumConstraintEquationsInUse(s, p, v, a);
                MultiplierIndex pa, va, aa; c.getIndexOfMultipliersInUse(s, pa, va, aa);
                MultiplierIndex pf, vf, af; c.getIndexOfMultipliersInUse(sAll, pf, vf, af);
                int kd = specs[i].special ? K_BALL : specs[i].kind;
                std::printf("PCON %d %d %s %d %d %d %d %d %d\n", (int)i, kd, CKNAMES[kd], p, v, a, p ? (int)pa : 0, v ? (int)va : 0, a ? (int)aa : 0);
                std::printf("PC FULLROWS"); for (int j = 0; j < p; ++j) std::printf(" %d", (int)pf + j); for (int j = 0; j < v; ++j) std::printf(" %d", (int)vf + j);
                for (int j = 0; j < a; ++j) std::printf(" %d", (int)af + j); std::printf("\n");
                std::printf("PC POWER %a\n", c.calcPower(s));
                pvec("PC MULT", c.getMultipliersAsVector(s)); pvec("PC PERR", c.getPositionErrorsAsVector(s));
                pvec("PC VERR", c.getVelocityErrorsAsVector(s)); pvec("PC AERR", c.getAccelerationErrorsAsVector(s));
                // power from the constraint's own force accessors
                Vector_<SpatialVec> bf = c.getConstrainedBodyForcesAsVector(s); Vector mf = c.getConstrainedMobilityForcesAsVector(s); Real pw = 0;
                for (int j = 0; j < bf.size(); ++j) pw -= ~bf[j] * c.getMobilizedBodyFromConstrainedBody(ConstrainedBodyIndex(j)).getBodyVelocity(s);
                { int cu = 0; for (ConstrainedMobilizerIndex cm(0); cm < c.getNumConstrainedMobilizers(); ++cm) { const MobilizedBody& mb = c.getMobilizedBodyFromConstrainedMobilizer(cm);
                    int n = c.getNumConstrainedU(s, cm); for (int j = 0; j < n; ++j, ++cu) pw -= mf[cu] * s.getU()[(int)mb.getFirstUIndex(s) + j]; } }
                std::printf("PC POWER_FROM_OWN_FORCES %a %d %d\n", pw, bf.size(), mf.size());
                // forces recomputed from this constraint's multipliers (A frame -> G) must be the ones the state reports
                { Vector_<SpatialVec> fa; Vector mf2; c.calcConstraintForcesFromMultipliers(s, c.getMultipliersAsVector(s), fa, mf2);
                  const Rotation& R_GA = c.getNumConstrainedBodies() ? c.getAncestorMobilizedBody().getBodyRotation(s) : Rotation(); Real d = 0, sc = 1;
                  for (int j = 0; j < fa.size(); ++j) { SpatialVec g(R_GA * fa[j][0], R_GA * fa[j][1]); d += (g - bf[j]).norm(); sc += bf[j].norm(); }
                  d += (mf2 - mf).norm(); sc += mf.norm(); std::printf("PC FORCES_FROM_MULT_DIFF %a %a\n", d, sc); }
                // per-constraint matrices
                if (p) { Matrix P = c.calcPositionConstraintMatrixP(s), Pt = c.calcPositionConstraintMatrixPt(s), PN = c.calcPositionConstraintMatrixPNInv(s);
                    for (int r2 = 0; r2 < p; ++r2) { std::printf("PC P %d", r2); for (int j = 0; j < nu; ++j) std::printf(" %a", P(r2, j)); std::printf("\n");
                        std::printf("PC PT %d", r2); for (int j = 0; j < nu; ++j) std::printf(" %a", Pt(j, r2)); std::printf("\n");
                        std::printf("PC PNINV %d", r2); for (int j = 0; j < PN.ncol(); ++j) std::printf(" %a", PN(r2, j)); std::printf("\n");
                        std::printf("PC PQROW %d", r2); for (int j = 0; j < PqA.ncol(); ++j) std::printf(" %a", PqA((int)pa + r2, j)); std::printf("\n"); } }
                if (v) { Matrix Vt = c.calcVelocityConstraintMatrixVt(s);
                    for (int r2 = 0; r2 < v; ++r2) { std::printf("PC VT %d", r2); for (int j = 0; j < nu; ++j) std::printf(" %a", Vt(j, r2)); std::printf("\n"); }
                    try { Matrix V = c.calcVelocityConstraintMatrixV(s); for (int r2 = 0; r2 < v; ++r2) { std::printf("PC V %d", r2); for (int j = 0; j < nu; ++j) std::printf(" %a", V(r2, j)); std::printf("\n"); } }
                    catch (const std::exception& e) { std::printf("PC V_THROWS %s\n", std::string(e.what()).substr(0, 160).c_str()); } }
                if (a) { Matrix At = c.calcAccelerationConstraintMatrixAt(s);
                    for (int r2 = 0; r2 < a; ++r2) { std::printf("PC AT %d", r2); for (int j = 0; j < nu; ++j) std::printf(" %a", At(j, r2)); std::printf("\n"); }
                    try { Matrix Am = c.calcAccelerationConstraintMatrixA(s); for (int r2 = 0; r2 < a; ++r2) { std::printf("PC A %d", r2); for (int j = 0; j < nu; ++j) std::printf(" %a", Am(r2, j)); std::printf("\n"); } }
                    catch (const std::exception& e) { std::printf("PC A_THROWS %s\n", std::string(e.what()).substr(0, 160).c_str()); } }
            }
            pvec("OUT MULT", s.getMultipliers()); pvec("OUT QDOT", s.getQDot());
            // ---- the same system without the disabled constraints
            bool anyOff = false; for (size_t i = 0; i < specs.size(); ++i) if (!specs[i].enabled) anyOff = true;
            if (anyOff) {
                ConSystem B; buildSystem(B, treeSeed, specs, true, forceSeed);
                Rng rs2(stateSeed); B.finish(rs2); State t = B.state; t.updQ() = s.getQ(); t.updU() = s.getU();
                B.sys.realize(t, Stage::Acceleration);
                pvec("OUT REDUCED_UDOT", t.getUDot()); pvec("OUT REDUCED_LAM", t.getMultipliers()); pvec("OUT MASKED_LAM", s.getMultipliers());
                Vector GtlB; B.matter.multiplyByGTranspose(t, t.getMultipliers(), GtlB); pvec("OUT REDUCED_GTL", GtlB);
            }
            std::printf("END\n");
        } catch (const std::exception& e) { std::printf("SKIP %d %s\n", k, e.what()); }
    }
    return 0;
}
