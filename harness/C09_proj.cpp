// C09 projection probe.   usage: C09_proj <seed> <ncases> <mode>      mode = gen | lin | spec
//
// gen : random constrained systems (harness/C07_sys.h: Ground + 4 bodies, random mobilizers, quaternion or Euler mode,
//       1-3 constraints of the C07 kinds, optionally a Motion prescribing u (Steady) or q,u (Sinusoid) of one mobilizer),
//       random u / constraint weights, assembled (projected to 1e-10) where possible, then perturbed off the manifold by
//       1e-6 .. 1e-1 in q (quaternions become unnormalised) and u -- or not perturbed at all --, then ONE call of
//       System::projectQ and ONE of System::projectU with random accuracy 1e-8..1e-2, LocalOnly / DontThrow /
//       UseInfinityNorm / ForceProjection / ForceFullNewton, overshoot, projection limit, with or without an error estimate.
// lin : trees of mobilizers with qdot = u, exactly ONE linear constraint (ConstantCoordinate, linear CoordinateCoupler,
//       ConstantSpeed, linear SpeedCoupler), optional prescribed mobilizer: prints the constraint row, weights, entry error
//       and the correction the implementation made, for comparison with the closed-form weighted minimum-norm step.
// spec: hand-made situations for the rarely taken exits (inconsistent constraints -> iteration limit / stall / divergence,
//       projection limit, prescribed non-unit quaternion -> the quaternion-failure exits, no constraints + forced, NaN).
//
// Every call prints
//   CALL <Q|U> acc ov lim bits mCons mQuats nfree n            (bits: 1 LocalOnly 2 DontThrow 4 UseInfinityNorm 8 Force 16 FullNewton)
//   ENTRY pnorm qnorm                                          weighted norms computed HERE from the State, as documented
//   TRACE tag v...                                             hook records of the call (none if the hooks are not in the tree)
//   RES status its anyChange limitExceeded normOnEntrance normOnExit threw
//   POST pnorm qnorm maxAbsChange maxAbsChangePrescribed maxAbsChangeOtherLevel quatUnitDev
// All reals in %a.  The check (checks/C09.py) replays the control logic through the extracted model and evaluates the
// property's predicates on these lines.
#include "C07_sys.h"
#include "SimTKcommon/internal/VerifTrace.h"
#include <cstring>
#include <cmath>
#include <limits>

struct Rec { std::string tag; std::vector<double> v; };
static std::vector<Rec> g_trace;
static void traceSink(const char* tag, int n, const double* v) {
    if (std::strncmp(tag, "C09.", 4) != 0) return;
    Rec r; r.tag = tag; r.v.assign(v, v + n); g_trace.push_back(r);
}
static void printTrace() {
    for (size_t i = 0; i < g_trace.size(); ++i) {
        std::printf("TRACE %s", g_trace[i].tag.c_str());
        for (size_t j = 0; j < g_trace[i].v.size(); ++j) std::printf(" %a", g_trace[i].v[j]);
        std::printf("\n");
    }
}

struct Opt { Real acc, ov, lim; bool local, dthrow, inf, force, fullN; };
static Opt randOpt(Rng& r) {
    Opt o; o.acc = std::pow(10.0, r.U(-8, -2));
    o.ov = r.I(0, 9) < 6 ? 0.1 : (r.I(0, 3) == 0 ? 1.0 : r.U(0.01, 1.0));
    o.lim = r.I(0, 9) < 8 ? Infinity : std::pow(10.0, r.U(-4, 0));
    o.local = r.I(0, 9) < 4; o.dthrow = r.I(0, 9) < 7; o.inf = r.I(0, 9) < 3; o.force = r.I(0, 9) < 3; o.fullN = r.I(0, 9) < 1;
    return o;
}
static ProjectOptions mkOpts(const Opt& o) {
    ProjectOptions p; p.setRequiredAccuracy(o.acc); p.setOvershootFactor(o.ov);
    if (o.lim < Infinity) p.setProjectionLimit(o.lim);
    if (o.local) p.setOption(ProjectOptions::LocalOnly);
    if (o.dthrow) p.setOption(ProjectOptions::DontThrow);
    if (o.inf) p.setOption(ProjectOptions::UseInfinityNorm);
    if (o.force) p.setOption(ProjectOptions::ForceProjection);
    if (o.fullN) p.setOption(ProjectOptions::ForceFullNewton);
    return p;
}
static int bitsOf(const Opt& o) { return (o.local ? 1 : 0) | (o.dthrow ? 2 : 0) | (o.inf ? 4 : 0) | (o.force ? 8 : 0) | (o.fullN ? 16 : 0); }
static Real nrm(const Vector& v, bool inf) { return inf ? v.normInf() : v.normRMS(); }
static const char* stName(ProjectResults::Status s) {
    switch (s) { case ProjectResults::Succeeded: return "Succeeded"; case ProjectResults::FailedToAchieveAccuracy: return "FailedToAchieveAccuracy";
                 case ProjectResults::FailedToConverge: return "FailedToConverge"; default: return "Invalid"; }
}
static Real maxAbsDiff(const Vector& a, const Vector& b) { Real m = 0; for (int i = 0; i < a.size(); ++i) { Real d = std::abs(a[i] - b[i]); if (!(d <= m)) m = d; } return m; }

// weighted norms exactly as documented: position errors times their weights (RMS or infinity norm), quaternion errors unweighted
static void normsQ(const SimbodyMatterSubsystem& m, const State& s, bool inf, Real& pn, Real& qn, int& mHolo, int& mQuats) {
    mQuats = m.getNumQuaternionsInUse(s); mHolo = s.getNQErr() - mQuats;
    Vector sp = s.getQErr()(0, mHolo).rowScale(s.getQErrWeights()(0, mHolo));
    Vector qe = s.getQErr()(mHolo, mQuats);
    pn = nrm(sp, inf); qn = nrm(qe, inf);
}
static Real normU(const State& s, bool inf) { Vector sv = s.getUErr().rowScale(s.getUErrWeights()); return nrm(sv, inf); }

static void callQ(ConSystem& cs, State& s, const Opt& o, const Vector& errEst0) {
    const SimbodyMatterSubsystem& m = cs.matter;
    Real pn, qn; int mHolo, mQuats; normsQ(m, s, o.inf, pn, qn, mHolo, mQuats);
    const Array_<QIndex>& freeQ = m.getFreeQIndex(s);
    std::vector<bool> isFree(s.getNQ(), false); for (unsigned i = 0; i < freeQ.size(); ++i) isFree[freeQ[i]] = true;
    Vector q0 = s.getQ(), u0 = s.getU(); Vector est = errEst0;
    std::printf("CALL Q %a %a %a %d %d %d %d %d\n", o.acc, o.ov, o.lim, bitsOf(o), mHolo, mQuats, (int)freeQ.size(), s.getNQ());
    std::printf("ENTRY %a %a\n", pn, qn);
    g_trace.clear(); ProjectResults res; bool threw = false;
    try { cs.sys.projectQ(s, est, mkOpts(o), res); } catch (const std::exception& e) { threw = true; }
    printTrace();
    cs.sys.realize(s, Stage::Position);
    std::printf("RES %s %d %d %d %a %a %d\n", stName(res.getExitStatus()), res.isValid() ? res.getNumIterations() : -1,
                res.isValid() ? (int)res.getAnyChangeMade() : -1, res.isValid() ? (int)res.getProjectionLimitExceeded() : -1,
                res.isValid() ? res.getNormOnEntrance() : NaN, res.isValid() ? res.getNormOnExit() : NaN, (int)threw);
    Real pn1, qn1; normsQ(m, s, o.inf, pn1, qn1, mHolo, mQuats);
    Real chg = maxAbsDiff(s.getQ(), q0), chgP = 0;
    for (int i = 0; i < s.getNQ(); ++i) if (!isFree[i]) { Real d = std::abs(s.getQ()[i] - q0[i]); if (!(d <= chgP)) chgP = d; }
    Real quatDev = 0;   // |q| - 1 of every quaternion whose mobilizer is not prescribed (the implementation's own qerr entries)
    for (int i = 0; i < mQuats; ++i) { Real d = std::abs(s.getQErr()[mHolo + i]); if (!(d <= quatDev)) quatDev = d; }
    std::printf("POST %a %a %a %a %a %a\n", pn1, qn1, chg, chgP, maxAbsDiff(s.getU(), u0), quatDev);
}
static void callU(ConSystem& cs, State& s, const Opt& o, const Vector& errEst0) {
    const SimbodyMatterSubsystem& m = cs.matter;
    Real pn = normU(s, o.inf);
    const Array_<UIndex>& freeU = m.getFreeUIndex(s);
    std::vector<bool> isFree(s.getNU(), false); for (unsigned i = 0; i < freeU.size(); ++i) isFree[freeU[i]] = true;
    Vector q0 = s.getQ(), u0 = s.getU(); Vector est = errEst0;
    std::printf("CALL U %a %a %a %d %d %d %d %d\n", o.acc, o.ov, o.lim, bitsOf(o), s.getNUErr(), 0, (int)freeU.size(), s.getNU());
    std::printf("ENTRY %a %a\n", pn, 0.0);
    g_trace.clear(); ProjectResults res; bool threw = false;
    try { cs.sys.projectU(s, est, mkOpts(o), res); } catch (const std::exception& e) { threw = true; }
    printTrace();
    cs.sys.realize(s, Stage::Velocity);
    std::printf("RES %s %d %d %d %a %a %d\n", stName(res.getExitStatus()), res.isValid() ? res.getNumIterations() : -1,
                res.isValid() ? (int)res.getAnyChangeMade() : -1, res.isValid() ? (int)res.getProjectionLimitExceeded() : -1,
                res.isValid() ? res.getNormOnEntrance() : NaN, res.isValid() ? res.getNormOnExit() : NaN, (int)threw);
    Real pn1 = normU(s, o.inf);
    Real chg = maxAbsDiff(s.getU(), u0), chgP = 0;
    for (int i = 0; i < s.getNU(); ++i) if (!isFree[i]) { Real d = std::abs(s.getU()[i] - u0[i]); if (!(d <= chgP)) chgP = d; }
    std::printf("POST %a %a %a %a %a %a\n", pn1, 0.0, chg, chgP, maxAbsDiff(s.getQ(), q0), 0.0);
}

// the state part of ConSystem::finish with the coordinate mode chosen by the caller
static void finishState(ConSystem& cs, Rng& r, bool euler, Real qscale = 0.6) {
    cs.euler = euler; cs.state = cs.sys.realizeTopology(); cs.matter.setUseEulerAngles(cs.state, euler); cs.sys.realizeModel(cs.state);
    State& st = cs.state;
    for (int i = 0; i < st.getNQ(); ++i) st.updQ()[i] = r.U(0.1, qscale) * (r.I(0, 1) ? 1 : -1);
    if (!euler) for (MobilizedBodyIndex b(1); b < cs.matter.getNumBodies(); ++b) {
        const MobilizedBody& mb = cs.matter.getMobilizedBody(b);
        if (cs.matter.isUsingQuaternion(st, b)) { int q0 = mb.getFirstQIndex(st); Real n = 0;
            for (int i = 0; i < 4; ++i) n += square(st.getQ()[q0 + i]); n = std::sqrt(n); for (int i = 0; i < 4; ++i) st.updQ()[q0 + i] /= n; }
    }
    for (int i = 0; i < st.getNU(); ++i) st.updU()[i] = r.U(-1, 1);
}
static void randomWeights(ConSystem& cs, State& s, Rng& r) {
    cs.sys.realize(s, Stage::Instance);
    for (int i = 0; i < s.getNU(); ++i) s.updUWeights()[i] = std::pow(10.0, r.U(-1, 1));
    for (int i = 0; i < s.getNQErr(); ++i) s.updQErrWeights()[i] = std::pow(10.0, r.U(-1, 1));
    for (int i = 0; i < s.getNUErr(); ++i) s.updUErrWeights()[i] = std::pow(10.0, r.U(-1, 1));
}
static void toPosition(ConSystem& cs, State& s) { cs.sys.realize(s, Stage::Time); cs.sys.prescribeQ(s); cs.sys.realize(s, Stage::Position); }
static void toVelocity(ConSystem& cs, State& s) { cs.sys.prescribeU(s); cs.sys.realize(s, Stage::Velocity); }
static bool assemble(ConSystem& cs, State& s) {
    ProjectOptions po(1e-10); po.setOption(ProjectOptions::DontThrow); ProjectResults pr; Vector none; bool ok = true;
    toPosition(cs, s); cs.sys.projectQ(s, none, po, pr); ok = ok && pr.getExitStatus() == ProjectResults::Succeeded;
    toVelocity(cs, s); cs.sys.projectU(s, none, po, pr); ok = ok && pr.getExitStatus() == ProjectResults::Succeeded;
    return ok;
}
static int rowsOf(int kind) { static const int R[] = {1, 3, 6, 1, 2, 1, 3, 1, 1, 1, 1, 1, 1}; return R[kind]; }

// ------------------------------------------------------------------------------------------------ gen
static void genCase(int k, unsigned long long seed) {
    Rng r(seed);
    ConSystem cs; bool rich = r.I(0, 2) != 0; cs.buildTree(r, rich);
    bool euler = r.I(0, 2) == 0;
    std::string descr;
    // constraints: distinct body pairs, at most 7 rows
    int ncons = r.I(1, 3), rows = 0; std::vector<int> usedPairs;
    for (int i = 0; i < ncons; ++i) {
        int kind = r.I(0, K_NKINDS - 1); if (kind == K_CACC) kind = K_CSPEED; int pair = r.I(0, 7);
        if (kind <= K_NOSLIP) { int a, b; ConSystem::pairOf(pair, a, b); int key = std::min(a, b) * 8 + std::max(a, b); bool clash = false;
            for (size_t j = 0; j < usedPairs.size(); ++j) if (usedPairs[j] == key) clash = true;
            if (clash || rows + rowsOf(kind) > 7) continue; usedPairs.push_back(key); cs.addBodyConstraint(r, kind, pair); }
        else cs.addMobilityConstraint(r, kind);
        rows += rowsOf(kind); descr += std::string(" ") + CKNAMES[kind];
    }
    // prescribed motion on one mobilizer: 0 none, 1 Steady (u known), 2 Sinusoid at Position level (q, u known; not on a quaternion)
    int mot = r.I(0, 3); int mb = r.I(1, 4);
    if (mot == 1) { Motion::Steady(cs.mob(mb), r.U(-1, 1)); descr += " +Steady"; }
    else if (mot == 2 && (euler || (cs.types[mb - 1] != 8 && cs.types[mb - 1] != 9))) { Motion::Sinusoid(cs.mob(mb), Motion::Position, r.U(0.1, 0.5), r.U(0.5, 2), r.U(0, 1)); descr += " +Sinusoid"; }
    finishState(cs, r, euler);
    State s = cs.state; s.setTime(r.U(0, 1));
    bool wts = r.I(0, 1) == 1; if (wts) randomWeights(cs, s, r);
    bool assembled = assemble(cs, s);
    int pk = r.I(0, 9); Real mag = pk == 0 ? 0.0 : (pk == 1 ? 1e-12 : std::pow(10.0, r.U(-6, -1)));
    for (int i = 0; i < s.getNQ(); ++i) s.updQ()[i] += mag * r.U(-1, 1);
    for (int i = 0; i < s.getNU(); ++i) s.updU()[i] += mag * r.U(-1, 1);
    // does a ConstantCoordinate / CoordinateCoupler name a quaternion component (a q that normalizeQuaternions rescales)?
    int qcc = 0;
    for (size_t i = 0; i < cs.cons.size(); ++i) if (cs.cons[i].kind == K_CCOORD || cs.cons[i].kind == K_CCPL)
        for (size_t j = 0; j < cs.cons[i].coords.size(); ++j)
            if (cs.matter.isUsingQuaternion(s, MobilizedBodyIndex(cs.cons[i].coords[j].first)) && cs.cons[i].coords[j].second < 4) qcc = 1;
    std::printf("CASE %d gen seed %llu types %s %s %s %s %s assembled %d weights %d qcc %d perturb %a cons%s\n", k, seed, MOBTYPES[cs.types[0]], MOBTYPES[cs.types[1]],
                MOBTYPES[cs.types[2]], MOBTYPES[cs.types[3]], euler ? "euler" : "quat", (int)assembled, (int)wts, qcc, mag, descr.c_str());
    Opt oq = randOpt(r), ou = randOpt(r);
    Vector estQ, estU; if (r.I(0, 3) == 0) { estQ.resize(s.getNQ()); for (int i = 0; i < s.getNQ(); ++i) estQ[i] = 1e-3 * r.U(-1, 1); }
    if (r.I(0, 3) == 0) { estU.resize(s.getNU()); for (int i = 0; i < s.getNU(); ++i) estU[i] = 1e-3 * r.U(-1, 1); }
    toPosition(cs, s); callQ(cs, s, oq, estQ);
    toVelocity(cs, s); callU(cs, s, ou, estU);
    std::printf("END\n");
}

// ------------------------------------------------------------------------------------------------ lin
static void linCase(int k, unsigned long long seed) {
    Rng r(seed);
    ConSystem cs;
    static const int linT[] = {0, 1, 2, 3, 4, 5, 10, 11};      // Pin Slider Universal Cylinder BendStretch Planar Translation Screw: qdot = u
    int par[4] = {0, 1, 0, 2};
    for (int i = 0; i < 4; ++i) { int ty = linT[r.I(0, 7)]; Body::Rigid body(randomMassProps(r)); addMobod(ty, cs.mob(par[i]), r.xf(), body, r.xf(), false); cs.types.push_back(ty); }
    static const int kinds[] = {K_CCOORD, K_CCPL, K_CSPEED, K_SCPL}; int kind = kinds[r.I(0, 3)];
    ConDesc d = cs.addMobilityConstraint(r, kind);
    int mot = r.I(0, 2); int mb = r.I(1, 4);
    if (mot == 1) Motion::Sinusoid(cs.mob(mb), Motion::Position, r.U(0.1, 0.5), r.U(0.5, 2), r.U(0, 1));
    finishState(cs, r, false, 1.0);
    State s = cs.state; s.setTime(r.U(0, 1));
    randomWeights(cs, s, r);
    const SimbodyMatterSubsystem& m = cs.matter; const int nq = s.getNQ(), nu = s.getNU();
    // the constraint row from the constraint's own parameters (not from the implementation's Jacobian)
    std::vector<Real> rowQ(nq, 0.0), rowU(nu, 0.0);
    if (kind == K_CCOORD) { rowQ[(int)cs.mob(d.coords[0].first).getFirstQIndex(s) + d.coords[0].second] = 1; rowU[(int)cs.mob(d.coords[0].first).getFirstUIndex(s) + d.coords[0].second] = 1; }
    else if (kind == K_CCPL) for (size_t i = 0; i < d.coords.size(); ++i) { rowQ[(int)cs.mob(d.coords[i].first).getFirstQIndex(s) + d.coords[i].second] += d.par[i];
                                                                          rowU[(int)cs.mob(d.coords[i].first).getFirstUIndex(s) + d.coords[i].second] += d.par[i]; }
    else if (kind == K_CSPEED) rowU[(int)cs.mob(d.coords[0].first).getFirstUIndex(s) + d.coords[0].second] = 1;
    else for (int i = 0; i < d.nspeeds; ++i) rowU[(int)cs.mob(d.coords[i].first).getFirstUIndex(s) + d.coords[i].second] += d.par[i];
    std::printf("CASE %d lin seed %llu types %s %s %s %s kind %s motion %d\n", k, seed, MOBTYPES[cs.types[0]], MOBTYPES[cs.types[1]], MOBTYPES[cs.types[2]], MOBTYPES[cs.types[3]], CKNAMES[kind], mot);
    Opt o; o.acc = std::pow(10.0, r.U(-8, -3)); o.ov = 0.1; o.lim = Infinity; o.local = r.I(0, 1); o.dthrow = true; o.inf = r.I(0, 1); o.force = false; o.fullN = false;
    Vector none;
    toPosition(cs, s);
    if (s.getNQErr() == 1) {
        const Array_<QIndex>& fq = m.getFreeQIndex(s); std::vector<int> fr(nq, 0); for (unsigned i = 0; i < fq.size(); ++i) fr[fq[i]] = 1;
        Vector q0 = s.getQ(); Real e = s.getQErr()[0];
        std::printf("LIN Q %d", nq); for (int i = 0; i < nq; ++i) std::printf(" %d", fr[i]); for (int i = 0; i < nq; ++i) std::printf(" %a", rowQ[i]);
        for (int i = 0; i < nq; ++i) std::printf(" %a", s.getUWeights()[i]); for (int i = 0; i < nq; ++i) std::printf(" %a", 0.0); std::printf(" %a\n", e);
        callQ(cs, s, o, none);
        std::printf("DELTA"); for (int i = 0; i < nq; ++i) std::printf(" %a", q0[i] - s.getQ()[i]); std::printf("\n");
    }
    toVelocity(cs, s);
    if (s.getNUErr() == 1) {
        const Array_<UIndex>& fu = m.getFreeUIndex(s); std::vector<int> fr(nu, 0); for (unsigned i = 0; i < fu.size(); ++i) fr[fu[i]] = 1;
        Vector u0 = s.getU(); Real e = s.getUErr()[0];
        std::printf("LIN U %d", nu); for (int i = 0; i < nu; ++i) std::printf(" %d", fr[i]); for (int i = 0; i < nu; ++i) std::printf(" %a", rowU[i]);
        for (int i = 0; i < nu; ++i) std::printf(" %a", s.getUWeights()[i]); for (int i = 0; i < nu; ++i) std::printf(" %a", u0[i]); std::printf(" %a\n", e);
        callU(cs, s, o, none);
        std::printf("DELTA"); for (int i = 0; i < nu; ++i) std::printf(" %a", u0[i] - s.getU()[i]); std::printf("\n");
    }
    std::printf("END\n");
}

// ------------------------------------------------------------------------------------------------ spec
static Opt defOpt(Real acc, bool dthrow = true) { Opt o; o.acc = acc; o.ov = 0.1; o.lim = Infinity; o.local = false; o.dthrow = dthrow; o.inf = false; o.force = false; o.fullN = false; return o; }
static void specCase(int k, unsigned long long seed) {
    Rng r(seed); int what = k % 9; Vector none;
    ConSystem cs; Body::Rigid body(randomMassProps(r));
    std::printf("CASE %d spec seed %llu what %d qcc %d\n", k, seed, what, what == 8 ? 1 : 0);
    if (what <= 2) {
        // two ConstantCoordinate / ConstantSpeed constraints on the same coordinate with different values: inconsistent, the least
        // squares iteration stalls at a non-zero norm (iteration limit without LocalOnly; stall or "divergence" by rounding with it)
        MobilizedBody::Pin p1(cs.matter.Ground(), r.xf(), body, r.xf()); MobilizedBody::Slider p2(p1, r.xf(), body, r.xf());
        Constraint::ConstantCoordinate(p1, MobilizerQIndex(0), 0.3); Constraint::ConstantCoordinate(p1, MobilizerQIndex(0), 0.5);
        Constraint::ConstantSpeed(p2, MobilizerUIndex(0), 0.1); Constraint::ConstantSpeed(p2, MobilizerUIndex(0), -0.2);
        cs.types.push_back(0); cs.types.push_back(1);
        finishState(cs, r, false); State s = cs.state;
        Opt o = defOpt(1e-4, what != 1); o.local = (what == 2); o.inf = (what == 1);
        toPosition(cs, s); callQ(cs, s, o, none); toVelocity(cs, s); callU(cs, s, o, none);
        // and started from the least-squares point: the iteration cannot improve, so the state is restored ("made it worse" uses >=)
        o.dthrow = true; toPosition(cs, s); callQ(cs, s, o, none); toVelocity(cs, s); callU(cs, s, o, none);
        // boundary of the success test: the iteration stalls at a norm that is 1.05 .. 1.9 times the accuracy (must fail, improved
        // but not good enough) resp. the accuracy is 1.05 .. 1.9 times the stall norm (must succeed after using all iterations)
        for (int pass = 0; pass < 2; ++pass) {
            Real pn, qn; int mh, mq; toPosition(cs, s); normsQ(cs.matter, s, o.inf, pn, qn, mh, mq);
            Opt ob = o; ob.local = false; ob.acc = pass == 0 ? pn / r.U(1.05, 1.9) : pn * r.U(1.05, 1.9); ob.ov = 0.1;
            State t = s; t.updQ()[0] += 0.1; t.updQ()[1] -= 0.2; toPosition(cs, t); callQ(cs, t, ob, none);
            toVelocity(cs, s); Real un = normU(s, o.inf);
            ob.acc = pass == 0 ? un / r.U(1.05, 1.9) : un * r.U(1.05, 1.9);
            State t2 = s; t2.updU()[0] += 0.1; t2.updU()[1] -= 0.2; toPosition(cs, t2); toVelocity(cs, t2); callU(cs, t2, ob, none);
        }
    } else if (what == 8) {
        // KNOWN FINDING witness: a ConstantCoordinate on a quaternion component of a Free body.  The Newton part drives the
        // constraint error to ~1e-16 moving the quaternion tangentially (|q| grows), then normalizeQuaternions rescales the
        // constrained component and nobody looks again: Succeeded, while the returned state violates the constraint.
        MobilizedBody::Free f(cs.matter.Ground(), r.xf(), body, r.xf()); cs.types.push_back(9);
        Constraint::ConstantCoordinate(f, MobilizerQIndex(1), 0.3);
        finishState(cs, r, false); State s = cs.state;
        Opt o = defOpt(1e-6);
        toPosition(cs, s); callQ(cs, s, o, none); toVelocity(cs, s); callU(cs, s, o, none);
    } else if (what == 3) {
        // projection limit below the entry norm
        MobilizedBody::Free f(cs.matter.Ground(), r.xf(), body, r.xf()); Constraint::Rod(cs.matter.Ground(), r.v3(0.3), f, r.v3(0.3), 2.5);
        Constraint::ConstantSpeed(f, MobilizerUIndex(1), 0.4); cs.types.push_back(9);
        finishState(cs, r, false); State s = cs.state;
        Opt o = defOpt(1e-5, r.I(0, 1)); o.lim = 1e-3;
        toPosition(cs, s); callQ(cs, s, o, none); toVelocity(cs, s); callU(cs, s, o, none);
        o.lim = Infinity; toPosition(cs, s); callQ(cs, s, o, none); toVelocity(cs, s); callU(cs, s, o, none);
    } else if (what == 4 || what == 5) {
        // a Ball whose quaternion is prescribed by a Sinusoid (all four q equal a sin(wt+p): never a unit quaternion): the
        // quaternion error cannot be removed; with (5) or without (4) a position constraint that needs the Newton part
        MobilizedBody::Ball b(cs.matter.Ground(), r.xf(), body, r.xf()); MobilizedBody::Free f(b, r.xf(), body, r.xf());
        Motion::Sinusoid(b, Motion::Position, 0.3, 1.0, 0.5);
        if (what == 5) Constraint::Rod(cs.matter.Ground(), r.v3(0.3), f, r.v3(0.3), 1.5);
        cs.types.push_back(8); cs.types.push_back(9);
        finishState(cs, r, false); State s = cs.state; s.setTime(0.2);
        for (int i = 0; i < s.getNQ(); ++i) s.updQ()[i] += 0.05 * r.U(-1, 1);
        Opt o = defOpt(1e-6, k % 18 < 9);
        toPosition(cs, s); callQ(cs, s, o, none); toVelocity(cs, s); callU(cs, s, o, none);
        o.force = true; o.dthrow = true; toPosition(cs, s); callQ(cs, s, o, none);
    } else if (what == 6) {
        // no constraints at all, unnormalised quaternion, forced and not forced
        MobilizedBody::Free f(cs.matter.Ground(), r.xf(), body, r.xf()); MobilizedBody::Pin p(f, r.xf(), body, r.xf()); cs.types.push_back(9); cs.types.push_back(0);
        finishState(cs, r, r.I(0, 1)); State s = cs.state;
        for (int i = 0; i < s.getNQ(); ++i) s.updQ()[i] += 0.05 * r.U(-1, 1);
        Opt o = defOpt(1e-6); o.force = r.I(0, 1);
        toPosition(cs, s); callQ(cs, s, o, none); toVelocity(cs, s); callU(cs, s, o, none);
        o.force = !o.force; toPosition(cs, s); callQ(cs, s, o, none); toVelocity(cs, s); callU(cs, s, o, none);
    } else {
        // a NaN coordinate on entry (not a valid state; recorded as an observation of what the comparisons do with NaN)
        MobilizedBody::Pin p1(cs.matter.Ground(), r.xf(), body, r.xf()); MobilizedBody::Pin p2(p1, r.xf(), body, r.xf());
        Constraint::Rod(cs.matter.Ground(), r.v3(0.3), p2, r.v3(0.3), 0.9); cs.types.push_back(0); cs.types.push_back(0);
        finishState(cs, r, false); State s = cs.state; s.updQ()[0] = NaN; s.updU()[1] = NaN;
        Opt o = defOpt(1e-6);
        toPosition(cs, s); callQ(cs, s, o, none); toVelocity(cs, s); callU(cs, s, o, none);
    }
    std::printf("END\n");
}

int main(int argc, char** argv) {
    unsigned long long seed = std::strtoull(argv[1], 0, 10); int n = std::atoi(argv[2]); std::string mode = argc > 3 ? argv[3] : "gen";
    int only = argc > 4 ? std::atoi(argv[4]) : -1;
#ifdef SIMBODY_VERIF
    SimTK::VerifTrace::sink().store(&traceSink);
#endif
    std::printf("CONST sig %a hooks %d\n", (double)SignificantReal,
#ifdef SIMBODY_VERIF
                1
#else
                0
#endif
                );
    Rng top(seed ^ (mode == "gen" ? 0x9e37 : mode == "lin" ? 0x79b9 : 0x7f4a));
    for (int k = 0; k < n; ++k) {
        unsigned long long cseed = top.g();
        if (only >= 0 && k != only) continue;
        try { if (mode == "gen") genCase(k, cseed); else if (mode == "lin") linCase(k, cseed); else specCase(k, cseed); }
        catch (const std::exception& e) { std::string w = e.what(); for (size_t i = 0; i < w.size(); ++i) if (w[i] == '\n') w[i] = ' '; std::printf("SKIP %d %.200s\nEND\n", k, w.c_str()); }
        std::fflush(stdout);
    }
    std::printf("DONE %d\n", n);
    return 0;
}
