// C10 harness: prescribed motion and locks.
// stdin commands:
//   SYS <seed> <kind> <cons>      random 4-body tree (Pin, Gimbal, Slider, Pin); kind: 0 Sinusoid@Position on b3, 1 Sinusoid@Velocity on b4,
//                                 2 Sinusoid@Acceleration on b3, 3 Steady on b4, 4 lockAt(Position) b3, 5 lock(Velocity) b4, 6 lockAt(Acceleration) b3,
//                                 7 Sinusoid@Position on b3 AND lockAt(Velocity) on b3 (lock overrides the Motion); cons: 1 = add a Rod constraint
//      prints  PM seed kind level a w p t  q u udot  qerrmax uerrmax udoterrmax  certerr certerr_wrong_sign  freeerr
//        (q u udot of the prescribed mobilizer after prescribe + realize(Acceleration); calcMotionErrors maxima; certificate: the same
//         system without prescription under the ordinary forces minus the reported motion forces reproduces udot; after unlock / disable:
//         accelerations equal those of the same State with nothing prescribed)
//   MB <seed> <mobtype> <mkind> <euler>   Motion on a Ball / Free / Gimbal / Bushing / Ellipsoid (see runMB)
//   LOCK <id> then op lines, END   lock state machine on a Pin (body 1) of a 2-body chain; ops:
//        LK lev | LA lev x | UL | Q x | U x | ME b | PR t | RS (take a new default State)     (values x: doubles)
//      header: LOCK <id> <lockByDefault level or -1> <default angle>; the status of the default State is printed first
//      after each op prints  L <level> <lockvalue or -> <q> <u> <udot prescribed or ->   with %a doubles
#include "Simbody.h"
#include <cstdio>
#include <string>
#include <sstream>
#include <iostream>
#include <cmath>
using namespace SimTK;

static double maxabs(const Vector& v) { double m = 0; for (int i = 0; i < v.size(); ++i) m = std::max(m, std::abs(v[i])); return m; }

static void runSys(int seed, int kind, int cons) {
    Random::Uniform rnd(-1, 1); rnd.setSeed(seed);
    auto rv = [&] { return Vec3(rnd.getValue(), rnd.getValue(), rnd.getValue()); };
    auto rx = [&] { return Transform(Rotation(BodyRotationSequence, rnd.getValue(), XAxis, rnd.getValue(), YAxis, rnd.getValue(), ZAxis), rv()); };
    MultibodySystem sys; SimbodyMatterSubsystem matter(sys); GeneralForceSubsystem forces(sys);
    Force::UniformGravity(forces, matter, Vec3(0.3, -9.8, 1));
    Body::Rigid body(MassProperties(1.3, Vec3(0.1, 0.2, -0.15), Inertia(Vec3(0.1, 0.2, -0.15), 1.3) + Inertia(0.5, 0.6, 0.7, 0.01, 0.02, -0.03)));
    MobilizedBody::Pin b1(matter.Ground(), rx(), body, rx());
    MobilizedBody::Gimbal b2(b1, rx(), body, rx());
    MobilizedBody::Slider b3(b2, rx(), body, rx());
    MobilizedBody::Pin b4(b1, rx(), body, rx());
    Force::MobilityLinearSpring(forces, b3, MobilizerQIndex(0), 3.0, 0.1);
    Force::MobilityLinearDamper(forces, b4, MobilizerUIndex(0), 0.7);
    const Real A = 0.2 + 0.3 * std::abs(rnd.getValue()), w = 0.5 + 2 * std::abs(rnd.getValue()), ph = rnd.getValue(), t = 0.1 + 2 * std::abs(rnd.getValue());
    const Real rate = rnd.getValue(), lockv = 0.4 * rnd.getValue();
    int level = -1;
    if (kind == 0 || kind == 7) { Motion::Sinusoid(b3, Motion::Position, A, w, ph); level = 2; }
    if (kind == 1) { Motion::Sinusoid(b4, Motion::Velocity, A, w, ph); level = 1; }
    if (kind == 2) { Motion::Sinusoid(b3, Motion::Acceleration, A, w, ph); level = 0; }
    if (kind == 3) { Motion::Steady(b4, rate); level = 1; }
    if (kind == 8) { Motion::Sinusoid(b4, Motion::Velocity, A, w, ph); level = 1; }      // + a 3-dof Gimbal locked at Velocity (below)
    if (kind == 9) { b3.lockByDefault(Motion::Position); b1.lockByDefault(Motion::Acceleration); level = 2; }   // locks by default
    if (cons) Constraint::Rod(b3, rv(), b4, rv(), 1.1);
    State s = sys.realizeTopology(); sys.realizeModel(s);
    for (int i = 0; i < s.getNQ(); ++i) s.updQ()[i] = 0.4 * rnd.getValue() + 0.2;
    for (int i = 0; i < s.getNU(); ++i) s.updU()[i] = rnd.getValue();
    if (kind == 4) { b3.lockAt(s, lockv, Motion::Position); level = 2; }
    if (kind == 5) { b4.lock(s, Motion::Velocity); level = 1; }
    if (kind == 6) { b3.lockAt(s, lockv, Motion::Acceleration); level = 0; }
    if (kind == 7) { b3.lockAt(s, lockv, Motion::Velocity); level = 1; }
    if (kind == 8) { b2.lock(s, Motion::Velocity); }
    const Real u4before = b4.getOneU(s, 0);
    s.setTime(t);
    sys.realize(s, Stage::Time); sys.prescribe(s);
    sys.realize(s, Stage::Acceleration);
    const MobilizedBody& pb = (kind == 1 || kind == 3 || kind == 5 || kind == 8) ? (const MobilizedBody&)b4 : (const MobilizedBody&)b3;
    const Real q = pb.getOneQ(s, 0), u = pb.getOneU(s, 0), ud = pb.getOneUDot(s, 0);
    const Real e0 = maxabs(matter.calcMotionErrors(s, Stage::Position)), e1 = maxabs(matter.calcMotionErrors(s, Stage::Velocity)),
               e2 = maxabs(matter.calcMotionErrors(s, Stage::Acceleration));
    // certificate: the same system WITHOUT prescription (motions disabled, locks released; constraints kept) under f - tau
    Vector tau; matter.findMotionForces(s, tau);
    State f = s;
    for (MobilizedBodyIndex b(1); b < matter.getNumBodies(); ++b) { const MobilizedBody& mb = matter.getMobilizedBody(b); if (mb.hasMotion()) mb.getMotion().disable(f); mb.unlock(f); }
    sys.realize(f, Stage::Dynamics);
    Vector udotFree; Vector_<SpatialVec> A_GB;
    { Vector mobF = sys.getMobilityForces(f, Stage::Dynamics) - tau; matter.calcAcceleration(f, mobF, sys.getRigidBodyForces(f, Stage::Dynamics), udotFree, A_GB); }
    const Real cert = (udotFree - s.getUDot()).norm() / (1 + s.getUDot().norm());
    Vector udotWrong; { Vector mobF = sys.getMobilityForces(f, Stage::Dynamics) + tau; matter.calcAcceleration(f, mobF, sys.getRigidBodyForces(f, Stage::Dynamics), udotWrong, A_GB); }
    const Real certWrong = (udotWrong - s.getUDot()).norm() / (1 + s.getUDot().norm());
    // unlocking / disabling restores free behaviour: accelerations of f equal those of a fresh State of the same system with
    // nothing prescribed and the same t, q, u
    sys.realize(f, Stage::Acceleration);
    State g = sys.getDefaultState();
    for (MobilizedBodyIndex b(1); b < matter.getNumBodies(); ++b) { const MobilizedBody& mb = matter.getMobilizedBody(b); if (mb.hasMotion()) mb.getMotion().disable(g); mb.unlock(g); }
    g.setTime(f.getTime()); g.updQ() = f.getQ(); g.updU() = f.getU(); sys.realize(g, Stage::Acceleration);
    const Real freeerr = (g.getUDot() - f.getUDot()).norm() / (1 + g.getUDot().norm());
    const Real p1 = (kind == 3) ? rate : (kind == 8) ? A : (kind == 9) ? 0.0 : (kind >= 4 && kind != 7) ? (kind == 5 ? u4before : lockv) : (kind == 7 ? lockv : A);
    printf("PM %d %d %d %a %a %a %a %a %a %a %.3g %.3g %.3g %.3g %.3g %.3g nq=%d ntau=%d\n", seed, kind, level, p1, w, ph, t, q, u, ud, e0, e1, e2, cert, certWrong, freeerr,
           s.getNQ(), tau.size());
    // ---- multipliers (packed), motion forces (u-space), motion power, and the power balance
    const Vector& mult = matter.getMotionMultipliers(s);
    printf("MP %d %d |", seed, kind);
    for (MobilizedBodyIndex b(1); b < matter.getNumBodies(); ++b) { const MobilizedBody& mb = matter.getMobilizedBody(b);
        printf(" %d %d", mb.getNumU(s), mb.getUDotMotionMethod(s) == Motion::Free ? 1 : 0); }
    printf(" |"); for (int i = 0; i < mult.size(); ++i) printf(" %a", mult[i]);
    printf(" |"); for (int i = 0; i < tau.size(); ++i) printf(" %a", tau[i]);
    printf(" |"); for (int i = 0; i < s.getNU(); ++i) printf(" %a", s.getU()[i]);
    const Real pmot = matter.calcMotionPower(s), pcons = matter.calcConstraintPower(s);
    Real papp = ~sys.getMobilityForces(s, Stage::Dynamics) * s.getU();
    const Vector_<SpatialVec>& FB = sys.getRigidBodyForces(s, Stage::Dynamics);
    for (MobilizedBodyIndex b(1); b < matter.getNumBodies(); ++b) { const SpatialVec& V = matter.getMobilizedBody(b).getBodyVelocity(s); papp += ~FB[b][0] * V[0] + ~FB[b][1] * V[1]; }
    // d/dt KE by a central difference along the motion (q + h qdot + h^2/2 qdotdot, u + h udot)
    const Real h = 1e-4; Real ke[2];
    for (int k = 0; k < 2; ++k) { const Real hh = k ? h : -h; State z = s;
        z.updQ() = s.getQ() + hh * s.getQDot() + (hh * hh / 2) * s.getQDotDot(); z.updU() = s.getU() + hh * s.getUDot();
        sys.realize(z, Stage::Velocity); ke[k] = sys.calcKineticEnergy(z); }
    printf(" | %a %a %a %a\n", pmot, papp, pcons, (ke[1] - ke[0]) / (2 * h));
}

// Motion on a multi-coordinate mobilizer between two Pins: mobtype 0 Ball, 1 Free, 2 Gimbal, 3 Bushing, 4 Ellipsoid;
// mkind 0 Sinusoid@Position, 1 Sinusoid@Velocity, 2 Sinusoid@Acceleration, 3 Steady; euler = use Euler angles.
// prints  MB seed mobtype mkind euler A w p t nq nu | q.. | qdot.. | qdotdot.. | u.. | udot.. | motion error maxima
static void runMB(int seed, int mobtype, int mkind, int euler) {
    Random::Uniform rnd(-1, 1); rnd.setSeed(seed);
    auto rv = [&] { return Vec3(rnd.getValue(), rnd.getValue(), rnd.getValue()); };
    auto rx = [&] { return Transform(Rotation(BodyRotationSequence, rnd.getValue(), XAxis, rnd.getValue(), YAxis, rnd.getValue(), ZAxis), rv()); };
    MultibodySystem sys; SimbodyMatterSubsystem matter(sys); GeneralForceSubsystem forces(sys);
    Force::Gravity(forces, matter, Vec3(0.2, -9.8, 0.4));
    Body::Rigid body(MassProperties(2.0, Vec3(.1, -.2, .3), Inertia(Vec3(.1, -.2, .3), 2.0) + Inertia(1, 1.2, 1.4, 0.01, -0.02, 0.03)));
    MobilizedBody base = MobilizedBody::Pin(matter.Ground(), rx(), body, rx());
    MobilizedBody mob;
    switch (mobtype) {
    case 0: mob = MobilizedBody::Ball(base, rx(), body, rx()); break;
    case 1: mob = MobilizedBody::Free(base, rx(), body, rx()); break;
    case 2: mob = MobilizedBody::Gimbal(base, rx(), body, rx()); break;
    case 3: mob = MobilizedBody::Bushing(base, rx(), body, rx()); break;
    default: mob = MobilizedBody::Ellipsoid(base, rx(), body, rx(), Vec3(0.5, 0.7, 0.9)); break;
    }
    MobilizedBody tip = MobilizedBody::Pin(mob, rx(), body, rx());
    const Real A = 0.15 + 0.45 * std::abs(rnd.getValue()), w = 0.5 + 2 * std::abs(rnd.getValue()), ph = rnd.getValue(), t = 0.1 + 3 * std::abs(rnd.getValue());
    const Real rate = rnd.getValue();
    if (mkind == 0) Motion::Sinusoid(mob, Motion::Position, A, w, ph);
    if (mkind == 1) Motion::Sinusoid(mob, Motion::Velocity, A, w, ph);
    if (mkind == 2) Motion::Sinusoid(mob, Motion::Acceleration, A, w, ph);
    if (mkind == 3) Motion::Steady(mob, rate);
    State s = sys.realizeTopology(); matter.setUseEulerAngles(s, euler != 0); sys.realizeModel(s);
    for (int i = 0; i < s.getNQ(); ++i) s.updQ()[i] = 0.3 * rnd.getValue() + 0.1;
    if (!euler && (mob.getNumQ(s) == 4 || mob.getNumQ(s) == 7)) { // a proper (unnormalised is allowed, but keep it away from zero) quaternion for the mobilizer
        Vector qq = mob.getQAsVector(s); qq[0] = 0.9; qq[1] = 0.2; qq[2] = -0.3; qq[3] = 0.25; mob.setQFromVector(s, qq); }
    for (int i = 0; i < s.getNU(); ++i) s.updU()[i] = rnd.getValue();
    s.setTime(t);
    sys.realize(s, Stage::Time); sys.prescribeQ(s); sys.realize(s, Stage::Position); sys.prescribeU(s);
    sys.realize(s, Stage::Acceleration);
    const int nq = mob.getNumQ(s), nu = mob.getNumU(s);
    printf("MB %d %d %d %d %a %a %a %a %d %d |", seed, mobtype, mkind, euler, mkind == 3 ? rate : A, w, ph, t, nq, nu);
    for (int i = 0; i < nq; ++i) printf(" %a", mob.getOneQ(s, i)); printf(" |");
    for (int i = 0; i < nq; ++i) printf(" %a", mob.getOneQDot(s, i)); printf(" |");
    for (int i = 0; i < nq; ++i) printf(" %a", mob.getOneQDotDot(s, i)); printf(" |");
    for (int i = 0; i < nu; ++i) printf(" %a", mob.getOneU(s, i)); printf(" |");
    for (int i = 0; i < nu; ++i) printf(" %a", mob.getOneUDot(s, i)); printf(" |");
    printf(" %.3g %.3g %.3g\n", maxabs(matter.calcMotionErrors(s, Stage::Position)), maxabs(matter.calcMotionErrors(s, Stage::Velocity)),
           maxabs(matter.calcMotionErrors(s, Stage::Acceleration)));
}

static double num(const std::string& x) { return std::strtod(x.c_str(), nullptr); }

int main() {
    std::string line;
    while (std::getline(std::cin, line)) {
        std::istringstream in(line); std::string op; in >> op;
        if (op == "SYS") { int seed, kind, cons; in >> seed >> kind >> cons;
            try { runSys(seed, kind, cons); } catch (const std::exception& e) { std::string m = e.what(); for (char& c : m) if (c == '\n') c = ' '; printf("PMTHROW %d %d %s\n", seed, kind, m.substr(0, 200).c_str()); } }
        else if (op == "MB") { int seed, mt, mk, eu; in >> seed >> mt >> mk >> eu;
            try { runMB(seed, mt, mk, eu); } catch (const std::exception& e) { std::string m = e.what(); for (char& c : m) if (c == '\n') c = ' '; printf("MBTHROW %d %d %d %d %s\n", seed, mt, mk, eu, m.substr(0, 200).c_str()); } }
        else if (op == "LOCK") {
            std::string id; int deflev = -1; std::string q0s = "0"; in >> id >> deflev >> q0s; printf("LOCK %s\n", id.c_str());
            MultibodySystem sys; SimbodyMatterSubsystem matter(sys); GeneralForceSubsystem forces(sys);
            Body::Rigid body(MassProperties(1.0, Vec3(0.1, 0, 0), Inertia(1)));
            MobilizedBody::Pin b1(matter.Ground(), Transform(), body, Transform(Vec3(0, 1, 0)));
            MobilizedBody::Slider b2(b1, Transform(), body, Transform(Vec3(0, 1, 0)));
            Motion::Sinusoid mo(b1, Motion::Position, 0.5, 1.5, 0.25);
            b1.setDefaultAngle(num(q0s)); if (deflev >= 0) b1.lockByDefault(Motion::Level(deflev));
            State s = sys.realizeTopology(); sys.realizeModel(s); mo.disable(s);
            bool initial = true;
            while (initial || std::getline(std::cin, line)) {
                std::string o, a, b;
                if (initial) { o = "INIT"; initial = false; }      // status of the default State before any operation
                else { std::istringstream in2(line); in2 >> o; if (o == "END") { printf("END\n"); break; } in2 >> a >> b; }
                try {
                    if (o == "INIT") {}
                    else if (o == "RS") { s = sys.getDefaultState(); sys.realizeModel(s); mo.disable(s); }   // a new default State
                    else if (o == "LK") b1.lock(s, Motion::Level(atoi(a.c_str())));
                    else if (o == "LA") b1.lockAt(s, num(b), Motion::Level(atoi(a.c_str())));
                    else if (o == "UL") b1.unlock(s);
                    else if (o == "Q") b1.setOneQ(s, 0, num(a));
                    else if (o == "U") b1.setOneU(s, 0, num(a));
                    else if (o == "ME") { if (atoi(a.c_str())) mo.enable(s); else mo.disable(s); }
                    else if (o == "PR") { s.setTime(num(a)); sys.realize(s, Stage::Time); sys.prescribe(s); }
                    else { printf("BADOP %s\n", o.c_str()); continue; }
                    sys.realize(s, Stage::Dynamics);
                    const int lev = (int)b1.getLockLevel(s); const Vector lv = b1.getLockValueAsVector(s);
                    printf("L %d ", lev); if (lv.size()) printf("%a ", lv[0]); else printf("- ");
                    printf("%a %a ", b1.getOneQ(s, 0), b1.getOneU(s, 0));
                    // prescribed acceleration, if any (read back after realizing accelerations)
                    sys.realize(s, Stage::Acceleration);
                    if (b1.getUDotMotionMethod(s) != Motion::Free) printf("%a\n", b1.getOneUDot(s, 0)); else printf("-\n");
                } catch (const std::exception& e) { std::string m = e.what(); for (char& c : m) if (c == '\n') c = ' '; printf("THROW %s\n", m.substr(0, 200).c_str()); }
            }
        }
        fflush(stdout);
    }
    return 0;
}
