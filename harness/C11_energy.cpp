// C11 probe.   usage: C11_energy <seed> <ncases> <mode>     mode = state | traj
//
// state: random trees (all 17 catalogue mobilizers, forward/reversed, quaternion or Euler mode, Ground-attached or
//        free-floating base) with gravity, two-point springs and mobility springs, at random states.  Prints per body
//        (mass, mass-centre position and velocity in Ground, central inertia in Ground, angular velocity) and the
//        implementation's calcKineticEnergy, calcPotentialEnergy, calcEnergy, u.(M u)/2 (multiplyByM), calcSystemMass,
//        calcSystemMassCenterLocationInGround, calcSystemMomentumAboutGroundOrigin, calcSystemCentralMomentum, and the
//        potential energy summed from the force elements one by one.
// traj : MEASUREMENTS ONLY (no pass/fail): short simulations of (a) a conservative model (gravity + springs + a Rod
//        constraint), (b) a free-floating model with internal springs only, (c) model (a) plus a damped LinearBushing
//        (the only dissipation; it reports its dissipated energy), (d) model (a) plus two-point, mobility and global
//        dampers, with every error-controlled integrator at three accuracies:
//        energy drift / accuracy, momentum drift, largest energy increase between reports, energy + dissipated drift.
#include "mb_common.h"
#include <cmath>
#include <stdexcept>

static void buildTree(MultibodySystem& sys, SimbodyMatterSubsystem& matter, Rng& r, int nb, bool floating, std::vector<int>& types) {
    for (int i = 0; i < nb; ++i) {
        int p = r.I(0, i); int ty = r.I(0, NMOBTYPES - 1); bool rev = r.I(0, 3) == 0;
        if (i == 0 && floating) { ty = 9; rev = false; p = 0; }
        Body::Rigid body(randomMassProps(r));
        addMobod(ty, matter.updMobilizedBody(MobilizedBodyIndex(p)), r.xf(), body, r.xf(), rev); types.push_back(ty);
    }
}

static void stateCase(int k, unsigned long long seed) {
    Rng r(seed);
    MultibodySystem sys; SimbodyMatterSubsystem matter(sys); GeneralForceSubsystem forces(sys);
    std::vector<int> types; int nb = r.I(1, 6); bool floating = r.I(0, 1) == 1;
    buildTree(sys, matter, r, nb, floating, types);
    Force::UniformGravity grav(forces, matter, Vec3(r.U(-2, 2), -9.8, r.U(-2, 2)), r.U(-1, 1));
    int nsp = r.I(0, 3);
    for (int i = 0; i < nsp; ++i) { int a = r.I(0, nb), b = r.I(0, nb); if (a == b) continue;
        Force::TwoPointLinearSpring(forces, matter.updMobilizedBody(MobilizedBodyIndex(a)), r.v3(0.4), matter.updMobilizedBody(MobilizedBodyIndex(b)), r.v3(0.4), r.U(1, 50), r.U(0.2, 1.5)); }
    for (int b = 1; b <= nb; ++b) if (types[b - 1] != 16 && r.I(0, 2) == 0)
        Force::MobilityLinearSpring(forces, matter.updMobilizedBody(MobilizedBodyIndex(b)), MobilizerQIndex(0), r.U(1, 20), r.U(-0.5, 0.5));
    State s = sys.realizeTopology(); bool euler = r.I(0, 1) == 1; matter.setUseEulerAngles(s, euler); sys.realizeModel(s);
    for (int i = 0; i < s.getNQ(); ++i) s.updQ()[i] = r.U(0.1, 0.6) * (r.I(0, 1) ? 1 : -1);
    sys.realize(s, Stage::Position); sys.project(s, 1e-12);
    for (int i = 0; i < s.getNU(); ++i) s.updU()[i] = r.U(-1, 1);
    sys.realize(s, Stage::Dynamics);
    std::printf("CASE %d seed %llu nb %d floating %d %s types", k, seed, nb, (int)floating, euler ? "euler" : "quat");
    for (int i = 0; i < nb; ++i) std::printf(" %s", MOBTYPES[types[i]]); std::printf("\n");
    for (MobilizedBodyIndex b(1); b < matter.getNumBodies(); ++b) {
        const MobilizedBody& mb = matter.getMobilizedBody(b); const MassProperties& mp = mb.getBodyMassProperties(s);
        const Transform& X = mb.getBodyTransform(s); Mat33 R = X.R().asMat33();
        Vec3 c = X * mp.getMassCenter(); Vec3 v = mb.findStationVelocityInGround(s, mp.getMassCenter());
        Mat33 Ic = R * mp.calcCentralInertia().toMat33() * ~R; Vec3 w = mb.getBodyAngularVelocity(s);
        std::printf("BODY %a %a %a %a %a %a %a %a %a %a %a %a %a %a %a %a\n", mp.getMass(), c[0], c[1], c[2], v[0], v[1], v[2],
                    Ic(0, 0), Ic(1, 1), Ic(2, 2), Ic(0, 1), Ic(0, 2), Ic(1, 2), w[0], w[1], w[2]);
    }
    Vector Mu; matter.multiplyByM(s, s.getU(), Mu); Real uMu2 = 0.5 * (~s.getU() * Mu);
    Real pesum = 0; for (ForceIndex f(0); f < forces.getNumForces(); ++f) pesum += forces.getForce(f).calcPotentialEnergyContribution(s);
    SpatialVec P = matter.calcSystemMomentumAboutGroundOrigin(s), Pc = matter.calcSystemCentralMomentum(s); Vec3 com = matter.calcSystemMassCenterLocationInGround(s);
    std::printf("IMPL %a %a %a %a %a %a %a %a %a %a %a %a %a %a %a %a %a %a %a %a %a %a\n", sys.calcKineticEnergy(s), sys.calcPotentialEnergy(s), sys.calcEnergy(s), uMu2, pesum,
                matter.calcSystemMass(s), com[0], com[1], com[2], P[0][0], P[0][1], P[0][2], P[1][0], P[1][1], P[1][2], Pc[0][0], Pc[0][1], Pc[0][2], Pc[1][0], Pc[1][1], Pc[1][2], matter.calcKineticEnergy(s));
    std::printf("END\n");
}

// ------------------------------------------------------------------------------------------------ measurements
static Integrator* mkInteg(int which, const System& sys) {
    switch (which) {
    case 0: return new RungeKuttaMersonIntegrator(sys);
    case 1: return new RungeKutta3Integrator(sys);
    case 2: return new RungeKuttaFeldbergIntegrator(sys);
    case 3: return new VerletIntegrator(sys);
    case 4: return new RungeKutta2Integrator(sys);
    case 5: return new SemiExplicitEuler2Integrator(sys);
    default: return new CPodesIntegrator(sys);
    }
}
static const char* INAMES[] = {"RungeKuttaMerson", "RungeKutta3", "RungeKuttaFeldberg", "Verlet", "RungeKutta2", "SemiExplicitEuler2", "CPodes"};

static void trajCase(int k, unsigned long long seed) {
    for (int model = 0; model < 4; ++model) {
        for (int which = 0; which < 7; ++which) for (int ai = 0; ai < 3; ++ai) {
            Real acc = ai == 0 ? 1e-3 : (ai == 1 ? 1e-5 : 1e-7);
            Rng r(seed + 17 * model);
            MultibodySystem sys; SimbodyMatterSubsystem matter(sys); GeneralForceSubsystem forces(sys);
            Body::Rigid body(randomMassProps(r));
            bool floating = model == 1;
            MobilizedBody b1 = floating ? MobilizedBody(MobilizedBody::Free(matter.Ground(), r.xf(), body, r.xf())) : MobilizedBody(MobilizedBody::Ball(matter.Ground(), r.xf(), body, r.xf()));
            MobilizedBody::Pin b2(b1, r.xf(), body, r.xf()); MobilizedBody::Gimbal b3(b2, r.xf(), body, r.xf());
            MobilizedBody::Free b4(floating ? b1 : matter.Ground(), r.xf(), body, r.xf());
            if (!floating) { Force::UniformGravity(forces, matter, Vec3(0, -9.8, 0)); Constraint::Rod(b3, r.v3(0.3), b4, r.v3(0.3), 1.2); }
            Force::TwoPointLinearSpring(forces, b1, r.v3(0.3), b4, r.v3(0.3), 30, 0.8); Force::TwoPointLinearSpring(forces, b3, r.v3(0.3), b4, r.v3(0.3), 20, 0.5);
            Force::MobilityLinearSpring(forces, b2, MobilizerQIndex(0), 10, 0.2);
            Force::LinearBushing* bush = 0;
            if (model == 3) { Force::TwoPointLinearDamper(forces, b1, r.v3(0.3), b4, r.v3(0.3), 2.0); Force::MobilityLinearDamper(forces, b2, MobilizerUIndex(0), 0.5); Force::GlobalDamper(forces, matter, 0.1); }
            if (model == 2) { bush = new Force::LinearBushing(forces, b2, r.xf(0.3), b3, r.xf(0.3), Vec6(5, 5, 5, 40, 40, 40), Vec6(0.2, 0.2, 0.2, 1, 1, 1)); }
            State s = sys.realizeTopology(); sys.realizeModel(s);
            for (int i = 0; i < s.getNQ(); ++i) s.updQ()[i] = r.U(0.1, 0.5) * (r.I(0, 1) ? 1 : -1);
            for (int i = 0; i < s.getNU(); ++i) s.updU()[i] = r.U(-0.5, 0.5);
            try {
                sys.realize(s, Stage::Time); sys.project(s, 1e-10);
                Integrator* integ = mkInteg(which, sys); integ->setAccuracy(acc); integ->setConstraintTolerance(std::min(1e-6, acc / 10)); integ->setInternalStepLimit(4000);   // measurement budget per report interval
                integ->initialize(s); const State& s0 = integ->getState(); sys.realize(s0, Stage::Dynamics);
                Real E0 = sys.calcEnergy(s0), Escale = std::abs(sys.calcKineticEnergy(s0)) + std::abs(sys.calcPotentialEnergy(s0)) + 1e-3;
                SpatialVec P0 = matter.calcSystemMomentumAboutGroundOrigin(s0); Real Pscale = std::sqrt(P0[0].normSqr() + P0[1].normSqr()) + 1e-3;
                Real maxE = 0, maxP = 0, maxUp = 0, maxED = 0, prev = E0; int steps = 0;
                for (int i = 1; i <= 50; ++i) {
                    Integrator::SuccessfulStepStatus ss = integ->stepTo(i * 0.02); if (ss == Integrator::ReachedStepLimit) throw std::runtime_error("measurement budget (4000 internal steps per 0.02 s) exhausted");
                    const State& t = integ->getState(); sys.realize(t, Stage::Dynamics);
                    Real E = sys.calcEnergy(t); maxE = std::max(maxE, std::abs(E - E0)); maxUp = std::max(maxUp, E - prev); prev = E;
                    SpatialVec P = matter.calcSystemMomentumAboutGroundOrigin(t); maxP = std::max(maxP, std::sqrt((P[0] - P0[0]).normSqr() + (P[1] - P0[1]).normSqr()));
                    if (bush) maxED = std::max(maxED, std::abs(E + bush->getDissipatedEnergy(t) - E0));
                }
                steps = integ->getNumStepsTaken();
                std::printf("MEAS case %d model %s integrator %s accuracy %g steps %d energy_drift_rel %.3e energy_drift_over_accuracy %.3e momentum_drift_rel %.3e max_energy_increase_rel %.3e energy_plus_bushing_dissipated_drift_rel %.3e\n",
                            k, model == 0 ? "conservative" : (model == 1 ? "free-floating-internal" : (model == 2 ? "bushing-only-dissipation" : "dampers")), INAMES[which], acc, steps, maxE / Escale, maxE / Escale / acc, maxP / Pscale, maxUp / Escale, maxED / Escale);
                delete integ;
            } catch (const std::exception& e) { std::printf("MEAS case %d model %d integrator %s accuracy %g FAILED %.80s\n", k, model, INAMES[which], acc, e.what()); }
            delete bush;
        }
    }
}

int main(int argc, char** argv) {
    unsigned long long seed = std::strtoull(argv[1], 0, 10); int n = std::atoi(argv[2]); std::string mode = argc > 3 ? argv[3] : "state";
    Rng top(seed ^ 0xc11);
    for (int k = 0; k < n; ++k) {
        unsigned long long cs = top.g();
        try { if (mode == "state") stateCase(k, cs); else trajCase(k, cs); }
        catch (const std::exception& e) { std::printf("SKIP %d %.150s\nEND\n", k, e.what()); }
        std::fflush(stdout);
    }
    std::printf("DONE %d\n", n);
    return 0;
}
