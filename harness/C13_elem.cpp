// C13/C12/C38 probe: runs the real built-in force elements of Force.cpp, Force_Gravity.cpp,
// Force_LinearBushing.cpp through Force::calcForceContribution / calcPotentialEnergyContribution.
//
// stdin: one case per line:   <kind> <numbers...>      (numbers as %a or decimal)
// stdout: one line per case:  OK | <section> | <section> ...   (all numbers %a), or  !exception <what>
//
// System A (body elements): Ground + 3 Free bodies (1 on Ground, 2 on body 1, 3 on Ground), non-trivial
//   inboard/outboard frames.  Input prefix: for i=1..3: mass com(3) q(7) u(6)   (51 numbers).
//   Output sections:  nb nu | X_GB_i (R row-major 9, p 3) V_GB_i (w 3, v 3) for i=0..nb-1 | F_i (6) for all i
//                     | mobility forces (nu) | PE | u (nu) | particle-force count
// System B (mobility elements): Ground -> Pin -> Slider -> Cylinder -> Planar -> Translation (Cartesian); all
//   coordinates have qdot = u and equal q/u numbering, which is the documented domain of the Mobility* elements.
//   Input prefix: q(10) u(10).   Output sections: nb nu | q | u | qdot | uindex of the element's coordinate
//                     | mobility forces | sum of |body forces| | PE
#include "C13_systems.h"
// power delivered at s and central difference of the reported PE along the motion (q +- h qdot); used by C12
template<class SYS> static void fdSection(SYS& S, const State& s, const Force& F, const Vector_<SpatialVec>& bf, const Vector& mf) {
    Real P = ~mf * s.getU();
    for (int i=0;i<(int)S.b.size();++i) P += ~bf[i][0]*S.b[i].getBodyAngularVelocity(s) + ~bf[i][1]*S.b[i].getBodyOriginVelocity(s);
    const Real h = 1e-6; State sp=s, sm=s; sp.updQ() += h*s.getQDot(); sm.updQ() -= h*s.getQDot();
    S.sys.realize(sp, Stage::Dynamics); S.sys.realize(sm, Stage::Dynamics);
    const Real dPE = (F.calcPotentialEnergyContribution(sp) - F.calcPotentialEnergyContribution(sm)) / (2*h);
    pr(P); pr(dPE);
}

static void outA(SysA& S, const State& s, const Force& F) {
    S.sys.realize(s, Stage::Dynamics);
    Vector_<SpatialVec> bf; Vector_<Vec3> pf; Vector mf;
    F.calcForceContribution(s, bf, pf, mf);
    const Real pe = F.calcPotentialEnergyContribution(s);
    const int nb = S.matter.getNumBodies(), nu = s.getNU();
    std::printf("OK | "); pr((Real)nb); pr((Real)nu); bar();
    for (int i=0;i<nb;++i) { pr(S.b[i].getBodyTransform(s)); pr(S.b[i].getBodyVelocity(s)); } bar();
    for (int i=0;i<nb;++i) pr(bf[i]); bar();
    for (int i=0;i<nu;++i) pr(mf[i]); bar();
    pr(pe); bar();
    for (int i=0;i<nu;++i) pr(s.getU()[i]); bar();
    pr((Real)pf.size()); bar();
    fdSection(S, s, F, bf, mf);
    std::printf("\n");
}

static void outB(SysB& S, const State& s, const Force& F, int body, int which) {
    S.sys.realize(s, Stage::Dynamics);
    Vector_<SpatialVec> bf; Vector_<Vec3> pf; Vector mf;
    F.calcForceContribution(s, bf, pf, mf);
    const Real pe = F.calcPotentialEnergyContribution(s);
    const int nb = S.matter.getNumBodies(), nu = s.getNU();
    std::printf("OK | "); pr((Real)nb); pr((Real)nu); bar();
    for (int i=0;i<10;++i) pr(s.getQ()[i]); bar();
    for (int i=0;i<10;++i) pr(s.getU()[i]); bar();
    for (int i=0;i<10;++i) pr(s.getQDot()[i]); bar();
    pr((Real)(int(S.b[body].getFirstUIndex(s)) + which)); pr((Real)(int(S.b[body].getFirstQIndex(s)) + which)); bar();
    for (int i=0;i<nu;++i) pr(mf[i]); bar();
    Real sum=0; for (int i=0;i<nb;++i) sum += bf[i][0].norm() + bf[i][1].norm(); pr(sum); bar();
    pr(pe); bar();
    fdSection(S, s, F, bf, mf);
    std::printf("\n");
}

static int bodyIx(int hi) { int b=(int)nx(); if (b<0||b>hi) throw std::runtime_error("body index"); return b; }

static void one(const std::string& k) {
    if (k=="TPS"||k=="TPD"||k=="TPC") {
        SysA S; int b1=bodyIx(3), b2=bodyIx(3); Vec3 s1=nv3(), s2=nv3();
        Force F;
        if (k=="TPS") { Real kk=nx(), x0=nx(); F = Force::TwoPointLinearSpring(S.forces, S.b[b1], s1, S.b[b2], s2, kk, x0); }
        else if (k=="TPD") { Real c=nx(); F = Force::TwoPointLinearDamper(S.forces, S.b[b1], s1, S.b[b2], s2, c); }
        else { Real f=nx(); F = Force::TwoPointConstantForce(S.forces, S.b[b1], s1, S.b[b2], s2, f); }
        State s=S.init(); outA(S,s,F); return;
    }
    if (k=="CF") { SysA S; int b=bodyIx(3); Vec3 st=nv3(), f=nv3(); Force F=Force::ConstantForce(S.forces,S.b[b],st,f); State s=S.init(); outA(S,s,F); return; }
    if (k=="CT") { SysA S; int b=bodyIx(3); Vec3 t=nv3(); Force F=Force::ConstantTorque(S.forces,S.b[b],t); State s=S.init(); outA(S,s,F); return; }
    if (k=="GD") { SysA S; Real c=nx(); Force F=Force::GlobalDamper(S.forces,S.matter,c); State s=S.init(); outA(S,s,F); return; }
    if (k=="UG") { SysA S; Vec3 g=nv3(); Real z=nx(); Force F=Force::UniformGravity(S.forces,S.matter,g,z); State s=S.init(); outA(S,s,F); return; }
    if (k=="GR") { SysA S; Vec3 d=nv3(); Real g=nx(), z=nx(); bool ex[4]; ex[0]=true; for (int i=1;i<=3;++i) ex[i]=nx()!=0;
        Force::Gravity F(S.forces,S.matter,UnitVec3(d),g,z);
        for (int i=1;i<=3;++i) if (ex[i]) F.setDefaultBodyIsExcluded(S.b[i].getMobilizedBodyIndex(), true);
        State s=S.init(); outA(S,s,F); return; }
    if (k=="LB") { SysA S; int b1=bodyIx(3), b2=bodyIx(3); Transform X1=nxf(), X2=nxf(); Vec6 kk=nv6(), cc=nv6();
        Force::LinearBushing F(S.forces,S.b[b1],X1,S.b[b2],X2,kk,cc); State s=S.init();
        S.sys.realize(s, Stage::Dynamics);
        // frames as actually stored, and the element's own inferred coordinates (for the evidence only)
        std::printf("XF "); pr(F.getDefaultFrameOnBody1()); pr(F.getDefaultFrameOnBody2()); bar();
        pr(F.getQ(s)); pr(F.getQDot(s)); std::printf("; ");
        outA(S,s,F); return; }
    if (k=="MLS"||k=="MLD"||k=="MCF"||k=="MST") {
        SysB S; int b=bodyIx(5); int w=(int)nx(); Force F;
        if (k=="MLS") { Real kk=nx(), q0=nx(); F=Force::MobilityLinearSpring(S.forces,S.b[b],MobilizerQIndex(w),kk,q0); }
        else if (k=="MLD") { Real c=nx(); F=Force::MobilityLinearDamper(S.forces,S.b[b],MobilizerUIndex(w),c); }
        else if (k=="MCF") { Real f=nx(); F=Force::MobilityConstantForce(S.forces,S.b[b],MobilizerUIndex(w),f); }
        else { Real kk=nx(), d=nx(), lo=nx(), hi=nx(); F=Force::MobilityLinearStop(S.forces,S.b[b],MobilizerQIndex(w),kk,d,lo,hi); }
        State s=S.init(); outB(S,s,F,b,w); return;
    }
    if (k=="WIT") { // the Coq witnesses of C12's *_dissipation_sign_refuted theorems, on the real elements
        MultibodySystem sys; SimbodyMatterSubsystem matter(sys); GeneralForceSubsystem forces(sys);
        Body::Rigid body(MassProperties(1, Vec3(0), Inertia(1)));
        MobilizedBody::Free fb(matter.Ground(), Transform(), body, Transform());
        MobilizedBody::Slider sl(matter.Ground(), Transform(), body, Transform());
        Force::TwoPointConstantForce tpc(forces, matter.Ground(), Vec3(0), fb, Vec3(0), 1.0);
        Force::ConstantForce cf(forces, fb, Vec3(0), Vec3(1,0,0));
        Force::ConstantTorque ct(forces, fb, Vec3(1,0,0));
        Force::MobilityConstantForce mcf(forces, sl, MobilizerUIndex(0), 1.0);
        State s0 = sys.realizeTopology(); sys.realizeModel(s0);
        std::printf("OK | ");
        for (int w=0; w<4; ++w) {
            State s = s0;
            const Force& F = w==0 ? (const Force&)tpc : w==1 ? (const Force&)cf : w==2 ? (const Force&)ct : (const Force&)mcf;
            if (w==0) { fb.setQToFitTranslation(s, Vec3(1,0,0)); fb.setUToFitLinearVelocity(s, Vec3(1,0,0)); }
            if (w==1) { fb.setUToFitLinearVelocity(s, Vec3(1,0,0)); }
            if (w==2) { fb.setUToFitAngularVelocity(s, Vec3(1,0,0)); }
            if (w==3) { sl.setOneU(s, 0, 1.0); }
            sys.realize(s, Stage::Dynamics);
            Vector_<SpatialVec> bf; Vector_<Vec3> pf; Vector mf; F.calcForceContribution(s, bf, pf, mf);
            Real P = ~mf * s.getU();
            for (MobilizedBodyIndex b(0); b<matter.getNumBodies(); ++b)
                P += ~bf[b][0]*matter.getMobilizedBody(b).getBodyAngularVelocity(s) + ~bf[b][1]*matter.getMobilizedBody(b).getBodyOriginVelocity(s);
            State s2 = s; s2.updQ() += 0.1*s.getQDot(); sys.realize(s2, Stage::Dynamics);
            pr(P); pr(F.calcPotentialEnergyContribution(s)); pr(F.calcPotentialEnergyContribution(s2)); bar();
        }
        std::printf("\n"); return;
    }
    if (k=="WUG") { // C38 witness: unit mass whose mass centre is at height 3 (up = +y), |g| = 2, zero height 3
        MultibodySystem sys; SimbodyMatterSubsystem matter(sys); GeneralForceSubsystem forces(sys);
        Body::Rigid body(MassProperties(1, Vec3(0), Inertia(1)));
        MobilizedBody::Free fb(matter.Ground(), Transform(), body, Transform());
        Force::UniformGravity ug(forces, matter, Vec3(0,-2,0), 3.0);
        Force::Gravity gr(forces, matter, UnitVec3(0,-1,0), 2.0, 3.0);
        State s = sys.realizeTopology(); sys.realizeModel(s);
        fb.setQToFitTranslation(s, Vec3(0,3,0)); sys.realize(s, Stage::Dynamics);
        std::printf("OK | "); pr(ug.calcPotentialEnergyContribution(s)); pr(gr.calcPotentialEnergyContribution(s)); std::printf("\n"); return;
    }
    std::printf("?unknown %s\n", k.c_str());
}

int main() {
    std::string line;
    while (std::getline(std::cin, line)) {
        std::istringstream is(line); std::string k; is >> k; if (k.empty()) continue;
        A.clear(); ai=0; std::string t; while (is >> t) A.push_back(std::strtod(t.c_str(), 0));
        try { one(k); }
        catch (const std::exception& e) { std::string w=e.what(); for (auto& c : w) if (c=='\n') c=' '; std::printf("!exception %s\n", w.substr(0,300).c_str()); }
        std::fflush(stdout);
    }
    return 0;
}
