// Shared by C13_elem.cpp and C38_hist.cpp: input cursor, printing helpers, and the two test systems.
// System A (body elements): Ground + 3 Free bodies (1 on Ground, 2 on body 1, 3 on Ground), non-trivial frames.
// System B (mobility elements): Ground -> Pin -> Slider -> Cylinder -> Planar -> Translation; qdot = u everywhere.
#pragma once
#include "Simbody.h"
#include <cstdio>
#include <cstdlib>
#include <string>
#include <sstream>
#include <iostream>
#include <vector>
#include <memory>
using namespace SimTK;

static std::vector<double> A; static size_t ai;
static double nx() { if (ai >= A.size()) throw std::runtime_error("short input"); return A[ai++]; }
static Vec3 nv3() { Real a=nx(), b=nx(), c=nx(); return Vec3(a,b,c); }
static Vec6 nv6() { Vec6 v; for (int i=0;i<6;++i) v[i]=nx(); return v; }
static Transform nxf() { // body-fixed XYZ angles + translation
    Real a=nx(), b=nx(), c=nx(); Vec3 p=nv3();
    return Transform(Rotation(BodyRotationSequence, a,XAxis, b,YAxis, c,ZAxis), p);
}
static void pr(Real x) { std::printf("%a ", x); }
static void pr(const Vec3& v) { for (int i=0;i<3;++i) pr(v[i]); }
static void pr(const SpatialVec& v) { pr(v[0]); pr(v[1]); }
static void pr(const Vec6& v) { for (int i=0;i<6;++i) pr(v[i]); }
static void pr(const Transform& X) { for (int i=0;i<3;++i) for (int j=0;j<3;++j) pr(X.R()[i][j]); pr(X.p()); }
static void bar() { std::printf("| "); }

struct SysA {
    MultibodySystem sys; SimbodyMatterSubsystem matter; GeneralForceSubsystem forces;
    std::vector<MobilizedBody> b; Real mass[4]; Vec3 com[4];
    std::vector<double> q, u;
    SysA() : matter(sys), forces(sys) {
        b.push_back(matter.Ground()); mass[0]=0; com[0]=Vec3(0);
        const Transform XPF[3] = { Transform(Rotation(0.3, ZAxis), Vec3(0.1,-0.2,0.3)),
                                   Transform(Rotation(-0.7, XAxis), Vec3(-0.3,0.2,0.1)),
                                   Transform(Rotation(1.1, YAxis), Vec3(0.5,0.4,-0.6)) };
        const Transform XBM[3] = { Transform(Rotation(0.5, YAxis), Vec3(0.2,0.1,-0.1)),
                                   Transform(Rotation(0.2, ZAxis), Vec3(0,0.3,0.2)),
                                   Transform(Rotation(-0.4, XAxis), Vec3(-0.1,0,0.25)) };
        for (int i=1;i<=3;++i) {
            mass[i]=nx(); com[i]=nv3();
            for (int k=0;k<7;++k) q.push_back(nx());
            for (int k=0;k<6;++k) u.push_back(nx());
            Body::Rigid body(MassProperties(mass[i], com[i], Inertia(com[i], mass[i]) + mass[i]*Inertia(0.5,0.6,0.7, 0.01,0.02,-0.03)));
            MobilizedBody parent = (i==2) ? b[1] : b[0];
            b.push_back(MobilizedBody::Free(parent, XPF[i-1], body, XBM[i-1]));
        }
    }
    State init() {
        State s = sys.realizeTopology(); sys.realizeModel(s);
        for (int k=0;k<(int)q.size();++k) s.updQ()[k]=q[k];
        for (int k=0;k<(int)u.size();++k) s.updU()[k]=u[k];
        return s;
    }
};

struct SysB {
    MultibodySystem sys; SimbodyMatterSubsystem matter; GeneralForceSubsystem forces;
    std::vector<MobilizedBody> b; std::vector<double> q, u;
    SysB() : matter(sys), forces(sys) {
        for (int k=0;k<10;++k) q.push_back(nx());
        for (int k=0;k<10;++k) u.push_back(nx());
        Body::Rigid body(MassProperties(1.3, Vec3(0.1,0.2,-0.15), Inertia(Vec3(0.1,0.2,-0.15),1.3) + Inertia(0.5,0.6,0.7, 0.01,0.02,-0.03)));
        const Transform XPF(Rotation(0.4, Vec3(1,2,3)), Vec3(0.2,-0.1,0.3)), XBM(Rotation(-0.3, Vec3(3,1,-2)), Vec3(-0.1,0.2,0.1));
        b.push_back(matter.Ground());
        b.push_back(MobilizedBody::Pin(b[0], XPF, body, XBM));
        b.push_back(MobilizedBody::Slider(b[1], XPF, body, XBM));
        b.push_back(MobilizedBody::Cylinder(b[2], XPF, body, XBM));
        b.push_back(MobilizedBody::Planar(b[3], XPF, body, XBM));
        b.push_back(MobilizedBody::Translation(b[4], XPF, body, XBM));
    }
    State init() {
        State s = sys.realizeTopology(); sys.realizeModel(s);
        if (s.getNQ()!=10 || s.getNU()!=10) throw std::runtime_error("system B layout");
        for (int k=0;k<10;++k) { s.updQ()[k]=q[k]; s.updU()[k]=u[k]; }
        return s;
    }
};
