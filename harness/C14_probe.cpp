// C14 correspondence probe and failing-input search (mobilizer reaction forces).
//   C14_probe corr   <seed> <nsystems> <maxBodies>   model inputs (SYS/BODY lines) + implementation results (OUT ...)
//   C14_probe search <seed> <nsystems> <maxBodies>   per-body Newton-Euler residual etc. on the implementation alone, for the reactions of
//                                                   BOTH methods (find*/calcMobilizerReactionForces and the free-body method), and the two compared
// Random simbody trees over the 17 built-in mobilizer types (incl. Weld), forward/reversed, quaternion/Euler, massless
// non-terminal bodies, with gravity, random applied body and mobility forces, optionally a Rod/Ball constraint, a
// prescribed (Sinusoid) mobilizer and a locked mobilizer; realized to Acceleration.
#include "mb_common.h"
#include <cmath>

struct C14Sys {
    RandSystem rs; std::vector<int> par; int ncons, nmotion, nlock, nmassless, lone; bool ok;
    Force::DiscreteForces* discrete;
    C14Sys() : ncons(0), nmotion(0), nlock(0), nmassless(0), lone(-1), ok(false), discrete(0) {}
    ~C14Sys() { delete discrete; }
    void build(Rng& r, int nb, int shape) {
        int mode = r.I(0, 3) == 0 ? 1 : 0;
        rs.euler = r.I(0, 1) == 1;
        par.resize(nb); std::vector<int> nkids(nb + 1, 0);
        for (int i = 0; i < nb; ++i) { int p = (shape == 0) ? i : (shape == 1 ? (i == 0 ? 0 : 1) : r.I(0, i)); par[i] = p; nkids[p]++; }
        int motionBody = r.I(0, 3) == 0 ? r.I(1, nb) : -1;
        for (int i = 0; i < nb; ++i) {
            MobilizedBody& parent = rs.matter.updMobilizedBody(MobilizedBodyIndex(par[i]));
            // Weld is over-represented on purpose (the reaction must carry the whole outboard subtree)
            int ty = r.I(0, 4) == 0 ? 16 : r.I(0, NMOBTYPES_ALL - 1); bool rev = r.I(0, 3) == 0;
            bool massless = mode == 1 && nkids[i + 1] > 0 && ty != 16 && r.I(0, 2) == 0;
            if (massless) ++nmassless;
            Body::Rigid body(massless ? MassProperties(0, Vec3(0), Inertia(0)) : randomMassProps(r));
            MobilizedBody mb = addMobod(ty, parent, r.xf(), body, r.xf(), rev);
            rs.types.push_back(ty); rs.revs.push_back(rev);
            if (i + 1 == motionBody && ty != 16) { Motion::Sinusoid(mb, Motion::Position, r.U(0.1, 0.5), r.U(0.5, 2), r.U(0, 3)); ++nmotion; }
        }
        // RBNodeLoneParticle configuration (RigidBodyNode_LoneParticle.cpp): forward Translation on Ground, identity F and M frames,
        // no children (added last, so no later body can pick it as parent); the body keeps an off-origin mass centre
        if (r.I(0, 5) == 0) {
            Body::Rigid body(randomMassProps(r));
            MobilizedBody::Translation(rs.matter.Ground(), Transform(), body, Transform());
            rs.types.push_back(10); rs.revs.push_back(false); par.push_back(0); lone = nb + 1;
        }
        Force::UniformGravity(rs.forces, rs.matter, r.v3(9.8));
        discrete = new Force::DiscreteForces(rs.forces, rs.matter);
        int c = r.I(0, 5);
        if (c <= 1 && nb >= 1) {   // one holonomic constraint between two different bodies (Ground allowed)
            int b1 = r.I(0, nb), b2 = r.I(0, nb); if (b1 == b2) b2 = (b1 + 1) % (nb + 1);
            MobilizedBody& m1 = rs.matter.updMobilizedBody(MobilizedBodyIndex(b1)); MobilizedBody& m2 = rs.matter.updMobilizedBody(MobilizedBodyIndex(b2));
            if (c == 0) Constraint::Rod(m1, r.v3(0.4), m2, r.v3(0.4), r.U(0.5, 1.5)); else Constraint::Ball(m1, r.v3(0.4), m2, r.v3(0.4));
            ++ncons;
        }
        rs.state = rs.sys.realizeTopology();
        rs.matter.setUseEulerAngles(rs.state, rs.euler);
        rs.sys.realizeModel(rs.state);
        State& s = rs.state;
        s.setTime(r.U(0, 2));
        for (int i = 0; i < s.getNQ(); ++i) s.updQ()[i] = r.U(0.1, 0.6) * (r.I(0, 1) ? 1 : -1);
        if (r.I(0, 4) == 0 && nb >= 1) {   // lock one mobilizer at its current position
            MobilizedBodyIndex lb(r.I(1, nb)); if ((int)lb != motionBody && rs.types[lb - 1] != 16) { rs.matter.getMobilizedBody(lb).lock(s); ++nlock; }
        }
        rs.sys.realize(s, Stage::Position);
        // quaternions are normalised by projecting with the constraints disabled from the error (constraints need not be satisfied:
        // Newton-Euler balance is an acceleration-level identity that holds for any q,u)
        for (MobilizedBodyIndex b(1); b < rs.matter.getNumBodies(); ++b) {
            const MobilizedBody& mb = rs.matter.getMobilizedBody(b);
            if (!rs.euler && mb.getNumQ(s) > mb.getNumU(s)) {   // has a quaternion (always the first four q of the mobilizer)
                int q0 = mb.getFirstQIndex(s);
                Real n = 0; for (int i = 0; i < 4; ++i) n += square(s.getQ()[q0 + i]); n = std::sqrt(n);
                for (int i = 0; i < 4; ++i) s.updQ()[q0 + i] /= n;
            }
        }
        for (int i = 0; i < s.getNU(); ++i) s.updU()[i] = r.U(-1, 1);
        Vector mf(s.getNU()); for (int i = 0; i < s.getNU(); ++i) mf[i] = r.I(0, 1) ? r.U(-3, 3) : 0;
        Vector_<SpatialVec> bf(rs.matter.getNumBodies()); for (int b = 0; b < rs.matter.getNumBodies(); ++b) bf[b] = r.I(0, 2) ? SpatialVec(r.v3(3), r.v3(3)) : SpatialVec(Vec3(0), Vec3(0));
        discrete->setAllMobilityForces(s, mf); discrete->setAllBodyForces(s, bf);
        rs.sys.realize(s, Stage::Acceleration);
        ok = true;
        for (MobilizedBodyIndex b(1); b < rs.matter.getNumBodies(); ++b) { const SpatialVec& A = rs.matter.getMobilizedBody(b).getBodyAcceleration(s);
            for (int i = 0; i < 2; ++i) for (int j = 0; j < 3; ++j) if (!std::isfinite(A[i][j]) || std::abs(A[i][j]) > 1e5) ok = false; }
        // a massless body whose mobilizer has more freedom than the outboard articulated inertia can resist makes the mass matrix
        // singular; simbody then returns finite but meaningless accelerations (the property presupposes a regular system): skip
        if (nmassless > 0 && s.getNU() > 0) { Matrix M; rs.matter.calcM(s, M); FactorQTZ qtz(M, 1e-9); if (qtz.getRank() < s.getNU()) ok = false; }
        const Vector& lam = s.getMultipliers(); for (int i = 0; i < lam.size(); ++i) if (!std::isfinite(lam[i]) || std::abs(lam[i]) > 1e5) ok = false;
    }
};

static void p3(const Vec3& v) { std::printf(" %a %a %a", v[0], v[1], v[2]); }
static void psym(const Mat33& I) { std::printf(" %a %a %a %a %a %a", I(0, 0), I(1, 1), I(2, 2), I(1, 0), I(2, 0), I(2, 1)); }
static void osv(const char* tag, int b, const SpatialVec& v) { std::printf("OUT %s %d", tag, b); psv(v); std::printf("\n"); }

static void constraintForces(const C14Sys& cs, Vector_<SpatialVec>& fc, Vector& mc) {
    const State& s = cs.rs.state; const SimbodyMatterSubsystem& m = cs.rs.matter;
    fc.resize(m.getNumBodies()); fc.setToZero(); mc.resize(s.getNU()); mc.setToZero();
    if (s.getMultipliers().size()) m.calcConstraintForcesFromMultipliers(s, s.getMultipliers(), fc, mc);
}

static int corr(unsigned long long seed, int nsys, int maxb) {
    Rng r(seed);
    for (int k = 0; k < nsys; ++k) {
        C14Sys cs; int nb = r.I(1, maxb); int shape = r.I(0, 2);
        try { cs.build(r, nb, shape); } catch (const std::exception& e) { std::printf("SKIP %.100s\n", e.what()); continue; }
        if (!cs.ok) { std::printf("SKIP non-finite or huge accelerations (singular system)\n"); continue; }
        const State& s = cs.rs.state; const SimbodyMatterSubsystem& m = cs.rs.matter; int NB = m.getNumBodies();
        const Vector_<SpatialVec>& Fapp = cs.rs.sys.getRigidBodyForces(s, Stage::Dynamics);
        Vector_<SpatialVec> fc; Vector mc; constraintForces(cs, fc, mc);
        std::printf("SYS %d %d %d\n", NB, cs.nmassless > 0 ? 1 : 0, cs.ncons + 2 * cs.nmotion + 4 * cs.nlock);
        for (MobilizedBodyIndex b(0); b < NB; ++b) {
            const MobilizedBody& mb = m.getMobilizedBody(b);
            if (b == 0) { std::printf("BODY 0 0 Ground 0"); for (int i = 0; i < 3 + 10 + 12; ++i) std::printf(" 0x0p+0"); psv(Fapp[0]); psv(fc[0]); std::printf(" 0x0p+0 0x0p+0 0x0p+0 0x0p+0 0x0p+0 0x0p+0\n"); continue; }
            int p = mb.getParentMobilizedBody().getMobilizedBodyIndex();
            const Transform& X = mb.getBodyTransform(s); const Transform& XP = mb.getParentMobilizedBody().getBodyTransform(s);
            const MassProperties& mp = mb.getBodyMassProperties(s);
            Mat33 R = X.R().asMat33(); Mat33 GG = R * mp.getUnitInertia().toMat33() * ~R; Vec3 pG = R * mp.getMassCenter();
            std::printf("BODY %d %d %s %d", (int)b, p, (int)b == cs.lone ? "LoneTranslation" : MOBTYPES[cs.rs.types[b - 1]], (int)cs.rs.revs[b - 1]);
            p3(X.p() - XP.p()); std::printf(" %a", mp.getMass()); p3(pG); psym(GG);
            psv(mb.getBodyVelocity(s)); psv(mb.getBodyAcceleration(s)); psv(Fapp[b]); psv(fc[b]);
            p3(R * mb.getOutboardFrame(s).p()); p3(XP.R().asMat33() * mb.getInboardFrame(s).p());
            std::printf("\n");
        }
        Vector_<SpatialVec> FM, FMfb; m.calcMobilizerReactionForces(s, FM); m.calcMobilizerReactionForcesUsingFreebodyMethod(s, FMfb);
        for (MobilizedBodyIndex b(0); b < NB; ++b) {
            const MobilizedBody& mb = m.getMobilizedBody(b);
            osv("GYRO", b, m.getGyroscopicForce(s, b));
            osv("FM", b, FM[b]); osv("FMFB", b, FMfb[b]);
            osv("ATM", b, mb.findMobilizerReactionOnBodyAtMInGround(s));
            osv("ATO", b, mb.findMobilizerReactionOnBodyAtOriginInGround(s));
            osv("PATO", b, mb.findMobilizerReactionOnParentAtOriginInGround(s));
            osv("PATF", b, mb.findMobilizerReactionOnParentAtFInGround(s));
        }
        std::printf("END\n");
    }
    return 0;
}

// ---------------------------------------------------------------- search
static long evals = 0; static int fails = 0; static int failsLone = 0;
static void chk(const char* what, Real err, Real scale, unsigned long long seed, int k, int body, const C14Sys& cs) {
    ++evals;
    if (!(err <= 1e-7 * (1 + scale))) { int& cnt = (what[0] == 'l' && what[1] == 'o') ? failsLone : fails; if (cnt++ < 8) { std::printf("FAIL C14 %s err=%.6g scale=%.6g seed=%llu system=%d body=%d euler=%d cons=%d motion=%d lock=%d mobilizers=", what, err, scale, seed, k, body, (int)cs.rs.euler, cs.ncons, cs.nmotion, cs.nlock);
        for (size_t i = 0; i < cs.rs.types.size(); ++i) std::printf("%s%s<-%d,", MOBTYPES[cs.rs.types[i]], cs.rs.revs[i] ? "(rev)" : "", cs.par[i]); std::printf("\n"); } }
}
static Real svn(const SpatialVec& v) { return v[0].norm() + v[1].norm(); }

static int search(unsigned long long seed, int nsys, int maxb) {
    Rng r(seed);
    for (int k = 0; k < nsys; ++k) {
        C14Sys cs; int nb = r.I(1, maxb); int shape = r.I(0, 2);
        try { cs.build(r, nb, shape); } catch (const std::exception&) { continue; }
        if (!cs.ok) continue;
        const State& s = cs.rs.state; const SimbodyMatterSubsystem& m = cs.rs.matter; int NB = m.getNumBodies();
        const Vector_<SpatialVec>& Fapp = cs.rs.sys.getRigidBodyForces(s, Stage::Dynamics);
        const Vector& fmob = cs.rs.sys.getMobilityForces(s, Stage::Dynamics);
        Vector_<SpatialVec> fc; Vector mc; constraintForces(cs, fc, mc);
        Vector_<SpatialVec> FM; m.calcMobilizerReactionForces(s, FM);
        Real fscale = 0; for (int b = 0; b < NB; ++b) fscale = std::max(fscale, svn(FM[b]));
        // the free-body method's own output (reported at M): moved back to the body origins with the (random, non-trivial) X_BM offsets
        Vector_<SpatialVec> FMfb; m.calcMobilizerReactionForcesUsingFreebodyMethod(s, FMfb);
        std::vector<SpatialVec> FBfb(NB);
        for (MobilizedBodyIndex b(0); b < NB; ++b) { const MobilizedBody& mb = m.getMobilizedBody(b);
            FBfb[b] = shiftForceBy(FMfb[b], -(mb.getBodyRotation(s) * mb.getOutboardFrame(s).p())); fscale = std::max(fscale, svn(FMfb[b])); }
        for (MobilizedBodyIndex b(1); b < NB; ++b) {
            const MobilizedBody& mb = m.getMobilizedBody(b); const MassProperties& mp = mb.getBodyMassProperties(s); const Rotation& R = mb.getBodyRotation(s);
            // rate of change of momentum about the body origin, classical form (independent of the spatial-inertia code)
            Real mm = mp.getMass(); Vec3 c = R * mp.getMassCenter(); Mat33 Rm = R.asMat33(); Mat33 IO = Rm * (mm * mp.getUnitInertia().toMat33()) * ~Rm;
            Vec3 w = mb.getBodyAngularVelocity(s), al = mb.getBodyAngularAcceleration(s), a0 = mb.getBodyOriginAcceleration(s);
            Vec3 ac = a0 + al % c + w % (w % c);
            SpatialVec rate(IO * al + w % (IO * w) + mm * (c % a0), mm * ac);
            SpatialVec total = Fapp[b] - fc[b] + mb.findMobilizerReactionOnBodyAtOriginInGround(s);
            for (MobilizedBodyIndex cb(1); cb < NB; ++cb) { const MobilizedBody& ch = m.getMobilizedBody(cb);
                if (ch.getParentMobilizedBody().getMobilizedBodyIndex() != b) continue;
                total += ch.findMobilizerReactionOnParentAtOriginInGround(s); }
            chk((int)b == cs.lone ? "loneparticle-com-offset-reaction-torque" : "newton-euler-residual", svn(total - rate), fscale + svn(rate), seed, k, b, cs);
            // the same balance with the reactions returned by the free-body method: own reaction at the origin plus, for every child,
            // the negated child reaction moved from the child's origin to this body's origin
            { SpatialVec tot = Fapp[b] - fc[b] + FBfb[b];
              for (MobilizedBodyIndex cb(1); cb < NB; ++cb) { const MobilizedBody& ch = m.getMobilizedBody(cb);
                  if (ch.getParentMobilizedBody().getMobilizedBodyIndex() != b) continue;
                  tot += shiftForceBy(-FBfb[cb], mb.getBodyTransform(s).p() - ch.getBodyTransform(s).p()); }
              chk("freebody-method-newton-euler-residual", svn(tot - rate), fscale + svn(rate), seed, k, b, cs); }
            // the two methods must report the same reaction (at M)
            chk((int)b == cs.lone ? "loneparticle-com-offset-reaction-torque" : "freebody-method=calcMobilizerReactionForces", svn(FMfb[b] - FM[b]), fscale, seed, k, b, cs);
            // equal and opposite: body-side reaction at M and parent-side reaction at F, both moved to the parent's origin, cancel
            const Transform& XP = mb.getParentMobilizedBody().getBodyTransform(s); const Transform& X = mb.getBodyTransform(s);
            Vec3 pM = X.p() + R * mb.getOutboardFrame(s).p(), pF = XP.p() + XP.R() * mb.getInboardFrame(s).p();
            SpatialVec a = shiftForceFromTo(mb.findMobilizerReactionOnBodyAtMInGround(s), pM, XP.p());
            SpatialVec bb = shiftForceFromTo(mb.findMobilizerReactionOnParentAtFInGround(s), pF, XP.p());
            chk("equal-and-opposite", svn(a + bb), fscale, seed, k, b, cs);
            chk("calcMobilizerReactionForces=findAtM", svn(FM[b] - mb.findMobilizerReactionOnBodyAtMInGround(s)), fscale, seed, k, b, cs);
            // the reaction projected on a free mobility is the applied mobility force (minus mobility constraint force)
            if (!mb.isLocked(s) && !mb.hasMotion()) {
                for (int u = 0; u < mb.getNumU(s); ++u) { int ux = mb.getFirstUIndex(s) + u;
                    Real proj = ~mb.getHCol(s, MobilizerUIndex(u)) * mb.findMobilizerReactionOnBodyAtOriginInGround(s);
                    chk("H'*reaction=mobility-force", std::abs(proj - (fmob[ux] - mc[ux])), fscale, seed, k, b, cs); }
            }
        }
        // Ground: what the universe must supply = minus everything the base mobilizers and applied forces put on Ground
        { SpatialVec g = Fapp[0] - fc[0] + m.getMobilizedBody(MobilizedBodyIndex(0)).findMobilizerReactionOnBodyAtOriginInGround(s);
          for (MobilizedBodyIndex cb(1); cb < NB; ++cb) if (m.getMobilizedBody(cb).getParentMobilizedBody().getMobilizedBodyIndex() == 0) g += m.getMobilizedBody(cb).findMobilizerReactionOnParentAtOriginInGround(s);
          chk("ground-balance", svn(g), fscale, seed, k, 0, cs);
          SpatialVec gf = Fapp[0] - fc[0] + FBfb[0];
          for (MobilizedBodyIndex cb(1); cb < NB; ++cb) if (m.getMobilizedBody(cb).getParentMobilizedBody().getMobilizedBodyIndex() == 0) gf += shiftForceBy(-FBfb[cb], -m.getMobilizedBody(cb).getBodyTransform(s).p());
          chk("freebody-method-ground-balance", svn(gf), fscale, seed, k, 0, cs);
          chk(cs.lone > 0 ? "loneparticle-com-offset-reaction-torque" : "freebody-method=calcMobilizerReactionForces", svn(FMfb[0] - FM[0]), fscale, seed, k, 0, cs); }
    }
    std::printf("DONE %ld fails=%d failsLone=%d\n", evals, fails, failsLone);
    return 0;
}

// ---------------------------------------------------------------- witness (found by the C02 builder): lone Translation body, off-origin mass centre
static int witness() {
    Vec3 tq[2];
    for (int variant = 0; variant < 2; ++variant) {   // 0: identity M frame -> RBNodeLoneParticle;  1: M offset 1e-100 -> regular RBNodeTranslate
        MultibodySystem sys; SimbodyMatterSubsystem matter(sys); GeneralForceSubsystem forces(sys);
        Body::Rigid body(MassProperties(2, Vec3(0.3, -0.2, 0.5), Inertia(Vec3(0.3, -0.2, 0.5), 2) + Inertia(1, 1, 1)));
        MobilizedBody::Translation b(matter.Ground(), Transform(Vec3(0)), body, Transform(Vec3(variant ? 1e-100 : 0)));
        Force::DiscreteForces df(forces, matter);
        State s = sys.realizeTopology(); sys.realizeModel(s);
        df.setOneMobilityForce(s, b, MobilizerUIndex(0), 1); df.setOneMobilityForce(s, b, MobilizerUIndex(1), -2); df.setOneMobilityForce(s, b, MobilizerUIndex(2), 0.5);
        df.setOneBodyForce(s, b, SpatialVec(Vec3(0.7, 0.1, -0.3), Vec3(-1, 2, 3)));
        sys.realize(s, Stage::Acceleration);
        Vector_<SpatialVec> fm, fb; matter.calcMobilizerReactionForces(s, fm); matter.calcMobilizerReactionForcesUsingFreebodyMethod(s, fb);
        tq[variant] = fm[b.getMobilizedBodyIndex()][0];
        if (variant == 0) {
            Vec3 d = fm[b.getMobilizedBodyIndex()][0] - fb[b.getMobilizedBodyIndex()][0];
            std::printf("WITNESS loneparticle-com-offset-reaction-torque bad=%d calcMobilizerReactionForces.torque=%g,%g,%g freebody.torque=%g,%g,%g\n", (int)(d.norm() > 1e-9),
                        fm[1][0][0], fm[1][0][1], fm[1][0][2], fb[1][0][0], fb[1][0][1], fb[1][0][2]);
        }
    }
    std::printf("WITNESS-INFO regular-RBNodeTranslate torque=%g,%g,%g\n", tq[1][0], tq[1][1], tq[1][2]);
    return 0;
}

int main(int argc, char** argv) {
    if (argc >= 2 && std::string(argv[1]) == "witness") return witness();
    if (argc < 5) { std::fprintf(stderr, "usage: C14_probe corr|search seed nsys maxb\n"); return 2; }
    unsigned long long seed = std::strtoull(argv[2], 0, 10); int nsys = std::atoi(argv[3]); int maxb = std::atoi(argv[4]);
    return std::string(argv[1]) == "search" ? search(seed, nsys, maxb) : corr(seed, nsys, maxb);
}
