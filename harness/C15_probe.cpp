// C15 correspondence probe and failing-input search.
//   C15_probe corr   <seed> <nsystems> <maxBodies>   prints model inputs (SYS/BODY lines) + implementation results (OUT ...)
//   C15_probe search <seed> <nsystems> <maxBodies>   evaluates the property's own predicates on the implementation alone
// Random simbody trees over the 17 built-in mobilizer types (mb_common.h), forward/reversed, quaternion/Euler,
// with four mass modes: 0 all bodies massive; 1 some non-terminal bodies massless; 2 every body massless (Weld only);
// 3 as 1 plus massless welded leaves (marker frames).
// Per-body inputs are what the implementation reports, unprocessed: X_GB (R row-major, p), V_GB, A_GB, body mass properties in B
// (mass, mass centre, unit inertia).
#include "mb_common.h"
#include <cmath>

struct C15Sys {
    RandSystem rs; int mode; bool haveAcc; std::vector<int> par;
    void build(Rng& r, int nb, int shape) {
        int m = r.I(0, 19); mode = m < 11 ? 0 : (m < 15 ? 1 : (m < 19 ? 3 : 2));
        rs.euler = r.I(0, 1) == 1;
        par.resize(nb); std::vector<int> nkids(nb + 1, 0);
        for (int i = 0; i < nb; ++i) { int p = (shape == 0) ? i : (shape == 1 ? (i == 0 ? 0 : 1) : r.I(0, i)); par[i] = p; nkids[p]++; }
        for (int i = 0; i < nb; ++i) {
            MobilizedBody& parent = rs.matter.updMobilizedBody(MobilizedBodyIndex(par[i]));
            int ty = mode == 2 ? 16 : r.I(0, NMOBTYPES_ALL - 1); bool rev = r.I(0, 3) == 0;
            bool massless = mode == 2 || ((mode == 1 || mode == 3) && nkids[i + 1] > 0 && r.I(0, 2) == 0);
            // mode 3: also massless welded leaves (marker frames), so that a parent can have a child whose whole subtree is massless
            // before or after a sibling subtree that has mass
            if (mode == 3 && nkids[i + 1] == 0 && r.I(0, 1) == 0) { massless = true; ty = 16; }
            // a massless body keeps a (meaningless but reported) mass-centre station: the aggregates must ignore it
            Body::Rigid body(massless ? MassProperties(0, r.v3(0.5), Inertia(0)) : randomMassProps(r));
            addMobod(ty, parent, r.xf(), body, r.xf(), rev);
            rs.types.push_back(ty); rs.revs.push_back(rev);
        }
        Force::UniformGravity(rs.forces, rs.matter, r.v3(9.8));
        rs.state = rs.sys.realizeTopology();
        rs.matter.setUseEulerAngles(rs.state, rs.euler);
        rs.sys.realizeModel(rs.state);
        State& s = rs.state;
        for (int i = 0; i < s.getNQ(); ++i) s.updQ()[i] = r.U(0.1, 0.6) * (r.I(0, 1) ? 1 : -1);
        rs.sys.realize(s, Stage::Position);
        rs.sys.project(s, 1e-12);
        for (int i = 0; i < s.getNU(); ++i) s.updU()[i] = r.U(-1, 1);
        rs.sys.realize(s, Stage::Velocity);
        haveAcc = false;
        if (mode != 2) {
            try { rs.sys.realize(s, Stage::Acceleration); haveAcc = true;
                  for (MobilizedBodyIndex b(1); b < rs.matter.getNumBodies(); ++b) { const SpatialVec& A = rs.matter.getMobilizedBody(b).getBodyAcceleration(s);
                      for (int i = 0; i < 2; ++i) for (int j = 0; j < 3; ++j) if (!std::isfinite(A[i][j]) || std::abs(A[i][j]) > 1e6) haveAcc = false; }
            } catch (const std::exception&) { haveAcc = false; }
        }
    }
};

static void p3(const Vec3& v) { std::printf(" %a %a %a", v[0], v[1], v[2]); }
static void psym(const Mat33& I) { std::printf(" %a %a %a %a %a %a", I(0, 0), I(1, 1), I(2, 2), I(1, 0), I(2, 0), I(2, 1)); }
static void pspi(const char* tag, int b, const SpatialInertia& R) {
    std::printf("OUT %s %d %a", tag, b, R.getMass()); p3(R.getMassCenter()); psym(R.getUnitInertia().toMat33()); std::printf("\n"); }

static int corr(unsigned long long seed, int nsys, int maxb) {
    Rng r(seed);
    for (int k = 0; k < nsys; ++k) {
        C15Sys cs; int nb = r.I(1, maxb); int shape = r.I(0, 2);
        try { cs.build(r, nb, shape); } catch (const std::exception& e) { std::printf("SKIP %s\n", e.what()); continue; }
        const State& s = cs.rs.state; const SimbodyMatterSubsystem& m = cs.rs.matter; int NB = m.getNumBodies();
        std::printf("SYS %d %d %d\n", NB, cs.mode, (int)cs.haveAcc);
        for (MobilizedBodyIndex b(1); b < NB; ++b) {
            const MobilizedBody& mb = m.getMobilizedBody(b);
            int p = mb.getParentMobilizedBody().getMobilizedBodyIndex();
            const Transform& X = mb.getBodyTransform(s); const Transform& XP = mb.getParentMobilizedBody().getBodyTransform(s);
            const MassProperties& mp = mb.getBodyMassProperties(s);
            Mat33 R = X.R().asMat33();
            std::printf("BODY %d %d %s %d", (int)b, p, MOBTYPES[cs.rs.types[b - 1]], (int)cs.rs.revs[b - 1]);
            // raw body-frame data: the model re-expresses it in Ground itself (C15_Model.toG)
            p3(X.p() - XP.p()); std::printf(" %a", mp.getMass()); p3(X.p()); p3(mp.getMassCenter()); psym(mp.getUnitInertia().toMat33());
            for (int i = 0; i < 3; ++i) for (int j = 0; j < 3; ++j) std::printf(" %a", R(i, j));
            psv(mb.getBodyVelocity(s));
            if (cs.haveAcc) psv(mb.getBodyAcceleration(s)); else psv(SpatialVec(Vec3(0), Vec3(0)));
            std::printf("\n");
        }
        for (MobilizedBodyIndex b(1); b < NB; ++b) {   // the two per-body code paths that shift / centralise in B and re-express afterwards
            const MobilizedBody& mb = m.getMobilizedBody(b);
            MassProperties t = mb.getBodyMassProperties(s).calcTransformedMassProps(~mb.getBodyTransform(s));
            std::printf("OUT BTMP %d %a", (int)b, t.getMass()); p3(t.getMassCenter()); psym(t.getUnitInertia().toMat33()); std::printf("\n");
            std::printf("OUT BMOM %d", (int)b); psv(mb.calcBodyMomentumAboutBodyMassCenterInGround(s)); std::printf("\n");
        }
        std::printf("OUT MASS %a\n", m.calcSystemMass(s));
        std::printf("OUT COM"); p3(m.calcSystemMassCenterLocationInGround(s)); std::printf("\n");
        std::printf("OUT COMV"); p3(m.calcSystemMassCenterVelocityInGround(s)); std::printf("\n");
        if (cs.haveAcc) { std::printf("OUT COMA"); p3(m.calcSystemMassCenterAccelerationInGround(s)); std::printf("\n"); }
        MassProperties smp = m.calcSystemMassPropertiesInGround(s);
        std::printf("OUT SYSMP %a", smp.getMass()); p3(smp.getMassCenter()); psym(smp.getInertia().toMat33()); std::printf("\n");
        std::printf("OUT CINERTIA"); psym(m.calcSystemCentralInertiaInGround(s).toMat33()); std::printf("\n");
        std::printf("OUT MOM"); psv(m.calcSystemMomentumAboutGroundOrigin(s)); std::printf("\n");
        std::printf("OUT CMOM"); psv(m.calcSystemCentralMomentum(s)); std::printf("\n");
        std::printf("OUT KE %a\n", m.calcKineticEnergy(s));
        Array_<SpatialInertia, MobilizedBodyIndex> Rc; m.calcCompositeBodyInertias(s, Rc);
        for (MobilizedBodyIndex b(1); b < NB; ++b) pspi("CBI", b, Rc[b]);
        m.realizeCompositeBodyInertias(s);
        for (MobilizedBodyIndex b(1); b < NB; ++b) pspi("CBIC", b, m.getCompositeBodyInertia(s, b));
        std::printf("END\n");
    }
    return 0;
}

// ---------------------------------------------------------------- search: the property's predicates on the implementation alone
static long evals = 0; static int fails = 0;
static void chk(const char* what, Real err, Real scale, unsigned long long seed, int k, const C15Sys& cs) {
    ++evals;
    if (!(err <= 1e-9 * (1 + scale))) { if (fails++ < 8) { std::printf("FAIL C15 %s err=%.6g scale=%.6g seed=%llu system=%d mode=%d euler=%d mobilizers=", what, err, scale, seed, k, cs.mode, (int)cs.rs.euler);
        for (size_t i = 0; i < cs.rs.types.size(); ++i) std::printf("%s%s<-%d,", MOBTYPES[cs.rs.types[i]], cs.rs.revs[i] ? "(rev)" : "", cs.par[i]); std::printf("\n"); } }
}
static Real symnorm(const Mat33& a) { Real e = 0; for (int i = 0; i < 3; ++i) for (int j = 0; j < 3; ++j) e += std::abs(a(i, j)); return e; }
static Mat33 pm(const Vec3& p, Real m) { return m * (dot(p, p) * Mat33(1) - p * ~p); }

static int search(unsigned long long seed, int nsys, int maxb) {
    Rng r(seed);
    for (int k = 0; k < nsys; ++k) {
        C15Sys cs; int nb = r.I(1, maxb); int shape = r.I(0, 2);
        try { cs.build(r, nb, shape); } catch (const std::exception&) { continue; }
        const State& s = cs.rs.state; const SimbodyMatterSubsystem& m = cs.rs.matter; int NB = m.getNumBodies();
        // independent per-body sums (classical formulas, central inertias, positions from X_GB)
        Real M = 0, ke = 0; Vec3 mc(0), lin(0), ang(0), macc(0); Mat33 IO(0);
        std::vector<Vec3> c(NB); std::vector<Mat33> Ic(NB); std::vector<Real> mass(NB);
        for (MobilizedBodyIndex b(1); b < NB; ++b) {
            const MobilizedBody& mb = m.getMobilizedBody(b); const MassProperties& mp = mb.getBodyMassProperties(s);
            const Transform& X = mb.getBodyTransform(s); Mat33 R = X.R().asMat33(); Vec3 p = R * mp.getMassCenter();
            Real mm = mp.getMass(); Mat33 IB = R * (mm * mp.getUnitInertia().toMat33()) * ~R; Mat33 Icb = IB - pm(p, mm);
            const SpatialVec& V = mb.getBodyVelocity(s); Vec3 vc = V[1] + V[0] % p;
            c[b] = X.p() + p; Ic[b] = Icb; mass[b] = mm;
            M += mm; mc += mm * c[b]; lin += mm * vc; ang += Icb * V[0] + c[b] % (mm * vc);
            ke += 0.5 * (mm * dot(vc, vc) + dot(V[0], Icb * V[0]));
            IO += Icb + pm(c[b], mm);
            if (cs.haveAcc) { const SpatialVec& A = mb.getBodyAcceleration(s); macc += mm * (A[1] + A[0] % p + V[0] % (V[0] % p)); }
        }
        Vec3 C = M != 0 ? mc / M : mc;
        chk("mass=sum", std::abs(M - m.calcSystemMass(s)), M, seed, k, cs);
        chk("M*com=sum(m*c)", (m.calcSystemMass(s) * m.calcSystemMassCenterLocationInGround(s) - mc).norm(), mc.norm(), seed, k, cs);
        SpatialVec mom = m.calcSystemMomentumAboutGroundOrigin(s), cmom = m.calcSystemCentralMomentum(s);
        chk("linear-momentum=M*vcom", (mom[1] - m.calcSystemMass(s) * m.calcSystemMassCenterVelocityInGround(s)).norm(), lin.norm(), seed, k, cs);
        chk("linear-momentum=sum(m*vc)", (mom[1] - lin).norm(), lin.norm(), seed, k, cs);
        chk("angular-momentum-about-origin=sum", (mom[0] - ang).norm(), ang.norm(), seed, k, cs);
        chk("central-momentum=shift", (cmom[0] - (ang - C % lin)).norm() + (cmom[1] - lin).norm(), ang.norm() + lin.norm(), seed, k, cs);
        chk("KE=classical-sum", std::abs(ke - m.calcKineticEnergy(s)), ke, seed, k, cs);
        if (cs.haveAcc) chk("M*acom=sum(m*ac)", (m.calcSystemMass(s) * m.calcSystemMassCenterAccelerationInGround(s) - macc).norm(), macc.norm(), seed, k, cs);
        Mat33 IC(0); for (int b = 1; b < NB; ++b) IC += Ic[b] + pm(c[b] - C, mass[b]);
        chk("central-inertia=parallel-axis-sum", symnorm(m.calcSystemCentralInertiaInGround(s).toMat33() - IC), symnorm(IC), seed, k, cs);
        MassProperties smp = m.calcSystemMassPropertiesInGround(s);
        chk("inertia-about-ground=sum", symnorm(smp.getInertia().toMat33() - IO), symnorm(IO), seed, k, cs);
        // composite body inertias: direct sum over each body's subtree, shifted to that body's origin
        if (cs.mode != 2) {
            Array_<SpatialInertia, MobilizedBodyIndex> Rc; m.calcCompositeBodyInertias(s, Rc);
            for (MobilizedBodyIndex b(1); b < NB; ++b) {
                Vec3 ob = m.getMobilizedBody(b).getBodyTransform(s).p(); Real ms = 0; Vec3 h(0); Mat33 I(0);
                for (MobilizedBodyIndex d(1); d < NB; ++d) {
                    MobilizedBodyIndex a = d; while (a != b && a != 0) a = m.getMobilizedBody(a).getParentMobilizedBody().getMobilizedBodyIndex();
                    if (a != b) continue;
                    ms += mass[d]; h += mass[d] * (c[d] - ob); I += Ic[d] + pm(c[d] - ob, mass[d]);
                }
                Real e = std::abs(Rc[b].getMass() - ms) + (Rc[b].getMass() * Rc[b].getMassCenter() - h).norm()
                       + symnorm(Rc[b].getMass() * Rc[b].getUnitInertia().toMat33() - I);
                chk("composite-inertia=subtree-sum", e, ms + h.norm() + symnorm(I), seed, k, cs);
            }
        }
    }
    std::printf("DONE %ld fails=%d\n", evals, fails);
    return 0;
}

// ---------------------------------------------------------------- witness: chain of two massless welded frames on a massive body
// Ground -Pin-> B1 (mass 2) -Weld-> B2 (massless) -Weld-> B3 (massless).  The subtree of B1 has mass 2 and a perfectly
// well-defined spatial inertia (that of B1), but SpatialInertia::operator+= divides by the combined mass 0+0 when B3's
// composite is added to B2's, and the NaN then propagates to B1.
static int witness() {
    MultibodySystem sys; SimbodyMatterSubsystem matter(sys); GeneralForceSubsystem forces(sys);
    Body::Rigid massive(MassProperties(2, Vec3(0.1, 0.2, 0.3), Inertia(1, 1, 1))); Body::Rigid frame(MassProperties(0, Vec3(0), Inertia(0)));
    MobilizedBody::Pin b1(matter.Ground(), Transform(), massive, Transform());
    MobilizedBody::Weld b2(b1, Transform(Vec3(1, 0, 0)), frame, Transform());
    MobilizedBody::Weld b3(b2, Transform(Vec3(0, 1, 0)), frame, Transform());
    State s = sys.realizeTopology(); sys.realize(s, Stage::Position);
    Array_<SpatialInertia, MobilizedBodyIndex> R; matter.calcCompositeBodyInertias(s, R);
    const SpatialInertia& R1 = R[b1.getMobilizedBodyIndex()]; const SpatialInertia& Mk = b1.getBodySpatialInertiaInGround(s);
    bool nan = false; for (int i = 0; i < 3; ++i) if (R1.getMassCenter()[i] != R1.getMassCenter()[i]) nan = true;
    Mat33 G = R1.getUnitInertia().toMat33(); for (int i = 0; i < 3; ++i) for (int j = 0; j < 3; ++j) if (G(i, j) != G(i, j)) nan = true;
    std::printf("WITNESS cbi-nan-massless-chain nan=%d compositeMass=%g compositeCom=%g,%g,%g expectedCom=%g,%g,%g\n", (int)nan, R1.getMass(),
                R1.getMassCenter()[0], R1.getMassCenter()[1], R1.getMassCenter()[2], Mk.getMassCenter()[0], Mk.getMassCenter()[1], Mk.getMassCenter()[2]);
    return 0;
}

int main(int argc, char** argv) {
    if (argc >= 2 && std::string(argv[1]) == "witness") return witness();
    if (argc < 5) { std::fprintf(stderr, "usage: C15_probe corr|search seed nsys maxb\n"); return 2; }
    unsigned long long seed = std::strtoull(argv[2], 0, 10); int nsys = std::atoi(argv[3]); int maxb = std::atoi(argv[4]);
    return std::string(argv[1]) == "search" ? search(seed, nsys, maxb) : corr(seed, nsys, maxb);
}
