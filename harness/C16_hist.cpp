// C16 correspondence harness: runs histories (variable changes, parameter changes, enable/disable, lock/unlock, modelling
// option, realizations to arbitrary stages, evaluations on request) on a real simbody System and prints, after every
// operation, the discrete cache status (system stage, which lazily evaluated matter caches read valid, Force::Gravity's
// cache validity and evaluation counter, call counters of the Custom force elements) -- compared exactly with the
// extracted model -- and, on CMP, the comparison of everything computed from the State with a freshly created State given
// the same values and realized to the same stage.
//
// stdin:   SYS <idx> <nb> <grav> <nlock> <ncons> <nelems> <class ids...>      (selects / builds the system)
//          H <id>                                                            (new history on a new default State)
//          <op lines> ... END
// ops:     T x | Q i x | U i x | Z i x | P e j x | E e b | C j b | LA i lev x | LK i lev | UL i | O b
//          GX b v | GM x | GD x | GZ x | R g | X k | PR | CMP | CP
// Public API only.
#include "Simbody.h"
#include <cstdio>
#include <cstring>
#include <string>
#include <vector>
#include <sstream>
#include <iostream>
#include <memory>
using namespace SimTK;

static bool g_counting = true;
static std::vector<long> g_calls;      // per force element index (custom ones only)

class PosCounter : public Force::Custom::Implementation {   // class 14: position-only, counts calcForce calls
public:
    PosCounter(const SimbodyMatterSubsystem& m, MobilizedBodyIndex b, int e) : matter(m), b(b), e(e) {}
    bool dependsOnlyOnPositions() const override { return true; }
    void calcForce(const State& s, Vector_<SpatialVec>& bf, Vector_<Vec3>&, Vector& mf) const override {
        if (g_counting) g_calls[e]++;
        const Vec3 p = matter.getMobilizedBody(b).getBodyOriginLocation(s);
        bf[b] += SpatialVec(Vec3(0.1 * p[0], 0, 0.05), Vec3(0.3 * p[1], -0.2 * p[2], 0.7 + p[0]));
    }
    Real calcPotentialEnergy(const State&) const override { return 0; }
    const SimbodyMatterSubsystem& matter; MobilizedBodyIndex b; int e;
};
class VelCounter : public Force::Custom::Implementation {   // class 15: velocity dependent, counts calcForce calls
public:
    VelCounter(const SimbodyMatterSubsystem& m, MobilizedBodyIndex b, int e) : matter(m), b(b), e(e) {}
    void calcForce(const State& s, Vector_<SpatialVec>& bf, Vector_<Vec3>&, Vector& mf) const override {
        if (g_counting) g_calls[e]++;
        const Vec3 p = matter.getMobilizedBody(b).getBodyOriginLocation(s);
        const Vec3 v = matter.getMobilizedBody(b).getBodyOriginVelocity(s);
        bf[b] += SpatialVec(Vec3(0, 0.2 * v[1], 0), Vec3(-0.4 * v[0] + 0.1 * p[2], 0.3, -0.6 * v[2]));
        for (int i = 0; i < mf.size(); ++i) mf[i] += 0.01 * (i + 1) * s.getU()[i];
    }
    Real calcPotentialEnergy(const State&) const override { return 0; }
    const SimbodyMatterSubsystem& matter; MobilizedBodyIndex b; int e;
};

struct Sys {
    MultibodySystem sys; SimbodyMatterSubsystem matter; GeneralForceSubsystem forces;
    int nb = 0, nlock = 0, ncons = 0; bool hasGrav = false;
    std::vector<int> cls;                  // class of each force element
    std::vector<Force> el;                 // handles (copies refer to the same element)
    std::vector<MobilizedBody> body;       // body[0] = Ground
    std::vector<Constraint> cons;
    Force::Gravity grav;
    Sys() : matter(sys), forces(sys) {}
};

static double val(int x) { return 0.1 + 0.37 * x; }
static UnitVec3 dirOf(int x) {
    switch (x % 4) { case 0: return UnitVec3(0, -1, 0); case 1: return UnitVec3(1, 0, 0); case 2: return UnitVec3(0, 0, -1); default: return UnitVec3(Vec3(1, -2, 0.5)); }
}
static double magOf(int x) { return x == 0 ? 0.0 : 1.5 + x; }

static std::unique_ptr<Sys> build(int nb, bool grav, int nlock, int ncons, const std::vector<int>& cls) {
    std::unique_ptr<Sys> S(new Sys());
    S->nb = nb; S->nlock = nlock; S->ncons = ncons; S->hasGrav = grav; S->cls = cls;
    S->forces.setNumberOfThreads(1);
    Body::Rigid bodyA(MassProperties(1.3, Vec3(0.1, 0.2, -0.15), Inertia(Vec3(0.1, 0.2, -0.15), 1.3) + Inertia(0.5, 0.6, 0.7, 0.01, 0.02, -0.03)));
    S->body.push_back(S->matter.Ground());
    for (int i = 1; i <= nb; ++i) {
        Transform X_PF(Rotation(0.3 * i, YAxis), Vec3(0.2 * i, -0.1, 0.3)), X_BM(Rotation(-0.2, XAxis), Vec3(0, 0.8, 0.1));
        MobilizedBody& parent = S->body[i - 1];
        if (i % 3 == 1) S->body.push_back(MobilizedBody::Pin(parent, X_PF, bodyA, X_BM));
        else if (i % 3 == 2) S->body.push_back(MobilizedBody::Ball(parent, X_PF, bodyA, X_BM));
        else S->body.push_back(MobilizedBody::Slider(parent, X_PF, bodyA, X_BM));
    }
    MobilizedBody& last = S->body[nb]; MobilizedBody& first = S->body[1];
    g_calls.assign(cls.size(), 0);
    int nmob = 0;
    for (int e = 0; e < (int)cls.size(); ++e) {
        // mobility elements act on body 1 (Pin), the second one of a kind on body 3 (Slider) if it exists
        MobilizedBody& mb = (nmob % 2 == 1 && nb >= 3) ? S->body[3] : first;
        const Vec3 s1(0.3, 0.2 + 0.1 * e, 0.1), s2(0.1, -0.05 * e, 0.2);
        switch (cls[e]) {
        case 0: S->el.push_back(Force::TwoPointLinearSpring(S->forces, S->matter.Ground(), s1, last, s2, 10. + e, 0.5)); break;
        case 1: S->el.push_back(Force::TwoPointLinearDamper(S->forces, S->matter.Ground(), s1, last, s2, 2. + e)); break;
        case 2: S->el.push_back(Force::TwoPointConstantForce(S->forces, S->matter.Ground(), s1, last, s2, 3. + e)); break;
        case 3: S->el.push_back(Force::MobilityLinearSpring(S->forces, mb, MobilizerQIndex(0), 10.0, 0.0)); nmob++; break;
        case 4: S->el.push_back(Force::MobilityLinearDamper(S->forces, mb, MobilizerUIndex(0), 1.5)); nmob++; break;
        case 5: S->el.push_back(Force::MobilityConstantForce(S->forces, mb, MobilizerUIndex(0), 0.7)); nmob++; break;
        case 6: S->el.push_back(Force::MobilityLinearStop(S->forces, mb, MobilizerQIndex(0), 50.0, 0.3, -0.2, 0.4)); nmob++; break;
        case 7: S->el.push_back(Force::MobilityDiscreteForce(S->forces, mb, MobilizerUIndex(0), 0.25)); nmob++; break;
        case 8: S->el.push_back(Force::DiscreteForces(S->forces, S->matter)); break;
        case 9: S->el.push_back(Force::ConstantForce(S->forces, last, s2, Vec3(0.5, -1, 0.25))); break;
        case 10: S->el.push_back(Force::ConstantTorque(S->forces, last, Vec3(0.1, 0.2, -0.3))); break;
        case 11: S->el.push_back(Force::GlobalDamper(S->forces, S->matter, 0.8)); break;
        case 12: S->el.push_back(Force::UniformGravity(S->forces, S->matter, Vec3(0.3, -9.8, 1), 0.5)); break;
        case 13: S->el.push_back(Force::LinearBushing(S->forces, S->matter.Ground(), Transform(Vec3(0.1, 0, 0)), last, Transform(Vec3(0, 0.1, 0)),
                                                      Vec6(10, 11, 12, 20, 21, 22), Vec6(1, 1.1, 1.2, 2, 2.1, 2.2))); break;
        case 14: S->el.push_back(Force::Custom(S->forces, new PosCounter(S->matter, last.getMobilizedBodyIndex(), e))); break;
        case 15: S->el.push_back(Force::Custom(S->forces, new VelCounter(S->matter, last.getMobilizedBodyIndex(), e))); break;
        default: fprintf(stderr, "unknown class %d\n", cls[e]); exit(2);
        }
    }
    if (grav) S->grav = Force::Gravity(S->forces, S->matter, dirOf(0), magOf(1), 0.0);
    for (int j = 0; j < ncons; ++j)
        S->cons.push_back(Constraint::Rod(S->matter.Ground(), Vec3(0.5, 0.4 + 0.1 * j, 0), last, Vec3(0.2, 0, 0.1), 1.7 + 0.1 * j));
    S->sys.realizeTopology();
    return S;
}

// ---------------------------------------------------------------- parameters of an element: read all / write all (for the fresh state)
static void setParam(Sys& S, State& s, int e, int j, int x) {
    const double v = val(x);
    switch (S.cls[e]) {
    case 3: { const Force::MobilityLinearSpring& f = Force::MobilityLinearSpring::downcast(S.el[e]); if (j == 0) f.setStiffness(s, v); else f.setQZero(s, v - 0.5); } break;
    case 4: Force::MobilityLinearDamper::downcast(S.el[e]).setDamping(s, v); break;
    case 5: Force::MobilityConstantForce::downcast(S.el[e]).setForce(s, v - 1); break;
    case 6: { const Force::MobilityLinearStop& f = Force::MobilityLinearStop::downcast(S.el[e]); if (j == 0) f.setBounds(s, -0.1 * v, 0.05 * v); else f.setMaterialProperties(s, 20 * v, 0.1 * v); } break;
    case 7: Force::MobilityDiscreteForce::downcast(S.el[e]).setMobilityForce(s, v - 1); break;
    case 8: { const Force::DiscreteForces& f = Force::DiscreteForces::downcast(S.el[e]);
              if (j == 0) f.setOneMobilityForce(s, S.body[1], MobilizerUIndex(0), v);
              else f.setOneBodyForce(s, S.body[S.nb], SpatialVec(Vec3(v, 0, 0.1), Vec3(0, -v, 0.2))); } break;
    case 13: { const Force::LinearBushing& f = Force::LinearBushing::downcast(S.el[e]);
               if (j == 0) f.setStiffness(s, Vec6(10 * v, 11, 12, 20, 21 * v, 22)); else f.setDamping(s, Vec6(v, 1.1, 1.2, 2, 2.1, 2.2 * v)); } break;
    default: break;
    }
}
static void copyParams(Sys& S, const State& from, State& to, int e) {
    switch (S.cls[e]) {
    case 3: { const Force::MobilityLinearSpring& f = Force::MobilityLinearSpring::downcast(S.el[e]); f.setStiffness(to, f.getStiffness(from)); f.setQZero(to, f.getQZero(from)); } break;
    case 4: { const Force::MobilityLinearDamper& f = Force::MobilityLinearDamper::downcast(S.el[e]); f.setDamping(to, f.getDamping(from)); } break;
    case 5: { const Force::MobilityConstantForce& f = Force::MobilityConstantForce::downcast(S.el[e]); f.setForce(to, f.getForce(from)); } break;
    case 6: { const Force::MobilityLinearStop& f = Force::MobilityLinearStop::downcast(S.el[e]);
              f.setBounds(to, f.getLowerBound(from), f.getUpperBound(from)); f.setMaterialProperties(to, f.getStiffness(from), f.getDissipation(from)); } break;
    case 7: { const Force::MobilityDiscreteForce& f = Force::MobilityDiscreteForce::downcast(S.el[e]); f.setMobilityForce(to, f.getMobilityForce(from)); } break;
    case 8: { const Force::DiscreteForces& f = Force::DiscreteForces::downcast(S.el[e]);
              f.setAllMobilityForces(to, f.getAllMobilityForces(from)); f.setAllBodyForces(to, f.getAllBodyForces(from)); } break;
    case 13: { const Force::LinearBushing& f = Force::LinearBushing::downcast(S.el[e]); f.setStiffness(to, f.getStiffness(from)); f.setDamping(to, f.getDamping(from)); } break;
    default: break;
    }
}

// a freshly created State given the same values
static State makeFresh(Sys& S, const State& h) {
    State f = S.sys.getDefaultState();
    S.matter.setUseEulerAngles(f, S.matter.getUseEulerAngles(h));
    S.sys.realizeModel(f);
    for (int i = 1; i <= S.nb; ++i) {
        const Motion::Level lev = S.body[i].getLockLevel(h);
        if (lev == Motion::NoLevel) S.body[i].unlock(f);
        else S.body[i].lockAt(f, S.body[i].getLockValueAsVector(h), lev);
    }
    for (int j = 0; j < S.ncons; ++j) { if (S.cons[j].isDisabled(h)) S.cons[j].disable(f); else S.cons[j].enable(f); }
    for (int e = 0; e < (int)S.cls.size(); ++e) { if (S.el[e].isDisabled(h)) S.el[e].disable(f); else S.el[e].enable(f); copyParams(S, h, f, e); }
    if (S.hasGrav) {
        for (int b = 1; b <= S.nb; ++b) S.grav.setBodyIsExcluded(f, MobilizedBodyIndex(b), S.grav.getBodyIsExcluded(h, MobilizedBodyIndex(b)));
        S.grav.setMagnitude(f, S.grav.getMagnitude(h)); S.grav.setDownDirection(f, S.grav.getDownDirection(h)); S.grav.setZeroHeight(f, S.grav.getZeroHeight(h));
    }
    f.setTime(h.getTime());
    f.updQ() = h.getQ(); f.updU() = h.getU(); if (h.getNZ()) f.updZ() = h.getZ();
    return f;
}

struct Cmp { long n = 0, nbit = 0, ndiff = 0; double maxrel = 0; std::string first, names, soft; unsigned long long hash = 1469598103934665603ULL; };
static void cmp1(Cmp& c, const char* what, double a, double b, double scale) {
    c.n++;
    { unsigned long long bits; double z = a == 0 ? 0.0 : a; std::memcpy(&bits, &z, 8); c.hash = (c.hash ^ bits) * 1099511628211ULL; }  // FNV over the history State's values
    if (std::memcmp(&a, &b, sizeof(double)) == 0 || (a != a && b != b)) { c.nbit++; return; }
    const double d = std::abs(a - b), tol = 1e-11 * std::max(1.0, scale) ;
    if (c.soft.size() < 150) { char buf[120]; snprintf(buf, 120, "%s%s:%.6g:%.6g", c.soft.empty() ? "" : ",", what, a, b); c.soft += buf; }
    if (!(d <= tol)) { c.ndiff++; if (("," + c.names + ",").find(std::string(",") + what + ",") == std::string::npos) c.names += (c.names.empty() ? "" : ",") + std::string(what);
        if (c.first.empty()) { char buf[200]; snprintf(buf, 200, "%s:hist=%.17g:fresh=%.17g", what, a, b); c.first = buf; } }
    if (d / std::max(1.0, scale) > c.maxrel) c.maxrel = d / std::max(1.0, scale);
}
static void cmpV(Cmp& c, const char* what, const Vector& a, const Vector& b) {
    if (a.size() != b.size()) { c.n++; c.ndiff++; if (c.first.empty()) c.first = std::string(what) + ":size"; c.names += std::string(c.names.empty() ? "" : ",") + what; return; }
    double sc = 0; for (int i = 0; i < a.size(); ++i) sc = std::max(sc, std::abs(b[i]));
    for (int i = 0; i < a.size(); ++i) cmp1(c, what, a[i], b[i], sc);
}
static void cmpSV(Cmp& c, const char* what, const Vector_<SpatialVec>& a, const Vector_<SpatialVec>& b) {
    if (a.size() != b.size()) { c.n++; c.ndiff++; if (c.first.empty()) c.first = std::string(what) + ":size"; return; }
    double sc = 0; for (int i = 0; i < a.size(); ++i) for (int k = 0; k < 2; ++k) for (int l = 0; l < 3; ++l) sc = std::max(sc, std::abs(b[i][k][l]));
    for (int i = 0; i < a.size(); ++i) for (int k = 0; k < 2; ++k) for (int l = 0; l < 3; ++l) cmp1(c, what, a[i][k][l], b[i][k][l], sc);
}

static long g_gravOffset = 0;   // Gravity evaluations caused by fresh states (not part of the history)

// everything computed from the State at its current stage, history state vs fresh state
static void compare(Sys& S, const State& h) {
    Cmp c; const Stage g = h.getSystemStage();
    // evaluation on request in the history state itself (potential energy / Gravity body forces are compared below):
    // this one belongs to the history (the model performs Query gravity at this point)
    if (S.hasGrav && g >= Stage::Position) (void)S.grav.getBodyForces(h);
    g_counting = false;
    const long before = S.hasGrav ? S.grav.getNumEvaluations() : 0;
    // which lazily evaluated results read valid in the history state (before anything below touches them)
    const bool hCBI = g >= Stage::Instance && S.matter.isCompositeBodyInertiasRealized(h);
    const bool hABI = g >= Stage::Instance && S.matter.isArticulatedBodyInertiasRealized(h);
    const bool hPK = g >= Stage::Instance && S.matter.isPositionKinematicsRealized(h);
    const bool hVK = g >= Stage::Instance && S.matter.isVelocityKinematicsRealized(h);
    State f = makeFresh(S, h);
    if (g > Stage::Model) S.sys.realize(f, g);
    if (hPK || g >= Stage::Position) {
        if (g < Stage::Position) { S.sys.realize(f, Stage::Instance); S.matter.realizePositionKinematics(f); }
        for (int i = 1; i <= S.nb; ++i) {
            const Transform &a = S.body[i].getBodyTransform(h), &b = S.body[i].getBodyTransform(f);
            for (int k = 0; k < 3; ++k) { cmp1(c, "X_GB.p", a.p()[k], b.p()[k], 1); for (int l = 0; l < 3; ++l) cmp1(c, "X_GB.R", a.R()[k][l], b.R()[k][l], 1); }
        }
    }
    if (hVK || g >= Stage::Velocity) {
        if (g < Stage::Velocity) S.matter.realizeVelocityKinematics(f);
        for (int i = 1; i <= S.nb; ++i) {
            const SpatialVec &a = S.body[i].getBodyVelocity(h), &b = S.body[i].getBodyVelocity(f);
            for (int k = 0; k < 2; ++k) for (int l = 0; l < 3; ++l) cmp1(c, "V_GB", a[k][l], b[k][l], 1);
        }
    }
    if (g >= Stage::Position) {
        cmpV(c, "qerr", h.getQErr(), f.getQErr());
        cmp1(c, "PE", S.sys.calcPotentialEnergy(h), S.sys.calcPotentialEnergy(f), 10);   // evaluates Gravity's cache on request
    }
    if (S.hasGrav && g >= Stage::Position) cmpSV(c, "gravityBodyForces", S.grav.getBodyForces(h), S.grav.getBodyForces(f));
    if (g >= Stage::Velocity) { cmpV(c, "uerr", h.getUErr(), f.getUErr()); cmpV(c, "qdot", h.getQDot(), f.getQDot()); cmp1(c, "KE", S.sys.calcKineticEnergy(h), S.sys.calcKineticEnergy(f), 10); }
    if (g >= Stage::Dynamics) {
        cmpSV(c, "rigidBodyForces", S.sys.getRigidBodyForces(h, Stage::Dynamics), S.sys.getRigidBodyForces(f, Stage::Dynamics));
        cmpV(c, "mobilityForces", S.sys.getMobilityForces(h, Stage::Dynamics), S.sys.getMobilityForces(f, Stage::Dynamics));
    }
    double mulmax = 0; int allp = 1;
    for (int i = 1; i <= S.nb; ++i) if (S.body[i].getLockLevel(h) == Motion::NoLevel) allp = 0;
    if (g >= Stage::Acceleration) {
        cmpV(c, "udot", h.getUDot(), f.getUDot());
        // with every mobility prescribed G M^-1 G^T is the zero matrix; FactorQTZ::solve used to leave the multipliers unwritten
        // (fixed by 1ce33455): their magnitude is reported for the regression witness
        if (allp && h.getMultipliers().size()) { for (int i = 0; i < h.getMultipliers().size(); ++i) mulmax = std::max(mulmax, std::abs(h.getMultipliers()[i])); }
        cmpV(c, "multipliers", h.getMultipliers(), f.getMultipliers());
        cmpV(c, "udoterr", h.getUDotErr(), f.getUDotErr()); if (h.getNZ()) cmpV(c, "zdot", h.getZDot(), f.getZDot());
        for (int i = 1; i <= S.nb; ++i) {
            const SpatialVec &a = S.body[i].getBodyAcceleration(h), &b = S.body[i].getBodyAcceleration(f);
            for (int k = 0; k < 2; ++k) for (int l = 0; l < 3; ++l) cmp1(c, "A_GB", a[k][l], b[k][l], 10);
        }
    }
    if (hABI) { S.matter.realizeArticulatedBodyInertias(f);
        for (int i = 1; i <= S.nb; ++i) {
            const ArticulatedInertia &a = S.matter.getArticulatedBodyInertia(h, MobilizedBodyIndex(i)), &b = S.matter.getArticulatedBodyInertia(f, MobilizedBodyIndex(i));
            const SpatialMat ma = a.toSpatialMat(), mb = b.toSpatialMat();
            for (int p = 0; p < 2; ++p) for (int q = 0; q < 2; ++q) for (int k = 0; k < 3; ++k) for (int l = 0; l < 3; ++l) cmp1(c, "ABI", ma(p, q)(k, l), mb(p, q)(k, l), 10);
        }
    }
    if (hCBI) { S.matter.realizeCompositeBodyInertias(f);
        for (int i = 1; i <= S.nb; ++i) {
            const SpatialMat ma = S.matter.getCompositeBodyInertia(h, MobilizedBodyIndex(i)).toSpatialMat(), mb = S.matter.getCompositeBodyInertia(f, MobilizedBodyIndex(i)).toSpatialMat();
            for (int p = 0; p < 2; ++p) for (int q = 0; q < 2; ++q) for (int k = 0; k < 3; ++k) for (int l = 0; l < 3; ++l) cmp1(c, "CBI", ma(p, q)(k, l), mb(p, q)(k, l), 10);
        }
    }
    // per-element contributions recomputed from scratch on both (calcForceContribution never uses the subsystem cache)
    if (g >= Stage::Velocity) {
        for (int e = 0; e < (int)S.cls.size(); ++e) {
            Vector_<SpatialVec> ba, bb; Vector_<Vec3> pa, pb; Vector ma, mb;
            S.el[e].calcForceContribution(h, ba, pa, ma); S.el[e].calcForceContribution(f, bb, pb, mb);
            cmpSV(c, "contribution.body", ba, bb); cmpV(c, "contribution.mobility", ma, mb);
        }
    }
    if (S.hasGrav) g_gravOffset += S.grav.getNumEvaluations() - before;
    g_counting = true;
    printf("CMP stage=%d n=%ld bitwise=%ld ndiff=%ld maxrel=%.3g names=%s first=%s notbitwise=%s mulgarbage=%.17g allp=%d hash=%016llx\n", (int)g, c.n, c.nbit, c.ndiff, c.maxrel,
           c.names.empty() ? "-" : c.names.c_str(), c.first.empty() ? "-" : c.first.c_str(), c.soft.empty() ? "-" : c.soft.c_str(), mulmax, allp, c.hash);
}

int main() {
    std::unique_ptr<Sys> S; std::unique_ptr<State> sp(new State()); std::string line;
    while (std::getline(std::cin, line)) {
        std::istringstream in(line); std::string op; in >> op;
        if (op.empty()) continue;
        try {
            if (op == "SYS") {
                int idx, nb, grav, nlock, ncons, ne; in >> idx >> nb >> grav >> nlock >> ncons >> ne; std::vector<int> cls(ne); for (int& c : cls) in >> c;
                S = build(nb, grav != 0, nlock, ncons, cls); printf("SYS %d\n", idx); continue;
            }
            if (op == "H") { std::string id; in >> id; sp.reset(new State(S->sys.getDefaultState())); S->sys.realizeModel(*sp);
                std::fill(g_calls.begin(), g_calls.end(), 0L); if (S->hasGrav) g_gravOffset = S->grav.getNumEvaluations();
                printf("H %s\n", id.c_str()); continue; }
            if (op == "END") { printf("END\n"); continue; }
            Sys& Y = *S; State& s = *sp;
            if (op == "T") { int x; in >> x; s.setTime(val(x)); }
            else if (op == "Q") { int i, x; in >> i >> x; s.updQ()[i % s.getNQ()] = val(x); }
            else if (op == "U") { int i, x; in >> i >> x; s.updU()[i % s.getNU()] = val(x) - 0.5; }
            else if (op == "Z") { int i, x; in >> i >> x; if (s.getNZ()) s.updZ()[i % s.getNZ()] = val(x); }
            else if (op == "P") { int e, j, x; in >> e >> j >> x; setParam(Y, s, e, j, x); }
            else if (op == "E") { int e, b; in >> e >> b; if (b) Y.el[e].enable(s); else Y.el[e].disable(s); }
            else if (op == "C") { int j, b; in >> j >> b; if (b) Y.cons[j].enable(s); else Y.cons[j].disable(s); }
            else if (op == "LA") { int i, lev, x; in >> i >> lev >> x; const MobilizedBody& mb = Y.body[i];
                const int n = lev == 2 ? mb.getNumQ(s) : mb.getNumU(s); Vector v(n); for (int k = 0; k < n; ++k) v[k] = val(x) + 0.05 * k;
                mb.lockAt(s, v, Motion::Level(lev)); }
            else if (op == "LK") { int i, lev; in >> i >> lev; Y.body[i].lock(s, Motion::Level(lev)); }
            else if (op == "UL") { int i; in >> i; Y.body[i].unlock(s); }
            else if (op == "O") { int b; in >> b; Y.matter.setUseEulerAngles(s, b != 0); Y.sys.realizeModel(s); }
            else if (op == "GX") { int b, v; in >> b >> v; Y.grav.setBodyIsExcluded(s, MobilizedBodyIndex(b), v != 0); }
            else if (op == "GM") { int x; in >> x; Y.grav.setMagnitude(s, magOf(x)); }
            else if (op == "GD") { int x; in >> x; Y.grav.setDownDirection(s, dirOf(x)); }
            else if (op == "GZ") { int x; in >> x; Y.grav.setZeroHeight(s, 0.25 * x); }
            else if (op == "R") { int g; in >> g; Y.sys.realize(s, Stage(g)); }
            else if (op == "X") { int k; in >> k; const Stage g = s.getSystemStage();
                const bool pk = g >= Stage::Instance && Y.matter.isPositionKinematicsRealized(s);
                if (k == 0) { if (g >= Stage::Instance) Y.matter.realizePositionKinematics(s); }
                else if (k == 1) { if (pk) Y.matter.realizeVelocityKinematics(s); }
                else if (k == 2) { if (pk) Y.matter.realizeCompositeBodyInertias(s); }
                else if (k == 3) { if (pk) Y.matter.realizeArticulatedBodyInertias(s); }
                else if (k == 4) { if (g >= Stage::Instance && Y.matter.isVelocityKinematicsRealized(s) && Y.matter.isArticulatedBodyInertiasRealized(s)) Y.matter.realizeArticulatedBodyVelocity(s); }
                else if (k == 5) { if (Y.hasGrav && g >= Stage::Position) (void)Y.grav.getBodyForces(s); } }
            else if (op == "PR") { Y.sys.realize(s, Stage::Time); Y.sys.prescribeQ(s); Y.sys.realize(s, Stage::Position); Y.sys.prescribeU(s); }
            else if (op == "CMP") { compare(Y, s); }
            else if (op == "CP") { State* c = new State(s); sp.reset(c); }     // copy construction; the history continues on the copy
            else { printf("BADOP %s\n", op.c_str()); continue; }
        } catch (const std::exception& ex) {
            std::string m = ex.what(); for (char& ch : m) if (ch == '\n') ch = ' ';
            printf("THROW %s : %s\n", line.c_str(), m.substr(0, 300).c_str());
        }
        // Gravity evaluations caused by fresh states are not part of the history
        if (S) { State& s = *sp; const Stage g = s.getSystemStage();
            int pk = 0, vk = 0, cbi = 0, abi = 0, abv = 0, gv = 0; long gn = 0;
            if (g >= Stage::Model) {
                pk = S->matter.isPositionKinematicsRealized(s); vk = S->matter.isVelocityKinematicsRealized(s);
                cbi = S->matter.isCompositeBodyInertiasRealized(s); abi = S->matter.isArticulatedBodyInertiasRealized(s);
                abv = S->matter.isArticulatedBodyVelocityRealized(s); if (S->hasGrav) gv = S->grav.isForceCacheValid(s);
            }
            if (S->hasGrav) gn = S->grav.getNumEvaluations() - g_gravOffset;
            printf("S %d %d%d%d%d%d %d %ld", (int)g, pk, vk, cbi, abi, abv, gv, gn);
            for (int e = 0; e < (int)S->cls.size(); ++e) if (S->cls[e] >= 14) printf(" %ld", g_calls[e]);
            printf("\n");
        }
    }
    return 0;
}
