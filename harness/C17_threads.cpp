// C17 harness: force totals across thread counts, per-call access observations, and a schedule-controlled overlap probe.
//
// stdin commands (one per line):
//   MIX <id> <n> (<kind> <par> <pos> <coef>)*n     kind: C custom element with the given flags; S TwoPointLinearSpring (position-only);
//                                                 D TwoPointLinearDamper; K ConstantForce (position-only); G GlobalDamper (built-ins: par=0)
//   RUN <mixid> <threads> <when>                  when=0: setNumberOfThreads before realizeTopology, 1: after realizeTopology
//        four Dynamics realizations: fresh; after a u change; after a q change; after a u change.  Prints per realization
//        TOT <mix> <threads> <when> <r> <hex doubles...>     rigid body forces of every body and all mobility forces
//        CALL <mix> <threads> <when> <r> <elem> <isSystemArray>   one line per calcForce call of a Custom element
//   REF <mixid>                                   the same mix with no Custom element declaring parallel / position-only, 1 thread: REF <mix> <r> <hex...>
//   CON <mixid>                                   per-element contributions at the four states: CON <mix> <r> <elem> <hex...>
//   PROBE <threads> <when> <withpos> <withpar>     overlap probe (see below): prints PROBE ... overlap=<0/1> sysarray=<0/1> changed=<0/1> otherfin=<n>
// Overlap probe: a non-parallel velocity-dependent Custom element (part of task 0) adds its force, lets the other workers
// (held at the hook point "pe.w.unlocked" until then) run initialize()/execute()/finish(), and then looks at the array it
// was given: if that array is the system's shared force array, or its contents changed, while another worker completed
// finish(), two threads touched the same array concurrently.
#include "Simbody.h"
#include "SimTKcommon/internal/VerifTrace.h"
#include <cstdio>
#include <cstring>
#include <string>
#include <vector>
#include <map>
#include <sstream>
#include <iostream>
#include <atomic>
#include <mutex>
#include <thread>
#include <chrono>
using namespace SimTK;

struct Obs { int elem; int isSys; };
static std::mutex g_obsMutex; static std::vector<Obs> g_obs;
static const void* g_sysArray = nullptr;

class CF : public Force::Custom::Implementation {
public:
    // pos = the force law uses positions only; declPos / par = what the element DECLARES (the reference run declares nothing)
    CF(const SimbodyMatterSubsystem& m, MobilizedBodyIndex b, int e, bool par, bool pos, Real c, bool declared = true)
    :   matter(m), b(b), e(e), par(par && declared), pos(pos), declPos(pos && declared), c(c) {}
    bool dependsOnlyOnPositions() const override { return declPos; }
    bool shouldBeParallelIfPossible() const override { return par; }
    void calcForce(const State& s, Vector_<SpatialVec>& bf, Vector_<Vec3>&, Vector& mf) const override {
        { std::lock_guard<std::mutex> g(g_obsMutex); g_obs.push_back({e, (const void*)&bf == g_sysArray ? 1 : 0}); }
        const Vec3 p = matter.getMobilizedBody(b).getBodyOriginLocation(s);
        Vec3 f(c * (0.3 + p[0]), c * 0.7 * p[1], -c * (1 + 0.2 * p[2])), t(0.1 * c * p[2], -0.2 * c, 0.05 * c * p[0]);
        if (!pos) { const Vec3 v = matter.getMobilizedBody(b).getBodyOriginVelocity(s); f += Vec3(-c * v[0], 0.5 * c * v[2], c * v[1]); t += 0.1 * c * v; }
        bf[b] += SpatialVec(t, f);
        for (int i = 0; i < mf.size(); ++i) mf[i] += 1e-2 * c * (i + 1) * (pos ? s.getQ()[i % s.getNQ()] : s.getU()[i]);
    }
    Real calcPotentialEnergy(const State&) const override { return 0; }
    const SimbodyMatterSubsystem& matter; MobilizedBodyIndex b; int e; bool par, pos, declPos; Real c;
};

struct El { char kind; int par, pos; double coef; };
struct Mix { std::vector<El> els; };
static std::map<int, Mix> g_mix;

struct Sys {
    MultibodySystem sys; SimbodyMatterSubsystem matter; GeneralForceSubsystem forces; std::vector<MobilizedBody> body; std::vector<Force> el;
    Sys() : matter(sys), forces(sys) {}
};
static Sys* build(const Mix& mx, int threads, int when, State& s, Force::Custom::Implementation* extra = nullptr, bool declared = true) {
    Sys* S = new Sys();
    Body::Rigid bodyA(MassProperties(1.3, Vec3(0.1, 0.2, -0.15), Inertia(Vec3(0.1, 0.2, -0.15), 1.3) + Inertia(0.5, 0.6, 0.7, 0.01, 0.02, -0.03)));
    S->body.push_back(S->matter.Ground());
    S->body.push_back(MobilizedBody::Free(S->matter.Ground(), Transform(Vec3(0.1, 0.2, 0.3)), bodyA, Transform(Vec3(0, 0.5, 0))));
    S->body.push_back(MobilizedBody::Pin(S->body[1], Transform(Rotation(0.4, YAxis), Vec3(0.3, 0, 0.1)), bodyA, Transform(Vec3(0, 0.8, 0.1))));
    S->body.push_back(MobilizedBody::Slider(S->body[2], Transform(Rotation(-0.3, ZAxis), Vec3(0, 0.2, 0.1)), bodyA, Transform(Vec3(0.1, 0.6, 0))));
    for (int e = 0; e < (int)mx.els.size(); ++e) {
        const El& x = mx.els[e]; MobilizedBody& bd = S->body[1 + e % 3]; const Vec3 s1(0.3, 0.2 + 0.1 * e, 0.1), s2(0.1, -0.05 * e, 0.2);
        switch (x.kind) {
        case 'C': S->el.push_back(Force::Custom(S->forces, new CF(S->matter, bd.getMobilizedBodyIndex(), e, x.par != 0, x.pos != 0, x.coef, declared))); break;
        case 'S': S->el.push_back(Force::TwoPointLinearSpring(S->forces, S->matter.Ground(), s1, bd, s2, 10 * x.coef, 0.5)); break;
        case 'D': S->el.push_back(Force::TwoPointLinearDamper(S->forces, S->matter.Ground(), s1, bd, s2, 2 * x.coef)); break;
        case 'K': S->el.push_back(Force::ConstantForce(S->forces, bd, s2, Vec3(0.5 * x.coef, -x.coef, 0.25))); break;
        case 'G': S->el.push_back(Force::GlobalDamper(S->forces, S->matter, 0.3 * x.coef)); break;
        default: fprintf(stderr, "bad kind %c\n", x.kind); exit(2);
        }
    }
    if (extra) Force::Custom(S->forces, extra);
    if (when == 0) S->forces.setNumberOfThreads(threads);
    S->sys.realizeTopology(); s = S->sys.getDefaultState(); S->sys.realizeModel(s);
    if (when == 1) S->forces.setNumberOfThreads(threads);
    for (int i = 0; i < s.getNQ(); ++i) s.updQ()[i] = 0.15 + 0.11 * i;
    s.updQ()[0] = 0.9; s.updQ()[1] = 0.2; s.updQ()[2] = -0.3; s.updQ()[3] = 0.25;   // quaternion of the Free body (normalised internally)
    for (int i = 0; i < s.getNU(); ++i) s.updU()[i] = 0.3 - 0.07 * i;
    return S;
}
static void perturb(State& s, int r) {   // the four states of a run
    if (r == 1 || r == 3) { for (int i = 0; i < s.getNU(); ++i) s.updU()[i] += 0.05 * (i + 1) * (r == 1 ? 1 : -0.5); }
    if (r == 2) { for (int i = 4; i < s.getNQ(); ++i) s.updQ()[i] += 0.03 * (i + 1); }
}
static void printVec(const Vector_<SpatialVec>& F, const Vector& mf) {
    for (int i = 0; i < F.size(); ++i) for (int k = 0; k < 2; ++k) for (int l = 0; l < 3; ++l) printf(" %a", F[i][k][l]);
    for (int i = 0; i < mf.size(); ++i) printf(" %a", mf[i]);
    printf("\n");
}

// ---------------------------------------------------------------- overlap probe
static std::atomic<int> g_probeAdded{1}, g_otherFin{0}, g_probeActive{0};
static std::thread::id g_probeThread;
static thread_local int t_workerIndex = -1;
static void sink(const char* tag, int n, const double* v) {
    if (!std::strcmp(tag, "pe.w.start") && n >= 1) t_workerIndex = (int)v[0];
    if (!std::strcmp(tag, "pe.w.fin.end") && g_probeActive.load() && std::this_thread::get_id() != g_probeThread) g_otherFin++;
}
static void yielder(const char* tag) {
    // hold every worker other than the one running task 0 before its initialize() until the probe has added its force
    if (!std::strcmp(tag, "pe.w.unlocked") && t_workerIndex > 0) {
        for (int k = 0; k < 2000 && !g_probeAdded.load(); ++k) std::this_thread::sleep_for(std::chrono::microseconds(250));
    }
}
struct ProbeResult { int sysarray = 0, changed = 0, otherfin = 0, called = 0; };
static ProbeResult g_pr;
static int g_expectOthers = 0;
class Probe : public Force::Custom::Implementation {
public:
    Probe(MobilizedBodyIndex b) : b(b) {}
    void calcForce(const State& s, Vector_<SpatialVec>& bf, Vector_<Vec3>&, Vector& mf) const override {
        if (!armed) return;
        g_probeThread = std::this_thread::get_id(); g_pr.called++;
        g_pr.sysarray = ((const void*)&bf == g_sysArray);
        bf[b] += SpatialVec(Vec3(0), Vec3(1.25, 0, 0));
        const SpatialVec mine = bf[b];
        g_probeActive = 1; g_probeAdded = 1;
        for (int k = 0; k < 2000 && g_otherFin.load() < g_expectOthers; ++k) std::this_thread::sleep_for(std::chrono::microseconds(250));
        g_pr.otherfin = g_otherFin.load();
        const SpatialVec now = bf[b];
        g_pr.changed = std::memcmp(&mine, &now, sizeof(SpatialVec)) != 0;
        g_probeActive = 0;
    }
    Real calcPotentialEnergy(const State&) const override { return 0; }
    MobilizedBodyIndex b; mutable bool armed = false;
};

int main() {
    std::string line;
    while (std::getline(std::cin, line)) {
        std::istringstream in(line); std::string op; in >> op;
        if (op == "MIX") { int id, n; in >> id >> n; Mix m; for (int i = 0; i < n; ++i) { El e; in >> e.kind >> e.par >> e.pos >> e.coef; m.els.push_back(e); } g_mix[id] = m; printf("MIX %d %d\n", id, n); }
        else if (op == "RUN") {
            int id, th, when; in >> id >> th >> when; State s; Sys* S = build(g_mix[id], th, when, s);
            for (int r = 0; r < 4; ++r) {
                perturb(s, r); S->sys.realize(s, Stage::Velocity);
                g_sysArray = (const void*)&S->sys.updRigidBodyForces(s, Stage::Dynamics); g_obs.clear();
                S->sys.realize(s, Stage::Dynamics);
                printf("TOT %d %d %d %d", id, th, when, r); printVec(S->sys.getRigidBodyForces(s, Stage::Dynamics), S->sys.getMobilityForces(s, Stage::Dynamics));
                for (const Obs& o : g_obs) printf("CALL %d %d %d %d %d %d\n", id, th, when, r, o.elem, o.isSys);
            }
            printf("THREADS %d %d %d %d\n", id, th, when, S->forces.getNumberOfThreads());
            delete S;
        }
        else if (op == "REF") {   // the same elements with nothing declared parallel / position-only, one thread: REF <mix> <r> <hex...>
            int id; in >> id; State s; Sys* S = build(g_mix[id], 1, 0, s, nullptr, false); g_sysArray = nullptr;
            for (int r = 0; r < 4; ++r) {
                perturb(s, r); S->sys.realize(s, Stage::Dynamics);
                printf("REF %d %d", id, r); printVec(S->sys.getRigidBodyForces(s, Stage::Dynamics), S->sys.getMobilityForces(s, Stage::Dynamics));
            }
            delete S;
        }
        else if (op == "CON") {
            int id; in >> id; State s; Sys* S = build(g_mix[id], 1, 0, s); g_sysArray = nullptr;
            for (int r = 0; r < 4; ++r) {
                perturb(s, r); S->sys.realize(s, Stage::Velocity);
                for (int e = 0; e < (int)S->el.size(); ++e) {
                    Vector_<SpatialVec> bf; Vector_<Vec3> pf; Vector mf; S->el[e].calcForceContribution(s, bf, pf, mf);
                    printf("CON %d %d %d", id, r, e); printVec(bf, mf);
                }
            }
            delete S;
        }
        else if (op == "PROBE") {
            int th, when, withpos, withpar; in >> th >> when >> withpos >> withpar;
            SimTK::VerifTrace::sink().store(&sink); SimTK::VerifTrace::yielder().store(&yielder);
            Mix m; if (withpos) m.els.push_back({'K', 0, 1, 1.0}); if (withpar) m.els.push_back({'C', 1, 0, 2.0});
            State s; Probe* pr = new Probe(MobilizedBodyIndex(1)); Sys* S = build(m, th, when, s, pr);
            // first realization unarmed (fills the position-only cache if there is one); the probe runs in the second one
            g_probeAdded = 1; S->sys.realize(s, Stage::Dynamics);
            s.updU()[0] += 0.1; S->sys.realize(s, Stage::Velocity);
            g_sysArray = (const void*)&S->sys.updRigidBodyForces(s, Stage::Dynamics);
            g_pr = ProbeResult(); g_probeAdded = 0; g_otherFin = 0; g_probeActive = 0; pr->armed = true;
            const int actual = S->forces.getNumberOfThreads(); g_expectOthers = actual > 1 ? actual - 1 : 0;
            S->sys.realize(s, Stage::Dynamics);
            pr->armed = false; g_probeAdded = 1;
            const int overlap = g_pr.otherfin > 0 && (g_pr.sysarray || g_pr.changed);
            printf("PROBE threads=%d when=%d withpos=%d withpar=%d actualthreads=%d called=%d overlap=%d sysarray=%d changed=%d otherfin=%d\n",
                   th, when, withpos, withpar, actual, g_pr.called, overlap, g_pr.sysarray, g_pr.changed, g_pr.otherfin);
            SimTK::VerifTrace::sink().store(nullptr); SimTK::VerifTrace::yielder().store(nullptr);
            delete S;
        }
        fflush(stdout);
    }
    return 0;
}
