// C18 correspondence harness: drives real SimTK::State objects through the public API with the operation
// sequences read from stdin and prints, after every operation, whether the call threw and a full dump of the
// observable bookkeeping of every State slot (stages, stage versions, value versions, dependents lists,
// validity of every cache entry, values).  The extracted Coq model (ocaml/C18_drv.ml) prints the same text.
// Operations outside the domain of the model ("guard": violated assert()/index preconditions of the code,
// which are abort or undefined behaviour) are answered "T 1" without calling the implementation, by the same
// rule as in C18_Model.v [step].
#include "SimTKcommon.h"
#include <cstdio>
#include <iostream>
#include <sstream>
#include <string>
#include <vector>
using namespace SimTK;
typedef std::pair<int,int> K;

static int ndv(const State& s, int ss) { int n=0; while (s.hasDiscreteVar(DiscreteVarKey(SubsystemIndex(ss), DiscreteVariableIndex(n)))) ++n; return n; }
static int nce(const State& s, int ss) { int n=0; while (s.hasCacheEntry(CacheEntryKey(SubsystemIndex(ss), CacheEntryIndex(n)))) ++n; return n; }
static void deps(std::string& o, const ListOfDependents& l) {
    o += "[";
    for (auto p = l.cbegin(); p != l.cend(); ++p) { o += std::to_string((int)p->first) + "." + std::to_string((int)p->second) + " "; }
    o += "]";
}
static std::string dump(const State& s, int slot) {
    std::string o; char buf[256];
    const int g = (int)s.getSystemStage();
    Array_<StageVersion> sv; s.getSystemStageVersions(sv);
    std::snprintf(buf, sizeof buf, "S%d sys=%d sv=", slot, g); o += buf;
    for (unsigned i=0; i<sv.size(); ++i) { o += std::to_string((long long)sv[i]); o += ","; }
    std::snprintf(buf, sizeof buf, " v=%lld,%lld,%lld qd=", (long long)s.getQValueVersion(), (long long)s.getUValueVersion(), (long long)s.getZValueVersion()); o += buf;
    deps(o, s.getQDependents()); o += " ud="; deps(o, s.getUDependents()); o += " zd="; deps(o, s.getZDependents());
    std::snprintf(buf, sizeof buf, " n=%d,%d,%d\n", s.getNQ(), s.getNU(), s.getNZ()); o += buf;
    for (int i=0; i<s.getNumSubsystems(); ++i) {
        const SubsystemIndex sx(i);
        const PerSubsystemInfo& pi = s.getPerSubsystemInfo(sx);
        std::snprintf(buf, sizeof buf, " B%d st=%d ver=", i, (int)s.getSubsystemStage(sx)); o += buf;
        for (int j=1; j<=9; ++j) { o += std::to_string((long long)pi.getStageVersion(Stage(j))); o += ","; }
        o += "\n";
        const int nd = ndv(s,i), nc = nce(s,i);
        for (int j=0; j<nd; ++j) {
            const DiscreteVarKey dk(sx, DiscreteVariableIndex(j));
            const DiscreteVarInfo& d = s.getDiscreteVarInfo(dk);
            const CacheEntryIndex ax = d.getAutoUpdateEntry();
            std::snprintf(buf, sizeof buf, "  D%d a=%d i=%d au=%d vv=%lld val=%d deps=", j, (int)d.getAllocationStage(), (int)d.getInvalidatedStage(),
                          ax.isValid() ? (int)ax : -1, (long long)d.getValueVersion(), (int)Value<int>::downcast(d.getValue())); o += buf;
            deps(o, d.getDependents()); o += "\n";
        }
        for (int j=0; j<nc; ++j) {
            const CacheEntryKey ck(sx, CacheEntryIndex(j));
            const CacheEntryInfo& c = s.getCacheEntryInfo(ck);
            const DiscreteVariableIndex av = c.getAssociatedVar();
            std::snprintf(buf, sizeof buf, "  C%d a=%d d=%d b=%d as=%d p=%d%d%d vv=%lld vw=%lld ok=%d val=%d deps=", j, (int)c.getAllocationStage(),
                          (int)c.getDependsOnStage(), (int)c.getComputedByStage(), av.isValid() ? (int)av : -1,
                          (int)c.isQPrerequisite(), (int)c.isUPrerequisite(), (int)c.isZPrerequisite(),
                          (long long)c.getValueVersion(), (long long)c.getDependsOnVersionWhenLastComputed(),
                          (int)s.isCacheValueRealized(sx, CacheEntryIndex(j)), (int)Value<int>::downcast(c.getValue())); o += buf;
            deps(o, c.getDependents()); o += "\n";
        }
    }
    return o;
}

static bool hasDV(const State& s, K k) { return k.first >= 0 && k.first < s.getNumSubsystems() && k.second >= 0 && k.second < ndv(s,k.first); }
static bool hasCE(const State& s, K k) { return k.first >= 0 && k.first < s.getNumSubsystems() && k.second >= 0 && k.second < nce(s,k.first); }
static bool nodup(const std::vector<K>& v) { for (size_t i=0;i<v.size();++i) for (size_t j=i+1;j<v.size();++j) if (v[i]==v[j]) return false; return true; }
static int stg(const State& s, int ss) { return (int)s.getSubsystemStage(SubsystemIndex(ss)); }
static bool outlives(const State& s, int ss, int pss, int palloc) { return pss == ss || (palloc <= stg(s,pss) && palloc <= stg(s,ss)); }

// returns: 0 ok, 1 threw (or guard)
static int doOp(State& s, std::istringstream& is, const std::string& nm) {
    const int ns = s.getNumSubsystems();
    auto rdK = [&](){ K k; is >> k.first >> k.second; return k; };
    if (nm=="AQ" || nm=="AU" || nm=="AZ") { int ss,n; is >> ss >> n; if (ss>=ns) return 1;
        Vector v(n, 0.0); const SubsystemIndex sx(ss);
        if (nm=="AQ") s.allocateQ(sx,v); else if (nm=="AU") s.allocateU(sx,v); else s.allocateZ(sx,v); return 0; }
    if (nm=="ADV" || nm=="AADV") { int ss,inv,v,dep=0; is >> ss >> inv >> v; if (nm=="AADV") is >> dep; if (ss>=ns) return 1;
        const int cur = stg(s,ss);
        if (1<=inv && inv<=9 && inv <= cur+1 && cur <= (inv<=2 ? 0 : 1)) return 1;   // guard: assert(isReasonable())
        if (inv < 0 || inv > 10 || dep < 0 || dep > 10) return 1;
        if (nm=="ADV") s.allocateDiscreteVariable(SubsystemIndex(ss), Stage(inv), new Value<int>(v));
        else s.allocateAutoUpdateDiscreteVariable(SubsystemIndex(ss), Stage(inv), new Value<int>(v), Stage(dep));
        return 0; }
    if (nm=="ACE") { int ss,dep,by; is >> ss >> dep >> by; if (ss>=ns) return 1;
        s.allocateCacheEntry(SubsystemIndex(ss), Stage(dep), Stage(by), new Value<int>(0)); return 0; }
    if (nm=="ACEP") { int ss,dep,by,q,u,z,n; is >> ss >> dep >> by >> q >> u >> z;
        std::vector<K> dv, ce; is >> n; for (int i=0;i<n;++i) dv.push_back(rdK()); is >> n; for (int i=0;i<n;++i) ce.push_back(rdK());
        if (ss>=ns) return 1;
        for (auto k : dv) if (!hasDV(s,k)) return 1;
        for (auto k : ce) if (!hasCE(s,k)) return 1;
        if (!nodup(dv) || !nodup(ce)) return 1;
        for (auto k : dv) if (!outlives(s, ss, k.first, (int)s.getDiscreteVarAllocationStage(SubsystemIndex(k.first), DiscreteVariableIndex(k.second)))) return 1;
        for (auto k : ce) if (!outlives(s, ss, k.first, (int)s.getCacheEntryAllocationStage(SubsystemIndex(k.first), CacheEntryIndex(k.second)))) return 1;
        Array_<DiscreteVarKey> dvs; Array_<CacheEntryKey> ces;
        for (auto k : dv) dvs.push_back(DiscreteVarKey(SubsystemIndex(k.first), DiscreteVariableIndex(k.second)));
        for (auto k : ce) ces.push_back(CacheEntryKey(SubsystemIndex(k.first), CacheEntryIndex(k.second)));
        s.allocateCacheEntryWithPrerequisites(SubsystemIndex(ss), Stage(dep), Stage(by), q!=0, u!=0, z!=0, dvs, ces, new Value<int>(0));
        return 0; }
    if (nm=="ADVS") { int ss,g; is >> ss >> g; if (ss>=ns) return 1; if (!(1<=g && g<=9 && stg(s,ss)+1==g)) return 1;
        s.advanceSubsystemToStage(SubsystemIndex(ss), Stage(g)); return 0; }
    if (nm=="ADVY") { int g; is >> g; if (!(1<=g && g<=9 && (int)s.getSystemStage()+1==g)) return 1;
        for (int i=0;i<ns;++i) if (stg(s,i) < g) return 1;
        s.advanceSystemToStage(Stage(g)); return 0; }
    if (nm=="INV" || nm=="INVC") { int g; is >> g; if (!(1<=g && g<=10)) return 1;
        if (nm=="INV") s.invalidateAll(Stage(g)); else s.invalidateAllCacheAtOrAbove(Stage(g)); return 0; }
    if (nm=="UPD") { int w; is >> w;
        switch (w) { case 0: s.updQ(); break; case 1: s.updU(); break; case 2: s.updZ(); break; case 3: s.updY(); break; case 4: s.updTime(); break;
                     case 5: s.updUWeights(); break; case 6: s.updZWeights(); break; case 7: s.updQErrWeights(); break; case 8: s.updUErrWeights(); break; default: return 1; }
        return 0; }
    if (nm=="UPDS") { int w, ss; is >> w >> ss; if (ss < 0 || ss >= ns) return 1; const SubsystemIndex sx(ss);
        switch (w) { case 0: s.updQ(sx); break; case 1: s.updU(sx); break; case 2: s.updZ(sx); break;
                     case 5: s.updUWeights(sx); break; case 6: s.updZWeights(sx); break; case 7: s.updQErrWeights(sx); break; case 8: s.updUErrWeights(sx); break;
                     default: return 1; }   // there is no per-subsystem updY / updTime
        return 0; }
    if (nm=="SDV") { K k = rdK(); int v; is >> v; if (!hasDV(s,k)) return 1;
        Value<int>::updDowncast(s.updDiscreteVariable(SubsystemIndex(k.first), DiscreteVariableIndex(k.second))) = v; return 0; }
    if (nm=="SCE") { K k = rdK(); int v; is >> v; if (!hasCE(s,k)) return 1;
        Value<int>::updDowncast(s.updCacheEntry(SubsystemIndex(k.first), CacheEntryIndex(k.second))) = v; return 0; }
    if (nm=="MK")  { K k = rdK(); if (!hasCE(s,k)) return 1; s.markCacheValueRealized(SubsystemIndex(k.first), CacheEntryIndex(k.second)); return 0; }
    if (nm=="UMK") { K k = rdK(); if (!hasCE(s,k)) return 1; s.markCacheValueNotRealized(SubsystemIndex(k.first), CacheEntryIndex(k.second)); return 0; }
    if (nm=="MKU" || nm=="SDU") { K k = rdK(); int v=0; if (nm=="SDU") is >> v; if (!hasDV(s,k)) return 1;
        const SubsystemIndex sx(k.first); const DiscreteVariableIndex dx(k.second);
        if (!s.getDiscreteVarUpdateIndex(sx,dx).isValid()) return 1;
        if (nm=="MKU") s.markDiscreteVarUpdateValueRealized(sx,dx); else Value<int>::updDowncast(s.updDiscreteVarUpdateValue(sx,dx)) = v;
        return 0; }
    if (nm=="AUTO") { s.autoUpdateDiscreteVariables(); return 0; }
    if (nm=="GET") { K k = rdK(); if (!hasCE(s,k)) return 1; (void)s.getCacheEntry(SubsystemIndex(k.first), CacheEntryIndex(k.second)); return 0; }
    if (nm=="QRY") return 0;
    std::printf("?unknown op %s\n", nm.c_str()); return 1;
}

int main() {
    std::string line; std::vector<State> w;
    while (std::getline(std::cin, line)) {
        std::istringstream is(line); std::string t; is >> t;
        if (t == "SEQ") { std::string id; int nslot, nsub; is >> id >> nslot >> nsub; w.clear(); w.resize(nslot);
            for (auto& s : w) s.setNumSubsystems(nsub);
            std::printf("SEQ %s\n", id.c_str()); continue; }
        if (t == "END") { for (size_t i=0; i<w.size(); ++i) std::fputs(dump(w[i], (int)i).c_str(), stdout); std::printf("END\n"); continue; }
        int threw = 0; int t1 = -1, t2 = -1;
        try {
            if (t == "On") { int slot; std::string nm; is >> slot >> nm; t1 = slot; if (slot < 0 || slot >= (int)w.size()) threw = 1; else threw = doOp(w[slot], is, nm); }
            else { int d, s_; is >> d >> s_; t1 = d; t2 = s_;
                if (d < 0 || s_ < 0 || d >= (int)w.size() || s_ >= (int)w.size()) threw = 1;
                else if (t == "CP") { State tmp(w[s_]); w[d] = std::move(tmp); }
                else if (t == "AS") { w[d] = w[s_]; }
                else if (t == "MV") { w[d] = std::move(w[s_]); }
                else threw = 1; }
        } catch (const std::exception& e) { threw = 1; }
        std::printf("T %d\n", threw);
        for (int i=0; i<(int)w.size(); ++i) if (i == t1 || i == t2) std::fputs(dump(w[i], i).c_str(), stdout);
    }
    return 0;
}
