// C19 / C21 driver: runs all nine integrators on small systems with random request scripts and prints
//   - every stepTo request and return (status, getTime, getAdvancedTime, event window, exceptions),
//   - every SimTK_VERIF_TRACE record emitted by the hooks in AbstractIntegratorRep.cpp / CPodesIntegrator.cpp
//     (none if the hooks are not applied in the tree under test),
//   - constraint error norms of every returned state (C21 predicate).
// usage: C19_drive <seed> <nscripts> [mode]      mode: rand (default) | w711 | wwin | wcp | c21 | wc21 | wmin
// All random choices derive from <seed> (splitmix64).  Doubles are printed with %a.
#include "Simbody.h"
#include "SimTKcommon/internal/VerifTrace.h"
#include <cstdio>
#include <cstring>
#include <memory>
#include <vector>
#include <string>
using namespace SimTK;

struct Rec { std::string tag; std::vector<double> v; };
static std::vector<Rec> g_recs;
static int g_exitComm = -1; static double g_exitLow = 0, g_exitHigh = 0;   // last C19.exit record (hooks present only)
static void sinkFn(const char* tag, int n, const double* v) {
    if (strncmp(tag, "C19", 3) && strncmp(tag, "C21", 3) && strncmp(tag, "C22", 3)) return;   // other properties' hooks
    static const bool live = getenv("C19_LIVE") != 0;
    if (live) { fprintf(stderr, "T %s", tag); for (int i = 0; i < n; ++i) fprintf(stderr, " %a", v[i]); fprintf(stderr, "\n"); }
    if (!strcmp(tag, "C19.exit") && n >= 7) { g_exitComm = (int)v[0]; g_exitLow = v[5]; g_exitHigh = v[6]; }
    if (g_recs.size() > 200000) return;      // a runaway loop inside stepTo must not exhaust memory
    Rec r; r.tag = tag; r.v.assign(v, v + n); g_recs.push_back(r);
}
static void flushRecs() {
    for (auto& r : g_recs) {
        printf("T %s", r.tag.c_str());
        for (double x : r.v) printf(" %a", x);
        printf("\n");
    }
    g_recs.clear();
}

struct Rng { unsigned long long s;
    unsigned long long next() { unsigned long long z = (s += 0x9E3779B97F4A7C15ULL);
        z = (z ^ (z >> 30)) * 0xBF58476D1CE4E5B9ULL; z = (z ^ (z >> 27)) * 0x94D049BB133111EBULL; return z ^ (z >> 31); }
    double u() { return (next() >> 11) * (1.0 / 9007199254740992.0); }
    int k(int n) { return (int)(next() % (unsigned long long)n); }
    bool p(double q) { return u() < q; }
};

// witness function on time or on the pin angle; the handler does nothing (the driver decides about reinitialize)
class Witness : public TriggeredEventHandler {
public:
    Witness(int kind, Real level, const MobilizedBody& mb, bool loose = false)
    :   TriggeredEventHandler(Stage::Position), kind(kind), level(level), mb(mb) {
        // a localisation window far wider than any step: the step that contains the crossing "localises at once"
        if (loose) getTriggerInfo().setRequiredLocalizationTimeWindow(1e4);
    }
    Real getValue(const State& s) const override {
        if (kind == 0) return s.getTime() - level;
        if (kind == 2) return std::cos(4.3*s.getTime() + level);     // many crossings
        return mb.getOneQ(s, MobilizerQIndex(0)) - level;
    }
    void handleEvent(State&, Real, bool&) const override {}
private:
    int kind; Real level; const MobilizedBody& mb;
};

static const char* kindName[] = {"ExplicitEuler","RungeKutta2","RungeKutta3","RungeKuttaFeldberg","RungeKuttaMerson",
                                 "Verlet","SemiExplicitEuler","SemiExplicitEuler2","CPodes"};

static Integrator* makeInteg(int kind, const System& system, Real fixedStep) {
    switch (kind) {
    case 0: return new ExplicitEulerIntegrator(system);
    case 1: return new RungeKutta2Integrator(system);
    case 2: return new RungeKutta3Integrator(system);
    case 3: return new RungeKuttaFeldbergIntegrator(system);
    case 4: return new RungeKuttaMersonIntegrator(system);
    case 5: return new VerletIntegrator(system);
    case 6: return new SemiExplicitEulerIntegrator(system, fixedStep);
    case 7: return new SemiExplicitEuler2Integrator(system);
    default: return new CPodesIntegrator(system);
    }
}

struct Sys {
    MultibodySystem system; SimbodyMatterSubsystem matter; GeneralForceSubsystem forces;
    std::unique_ptr<MobilizedBody::Pin> p1, p2; std::unique_ptr<MobilizedBody::Slider> sl;
    MobilizedBody b1, b2, b3; std::vector<MobilizedBody::Translation> tr;
    Sys() : matter(system), forces(system) {}
};

// sysKind 0: slider on a spring (linear ODE); 1: pendulum; 2: double pendulum closed by a rod (constrained, C21)
static void buildSys(Sys& S, int sysKind) {
    Body::Rigid body(MassProperties(1.0, Vec3(0), Inertia(1)));
    if (sysKind == 0) {
        S.sl.reset(new MobilizedBody::Slider(S.matter.Ground(), Transform(), body, Transform()));
        Force::MobilityLinearSpring(S.forces, *S.sl, MobilizerQIndex(0), 20.0, 0.0);
    } else if (sysKind == 1) {
        Force::UniformGravity(S.forces, S.matter, Vec3(0,-9.8,0));
        S.p1.reset(new MobilizedBody::Pin(S.matter.Ground(), Transform(), body, Transform(Vec3(0,1,0))));
    } else if (sysKind == 4) {
        // six point masses on Translation mobilizers, each tied to its own ground anchor by a rod: six constraint
        // equations of which only the swinging pendulum's carries an error (uneven errors: RMS and infinity norm differ)
        Force::UniformGravity(S.forces, S.matter, Vec3(0,-9.8,0));
        for (int i = 0; i < 6; ++i) {
            S.tr.push_back(MobilizedBody::Translation(S.matter.Ground(), Transform(Vec3(2.0*i,0,0)), body, Transform()));
            Constraint::Rod(S.matter.Ground(), Vec3(2.0*i,0,0), S.tr.back(), Vec3(0), 1.0);
        }
    } else if (sysKind == 3) {
        // DESIGN 7.25: Ball - Gimbal chain and a Pin body, loop closed by a rod, a spring across
        Body::Rigid hb(MassProperties(1.3, Vec3(0.1,0.2,-0.15), Inertia(Vec3(0.1,0.2,-0.15),1.3) + Inertia(0.5,0.6,0.7, 0.01,0.02,-0.03)));
        Force::UniformGravity(S.forces, S.matter, Vec3(0,-9.8,0));
        S.b1 = MobilizedBody::Ball(S.matter.Ground(), Transform(Vec3(0,0,0)), hb, Transform(Vec3(0,1,0)));
        S.b2 = MobilizedBody::Gimbal(S.b1, Transform(Vec3(0,-1,0)), hb, Transform(Vec3(0,1,0)));
        S.b3 = MobilizedBody::Pin(S.matter.Ground(), Transform(Vec3(1.5,0,0)), hb, Transform(Vec3(0,1,0)));
        Constraint::Rod(S.b2, Vec3(0,-1,0), S.b3, Vec3(0,-1,0), 1.2);
        Force::TwoPointLinearSpring(S.forces, S.b1, Vec3(0.2,0,0), S.b3, Vec3(0,0.3,0), 20, 0.8);
    } else {
        Force::UniformGravity(S.forces, S.matter, Vec3(0,-9.8,0));
        S.p1.reset(new MobilizedBody::Pin(S.matter.Ground(), Transform(), body, Transform(Vec3(0,1,0))));
        S.p2.reset(new MobilizedBody::Pin(*S.p1, Transform(), body, Transform(Vec3(0,1,0))));
        // rod between the tip body and a ground point: a closed loop with one position constraint
        Constraint::Rod(S.matter.Ground(), Vec3(1.0,-0.5,0), *S.p2, Vec3(0), 1.3);
    }
}

static const char* stName(Integrator::SuccessfulStepStatus st) {
    switch (st) {
    case Integrator::ReachedReportTime: return "ReachedReportTime";
    case Integrator::ReachedEventTrigger: return "ReachedEventTrigger";
    case Integrator::ReachedScheduledEvent: return "ReachedScheduledEvent";
    case Integrator::TimeHasAdvanced: return "TimeHasAdvanced";
    case Integrator::ReachedStepLimit: return "ReachedStepLimit";
    case Integrator::EndOfSimulation: return "EndOfSimulation";
    case Integrator::StartOfContinuousInterval: return "StartOfContinuousInterval";
    default: return "Invalid";
    }
}

// one stepTo call with full logging; returns false if it threw
static bool doCall(Integrator& integ, const System& system, Real report, Real sched, Integrator::SuccessfulStepStatus& st) {
    printf("CALL %a %a\n", report, sched);
    g_recs.clear();
    bool threw = false; std::string msg;
    try { st = integ.stepTo(report, sched); }
    catch (const std::exception& e) { threw = true; msg = e.what(); }
    flushRecs();
    if (threw) {
        const char* k = "other";
        if (msg.find("EndOfSimulation already returned") != std::string::npos || msg.find("had already been") != std::string::npos) k = "refused";
        else if (msg.find("Unable to advance time") != std::string::npos) k = "noadvance";
        printf("THROW %s\n", k);
        return false;
    }
    const State& s = integ.getState();
    Real qe = 0, ue = 0, qei = 0, uei = 0, aqei = 0, auei = 0;
    try {
        system.realize(s, Stage::Velocity);
        if (s.getNQErr()) { qe = s.getQErr().normRMS(); qei = s.getQErr().normInf(); }
        if (s.getNUErr()) { ue = s.getUErr().normRMS(); uei = s.getUErr().normInf(); }
    } catch (...) { qe = ue = qei = uei = NaN; }
    // the advanced state: what integration resumes from and what an event handler is given
    Real aqe = 0, aue = 0;
    try {
        const State& a = integ.getAdvancedState();
        system.realize(a, Stage::Velocity);
        if (a.getNQErr()) { aqe = a.getQErr().normRMS(); aqei = a.getQErr().normInf(); }
        if (a.getNUErr()) { aue = a.getUErr().normRMS(); auei = a.getUErr().normInf(); }
    } catch (...) { aqe = aue = aqei = auei = NaN; }
    Vec2 w(NaN, NaN);
    if (st == Integrator::ReachedEventTrigger) w = integ.getEventWindow();
    printf("RET %s %a %a %d %a %a %a %a %a %d %a %a %a %a %a %a\n", stName(st), integ.getTime(), integ.getAdvancedTime(),
           (int)integ.isSimulationOver(), w[0], w[1], qe, ue, integ.getConstraintToleranceInUse(),
           (int)integ.isStateInterpolated(), aqe, aue, qei, uei, aqei, auei);
    return true;
}

int main(int argc, char** argv) {
    unsigned long long seed = argc > 1 ? strtoull(argv[1], 0, 10) : 1;
    int nscripts = argc > 2 ? atoi(argv[2]) : 27;
    std::string mode = argc > 3 ? argv[3] : "rand";
    SimTK::VerifTrace::sink().store(&sinkFn);
    Rng R{seed * 0x2545F4914F6CDD1DULL + 12345};

    for (int script = 0; script < nscripts; ++script) {
        int kind = script % 9;
        if (mode == "w711") kind = 4;            // RungeKuttaMerson, as in DESIGN 7.11
        if (mode == "wwin") kind = 1 + script % 5;
        if (mode == "wcp") kind = 8;
        if (mode == "wmin") kind = 1 + script % 2;                 // RungeKutta2, RungeKutta3
        if (mode == "wc21") kind = (script % 2 == 0) ? 8 : 4;     // CPodes, and RungeKuttaMerson for contrast
        int sysKind = (mode == "c21" || mode == "wmin") ? 2 : (mode == "wc21") ? 3 : (mode == "rand" ? R.k(3) : 1);
        if (mode == "rand" && sysKind == 2 && !R.p(0.5)) sysKind = 1;
        if (mode == "c21" && R.p(0.4)) sysKind = 4;
        // "loose" scripts: the localisation window in force is wider than the (fixed, small) steps, so the step containing a
        // crossing is accepted as the event window at once unless a report time lies strictly inside it
        const bool loose = (mode == "rand" && kind != 8 && R.p(0.3));
        std::vector<Real> looseLevels;
        Sys S; buildSys(S, sysKind);
        // witness functions
        int nw = 0;
        if (mode == "wwin") { S.system.addEventHandler(new Witness(0, 0.61803, *S.p1)); nw = 1; }
        else if (loose) {
            nw = 1 + R.k(3);
            for (int i = 0; i < nw; ++i) {
                Real level = 0.03 + 0.8*R.u();
                looseLevels.push_back(level);
                S.system.addEventHandler(new Witness(0, level, sysKind == 0 ? (const MobilizedBody&)*S.sl : (const MobilizedBody&)*S.p1, true));
            }
        }
        else if ((mode == "rand" && R.p(0.5)) || (mode == "c21" && R.p(0.75))) {
            nw = 1 + R.k(2);
            for (int i = 0; i < nw; ++i) {
                int wk = (sysKind == 0 || sysKind == 4 || R.p(0.5)) ? 0 : 1;
                if (mode == "c21" && R.p(0.5)) wk = 2;
                Real level = wk == 0 ? 0.05 + 1.5*R.u() : wk == 2 ? R.u() : -0.5 + 1.5*R.u();
                const MobilizedBody& mb = sysKind == 0 ? (const MobilizedBody&)*S.sl : sysKind == 4 ? (const MobilizedBody&)S.tr[0] : (const MobilizedBody&)*S.p1;
                S.system.addEventHandler(new Witness(wk, level, mb));
            }
        }
        State s = S.system.realizeTopology(); S.system.realizeModel(s);
        if (sysKind == 0) { S.sl->setOneQ(s, 0, 0.3); }
        else if (sysKind == 1) { S.p1->setOneQ(s, 0, 1.0); }
        else if (sysKind == 4) {
            for (int i = 0; i < 6; ++i) S.tr[i].setQ(s, Vec3(0,-1,0));           // hanging at rest
            S.tr[2].setQ(s, Vec3(std::sin(1.0), -std::cos(1.0), 0));             // one of them swings
            S.tr[2].setU(s, Vec3(0.3, 0.2, 0.5));
            S.system.realize(s, Stage::Position); S.system.project(s, 1e-10);
        }
        else if (sysKind == 3) {
            for (int i = 0; i < s.getNQ(); i++) s.updQ()[i] = 0.2 + 0.05*i;
            for (int i = 0; i < s.getNU(); i++) s.updU()[i] = 0.3 - 0.04*i;
            S.system.realize(s, Stage::Position); S.system.project(s, 1e-10); S.system.realize(s, Stage::Velocity);
        }
        else { S.p1->setOneQ(s, 0, 0.4); S.p2->setOneQ(s, 0, 0.9); }
        const Real tStart = (mode == "rand" && R.p(0.3) && !loose) ? 0.25*R.k(5) : 0.0;
        s.setTime(tStart);
        const Real fixedStep = 0.004 + 0.02*R.u();
        std::unique_ptr<Integrator> integ(makeInteg(kind, S.system, fixedStep));
        const Real acc = (mode == "c21") ? (R.p(0.3) ? 1e-2 : R.p(0.5) ? 1e-3 : 1e-5) : (mode == "wc21") ? std::pow(10.0, -3 - 2*((script/2) % 3)) : (mode == "wmin") ? 1e-8 : 1e-3;
        integ->setAccuracy(acc);
        Real ctol = -1;
        if (mode == "c21" && R.p(0.5)) { ctol = R.p(0.5) ? 1e-6 : 1e-7; integ->setConstraintTolerance(ctol); }
        // options
        Real tFinal = -1; bool allowInterp = true, everyStep = false, projInterp = true; int limit = -1;
        if (mode == "rand" || mode == "c21") {
            if (R.p(0.6)) tFinal = tStart + 0.3 + 1.5*R.u();
            if (R.p(0.3)) allowInterp = false;
            if (R.p(0.25)) everyStep = true;
            if (R.p(0.25)) limit = 1 + R.k(4);
            if (R.p(mode == "c21" ? 0.5 : 0.3)) projInterp = false;
            if (kind != 6 && kind != 8) {
                int o = R.k(5);
                // (no fixed/minimum step size in c21 mode: a step size that cannot shrink makes the integrators accept
                //  unprojected steps, which is the known finding with its own witness, mode wmin)
                if (o == 0 && mode != "c21") integ->setFixedStepSize(fixedStep);
                else if (o == 1 && mode != "c21") { integ->setMinimumStepSize(0.002); integ->setMaximumStepSize(0.05); }
                else if (o == 1) integ->setMaximumStepSize(0.05);
                else if (o == 2) integ->setInitialStepSize(0.001 + 0.1*R.u());
            }
        }
        if (mode == "wcp") everyStep = true;
        if (loose && kind != 6) integ->setFixedStepSize(fixedStep);
        bool useInf = false;
        if (mode == "c21" && R.p(0.5)) { useInf = true; integ->setUseInfinityNorm(true); }
        if (tFinal > 0) integ->setFinalTime(tFinal);
        if (!allowInterp) integ->setAllowInterpolation(false);
        if (everyStep) integ->setReturnEveryInternalStep(true);
        if (limit > 0) integ->setInternalStepLimit(limit);
        if (!projInterp) integ->setProjectInterpolatedStates(false);
        printf("SCRIPT %d %s kind=%d sys=%d nw=%d final=%a allowInterp=%d everyStep=%d limit=%d projInterp=%d tStart=%a acc=%a ctol=%a useInf=%d loose=%d mode=%s\n",
               script, kindName[kind], kind, sysKind, nw, tFinal, (int)allowInterp, (int)everyStep, limit, (int)projInterp,
               tStart, acc, ctol, (int)useInf, (int)loose, mode.c_str());
        try { integ->initialize(s); }
        catch (const std::exception& e) { printf("INITFAIL\nEND\n"); continue; }
        const Real fin = tFinal > 0 ? tFinal : Infinity;
        Integrator::SuccessfulStepStatus st;
        g_exitComm = -1;

        if (mode == "w711") {
            // DESIGN 7.11: lower the scheduled-event time below the time already advanced to
            Real r1 = 1.0 + 0.1*script;
            doCall(*integ, S.system, r1, 10, st);                   // StartOfContinuousInterval
            doCall(*integ, S.system, r1, 10, st);                   // report (interpolated), advanced state beyond r1
            Real adv = integ->getAdvancedTime(), t = integ->getTime();
            Real sched2 = t + 0.25*(adv - t), report2 = t + 0.5*(adv - t);
            doCall(*integ, S.system, report2, sched2, st);
            printf("END\n"); continue;
        }
        if (mode == "wmin") {
            // a minimum step size that forbids meeting the accuracy: steps are accepted with a large error estimate
            // and skip the projection ("not worth projecting")
            integ.reset(makeInteg(kind, S.system, fixedStep)); integ->setAccuracy(acc);
            integ->setMinimumStepSize(0.1); integ->setMaximumStepSize(0.2); integ->initialize(s);
            doCall(*integ, S.system, 0.0, Infinity, st);
            for (int k = 1; k <= 60; ++k) if (!doCall(*integ, S.system, 0.05*k, Infinity, st)) break;
            printf("END\n"); continue;
        }
        if (mode == "wc21") {
            // DESIGN 7.25: 200 reports 0.01 apart
            doCall(*integ, S.system, 0.0, Infinity, st);
            for (int k = 1; k <= 200; ++k) if (!doCall(*integ, S.system, 0.01*k, Infinity, st)) break;
            printf("END\n"); continue;
        }
        if (mode == "wcp") {
            // DESIGN 7.18 (b): CPodes with return-every-step; report and scheduled event coincide just ahead
            doCall(*integ, S.system, 0.0, Infinity, st);
            for (int call = 0; call < 25; ++call) {
                Real t = integ->getTime(); Real r = t + 0.004*(1 + script);
                if (!doCall(*integ, S.system, r, r, st)) break;
            }
            printf("END\n"); continue;
        }
        if (mode == "wwin") {
            // a new report time placed strictly inside an event window localized by an earlier call
            doCall(*integ, S.system, 0.0, Infinity, st);
            Real r = 0.05; bool aimed = false;
            for (int call = 0; call < 400; ++call) {
                if (!doCall(*integ, S.system, r, Infinity, st)) break;
                Real t = integ->getTime(), adv = integ->getAdvancedTime();
                if (st == Integrator::ReachedEventTrigger) {
                    if (aimed) {   // the handler changed something: reinitialize, then ask again for the same report
                        printf("REINIT 1 0\n"); integ->reinitialize(Stage::Position, false);
                        doCall(*integ, S.system, r, Infinity, st);
                        doCall(*integ, S.system, r, Infinity, st);
                    }
                    break;
                }
                if (st == Integrator::ReachedReportTime && std::abs(adv - 0.61803) < 1e-3 && t < adv && !aimed) {
                    // the step [.., adv] contains the crossing: aim just below the advanced time (= tHigh)
                    r = std::nextafter(adv, -Infinity); aimed = true;
                } else if (!aimed) r = t + 0.013;
            }
            printf("END\n"); continue;
        }

        // random request script
        Real report = tStart + (R.p(0.2) ? 0.0 : 0.1*R.u());
        Real sched  = R.p(0.2) ? Infinity : tStart + 0.2 + R.u();
        if (R.p(0.1)) report = Infinity;
        if (report == Infinity && sched == Infinity && fin == Infinity && limit <= 0 && !everyStep) report = tStart + 0.1;
        int nEnd = 0; bool aimedLow = false;   // the pending report was placed exactly at the low end of a localized, unreported event window
        for (int call = 0; call < 60; ++call) {
            if (integ->isSimulationOver()) {
                doCall(*integ, S.system, report + 1, sched + 1, st);   // must be refused
                break;
            }
            if (!doCall(*integ, S.system, report, sched, st)) break;
            Real t = integ->getTime(), adv = integ->getAdvancedTime();
            // an event window reported AT the pending report time that was aimed at its low end: the report was due first (report <=
            // tLow); a caller that still holds it asks for it again after the handler ran, exactly as a TimeStepper does
            const bool heldReport = aimedLow && st == Integrator::ReachedEventTrigger && t == report;
            if (!heldReport && (st == Integrator::ReachedReportTime || t > report)) aimedLow = false;
            if (st == Integrator::ReachedEventTrigger) {
                int o = R.k(3);
                if (aimedLow && t == report) o = 1;   // an event reported AT a pending report time: let the handler change the state, then ask for that report again
                if (o == 1) { printf("REINIT 1 0\n"); integ->reinitialize(Stage::Position, false); }
                else if (o == 2) { printf("REINIT 0 0\n"); integ->reinitialize(Stage::Report, false); }
                t = integ->getTime(); adv = integ->getAdvancedTime();
            }
            // new requests: report >= current time; sched never below the time already advanced to
            // (a report time that was reached by another kind of return -- t == report without ReachedReportTime -- is kept half of
            //  the time, as a TimeStepper does: the report is still pending and must come next, at that same time)
            if (!heldReport && (st == Integrator::ReachedReportTime || t > report || (t == report && !aimedLow && R.p(0.5)))) {
                int o = R.k(10);
                if (o == 0) report = t;                                   // equal to the current time
                else if (o == 1) report = Infinity;
                else if (o == 2) report = fin;                            // exactly the final time
                else if (o == 3) report = fin + 0.1;                      // past the final time
                else if (o == 4) report = adv;                            // exactly the advanced time
                else report = t + 0.3*R.u()*R.u();
            }
            if (st == Integrator::ReachedScheduledEvent || adv >= sched || t >= sched) {
                int o = R.k(8);
                if (o == 0) sched = adv;                                  // boundary: exactly the advanced time
                else if (o == 1) sched = Infinity;
                else if (o == 2) sched = std::max(adv, fin);
                else sched = std::max(sched == Infinity ? adv : sched, adv) + 0.02 + R.u()*R.u();
            }
            if (R.p(0.08)) report = std::max(std::max(sched, adv), t);   // coincident report and scheduled event
            // boundary of the case split "report due before tLow": an event has been localized but not reported yet
            // (known only through the hooks): ask for a report exactly at tLow, or between now and tLow
            if (kind != 8 && g_exitComm == 1 && g_exitLow >= t) {
                int o = R.k(4);
                if (o <= 1) { report = g_exitLow; aimedLow = true; } else if (o == 2) report = t + R.u()*(g_exitLow - t);
            }
            // loose scripts: keep a report pending strictly inside the (short) step that will contain the next crossing
            if (loose && !heldReport && !(g_exitComm == 1)) {
                Real next = Infinity;
                for (Real L : looseLevels) if (L > adv && L < next) next = L;
                if (next < Infinity && R.p(0.7)) {
                    Real r = next + (R.u() - 0.4)*0.6*fixedStep;
                    if (r > t) { report = r; aimedLow = false; }
                }
            }
            // hypothesis of the property (req_ok): no new report time strictly inside an event window that an earlier call
            // localized but has not reported yet (the violation of that hypothesis is the known finding, witness mode wwin)
            if (g_exitComm == 1 && g_exitLow < report && report < g_exitHigh) {
                if (R.p(0.5) && g_exitLow >= t) { report = g_exitLow; aimedLow = true; } else report = g_exitHigh;
            }
            if (report < t && !heldReport) report = t;
            if (heldReport) aimedLow = false;
            if (sched < adv) sched = adv;
            // never ask for an unbounded integration
            if (report == Infinity && sched == Infinity && fin == Infinity && limit <= 0 && !everyStep)
                report = t + 0.3*R.u();
            if (t > tStart + 3.5) break;
        }
        printf("END\n");
    }
    printf("DONE %d\n", nscripts);
    return 0;
}
