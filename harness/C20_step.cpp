// C20 harness: one real integrator step (attemptDAEStep called directly, and through the public stepTo),
// adjustStepSize called directly, interpolateOrder3 called directly -- on small unconstrained ODE systems
// y' = F(t,y) given on the input line.  One case per stdin line, one result line per case, doubles as %a.
//
//   STEP kind n2 nz fam t0 h acc | nd(n2) | y0(n) | M(m*n) | C(m*5)
//        -> R conv errOrder nit errNorm | y1(n) | yerr(n)
//        kind 0 ExplicitEuler 1 RK2 2 RK3 3 RKFeldberg 4 RKMerson 5 Verlet 6 SemiExplicitEuler 7 SemiExplicitEuler2
//        state y = (q(n2), u(n2), z(nz)), n = 2 n2 + nz, m = n2 + nz;  qdot_i = nd_i u_i;  w = (u,z):
//        fam 0:  wdot_i = sum_j M_ij y_j + sum_k C_ik t^k          (affine, polynomial forcing)
//        fam 1:  wdot_i = sum_j M_ij sin(y_j) + C_i0 cos(C_i1 t)   (nonlinear)
//   TAKE kind n2 nz fam t0 h acc umin umax tMax | nd | y0 | M | C      (umin/umax < 0: not set)
//        -> T status tAdv hTaken hNext nErrFail nAttempt nConvFail | y1(n)
//        initialize; stepTo(inf, tMax) twice with ReturnEveryInternalStep (first call = StartOfContinuousInterval)
//   STEPI / TAKEI: as STEP / TAKE with setUseInfinityNorm(true);  NORM useInf n2 nz | nd | y0 | yerr -> N norm worstY
//   ADJ acc h0 umin umax k | err errOrder limited (k times)
//        -> A cur0 | ok h' (k times)       adjustStepSize called k times in a row on a RungeKuttaMerson integrator
//   HERM n t0 t1 t | y0 | f0 | y1 | f1    -> H yt(n)
// Protected members are reached through pointers to members formed in derived helper classes (no source change).
#include "Simbody.h"
#include "SimTKcommon/internal/SystemGuts.h"
#include "SimTKmath/Integrators/src/IntegratorRep.h"
#include "SimTKmath/Integrators/src/AbstractIntegratorRep.h"
#include <cstdio>
#include <cstring>
#include <cmath>
#include <string>
#include <vector>
#include <sstream>
#include <iostream>
#include <memory>
using namespace SimTK;

struct OdeDef { int n2 = 0, nz = 0, fam = 0; std::vector<double> nd, M, C; };

class OdeGuts : public System::Guts {
public:
    OdeDef d; SubsystemIndex sub;
    mutable QIndex q0; mutable UIndex u0; mutable ZIndex z0;
    OdeGuts() : Guts() {}
    OdeGuts* cloneImpl() const override { return new OdeGuts(*this); }
    int realizeTopologyImpl(State& s) const override {
        if (d.n2) { q0 = s.allocateQ(sub, Vector(d.n2, Real(0))); u0 = s.allocateU(sub, Vector(d.n2, Real(0))); }
        if (d.nz) z0 = s.allocateZ(sub, Vector(d.nz, Real(0)));
        return System::Guts::realizeTopologyImpl(s);
    }
    int realizeVelocityImpl(const State& s) const override {
        if (d.n2) {
            const Vector& u = s.getU(sub); Vector& qdot = s.updQDot(sub);
            for (int i = 0; i < d.n2; ++i) qdot[i] = d.nd[i] * u[i];
        }
        return System::Guts::realizeVelocityImpl(s);
    }
    int realizeAccelerationImpl(const State& s) const override {
        const int n2 = d.n2, nz = d.nz, n = 2*n2 + nz, m = n2 + nz;
        const Vector& y = s.getY(); const Real t = s.getTime();
        std::vector<double> w(m);
        for (int i = 0; i < m; ++i) {
            double acc = 0;
            if (d.fam == 0) {
                for (int j = 0; j < n; ++j) acc += d.M[i*n + j] * y[j];
                double tp = 1;
                for (int k = 0; k < 5; ++k) { acc += d.C[i*5 + k] * tp; tp *= t; }
            } else {
                for (int j = 0; j < n; ++j) acc += d.M[i*n + j] * std::sin(y[j]);
                acc += d.C[i*5 + 0] * std::cos(d.C[i*5 + 1] * t);
            }
            w[i] = acc;
        }
        if (n2) {
            Vector& udot = s.updUDot(sub); Vector& qdd = s.updQDotDot(sub);
            for (int i = 0; i < n2; ++i) { udot[i] = w[i]; qdd[i] = d.nd[i] * w[i]; }
        }
        if (nz) { Vector& zdot = s.updZDot(sub); for (int i = 0; i < nz; ++i) zdot[i] = w[n2 + i]; }
        return System::Guts::realizeAccelerationImpl(s);
    }
    void multiplyByNImpl(const State&, const Vector& u, Vector& dq) const override {
        dq.resize(d.n2); for (int i = 0; i < d.n2; ++i) dq[i] = d.nd[i] * u[i]; }
    void multiplyByNTransposeImpl(const State&, const Vector& fq, Vector& fu) const override {
        fu.resize(d.n2); for (int i = 0; i < d.n2; ++i) fu[i] = d.nd[i] * fq[i]; }
    void multiplyByNPInvImpl(const State&, const Vector& dq, Vector& u) const override {
        u.resize(d.n2); for (int i = 0; i < d.n2; ++i) u[i] = dq[i] / d.nd[i]; }
    void multiplyByNPInvTransposeImpl(const State&, const Vector& fu, Vector& fq) const override {
        fq.resize(d.n2); for (int i = 0; i < d.n2; ++i) fq[i] = fu[i] / d.nd[i]; }
};

class OdeSystem : public System {
public:
    explicit OdeSystem(const OdeDef& d) : System() {
        OdeGuts* g = new OdeGuts(); g->d = d;
        adoptSystemGuts(g);
        DefaultSystemSubsystem defsub(*this);
        dynamic_cast<OdeGuts&>(updSystemGuts()).sub = defsub.getMySubsystemIndex();
        setHasTimeAdvancedEvents(false);
    }
};

// ---- access to protected members without touching the sources
struct IPeek : Integrator { static IntegratorRep& rep(Integrator& i) { return (i.*(&IPeek::updRep))(); } };
struct RPeek : IntegratorRep {
    static void save(IntegratorRep& r, const State& s) { (r.*(&RPeek::saveStateAndDerivsAsPrevious))(s); } };
struct APeek : AbstractIntegratorRep {
    static bool attempt(AbstractIntegratorRep& r, Real t1, Vector& e, int& ord, int& nit) {
        return (r.*(&APeek::attemptDAEStep))(t1, e, ord, nit); }
    static bool adjust(AbstractIntegratorRep& r, Real err, int ord, bool lim) {
        return (r.*(&APeek::adjustStepSize))(err, ord, lim); }
};

static Integrator* makeInteg(int kind, const System& system, Real h) {
    switch (kind) {
    case 0: return new ExplicitEulerIntegrator(system);
    case 1: return new RungeKutta2Integrator(system);
    case 2: return new RungeKutta3Integrator(system);
    case 3: return new RungeKuttaFeldbergIntegrator(system);
    case 4: return new RungeKuttaMersonIntegrator(system);
    case 5: return new VerletIntegrator(system);
    case 6: return new SemiExplicitEulerIntegrator(system, h);
    default: return new SemiExplicitEuler2Integrator(system);
    }
}

static double rd(std::istringstream& in) {
    std::string tok; in >> tok;
    while (tok == "|") in >> tok;
    if (tok == "nan") return NaN;
    if (tok == "inf") return Infinity;
    if (tok == "-inf") return -Infinity;
    return strtod(tok.c_str(), nullptr);
}
static void pv(const Vector& v) { for (int i = 0; i < v.size(); ++i) printf(" %a", (double)v[i]); }

static bool readOde(std::istringstream& in, OdeDef& d, Vector& y0) {
    const int n = 2*d.n2 + d.nz, m = d.n2 + d.nz;
    d.nd.resize(d.n2); for (auto& x : d.nd) x = rd(in);
    y0.resize(n); for (int i = 0; i < n; ++i) y0[i] = rd(in);
    d.M.resize(m*n); for (auto& x : d.M) x = rd(in);
    d.C.resize(m*5); for (auto& x : d.C) x = rd(in);
    return !in.fail();
}

static const char* stName(Integrator::SuccessfulStepStatus st) {
    switch (st) {
    case Integrator::ReachedReportTime: return "ReachedReportTime";
    case Integrator::ReachedEventTrigger: return "ReachedEventTrigger";
    case Integrator::ReachedScheduledEvent: return "ReachedScheduledEvent";
    case Integrator::TimeHasAdvanced: return "TimeHasAdvanced";
    case Integrator::ReachedStepLimit: return "ReachedStepLimit";
    case Integrator::EndOfSimulation: return "EndOfSimulation";
    case Integrator::StartOfContinuousInterval: return "StartOfContinuousInterval";
    default: return "Invalid";
    }
}

int main() {
    std::string line;
    while (std::getline(std::cin, line)) {
        if (line.empty()) continue;
        std::istringstream in(line);
        std::string cmd; in >> cmd;
        try {
            if (cmd == "STEP" || cmd == "STEPI") {      // STEPI: the same with setUseInfinityNorm(true)
                int kind; OdeDef d; in >> kind >> d.n2 >> d.nz >> d.fam;
                const Real t0 = rd(in), h = rd(in), acc = rd(in);
                Vector y0; if (!readOde(in, d, y0)) { printf("BAD\n"); continue; }
                OdeSystem sys(d); sys.realizeTopology();
                State s = sys.getDefaultState(); s.updTime() = t0; s.updY() = y0;
                std::unique_ptr<Integrator> integ(makeInteg(kind, sys, h));
                integ->setAccuracy(acc);
                if (cmd == "STEPI") integ->setUseInfinityNorm(true);
                integ->initialize(s);
                IntegratorRep& rep = IPeek::rep(*integ);
                AbstractIntegratorRep& arep = dynamic_cast<AbstractIntegratorRep&>(rep);
                sys.realize(rep.getAdvancedState(), Stage::Acceleration);
                RPeek::save(rep, rep.getAdvancedState());
                Vector yErr(y0.size()); yErr = 0; int ord = -1, nit = 1;
                const bool conv = APeek::attempt(arep, t0 + h, yErr, ord, nit);
                int worst = -1;
                const Real en = conv ? rep.calcErrorNorm(rep.getAdvancedState(), yErr, worst) : NaN;
                printf("R %d %d %d %a |", (int)conv, ord, nit, (double)en);
                pv(rep.getAdvancedState().getY()); printf(" |"); pv(yErr); printf("\n");
            } else if (cmd == "TAKE" || cmd == "TAKEI") {
                int kind; OdeDef d; in >> kind >> d.n2 >> d.nz >> d.fam;
                const Real t0 = rd(in), h = rd(in), acc = rd(in), umin = rd(in), umax = rd(in), tMax = rd(in);
                Vector y0; if (!readOde(in, d, y0)) { printf("BAD\n"); continue; }
                OdeSystem sys(d); sys.realizeTopology();
                State s = sys.getDefaultState(); s.updTime() = t0; s.updY() = y0;
                std::unique_ptr<Integrator> integ(makeInteg(kind, sys, h));
                integ->setAccuracy(acc); integ->setInitialStepSize(h);
                if (umin >= 0) integ->setMinimumStepSize(umin);
                if (umax >= 0) integ->setMaximumStepSize(umax);
                integ->setReturnEveryInternalStep(true);
                if (cmd == "TAKEI") integ->setUseInfinityNorm(true);
                integ->initialize(s);
                Integrator::SuccessfulStepStatus st = integ->stepTo(Infinity, tMax);
                st = integ->stepTo(Infinity, tMax);
                printf("T %s %a %a %a %d %d %d |", stName(st), (double)integ->getAdvancedTime(),
                       (double)integ->getPreviousStepSizeTaken(), (double)integ->getPredictedNextStepSize(),
                       integ->getNumErrorTestFailures(), integ->getNumStepsAttempted(), integ->getNumConvergenceTestFailures());
                pv(integ->getAdvancedState().getY()); printf("\n");
            } else if (cmd == "NORM") {
                // NORM useInf n2 nz | nd | y0 | yerr  -> N norm worstY : calcErrorNorm called directly on a given error
                // estimate, with the scales frozen from y0 (as at the start of a step)
                int useInf; OdeDef d; in >> useInf >> d.n2 >> d.nz; d.fam = 0;
                const int n = 2*d.n2 + d.nz, m = d.n2 + d.nz;
                d.nd.resize(d.n2); for (auto& x : d.nd) x = rd(in);
                Vector y0(n), yErr(n);
                for (int i = 0; i < n; ++i) y0[i] = rd(in);
                for (int i = 0; i < n; ++i) yErr[i] = rd(in);
                d.M.assign(m*n, 0.0); d.C.assign(m*5, 0.0);
                OdeSystem sys(d); sys.realizeTopology();
                State s = sys.getDefaultState(); s.updTime() = 0; s.updY() = y0;
                RungeKuttaMersonIntegrator integ(sys);
                if (useInf) integ.setUseInfinityNorm(true);
                integ.initialize(s);
                IntegratorRep& rep = IPeek::rep(integ);
                sys.realize(rep.getAdvancedState(), Stage::Acceleration);
                RPeek::save(rep, rep.getAdvancedState());
                int worst = -1;
                const Real en = rep.calcErrorNorm(rep.getAdvancedState(), yErr, worst);
                printf("N %a %d\n", (double)en, worst);
            } else if (cmd == "ADJ") {
                const Real acc = rd(in), h0 = rd(in), umin = rd(in), umax = rd(in); int k; in >> k;
                OdeDef d; d.nz = 1; d.M.assign(1, 0.0); d.C.assign(5, 0.0);
                OdeSystem sys(d); sys.realizeTopology();
                State s = sys.getDefaultState();
                RungeKuttaMersonIntegrator integ(sys);
                integ.setAccuracy(acc); integ.setInitialStepSize(h0);
                if (umin >= 0) integ.setMinimumStepSize(umin);
                if (umax >= 0) integ.setMaximumStepSize(umax);
                integ.initialize(s);
                AbstractIntegratorRep& arep = dynamic_cast<AbstractIntegratorRep&>(IPeek::rep(integ));
                printf("A %a |", (double)integ.getPredictedNextStepSize());
                for (int i = 0; i < k; ++i) {
                    const Real err = rd(in); int ord, lim; in >> ord >> lim;
                    const bool ok = APeek::adjust(arep, err, ord, lim != 0);
                    printf(" %d %a", (int)ok, (double)integ.getPredictedNextStepSize());
                }
                printf("\n");
            } else if (cmd == "HERM") {
                int n; in >> n; const Real t0 = rd(in), t1 = rd(in), t = rd(in);
                Vector y0(n), f0(n), y1(n), f1(n), yt;
                for (int i = 0; i < n; ++i) y0[i] = rd(in);
                for (int i = 0; i < n; ++i) f0[i] = rd(in);
                for (int i = 0; i < n; ++i) y1[i] = rd(in);
                for (int i = 0; i < n; ++i) f1[i] = rd(in);
                IntegratorRep::interpolateOrder3(t0, y0, f0, t1, y1, f1, t, yt);
                printf("H"); pv(yt); printf("\n");
            } else printf("BAD\n");
        } catch (const std::exception& e) {
            std::string m = e.what(); for (auto& c : m) if (c == '\n') c = ' ';
            printf("EXC %s\n", m.substr(0, 200).c_str());
        }
        fflush(stdout);
    }
    return 0;
}
