// C22 harness: event classification tables, root estimate, findEventCandidates, the event phase of
// takeOneStep on real integrators (public API + IntegratorRep.h by path), TimeStepper dispatch logs.
//   C22_events table
//   C22_events root  <seed> <n>
//   C22_events fec   <seed> <n>
//   C22_events loc   <seed> <nscen>
//   C22_events ts    <seed> <nscen> <reportAll 0|1>
//   C22_events sub2                      (two subsystems with scheduled events: System::Guts accumulation)
// All doubles are printed with %a.  All random choices derive from <seed> (splitmix64).
#include "Simbody.h"
#include "SimTKmath/Integrators/src/IntegratorRep.h"
#include "SimTKcommon/internal/VerifTrace.h"
#include <cstdio>
#include <cstring>
#include <memory>
#include <vector>
#include <string>
#include <cmath>
using namespace SimTK;

struct Rng { unsigned long long s;
    unsigned long long next() { unsigned long long z = (s += 0x9E3779B97F4A7C15ULL);
        z = (z ^ (z >> 30)) * 0xBF58476D1CE4E5B9ULL; z = (z ^ (z >> 27)) * 0x94D049BB133111EBULL; return z ^ (z >> 31); }
    double u() { return (next() >> 11) * (1.0 / 9007199254740992.0); }
    int k(int n) { return (int)(next() % (unsigned long long)n); }
    bool p(double q) { return u() < q; }
};

// access to the protected Integrator::getRep()
struct RepPeek : public Integrator {
    static const IntegratorRep& rep(const Integrator& i) { return (i.*(&RepPeek::getRep))(); }
};

struct RepPeek2 : public IntegratorRep {
    static const Array_<EventTriggerInfo>& info(const IntegratorRep& r) { return (r.*(&RepPeek2::getDynamicSystemEventTriggerInfo))(); }
    static Real winLow(const IntegratorRep& r) { return (r.*(&RepPeek2::getEventWindowLow))(); }
    static Real winHigh(const IntegratorRep& r) { return (r.*(&RepPeek2::getEventWindowHigh))(); }
    static const Array_<EventId>& trig(const IntegratorRep& r) { return (r.*(&RepPeek2::getTriggeredEvents))(); }
};

// trace records from the hooks (none if the hooks are not applied in the tree under test)
struct Rec { std::string tag; std::vector<double> v; };
static std::vector<Rec> g_recs;
static void sinkFn(const char* tag, int n, const double* v) {
    if (g_recs.size() > 100000) return;
    if (strncmp(tag, "C19.", 4) && strncmp(tag, "C21.", 4) && strncmp(tag, "C22.", 4)) return;   // other properties' hooks
    Rec r; r.tag = tag; r.v.assign(v, v + n); g_recs.push_back(r);
}
static void flushRecs() {
    for (auto& r : g_recs) { printf("T %s", r.tag.c_str()); for (double x : r.v) printf(" %a", x); printf("\n"); }
    g_recs.clear();
}

static const char* kindName[] = {"ExplicitEuler","RungeKutta2","RungeKutta3","RungeKuttaFeldberg","RungeKuttaMerson",
                                 "Verlet","SemiExplicitEuler","SemiExplicitEuler2","CPodes"};
static Integrator* makeInteg(int kind, const System& system, Real fixedStep) {
    switch (kind) {
    case 0: return new ExplicitEulerIntegrator(system);
    case 1: return new RungeKutta2Integrator(system);
    case 2: return new RungeKutta3Integrator(system);
    case 3: return new RungeKuttaFeldbergIntegrator(system);
    case 4: return new RungeKuttaMersonIntegrator(system);
    case 5: return new VerletIntegrator(system);
    case 6: return new SemiExplicitEulerIntegrator(system, fixedStep);
    case 7: return new SemiExplicitEuler2Integrator(system);
    default: return new CPodesIntegrator(system);
    }
}
static const char* stName(Integrator::SuccessfulStepStatus st) {
    switch (st) {
    case Integrator::ReachedReportTime: return "ReachedReportTime";
    case Integrator::ReachedEventTrigger: return "ReachedEventTrigger";
    case Integrator::ReachedScheduledEvent: return "ReachedScheduledEvent";
    case Integrator::TimeHasAdvanced: return "TimeHasAdvanced";
    case Integrator::ReachedStepLimit: return "ReachedStepLimit";
    case Integrator::EndOfSimulation: return "EndOfSimulation";
    case Integrator::StartOfContinuousInterval: return "StartOfContinuousInterval";
    default: return "Invalid";
    }
}

// ---------------------------------------------------------------------------------------------- witness functions of time
// kind 0: t - a ; kind 1: ((t - a)*(t - b))*s ; kind 2: sin(a*t + b) - s      (evaluated in exactly this operation order)
struct WSpec { int kind; double a, b, s; bool rising, falling; double window; int stage; };
static double wEval(const WSpec& w, double t) {
    if (w.kind == 0) return t - w.a;
    if (w.kind == 1) return ((t - w.a) * (t - w.b)) * w.s;
    return std::sin(w.a * t + w.b) - w.s;
}
static Stage stageOf(int k) { return k == 0 ? Stage::Time : k == 1 ? Stage::Position : k == 2 ? Stage::Velocity : Stage::Acceleration; }

class TimeWitness : public TriggeredEventHandler {
public:
    TimeWitness(const WSpec& w) : TriggeredEventHandler(stageOf(w.stage)), w(w) {
        getTriggerInfo().setTriggerOnRisingSignTransition(w.rising);
        getTriggerInfo().setTriggerOnFallingSignTransition(w.falling);
        getTriggerInfo().setRequiredLocalizationTimeWindow(w.window);
    }
    Real getValue(const State& s) const override { return wEval(w, s.getTime()); }
    void handleEvent(State&, Real, bool&) const override {}
    WSpec w;
};

static WSpec randomWitness(Rng& R, double T) {
    WSpec w; w.kind = R.k(3);
    w.a = w.b = w.s = 0;
    if (w.kind == 0) w.a = T * (0.05 + 0.9 * R.u());
    else if (w.kind == 1) { w.a = T * (0.05 + 0.9 * R.u()); w.b = T * (0.05 + 0.9 * R.u()); w.s = R.p(0.5) ? 1.0 : -1.0; }
    else { w.a = (2 + 40 * R.u()) / T; w.b = 6 * R.u(); w.s = 0.8 * (R.u() - 0.5); }
    int m = R.k(4); w.rising = (m != 1); w.falling = (m != 2); if (m == 3 && R.p(0.3)) { w.rising = w.falling = false; }
    static const double wins[] = {0.1, 0.01, 1.0, 0.5, 1e-3};
    w.window = wins[R.k(5)];
    w.stage = R.p(0.7) ? 0 : R.k(4);
    // sometimes make a crossing land exactly on a step or report boundary (dyadic constants)
    if (w.kind == 0 && R.p(0.25)) w.a = std::ldexp(std::floor(std::ldexp(w.a, 6)), -6);
    return w;
}
static void printWitness(const WSpec& w) {
    printf(" %d %a %a %a %d %d %a %d", w.kind, w.a, w.b, w.s, (int)w.rising, (int)w.falling, w.window, w.stage);
}

struct Sys {
    MultibodySystem system; SimbodyMatterSubsystem matter; GeneralForceSubsystem forces;
    std::unique_ptr<MobilizedBody::Slider> a, b;
    Sys() : matter(system), forces(system) {
        Body::Rigid body(MassProperties(1.0, Vec3(0), Inertia(1)));
        a.reset(new MobilizedBody::Slider(matter.Ground(), Transform(), body, Transform()));
        b.reset(new MobilizedBody::Slider(matter.Ground(), Transform(Vec3(0,1,0)), body, Transform()));
    }
};

// ---------------------------------------------------------------------------------------------- table
static void modeTable() {
    for (int b = -1; b <= 1; ++b) for (int a = -1; a <= 1; ++a) for (int r = 0; r < 2; ++r) for (int f = 0; f < 2; ++f) {
        EventTriggerInfo info; info.setTriggerOnRisingSignTransition(r != 0); info.setTriggerOnFallingSignTransition(f != 0);
        Event::Trigger cls = Event::classifyTransition(b, a);
        Event::Trigger mask = info.calcTransitionMask();
        Event::Trigger seen = Event::maskTransition(cls, mask);
        int rep = seen != Event::NoEventTrigger ? (int)info.calcTransitionToReport(seen) : 0;
        printf("ROW %d %d %d %d %d %d %d %d\n", b, a, r, f, (int)cls, (int)mask, (int)seen, rep);
    }
    const double xs[] = {0.0, -0.0, 1.0, -1.0, 4.9e-324, -4.9e-324, 1e300, -1e300, 0.5, -2.5};
    for (double x : xs) printf("SGN %a %d\n", x, SimTK::sign(x));
    printf("SIG %a\n", (double)SignificantReal);
}

// ---------------------------------------------------------------------------------------------- root
static double pick(Rng& R) {      // trigger-like value with many exact zeros and both signs
    int c = R.k(8);
    if (c == 0) return 0.0;
    double m = std::ldexp(0.5 + R.u(), R.k(20) - 10);
    return (c & 1) ? m : -m;
}
static void modeRoot(unsigned long long seed, int n) {
    Rng R{seed * 0x2545F4914F6CDD1DULL + 7};
    for (int i = 0; i < n; ++i) {
        double tLow = 10 * R.u() - 2, h = std::ldexp(0.5 + R.u(), -R.k(30)), tHigh = tLow + h;
        double fLow = pick(R), fHigh = pick(R);
        if (SimTK::sign(fLow) == SimTK::sign(fHigh)) fHigh = -fHigh;       // precondition of estimateRootTime
        if (SimTK::sign(fLow) == SimTK::sign(fHigh)) fHigh = 1.0;
        double bias = std::ldexp(1.0, R.k(9) - 4);
        double mw = R.p(0.3) ? h * (0.5 + R.u()) : std::ldexp(1.0, -40 - R.k(10));
        if (!(tLow < tHigh)) continue;
        double r = IntegratorRep::estimateRootTime(tLow, fLow, tHigh, fHigh, bias, mw);
        printf("ROOT %a %a %a %a %a %a %a\n", tLow, fLow, tHigh, fHigh, bias, mw, r);
    }
}

// ---------------------------------------------------------------------------------------------- findEventCandidates
static void printInfo(const IntegratorRep& rep) {
    const Array_<EventTriggerInfo>& info = RepPeek2::info(rep);
    printf("INFO %d", (int)info.size());
    for (int i = 0; i < (int)info.size(); ++i)
        printf(" %d %a %d", (int)info[i].calcTransitionMask(), info[i].getRequiredLocalizationTimeWindow(), (int)info[i].getEventId());
    printf("\n");
}
static void modeFec(unsigned long long seed, int n) {
    Rng R{seed * 0x2545F4914F6CDD1DULL + 11};
    int done = 0;
    while (done < n) {
        Sys S; int nw = 1 + R.k(6);
        std::vector<WSpec> ws;
        for (int i = 0; i < nw; ++i) { ws.push_back(randomWitness(R, 1.0)); S.system.addEventHandler(new TimeWitness(ws.back())); }
        State s = S.system.realizeTopology(); S.system.realizeModel(s);
        RungeKuttaMersonIntegrator integ(S.system);
        const double accs[] = {1e-3, 1e-2, 1e-5, 0.1};
        integ.setAccuracy(accs[R.k(4)]);
        integ.initialize(s);
        const IntegratorRep& rep = RepPeek::rep(integ);
        printf("SYS %a %a\n", rep.getAccuracyInUse(), rep.getTimeScaleInUse());
        printInfo(rep);
        for (int c = 0; c < 12 && done < n; ++c, ++done) {
            double tLow = 5 * R.u(), h = std::ldexp(0.5 + R.u(), -R.k(24)), tHigh = tLow + h;
            if (!(tLow < tHigh)) continue;
            double bias = std::ldexp(1.0, R.k(7) - 3);
            double mw = SignificantReal * std::max(Real(1), tHigh);
            if (R.p(0.2)) mw = h * (0.5 + R.u());
            Vector eLow(nw), eHigh(nw);
            for (int i = 0; i < nw; ++i) { eLow[i] = pick(R); eHigh[i] = R.p(0.5) ? -eLow[i] * (0.5 + R.u()) : pick(R); }
            // viable list: none (all) or a random subsequence
            Array_<SystemEventTriggerIndex> viable; Array_<Event::Trigger> viableTr;
            bool useViable = R.p(0.5);
            if (useViable) for (int i = 0; i < nw; ++i) if (R.p(0.6)) { viable.push_back(SystemEventTriggerIndex(i)); viableTr.push_back(Event::AnySignChange); }
            Array_<SystemEventTriggerIndex> cands; Array_<Real> ests; Array_<Event::Trigger> trs; Real earliest, narrowest;
            rep.findEventCandidates(nw, useViable ? &viable : 0, useViable ? &viableTr : 0, tLow, eLow, tHigh, eHigh, bias, mw,
                                    cands, ests, trs, earliest, narrowest);
            printf("FEC %a %a %a %a %d", tLow, tHigh, bias, mw, useViable ? (int)viable.size() : -1);
            for (auto v : viable) printf(" %d", (int)v);
            printf(" E");
            for (int i = 0; i < nw; ++i) printf(" %a %a", eLow[i], eHigh[i]);
            printf(" R %d", (int)cands.size());
            for (int i = 0; i < (int)cands.size(); ++i) printf(" %d %a %d", (int)cands[i], ests[i], (int)trs[i]);
            printf(" %a %a\n", earliest, narrowest);
        }
    }
}

// ---------------------------------------------------------------------------------------------- event phase on real integrators
// Trivial dynamics (two free sliders, constant speeds), witness functions of time only, fixed step size h and
// setReturnEveryInternalStep(true): every stepTo performs at most one takeOneStep from the advanced time t0, whose t1 is
// determined by (t0, tMax, h) through the step-size selection; the event phase then sees e(t) = witness values at
// t0, t1 and at every interpolation time.  The check recomputes all of it with the extracted model.
static void modeLoc(unsigned long long seed, int nscen) {
    Rng R{seed * 0x2545F4914F6CDD1DULL + 13};
    for (int sc = 0; sc < nscen; ++sc) {
        int kind = sc % 8;                       // the eight AbstractIntegratorRep integrators
        Sys S; int nw = 1 + R.k(6);
        const double T = 1.0;
        std::vector<WSpec> ws;
        for (int i = 0; i < nw; ++i) {
            WSpec w = randomWitness(R, T);
            if (i > 0 && R.p(0.3)) {            // simultaneous crossing: same function as an earlier witness, own mask/window/stage
                const WSpec& o = ws[R.k(i)]; w.kind = o.kind; w.a = o.a; w.b = o.b; w.s = (o.kind == 1 && R.p(0.5)) ? -o.s : o.s; }
            ws.push_back(w); S.system.addEventHandler(new TimeWitness(ws.back()));
        }
        State s = S.system.realizeTopology(); S.system.realizeModel(s);
        S.b->setOneU(s, 0, 1.0);
        const double hs[] = {1.0/64, 1.0/16, 0.013, 0.1, 0.003, 0.25};
        double h = hs[R.k(6)];
        std::unique_ptr<Integrator> integ(makeInteg(kind, S.system, h));
        const double accs[] = {1e-3, 1e-2, 1e-5, 0.1};
        integ->setAccuracy(accs[R.k(4)]);
        if (kind != 6) integ->setFixedStepSize(h);
        integ->setReturnEveryInternalStep(true);
        bool allowInterp = R.p(0.7);
        if (!allowInterp) integ->setAllowInterpolation(false);
        double tFinal = R.p(0.3) ? T * (0.6 + 0.4 * R.u()) : -1;
        if (tFinal > 0) integ->setFinalTime(tFinal);
        integ->initialize(s);
        const IntegratorRep& rep = RepPeek::rep(*integ);
        printf("SCEN %d %s kind=%d h=%a acc=%a ts=%a interp=%d final=%a nw=%d", sc, kindName[kind], kind, h,
               rep.getAccuracyInUse(), rep.getTimeScaleInUse(), (int)allowInterp, tFinal, nw);
        for (auto& w : ws) printWitness(w);
        printf("\n");
        printInfo(rep);
        // report grid: random times, some exactly on multiples of h, some very close to witness crossings
        std::vector<double> reports;
        { double t = 0; while (t < T) { t += (R.p(0.3) ? h * (1 + R.k(3)) : T * 0.2 * R.u() + 1e-3); reports.push_back(t); }
          for (auto& w : ws) if (w.kind == 0 && R.p(0.6)) reports.push_back(w.a + (R.u() - 0.5) * 2e-5 * (R.p(0.5) ? 1 : 100));
          std::sort(reports.begin(), reports.end()); }
        size_t ri = 0; int calls = 0;
        while (calls < 400) {
            while (ri < reports.size() && reports[ri] <= integ->getTime()) ++ri;
            double report = ri < reports.size() ? reports[ri] : Infinity;
            if (report == Infinity && integ->getTime() >= T) break;
            double sched = Infinity;
            double preAdv = integ->getAdvancedTime(); int preSteps = integ->getNumStepsTaken();
            g_recs.clear();
            Integrator::SuccessfulStepStatus st;
            try { st = integ->stepTo(report, sched); }
            catch (const std::exception& e) { std::string m = e.what(); for (char& ch : m) if (ch == '\n' || ch == '\r') ch = ' '; printf("THROW %s\n", m.c_str()); break; }
            ++calls;
            printf("CALL %a %a pre %a %d post %s %a %a %d", report, sched, preAdv, preSteps, stName(st), integ->getTime(),
                   integ->getAdvancedTime(), integ->getNumStepsTaken());
            if (st == Integrator::ReachedEventTrigger) {
                Vec2 w = integ->getEventWindow();
                const Array_<EventId>& ids = integ->getTriggeredEvents();
                const Array_<Real>& est = integ->getEstimatedEventTimes();
                const Array_<Event::Trigger>& tr = integ->getEventTransitionsSeen();
                printf(" EV %a %a %d", w[0], w[1], (int)ids.size());
                for (int i = 0; i < (int)ids.size(); ++i) printf(" %d %a %d", (int)ids[i], est[i], (int)tr[i]);
            }
            // trigger values of the advanced state (cross-check of the oracle function)
            { const State& adv = integ->getAdvancedState();
              printf(" TRG");
              if (adv.getSystemStage() >= Stage::Acceleration) { const Vector& e = adv.getEventTriggers(); for (int i = 0; i < e.size(); ++i) printf(" %a", e[i]); } }
            printf("\n");
            flushRecs();
            if (st == Integrator::EndOfSimulation) break;
            if (st == Integrator::ReachedEventTrigger) integ->reinitialize(Stage::Report, false);   // "handled", nothing modified
        }
        printf("END\n");
    }
}

// ---------------------------------------------------------------------------------------------- TimeStepper
// Handlers act on two free sliders: A (speed 0: a counter changed only by handlers) and B (speed 1: a timer).
// action 0: nothing; 1: qA += (index+1); 2: qB = 0; 3: qA += (index+1) and terminate.
struct HSpec { int cls;          // 0 periodic handler, 1 list handler, 2 triggered handler, 3 periodic reporter, 4 list reporter, 5 triggered reporter
               int action; double interval; std::vector<double> times; WSpec w; };
static int g_hcount = 0;
struct Ctx { const Sys* S; };
static void logCall(const Sys& S, int idx, const char* kind, const State& st) {
    printf("H %d %s %a %a %a\n", idx, kind, st.getTime(), S.a->getOneQ(st, 0), S.b->getOneQ(st, 0));
}
static void act(const Sys& S, int idx, int action, State& st, bool& term) {
    if (action == 1 || action == 3) S.a->setOneQ(st, 0, S.a->getOneQ(st, 0) + (idx + 1));
    if (action == 2) S.b->setOneQ(st, 0, 0.0);
    if (action == 3) term = true;
}
static double listNext(const std::vector<double>& ts, double t, bool incl) {
    for (double x : ts) if (x > t || (incl && x == t)) return x;
    return Infinity;
}
class PerH : public PeriodicEventHandler { public:
    PerH(const Sys& S, int idx, const HSpec& h) : PeriodicEventHandler(h.interval), S(S), idx(idx), h(h) {}
    void handleEvent(State& st, Real, bool& term) const override { logCall(S, idx, "S", st); act(S, idx, h.action, st, term); }
    const Sys& S; int idx; HSpec h; };
class ListH : public ScheduledEventHandler { public:
    ListH(const Sys& S, int idx, const HSpec& h) : S(S), idx(idx), h(h) {}
    Real getNextEventTime(const State& st, bool incl) const override { return listNext(h.times, st.getTime(), incl); }
    void handleEvent(State& st, Real, bool& term) const override { logCall(S, idx, "S", st); act(S, idx, h.action, st, term); }
    const Sys& S; int idx; HSpec h; };
class TrigH : public TriggeredEventHandler { public:
    TrigH(const Sys& S, int idx, const HSpec& h) : TriggeredEventHandler(Stage::Time), S(S), idx(idx), h(h) {
        getTriggerInfo().setTriggerOnRisingSignTransition(h.w.rising); getTriggerInfo().setTriggerOnFallingSignTransition(h.w.falling); }
    Real getValue(const State& st) const override { return wEval(h.w, st.getTime()); }
    void handleEvent(State& st, Real, bool& term) const override { logCall(S, idx, "T", st); act(S, idx, h.action, st, term); }
    const Sys& S; int idx; HSpec h; };
class PerR : public PeriodicEventReporter { public:
    PerR(const Sys& S, int idx, const HSpec& h) : PeriodicEventReporter(h.interval), S(S), idx(idx) {}
    void handleEvent(const State& st) const override { logCall(S, idx, "R", st); }
    const Sys& S; int idx; };
class ListR : public ScheduledEventReporter { public:
    ListR(const Sys& S, int idx, const HSpec& h) : S(S), idx(idx), h(h) {}
    Real getNextEventTime(const State& st, bool incl) const override { return listNext(h.times, st.getTime(), incl); }
    void handleEvent(const State& st) const override { logCall(S, idx, "R", st); }
    const Sys& S; int idx; HSpec h; };
class TrigR : public TriggeredEventReporter { public:
    TrigR(const Sys& S, int idx, const HSpec& h) : TriggeredEventReporter(Stage::Time), S(S), idx(idx), h(h) {
        getTriggerInfo().setTriggerOnRisingSignTransition(h.w.rising); getTriggerInfo().setTriggerOnFallingSignTransition(h.w.falling); }
    Real getValue(const State& st) const override { return wEval(h.w, st.getTime()); }
    void handleEvent(const State& st) const override { logCall(S, idx, "TR", st); }
    const Sys& S; int idx; HSpec h; };

static double dyadic(Rng& R, double T) { return std::ldexp((double)(1 + R.k((int)(T * 64))), -6); }

static void modeTs(unsigned long long seed, int nscen, bool reportAll, bool termVariant = false) {
    Rng R{seed * 0x2545F4914F6CDD1DULL + (termVariant ? 23 : 17)};
    for (int sc = 0; sc < nscen; ++sc) {
        int kind = sc % 9;
        const double T = 2.0;
        Sys S;
        // random handler set; registration order = order in this vector
        std::vector<HSpec> hs; int nh = 1 + R.k(5);
        for (int i = 0; i < nh; ++i) {
            HSpec h; h.cls = R.k(6); h.action = (h.cls >= 3) ? 0 : R.k(10) < 8 ? R.k(3) : 3; h.interval = 0;
            if (h.cls == 0 || h.cls == 3) { const double iv[] = {0.25, 0.125, 0.5, 0.375, 1.0, 0.0625}; h.interval = iv[R.k(6)]; }
            if (h.cls == 1 || h.cls == 4) { int n = 1 + R.k(5); for (int j = 0; j < n; ++j) h.times.push_back(R.p(0.8) ? dyadic(R, T) : T * R.u());
                                            std::sort(h.times.begin(), h.times.end()); }
            if (h.cls == 2 || h.cls == 5) { h.w.kind = 0; h.w.a = T * (0.05 + 0.9 * R.u()); h.w.b = h.w.s = 0; int m = R.k(3);
                                            h.w.rising = m != 1; h.w.falling = m != 2; h.w.window = 0.1; h.w.stage = 0;
                                            if (R.p(0.3)) { h.w.kind = 2; h.w.a = 2 + 6 * R.u(); h.w.b = 6 * R.u(); h.w.s = 0.5 * (R.u() - 0.5); } }
            hs.push_back(h);
        }
        if (termVariant) {
            // several triggered handlers (and reporters) on ONE witness function, so that they are reported in the same event
            // window; exactly one of them asks for termination, at a random position in the registration order; optionally a
            // scheduled handler due earlier/later that may terminate too
            hs.clear();
            WSpec w; w.kind = R.p(0.7) ? 0 : 2; w.a = w.kind == 0 ? T * (0.1 + 0.6 * R.u()) : 2 + 6 * R.u(); w.b = w.kind == 0 ? 0 : 6 * R.u();
            w.s = w.kind == 0 ? 0 : 0.5 * (R.u() - 0.5); w.rising = true; w.falling = true; w.window = 0.1; w.stage = 0;
            int nt = 2 + R.k(3), termAt = R.k(nt);
            if (R.p(0.4)) { HSpec p; p.cls = 0; p.action = R.k(3); p.interval = 0.375; hs.push_back(p); }
            for (int i = 0; i < nt; ++i) {
                HSpec h; h.cls = (i != termAt && R.p(0.25)) ? 5 : 2; h.interval = 0; h.w = w;
                h.action = (i == termAt) ? 3 : (h.cls == 5 ? 0 : R.k(3));
                hs.push_back(h);
            }
            if (R.p(0.3)) { HSpec l; l.cls = 1; l.action = R.p(0.5) ? 3 : 1; l.interval = 0; l.times.push_back(dyadic(R, T)); hs.push_back(l); }
            nh = (int)hs.size();
        }
        for (int i = 0; i < nh; ++i) {
            const HSpec& h = hs[i];
            switch (h.cls) {
            case 0: S.system.addEventHandler(new PerH(S, i, h)); break;
            case 1: S.system.addEventHandler(new ListH(S, i, h)); break;
            case 2: S.system.addEventHandler(new TrigH(S, i, h)); break;
            case 3: S.system.addEventReporter(new PerR(S, i, h)); break;
            case 4: S.system.addEventReporter(new ListR(S, i, h)); break;
            default: S.system.addEventReporter(new TrigR(S, i, h)); break;
            }
        }
        State s = S.system.realizeTopology(); S.system.realizeModel(s);
        S.b->setOneU(s, 0, 1.0);
        double tStart = R.p(0.3) ? 0.25 * R.k(3) : 0.0;
        s.setTime(tStart);
        std::unique_ptr<Integrator> integ(makeInteg(kind, S.system, 0.01));
        integ->setAccuracy(1e-4);
        if (kind != 6 && kind != 8 && R.p(0.5)) integ->setMaximumStepSize(0.05 + 0.2 * R.u());
        double tFinal = R.p(0.3) ? tStart + 0.5 + 1.2 * R.u() : -1;
        if (R.p(0.15) && tFinal > 0) tFinal = tStart + dyadic(R, 1.5);
        if (tFinal > 0) integ->setFinalTime(tFinal);
        bool everyStep = R.p(0.15); if (everyStep) integ->setReturnEveryInternalStep(true);
        int limit = R.p(0.15) ? 1 + R.k(5) : -1; if (limit > 0) integ->setInternalStepLimit(limit);
        TimeStepper ts(S.system, *integ);
        ts.setReportAllSignificantStates(reportAll);
        ts.initialize(s);
        printf("TSCEN %d %s kind=%d tStart=%a final=%a everyStep=%d limit=%d reportAll=%d nh=%d\n", sc, kindName[kind], kind, tStart, tFinal,
               (int)everyStep, limit, (int)reportAll, nh);
        for (int i = 0; i < nh; ++i) {
            const HSpec& h = hs[i];
            printf("HS %d %d %d %a %d", i, h.cls, h.action, h.interval, (int)h.times.size());
            for (double x : h.times) printf(" %a", x);
            printWitness(h.w.kind >= 0 && (h.cls == 2 || h.cls == 5) ? h.w : WSpec{0,0,0,0,false,false,0.1,0});
            printf("\n");
        }
        printInfo(RepPeek::rep(*integ));
        // targets
        std::vector<double> targets; { double t = tStart; int nt = 1 + R.k(3); for (int j = 0; j < nt; ++j) { t += R.p(0.5) ? dyadic(R, 1.0) : 0.05 + 0.9 * R.u(); targets.push_back(t); } }
        if (termVariant) { targets.clear(); targets.push_back(tStart + 0.5 * T); targets.push_back(tStart + T); }   // long enough to reach the crossing
        int guard = 0; bool over = false;
        for (size_t ti = 0; ti < targets.size() && !over; ++ti) {
            printf("TARGET %a\n", targets[ti]);
            while (guard++ < 5000) {
                Integrator::SuccessfulStepStatus st;
                try { st = ts.stepTo(targets[ti]); }
                catch (const std::exception& e) { std::string m = e.what(); for (char& ch : m) if (ch == '\n' || ch == '\r') ch = ' '; printf("THROW %s\n", m.c_str()); over = true; break; }
                // read the window / triggered events from the rep: the public accessors refuse once a terminating handler
                // has moved the integrator to FinalTimeHasBeenReturned
                const IntegratorRep& rp = RepPeek::rep(*integ);
                Vec2 w(NaN, NaN); if (st == Integrator::ReachedEventTrigger) w = Vec2(RepPeek2::winLow(rp), RepPeek2::winHigh(rp));
                printf("RET %s %a %a %d %a %a", stName(st), integ->getTime(), integ->getAdvancedTime(), (int)integ->isSimulationOver(), w[0], w[1]);
                if (st == Integrator::ReachedEventTrigger) { const Array_<EventId>& ids = RepPeek2::trig(rp); printf(" %d", (int)ids.size()); for (auto id : ids) printf(" %d", (int)id); }
                else printf(" 0");
                printf(" Q %a %a TR %d\n", S.a->getOneQ(integ->getAdvancedState(), 0), S.b->getOneQ(integ->getAdvancedState(), 0),
                       integ->isSimulationOver() ? (int)integ->getTerminationReason() : -1);
                if (integ->isSimulationOver()) { over = true; break; }
                if (st == Integrator::ReachedReportTime && integ->getTime() >= targets[ti]) break;
                if (!reportAll) break;
            }
        }
        printf("END\n");
    }
}


// ---------------------------------------------------------------------------------------------- two subsystems with scheduled events
// A second subsystem owning one scheduled event at time `at`; the default subsystem owns a list-scheduled handler.
class SubGuts : public Subsystem::Guts {
public:
    explicit SubGuts(double at) : Subsystem::Guts("C22sub", "0.0.1"), at(at) {}
    Subsystem::Guts* cloneImpl() const override { return new SubGuts(*this); }
    int realizeSubsystemTopologyImpl(State& s) const override { createScheduledEvent(s, id); return 0; }
    void calcTimeOfNextScheduledEventImpl(const State& s, Real& tNext, Array_<EventId>& ids, bool incl) const override {
        // same loop as DefaultSystemSubsystem::Guts::calcTimeOfNextScheduledEventImpl for a single handler whose
        // getNextEventTime is `at` while it is still due and Infinity afterwards
        const Real time = (at > s.getTime() || (incl && at == s.getTime())) ? at : Infinity;
        tNext = Infinity;
        if (time <= tNext && (time > s.getTime() || (incl && time == s.getTime()))) { tNext = time; ids.push_back(id); }
    }
    void handleEventsImpl(State& s, Event::Cause, const Array_<EventId>&, const HandleEventsOptions&, HandleEventsResults& r) const override {
        printf("H sub S %a\n", s.getTime());
        r.setExitStatus(HandleEventsResults::Succeeded);
    }
    mutable EventId id; double at;
};
class SubHandle : public Subsystem { public:
    SubHandle(System& sys, double at) { adoptSubsystemGuts(new SubGuts(at)); sys.adoptSubsystem(*this); } };

static void modeSub2(unsigned long long seed, int n) {
    Rng R{seed * 0x2545F4914F6CDD1DULL + 19};
    for (int c = 0; c < n; ++c) {
        Sys S;
        int ndef = 1 + R.k(2), nsub = 1 + R.k(3);
        std::vector<HSpec> hs; std::vector<double> subT;
        for (int i = 0; i < ndef; ++i) { HSpec h; h.cls = 1; h.action = 0; h.interval = 0; int nt = 1 + R.k(2);
            for (int k = 0; k < nt; ++k) h.times.push_back(std::ldexp((double)(1 + R.k(16)), -4));
            std::sort(h.times.begin(), h.times.end()); hs.push_back(h); }
        for (int j = 0; j < nsub; ++j) subT.push_back(std::ldexp((double)(1 + R.k(16)), -4));
        if (c == 0) { ndef = 1; nsub = 1; hs.resize(1); hs[0].times.assign(1, 0.5); subT.assign(1, 0.3125); }       // the witness of the Coq theorem
        if (c == 1) { ndef = 1; nsub = 1; hs.resize(1); hs[0].times.assign(1, 0.3125); subT.assign(1, 0.5); }
        for (int i = 0; i < ndef; ++i) S.system.addEventHandler(new ListH(S, i, hs[i]));
        std::vector<std::unique_ptr<SubHandle>> subs;
        for (int j = 0; j < nsub; ++j) subs.emplace_back(new SubHandle(S.system, subT[j]));
        State s = S.system.realizeTopology(); S.system.realizeModel(s);
        S.b->setOneU(s, 0, 1.0);
        printf("SUBCASE %d", ndef);
        for (int i = 0; i < ndef; ++i) { printf(" %d", (int)hs[i].times.size()); for (double x : hs[i].times) printf(" %a", x); }
        printf(" %d", nsub); for (double x : subT) printf(" %a", x);
        printf("\n");
        for (int q = 0; q < 5; ++q) {
            double t = (c < 2 && q == 0) ? 0.0 : (c < 2 && q == 1) ? 0.3125 : std::ldexp((double)R.k(17), -4); bool incl = (c < 2) ? (q == 0) : R.p(0.5);
            s.setTime(t); S.system.realize(s, Stage::Time);
            Real tn; Array_<EventId> ids;
            S.system.calcTimeOfNextScheduledEvent(s, tn, ids, incl);
            printf("NEXT %a %d %a %d", t, (int)incl, tn, (int)ids.size()); for (auto id : ids) printf(" %d", (int)id); printf("\n");
        }
        if (c < 2) {        // full TimeStepper run: who is called when
            s.setTime(0); RungeKuttaMersonIntegrator integ(S.system);
            TimeStepper ts(S.system, integ);
            ts.initialize(s);
            ts.stepTo(0.75);
            printf("ENDRUN %a\n", integ.getTime());
        }
    }
}

int main(int argc, char** argv) {
    std::string mode = argc > 1 ? argv[1] : "table";
    unsigned long long seed = argc > 2 ? strtoull(argv[2], 0, 10) : 1;
    int n = argc > 3 ? atoi(argv[3]) : 10;
    SimTK::VerifTrace::sink().store(&sinkFn);
    if (mode == "table") modeTable();
    else if (mode == "root") modeRoot(seed, n);
    else if (mode == "fec") modeFec(seed, n);
    else if (mode == "loc") modeLoc(seed, n);
    else if (mode == "ts") modeTs(seed, n, argc > 4 && atoi(argv[4]) != 0);
    else if (mode == "tsterm") modeTs(seed, n, argc > 4 && atoi(argv[4]) != 0, true);
    else if (mode == "sub2") modeSub2(seed, n);
    else { fprintf(stderr, "unknown mode\n"); return 2; }
    return 0;
}
